(* Proofs/HumanizeGlueFacts.v — the hand-written locale session machine Model/LocaleSession.v (C18) EQUALS the machine translation of pendulum's own
   code (Gen/HumanizeGlue.v: locales/locale.py Locale.normalize_locale / Locale.load, helpers.py locale / set_locale / get_locale / format_diff,
   translated from /repo on every run with pendulum._LOCALE and Locale._cache as explicit state).
   cache_ok c: every entry of the cache is what a fresh load of its key would build.  It holds of the empty cache and every translated function
   preserves it, so Locale._cache is a TRANSPARENT memo: a theorem here, not an assumption. *)
From Coq Require Import ZArith List Bool String Lia.
From PV Require Import Lib.PyBase Model.LocaleBase Gen.Locales Model.DiffFormat Model.LocaleSession Model.HumanizeObj Gen.HumanizeGlue.
Import ListNotations.
Open Scope Z_scope.

Lemma pstr_eqb_refl a : pstr_eqb a a = true.
Proof. induction a as [|x a IH]; [reflexivity|]. cbn. rewrite Z.eqb_refl, IH. reflexivity. Qed.
Lemma pstr_eqb_eq : forall a b, pstr_eqb a b = true -> a = b.
Proof.
  induction a as [|x a IH]; intros [|y b] H; try reflexivity; try discriminate.
  cbn in H. apply andb_true_iff in H. destruct H as [H1 H2]. apply Z.eqb_eq in H1. rewrite H1, (IH b H2). reflexivity.
Qed.

(* ---------- Locale.normalize_locale ---------- *)
Theorem glue_normalize_locale_spec s : glue_normalize_locale s = normalize_locale s.
Proof.
  unfold glue_normalize_locale, normalize_locale, re_match_locale. cbv zeta.
  destruct s as [|a [|b [|sp [|c [|d r]]]]]; try reflexivity.
  destruct (is_az a && is_az b && ((sp =? 45) || (sp =? 95)) && is_az c && is_az d); reflexivity.
Qed.

(* ---------- Locale.load: the cache is transparent ---------- *)
Definition cache_ok (c : gcache) : Prop :=
  forall k L, cache_get_opt c k = Some L -> find_locale k = Some (gl_data L) /\ gl_name L = k.
Lemma cache_ok_nil : cache_ok []. Proof. intros k L H. discriminate. Qed.

Theorem glue_load_spec c name : cache_ok c ->
  match glue_Locale_load c name with
  | Ok (L, c') => load name = Ok (gl_data L) /\ gl_name L = normalize_locale name /\ cache_ok c'
  | Raise e => load name = Raise e
  end.
Proof.
  intros K. unfold glue_Locale_load, load. cbv zeta. rewrite glue_normalize_locale_spec. set (n := normalize_locale name).
  unfold cache_has, cache_get. destruct (cache_get_opt c n) as [L|] eqn:G.
  - destruct (K n L G) as [F N]. rewrite F. split; [reflexivity|split; [exact N|exact K]].
  - unfold dir_exists, locale_module. destruct (find_locale n) as [D|] eqn:F; cbn [negb]; [|reflexivity].
    unfold cache_set. cbn [cache_get_opt]. rewrite pstr_eqb_refl. cbn [gl_data gl_name]. split; [reflexivity|split; [reflexivity|]].
    intros k L H. cbn [cache_get_opt] in H. destruct (pstr_eqb n k) eqn:E.
    + injection H as <-. apply pstr_eqb_eq in E. subst k. cbn [gl_data gl_name]. split; [exact F|reflexivity].
    + exact (K k L H).
Qed.

(* the loaded data does not depend on the contents of the cache *)
Corollary load_is_transparent c1 c2 name : cache_ok c1 -> cache_ok c2 ->
  match glue_Locale_load c1 name, glue_Locale_load c2 name with
  | Ok (L1, _), Ok (L2, _) => L1 = L2
  | Raise e1, Raise e2 => e1 = e2
  | _, _ => False
  end.
Proof.
  intros K1 K2. pose proof (glue_load_spec c1 name K1) as H1. pose proof (glue_load_spec c2 name K2) as H2.
  destruct (glue_Locale_load c1 name) as [[L1 c1']|e1], (glue_Locale_load c2 name) as [[L2 c2']|e2].
  - destruct H1 as (A1 & B1 & _), H2 as (A2 & B2 & _). destruct L1, L2. cbn in *. congruence.
  - destruct H1 as (A1 & _). congruence.
  - destruct H2 as (A2 & _). congruence.
  - congruence.
Qed.

Lemma find_locale_name n L : find_locale n = Some L -> pstr_of_string (l_name L) = n.
Proof. unfold find_locale. intros H. apply find_some in H. destruct H as [_ H]. exact (pstr_eqb_eq _ _ H). Qed.

(* ---------- the operations of a session: LocaleSession.step ---------- *)
Theorem glue_locale_step c st name : cache_ok c ->
  match glue_locale c name with
  | Ok (L, c') => step st (SLoad name) = (st, Ok (gl_name L)) /\ cache_ok c'
  | Raise e => step st (SLoad name) = (st, Raise e)
  end.
Proof.
  intros K. unfold glue_locale. pose proof (glue_load_spec c name K) as H. cbn [step].
  destruct (glue_Locale_load c name) as [[L c']|e].
  - destruct H as (A & B & C). rewrite A. cbn [bind]. split; [|exact C]. f_equal. f_equal.
    unfold load in A. destruct (find_locale (normalize_locale name)) as [D|] eqn:F; [|discriminate]. injection A as <-.
    rewrite (find_locale_name _ _ F), B. reflexivity.
  - rewrite H. reflexivity.
Qed.

Theorem glue_set_locale_step c st name : cache_ok c ->
  match glue_set_locale c name with
  | Ok (st', c') => step st (SSet name) = (st', Ok []) /\ cache_ok c'
  | Raise e => step st (SSet name) = (st, Raise e)
  end.
Proof.
  intros K. unfold glue_set_locale, glue_locale. pose proof (glue_load_spec c name K) as H. cbn [step].
  destruct (glue_Locale_load c name) as [[L c']|e]; cbv beta iota zeta.
  - destruct H as (A & _ & C). rewrite A. split; [reflexivity|exact C].
  - rewrite H. reflexivity.
Qed.

Theorem glue_get_locale_step st : step st SGet = (st, Ok (glue_get_locale st)).
Proof. reflexivity. Qed.

Theorem glue_format_diff_step c st loc d is_now absolute invert : cache_ok c ->
  match glue_format_diff c st (mkgdiff d invert) is_now absolute loc with
  | Ok (s, c') => step st (SFmt loc d is_now absolute invert) = (st, Ok s) /\ cache_ok c'
  | Raise e => step st (SFmt loc d is_now absolute invert) = (st, Raise e)
  end.
Proof.
  intros K. unfold glue_format_diff, g_fmt, glue_get_locale. cbv zeta. cbn [step gdf_comp gdf_invert].
  assert (E : match loc with None => st | Some w_ => w_ end = eff st loc) by (destruct loc; reflexivity). rewrite E.
  pose proof (glue_load_spec c (eff st loc) K) as H. destruct (glue_Locale_load c (eff st loc)) as [[L c']|e].
  - destruct H as (A & _ & C). rewrite A. cbn [bind]. destruct (format (gl_data L) d is_now absolute invert); [split; [reflexivity|exact C]|reflexivity].
  - rewrite H. reflexivity.
Qed.

(* ====================================================================================================================================
   Duration.in_words / Interval.in_words (the skeleton) and DateTime/Date.diff_for_humans (the wiring into format_diff)
   ==================================================================================================================================== *)
From PV Require Import Model.PdBase Model.DiffHumans.

(* the loop (left fold of the translated body, appending) = DiffFormat.words_parts (which conses in the same order) *)
Lemma Duration_loop_spec L : forall l parts,
  glue_Duration_in_words_loop L parts l = bind (words_parts (gl_data L) l) (fun rest => Ok (parts ++ rest)).
Proof.
  induction l as [|[u c] r IH]; intros parts; cbn [glue_Duration_in_words_loop words_parts bind]; [rewrite app_nil_r; reflexivity|].
  unfold glue_Duration_in_words_step. rewrite Z.gtb_ltb. destruct (0 <? Z.abs c); [|apply IH].
  unfold loc_translation, mk_ukey, loc_plural. cbn [fst snd].
  destruct (lget (gl_data L) _) as [o|e]; cbn [bind]; [|reflexivity].
  destruct (fmt_count o c) as [s|e]; cbn [bind]; [|reflexivity].
  rewrite IH. unfold lp_append. destruct (words_parts (gl_data L) r) as [rest|e]; cbn [bind]; [|reflexivity].
  rewrite <- app_assoc. reflexivity.
Qed.
Lemma Interval_loop_spec L : forall l parts,
  glue_Interval_in_words_loop L parts l = bind (words_parts (gl_data L) l) (fun rest => Ok (parts ++ rest)).
Proof.
  induction l as [|[u c] r IH]; intros parts; cbn [glue_Interval_in_words_loop words_parts bind]; [rewrite app_nil_r; reflexivity|].
  unfold glue_Interval_in_words_step. rewrite Z.gtb_ltb. destruct (0 <? Z.abs c); [|apply IH].
  unfold loc_translation, mk_ukey, loc_plural. cbn [fst snd].
  destruct (lget (gl_data L) _) as [o|e]; cbn [bind]; [|reflexivity].
  destruct (fmt_count o c) as [s|e]; cbn [bind]; [|reflexivity].
  rewrite IH. unfold lp_append. destruct (words_parts (gl_data L) r) as [rest|e]; cbn [bind]; [|reflexivity].
  rewrite <- app_assoc. reflexivity.
Qed.

(* what is left once the locale is loaded: the code's tail = DiffFormat.in_words on the loaded data *)
Ltac words_tail L d us :=
  unfold in_words; change (unit_counts d) with (glue_Duration_in_words_intervals (mkgwords d us));
  destruct (words_parts (gl_data L) _) as [parts|e]; cbn [bind]; [|reflexivity];
  cbn [app]; destruct parts as [|p ps]; cbn [lp_truth negb gw_us];
  [ rewrite Z.gtb_ltb; destruct (0 <? Z.abs us); unfold loc_translation, mk_ukey, loc_plural; cbn [fst snd];
    (destruct (lget (gl_data L) _) as [o|e]; cbn [bind]; [|reflexivity]); unfold fmt_count;
    (destruct (node_format o _) as [s|e]; [|reflexivity]); reflexivity
  | reflexivity ].

Lemma eff_match st loc : match loc with None => st | Some w_ => w_ end = eff st loc.
Proof. destruct loc; reflexivity. Qed.

Lemma Duration_in_words_loaded c st loc d us sep L c' : glue_Locale_load c (eff st loc) = Ok (L, c') ->
  glue_Duration_in_words c st (mkgwords d us) loc sep = match in_words (gl_data L) d us sep with Ok s => Ok (s, c') | Raise e => Raise e end.
Proof.
  intros H. unfold glue_Duration_in_words, glue_locale, glue_get_locale. cbv zeta. rewrite eff_match, H. cbv beta iota.
  rewrite Duration_loop_spec. unfold lp_nil. words_tail L d us.
Qed.

Theorem glue_Duration_in_words_step_thm c st loc d us sep : cache_ok c ->
  match glue_Duration_in_words c st (mkgwords d us) loc sep with
  | Ok (s, c') => step st (SWords loc d us sep) = (st, Ok s) /\ cache_ok c'
  | Raise e => step st (SWords loc d us sep) = (st, Raise e)
  end.
Proof.
  intros K. cbn [step]. pose proof (glue_load_spec c (eff st loc) K) as H.
  destruct (glue_Locale_load c (eff st loc)) as [[L c']|e] eqn:G.
  - rewrite (Duration_in_words_loaded _ _ _ _ _ _ _ _ G). destruct H as (A & _ & C). rewrite A. cbn [bind].
    destruct (in_words (gl_data L) d us sep); [split; [reflexivity|exact C]|reflexivity].
  - unfold glue_Duration_in_words, glue_locale, glue_get_locale. cbv zeta. rewrite eff_match, G, H. reflexivity.
Qed.

(* Interval.in_words loads `locale or pendulum.get_locale()`: the configured locale also for locale="" *)
Definition falsy_is_none (loc : option pstr) : option pstr := match loc with Some [] => None | x => x end.
Lemma opt_str_or_eff st loc : opt_str_or loc st = eff st (falsy_is_none loc).
Proof. destruct loc as [[|x r]|]; reflexivity. Qed.

Lemma Interval_in_words_loaded c st loc d us sep L c' : glue_Locale_load c (eff st (falsy_is_none loc)) = Ok (L, c') ->
  glue_Interval_in_words c st (mkgwords d us) loc sep = match in_words (gl_data L) d us sep with Ok s => Ok (s, c') | Raise e => Raise e end.
Proof.
  intros H. unfold glue_Interval_in_words, glue_get_locale. cbv zeta. rewrite opt_str_or_eff, H. cbv beta iota.
  rewrite Interval_loop_spec. unfold lp_nil. change (glue_Interval_in_words_intervals (mkgwords d us)) with (glue_Duration_in_words_intervals (mkgwords d us)).
  words_tail L d us.
Qed.

Theorem glue_Interval_in_words_step_thm c st loc d us sep : cache_ok c ->
  match glue_Interval_in_words c st (mkgwords d us) loc sep with
  | Ok (s, c') => step st (SWords (falsy_is_none loc) d us sep) = (st, Ok s) /\ cache_ok c'
  | Raise e => step st (SWords (falsy_is_none loc) d us sep) = (st, Raise e)
  end.
Proof.
  intros K. cbn [step]. pose proof (glue_load_spec c (eff st (falsy_is_none loc)) K) as H.
  destruct (glue_Locale_load c (eff st (falsy_is_none loc))) as [[L c']|e] eqn:G.
  - rewrite (Interval_in_words_loaded _ _ _ _ _ _ _ _ G). destruct H as (A & _ & C). rewrite A. cbn [bind].
    destruct (in_words (gl_data L) d us sep); [split; [reflexivity|exact C]|reflexivity].
  - unfold glue_Interval_in_words, glue_get_locale. cbv zeta. rewrite opt_str_or_eff, G, H. reflexivity.
Qed.

(* the two in_words are the same function of (state, receiver, separator) except for locale="" *)
Corollary Interval_in_words_is_Duration_in_words c st loc w sep : loc <> Some [] ->
  glue_Interval_in_words c st w loc sep = glue_Duration_in_words c st w loc sep.
Proof.
  intros N. destruct w as [d us]. assert (F : falsy_is_none loc = loc) by (destruct loc as [[|x r]|]; try reflexivity; congruence).
  destruct (glue_Locale_load c (eff st loc)) as [[L c']|e] eqn:G.
  - rewrite (Duration_in_words_loaded _ _ _ _ _ _ _ _ G). rewrite <- F in G. rewrite (Interval_in_words_loaded _ _ _ _ _ _ _ _ G). reflexivity.
  - unfold glue_Interval_in_words, glue_Duration_in_words, glue_locale, glue_get_locale. cbv zeta. rewrite opt_str_or_eff, eff_match, F, G. reflexivity.
Qed.

(* ---------- DateTime.diff_for_humans / Date.diff_for_humans ---------- *)
(* is_now = (other is None); the value compared with = other, else the clock reading; diff = self.diff(that value); then format_diff with
   exactly (diff, is_now, absolute, locale) *)
Definition dfh_other (clock : pdt) (other : option pdt) : pdt := match other with Some b => b | None => clock end.
Definition dfh_is_now (other : option pdt) : bool := match other with Some _ => false | None => true end.
Definition dfh_model (st : pstr) (clock : pdt) (rs : bool) (a : pdt) (other : option pdt) (absolute : bool) (loc : option pstr) : result pstr :=
  bind (diff_comps rs a (dfh_other clock other)) (fun ci => snd (step st (SFmt loc (fst ci) (dfh_is_now other) absolute (snd ci)))).

Theorem glue_DateTime_diff_for_humans_thm c st clock rs a other absolute loc : cache_ok c ->
  match glue_DateTime_diff_for_humans c st clock rs a other absolute loc with
  | Ok (s, c') => dfh_model st clock rs a other absolute loc = Ok s /\ cache_ok c'
  | Raise e => dfh_model st clock rs a other absolute loc = Raise e
  end.
Proof.
  intros K. unfold glue_DateTime_diff_for_humans, dfh_model, h_diff. cbv zeta.
  destruct other as [b|]; cbn [dfh_other dfh_is_now]; cbv beta iota;
  (destruct (diff_comps rs a _) as [[d inv]|e]; cbn [bind fst snd]; [|reflexivity]);
  match goal with |- context [glue_format_diff c st (mkgdiff d inv) ?n absolute loc] =>
    pose proof (glue_format_diff_step c st loc d n absolute inv K) as H; destruct (glue_format_diff c st (mkgdiff d inv) n absolute loc) as [[s c']|e] end;
  try (destruct H as [H C]; rewrite H; split; [reflexivity|exact C]); rewrite H; reflexivity.
Qed.

Theorem glue_Date_diff_for_humans_thm c st clock rs a other absolute loc : cache_ok c ->
  match glue_Date_diff_for_humans c st clock rs a other absolute loc with
  | Ok (s, c') => dfh_model st clock rs a other absolute loc = Ok s /\ cache_ok c'
  | Raise e => dfh_model st clock rs a other absolute loc = Raise e
  end.
Proof. exact (glue_DateTime_diff_for_humans_thm c st clock rs a other absolute loc). Qed.

(* with an explicit other and a locale that loads, this is Model/DiffHumans.v diff_for_humans *)
Corollary dfh_model_is_DiffHumans st clock rs a b absolute loc L : load (eff st loc) = Ok L ->
  dfh_model st clock rs a (Some b) absolute loc = diff_for_humans L rs a b absolute.
Proof.
  intros A. unfold dfh_model, diff_for_humans. cbn [dfh_other dfh_is_now step snd]. rewrite A. reflexivity.
Qed.

(* ---------- Locale.plural / ordinal / ordinalize ---------- *)
Theorem glue_Locale_plural_spec L n : glue_Locale_plural L n = lplural L n.
Proof. reflexivity. Qed.
Theorem glue_Locale_ordinal_spec L n : glue_Locale_ordinal L n = lordinal L n.
Proof. reflexivity. Qed.
Theorem glue_Locale_ordinalize_spec L n : glue_Locale_ordinalize L n = ordinalize L n.
Proof.
  unfold glue_Locale_ordinalize, ordinalize, ordinalize_with, loc_get_custom_ordinal, glue_Locale_ordinal, pcat.
  destruct (lget L _) as [o|e]; cbn [bind]; [|reflexivity].
  destruct (truthy o); cbn [negb]; [|reflexivity]. destruct (node_str o); reflexivity.
Qed.

(* ====================================================================================================================================
   Locale.get / Locale.translation: the translated split-walk-catch with the per-object memo _key_cache  =  LocaleBase.lookup on the path
   ==================================================================================================================================== *)
From Coq Require Import Ascii NArith.

Lemma map_inj {A B} (f : A -> B) : (forall x y, f x = f y -> x = y) -> forall l l', map f l = map f l' -> l = l'.
Proof.
  intros I. induction l as [|x l IH]; intros [|y l'] H; try reflexivity; try discriminate.
  cbn in H. injection H as H1 H2. rewrite (I _ _ H1), (IH _ H2). reflexivity.
Qed.
Lemma pstr_of_string_inj s t : pstr_of_string s = pstr_of_string t -> s = t.
Proof.
  unfold pstr_of_string. intros H. apply map_inj in H.
  - rewrite <- (string_of_list_ascii_of_string s), <- (string_of_list_ascii_of_string t), H. reflexivity.
  - intros x y E. apply N2Z.inj in E. rewrite <- (ascii_N_embedding x), <- (ascii_N_embedding y), E. reflexivity.
Qed.
Lemma pstr_eqb_neq a b : a <> b -> pstr_eqb a b = false.
Proof. intros N. destruct (pstr_eqb a b) eqn:E; [|reflexivity]. apply pstr_eqb_eq in E. contradiction. Qed.

(* d[k] with the str of a Coq string = the model's assoc (KS s) *)
Lemma assoc_p_spec s : forall l, assoc_p (pstr_of_string s) l = assoc (KS s) l.
Proof.
  induction l as [|[[s'|z] v] r IH]; [reflexivity| |exact IH].
  cbn [assoc_p assoc key_eqb]. destruct (String.eqb_spec s s') as [<-|N].
  - rewrite pstr_eqb_refl. reflexivity.
  - rewrite pstr_eqb_neq; [exact IH|]. intros E. apply pstr_of_string_inj in E. congruence.
Qed.

(* KeyError -> None (the handler with the default None); every other exception propagates *)
Definition catch_key (r : result node) : result (option node) :=
  match r with Ok v => Ok (Some v) | Raise E_KeyError => Ok None | Raise e => Raise e end.

Lemma loop_is_lookup : forall path n, catch_key (glue_Locale_get_loop n (map pstr_of_string path)) = lookup n path.
Proof.
  induction path as [|k rest IH]; intros n; [reflexivity|].
  cbn [map glue_Locale_get_loop lookup]. unfold glue_Locale_get_step, node_getitem.
  destruct n as [raw t|z| |l]; try reflexivity.
  rewrite assoc_p_spec. destruct (assoc (KS k) l) as [n'|]; [|reflexivity]. apply IH.
Qed.

(* what a call with an EMPTY memo and the default None computes *)
Definition get_fresh (L : locale) (key : pstr) : result (option node) := catch_key (glue_Locale_get_loop (l_data L) (psplit 46 key)).

Lemma psplit_nonempty sep : forall s, psplit sep s <> [].
Proof. induction s as [|c r IH]; cbn [psplit]; [discriminate|]. destruct (c =? sep); [discriminate|]. destruct (psplit sep r); discriminate. Qed.

(* every entry of the memo is what a fresh call on its key returns *)
Definition kc_ok (L : locale) (c : gkcache) : Prop := forall k v, kc_get_opt c k = Some v -> get_fresh L k = Ok v.
Lemma kc_ok_nil L : kc_ok L []. Proof. intros k v H. discriminate. Qed.
Lemma kc_ok_set L c k v : kc_ok L c -> get_fresh L k = Ok v -> kc_ok L (kc_set c k v).
Proof.
  intros K G k' v' H. unfold kc_set in H. cbn [kc_get_opt] in H. destruct (pstr_eqb k k') eqn:E.
  - injection H as <-. apply pstr_eqb_eq in E. subst k'. exact G.
  - exact (K k' v' H).
Qed.

Lemma try_body_is_loop L key :
  match node_getitem (l_data L) (lp_head (psplit 46 key)) with
  | Raise e => Raise e
  | Ok m => match glue_Locale_get_loop m (lp_tail (psplit 46 key)) with Raise e => Raise e | Ok m2 => Ok m2 end
  end = glue_Locale_get_loop (l_data L) (psplit 46 key).
Proof.
  pose proof (psplit_nonempty 46 key) as NE. destruct (psplit 46 key) as [|h t]; [congruence|].
  cbn [lp_head lp_tail glue_Locale_get_loop]. unfold glue_Locale_get_step.
  destruct (node_getitem (l_data L) h) as [m|e]; [|reflexivity]. destruct (glue_Locale_get_loop m t); reflexivity.
Qed.

Theorem glue_Locale_get_fresh L c key : kc_ok L c ->
  match glue_Locale_get c L key None with
  | Ok (v, c') => get_fresh L key = Ok v /\ kc_ok L c'
  | Raise e => get_fresh L key = Raise e
  end.
Proof.
  intros K. unfold glue_Locale_get. cbv zeta. unfold kc_has. destruct (kc_get_opt c key) as [v|] eqn:G.
  - unfold kc_get. rewrite G. split; [exact (K key v G)|exact K].
  - rewrite try_body_is_loop. unfold get_fresh.
    assert (S : forall v, get_fresh L key = Ok v -> kc_get (kc_set c key v) key = v /\ kc_ok L (kc_set c key v)).
    { intros v F. split; [|exact (kc_ok_set L c key v K F)]. unfold kc_get, kc_set. cbn [kc_get_opt]. rewrite pstr_eqb_refl. reflexivity. }
    unfold get_fresh in S. destruct (glue_Locale_get_loop (l_data L) (psplit 46 key)) as [v|e]; cbn [catch_key] in *.
    + destruct (S (Some v) eq_refl) as [A B]. rewrite A. split; [reflexivity|exact B].
    + destruct e; try reflexivity. destruct (S None eq_refl) as [A B]. rewrite A. split; [reflexivity|exact B].
Qed.

(* the memo is transparent: what get returns does not depend on the contents of _key_cache *)
Corollary key_cache_is_transparent L c1 c2 key : kc_ok L c1 -> kc_ok L c2 ->
  match glue_Locale_get c1 L key None, glue_Locale_get c2 L key None with
  | Ok (v1, _), Ok (v2, _) => v1 = v2
  | Raise e1, Raise e2 => e1 = e2
  | _, _ => False
  end.
Proof.
  intros K1 K2. pose proof (glue_Locale_get_fresh L c1 key K1) as H1. pose proof (glue_Locale_get_fresh L c2 key K2) as H2.
  destruct (glue_Locale_get c1 L key None) as [[v1 c1']|e1], (glue_Locale_get c2 L key None) as [[v2 c2']|e2].
  - destruct H1 as [A1 _], H2 as [A2 _]. congruence.
  - destruct H1 as [A1 _]. congruence.
  - destruct H2 as [A2 _]. congruence.
  - congruence.
Qed.

(* ---------- a dotted key and its path ---------- *)
Definition dot_free (s : pstr) : bool := forallb (fun c => negb (c =? 46)) s.
Definition dotted (path : list string) : pstr := join [46] (map pstr_of_string path).

Lemma psplit_dot_free : forall a, dot_free a = true -> psplit 46 a = [a].
Proof.
  induction a as [|c r IH]; intros H; [reflexivity|]. cbn [dot_free forallb] in H. apply andb_true_iff in H. destruct H as [H1 H2].
  cbn [psplit]. destruct (c =? 46); [discriminate|]. rewrite (IH H2). reflexivity.
Qed.
Lemma psplit_app : forall a b, dot_free a = true -> psplit 46 (a ++ 46 :: b) = a :: psplit 46 b.
Proof.
  induction a as [|c r IH]; intros b H; [reflexivity|]. cbn [dot_free forallb] in H. apply andb_true_iff in H. destruct H as [H1 H2].
  cbn [app psplit]. destruct (c =? 46); [discriminate|]. rewrite (IH b H2). reflexivity.
Qed.
Lemma psplit_dotted : forall path, path <> [] -> forallb (fun s => dot_free (pstr_of_string s)) path = true ->
  psplit 46 (dotted path) = map pstr_of_string path.
Proof.
  unfold dotted. induction path as [|a [|b r] IH]; intros NE H; [congruence| |].
  - cbn [map join]. cbn [forallb] in H. apply andb_true_iff in H. apply psplit_dot_free. exact (proj1 H).
  - cbn [forallb] in H. apply andb_true_iff in H. destruct H as [H1 H2].
    change (join [46] (map pstr_of_string (a :: b :: r))) with (pstr_of_string a ++ 46 :: join [46] (map pstr_of_string (b :: r))).
    rewrite (psplit_app _ _ H1), IH; [reflexivity|discriminate|exact H2].
Qed.

Lemma get_fresh_path L path : path <> [] -> forallb (fun s => dot_free (pstr_of_string s)) path = true ->
  get_fresh L (dotted path) = lget L path.
Proof. intros NE H. unfold get_fresh, lget. rewrite (psplit_dotted path NE H). apply loop_is_lookup. Qed.

(* Locale.get(key) for the key "p1.p2...pn" = LocaleBase.lookup on [p1; ...; pn] (Locale.get's model), whatever the memo holds *)
Theorem glue_Locale_get_spec L c path : kc_ok L c -> path <> [] -> forallb (fun s => dot_free (pstr_of_string s)) path = true ->
  match glue_Locale_get c L (dotted path) None with
  | Ok (v, c') => lget L path = Ok v /\ kc_ok L c'
  | Raise e => lget L path = Raise e
  end.
Proof. intros K NE H. rewrite <- (get_fresh_path L path NE H). exact (glue_Locale_get_fresh L c (dotted path) K). Qed.

Lemma translations_dotted path : path <> [] -> pcat s_translations_dot (dotted path) = dotted ("translations"%string :: path).
Proof. intros NE. destruct path as [|a r]; [congruence|]. reflexivity. Qed.

Theorem glue_Locale_translation_spec L c path : kc_ok L c -> path <> [] -> forallb (fun s => dot_free (pstr_of_string s)) path = true ->
  match glue_Locale_translation c L (dotted path) with
  | Ok (v, c') => lget L ("translations"%string :: path) = Ok v /\ kc_ok L c'
  | Raise e => lget L ("translations"%string :: path) = Raise e
  end.
Proof.
  intros K NE H. unfold glue_Locale_translation. rewrite (translations_dotted path NE).
  assert (H' : forallb (fun s => dot_free (pstr_of_string s)) ("translations"%string :: path) = true) by (cbn [forallb]; rewrite H; reflexivity).
  pose proof (glue_Locale_get_spec L c ("translations"%string :: path) K ltac:(discriminate) H') as G.
  destruct (glue_Locale_get c L (dotted ("translations"%string :: path)) None) as [[v c']|e]; exact G.
Qed.

(* ---------- the hand primitives of in_words / ordinalize are these translations ---------- *)
Definition locale_classes_dot_free (L : locale) : bool :=
  forallb (fun s => dot_free (pstr_of_string s)) (leaves (l_plural L)) && forallb (fun s => dot_free (pstr_of_string s)) (leaves (l_ordinal L)).
Lemma all_classes_dot_free : forallb locale_classes_dot_free all_locales = true.
Proof. vm_compute. reflexivity. Qed.
Lemma seval_leaf : forall e n, In (seval e n) (leaves e).
Proof.
  induction e as [s|c t IHt f IHf]; intros n; cbn [seval leaves].
  - left; reflexivity.
  - apply in_or_app. destruct (beval c n); [left; apply IHt | right; apply IHf].
Qed.
Lemma plural_dot_free L n : In L all_locales -> dot_free (pstr_of_string (lplural L n)) = true.
Proof.
  intros I. pose proof all_classes_dot_free as H. rewrite forallb_forall in H. specialize (H L I). apply andb_true_iff in H. destruct H as [H _].
  rewrite forallb_forall in H. apply H. apply seval_leaf.
Qed.
Lemma ordinal_dot_free L n : In L all_locales -> dot_free (pstr_of_string (lordinal L n)) = true.
Proof.
  intros I. pose proof all_classes_dot_free as H. rewrite forallb_forall in H. specialize (H L I). apply andb_true_iff in H. destruct H as [_ H].
  rewrite forallb_forall in H. apply H. apply seval_leaf.
Qed.

(* loaded_locale.translation(f"units.{u}.{cls}") of in_words: the hand primitive loc_translation IS the translated Locale.translation on that key *)
Theorem loc_translation_is_code L c u cls : kc_ok (gl_data L) c -> dot_free (pstr_of_string u) = true -> dot_free (pstr_of_string cls) = true ->
  match glue_Locale_translation c (gl_data L) (dotted ["units"%string; u; cls]) with
  | Ok (v, c') => loc_translation L (mk_ukey u cls) = Ok v /\ kc_ok (gl_data L) c'
  | Raise e => loc_translation L (mk_ukey u cls) = Raise e
  end.
Proof.
  intros K Hu Hc. apply (glue_Locale_translation_spec (gl_data L) c ["units"%string; u; cls] K); [discriminate|].
  cbn [forallb]. rewrite Hu, Hc. reflexivity.
Qed.
Theorem loc_get_custom_ordinal_is_code L c cls : kc_ok L c -> dot_free (pstr_of_string cls) = true ->
  match glue_Locale_get c L (dotted ["custom"%string; "ordinal"%string; cls]) None with
  | Ok (v, c') => loc_get_custom_ordinal L cls = Ok v /\ kc_ok L c'
  | Raise e => loc_get_custom_ordinal L cls = Raise e
  end.
Proof.
  intros K Hc. apply (glue_Locale_get_spec L c ["custom"%string; "ordinal"%string; cls] K); [discriminate|].
  cbn [forallb]. rewrite Hc. reflexivity.
Qed.

(* every key in_words builds (a unit of its literal, or second / microsecond of the fallback; the plural class of any number) on a shipped locale
   satisfies the dot-free premises: there the hand primitive is the translated Locale.translation, unconditionally *)
Theorem in_words_translation_is_code L c w u n : In (gl_data L) all_locales -> kc_ok (gl_data L) c ->
  In u (List.app (map fst (glue_Duration_in_words_intervals w)) ["second"%string; "microsecond"%string]) ->
  match glue_Locale_translation c (gl_data L) (dotted ["units"%string; u; loc_plural L n]) with
  | Ok (v, c') => loc_translation L (mk_ukey u (loc_plural L n)) = Ok v /\ kc_ok (gl_data L) c'
  | Raise e => loc_translation L (mk_ukey u (loc_plural L n)) = Raise e
  end.
Proof.
  intros I K U. apply loc_translation_is_code; [exact K| |exact (plural_dot_free (gl_data L) n I)].
  cbn in U. repeat (destruct U as [<-|U]; [reflexivity|]). contradiction.
Qed.
Theorem ordinalize_get_is_code L c n : In L all_locales -> kc_ok L c ->
  match glue_Locale_get c L (dotted ["custom"%string; "ordinal"%string; glue_Locale_ordinal L n]) None with
  | Ok (v, c') => loc_get_custom_ordinal L (glue_Locale_ordinal L n) = Ok v /\ kc_ok L c'
  | Raise e => loc_get_custom_ordinal L (glue_Locale_ordinal L n) = Raise e
  end.
Proof. intros I K. apply loc_get_custom_ordinal_is_code; [exact K|exact (ordinal_dot_free L n I)]. Qed.
