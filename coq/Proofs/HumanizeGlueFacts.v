(* Proofs/HumanizeGlueFacts.v — the hand-written locale session machine Model/LocaleSession.v (C18) EQUALS the machine translation of pendulum's own
   code (Gen/HumanizeGlue.v: locales/locale.py Locale.normalize_locale / Locale.load, helpers.py locale / set_locale / get_locale / format_diff,
   translated from /repo on every run with pendulum._LOCALE and Locale._cache as explicit state).
   cache_ok c: every entry of the cache is what a fresh load of its key would build.  It holds of the empty cache and every translated function
   preserves it, so Locale._cache is a TRANSPARENT memo: a theorem here, not an assumption. *)
From Coq Require Import ZArith List Bool String Lia.
From PV Require Import Lib.PyBase Model.LocaleBase Gen.Locales Model.DiffFormat Model.LocaleSession Model.HumanizeObj Gen.HumanizeGlue.
Import ListNotations.
Open Scope Z_scope.

Lemma pstr_eqb_refl a : pstr_eqb a a = true.
Proof. induction a as [|x a IH]; [reflexivity|]. cbn. rewrite Z.eqb_refl, IH. reflexivity. Qed.
Lemma pstr_eqb_eq : forall a b, pstr_eqb a b = true -> a = b.
Proof.
  induction a as [|x a IH]; intros [|y b] H; try reflexivity; try discriminate.
  cbn in H. apply andb_true_iff in H. destruct H as [H1 H2]. apply Z.eqb_eq in H1. rewrite H1, (IH b H2). reflexivity.
Qed.

(* ---------- Locale.normalize_locale ---------- *)
Theorem glue_normalize_locale_spec s : glue_normalize_locale s = normalize_locale s.
Proof.
  unfold glue_normalize_locale, normalize_locale, re_match_locale. cbv zeta.
  destruct s as [|a [|b [|sp [|c [|d r]]]]]; try reflexivity.
  destruct (is_az a && is_az b && ((sp =? 45) || (sp =? 95)) && is_az c && is_az d); reflexivity.
Qed.

(* ---------- Locale.load: the cache is transparent ---------- *)
Definition cache_ok (c : gcache) : Prop :=
  forall k L, cache_get_opt c k = Some L -> find_locale k = Some (gl_data L) /\ gl_name L = k.
Lemma cache_ok_nil : cache_ok []. Proof. intros k L H. discriminate. Qed.

Theorem glue_load_spec c name : cache_ok c ->
  match glue_Locale_load c name with
  | Ok (L, c') => load name = Ok (gl_data L) /\ gl_name L = normalize_locale name /\ cache_ok c'
  | Raise e => load name = Raise e
  end.
Proof.
  intros K. unfold glue_Locale_load, load. cbv zeta. rewrite glue_normalize_locale_spec. set (n := normalize_locale name).
  unfold cache_has, cache_get. destruct (cache_get_opt c n) as [L|] eqn:G.
  - destruct (K n L G) as [F N]. rewrite F. split; [reflexivity|split; [exact N|exact K]].
  - unfold dir_exists, locale_module. destruct (find_locale n) as [D|] eqn:F; cbn [negb]; [|reflexivity].
    unfold cache_set. cbn [cache_get_opt]. rewrite pstr_eqb_refl. cbn [gl_data gl_name]. split; [reflexivity|split; [reflexivity|]].
    intros k L H. cbn [cache_get_opt] in H. destruct (pstr_eqb n k) eqn:E.
    + injection H as <-. apply pstr_eqb_eq in E. subst k. cbn [gl_data gl_name]. split; [exact F|reflexivity].
    + exact (K k L H).
Qed.

(* the loaded data does not depend on the contents of the cache *)
Corollary load_is_transparent c1 c2 name : cache_ok c1 -> cache_ok c2 ->
  match glue_Locale_load c1 name, glue_Locale_load c2 name with
  | Ok (L1, _), Ok (L2, _) => L1 = L2
  | Raise e1, Raise e2 => e1 = e2
  | _, _ => False
  end.
Proof.
  intros K1 K2. pose proof (glue_load_spec c1 name K1) as H1. pose proof (glue_load_spec c2 name K2) as H2.
  destruct (glue_Locale_load c1 name) as [[L1 c1']|e1], (glue_Locale_load c2 name) as [[L2 c2']|e2].
  - destruct H1 as (A1 & B1 & _), H2 as (A2 & B2 & _). destruct L1, L2. cbn in *. congruence.
  - destruct H1 as (A1 & _). congruence.
  - destruct H2 as (A2 & _). congruence.
  - congruence.
Qed.

Lemma find_locale_name n L : find_locale n = Some L -> pstr_of_string (l_name L) = n.
Proof. unfold find_locale. intros H. apply find_some in H. destruct H as [_ H]. exact (pstr_eqb_eq _ _ H). Qed.

(* ---------- the operations of a session: LocaleSession.step ---------- *)
Theorem glue_locale_step c st name : cache_ok c ->
  match glue_locale c name with
  | Ok (L, c') => step st (SLoad name) = (st, Ok (gl_name L)) /\ cache_ok c'
  | Raise e => step st (SLoad name) = (st, Raise e)
  end.
Proof.
  intros K. unfold glue_locale. pose proof (glue_load_spec c name K) as H. cbn [step].
  destruct (glue_Locale_load c name) as [[L c']|e].
  - destruct H as (A & B & C). rewrite A. cbn [bind]. split; [|exact C]. f_equal. f_equal.
    unfold load in A. destruct (find_locale (normalize_locale name)) as [D|] eqn:F; [|discriminate]. injection A as <-.
    rewrite (find_locale_name _ _ F), B. reflexivity.
  - rewrite H. reflexivity.
Qed.

Theorem glue_set_locale_step c st name : cache_ok c ->
  match glue_set_locale c name with
  | Ok (st', c') => step st (SSet name) = (st', Ok []) /\ cache_ok c'
  | Raise e => step st (SSet name) = (st, Raise e)
  end.
Proof.
  intros K. unfold glue_set_locale, glue_locale. pose proof (glue_load_spec c name K) as H. cbn [step].
  destruct (glue_Locale_load c name) as [[L c']|e]; cbv beta iota zeta.
  - destruct H as (A & _ & C). rewrite A. split; [reflexivity|exact C].
  - rewrite H. reflexivity.
Qed.

Theorem glue_get_locale_step st : step st SGet = (st, Ok (glue_get_locale st)).
Proof. reflexivity. Qed.

Theorem glue_format_diff_step c st loc d is_now absolute invert : cache_ok c ->
  match glue_format_diff c st (mkgdiff d invert) is_now absolute loc with
  | Ok (s, c') => step st (SFmt loc d is_now absolute invert) = (st, Ok s) /\ cache_ok c'
  | Raise e => step st (SFmt loc d is_now absolute invert) = (st, Raise e)
  end.
Proof.
  intros K. unfold glue_format_diff, g_fmt, glue_get_locale. cbv zeta. cbn [step gdf_comp gdf_invert].
  assert (E : match loc with None => st | Some w_ => w_ end = eff st loc) by (destruct loc; reflexivity). rewrite E.
  pose proof (glue_load_spec c (eff st loc) K) as H. destruct (glue_Locale_load c (eff st loc)) as [[L c']|e].
  - destruct H as (A & _ & C). rewrite A. cbn [bind]. destruct (format (gl_data L) d is_now absolute invert); [split; [reflexivity|exact C]|reflexivity].
  - rewrite H. reflexivity.
Qed.
