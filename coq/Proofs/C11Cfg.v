(* Proofs/C11Cfg.v — C11: drop-in methods under process-wide configuration; routing of __format__ (Model/DropInCfg.v). *)
From Coq Require Import ZArith List Bool Lia.
From PV Require Import Lib.PyBase Spec.Cal Spec.Zone Spec.NativeDT Model.TzConvert Model.DropIn Model.DropInCfg Proofs.ZoneFacts Proofs.C11Facts.
Import ListNotations.
Open Scope Z_scope.

(* ---- configuration = the last successfully set value *)
Lemma rejected_keeps_configuration c : cfg_step c Rejected = c.
Proof. reflexivity. Qed.

Lemma run_cfg_app c h1 h2 : run_cfg c (h1 ++ h2) = run_cfg (run_cfg c h1) h2.
Proof. unfold run_cfg. apply fold_left_app. Qed.

Lemma rejected_anywhere_leaves_no_trace c h1 h2 : run_cfg c (h1 ++ Rejected :: h2) = run_cfg c (h1 ++ h2).
Proof. rewrite !run_cfg_app. reflexivity. Qed.

Lemma last_set_wins c h z : run_cfg c (h ++ [SetLocalTz z]) = mkcfg z.
Proof. rewrite run_cfg_app. reflexivity. Qed.

Lemma test_block_restores_default c h z : run_cfg c (h ++ [TestEnter z; TestExit]) = cfg0.
Proof. rewrite run_cfg_app. reflexivity. Qed.

Lemma local_timezone_follows_configuration sys c h z : pd_local_timezone sys (run_cfg c (h ++ [SetLocalTz (Some z)])) = z.
Proof. rewrite last_set_wins. reflexivity. Qed.

Lemma local_timezone_default sys c h : pd_local_timezone sys (run_cfg c (h ++ [SetLocalTz None])) = sys.
Proof. rewrite last_set_wins. reflexivity. Qed.

Lemma local_timezone_last_set sys c h z :
  pd_local_timezone sys (run_cfg c (h ++ [SetLocalTz (Some z)])) = z /\
  pd_local_timezone sys (run_cfg c (h ++ [SetLocalTz None])) = sys /\
  pd_local_timezone sys (run_cfg c (h ++ [TestEnter z; TestExit])) = sys.
Proof. split; [apply local_timezone_follows_configuration|split; [apply local_timezone_default|rewrite test_block_restores_default; reflexivity]]. Qed.

(* ---- the naive astimezone does not depend on the history of the configuration *)
Lemma astimezone_naive_independent_of_history sys h1 h2 x tz isp :
  astimezone_after sys h1 x tz isp = astimezone_after sys h2 x tz isp.
Proof. reflexivity. Qed.

(* it is the native answer (the naive value read in the system zone), returned as a DateTime carrying the tz argument,
   whenever the result is not the second occurrence of a repeated wall time *)
Lemma astimezone_naive_is_native sys h x tz isp r :
  native_astimezone_naive sys x tz = Ok r -> v_fold r = false ->
  astimezone_after sys h x tz isp = Ok (TyDateTime, r, true).
Proof.
  intros H Hf. unfold astimezone_after, pd_astimezone_naive. rewrite H, Hf. reflexivity.
Qed.

(* with the system zone UTC (the staged environment): the result is the rendering of the wall value, read as a UTC instant, in the target zone *)
Lemma astimezone_naive_utc_instant x tz r :
  wf_zone (tz_zone tz) = true ->
  native_astimezone_naive (fixed_zone 0) x tz = Ok r ->
  instant r = v_wall x /\ v_tz r = Some tz.
Proof.
  intros Hwf. unfold native_astimezone_naive.
  destruct (astz _ _ _ _) as [[W f]|e] eqn:Ea; [|discriminate]. intros H. injection H as <-.
  destruct (astz_ok _ _ _ _ _ _ Ea) as [E _]. split; [|reflexivity].
  assert (Ei : inst (fixed_zone 0) (v_wall x) (v_fold x) = v_wall x) by (unfold inst, MEG; cbn; lia).
  rewrite Ei in E. pose proof (render_inst (tz_zone tz) (v_wall x) Hwf) as R. rewrite <- E in R.
  unfold instant, native_utcoffset, v_off. cbn [v_tz v_wall v_fold]. unfold inst in R. unfold sec. exact R.
Qed.

Example astimezone_naive_witness :
  native_astimezone_naive (fixed_zone 0) (mkdtv 63518428800000000 true None) (mktzi 2 true (fixed_zone 3600))
  = Ok (mkdtv 63518432400000000 false (Some (mktzi 2 true (fixed_zone 3600)))).
Proof. vm_compute. reflexivity. Qed.

(* the seeded defect class: reading the CONFIGURED zone instead of the system zone gives another instant as soon as the offsets differ *)
Lemma configured_zone_reading_refuted :
  exists x tz z, native_astimezone_naive (pd_local_timezone (fixed_zone 0) (run_cfg cfg0 [SetLocalTz (Some z)])) x tz
                 <> native_astimezone_naive (fixed_zone 0) x tz.
Proof.
  exists (mkdtv 63518428800000000 false None), (mktzi 2 true (fixed_zone 0)), (fixed_zone 20700). vm_compute. discriminate.
Qed.

(* ---- __format__ routing *)
Lemma has_percent_In spec : has_percent spec = true <-> In 37 spec.
Proof.
  unfold has_percent. rewrite existsb_exists. split.
  - intros [c [Hin Hc]]. apply Z.eqb_eq in Hc. subst. exact Hin.
  - intros H. exists 37. split; [exact H | reflexivity].
Qed.

Lemma fmt_route_empty : fmt_route [] = 0 /\ native_fmt_route [] = 0.
Proof. split; reflexivity. Qed.

(* every spec with a '%' ANYWHERE (flags, widths, %:z, %%, a trailing '%') is answered by strftime, as the native __format__ does *)
Lemma fmt_route_percent_is_native spec : In 37 spec -> fmt_route spec = native_fmt_route spec /\ fmt_route spec = 1.
Proof.
  intros H. apply has_percent_In in H. destruct spec as [|a l]; [discriminate|].
  unfold fmt_route, native_fmt_route. rewrite H. split; reflexivity.
Qed.

Lemma fmt_route_percent_all : fmt_route [] = 0 /\ native_fmt_route [] = 0 /\
  forall spec, In 37 spec -> fmt_route spec = native_fmt_route spec /\ fmt_route spec = 1.
Proof. split; [reflexivity|split; [reflexivity|exact fmt_route_percent_is_native]]. Qed.

(* the only specs on which the routing leaves the native one: non-empty and without '%' (pendulum's own token language, the documented extension) *)
Lemma fmt_route_differs_iff spec : fmt_route spec <> native_fmt_route spec <-> (spec <> [] /\ ~ In 37 spec).
Proof.
  destruct spec as [|a l].
  - cbn. split; [intros H; exfalso; apply H; reflexivity | intros [H _]; exfalso; apply H; reflexivity].
  - unfold fmt_route, native_fmt_route. destruct (has_percent (a :: l)) eqn:E.
    + split; [intros H; exfalso; apply H; reflexivity | intros [_ H]; exfalso; apply H; apply has_percent_In; exact E].
    + split; [|intros _; discriminate]. intros _. split; [discriminate|]. intros H. apply has_percent_In in H. congruence.
Qed.

(* "%-d", "%-H:%-M", "%:z", "%4Y", "%^b", "100%" : all strftime *)
Example fmt_route_flag_specs :
  map fmt_route [[37;45;100]; [37;45;72;58;37;45;77]; [37;58;122]; [37;52;89]; [37;94;98]; [49;48;48;37]; [37]; [37;37]] = [1;1;1;1;1;1;1;1].
Proof. reflexivity. Qed.
