(* Proofs/FloatRoundTripC09.v — the premise of Proofs/C09Facts.v, proved:

     Theorem float_split_exact_on_D9_proved : float_split_exact_on_D9.

   i.e. Duration.__new__'s float pipeline  total = total_seconds(N) - Y ;  m = -1 if total < 0 else 1 ;
   round(total % m * 1e6) ; int(total)   returns the exact sign / microseconds / whole seconds of R = N - Y*10^6 on D9.
   Core: split_total_exact — any finite double within 2^-21 of R / 10^6 (and equal to it when R is a whole number of
   seconds) splits exactly, |R| < 2^33 * 10^6.  Same real-number route as Proofs/FloatRoundTrip.v.
   The *_partial theorems of C09Facts.v are then restated without premise (suffix _proved). *)
From Coq Require Import ZArith Reals Lia Lra Bool List.
From Coq Require Import Floats.SpecFloat.
From Flocq Require Import Core.Core IEEE754.BinarySingleNaN.
From PV Require Import Lib.PyBase Spec.TdFloat Gen.Constants Model.Duration Proofs.TdFloatFacts Proofs.C09Facts
                       Proofs.FloatRoundTripBase Proofs.FloatRoundTrip.
Open Scope Z_scope.

(* ------------------------------------------------------------------ more bridge lemmas *)
Lemma R_of_sf_finite : forall s m e, R_of_sf (S754_finite s m e) = cond_Ropp s (F2R (Float radix2 (Zpos m) e)).
Proof. intros. unfold SF2R. apply F2R_cond_Zopp. Qed.

Lemma mag_of_signed : forall (s : bool) m e a, R_of_sf (S754_finite s m e) = (if s then - a else a)%R ->
  F2R (Float radix2 (Zpos m) e) = a.
Proof. intros s m e a. rewrite R_of_sf_finite. destruct s; simpl; lra. Qed.

Lemma RN_signed : forall (s : bool) P, RN (if s then - P else P)%R = (if s then - RN P else RN P)%R.
Proof. intros [|] P; [apply round_NE_opp | reflexivity]. Qed.

Lemma fmul_comm_fin : forall s1 m1 e1 s2 m2 e2,
  fmul (S754_finite s1 m1 e1) (S754_finite s2 m2 e2) = fmul (S754_finite s2 m2 e2) (S754_finite s1 m1 e1).
Proof. intros. unfold fmul, SFmul. now rewrite xorb_comm, Pos.mul_comm, Z.add_comm. Qed.

(* int -> float below 2^53 is exact *)
Lemma sf_of_Z_correct : forall n, Z.abs n < 2 ^ 53 ->
  valid64 (sf_of_Z n) = true /\ R_of_sf (sf_of_Z n) = IZR n /\ is_finite_SF (sf_of_Z n) = true.
Proof.
  intros n Hn. destruct n as [|r|r].
  - repeat split.
  - pose proof (normalize_correct false r 0) as K. cbv zeta in K. simpl cond_Zopp in K. simpl cond_neg in K.
    assert (E : F2R (Float radix2 (Z.pos r) 0) = IZR (Z.pos r)) by (unfold F2R; simpl; lra).
    rewrite E in K. rewrite (round_generic radix2 fexp64 ZnearestE _ (generic_IZR _ Hn)) in K.
    destruct K as (V & Rr & F & _).
    { apply Rlt_trans with (bpow radix2 53); [|apply bpow_lt; lia].
      rewrite <- abs_IZR. change (bpow radix2 53) with (IZR (2 ^ 53)). apply IZR_lt. exact Hn. }
    repeat split; assumption.
  - pose proof (normalize_correct true r 0) as K. cbv zeta in K. simpl cond_Zopp in K. simpl cond_neg in K.
    assert (E : F2R (Float radix2 (Z.neg r) 0) = IZR (Z.neg r)) by (unfold F2R; simpl; lra).
    rewrite E in K. rewrite (round_generic radix2 fexp64 ZnearestE _ (generic_IZR _ Hn)) in K.
    destruct K as (V & Rr & F & _).
    { apply Rlt_trans with (bpow radix2 53); [|apply bpow_lt; lia].
      rewrite <- abs_IZR. change (bpow radix2 53) with (IZR (2 ^ 53)). apply IZR_lt. exact Hn. }
    repeat split; assumption.
Qed.

(* x - y *)
Lemma bn_equiv : forall m e szero,
  SpecFloat.binary_normalize 53 1024 m e szero = B2SF (BinarySingleNaN.binary_normalize 53 1024 prec64 emax64 mode_NE m e szero).
Proof.
  intros [|p|p] e szero; [reflexivity| |]; simpl; rewrite B2SF_SF2B; apply br_equiv.
Qed.

Lemma fsub_Bminus : forall x y (Vx : valid64 x = true) (Vy : valid64 y = true),
  fsub x y = B2SF (Bminus mode_NE (SF2B x Vx) (SF2B y Vy)).
Proof.
  intros [sx|sx| |sx mx ex] [sy|sy| |sy my ey] Vx Vy;
    try (now (trivial || (simpl; case Bool.eqb))).
  unfold fsub. simpl. unfold Zminus. rewrite <- cond_Zopp_negb. apply bn_equiv.
Qed.

Lemma fsub_correct : forall x y, valid64 x = true -> valid64 y = true -> is_finite_SF x = true -> is_finite_SF y = true ->
  (Rabs (RN (R_of_sf x - R_of_sf y)) < bpow radix2 60)%R ->
  valid64 (fsub x y) = true /\ R_of_sf (fsub x y) = RN (R_of_sf x - R_of_sf y) /\ is_finite_SF (fsub x y) = true.
Proof.
  intros x y Vx Vy Fx Fy Hb. rewrite (fsub_Bminus x y Vx Vy).
  pose proof (Bminus_correct 53 1024 prec64 emax64 mode_NE (SF2B x Vx) (SF2B y Vy)) as K.
  rewrite !is_finite_SF2B, !B2R_SF2B in K. specialize (K Fx Fy).
  change (SpecFloat.fexp 53 1024) with fexp64 in K. simpl round_mode in K.
  rewrite (bpow_1024_big _ Hb) in K. destruct K as (K1 & K2 & _).
  split; [apply valid_binary_B2SF|]. split; [rewrite SF2R_B2SF; exact K1 | rewrite is_finite_SF_B2SF; exact K2].
Qed.

(* fmod(x, +-1.0) is modf's fractional part *)
Lemma sf_fmod_one_correct : forall s m e sy, bounded64 m e = true ->
  let v := F2R (Float radix2 (Zpos m) e) in
  let g := (v - IZR (Zfloor v))%R in
  let md := sf_fmod (S754_finite s m e) (S754_finite sy 4503599627370496 (-52)) in
  valid64 md = true /\ R_of_sf md = (if s then - g else g)%R /\ is_finite_SF md = true /\ sign_SF md = s.
Proof.
  intros s m e sy Hb v g md. destruct (bounded64_inv _ _ Hb) as [Hm He].
  assert (Zero : g = 0%R -> forall t : bool, (if t then - g else g)%R = 0%R) by (intros -> [|]; lra).
  unfold md, sf_fmod. set (e0 := Z.min e (-52)).
  assert (He0 : -1074 <= e0 <= -52 /\ e0 <= e) by (unfold e0; lia).
  set (X := Z.pos m * 2 ^ (e - e0)). set (d := 4503599627370496 * 2 ^ (-52 - e0)).
  assert (Ed : d = 2 ^ (- e0)).
  { unfold d. change 4503599627370496 with (2 ^ 52). rewrite <- Z.pow_add_r by lia. f_equal. lia. }
  assert (Hd : 0 < d) by (rewrite Ed; apply pow2_pos; lia).
  assert (Hdr : (0 < IZR d)%R) by (apply IZR_lt; exact Hd).
  assert (HX : 0 <= X) by (unfold X; pose proof (pow2_pos (e - e0)); nia).
  assert (Ev : v = (IZR X / IZR d)%R).
  { unfold v. rewrite (F2R_change_exp radix2 e0) by lia. fold X. change (Zpower radix2 (e - e0)) with (2 ^ (e - e0)).
    fold X. rewrite F2R_neg_exp by lia. now rewrite Ed. }
  pose proof (Z.div_mod X d ltac:(lia)) as DM.
  pose proof (Z.mod_pos_bound X d Hd) as MB.
  assert (Hr53 : X mod d < 2 ^ 53).
  { destruct (Z_le_gt_dec (-52) e) as [L|L].
    - assert (e0 = -52) by (unfold e0; lia). apply Z.lt_trans with d; [lia|]. rewrite Ed, H. reflexivity.
    - assert (e0 = e) by (unfold e0; lia). unfold X. rewrite H, Z.sub_diag, Z.mul_1_r.
      pose proof (Z.mod_le (Zpos m) d ltac:(lia) Hd). lia. }
  assert (G : g = (IZR (X mod d) / IZR d)%R).
  { unfold g. rewrite Ev. rewrite Zfloor_div by lia. rewrite DM at 1. rewrite plus_IZR, mult_IZR. field. lra. }
  destruct (X mod d) as [|r|r] eqn:Er; [| |lia].
  - rewrite Zero by (rewrite G; unfold Rdiv; apply Rmult_0_l). repeat split.
  - assert (Ev' : F2R (Float radix2 (cond_Zopp s (Z.pos r)) e0) = (if s then - g else g)%R).
    { rewrite G. rewrite F2R_neg_exp by lia. rewrite <- Ed. destruct s; simpl cond_Zopp; [|reflexivity].
      change (Z.neg r) with (- Z.pos r). rewrite opp_IZR. field. lra. }
    assert (Hg : generic_format radix2 fexp64 (F2R (Float radix2 (cond_Zopp s (Z.pos r)) e0))).
    { apply generic_small_mantissa; lia. }
    pose proof (normalize_correct s r e0) as K. cbv zeta in K.
    rewrite (round_generic radix2 fexp64 ZnearestE _ Hg) in K. rewrite Ev' in K. apply K.
    assert (0 <= g < 1)%R.
    { rewrite G. split.
      - apply Rmult_le_pos; [apply IZR_le; lia | left; apply Rinv_0_lt_compat; lra].
      - apply Rmult_lt_reg_r with (IZR d); [lra|]. unfold Rdiv. rewrite Rmult_assoc, Rinv_l by lra.
        rewrite Rmult_1_r, Rmult_1_l. apply IZR_lt. lia. }
    apply Rlt_trans with 1%R.
    + destruct s; [rewrite Rabs_Ropp|]; rewrite Rabs_pos_eq; lra.
    + apply (bpow_lt radix2 0 60). lia.
Qed.

(* round(): a value strictly within 1/2 of an integer *)
Lemma sf_round_mag_correct : forall m e u,
  (Rabs (F2R (Float radix2 (Zpos m) e) - IZR u) < / 2)%R -> sf_round_mag m e = u.
Proof.
  intros m e u H. apply Rabs_def2 in H. destruct H as [H1 H2]. unfold sf_round_mag. destruct (0 <=? e) eqn:E.
  - apply Z.leb_le in E. rewrite F2R_nonneg_exp in H1, H2 by exact E.
    assert (u - 1 < Z.pos m * 2 ^ e < u + 1); [|lia].
    apply Z_of_R_sandwich; rewrite ?minus_IZR, ?plus_IZR; lra.
  - apply Z.leb_gt in E. rewrite F2R_neg_exp in H1, H2 by exact E.
    set (d := 2 ^ (- e)) in *. assert (Hd : 0 < d) by (apply pow2_pos; lia).
    assert (Hdr : (0 < IZR d)%R) by (apply IZR_lt; exact Hd).
    pose proof (Z.div_mod (Zpos m) d ltac:(lia)) as DM.
    pose proof (Z.mod_pos_bound (Zpos m) d Hd) as MB.
    cbv zeta. set (q := Z.pos m / d) in *. set (r := Z.pos m mod d) in *. clearbody q r.
    assert (EQ : (IZR (Z.pos m) / IZR d = IZR q + IZR r / IZR d)%R).
    { rewrite DM, plus_IZR, mult_IZR. field. lra. }
    rewrite EQ in H1, H2.
    assert (Hr : (0 <= IZR r / IZR d < 1)%R).
    { split.
      - apply Rmult_le_pos; [apply IZR_le; lia | left; apply Rinv_0_lt_compat; lra].
      - apply Rmult_lt_reg_r with (IZR d); [lra|]. unfold Rdiv. rewrite Rmult_assoc, Rinv_l by lra.
        rewrite Rmult_1_r, Rmult_1_l. apply IZR_lt. lia. }
    assert (C1 : 2 * r < d -> (IZR r / IZR d < / 2)%R).
    { intro C. apply IZR_lt in C. rewrite mult_IZR in C. simpl (IZR 2) in C.
      apply Rmult_lt_reg_r with (IZR d); [lra|]. unfold Rdiv. rewrite Rmult_assoc, Rinv_l, Rmult_1_r by lra. lra. }
    assert (C2 : d < 2 * r -> (/ 2 < IZR r / IZR d)%R).
    { intro C. apply IZR_lt in C. rewrite mult_IZR in C. simpl (IZR 2) in C.
      apply Rmult_lt_reg_r with (IZR d); [lra|]. unfold Rdiv. rewrite Rmult_assoc, Rinv_l, Rmult_1_r by lra. lra. }
    destruct (2 * r <? d) eqn:A.
    + apply Z.ltb_lt in A. apply C1 in A.
      assert (u - 1 < q < u + 1); [|lia].
      apply Z_of_R_sandwich; rewrite ?minus_IZR, ?plus_IZR; lra.
    + apply Z.ltb_ge in A. destruct (d <? 2 * r) eqn:A'.
      * apply Z.ltb_lt in A'. apply C2 in A'.
        assert (u - 2 < q < u); [|lia].
        apply Z_of_R_sandwich; rewrite ?minus_IZR; lra.
      * apply Z.ltb_ge in A'. exfalso.
        assert (Eh : (IZR r / IZR d = / 2)%R).
        { assert (Hd2 : IZR d = (2 * IZR r)%R) by (rewrite <- mult_IZR; f_equal; lia).
          rewrite Hd2 in Hdr |- *. field. lra. }
        rewrite Eh in H1, H2.
        assert (u - 1 < q < u); [|lia].
        apply Z_of_R_sandwich; rewrite ?minus_IZR; lra.
Qed.

(* ------------------------------------------------------------------ split_total on a finite non-zero double *)
Lemma split_total_finite_unfold : forall s m e,
  split_total (S754_finite s m e) =
  bind (py_float_mod (S754_finite s m e) (S754_finite s 4503599627370496 (-52))) (fun fr =>
  bind (py_round_half_even (fmul fr f_1e6)) (fun micro =>
  bind (py_int_trunc (S754_finite s m e)) (fun it => Ok ((if s then -1 else 1), micro, it)))).
Proof. intros [|] m e; reflexivity. Qed.

Lemma py_int_trunc_floor : forall s m e,
  py_int_trunc (S754_finite s m e) = Ok (cond_neg s (Zfloor (F2R (Float radix2 (Zpos m) e)))).
Proof. intros. unfold py_int_trunc. now rewrite sf_trunc_mag_floor. Qed.

Lemma split_integral : forall s m e I, bounded64 m e = true ->
  F2R (Float radix2 (Zpos m) e) = IZR I ->
  split_total (S754_finite s m e) = Ok ((if s then -1 else 1), 0, cond_neg s I).
Proof.
  intros s m e I Hb HX. rewrite split_total_finite_unfold.
  rewrite py_int_trunc_floor, HX, Zfloor_IZR.
  pose proof (sf_fmod_one_correct s m e s Hb) as K. cbv zeta in K. rewrite HX, Zfloor_IZR in K.
  destruct K as (_ & Rl & Fl & Sl).
  unfold py_float_mod. simpl sf_is_zero. cbv iota.
  destruct (sf_fmod (S754_finite s m e) (S754_finite s 4503599627370496 (-52))) as [s'|s'| |s' m' e']; try discriminate.
  - reflexivity.
  - exfalso. apply (finite_nonzero s' m' e'). rewrite Rl. destruct s; lra.
Qed.

Lemma split_fractional : forall s m e I u, bounded64 m e = true ->
  let X := F2R (Float radix2 (Zpos m) e) in
  0 < u < 1000000 ->
  (IZR I < X < IZR I + 1)%R ->
  (Rabs (1000000 * (X - IZR I) - IZR u) <= 1000000 * (/ 2 * bpow radix2 (-20)))%R ->
  split_total (S754_finite s m e) = Ok ((if s then -1 else 1), cond_neg s u, cond_neg s I).
Proof.
  intros s m e I u Hb X Hu HX Herr. rewrite split_total_finite_unfold.
  assert (Fl : Zfloor X = I) by (apply Zfloor_imp; rewrite plus_IZR; simpl (IZR 1); lra).
  rewrite py_int_trunc_floor. fold X. rewrite Fl.
  pose proof (sf_fmod_one_correct s m e s Hb) as K. cbv zeta in K. fold X in K. rewrite Fl in K.
  destruct K as (Vf & Rf & Ff & Sf).
  set (g := (X - IZR I)%R) in *.
  assert (Hg : (0 < g < 1)%R) by (unfold g; lra).
  destruct (classify_finite _ Ff ltac:(rewrite Rf; destruct s; lra) Vf) as (m1 & e1 & E1 & B1).
  rewrite Sf in E1.
  unfold py_float_mod. simpl sf_is_zero. cbv iota. rewrite E1. simpl sf_sign. rewrite eqb_reflx. cbn [bind].
  rewrite E1 in Rf.
  (* the product *)
  assert (Hu' : (1 <= IZR u <= 999999)%R) by (split; apply IZR_le; lia).
  rewrite bpow_m20 in Herr. apply Rabs_le_inv in Herr.
  set (P := (1000000 * g)%R) in *.
  assert (HP : (Rabs P < bpow radix2 20)%R) by (rewrite bpow_20; apply Rabs_lt; lra).
  pose proof (RN_error P 20 ltac:(lia) HP) as EP. simpl (20 - 53) in EP. rewrite bpow_m33 in EP.
  apply Rabs_le_inv in EP.
  rewrite f_1e6_eq, fmul_comm_fin, <- f_1e6_eq.
  pose proof (fmul_1e6_correct s m1 e1 B1) as M. cbv zeta in M.
  change (F2R (Float radix2 (cond_Zopp s (Z.pos m1)) e1)) with (R_of_sf (S754_finite s m1 e1)) in M.
  rewrite Rf in M.
  replace (1000000 * (if s then - g else g))%R with (if s then - P else P)%R in M by (unfold P; destruct s; ring).
  rewrite RN_signed in M.
  destruct M as (Vp & Rp & Fp & Sp).
  { rewrite bpow_60. apply Rabs_lt. destruct s; lra. }
  destruct (classify_finite _ Fp ltac:(rewrite Rp; destruct s; lra) Vp) as (m2 & e2 & E2 & B2).
  rewrite Sp in E2. rewrite E2. rewrite E2 in Rp. apply mag_of_signed in Rp.
  unfold py_round_half_even. rewrite (sf_round_mag_correct m2 e2 u) by (rewrite Rp; apply Rabs_lt; lra).
  reflexivity.
Qed.

(* ------------------------------------------------------------------ the core: any finite double close enough to R / 10^6 splits exactly *)
Theorem split_total_exact : forall t R, valid64 t = true -> is_finite_SF t = true ->
  Z.abs R < 2 ^ 33 * 10 ^ 6 ->
  (Rabs (R_of_sf t - IZR R / 1000000) <= / 2 * bpow radix2 (-20))%R ->
  (R mod 1000000 = 0 -> R_of_sf t = IZR (R / 1000000)) ->
  split_total t = Ok (sgn1 R, micro_of R, it_of R).
Proof.
  intros t R Vt Ft HR H1 H2. change (2 ^ 33 * 10 ^ 6) with 8589934592000000 in HR.
  rewrite bpow_m20 in H1. pose proof H1 as H1'. apply Rabs_le_inv in H1'.
  destruct t as [s|s| |s m e]; try discriminate.
  - (* zero: R = 0 *)
    simpl in H1'. assert (R = 0).
    { assert (-1 < R < 1); [|lia]. apply Z_of_R_sandwich; simpl (IZR (-1)); simpl (IZR 1); lra. }
    subst R. destruct s; reflexivity.
  - simpl in Vt. set (X := F2R (Float radix2 (Zpos m) e)).
    assert (PX : (0 < X)%R) by (apply F2R_gt_0; reflexivity).
    assert (ET : R_of_sf (S754_finite s m e) = (if s then - X else X)%R) by (rewrite R_of_sf_finite; destruct s; reflexivity).
    rewrite ET in *.
    assert (Rnz : R <> 0).
    { intros ->. specialize (H2 eq_refl). change (IZR (0 / 1000000)) with 0%R in H2. destruct s; lra. }
    assert (Sg : (R <? 0) = s).
    { destruct (Z.ltb_spec R 0) as [L|L]; destruct s; try reflexivity; exfalso.
      - assert (IZR R <= -1)%R by (apply IZR_le; lia). lra.
      - assert (1 <= IZR R)%R by (apply IZR_le; lia). lra. }
    set (A := Z.abs R). set (I := A / 1000000). set (u := A mod 1000000).
    assert (EA : R = cond_neg s A) by (unfold A; destruct s; simpl; lia).
    assert (HA : 0 < A < 8589934592000000) by (unfold A; lia).
    assert (DM : A = I * 1000000 + u) by (unfold I, u; lia).
    assert (Hu : 0 <= u < 1000000) by (unfold u; lia).
    assert (HI : 0 <= I < 8589934592) by (unfold I; lia).
    assert (EX : (Rabs (X - IZR A / 1000000) <= / 2 * / 1048576)%R).
    { replace (X - IZR A / 1000000)%R with (if s then - ((if s then - X else X) - IZR R / 1000000) else ((if s then - X else X) - IZR R / 1000000))%R.
      - destruct s; [rewrite Rabs_Ropp|]; exact H1.
      - rewrite EA. destruct s; simpl cond_neg; rewrite ?opp_IZR; field. }
    assert (Eq : (IZR A / 1000000 = IZR I + IZR u / 1000000)%R).
    { rewrite DM at 1. rewrite plus_IZR, mult_IZR. field. }
    assert (Goal' : split_total (S754_finite s m e) = Ok ((if s then -1 else 1), cond_neg s u, cond_neg s I)).
    { destruct (Z.eq_dec u 0) as [U0|U0].
      - rewrite U0. replace (cond_neg s 0) with 0 by (destruct s; reflexivity).
        apply split_integral; [exact Vt|]. fold X.
        assert (Hm : R mod 1000000 = 0) by (rewrite EA; destruct s; simpl cond_neg; lia).
        specialize (H2 Hm).
        assert (EI : R / 1000000 = cond_neg s I) by (rewrite EA; destruct s; simpl cond_neg; lia).
        rewrite EI in H2. destruct s; simpl cond_neg in H2; rewrite ?opp_IZR in H2; lra.
      - apply Rabs_le_inv in EX.
        assert (Hu' : (1 <= IZR u <= 999999)%R) by (split; apply IZR_le; lia).
        apply split_fractional; [exact Vt | lia | fold X; lra |]. fold X. rewrite bpow_m20.
        replace (1000000 * (X - IZR I) - IZR u)%R with (1000000 * (X - IZR A / 1000000))%R by (rewrite Eq; field).
        rewrite Rabs_mult. rewrite (Rabs_pos_eq 1000000) by lra.
        apply Rmult_le_compat_l; [lra|]. apply Rabs_le. exact EX. }
    rewrite Goal'. f_equal. unfold sgn1, micro_of, it_of. rewrite Sg.
    assert (Z.rem R 1000000 = cond_neg s u /\ Z.quot R 1000000 = cond_neg s I).
    { rewrite EA. unfold u, I. destruct s; simpl cond_neg; lia. }
    destruct H as [-> ->]. reflexivity.
Qed.

(* ------------------------------------------------------------------ total_seconds for either sign *)
Lemma total_seconds_real : forall N, Z.abs N < 2 ^ 33 * 10 ^ 6 ->
  valid64 (total_seconds N) = true /\ is_finite_SF (total_seconds N) = true /\
  R_of_sf (total_seconds N) = RN (IZR N / 1000000).
Proof.
  intros N HN. change (2 ^ 33 * 10 ^ 6) with 8589934592000000 in HN.
  destruct N as [|p|p].
  - repeat split. simpl. unfold Rdiv. rewrite Rmult_0_l, round_0 by typeclasses eauto. reflexivity.
  - set (q := (IZR (Z.pos p) / 1000000)%R).
    assert (Hq : (0 < q < 8589934592)%R).
    { unfold q. assert (H1 : 0 < Z.pos p) by lia. assert (H2 : Z.pos p < 8589934592000000) by lia.
      apply IZR_lt in H1, H2. lra. }
    assert (Hq' : (Rabs q < bpow radix2 33)%R) by (rewrite bpow_33; apply Rabs_lt; lra).
    pose proof (RN_error q 33 ltac:(lia) Hq') as Eq. simpl (33 - 53) in Eq. rewrite bpow_m20 in Eq. apply Rabs_le_inv in Eq.
    pose proof (fdiv_ratio_correct false p 1000000) as D. cbv zeta in D. fold q in D.
    destruct D as (Vx & Rx & Fx & _). { rewrite bpow_60. apply Rabs_lt. lra. }
    repeat split; assumption.
  - set (q := (IZR (Z.pos p) / 1000000)%R).
    assert (Hq : (0 < q < 8589934592)%R).
    { unfold q. assert (H1 : 0 < Z.pos p) by lia. assert (H2 : Z.pos p < 8589934592000000) by lia.
      apply IZR_lt in H1, H2. lra. }
    assert (Hq' : (Rabs q < bpow radix2 33)%R) by (rewrite bpow_33; apply Rabs_lt; lra).
    pose proof (RN_error q 33 ltac:(lia) Hq') as Eq. simpl (33 - 53) in Eq. rewrite bpow_m20 in Eq. apply Rabs_le_inv in Eq.
    pose proof (fdiv_ratio_correct true p 1000000) as D. cbv zeta in D. fold q in D.
    destruct D as (Vx & Rx & Fx & _). { rewrite bpow_60. apply Rabs_lt. lra. }
    repeat split; try assumption.
    change (total_seconds (Z.neg p)) with (fdiv (S754_finite true p 0) (S754_finite false 1000000 0)).
    rewrite Rx. f_equal. unfold q. change (Z.neg p) with (- Z.pos p). rewrite opp_IZR. field.
Qed.

Lemma bpow_m21 : bpow radix2 (-21) = (/ 2097152)%R.  Proof. reflexivity. Qed.
Lemma bpow_32 : bpow radix2 32 = 4294967296%R.  Proof. reflexivity. Qed.

Lemma IZR_div_exact : forall a b, b <> 0 -> a mod b = 0 -> (IZR a / IZR b)%R = IZR (a / b).
Proof.
  intros a b Hb Hm. pose proof (Z.div_mod a b Hb) as DM. rewrite Hm, Z.add_0_r in DM.
  rewrite DM at 1. rewrite mult_IZR. field. apply IZR_neq. exact Hb.
Qed.

(* ------------------------------------------------------------------ the premise of C09Facts.v *)
Theorem float_split_exact_on_D9_proved : float_split_exact_on_D9.
Proof.
  intros N Y HD. unfold split_exact. cbv zeta. set (R := N - Y * 1000000).
  destruct HD as [[HY HN] | [HN HR]].
  - (* no years / months: total = total_seconds N *)
    unfold B33 in HN. subst Y. assert (ER : R = N) by (unfold R; ring). rewrite ER.
    exists (total_seconds N). unfold float_pipeline.
    change (py_float_of_int 0) with (Ok (S754_zero false) : result sf). cbn [bind]. rewrite fsub_zero_r.
    destruct (total_seconds_real N) as (V & F & RT). { change (2 ^ 33 * 10 ^ 6) with 8589934592000000. exact HN. }
    rewrite (split_total_exact (total_seconds N) N V F); [reflexivity | | |].
    + change (2 ^ 33 * 10 ^ 6) with 8589934592000000. exact HN.
    + rewrite RT. apply (RN_error _ 33); [lia|]. rewrite bpow_33. apply Rabs_lt.
      assert (H1 : -8589934592000000 < N) by lia. assert (H2 : N < 8589934592000000) by lia.
      apply IZR_lt in H1, H2. lra.
    + intro Hm. rewrite RT. rewrite (IZR_div_exact N 1000000) by (lia || exact Hm).
      apply round_generic; [typeclasses eauto|]. apply generic_IZR. lia.
  - (* years / months present: total = RN (RN (N / 10^6) - Y), two roundings of at most 2^-22 each *)
    unfold B32 in HN, HR. fold R in HR.
    assert (HYb : Z.abs Y < 8589934592) by (unfold R in HR; lia).
    destruct (sf_of_Z_correct Y ltac:(lia)) as (Vy & Ry & Fy).
    destruct (total_seconds_real N) as (Vx & Fx & Rx). { change (2 ^ 33 * 10 ^ 6) with 8589934592000000. lia. }
    set (q := (IZR N / 1000000)%R) in *.
    assert (Hq : (Rabs q < bpow radix2 32)%R).
    { rewrite bpow_32. apply Rabs_lt. unfold q.
      assert (H1 : -4294967296000000 < N) by lia. assert (H2 : N < 4294967296000000) by lia.
      apply IZR_lt in H1, H2. lra. }
    pose proof (RN_error q 32 ltac:(lia) Hq) as E1. simpl (32 - 53) in E1. rewrite bpow_m21 in E1. apply Rabs_le_inv in E1.
    set (rho := (IZR R / 1000000)%R).
    assert (Erho : rho = (q - IZR Y)%R) by (unfold rho, q, R; rewrite minus_IZR, mult_IZR; field).
    assert (Hrho : (- (4294967296 - / 1000000) <= rho <= 4294967296 - / 1000000)%R).
    { unfold rho. assert (H1 : -4294967295999999 <= R) by lia. assert (H2 : R <= 4294967295999999) by lia.
      apply IZR_le in H1, H2. lra. }
    set (D := (RN q - IZR Y)%R).
    assert (HD : (Rabs D < bpow radix2 32)%R) by (rewrite bpow_32; apply Rabs_lt; unfold D; lra).
    pose proof (RN_error D 32 ltac:(lia) HD) as E2. simpl (32 - 53) in E2. rewrite bpow_m21 in E2. apply Rabs_le_inv in E2.
    destruct (fsub_correct (total_seconds N) (sf_of_Z Y) Vx Vy Fx Fy) as (Vt & Rt & Ft).
    { rewrite Rx, Ry. fold D. rewrite bpow_60. rewrite bpow_32 in HD. apply Rabs_def2 in HD. apply Rabs_lt. lra. }
    rewrite Rx, Ry in Rt. fold D in Rt.
    exists (fsub (total_seconds N) (sf_of_Z Y)). unfold float_pipeline, py_float_of_int.
    assert (Fy' : sf_is_finite (sf_of_Z Y) = true) by (destruct (sf_of_Z Y); try discriminate; reflexivity).
    rewrite Fy'. cbn [bind].
    rewrite (split_total_exact _ R Vt Ft); [reflexivity | | |].
    + change (2 ^ 33 * 10 ^ 6) with 8589934592000000. lia.
    + rewrite Rt. fold rho. rewrite bpow_m20. apply Rabs_le. unfold D in *. lra.
    + intro Hm. rewrite Rt.
      assert (Hm' : N mod 1000000 = 0) by (unfold R in Hm; lia).
      assert (Eq : q = IZR (N / 1000000)) by (unfold q; apply (IZR_div_exact N 1000000); lia).
      assert (EQ : RN q = q).
      { rewrite Eq. apply round_generic; [typeclasses eauto|]. apply generic_IZR. lia. }
      assert (ED : D = IZR (R / 1000000)).
      { unfold D. rewrite EQ, Eq, <- minus_IZR. f_equal. unfold R. lia. }
      rewrite ED. apply round_generic; [typeclasses eauto|]. apply generic_IZR. lia.
Qed.

(* ------------------------------------------------------------------ the *_partial theorems of C09Facts.v without premise *)
Definition duration_new_exact_proved := duration_new_exact_partial float_split_exact_on_D9_proved.
Definition components_proved := components_partial float_split_exact_on_D9_proved.
Definition rebuild_proved := rebuild_partial float_split_exact_on_D9_proved.
Definition in_seconds_proved := in_seconds_partial float_split_exact_on_D9_proved.
Definition absolute_duration_proved := absolute_duration_partial float_split_exact_on_D9_proved.

Check duration_new_exact_proved.
Check components_proved.
Check rebuild_proved.
Check in_seconds_proved.
Check absolute_duration_proved.
Print Assumptions split_total_exact.
Print Assumptions float_split_exact_on_D9_proved.
