(* Proofs/C05Facts.v — facts about Model/IntervalLen.v (property C05).
   Part 1: the integer heart (no float): what Interval.__new__ feeds to total_seconds() is the difference of the two UTC instants.
   Part 2: ordering (absolute / invert) and the region in which CPython's same-tzinfo wall-clock comparison disagrees with the instants.
   Part 3: operand normalisation of __sub__/__rsub__.
   Part 4: the Duration: its native value is the float round trip of exactly that delta (closed); exactness / 64 us / truncation from explicit
           float premises; closed boundary families by kernel computation. *)
From Coq Require Import ZArith List Bool Lia ZifyBool.
From Coq Require Import Floats.SpecFloat.
From PV Require Import Lib.PyBase Lib.Reflect Spec.Cal Spec.Zone Spec.TdFloat Gen.Constants Model.Duration Model.TzConvert Model.IntervalLen.
From PV Require Import Proofs.CalFacts Proofs.ZoneFacts Proofs.TdFloatFacts Proofs.C09Facts.
Import ListNotations.
Open Scope Z_scope.
Ltac Zify.zify_post_hook ::= Z.to_euclidean_division_equations.

(* ------------------------------------------------------------------ 1. the delta *)
Lemma native_delta_aware : forall a b D, e_dt a = true -> aware a = true -> aware b = true ->
  native_delta a b = Ok D -> D = ep_inst b - ep_inst a.
Proof.
  intros a b D Hdt Ha Hb. unfold native_delta, ep_inst, utc_naive. rewrite Hdt, Ha, Hb. cbn [negb].
  destruct (same_tz a b).
  - destruct (wall_in_range (inst (e_zone a) (e_W a) (e_fold a))); cbn [bind]; [|discriminate].
    destruct (wall_in_range (inst (e_zone b) (e_W b) (e_fold b))); cbn [bind]; [|discriminate].
    intros H. inversion H. reflexivity.
  - intros H. inversion H. reflexivity.
Qed.

Lemma same_tz_aware : forall a b, same_tz a b = true -> aware b = aware a.
Proof. intros a b H. unfold same_tz in H. unfold aware. apply Z.eqb_eq in H. rewrite H. reflexivity. Qed.

Lemma same_tz_sym : forall a b, same_tz a b = same_tz b a.
Proof. intros. unfold same_tz. apply Z.eqb_sym. Qed.

(* the only exception, and exactly when *)
Lemma native_delta_raises : forall a b e, native_delta a b = Raise e ->
  e = E_OverflowError /\ e_dt a = true /\ same_tz a b = true /\ aware a = true /\ aware b = true /\
  (wall_in_range (ep_inst a) = false \/ wall_in_range (ep_inst b) = false).
Proof.
  intros a b e. unfold native_delta, utc_naive.
  destruct (e_dt a) eqn:Hdt; cbn [negb]; [|discriminate].
  destruct (same_tz a b) eqn:Hs; [|discriminate].
  destruct (aware a) eqn:Ha; [|discriminate].
  pose proof (same_tz_aware a b Hs) as Hb. rewrite Ha in Hb.
  unfold ep_inst. rewrite Ha, Hb.
  destruct (wall_in_range (inst (e_zone a) (e_W a) (e_fold a))) eqn:Ra; cbn [bind].
  - destruct (wall_in_range (inst (e_zone b) (e_W b) (e_fold b))) eqn:Rb; cbn [bind]; [discriminate|].
    intros H. inversion H. repeat split; auto.
  - intros H. inversion H. repeat split; auto.
Qed.

Lemma native_delta_ok : forall a b,
  (e_dt a = true -> same_tz a b = true -> aware a = true -> wall_in_range (ep_inst a) = true /\ wall_in_range (ep_inst b) = true) ->
  exists D, native_delta a b = Ok D.
Proof.
  intros a b H. destruct (native_delta a b) as [D|e] eqn:E; [eauto|].
  apply native_delta_raises in E. destruct E as (_ & H1 & H2 & H3 & _ & [H4|H4]); destruct (H H1 H2 H3); congruence.
Qed.

(* endpoints that ARE renderings of two instants (what pendulum produces from any conversion / arithmetic): the delta is the
   difference of those instants, for every pair of well-formed tables, shared tzinfo object or not *)
Lemma native_delta_rendered : forall za zb Ua Ub na nb oa ob ca cb fxa fxb,
  wf_zone za = true -> wf_zone zb = true -> oa <> 0 -> ob <> 0 ->
  wall_in_range Ua = true -> wall_in_range Ub = true ->
  native_delta (mkep true na oa ca fxa za (fst (render za Ua)) (snd (render za Ua)))
               (mkep true nb ob cb fxb zb (fst (render zb Ub)) (snd (render zb Ub))) = Ok (Ub - Ua).
Proof.
  intros za zb Ua Ub na nb oa ob ca cb fxa fxb Hwa Hwb Hoa Hob Ra Rb.
  pose proof (render_inst za Ua Hwa) as Ia. pose proof (render_inst zb Ub Hwb) as Ib.
  destruct (render za Ua) as [Wa fa]. destruct (render zb Ub) as [Wb fb]. cbn [fst snd].
  unfold native_delta, utc_naive, ep_inst, aware, same_tz. cbn [e_dt e_obj e_zone e_W e_fold negb].
  rewrite Ia, Ib, Ra, Rb. cbn [bind].
  destruct (oa =? ob); destruct (oa =? 0) eqn:E1; destruct (ob =? 0) eqn:E2; cbn [negb]; try lia; reflexivity.
Qed.

(* naive pairs and date pairs: the wall-clock difference *)
Lemma native_delta_naive_date : forall a b,
  (e_dt a = false \/ (aware a = false /\ aware b = false)) -> native_delta a b = Ok (e_W b - e_W a).
Proof.
  intros a b [H|[Ha Hb]]; unfold native_delta.
  - rewrite H. reflexivity.
  - destruct (e_dt a); cbn [negb]; [|reflexivity].
    destruct (same_tz a b); [rewrite Ha; reflexivity|]. unfold ep_inst. rewrite Ha, Hb. reflexivity.
Qed.

Lemma native_delta_swap : forall a b D, e_dt a = e_dt b -> native_delta a b = Ok D -> native_delta b a = Ok (- D).
Proof.
  intros a b D Hk. unfold native_delta. rewrite <- Hk, (same_tz_sym b a).
  destruct (e_dt a); cbn [negb].
  - destruct (same_tz a b) eqn:Hs.
    + rewrite (same_tz_aware a b Hs). destruct (aware a).
      * unfold utc_naive.
        destruct (wall_in_range (inst (e_zone a) (e_W a) (e_fold a))); cbn [bind]; [|discriminate].
        destruct (wall_in_range (inst (e_zone b) (e_W b) (e_fold b))); cbn [bind]; [|discriminate].
        intros H. inversion H. f_equal. lia.
      * intros H. inversion H. f_equal. lia.
    + intros H. inversion H. f_equal. lia.
  - intros H. inversion H. f_equal. lia.
Qed.

Lemma interval_delta_swap : forall a b D, interval_new_delta a b false = Ok D -> interval_new_delta b a false = Ok (- D).
Proof.
  intros a b D. unfold interval_new_delta. rewrite (xorb_comm (e_dt b)), (xorb_comm (aware b)).
  destruct (xorb (e_dt a) (e_dt b)) eqn:Hx; [discriminate|].
  assert (Hk : e_dt a = e_dt b) by (destruct (e_dt a), (e_dt b); cbn in Hx; congruence).
  rewrite <- Hk.
  destruct (e_dt a && xorb (aware a) (aware b)); [discriminate|]. cbn [bind].
  apply native_delta_swap. exact Hk.
Qed.

(* non-absolute construction: the delta, for aware datetimes *)
Lemma interval_delta_aware : forall a b D, e_dt a = true -> e_dt b = true -> aware a = true -> aware b = true ->
  interval_new_delta a b false = Ok D -> D = ep_inst b - ep_inst a.
Proof.
  intros a b D Ha Hb Aa Ab. unfold interval_new_delta. rewrite Ha, Hb, Aa, Ab. cbn [xorb andb bind].
  apply native_delta_aware; assumption.
Qed.

(* the year-1 edge: both walls are valid, the elapsed time is 84600 s, the code raises *)
Definition edge_a : ep := mkep true false 10 10 true (fixed_zone 3600) (30 * 60 * MEG) false.          (* 0001-01-01T00:30+01:00 *)
Definition edge_b : ep := mkep true false 10 10 true (fixed_zone 3600) (86400 * MEG) false.             (* 0001-01-02T00:00+01:00 *)
Lemma edge_overflow_witness :
  wall_in_range (e_W edge_a) = true /\ wall_in_range (e_W edge_b) = true /\ ep_inst edge_b - ep_inst edge_a = 84600 * MEG /\
  interval_new_delta edge_a edge_b false = Raise E_OverflowError /\
  (* with two distinct tzinfo objects of the same offset the same pair is measured *)
  interval_new_delta edge_a (mkep true false 11 10 true (fixed_zone 3600) (86400 * MEG) false) false = Ok (84600 * MEG).
Proof. vm_compute. repeat split; reflexivity. Qed.

(* ------------------------------------------------------------------ 2. ordering: absolute and invert *)
(* CPython's `a > b` agrees with the order of the instants *)
Definition order_agrees (a b : ep) : Prop :=
  same_tz a b = true -> (e_W a >? e_W b) = (ep_inst a >? ep_inst b).

Lemma py_gt_aware : forall a b, e_dt a = true -> aware a = true -> aware b = true -> order_agrees a b ->
  py_gt a b = Ok (ep_inst a >? ep_inst b).
Proof.
  intros a b Hdt Ha Hb Ho. unfold py_gt. rewrite Hdt, Ha, Hb. cbn [negb xorb].
  destruct (same_tz a b) eqn:Hs; [rewrite (Ho Hs)|]; reflexivity.
Qed.

Lemma interval_abs_aware : forall a b D, e_dt a = true -> e_dt b = true -> aware a = true -> aware b = true ->
  order_agrees a b -> interval_new_delta a b true = Ok D -> D = Z.abs (ep_inst b - ep_inst a).
Proof.
  intros a b D Ha Hb Aa Ab Ho. unfold interval_new_delta. rewrite Ha, Hb, Aa, Ab. cbn [xorb andb].
  rewrite (py_gt_aware a b Ha Aa Ab Ho). cbn [bind].
  destruct (ep_inst a >? ep_inst b) eqn:G; intros H.
  - apply native_delta_aware in H; auto. lia.
  - apply native_delta_aware in H; auto. lia.
Qed.

(* in the region where the wall order of two values sharing the tzinfo object differs from the order of their instants the result is MINUS the magnitude *)
Lemma interval_abs_region : forall a b D, e_dt a = true -> e_dt b = true -> aware a = true -> aware b = true ->
  same_tz a b = true -> (e_W a >? e_W b) <> (ep_inst a >? ep_inst b) ->
  interval_new_delta a b true = Ok D -> D = - Z.abs (ep_inst b - ep_inst a).
Proof.
  intros a b D Ha Hb Aa Ab Hs Hne. unfold interval_new_delta. rewrite Ha, Hb, Aa, Ab. cbn [xorb andb].
  unfold py_gt. rewrite Ha, Aa, Ab, Hs. cbn [negb xorb bind].
  destruct (e_W a >? e_W b) eqn:G; intros H; apply native_delta_aware in H; auto;
  destruct (ep_inst a >? ep_inst b) eqn:G2; try congruence; lia.
Qed.

Lemma interval_abs_naive_date : forall a b D, e_dt a = e_dt b -> (e_dt a = false \/ (aware a = false /\ aware b = false)) ->
  interval_new_delta a b true = Ok D -> D = Z.abs (e_W b - e_W a).
Proof.
  intros a b D Hk Hc. unfold interval_new_delta. rewrite <- Hk. rewrite xorb_nilpotent.
  assert (Hg : py_gt a b = Ok (e_W a >? e_W b)).
  { unfold py_gt. destruct Hc as [H|[Ha Hb]].
    - rewrite H. reflexivity.
    - destruct (e_dt a); cbn [negb]; [|reflexivity]. rewrite Ha, Hb. cbn [xorb].
      assert (same_tz a b = true) as ->; [|reflexivity].
      unfold same_tz, aware in *. lia. }
  assert (Hx : e_dt a && xorb (aware a) (aware b) = false).
  { destruct Hc as [H|[Ha Hb]]; [rewrite H; reflexivity | rewrite Ha, Hb; apply andb_false_r]. }
  rewrite Hx, Hg. cbn [bind].
  assert (Hc' : e_dt b = false \/ (aware b = false /\ aware a = false)) by (rewrite <- Hk; tauto).
  destruct (e_W a >? e_W b) eqn:G; intros H.
  - rewrite (native_delta_naive_date b a Hc') in H. inversion H. lia.
  - rewrite (native_delta_naive_date a b Hc) in H. inversion H. lia.
Qed.

(* the region is confined to offset changes: the two readings use different offsets and the walls are closer than the offsets differ *)
Lemma order_region_small : forall z Wa fa Wb fb,
  let oa := off_local z (Wa / MEG) fa in let ob := off_local z (Wb / MEG) fb in
  (Wa >? Wb) <> (inst z Wa fa >? inst z Wb fb) ->
  oa <> ob /\ Z.abs (Wa - Wb) <= MEG * Z.abs (oa - ob).
Proof.
  intros z Wa fa Wb fb oa ob. unfold inst. fold oa ob. unfold MEG.
  destruct (Wa >? Wb) eqn:G1; destruct (Wa - 1000000 * oa >? Wb - 1000000 * ob) eqn:G2; intros H; try congruence; lia.
Qed.

(* witness: Europe/Paris 2013-10-27, the repeated hour 02:00-03:00.  a = 02:30 second occurrence, b = 02:45 first occurrence (45 min EARLIER) *)
Definition paris13 : zone := mkzone 3600 [((62135596800 + 1364691600), 7200); ((62135596800 + 1382835600), 3600)].
Definition W_0230 : Z := ((62135596800 + 1382835600) + 3600 + 1800) * MEG.
Definition W_0245 : Z := ((62135596800 + 1382835600) + 3600 + 2700) * MEG.
Definition par_a : ep := mkep true false 10 10 false paris13 W_0230 true.
Definition par_b : ep := mkep true false 10 10 false paris13 W_0245 false.

Lemma abs_refuted_witness :
  wf2_zone paris13 = true /\ wall_repeated paris13 (W_0230 / MEG) /\ wall_repeated paris13 (W_0245 / MEG) /\
  ep_inst par_b - ep_inst par_a = - (2700 * MEG) /\
  interval_new_delta par_a par_b true = Ok (- (2700 * MEG)) /\
  interval_new_delta par_b par_a true = Ok (- (2700 * MEG)).
Proof. vm_compute. repeat split; reflexivity. Qed.

(* ------------------------------------------------------------------ 3. Interval(a, b) as a whole *)
Lemma bind_ok' : forall A B (r : result A) (f : A -> result B) b,
  bind r f = Ok b -> exists a, r = Ok a /\ f a = Ok b.
Proof. intros A B [a|e] f b H; cbn in H; [eauto | discriminate]. Qed.

Lemma interval_make_inv : forall a b ab i, interval_make a b ab = Ok i ->
  exists D a' b' inv,
    interval_new_delta a b ab = Ok D /\ duration_of_float_seconds (total_seconds D) = Ok (i_dur i) /\
    instance_ep a = Ok a' /\ instance_ep b = Ok b' /\ py_gt a' b' = Ok inv /\ i_invert i = inv /\ i_abs i = ab /\
    i_start i = (if inv && ab then b' else a') /\ i_end i = (if inv && ab then a' else b').
Proof.
  intros a b ab i H. unfold interval_make in H.
  apply bind_ok' in H. destruct H as [D [HD H]].
  apply bind_ok' in H. destruct H as [d [Hd H]].
  apply bind_ok' in H. destruct H as [a' [Ha H]].
  apply bind_ok' in H. destruct H as [b' [Hb H]].
  apply bind_ok' in H. destruct H as [inv [Hi H]].
  exists D, a', b', inv.
  destruct (inv && ab) eqn:E; inversion H; subst i; cbn; repeat split; auto.
Qed.

Lemma duration_of_float_inv : forall x d, duration_of_float_seconds x = Ok d ->
  td_of_float_seconds x = Ok (d_N d) /\ d_abs d = false.
Proof.
  intros x d H. unfold duration_of_float_seconds in H.
  apply bind_ok' in H. destruct H as [N [HN H]].
  apply bind_ok' in H. destruct H as [[total [[m micro] it]] [_ H]].
  inversion H. subst d. cbn. auto.
Qed.

Lemma instance_pendulum : forall a, e_native a = false -> instance_ep a = Ok a.
Proof. intros a H. unfold instance_ep. rewrite H. reflexivity. Qed.

(* the native value of the Duration is the float round trip of EXACTLY the elapsed microseconds (no float premise) *)
Lemma interval_length_roundtrip : forall a b i, e_dt a = true -> e_dt b = true -> aware a = true -> aware b = true ->
  interval_make a b false = Ok i ->
  td_of_float_seconds (total_seconds (ep_inst b - ep_inst a)) = Ok (d_N (i_dur i)) /\ d_abs (i_dur i) = false.
Proof.
  intros a b i Ha Hb Aa Ab H. apply interval_make_inv in H.
  destruct H as (D & a' & b' & inv & HD & Hd & _).
  apply interval_delta_aware in HD; auto. subst D. apply duration_of_float_inv. exact Hd.
Qed.

Lemma interval_length_roundtrip_abs : forall a b i, e_dt a = true -> e_dt b = true -> aware a = true -> aware b = true ->
  order_agrees a b -> interval_make a b true = Ok i ->
  td_of_float_seconds (total_seconds (Z.abs (ep_inst b - ep_inst a))) = Ok (d_N (i_dur i)).
Proof.
  intros a b i Ha Hb Aa Ab Ho H. apply interval_make_inv in H.
  destruct H as (D & a' & b' & inv & HD & Hd & _).
  apply interval_abs_aware in HD; auto. subst D. apply duration_of_float_inv. exact Hd.
Qed.

Lemma interval_length_roundtrip_naive_date : forall a b i,
  (e_dt a = false \/ (aware a = false /\ aware b = false)) ->
  interval_make a b false = Ok i ->
  td_of_float_seconds (total_seconds (e_W b - e_W a)) = Ok (d_N (i_dur i)).
Proof.
  intros a b i Hc H. apply interval_make_inv in H.
  destruct H as (D & a' & b' & inv & HD & Hd & _).
  unfold interval_new_delta in HD.
  destruct (xorb (e_dt a) (e_dt b)); [discriminate|].
  destruct (e_dt a && xorb (aware a) (aware b)); [discriminate|]. cbn [bind] in HD.
  rewrite (native_delta_naive_date a b Hc) in HD. inversion HD. subst D. apply duration_of_float_inv. exact Hd.
Qed.

(* invert: the order of the instants, for pendulum endpoints outside the region *)
Lemma invert_flag : forall a b ab i, e_native a = false -> e_native b = false ->
  e_dt a = true -> aware a = true -> aware b = true -> order_agrees a b ->
  interval_make a b ab = Ok i -> i_invert i = (ep_inst a >? ep_inst b).
Proof.
  intros a b ab i Na Nb Ha Aa Ab Ho H. apply interval_make_inv in H.
  destruct H as (D & a' & b' & inv & _ & _ & Ia & Ib & Hg & Hi & _).
  rewrite (instance_pendulum a Na) in Ia. rewrite (instance_pendulum b Nb) in Ib. inversion Ia. inversion Ib. subst a' b'.
  rewrite (py_gt_aware a b Ha Aa Ab Ho) in Hg. inversion Hg. congruence.
Qed.

Lemma invert_refuted_witness :
  exists i j, interval_make par_a par_b false = Ok i /\ i_invert i = false /\ d_N (i_dur i) = - (2700 * MEG)
           /\ interval_make par_b par_a false = Ok j /\ i_invert j = true /\ d_N (i_dur j) = 2700 * MEG.
Proof.
  eexists. eexists. split; [vm_compute; reflexivity|]. split; [vm_compute; reflexivity|]. split; [vm_compute; reflexivity|].
  split; [vm_compute; reflexivity|]. split; vm_compute; reflexivity.
Qed.

Lemma abs_refuted_interval :
  exists i, interval_make par_a par_b true = Ok i /\ d_N (i_dur i) = - (2700 * MEG) /\ dur_in_minutes (i_dur i) = Ok (-45).
Proof. eexists. split; [vm_compute; reflexivity|]. split; vm_compute; reflexivity. Qed.

(* ------------------------------------------------------------------ 3b. native operands of __sub__ / __rsub__ *)
From PV Require Import Proofs.C02Facts.

(* a stdlib aware datetime that denotes a valid local time keeps its fields and its instant through the normalisation *)
Lemma normalise_native_valid : forall o o', e_native o = true -> e_dt o = true -> aware o = true -> e_canon o <> 0 ->
  (e_fixed o = true -> exists off, e_zone o = fixed_zone off) ->
  ~ wall_skipped (e_zone o) (sec (e_W o)) ->
  normalise_operand o = Ok o' ->
  e_native o' = false /\ e_dt o' = true /\ aware o' = true /\ e_obj o' = e_canon o /\ e_zone o' = e_zone o /\
  e_W o' = e_W o /\ ep_inst o' = ep_inst o.
Proof.
  intros o o' Hn Hd Ha Hc Hfx Hsk. unfold normalise_operand, instance_ep. rewrite Hn, Hd, Ha. cbn [negb].
  unfold create. destruct (e_fixed o) eqn:Efx.
  - destruct (Hfx eq_refl) as [off Hz]. unfold convert_naive_fixed. cbn [bind]. intros H. inversion H. subst o'. clear H.
    unfold aware in Ha. unfold ep_inst, aware. cbn [e_native e_dt e_obj e_zone e_W e_fold]. rewrite Ha.
    assert (E : negb (e_canon o =? 0) = true) by lia. rewrite E.
    repeat split; auto. rewrite Hz. unfold inst. rewrite !fixed_zone_local. reflexivity.
  - unfold convert_naive. unfold wall_skipped in Hsk.
    destruct (off_local (e_zone o) (sec (e_W o)) true >? off_local (e_zone o) (sec (e_W o)) false) eqn:G; [lia|].
    rewrite andb_false_r. cbn [bind]. intros H. inversion H. subst o'. clear H.
    unfold aware in Ha. unfold ep_inst, aware. cbn [e_native e_dt e_obj e_zone e_W e_fold]. rewrite Ha.
    assert (E : negb (e_canon o =? 0) = true) by lia. rewrite E. repeat split; auto.
Qed.

(* pendulum - native and native - pendulum: the float round trip of exactly the difference of the instants, as CPython reads the native value *)
Lemma sub_native_roundtrip : forall self o i, e_dt self = true -> aware self = true ->
  e_native o = true -> e_dt o = true -> aware o = true -> e_canon o <> 0 ->
  (e_fixed o = true -> exists off, e_zone o = fixed_zone off) ->
  ~ wall_skipped (e_zone o) (sec (e_W o)) ->
  (dt_sub self o = Ok i -> td_of_float_seconds (total_seconds (ep_inst self - ep_inst o)) = Ok (d_N (i_dur i))) /\
  (dt_rsub self o = Ok i -> td_of_float_seconds (total_seconds (ep_inst o - ep_inst self)) = Ok (d_N (i_dur i))).
Proof.
  intros self o i Hd Ha Hn Hdo Hao Hc Hfx Hsk. split; intros H.
  - unfold dt_sub, dt_diff in H. apply bind_ok' in H. destruct H as [o' [Ho H]].
    destruct (normalise_native_valid o o' Hn Hdo Hao Hc Hfx Hsk Ho) as (_ & D' & A' & _ & _ & _ & I').
    rewrite <- I'. apply (interval_length_roundtrip o' self i D' Hd A' Ha H).
  - unfold dt_rsub, dt_diff in H. apply bind_ok' in H. destruct H as [o' [Ho H]].
    destruct (normalise_native_valid o o' Hn Hdo Hao Hc Hfx Hsk Ho) as (_ & D' & A' & _ & _ & _ & I').
    rewrite <- I'. apply (interval_length_roundtrip self o' i Hd D' Ha A' H).
Qed.

(* a pendulum operand is used as is *)
Lemma sub_pendulum : forall self o, e_native o = false ->
  dt_sub self o = interval_make o self false /\ dt_rsub self o = interval_make self o false.
Proof. intros self o H. unfold dt_sub, dt_rsub, dt_diff, normalise_operand. rewrite H. split; reflexivity. Qed.

Lemma ep_inst_aware : forall o, aware o = true -> ep_inst o = inst (e_zone o) (e_W o) (e_fold o).
Proof. intros o H. unfold ep_inst. rewrite H. reflexivity. Qed.
Lemma ep_inst_mk : forall d n c c2 fx z W f, c <> 0 -> ep_inst (mkep d n c c2 fx z W f) = inst z W f.
Proof. intros. unfold ep_inst, aware. cbn [e_obj e_zone e_W e_fold]. assert (E : negb (c =? 0) = true) by lia. rewrite E. reflexivity. Qed.

(* a stdlib value on a SKIPPED wall time is first moved by the gap (C02): its instant becomes wall - utcoffset(other fold),
   i.e. it differs from CPython's reading of the same value by exactly the length of the gap *)
Lemma normalise_native_skipped : forall o o', e_native o = true -> e_dt o = true -> aware o = true -> e_canon o <> 0 ->
  e_fixed o = false -> wf2_zone (e_zone o) = true -> wall_skipped (e_zone o) (sec (e_W o)) ->
  normalise_operand o = Ok o' ->
  ep_inst o' = e_W o - MEG * off_local (e_zone o) (sec (e_W o)) (negb (e_fold o)) /\
  ep_inst o' - ep_inst o = (if e_fold o then 1 else -1) * MEG * (off_local (e_zone o) (sec (e_W o)) true - off_local (e_zone o) (sec (e_W o)) false).
Proof.
  intros o o' Hn Hd Ha Hc Hfx Hwf Hsk. unfold normalise_operand, instance_ep. rewrite Hn, Hd, Ha, Hfx. cbn [negb].
  unfold create. intros H. apply bind_ok' in H. destruct H as [[W' f'] [Hcv H]]. inversion H. subst o'. clear H.
  destruct (create_skipped (e_zone o) (e_W o) true Hwf Hsk) as (Hg & Hup & Hdown & Oup & Odown & Sup & Sdown).
  cbv zeta in *.
  rewrite (ep_inst_aware o Ha). rewrite ep_inst_mk by exact Hc.
  unfold wall_skipped in Hsk.
  set (o0 := off_local (e_zone o) (sec (e_W o)) false) in *.
  set (o1 := off_local (e_zone o) (sec (e_W o)) true) in *.
  unfold inst. change (?x / MEG) with (sec x).
  destruct (e_fold o) eqn:Ef; cbn [negb].
  - destruct (wall_in_range (e_W o + MEG * (o1 - o0))) eqn:R.
    + rewrite (Hup eq_refl) in Hcv. assert (EW : W' = e_W o + MEG * (o1 - o0)) by congruence. assert (Ef' : f' = false) by congruence.
      subst W' f'. rewrite Sup, Oup. fold o1. lia.
    + unfold convert_naive in Hcv. fold o0 o1 in Hcv.
      destruct (o1 >? o0) eqn:G; [|lia]. rewrite R in Hcv. discriminate.
  - destruct (wall_in_range (e_W o - MEG * (o1 - o0))) eqn:R.
    + rewrite (Hdown eq_refl) in Hcv. assert (EW : W' = e_W o - MEG * (o1 - o0)) by congruence. assert (Ef' : f' = false) by congruence.
      subst W' f'. rewrite Sdown, Odown. fold o0. lia.
    + unfold convert_naive in Hcv. fold o0 o1 in Hcv.
      destruct (o1 >? o0) eqn:G; [|lia].
      replace (e_W o + MEG * (o0 - o1)) with (e_W o - MEG * (o1 - o0)) in Hcv by lia. rewrite R in Hcv. discriminate.
Qed.

(* ------------------------------------------------------------------ 4. the float part *)
(* premises (DESIGN 3.3 fallback): stated on the SpecFloat model, not proved; validated on every run by the correspondence + integer oracle *)
Definition SPAN_MAX : Z := 3652061 * 86400000000.     (* any two instants of valid wall values: the calendar range plus one day of offset on each side *)
Definition float_roundtrip_exact_below_2_33 : Prop :=
  forall N, Z.abs N < B33 -> td_of_float_seconds (total_seconds N) = Ok N.
Definition float_roundtrip_within_64 : Prop :=
  forall N, Z.abs N <= SPAN_MAX -> exists M, td_of_float_seconds (total_seconds N) = Ok M /\ Z.abs (M - N) <= 64.
Definition float_div_trunc_exact (unit : Z) : Prop :=
  forall N, Z.abs N < B33 -> py_int_trunc (fdiv (total_seconds N) (sf_of_Z unit)) = Ok (Z.quot N (unit * 1000000)).

Section FloatPremises.
  Hypothesis Hrt : float_roundtrip_exact_below_2_33.

  Lemma length_exact_partial : forall a b i, e_dt a = true -> e_dt b = true -> aware a = true -> aware b = true ->
    interval_make a b false = Ok i -> Z.abs (ep_inst b - ep_inst a) < B33 ->
    d_N (i_dur i) = ep_inst b - ep_inst a.
  Proof.
    intros a b i Ha Hb Aa Ab H Hlt. destruct (interval_length_roundtrip a b i Ha Hb Aa Ab H) as [R _].
    rewrite (Hrt _ Hlt) in R. inversion R. reflexivity.
  Qed.

  Lemma length_exact_abs_partial : forall a b i, e_dt a = true -> e_dt b = true -> aware a = true -> aware b = true ->
    order_agrees a b -> interval_make a b true = Ok i -> Z.abs (ep_inst b - ep_inst a) < B33 ->
    d_N (i_dur i) = Z.abs (ep_inst b - ep_inst a).
  Proof.
    intros a b i Ha Hb Aa Ab Ho H Hlt. pose proof (interval_length_roundtrip_abs a b i Ha Hb Aa Ab Ho H) as R.
    rewrite Hrt in R by lia. inversion R. reflexivity.
  Qed.

  Lemma length_exact_naive_date_partial : forall a b i, (e_dt a = false \/ (aware a = false /\ aware b = false)) ->
    interval_make a b false = Ok i -> Z.abs (e_W b - e_W a) < B33 -> d_N (i_dur i) = e_W b - e_W a.
  Proof.
    intros a b i Hc H Hlt. pose proof (interval_length_roundtrip_naive_date a b i Hc H) as R.
    rewrite (Hrt _ Hlt) in R. inversion R. reflexivity.
  Qed.

  Lemma swap_negates_length_partial : forall a b i j, e_dt a = true -> e_dt b = true -> aware a = true -> aware b = true ->
    interval_make a b false = Ok i -> interval_make b a false = Ok j -> Z.abs (ep_inst b - ep_inst a) < B33 ->
    d_N (i_dur j) = - d_N (i_dur i).
  Proof.
    intros a b i j Ha Hb Aa Ab Hi Hj Hlt.
    rewrite (length_exact_partial a b i Ha Hb Aa Ab Hi Hlt).
    rewrite (length_exact_partial b a j Hb Ha Ab Aa Hj) by lia. lia.
  Qed.

  Lemma sub_native_exact_partial : forall self o i, e_dt self = true -> aware self = true ->
    e_native o = true -> e_dt o = true -> aware o = true -> e_canon o <> 0 ->
    (e_fixed o = true -> exists off, e_zone o = fixed_zone off) ->
    ~ wall_skipped (e_zone o) (sec (e_W o)) -> Z.abs (ep_inst self - ep_inst o) < B33 ->
    (dt_sub self o = Ok i -> d_N (i_dur i) = ep_inst self - ep_inst o) /\
    (dt_rsub self o = Ok i -> d_N (i_dur i) = ep_inst o - ep_inst self).
  Proof.
    intros self o i Hd Ha Hn Hdo Hao Hc Hfx Hsk Hlt.
    destruct (sub_native_roundtrip self o i Hd Ha Hn Hdo Hao Hc Hfx Hsk) as [S R].
    split; intros H; [apply S in H | apply R in H]; rewrite Hrt in H by lia; inversion H; reflexivity.
  Qed.

  (* truncation: needs in addition that int(N/10^6 / unit) is exact (Hsplit of C09 for seconds, Hdiv for minutes / hours) *)
  Section Trunc.
    Hypothesis Hsplit : float_split_exact_on_D9.
    Hypothesis Hdiv60 : float_div_trunc_exact 60.
    Hypothesis Hdiv3600 : float_div_trunc_exact 3600.

    Lemma in_units_trunc_partial : forall a b i, e_dt a = true -> e_dt b = true -> aware a = true -> aware b = true ->
      interval_make a b false = Ok i -> Z.abs (ep_inst b - ep_inst a) < B33 ->
      let D := ep_inst b - ep_inst a in
      dur_in_seconds (i_dur i) = Ok (Z.quot D 1000000) /\
      dur_in_minutes (i_dur i) = Ok (Z.quot D 60000000) /\
      dur_in_hours (i_dur i) = Ok (Z.quot D 3600000000).
    Proof.
      intros a b i Ha Hb Aa Ab H Hlt D.
      pose proof (length_exact_partial a b i Ha Hb Aa Ab H Hlt) as EN. fold D in EN.
      destruct (interval_length_roundtrip a b i Ha Hb Aa Ab H) as [_ Habs].
      assert (Hlt' : Z.abs (d_N (i_dur i)) < B33) by (rewrite EN; exact Hlt).
      split; [|split].
      - rewrite (in_seconds_partial Hsplit (i_dur i) Habs Hlt'). rewrite EN. reflexivity.
      - unfold dur_in_minutes, dur_total_minutes, dur_total_seconds. rewrite Habs.
        change C_SECONDS_PER_MINUTE with 60. rewrite (Hdiv60 _ Hlt'). rewrite EN. reflexivity.
      - unfold dur_in_hours, dur_total_hours, dur_total_seconds. rewrite Habs.
        change C_SECONDS_PER_HOUR with 3600. rewrite (Hdiv3600 _ Hlt'). rewrite EN. reflexivity.
    Qed.
  End Trunc.
End FloatPremises.

Section Float64.
  Hypothesis H64 : float_roundtrip_within_64.
  Lemma length_64_partial : forall a b i, e_dt a = true -> e_dt b = true -> aware a = true -> aware b = true ->
    interval_make a b false = Ok i -> Z.abs (ep_inst b - ep_inst a) <= SPAN_MAX ->
    Z.abs (d_N (i_dur i) - (ep_inst b - ep_inst a)) <= 64.
  Proof.
    intros a b i Ha Hb Aa Ab H Hle. destruct (interval_length_roundtrip a b i Ha Hb Aa Ab H) as [R _].
    destruct (H64 _ Hle) as [M [HM Hd]]. rewrite HM in R. inversion R. subst M. exact Hd.
  Qed.
End Float64.

(* Z.quot is truncation toward zero: D = q * u + r with |r| < u and r of the sign of D *)
Lemma quot_is_trunc : forall D u, 0 < u ->
  exists r, D = Z.quot D u * u + r /\ Z.abs r < u /\ (0 <= D -> 0 <= r) /\ (D <= 0 -> r <= 0).
Proof.
  intros D u Hu. exists (Z.rem D u).
  pose proof (Z.quot_rem' D u) as E.
  pose proof (Z.rem_bound_abs D u ltac:(lia)) as B.
  split; [lia|]. split; [lia|]. split; intros H.
  - apply Z.rem_nonneg; lia.
  - apply Z.rem_nonpos; lia.
Qed.

(* ------------------------------------------------------------------ 5. closed float facts, by kernel computation on the SpecFloat model *)
(* instances of Hrt at the borders: +-(2^k s + j us) for every k <= 32, and the very top of the exact range *)
Definition rt_border_points : list Z :=
  flat_map (fun k => flat_map (fun j => [2 ^ k * 1000000 + j; - (2 ^ k * 1000000) - j]) [-2; -1; 0; 1; 2; 499999; 500000; 999999])
           [0; 1; 5; 10; 16; 20; 21; 22; 23; 24; 25; 26; 27; 28; 29; 30; 31; 32]
  ++ [B33 - 1; 1 - B33; B33 - 2; B33 - 500000; 0].

Lemma roundtrip_borders : Forall (fun N => Z.abs N < B33 /\ td_of_float_seconds (total_seconds N) = Ok N) rt_border_points.
Proof.
  assert (H : forallb (fun N => (Z.abs N <? B33) && roundtripb N) rt_border_points = true) by (vm_compute; reflexivity).
  rewrite forallb_forall in H. apply Forall_forall. intros N HN. specialize (H N HN).
  apply andb_prop in H. destruct H as [H1 H2]. split; [lia|].
  unfold roundtripb in H2. destruct (td_of_float_seconds (total_seconds N)) as [M|]; [|discriminate].
  apply Z.eqb_eq in H2. congruence.
Qed.

(* instances of Hdiv: spans of k units -1us / exact / +1us, both signs, are truncated correctly by int(total_seconds() / unit) *)
Definition div_truncb (unit N : Z) : bool :=
  match py_int_trunc (fdiv (total_seconds N) (sf_of_Z unit)) with Ok q => q =? Z.quot N (unit * 1000000) | Raise _ => false end.
Definition unit_boundaryb (unit k : Z) : bool :=
  let B := k * unit * 1000000 in
  div_truncb unit (B - 1) && div_truncb unit B && div_truncb unit (B + 1) &&
  div_truncb unit (1 - B) && div_truncb unit (- B) && div_truncb unit (- B - 1).

Lemma div_trunc_small_k : forall unit k, (unit = 1 \/ unit = 60 \/ unit = 3600) -> 0 <= k <= 600 ->
  forall d, (d = -1 \/ d = 0 \/ d = 1) ->
  py_int_trunc (fdiv (total_seconds (k * unit * 1000000 + d)) (sf_of_Z unit)) = Ok (Z.quot (k * unit * 1000000 + d) (unit * 1000000)) /\
  py_int_trunc (fdiv (total_seconds (- (k * unit * 1000000) - d)) (sf_of_Z unit)) = Ok (Z.quot (- (k * unit * 1000000) - d) (unit * 1000000)).
Proof.
  intros unit k Hu Hk d Hd.
  assert (H : forall_range (unit_boundaryb 1) 0 600 && forall_range (unit_boundaryb 60) 0 600 && forall_range (unit_boundaryb 3600) 0 600 = true)
    by (vm_compute; reflexivity).
  apply andb_prop in H. destruct H as [H H3]. apply andb_prop in H. destruct H as [H1 H2].
  assert (K : unit_boundaryb unit k = true).
  { destruct Hu as [-> | [-> | ->]]; [exact (forall_range_spec _ _ _ H1 k Hk) | exact (forall_range_spec _ _ _ H2 k Hk) | exact (forall_range_spec _ _ _ H3 k Hk)]. }
  unfold unit_boundaryb in K. cbv zeta in K.
  rewrite !andb_true_iff in K. destruct K as [[[[[Ka Kb] Kc] Kd] Ke] Kf].
  assert (S : forall N, div_truncb unit N = true -> py_int_trunc (fdiv (total_seconds N) (sf_of_Z unit)) = Ok (Z.quot N (unit * 1000000))).
  { intros N. unfold div_truncb. destruct (py_int_trunc _) as [q|]; [|discriminate]. intros E. apply Z.eqb_eq in E. congruence. }
  (* no lia here: zify would normalise the closed reflection hypotheses (minutes) *)
  clear H1 H2 H3 Hu Hk.
  destruct Hd as [-> | [-> | ->]]; split.
  - replace (k * unit * 1000000 + -1) with (k * unit * 1000000 - 1) by ring. exact (S _ Ka).
  - replace (- (k * unit * 1000000) - -1) with (1 - k * unit * 1000000) by ring. exact (S _ Kd).
  - replace (k * unit * 1000000 + 0) with (k * unit * 1000000) by ring. exact (S _ Kb).
  - replace (- (k * unit * 1000000) - 0) with (- (k * unit * 1000000)) by ring. exact (S _ Ke).
  - exact (S _ Kc).
  - exact (S _ Kf).
Qed.

(* ... and around every power of two of k up to the top of the exact range (k*unit < 2^33 s) *)
Definition pow2_ks (unit : Z) : list Z :=
  filter (fun k => (0 <? k) && ((k + 1) * unit <? 8589934592))
         (flat_map (fun p => [2 ^ p - 1; 2 ^ p; 2 ^ p + 1]) [1; 2; 3; 4; 5; 6; 7; 8; 9; 10; 11; 12; 13; 14; 15; 16; 17; 18; 19; 20; 21; 22; 23; 24; 25; 26; 27; 28; 29; 30; 31; 32; 33])
  ++ [8589934592 / unit - 1].
Lemma div_trunc_pow2 : forall unit, (unit = 1 \/ unit = 60 \/ unit = 3600) ->
  Forall (fun k => unit_boundaryb unit k = true /\ (k + 1) * unit * 1000000 <= B33) (pow2_ks unit).
Proof.
  intros unit Hu. apply Forall_forall. intros k Hk.
  assert (H : forallb (fun k => unit_boundaryb unit k && ((k + 1) * unit * 1000000 <=? B33)) (pow2_ks unit) = true)
    by (destruct Hu as [-> | [-> | ->]]; vm_compute; reflexivity).
  rewrite forallb_forall in H. specialize (H k Hk). apply andb_prop in H. destruct H. split; [assumption|lia].
Qed.

(* instances of H64 at the far end, with the deviations *)
Lemma within_64_far : Forall (fun N => exists M, td_of_float_seconds (total_seconds N) = Ok M /\ Z.abs (M - N) <= 64 /\ B33 <= Z.abs N <= SPAN_MAX)
  [SPAN_MAX; - SPAN_MAX; SPAN_MAX - 1; 3652059 * 86400000000 - 1; 2 ^ 38 * 1000000 + 1; 2 ^ 38 * 1000000 - 1; - (2 ^ 37 * 1000000) - 31; 17999999999999999; B33; B33 + 1].
Proof.
  repeat (apply Forall_cons; [eexists; split; [vm_compute; reflexivity | vm_compute; repeat split; discriminate]|]). apply Forall_nil.
Qed.

(* the boundary of the claim is sharp: one microsecond beyond 2^33 s the length is off by one microsecond ... *)
Definition utc_ep (W : Z) : ep := mkep true false UTC_ID UTC_ID false (fixed_zone 0) W false.
Lemma length_exact_beyond_refuted :
  exists i, interval_make (utc_ep 0) (utc_ep (B33 + 1)) false = Ok i /\
            ep_inst (utc_ep (B33 + 1)) - ep_inst (utc_ep 0) = B33 + 1 /\ d_N (i_dur i) = B33 + 2.
Proof. eexists. split; [vm_compute; reflexivity|]. split; vm_compute; reflexivity. Qed.

(* ... and the truncation claims fail with it: 5 000 000 hours minus one microsecond has in_hours() = 5 000 000, in_seconds() = 18 000 000 000 *)
Lemma in_units_beyond_refuted :
  exists i, interval_make (utc_ep 1000000) (utc_ep (1000000 + 17999999999999999)) false = Ok i /\
            dur_in_hours (i_dur i) = Ok 5000000 /\ Z.quot 17999999999999999 3600000000 = 4999999 /\
            dur_in_seconds (i_dur i) = Ok 18000000000 /\ Z.quot 17999999999999999 1000000 = 17999999999.
Proof. eexists. split; [vm_compute; reflexivity|]. repeat split; vm_compute; reflexivity. Qed.

(* non-vacuity of the hypotheses used above *)
Example hypotheses_satisfiable :
  (e_dt par_a = true /\ aware par_a = true /\ aware par_b = true /\ same_tz par_a par_b = true) /\
  order_agrees par_a (utc_ep 5) /\ ~ order_agrees par_a par_b /\
  (exists i, interval_make (utc_ep 7) par_a false = Ok i /\ Z.abs (ep_inst par_a - ep_inst (utc_ep 7)) <= SPAN_MAX /\ ~ Z.abs (ep_inst par_a - ep_inst (utc_ep 7)) < B33) /\
  (exists i, interval_make par_b par_a false = Ok i /\ Z.abs (ep_inst par_a - ep_inst par_b) < B33).
Proof.
  split; [vm_compute; repeat split; reflexivity|]. split; [intros H; vm_compute in H; discriminate|].
  split; [intros H; specialize (H eq_refl); vm_compute in H; discriminate|].
  split; eexists; (split; [vm_compute; reflexivity|]); vm_compute; repeat split; try discriminate; intros H; discriminate.
Qed.
