(* Proofs/C05Facts.v — facts about Model/IntervalLen.v (property C05). *)
From Coq Require Import ZArith List Bool Lia ZifyBool.
From Coq Require Import Floats.SpecFloat.
From PV Require Import Lib.PyBase Spec.Cal Spec.Zone Spec.TdFloat Gen.Constants Model.Duration Model.TzConvert Model.IntervalLen.
From PV Require Import Proofs.CalFacts Proofs.ZoneFacts Proofs.TdFloatFacts Proofs.C09Facts.
Import ListNotations.
Open Scope Z_scope.
Ltac Zify.zify_post_hook ::= Z.to_euclidean_division_equations.

Lemma native_delta_aware : forall a b D, e_dt a = true -> aware a = true -> aware b = true ->
  native_delta a b = Ok D -> D = ep_inst b - ep_inst a.
Proof.
  intros a b D Hdt Ha Hb. unfold native_delta, ep_inst, utc_naive. rewrite Hdt, Ha, Hb. cbn [negb].
  destruct (same_tz a b).
  - destruct (wall_in_range (inst (e_zone a) (e_W a) (e_fold a))); cbn [bind]; [|discriminate].
    destruct (wall_in_range (inst (e_zone b) (e_W b) (e_fold b))); cbn [bind]; [|discriminate].
    intros H. inversion H. reflexivity.
  - intros H. inversion H. reflexivity.
Qed.
