(* Proofs/RustHelpersGenFacts.v — the hand model Model/RustHelpers.v IS the compiled code: every function of Gen/RustHelpersGen.v (translated from
   /repo's rust/src/helpers.rs on every run by tools/vlib/rust2gallina.py, with Rust's wrap-around arithmetic explicit) equals its hand-written
   counterpart — is_leap and days_in_year for every integer, the others on explicit input ranges inside which no operation wraps.  No axioms. *)
From Coq Require Import ZArith List Bool Lia.
From PV Require Import Lib.PyBase Gen.RustConstants Model.RustInt Model.RustHelpers Gen.RustHelpersGen.
Import ListNotations.
Open Scope Z_scope.
Ltac Zify.zify_post_hook ::= Z.to_euclidean_division_equations.

(* ------------------------------------------------------------------ no wrap inside the type's range *)
Lemma wrap_i32_small : forall x, -2147483648 <= x < 2147483648 -> wrap_i32 x = x.
Proof. intros x H. unfold wrap_i32, wrap_s. change (2 ^ (32 - 1)) with 2147483648. change (2 ^ 32) with 4294967296. rewrite Z.mod_small; lia. Qed.
Lemma wrap_i64_small : forall x, -9223372036854775808 <= x < 9223372036854775808 -> wrap_i64 x = x.
Proof.
  intros x H. unfold wrap_i64, wrap_s. change (2 ^ (64 - 1)) with 9223372036854775808. change (2 ^ 64) with 18446744073709551616.
  rewrite Z.mod_small; lia.
Qed.
Lemma wrap_u8_small : forall x, 0 <= x < 256 -> wrap_u8 x = x.
Proof. intros x H. unfold wrap_u8, wrap_u. change (2 ^ 8) with 256. apply Z.mod_small. lia. Qed.
Lemma wrap_u32_small : forall x, 0 <= x < 4294967296 -> wrap_u32 x = x.
Proof. intros x H. unfold wrap_u32, wrap_u. change (2 ^ 32) with 4294967296. apply Z.mod_small. lia. Qed.
Lemma wrap_usize_small : forall x, 0 <= x < 18446744073709551616 -> wrap_usize x = x.
Proof. intros x H. unfold wrap_usize, wrap_u. change (2 ^ 64) with 18446744073709551616. apply Z.mod_small. lia. Qed.

(* ------------------------------------------------------------------ is_leap, days_in_year: every integer *)
Theorem gen_rs_is_leap_eq : forall y, gen_rs_is_leap y = rs_is_leap y.
Proof. reflexivity. Qed.

Theorem gen_rs_days_in_year_eq : forall y, gen_rs_days_in_year y = rs_days_in_year y.
Proof. reflexivity. Qed.

(* ------------------------------------------------------------------ p, is_long_year, week_day, day_number *)
Lemma gen_rs_p_eq : forall y, -1000000000 <= y <= 1000000000 -> gen_rs_p y = rs_p y.
Proof.
  intros y H. unfold gen_rs_p, rs_p.
  rewrite (wrap_i32_small (y + Z.quot y 4)) by lia.
  rewrite (wrap_i32_small (y + Z.quot y 4 - Z.quot y 100)) by lia.
  apply wrap_i32_small. lia.
Qed.

Theorem gen_rs_is_long_year_eq : forall y, -1000000000 < y <= 1000000000 -> gen_rs_is_long_year y = rs_is_long_year y.
Proof.
  intros y H. unfold gen_rs_is_long_year, rs_is_long_year.
  rewrite (wrap_i32_small (y - 1)) by lia. rewrite !gen_rs_p_eq by lia. reflexivity.
Qed.

Lemma dow_table_range : forall m, 1 <= m <= 12 -> 0 <= tidx RS_DAY_OF_WEEK_TABLE (m - 1) <= 6.
Proof.
  intros m H. assert (E : m = 1 \/ m = 2 \/ m = 3 \/ m = 4 \/ m = 5 \/ m = 6 \/ m = 7 \/ m = 8 \/ m = 9 \/ m = 10 \/ m = 11 \/ m = 12) by lia.
  repeat (destruct E as [->|E]; [vm_compute; split; discriminate|]). subst m. vm_compute. split; discriminate.
Qed.

Theorem gen_rs_week_day_eq : forall y m d, -100000000 <= y <= 100000000 -> 1 <= m <= 12 -> 0 <= d <= 100000000 ->
  gen_rs_week_day y m d = rs_week_day y m d.
Proof.
  intros y m d Hy Hm Hd. unfold gen_rs_week_day, rs_week_day. cbv zeta.
  pose proof (dow_table_range m Hm) as T.
  assert (B : 0 <= (if m <? 3 then 1 else 0) <= 1) by (destruct (m <? 3); lia).
  rewrite (wrap_i32_small (y - _)) by lia.
  rewrite gen_rs_p_eq by lia.
  rewrite (wrap_u32_small (m - 1)) by lia.
  set (t := tidx RS_DAY_OF_WEEK_TABLE (m - 1)) in *.
  rewrite (wrap_i32_small t) by lia. rewrite (wrap_i32_small d) by lia.
  set (yy := y - (if m <? 3 then 1 else 0)) in *.
  assert (P : -130000000 <= rs_p yy <= 130000000) by (unfold rs_p; lia).
  rewrite (wrap_i32_small (rs_p yy + t)) by lia.
  rewrite (wrap_i32_small (rs_p yy + t + d)) by lia.
  reflexivity.
Qed.

Theorem gen_rs_day_number_eq : forall y m d, -1000000 <= y <= 1000000 -> 1 <= m <= 12 -> 0 <= d <= 255 ->
  gen_rs_day_number y m d = rs_day_number y m d.
Proof.
  intros y m d Hy Hm Hd. unfold gen_rs_day_number, rs_day_number. cbv zeta.
  rewrite (wrap_u8_small (m + 9)) by lia.
  set (mm := Z.rem (m + 9) 12). assert (Hmm : 0 <= mm <= 11) by (unfold mm; lia).
  rewrite (wrap_i32_small (y - Z.quot mm 10)) by lia.
  set (yy := y - Z.quot mm 10). assert (Hyy : -1000001 <= yy <= 1000000) by (unfold yy; lia).
  rewrite (wrap_i32_small (365 * yy)) by lia.
  rewrite (wrap_i32_small (365 * yy + Z.quot yy 4)) by lia.
  rewrite (wrap_i32_small (365 * yy + Z.quot yy 4 - Z.quot yy 100)) by lia.
  rewrite (wrap_i32_small (365 * yy + Z.quot yy 4 - Z.quot yy 100 + Z.quot yy 400)) by lia.
  rewrite (wrap_i32_small (mm * 306)) by lia.
  rewrite (wrap_i32_small (mm * 306 + 5)) by lia.
  rewrite (wrap_i32_small (d - 1)) by lia.
  rewrite (wrap_i32_small (365 * yy + Z.quot yy 4 - Z.quot yy 100 + Z.quot yy 400 + Z.quot (mm * 306 + 5) 10)) by lia.
  apply wrap_i32_small. lia.
Qed.

(* ------------------------------------------------------------------ local_time *)
Notation B62 := 4611686018427387904 (only parsing).

Lemma c100_vals : tidx RS_SECS_PER_100_YEARS 0 = 3155673600 /\ tidx RS_SECS_PER_100_YEARS 1 = 3155760000.
Proof. split; reflexivity. Qed.
Lemma c4_vals : tidx RS_SECS_PER_4_YEARS 0 = 126144000 /\ tidx RS_SECS_PER_4_YEARS 1 = 126230400.
Proof. split; reflexivity. Qed.
Lemma c1_vals : tidx RS_SECS_PER_YEAR 0 = 31536000 /\ tidx RS_SECS_PER_YEAR 1 = 31622400.
Proof. split; reflexivity. Qed.

Lemma loop1_eq : forall fuel s y l c, 0 <= s < B62 -> 0 <= c < B62 -> 0 <= y -> y + 100 * Z.of_nat fuel < B62 ->
  gen_rs_local_time_loop1 fuel s y l c = rs_lt_loop fuel RS_SECS_PER_100_YEARS 100 0 s y l c.
Proof.
  induction fuel as [|f IH]; intros s y l c Hs Hc Hy Hf; [reflexivity|]. cbn [gen_rs_local_time_loop1 rs_lt_loop].
  destruct (s >=? c) eqn:E; [|reflexivity]. apply Z.geb_le in E. cbv zeta.
  rewrite (wrap_i64_small (s - c)) by lia. rewrite (wrap_usize_small (y + 100)) by lia.
  apply IH; try lia. rewrite (proj1 c100_vals). lia.
Qed.

Lemma loop2_eq : forall fuel s y l c, 0 <= s < B62 -> 0 <= c < B62 -> 0 <= y -> y + 4 * Z.of_nat fuel < B62 ->
  gen_rs_local_time_loop2 fuel s y l c = rs_lt_loop fuel RS_SECS_PER_4_YEARS 4 1 s y l c.
Proof.
  induction fuel as [|f IH]; intros s y l c Hs Hc Hy Hf; [reflexivity|]. cbn [gen_rs_local_time_loop2 rs_lt_loop].
  destruct (s >=? c) eqn:E; [|reflexivity]. apply Z.geb_le in E. cbv zeta.
  rewrite (wrap_i64_small (s - c)) by lia. rewrite (wrap_usize_small (y + 4)) by lia.
  apply IH; try lia. rewrite (proj2 c4_vals). lia.
Qed.

Lemma loop3_eq : forall fuel s y l c, 0 <= s < B62 -> 0 <= c < B62 -> 0 <= y -> y + 1 * Z.of_nat fuel < B62 ->
  gen_rs_local_time_loop3 fuel s y l c = rs_lt_loop fuel RS_SECS_PER_YEAR 1 0 s y l c.
Proof.
  induction fuel as [|f IH]; intros s y l c Hs Hc Hy Hf; [reflexivity|]. cbn [gen_rs_local_time_loop3 rs_lt_loop].
  destruct (s >=? c) eqn:E; [|reflexivity]. apply Z.geb_le in E. cbv zeta.
  rewrite (wrap_i64_small (s - c)) by lia. rewrite (wrap_usize_small (y + 1)) by lia.
  apply IH; try lia. rewrite (proj1 c1_vals). lia.
Qed.

(* what the hand model's loop guarantees about its result *)
Lemma rs_lt_loop_inv : forall tbl step leapv, 0 <= step -> 0 <= tidx tbl leapv < B62 ->
  forall fuel s y l c s' y' l' c', 0 <= s -> 0 <= c < B62 ->
  rs_lt_loop fuel tbl step leapv s y l c = Some (s', y', l', c') ->
  0 <= s' <= s /\ y <= y' <= y + step * Z.of_nat fuel /\ (l' = l \/ l' = leapv).
Proof.
  intros tbl step leapv Hst Ht. induction fuel as [|f IH]; intros s y l c s' y' l' c' Hs Hc H; [discriminate|].
  cbn [rs_lt_loop] in H. destruct (s >=? c) eqn:E.
  - apply Z.geb_le in E. apply IH in H; lia.
  - inversion H; subst. repeat split; lia.
Qed.

Lemma month_offset_range : forall leap month, (leap = 0 \/ leap = 1) -> 1 <= month <= 12 ->
  0 <= tidx (tidx2 RS_MONTHS_OFFSETS leap) month <= 366.
Proof.
  intros leap m Hl H.
  assert (E : m = 1 \/ m = 2 \/ m = 3 \/ m = 4 \/ m = 5 \/ m = 6 \/ m = 7 \/ m = 8 \/ m = 9 \/ m = 10 \/ m = 11 \/ m = 12) by lia.
  destruct Hl as [-> | ->]; repeat (destruct E as [->|E]; [vm_compute; split; discriminate|]); subst m; vm_compute; split; discriminate.
Qed.

Lemma loop4_eq : forall fuel leap day month, (leap = 0 \/ leap = 1) -> 1 <= month <= 12 -> 0 <= day < B62 ->
  gen_rs_local_time_loop4 fuel leap day month = rs_lt_month fuel leap day month.
Proof.
  induction fuel as [|f IH]; intros leap day month Hl Hm Hd; [reflexivity|]. cbn [gen_rs_local_time_loop4 rs_lt_month].
  change (wrap_usize (RS_TM_JANUARY + 1)) with (RS_TM_JANUARY + 1).
  destruct (negb (month =? RS_TM_JANUARY + 1)) eqn:E; [|reflexivity]. cbv zeta.
  pose proof (month_offset_range leap month Hl Hm) as T.
  rewrite (wrap_usize_small (tidx _ month)) by lia.
  destruct (day >? tidx (tidx2 RS_MONTHS_OFFSETS leap) month) eqn:G.
  - rewrite wrap_usize_small by lia. reflexivity.
  - assert (month <> 1). { intros ->. discriminate E. }
    rewrite (wrap_usize_small (month - 1)) by lia. apply IH; try assumption; lia.
Qed.

Theorem gen_rs_local_time_eq : forall t off us, -20000000000 <= t <= 1000000000000000 -> -1000000 <= off <= 1000000 ->
  gen_rs_local_time t off us = rs_local_time t off us.
Proof.
  intros t off us Ht Ho. unfold gen_rs_local_time, rs_local_time, rs_lt_prefix, rs_lt_tail. cbv zeta.
  change RS_EPOCH_YEAR with 1970. change RS_SECS_PER_DAY with 86400. change RS_SECS_PER_400_YEARS with 12622780800.
  change (wrap_i64 (10957 * 86400)) with 946684800. change (wrap_i64 (wrap_i64 (146097 - 10957) * 86400)) with 11676096000.
  change (wrap_usize (1970 + 30)) with 2000. change (wrap_usize (1970 - 370)) with 1600.
  change (10957 * 86400) with 946684800. change ((146097 - 10957) * 86400) with 11676096000. change (1970 + 30) with 2000. change (1970 - 370) with 1600.
  change RS_TM_DECEMBER with 11. change RS_SECS_PER_HOUR with 3600. change RS_SECS_PER_MIN with 60. change (wrap_usize (11 + 1)) with (11 + 1).
  set (s0 := if t >=? 0 then t - 946684800 else t + 11676096000).
  set (yb := if t >=? 0 then 2000 else 1600).
  assert (Hs0 : -8400000000 <= s0 <= 1000100000000000 /\ 1600 <= yb <= 2000) by (unfold s0, yb; destruct (t >=? 0) eqn:Et; lia).
  assert (EL : (if t >=? 0 then (wrap_i64 (t - 946684800), 2000) else (wrap_i64 (t + 11676096000), 1600)) = (s0, yb)).
  { unfold s0, yb. destruct (t >=? 0) eqn:Et; rewrite wrap_i64_small by lia; reflexivity. }
  assert (ER : (if t >=? 0 then (t - 946684800, 2000) else (t + 11676096000, 1600)) = (s0, yb)) by (unfold s0, yb; destruct (t >=? 0); reflexivity).
  rewrite EL, ER. clear EL ER. cbv beta iota.
  rewrite (wrap_i64_small (s0 + off)) by lia.
  set (S := s0 + off). assert (HS : -8500000000 <= S <= 1000100001000000) by (unfold S; lia).
  set (Q := Z.quot S 12622780800). assert (HQ : 0 <= Q <= 100000) by (unfold Q; lia).
  set (Rm := Z.rem S 12622780800). assert (HR : -12622780800 < Rm < 12622780800 /\ S = 12622780800 * Q + Rm) by (unfold Rm, Q; lia).
  rewrite (wrap_usize_small Q) by lia. rewrite (wrap_usize_small (400 * Q)) by lia. rewrite (wrap_usize_small (yb + 400 * Q)) by lia.
  assert (E2 : (if Rm <? 0 then (wrap_i64 (Rm + 12622780800), wrap_usize (yb + 400 * Q - 400)) else (Rm, yb + 400 * Q))
             = (if Rm <? 0 then (Rm + 12622780800, yb + 400 * Q - 400) else (Rm, yb + 400 * Q))).
  { destruct (Rm <? 0) eqn:En; [|reflexivity]. rewrite wrap_i64_small, wrap_usize_small by lia. reflexivity. }
  rewrite E2. clear E2.
  set (P := if Rm <? 0 then (Rm + 12622780800, yb + 400 * Q - 400) else (Rm, yb + 400 * Q)).
  assert (HP : 0 <= fst P < 12622780800 /\ 1200 <= snd P <= 40002000) by (unfold P; destruct (Rm <? 0) eqn:En; cbn [fst snd]; lia).
  destruct P as [s1 y1]. cbn [fst snd] in HP.
  (* the four loops *)
  rewrite loop1_eq by (rewrite ?(proj2 c100_vals); lia).
  destruct (rs_lt_loop 4 RS_SECS_PER_100_YEARS 100 0 s1 y1 1 (tidx RS_SECS_PER_100_YEARS 1)) as [[[[s2 y2] l2] c2]|] eqn:L1; [|reflexivity].
  apply rs_lt_loop_inv in L1; [| lia | rewrite (proj1 c100_vals); lia | lia | rewrite (proj2 c100_vals); lia].
  assert (C2 : 0 <= tidx RS_SECS_PER_4_YEARS l2 < 4611686018427387904) by (destruct L1 as (_ & _ & [-> | ->]); rewrite ?(proj1 c4_vals), ?(proj2 c4_vals); lia).
  rewrite loop2_eq by lia.
  destruct (rs_lt_loop 25 RS_SECS_PER_4_YEARS 4 1 s2 y2 l2 (tidx RS_SECS_PER_4_YEARS l2)) as [[[[s3 y3] l3] c3]|] eqn:L2; [|reflexivity].
  apply rs_lt_loop_inv in L2; [| lia | rewrite (proj2 c4_vals); lia | lia | exact C2].
  assert (Hl3 : l3 = 0 \/ l3 = 1) by (destruct L1 as (_ & _ & [-> | ->]); destruct L2 as (_ & _ & [-> | ->]); auto).
  assert (C3 : 0 <= tidx RS_SECS_PER_YEAR l3 < 4611686018427387904) by (destruct Hl3 as [-> | ->]; rewrite ?(proj1 c1_vals), ?(proj2 c1_vals); lia).
  rewrite loop3_eq by lia.
  destruct (rs_lt_loop 4 RS_SECS_PER_YEAR 1 0 s3 y3 l3 (tidx RS_SECS_PER_YEAR l3)) as [[[[s4 y4] l4] c4]|] eqn:L3; [|reflexivity].
  apply rs_lt_loop_inv in L3; [| lia | rewrite (proj1 c1_vals); lia | lia | exact C3].
  assert (Hl4 : l4 = 0 \/ l4 = 1) by (destruct L3 as (_ & _ & [-> | ->]); auto).
  assert (Hs4 : 0 <= s4 < 12622780800) by lia.
  rewrite (wrap_i64_small (Z.quot s4 86400 + 1)) by lia. rewrite (wrap_usize_small (Z.quot s4 86400 + 1)) by lia.
  rewrite loop4_eq by (try exact Hl4; lia).
  destruct (rs_lt_month 13 l4 (Z.quot s4 86400 + 1) (11 + 1)) as [[dd mm]|]; [|reflexivity].
  rewrite !wrap_usize_small by lia. reflexivity.
Qed.

Print Assumptions gen_rs_is_leap_eq.
Print Assumptions gen_rs_week_day_eq.
Print Assumptions gen_rs_day_number_eq.
Print Assumptions gen_rs_local_time_eq.
