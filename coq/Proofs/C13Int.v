(* Proofs/C13Int.v — C13: integer-component durations, universally over digit strings. *)
From Coq Require Import ZArith List Bool Lia Floats.SpecFloat.
From PV Require Import Lib.PyBase Gen.Constants Model.DurParse Model.DurSpec.
Import ListNotations.
Open Scope Z_scope.

Definition digits (ds : list Z) : Prop := ds <> [] /\ forallb is_digit ds = true.

Definition dval_from (v : Z) (ds : list Z) : Z := fold_left (fun a c => 10 * a + (c - 48)) ds v.

Lemma dval_cons c ds : dval (c :: ds) = dval_from (c - 48) ds.
Proof. unfold dval, dval_from. cbn [fold_left]. f_equal. Qed.

Lemma is_digit_range c : is_digit c = true -> 48 <= c <= 57.
Proof. unfold is_digit. intros H. apply andb_true_iff in H. destruct H as [H1 H2]. apply Z.leb_le in H1. apply Z.leb_le in H2. lia. Qed.

Lemma dval_from_nonneg ds : forall v, 0 <= v -> forallb is_digit ds = true -> 0 <= dval_from v ds.
Proof.
  induction ds as [|c ds IH]; intros v Hv H; [exact Hv|].
  cbn [forallb] in H. apply andb_true_iff in H. destruct H as [Hc Hd]. apply is_digit_range in Hc.
  unfold dval_from. cbn [fold_left]. apply IH; [lia|exact Hd].
Qed.

Lemma dval_nonneg ds : forallb is_digit ds = true -> 0 <= dval ds.
Proof. intros H. apply (dval_from_nonneg ds 0); [lia|exact H]. Qed.

(* ------------------------------------------------------------------ Rust number parsing = value mod 2^32 *)
Lemma u32_step v c : u32 (u32 (u32 v * 10) + (c - 48)) = u32 (10 * v + (c - 48)).
Proof.
  unfold u32.
  rewrite Z.add_mod_idemp_l by lia.
  rewrite <- (Z.add_mod_idemp_l (v mod 4294967296 * 10)) by lia.
  rewrite Z.mul_mod_idemp_l by lia. rewrite Z.add_mod_idemp_l by lia. f_equal. lia.
Qed.

Definition nodigit_head (r : list Z) : Prop := match r with [] => True | c :: _ => is_digit c = false end.

Lemma rs_num_loop_app ds : forall v r, forallb is_digit ds = true -> nodigit_head r ->
  rs_num_loop (u32 v) (ds ++ r) = (u32 (dval_from v ds), r).
Proof.
  induction ds as [|c ds IH]; intros v r Hd Hr.
  - cbn [app dval_from fold_left]. destruct r as [|c r]; cbn [rs_num_loop]; [reflexivity|].
    cbn in Hr. rewrite Hr. reflexivity.
  - cbn [forallb] in Hd. apply andb_true_iff in Hd. destruct Hd as [Hc Hd].
    cbn [app rs_num_loop]. rewrite Hc. rewrite u32_step. rewrite (IH _ r Hd Hr). reflexivity.
Qed.

Lemma rs_number_app ds r : digits ds -> nodigit_head r -> rs_number (ds ++ r) = Ok (u32 (dval ds), r).
Proof.
  intros [Hne Hd] Hr. destruct ds as [|c ds]; [congruence|].
  cbn [forallb] in Hd. apply andb_true_iff in Hd. destruct Hd as [Hc Hd].
  cbn [app rs_number]. rewrite Hc. f_equal.
  assert (Hcc : c - 48 = u32 (c - 48)).
  { apply is_digit_range in Hc. unfold u32. rewrite Z.mod_small; lia. }
  rewrite Hcc at 1. rewrite (rs_num_loop_app ds (c - 48) r Hd Hr). rewrite dval_cons. reflexivity.
Qed.

(* a designator: not a digit, not a fraction separator *)
Definition desig (c : Z) : Prop := is_digit c = false /\ is_sep c = false.

Lemma rs_number_frac_tok ds c r : digits ds -> desig c ->
  rs_number_frac (ds ++ c :: r) = Ok (u32 (dval ds), None, c :: r).
Proof.
  intros Hd [Hc1 Hc2]. unfold rs_number_frac. rewrite (rs_number_app ds (c :: r) Hd Hc1).
  cbn [bind]. rewrite Hc2. reflexivity.
Qed.

Lemma digits_head_not_T ds r : digits ds -> exists c l, ds ++ r = c :: l /\ (c =? c_T) = false.
Proof.
  intros [Hne Hd]. destruct ds as [|c ds]; [congruence|]. exists c, (ds ++ r). split; [reflexivity|].
  cbn [forallb] in Hd. apply andb_true_iff in Hd. destruct Hd as [Hc _]. apply is_digit_range in Hc.
  apply Z.eqb_neq. unfold c_T. lia.
Qed.

(* one iteration of the loop of parse_duration on an integer token *)
Lemma rs_loop_tok f d gt ds c r : digits ds -> desig c ->
  rs_loop (S f) d gt false (ds ++ c :: r) =
  bind (rs_unit gt c (u32 (dval ds)) None false d) (fun d' => if is_nil r then Ok d' else rs_loop f d' gt false r).
Proof.
  intros Hd Hc. destruct (digits_head_not_T ds (c :: r) Hd) as [c0 [l [E HT]]].
  cbn [rs_loop]. rewrite E. rewrite HT. rewrite <- E. rewrite (rs_number_frac_tok ds c r Hd Hc). reflexivity.
Qed.

(* ------------------------------------------------------------------ token lists *)
Definition token := (list Z * Z)%type.
Definition render_toks (ts : list token) : list Z := flat_map (fun t => fst t ++ [snd t]) ts.
Definition wf_tok (t : token) : Prop := digits (fst t) /\ desig (snd t).

Fixpoint rs_fold (gt : bool) (d : rsdur) (ts : list token) : result rsdur :=
  match ts with
  | [] => Ok d
  | (ds, c) :: ts' => bind (rs_unit gt c (u32 (dval ds)) None false d) (fun d' => rs_fold gt d' ts')
  end.

Lemma render_toks_cons ds c ts : render_toks ((ds, c) :: ts) = ds ++ c :: render_toks ts.
Proof. unfold render_toks. cbn [flat_map fst snd]. rewrite <- app_assoc. reflexivity. Qed.

Lemma render_toks_nil_iff ts : Forall wf_tok ts -> is_nil (render_toks ts) = true -> ts = [].
Proof.
  intros H. destruct ts as [|[ds c] ts]; [reflexivity|]. rewrite render_toks_cons.
  destruct ds; cbn; discriminate.
Qed.

(* the time tokens (after 'T'), then end of input *)
Lemma rs_loop_toks_end ts : forall f d gt, Forall wf_tok ts -> ts <> [] -> (length ts <= f)%nat ->
  rs_loop f d gt false (render_toks ts) = rs_fold gt d ts.
Proof.
  induction ts as [|[ds c] ts IH]; intros f d gt Hwf Hne Hf; [congruence|].
  inversion Hwf as [|x xs [Hd Hc] Hwf']; subst. cbn [fst snd] in *.
  destruct f as [|f]; [cbn in Hf; lia|]. rewrite render_toks_cons.
  rewrite (rs_loop_tok f d gt ds c _ Hd Hc). cbn [rs_fold].
  destruct (rs_unit gt c (u32 (dval ds)) None false d) as [d'|e]; cbn [bind]; [|reflexivity].
  destruct ts as [|t ts].
  - reflexivity.
  - assert (Hn : is_nil (render_toks (t :: ts)) = false).
    { destruct (is_nil (render_toks (t :: ts))) eqn:E; [|reflexivity].
      apply (render_toks_nil_iff _ Hwf') in E. discriminate. }
    rewrite Hn. apply IH; [exact Hwf'|discriminate|cbn in Hf |- *; lia].
Qed.

(* date tokens, then optionally 'T' and time tokens *)
Lemma rs_loop_toks_T dts : forall f d tts, Forall wf_tok dts -> Forall wf_tok tts -> (length dts + length tts + 1 <= f)%nat ->
  rs_loop f d false false (render_toks dts ++ c_T :: render_toks tts) =
  bind (rs_fold false d dts) (fun d' => rs_fold true d' tts).
Proof.
  induction dts as [|[ds c] dts IH]; intros f d tts Hwd Hwt Hf.
  - cbn [render_toks flat_map app rs_fold bind]. destruct f as [|f]; [lia|].
    cbn [rs_loop]. replace (c_T =? c_T) with true by reflexivity.
    destruct tts as [|t tts].
    + reflexivity.
    + assert (Hn : is_nil (render_toks (t :: tts)) = false).
      { destruct (is_nil (render_toks (t :: tts))) eqn:E; [|reflexivity].
        apply (render_toks_nil_iff _ Hwt) in E. discriminate. }
      rewrite Hn. apply rs_loop_toks_end; [exact Hwt|discriminate|cbn in Hf |- *; lia].
  - inversion Hwd as [|x xs [Hd Hc] Hwd']; subst. cbn [fst snd] in *.
    destruct f as [|f]; [cbn in Hf; lia|]. rewrite render_toks_cons. rewrite <- app_assoc. cbn [app].
    rewrite (rs_loop_tok f d false ds c _ Hd Hc). cbn [rs_fold].
    destruct (rs_unit false c (u32 (dval ds)) None false d) as [d'|e]; cbn [bind]; [|reflexivity].
    assert (Hn : is_nil (render_toks dts ++ c_T :: render_toks tts) = false) by (destruct (render_toks dts); reflexivity).
    rewrite Hn. apply IH; [exact Hwd'|exact Hwt|cbn in Hf |- *; lia].
Qed.

Lemma render_toks_length ts : (length ts <= length (render_toks ts))%nat.
Proof.
  induction ts as [|[ds c] ts IH]; [cbn; lia|]. rewrite render_toks_cons. rewrite app_length. cbn [length]. lia.
Qed.

(* Parser::parse on  P <date tokens> [T <time tokens>] *)
Lemma rs_raw_toks_T dts tts : Forall wf_tok dts -> Forall wf_tok tts ->
  rs_raw (c_P :: render_toks dts ++ c_T :: render_toks tts) = bind (rs_fold false rsdur0 dts) (fun d' => rs_fold true d' tts).
Proof.
  intros Hd Ht. unfold rs_raw. replace (c_P =? c_P) with true by reflexivity.
  apply rs_loop_toks_T; [exact Hd|exact Ht|].
  rewrite app_length. cbn [length]. pose proof (render_toks_length dts). pose proof (render_toks_length tts). lia.
Qed.

Lemma rs_raw_toks dts : Forall wf_tok dts -> dts <> [] ->
  rs_raw (c_P :: render_toks dts) = rs_fold false rsdur0 dts.
Proof.
  intros Hd Hne. unfold rs_raw. replace (c_P =? c_P) with true by reflexivity.
  apply rs_loop_toks_end; [exact Hd|exact Hne|]. pose proof (render_toks_length dts). lia.
Qed.

(* ------------------------------------------------------------------ PnYnMnDTnHnMnS with any subset of components *)
Definition otok (o : option (list Z)) (c : Z) : list token := match o with Some ds => [(ds, c)] | None => [] end.
Definition date_toks (y mo d : option (list Z)) : list token := otok y c_Y ++ otok mo c_M ++ otok d c_D.
Definition time_toks (h mi s : option (list Z)) : list token := otok h c_H ++ otok mi c_M ++ otok s c_S.
Definition oval (o : option (list Z)) : Z := match o with Some ds => dval ds | None => 0 end.
Definition owf (o : option (list Z)) : Prop := match o with Some ds => digits ds | None => True end.

(* the text  P[nY][nM][nD]  or  P[nY][nM][nD]T[nH][nM][nS] *)
Definition render_dur (y mo d : option (list Z)) (t : option (option (list Z) * option (list Z) * option (list Z))) : list Z :=
  c_P :: render_toks (date_toks y mo d) ++
  match t with Some (h, mi, s) => c_T :: render_toks (time_toks h mi s) | None => [] end.

Lemma desig_Y : desig c_Y. Proof. split; reflexivity. Qed.
Lemma desig_M : desig c_M. Proof. split; reflexivity. Qed.
Lemma desig_D : desig c_D. Proof. split; reflexivity. Qed.
Lemma desig_H : desig c_H. Proof. split; reflexivity. Qed.
Lemma desig_S : desig c_S. Proof. split; reflexivity. Qed.
Lemma desig_W : desig c_W. Proof. split; reflexivity. Qed.

Lemma otok_wf o c : owf o -> desig c -> Forall wf_tok (otok o c).
Proof. destruct o; intros H Hc; cbn; [constructor; [split; assumption|constructor]|constructor]. Qed.

Lemma date_toks_wf y mo d : owf y -> owf mo -> owf d -> Forall wf_tok (date_toks y mo d).
Proof.
  intros. unfold date_toks. repeat (apply Forall_app; split); apply otok_wf; auto using desig_Y, desig_M, desig_D.
Qed.
Lemma time_toks_wf h mi s : owf h -> owf mi -> owf s -> Forall wf_tok (time_toks h mi s).
Proof.
  intros. unfold time_toks. repeat (apply Forall_app; split); apply otok_wf; auto using desig_H, desig_M, desig_S.
Qed.

Lemma u32_idem x : u32 (u32 x) = u32 x.
Proof. unfold u32. apply Z.mod_mod. lia. Qed.
Lemma u32_0 : u32 0 = 0. Proof. reflexivity. Qed.

Arguments u32 : simpl never.
Arguments dval : simpl never.

Definition rs_int_result (y mo d h mi s : option (list Z)) : rsdur :=
  mk_rsdur (u32 (oval y)) (u32 (oval mo)) 0 (u32 (oval d)) (u32 (oval h)) (u32 (oval mi)) (u32 (oval s)) 0.

Lemma rs_fold_int y mo d h mi s :
  bind (rs_fold false rsdur0 (date_toks y mo d)) (fun d' => rs_fold true d' (time_toks h mi s)) = Ok (rs_int_result y mo d h mi s).
Proof.
  unfold rs_int_result.
  destruct y, mo, d, h, mi, s; cbn; rewrite ?u32_idem, ?u32_0; reflexivity.
Qed.

Lemma rs_int_T y mo d h mi s : owf y -> owf mo -> owf d -> owf h -> owf mi -> owf s ->
  rs_raw (render_dur y mo d (Some (h, mi, s))) = Ok (rs_int_result y mo d h mi s).
Proof.
  intros. unfold render_dur. rewrite rs_raw_toks_T by (auto using date_toks_wf, time_toks_wf).
  apply rs_fold_int.
Qed.

Lemma rs_int_noT y mo d : owf y -> owf mo -> owf d -> date_toks y mo d <> [] ->
  rs_raw (render_dur y mo d None) = Ok (rs_int_result y mo d None None None).
Proof.
  intros. unfold render_dur. rewrite app_nil_r. rewrite rs_raw_toks by (auto using date_toks_wf).
  pose proof (rs_fold_int y mo d None None None) as E. cbn [time_toks otok app rs_fold] in E.
  destruct (rs_fold false rsdur0 (date_toks y mo d)); cbn [bind] in E; exact E.
Qed.

(* ------------------------------------------------------------------ glue to the native value (integers only: no float is involved) *)
Definition int_total_us (years months weeks days hours minutes seconds us : Z) : Z :=
  us + seconds * 1000000 + minutes * 60000000 + hours * 3600000000 + (days + years * 365 + months * 30) * US_PER_DAY + weeks * (7 * US_PER_DAY).

Lemma td_total_us_int days seconds us minutes hours weeks :
  td_total_us days (NInt seconds) us (NInt minutes) (NInt hours) weeks =
  Ok (us + seconds * 1000000 + minutes * 60000000 + hours * 3600000000 + days * US_PER_DAY + weeks * (7 * US_PER_DAY)).
Proof. unfold td_total_us, accum. cbn [bind f_is_zero f_zero]. f_equal. lia. Qed.

Lemma duration_native_int years months weeks days hours minutes seconds us :
  duration_native years months weeks days (NInt hours) (NInt minutes) (NInt seconds) us =
  let x := int_total_us years months weeks days hours minutes seconds us in
  bind (td_norm x) (fun dsu => let '(d, s, u) := dsu in Ok (x, (years, months, d, s, u))).
Proof. unfold duration_native. rewrite td_total_us_int. reflexivity. Qed.

Ltac Zify.zify_post_hook ::= Z.to_euclidean_division_equations.

(* in range: the observed value is exactly x *)
Lemma td_norm_ok x years months : 0 <= x -> x / US_PER_DAY <= 999999999 ->
  exists d s u, td_norm x = Ok (d, s, u) /\
    obs_us (years, months, d, s, u) = x - (365 * years + 30 * months) * US_PER_DAY.
Proof.
  intros H0 H1. unfold td_norm.
  assert (E : ((x / US_PER_DAY <? -999999999) || (999999999 <? x / US_PER_DAY)) = false).
  { apply orb_false_iff. split; apply Z.ltb_ge; unfold US_PER_DAY in *; lia. }
  rewrite E. do 3 eexists. split; [reflexivity|]. unfold obs_us, US_PER_DAY. lia.
Qed.

Lemma td_norm_overflow x : 999999999 < x / US_PER_DAY -> td_norm x = Raise E_OverflowError.
Proof.
  intros H. unfold td_norm. apply Z.ltb_lt in H. rewrite H. rewrite orb_true_r. reflexivity.
Qed.
