(* Proofs/C10Facts.v — lemmas for C10 (Duration arithmetic agrees with timedelta arithmetic).
   Part 1: the translated _divide_and_round is round-half-even of the exact quotient (all integers, b <> 0), unique. *)
From Coq Require Import ZArith List Bool Lia ZifyBool.
From Coq Require Import Floats.SpecFloat.
From PV Require Import Lib.PyBase Spec.TdFloat Gen.Constants Model.Duration Gen.DurationOps Model.DurationOps
                       Proofs.TdFloatFacts Proofs.C09Facts.
Import ListNotations.
Open Scope Z_scope.
Ltac Zify.zify_post_hook ::= Z.to_euclidean_division_equations.
Set Default Timeout 20.

(* ------------------------------------------------------------------ Part 1: _divide_and_round *)
(* q is a nearest integer to a / b, ties to even, stated without division:  |2 (a - q b)| <= |b|, and on a tie q is even *)
Definition nearest_even (a b q : Z) : Prop :=
  2 * Z.abs (a - q * b) <= Z.abs b /\ (2 * Z.abs (a - q * b) = Z.abs b -> q mod 2 = 0).

Lemma divide_and_round_unfold : forall a b,
  py_divide_and_round a b =
  let q := a / b in let r := (a mod b) * 2 in
  if (if b >? 0 then r >? b else r <? b) || ((r =? b) && (q mod 2 =? 1)) then q + 1 else q.
Proof. reflexivity. Qed.

Lemma divide_and_round_nearest : forall a b, b <> 0 -> nearest_even a b (py_divide_and_round a b).
Proof.
  intros a b Hb. rewrite divide_and_round_unfold. cbv zeta. unfold nearest_even.
  pose proof (Z.div_mod a b Hb) as DM.
  assert (HR : (0 < b /\ 0 <= a mod b < b) \/ (b < 0 /\ b < a mod b <= 0)).
  { destruct (Z_lt_ge_dec 0 b); [left | right]; (split; [lia|]).
    - apply Z.mod_pos_bound; lia.
    - apply Z.mod_neg_bound; lia. }
  set (q := a / b) in *. set (r := a mod b) in *. clearbody q r.
  assert (E : forall k, a - k * b = r + (q - k) * b) by (intro; nia).
  assert (Q2 : q mod 2 = 0 \/ q mod 2 = 1) by (pose proof (Z.mod_pos_bound q 2); lia).
  assert (Q3 : (q + 1) mod 2 = 1 - q mod 2) by lia.
  destruct HR as [[Bp Hr]|[Bn Hr]].
  - assert (Gb : (b >? 0) = true) by lia. rewrite Gb.
    destruct (r * 2 >? b) eqn:G1; cbn [orb].
    + rewrite E. replace (q - (q + 1)) with (-1) by lia. split; [lia|]. intro T. lia.
    + destruct (r * 2 =? b) eqn:G2; cbn [andb].
      * destruct (q mod 2 =? 1) eqn:G3.
        -- rewrite E. replace (q - (q + 1)) with (-1) by lia. split; [lia|]. intros _. rewrite Q3. lia.
        -- rewrite E. replace (q - q) with 0 by lia. split; [lia|]. intros _. lia.
      * rewrite E. replace (q - q) with 0 by lia. split; [lia|]. intro T. lia.
  - assert (Gb : (b >? 0) = false) by lia. rewrite Gb.
    destruct (r * 2 <? b) eqn:G1; cbn [orb].
    + rewrite E. replace (q - (q + 1)) with (-1) by lia. split; [lia|]. intro T. lia.
    + destruct (r * 2 =? b) eqn:G2; cbn [andb].
      * destruct (q mod 2 =? 1) eqn:G3.
        -- rewrite E. replace (q - (q + 1)) with (-1) by lia. split; [lia|]. intros _. rewrite Q3. lia.
        -- rewrite E. replace (q - q) with 0 by lia. split; [lia|]. intros _. lia.
      * rewrite E. replace (q - q) with 0 by lia. split; [lia|]. intro T. lia.
Qed.

(* there is exactly one nearest-even integer *)
Lemma nearest_even_unique : forall a b q1 q2, b <> 0 -> nearest_even a b q1 -> nearest_even a b q2 -> q1 = q2.
Proof.
  intros a b q1 q2 Hb [A1 T1] [A2 T2].
  destruct (Z.eq_dec q1 q2) as [|Hne]; [assumption | exfalso].
  remember (q2 - q1) as d eqn:Ed.
  remember (a - q1 * b) as x eqn:Ex. remember (a - q2 * b) as y eqn:Ey.
  assert (E : y = x - d * b) by (subst; ring).
  remember (d * b) as P eqn:EP.
  assert (AP : Z.abs P = Z.abs d * Z.abs b) by (subst P; apply Z.abs_mul).
  assert (Hd : 1 <= Z.abs d) by lia.
  assert (Hab : 1 <= Z.abs b) by lia.
  assert (S : Z.abs P <= Z.abs x + Z.abs y) by lia.
  assert (D1 : Z.abs d = 1).
  { assert (L : Z.abs d * Z.abs b <= Z.abs b) by lia.
    clear - L Hd Hab. remember (Z.abs d) as ad. remember (Z.abs b) as ab. clear Heqad Heqab. nia. }
  rewrite D1 in AP.
  assert (TA : 2 * Z.abs x = Z.abs b) by lia.
  assert (TB : 2 * Z.abs y = Z.abs b) by lia.
  specialize (T1 TA). specialize (T2 TB).
  assert (q2 = q1 + 1 \/ q2 = q1 - 1) by lia.
  lia.
Qed.

Theorem divide_and_round_characterised : forall a b q, b <> 0 -> (py_divide_and_round a b = q <-> nearest_even a b q).
Proof.
  intros a b q Hb. split.
  - intros <-. apply divide_and_round_nearest; assumption.
  - intro H. eapply nearest_even_unique; eauto. apply divide_and_round_nearest; assumption.
Qed.
