(* Proofs/C10Facts.v — lemmas for C10 (Duration arithmetic agrees with timedelta arithmetic).
   Part 1: the translated _divide_and_round is round-half-even of the exact quotient (all integers, b <> 0), unique. *)
From Coq Require Import ZArith List Bool Lia ZifyBool.
From Coq Require Import Floats.SpecFloat.
From PV Require Import Lib.PyBase Spec.TdFloat Gen.Constants Model.Duration Gen.DurationOps Model.DurationOps
                       Proofs.TdFloatFacts Proofs.C09Facts.
Import ListNotations.
Open Scope Z_scope.
Ltac Zify.zify_post_hook ::= Z.to_euclidean_division_equations.

(* ------------------------------------------------------------------ Part 1: _divide_and_round *)
(* q is a nearest integer to a / b, ties to even, stated without division:  |2 (a - q b)| <= |b|, and on a tie q is even *)
Definition nearest_even (a b q : Z) : Prop :=
  2 * Z.abs (a - q * b) <= Z.abs b /\ (2 * Z.abs (a - q * b) = Z.abs b -> q mod 2 = 0).

Lemma divide_and_round_unfold : forall a b,
  py_divide_and_round a b =
  let q := a / b in let r := (a mod b) * 2 in
  if (if b >? 0 then r >? b else r <? b) || ((r =? b) && (q mod 2 =? 1)) then q + 1 else q.
Proof. reflexivity. Qed.

Lemma divide_and_round_nearest : forall a b, b <> 0 -> nearest_even a b (py_divide_and_round a b).
Proof.
  intros a b Hb. rewrite divide_and_round_unfold. cbv zeta. unfold nearest_even.
  pose proof (Z.div_mod a b Hb) as DM.
  assert (HR : (0 < b /\ 0 <= a mod b < b) \/ (b < 0 /\ b < a mod b <= 0)).
  { destruct (Z_lt_ge_dec 0 b); [left | right]; (split; [lia|]).
    - apply Z.mod_pos_bound; lia.
    - apply Z.mod_neg_bound; lia. }
  set (q := a / b) in *. set (r := a mod b) in *. clearbody q r.
  assert (E : forall k, a - k * b = r + (q - k) * b) by (intro; nia).
  assert (Q2 : q mod 2 = 0 \/ q mod 2 = 1) by (pose proof (Z.mod_pos_bound q 2); lia).
  assert (Q3 : (q + 1) mod 2 = 1 - q mod 2) by lia.
  destruct HR as [[Bp Hr]|[Bn Hr]].
  - assert (Gb : (b >? 0) = true) by lia. rewrite Gb.
    destruct (r * 2 >? b) eqn:G1; cbn [orb].
    + rewrite E. replace (q - (q + 1)) with (-1) by lia. split; [lia|]. intro T. lia.
    + destruct (r * 2 =? b) eqn:G2; cbn [andb].
      * destruct (q mod 2 =? 1) eqn:G3.
        -- rewrite E. replace (q - (q + 1)) with (-1) by lia. split; [lia|]. intros _. rewrite Q3. lia.
        -- rewrite E. replace (q - q) with 0 by lia. split; [lia|]. intros _. lia.
      * rewrite E. replace (q - q) with 0 by lia. split; [lia|]. intro T. lia.
  - assert (Gb : (b >? 0) = false) by lia. rewrite Gb.
    destruct (r * 2 <? b) eqn:G1; cbn [orb].
    + rewrite E. replace (q - (q + 1)) with (-1) by lia. split; [lia|]. intro T. lia.
    + destruct (r * 2 =? b) eqn:G2; cbn [andb].
      * destruct (q mod 2 =? 1) eqn:G3.
        -- rewrite E. replace (q - (q + 1)) with (-1) by lia. split; [lia|]. intros _. rewrite Q3. lia.
        -- rewrite E. replace (q - q) with 0 by lia. split; [lia|]. intros _. lia.
      * rewrite E. replace (q - q) with 0 by lia. split; [lia|]. intro T. lia.
Qed.

(* there is exactly one nearest-even integer *)
Lemma nearest_even_unique : forall a b q1 q2, b <> 0 -> nearest_even a b q1 -> nearest_even a b q2 -> q1 = q2.
Proof.
  intros a b q1 q2 Hb [A1 T1] [A2 T2].
  destruct (Z.eq_dec q1 q2) as [|Hne]; [assumption | exfalso].
  remember (q2 - q1) as d eqn:Ed.
  remember (a - q1 * b) as x eqn:Ex. remember (a - q2 * b) as y eqn:Ey.
  assert (E : y = x - d * b) by (subst; ring).
  remember (d * b) as P eqn:EP.
  assert (AP : Z.abs P = Z.abs d * Z.abs b) by (subst P; apply Z.abs_mul).
  assert (Hd : 1 <= Z.abs d) by lia.
  assert (Hab : 1 <= Z.abs b) by lia.
  assert (S : Z.abs P <= Z.abs x + Z.abs y) by lia.
  assert (D1 : Z.abs d = 1).
  { assert (L : Z.abs d * Z.abs b <= Z.abs b) by lia.
    clear - L Hd Hab. remember (Z.abs d) as ad. remember (Z.abs b) as ab. clear Heqad Heqab. nia. }
  rewrite D1 in AP.
  assert (TA : 2 * Z.abs x = Z.abs b) by lia.
  assert (TB : 2 * Z.abs y = Z.abs b) by lia.
  specialize (T1 TA). specialize (T2 TB).
  assert (q2 = q1 + 1 \/ q2 = q1 - 1) by lia.
  lia.
Qed.

Theorem divide_and_round_characterised : forall a b q, b <> 0 -> (py_divide_and_round a b = q <-> nearest_even a b q).
Proof.
  intros a b q Hb. split.
  - intros <-. apply divide_and_round_nearest; assumption.
  - intro H. eapply nearest_even_unique; eauto. apply divide_and_round_nearest; assumption.
Qed.

(* ------------------------------------------------------------------ Part 2: construction facts *)
Definition DAYUS : Z := 86400000000.

Lemma dur_new_native : forall d s us ms mi h w y mo r,
  duration_new d s us ms mi h w y mo = Ok r ->
  d_N r = ((((w * 7 + (d + YM y mo)) * 24 + h) * 60 + mi) * 60 + s) * 1000000 + ms * 1000 + us
  /\ d_years r = y /\ d_months r = mo.
Proof.
  intros until r. intro H.
  pose proof (C09Facts.native_value _ _ _ _ _ _ _ _ _ _ H) as NV.
  apply td_of_int_args_spec in NV. destruct NV as [NV _].
  pose proof (years_months_signature _ _ _ _ _ _ _ _ _ _ H) as (Y & M & _).
  unfold YM. repeat split; assumption.
Qed.

Lemma dur_of_us_native : forall u r, dur_of_us u = Ok r -> d_N r = u /\ d_years r = 0 /\ d_months r = 0.
Proof.
  intros u r H. unfold dur_of_us in H. apply dur_new_native in H. unfold YM in H. destruct H as (A & B & C).
  split; [rewrite A; ring | split; assumption].
Qed.

Lemma duration_new_fsec_inv : forall x y mo r,
  duration_new_fsec x y mo = Ok r ->
  exists n0, td_us_of_float_seconds x = Ok n0 /\ d_N r = n0 + YM y mo * DAYUS /\ d_years r = y /\ d_months r = mo.
Proof.
  intros x y mo r H. unfold duration_new_fsec in H.
  destruct (td_us_of_float_seconds x) as [n0|e] eqn:E; [|discriminate]. cbn [bind] in H.
  destruct (td_in_range _) eqn:R; [|discriminate].
  destruct (float_pipeline _ _) as [[total [[m micro] it]]|e] eqn:F; [|discriminate]. cbn [bind] in H.
  inversion H; subst; clear H. exists n0. cbn [d_N d_years d_months].
  unfold YM, DAYS_PER_Y, DAYS_PER_M, US_PER_DAY, DAYUS. repeat split; reflexivity.
Qed.

(* a Duration whose stored (_days, _seconds, _microseconds) hold exactly its native length: what Duration.__new__ produces for
   a Duration without years / months while the float normalisation is exact (C09: |N| < 2^33 s) *)
Definition exact0 (d : dur) : Prop := py_Duration_to_microseconds d = d_N d.
(* ... and in general: the stored fields hold the native length minus the year / month days *)
Definition exact_ym (d : dur) : Prop :=
  py_Duration_to_microseconds d = d_N d - YM (d_years d) (d_months d) * DAYUS /\ d_weeks d * 7 + d_rdays d = d_days d.

Lemma to_microseconds_exact_dur : forall N total y mo sig, exact_ym (exact_dur N total y mo sig).
Proof.
  intros. unfold exact_ym, py_Duration_to_microseconds, exact_dur, DAYUS. cbn [d_days d_seconds d_micro d_N d_years d_months d_weeks d_rdays].
  set (R := N - YM y mo * 86400000000).
  pose proof (skeleton_seconds R) as (S1 & _). pose proof (skeleton_days R) as (D1 & _).
  split; [|exact D1].
  transitivity ((days_of R * 86400 + secs_of R) * 1000000 + micro_of R); [ring | exact S1].
Qed.

Lemma to_microseconds_constructed : float_split_exact_on_D9 ->
  forall d s us ms mi h w y mo r,
  duration_new d s us ms mi h w y mo = Ok r -> D9 (d_N r) (YM y mo * 86400) -> exact_ym r.
Proof.
  intros Hs d s us ms mi h w y mo r H HD.
  pose proof (C09Facts.native_value _ _ _ _ _ _ _ _ _ _ H) as NV. fold (YM y mo) in NV.
  destruct (duration_new_exact_partial Hs _ _ _ _ _ _ _ _ _ _ NV HD) as [total E].
  rewrite E in H. inversion H; subst. apply to_microseconds_exact_dur.
Qed.

Lemma exact_ym_0 : forall d, exact_ym d -> d_years d = 0 -> d_months d = 0 -> exact0 d.
Proof. intros d [A _] Y M. unfold exact0. rewrite A, Y, M. unfold YM. ring. Qed.

(* ------------------------------------------------------------------ Part 3: the integer operators *)
Lemma bind_RDur_inv : forall (x : result dur) r, bind x (fun d => Ok (RDur d)) = Ok (RDur r) -> x = Ok r.
Proof. intros [d|e] r H; cbn in H; [inversion H; reflexivity | discriminate]. Qed.

(* -x : years, months and every stored component negated; the native length is negated *)
Lemma neg_spec : forall d r, dur_neg d = Ok r ->
  d_years r = - d_years d /\ d_months r = - d_months d
  /\ d_N r = - (((d_weeks d * 7 + d_rdays d) * 86400 + d_seconds d) * 1000000 + d_micro d + YM (d_years d) (d_months d) * DAYUS)
  /\ (exact_ym d -> d_N r = - d_N d).
Proof.
  intros d r H. unfold dur_neg in H. apply dur_new_native in H.
  unfold py_Duration_neg_self_days, py_Duration_neg_self_seconds, py_Duration_neg_self_microseconds,
         py_Duration_neg_self_weeks, py_Duration_neg_self_years, py_Duration_neg_self_months in H.
  destruct H as (A & B & C). unfold YM, DAYUS in *.
  assert (A' : d_N r = - (((d_weeks d * 7 + d_rdays d) * 86400 + d_seconds d) * 1000000 + d_micro d
                          + (d_years d * 365 + d_months d * 30) * 86400000000)) by (rewrite A; ring).
  repeat split; try assumption.
  intros [E1 E2]. unfold py_Duration_to_microseconds, YM, DAYUS in E1. rewrite A'. rewrite E2. lia.
Qed.

(* x // k : every part floor-divided *)
Lemma floordiv_int_spec : forall d k r, dur_floordiv d (VInt k) = Ok (RDur r) ->
  k <> 0 /\ d_years r = d_years d / k /\ d_months r = d_months d / k
  /\ d_N r = py_Duration_to_microseconds d / k + YM (d_years d / k) (d_months d / k) * DAYUS.
Proof.
  intros d k r H. unfold dur_floordiv in H. destruct (k =? 0) eqn:K; [discriminate|].
  apply bind_RDur_inv in H. apply dur_new_native in H.
  unfold py_Duration_floordiv_int_microseconds, py_Duration_floordiv_int_years, py_Duration_floordiv_int_months in H. cbv zeta in H.
  destruct H as (A & B & C). split; [apply Z.eqb_neq; exact K|]. repeat split; try assumption.
  rewrite A. unfold DAYUS. ring.
Qed.

Lemma floordiv_int_exact : forall d k r, exact0 d -> d_years d = 0 -> d_months d = 0 ->
  dur_floordiv d (VInt k) = Ok (RDur r) -> d_N r = d_N d / k /\ d_years r = 0 /\ d_months r = 0.
Proof.
  intros d k r E Y M H. apply floordiv_int_spec in H. destruct H as (K & A & B & C).
  rewrite Y in *. rewrite M in *. rewrite Z.div_0_l in * by assumption. rewrite E in C.
  repeat split; try assumption. rewrite C. unfold YM. ring.
Qed.

(* x / k : every part divided and rounded half to even *)
Lemma truediv_int_spec : forall d k r, dur_truediv d (VInt k) = Ok (RDur r) ->
  k <> 0 /\ d_years r = py_divide_and_round (d_years d) k /\ d_months r = py_divide_and_round (d_months d) k
  /\ d_N r = py_divide_and_round (py_Duration_to_microseconds d) k
             + YM (py_divide_and_round (d_years d) k) (py_divide_and_round (d_months d) k) * DAYUS.
Proof.
  intros d k r H. unfold dur_truediv in H. destruct (k =? 0) eqn:K; [discriminate|].
  apply bind_RDur_inv in H. apply dur_new_native in H.
  unfold py_Duration_truediv_int_microseconds, py_Duration_truediv_int_years, py_Duration_truediv_int_months in H. cbv zeta in H.
  destruct H as (A & B & C). split; [apply Z.eqb_neq; exact K|]. repeat split; try assumption.
  rewrite A. unfold DAYUS. ring.
Qed.

Lemma divide_and_round_zero : forall k, k <> 0 -> py_divide_and_round 0 k = 0.
Proof.
  intros k K. apply divide_and_round_characterised; [assumption|]. unfold nearest_even.
  replace (0 - 0 * k) with 0 by ring. cbn [Z.abs Z.mul]. split; [lia|]. intros _. reflexivity.
Qed.

Lemma truediv_int_exact : forall d k r, exact0 d -> d_years d = 0 -> d_months d = 0 ->
  dur_truediv d (VInt k) = Ok (RDur r) -> nearest_even (d_N d) k (d_N r) /\ d_years r = 0 /\ d_months r = 0.
Proof.
  intros d k r E Y M H. apply truediv_int_spec in H. destruct H as (K & A & B & C).
  rewrite Y in *. rewrite M in *. rewrite divide_and_round_zero in * by assumption. rewrite E in C.
  split; [|split; assumption].
  replace (d_N r) with (py_divide_and_round (d_N d) k) by (rewrite C; unfold YM; ring).
  apply divide_and_round_nearest; assumption.
Qed.

(* x * f for a float f = a / b (as_integer_ratio): the exact product rounded half to even; years and months are dropped *)
Lemma mul_float_spec : forall d x r, dur_mul d (VFloat x) = Ok (RDur r) ->
  exists a b, py_as_integer_ratio x = Ok (a, b)
    /\ d_N r = py_divide_and_round (py_Duration_to_microseconds d * a) b /\ d_years r = 0 /\ d_months r = 0.
Proof.
  intros d x r H. unfold dur_mul in H. destruct (py_as_integer_ratio x) as [[a b]|e] eqn:R; [|discriminate].
  cbn [bind] in H. apply bind_RDur_inv in H. apply dur_of_us_native in H.
  unfold py_Duration_mul_float_microseconds in H. cbv zeta in H. exists a, b. split; [reflexivity | exact H].
Qed.

Lemma truediv_float_spec : forall d x r, dur_truediv d (VFloat x) = Ok (RDur r) ->
  exists a b mo, py_as_integer_ratio x = Ok (a, b) /\ a <> 0 /\ divide_and_round_float (d_months d) x = Ok mo
    /\ d_years r = py_divide_and_round (d_years d * b) a /\ d_months r = mo
    /\ d_N r = py_divide_and_round (b * py_Duration_to_microseconds d) a + YM (d_years r) mo * DAYUS.
Proof.
  intros d x r H. unfold dur_truediv in H. destruct (py_as_integer_ratio x) as [[a b]|e] eqn:R; [|discriminate].
  cbn [bind] in H. destruct (a =? 0) eqn:A0; [discriminate|].
  destruct (divide_and_round_float (d_months d) x) as [mo|e] eqn:DM; [|discriminate]. cbn [bind] in H.
  apply bind_RDur_inv in H. apply dur_new_native in H.
  unfold py_Duration_truediv_float_microseconds, py_Duration_truediv_float_years in H. cbv zeta in H.
  destruct H as (A & B & C). exists a, b, mo. repeat split; try assumption; try reflexivity.
  - apply Z.eqb_neq; exact A0.
  - rewrite A, B. unfold DAYUS. ring.
Qed.

(* ------------------------------------------------------------------ Part 4: division by a Duration / a plain timedelta agrees with timedelta's own operators *)
(* "the same length": a Duration result against the plain-timedelta result of the native operation *)
Definition same_length (r t : opres) : Prop :=
  match r, t with
  | RDur d, RTd n => d_N d = n
  | RInt a, RInt b => a = b
  | RFloat x, RFloat y => x = y
  | RPair q d, RPairTd q' n => q = q' /\ d_N d = n
  | _, _ => False
  end.

(* _timedelta_to_microseconds(other) of a PLAIN timedelta: (days * 86400 + seconds) * 10^6 + microseconds of its normal form is the
   microsecond count it holds *)
Lemma plain_td_us : forall n, py_timedelta_to_microseconds_plain (plain_td n) = n.
Proof.
  intro n. unfold py_timedelta_to_microseconds_plain, plain_td, ptd_days, ptd_seconds, ptd_micro.
  pose proof (td_us_norm n) as H. destruct (td_norm n) as [[a b] c]. cbn [fst snd]. exact H.
Qed.

Lemma div_mod_by_duration_spec : forall m d d2 r, (m = 5 \/ m = 6 \/ m = 7 \/ m = 8) -> exact0 d -> exact0 d2 ->
  dur_method m d (VDur d2) = Ok r ->
  d_N d2 <> 0 /\ exists t, td_binop m (d_N d) (d_N d2) = Ok t /\ same_length r t.
Proof.
  intros m d d2 r Hm E1 E2 H. unfold exact0 in *.
  destruct Hm as [-> | [-> | [-> | ->]]]; cbn [dur_method td_binop] in *.
  - unfold dur_floordiv, py_timedelta_to_microseconds_duration in H. rewrite E2 in H. destruct (d_N d2 =? 0) eqn:Z0; [discriminate|].
    split; [apply Z.eqb_neq; exact Z0|]. eexists; split; [reflexivity|].
    inversion H; subst. unfold py_Duration_floordiv_duration_value, py_timedelta_to_microseconds_duration. cbv zeta. rewrite E1, E2. reflexivity.
  - unfold dur_truediv, py_timedelta_to_microseconds_duration in H. rewrite E1, E2 in H.
    destruct (py_int_truediv (d_N d) (d_N d2)) as [x|e] eqn:T; [|discriminate]. cbn in H. inversion H; subst.
    split; [intro Z0; rewrite Z0 in T; discriminate|]. eexists; split; [reflexivity|]. reflexivity.
  - unfold dur_mod, py_timedelta_to_microseconds_duration in H. rewrite E2 in H. destruct (d_N d2 =? 0) eqn:Z0; [discriminate|].
    split; [apply Z.eqb_neq; exact Z0|]. eexists; split; [reflexivity|].
    unfold py_Duration_mod_duration_microseconds, py_timedelta_to_microseconds_duration in H. cbv zeta in H. rewrite E1, E2 in H.
    destruct (dur_of_us (d_N d mod d_N d2)) as [r'|e] eqn:R; [|discriminate]. cbn in H. inversion H; subst.
    apply dur_of_us_native in R. cbn. apply R.
  - unfold dur_divmod, py_timedelta_to_microseconds_duration in H. rewrite E2 in H. destruct (d_N d2 =? 0) eqn:Z0; [discriminate|].
    split; [apply Z.eqb_neq; exact Z0|]. eexists; split; [reflexivity|].
    unfold py_Duration_divmod_duration_microseconds, py_Duration_divmod_duration_quotient, py_timedelta_to_microseconds_duration in H.
    cbv zeta in H. rewrite E1, E2 in H.
    destruct (dur_of_us (d_N d mod d_N d2)) as [r'|e] eqn:R; [|discriminate]. cbn in H. inversion H; subst.
    apply dur_of_us_native in R. cbn. split; [reflexivity | apply R].
Qed.

Lemma div_by_zero_duration : forall m d d2, (m = 5 \/ m = 6 \/ m = 7 \/ m = 8) -> py_Duration_to_microseconds d2 = 0 ->
  dur_method m d (VDur d2) = Raise E_ZeroDivisionError.
Proof.
  intros m d d2 Hm E2.
  destruct Hm as [-> | [-> | [-> | ->]]]; cbn [dur_method];
    unfold dur_floordiv, dur_truediv, dur_mod, dur_divmod, py_timedelta_to_microseconds_duration; rewrite E2; reflexivity.
Qed.

(* ---- the same four operators with a PLAIN datetime.timedelta on the right (the repaired code: the divisor is the microsecond count
   of the timedelta's public days / seconds / microseconds) *)
Lemma div_mod_by_timedelta_spec : forall m d n r, (m = 5 \/ m = 6 \/ m = 7 \/ m = 8) -> exact0 d ->
  dur_method m d (VTd n) = Ok r ->
  n <> 0 /\ exists t, td_binop m (d_N d) n = Ok t /\ same_length r t.
Proof.
  intros m d n r Hm E1 H. unfold exact0 in *.
  destruct Hm as [-> | [-> | [-> | ->]]]; cbn [dur_method td_binop] in *.
  - unfold dur_floordiv in H. rewrite plain_td_us in H. destruct (n =? 0) eqn:Z0; [discriminate|].
    split; [apply Z.eqb_neq; exact Z0|]. eexists; split; [reflexivity|].
    inversion H; subst. unfold py_Duration_floordiv_timedelta_value. cbv zeta. rewrite E1, plain_td_us. reflexivity.
  - unfold dur_truediv in H. rewrite E1, plain_td_us in H.
    destruct (py_int_truediv (d_N d) n) as [x|e] eqn:T; [|discriminate]. cbn in H. inversion H; subst.
    split; [intro Z0; rewrite Z0 in T; discriminate|]. eexists; split; [reflexivity|]. reflexivity.
  - unfold dur_mod in H. rewrite plain_td_us in H. destruct (n =? 0) eqn:Z0; [discriminate|].
    split; [apply Z.eqb_neq; exact Z0|]. eexists; split; [reflexivity|].
    unfold py_Duration_mod_timedelta_microseconds in H. cbv zeta in H. rewrite E1, plain_td_us in H.
    destruct (dur_of_us (d_N d mod n)) as [r'|e] eqn:R; [|discriminate]. cbn in H. inversion H; subst.
    apply dur_of_us_native in R. cbn. apply R.
  - unfold dur_divmod in H. rewrite plain_td_us in H. destruct (n =? 0) eqn:Z0; [discriminate|].
    split; [apply Z.eqb_neq; exact Z0|]. eexists; split; [reflexivity|].
    unfold py_Duration_divmod_timedelta_microseconds, py_Duration_divmod_timedelta_quotient in H. cbv zeta in H. rewrite E1, plain_td_us in H.
    destruct (dur_of_us (d_N d mod n)) as [r'|e] eqn:R; [|discriminate]. cbn in H. inversion H; subst.
    apply dur_of_us_native in R. cbn. split; [reflexivity | apply R].
Qed.

Lemma div_by_zero_timedelta : forall m d, (m = 5 \/ m = 6 \/ m = 7 \/ m = 8) -> dur_method m d (VTd 0) = Raise E_ZeroDivisionError.
Proof.
  intros m d Hm.
  destruct Hm as [-> | [-> | [-> | ->]]]; cbn [dur_method];
    unfold dur_floordiv, dur_truediv, dur_mod, dur_divmod; rewrite ?plain_td_us; reflexivity.
Qed.

(* whether the right operand is a Duration or the plain timedelta of the same length makes no difference at all: same value, same
   exception, same Duration result (no hypothesis on the left operand) *)
Lemma div_mod_operand_kind_irrelevant : forall m d d2, (m = 5 \/ m = 6 \/ m = 7 \/ m = 8) -> exact0 d2 ->
  dur_method m d (VTd (d_N d2)) = dur_method m d (VDur d2).
Proof.
  intros m d d2 Hm E2. unfold exact0 in E2.
  destruct Hm as [-> | [-> | [-> | ->]]]; cbn [dur_method];
    unfold dur_floordiv, dur_truediv, dur_mod, dur_divmod,
           py_Duration_floordiv_timedelta_value, py_Duration_floordiv_duration_value,
           py_Duration_mod_timedelta_microseconds, py_Duration_mod_duration_microseconds,
           py_Duration_divmod_timedelta_microseconds, py_Duration_divmod_duration_microseconds,
           py_Duration_divmod_timedelta_quotient, py_Duration_divmod_duration_quotient,
           py_timedelta_to_microseconds_duration; cbv zeta; rewrite ?plain_td_us, ?E2; reflexivity.
Qed.

(* // and / by a plain timedelta ARE timedelta's own operators on the native values: value and exception *)
Lemma floordiv_truediv_by_timedelta_native : forall m d n, (m = 5 \/ m = 6) -> exact0 d ->
  dur_method m d (VTd n) = td_binop m (d_N d) n.
Proof.
  intros m d n Hm E1. unfold exact0 in E1.
  destruct Hm as [-> | ->]; cbn [dur_method td_binop]; unfold dur_floordiv, dur_truediv, py_Duration_floordiv_timedelta_value;
    cbv zeta; rewrite ?plain_td_us, ?E1; reflexivity.
Qed.

(* the formerly refuted statement, now true: whenever timedelta's own operator yields a value, so does the Duration operator, and the
   same one.  For % and divmod the remainder is handed to Duration.__new__: that this construction succeeds is a fact about the
   constructor (C09), stated as a hypothesis here and discharged below 2^33 s by remainder_constructible *)
Lemma div_by_timedelta_agrees : forall m d n t, (m = 5 \/ m = 6 \/ m = 7 \/ m = 8) -> exact0 d ->
  td_binop m (d_N d) n = Ok t ->
  (m = 7 \/ m = 8 -> exists r0, dur_of_us (d_N d mod n) = Ok r0) ->
  exists r, dur_method m d (VTd n) = Ok r /\ same_length r t.
Proof.
  intros m d n t Hm E1 H Hc.
  destruct Hm as [-> | [-> | [-> | ->]]].
  - rewrite (floordiv_truediv_by_timedelta_native 5 d n (or_introl eq_refl) E1). exists t. split; [exact H|].
    cbn [td_binop] in H. destruct (n =? 0); [discriminate|]. inversion H; subst. reflexivity.
  - rewrite (floordiv_truediv_by_timedelta_native 6 d n (or_intror eq_refl) E1). exists t. split; [exact H|].
    cbn [td_binop] in H. destruct (py_int_truediv (d_N d) n); [|discriminate]. cbn in H. inversion H; subst. reflexivity.
  - destruct (Hc (or_introl eq_refl)) as [r0 R0]. unfold exact0 in E1.
    cbn [td_binop] in H. destruct (n =? 0) eqn:Z0; [discriminate|]. inversion H; subst.
    exists (RDur r0). split.
    + cbn [dur_method]. unfold dur_mod. rewrite plain_td_us, Z0. unfold py_Duration_mod_timedelta_microseconds. cbv zeta.
      rewrite E1, plain_td_us, R0. reflexivity.
    + cbn. apply dur_of_us_native in R0. apply R0.
  - destruct (Hc (or_intror eq_refl)) as [r0 R0]. unfold exact0 in E1.
    cbn [td_binop] in H. destruct (n =? 0) eqn:Z0; [discriminate|]. inversion H; subst.
    exists (RPair (d_N d / n) r0). split.
    + cbn [dur_method]. unfold dur_divmod. rewrite plain_td_us, Z0.
      unfold py_Duration_divmod_timedelta_microseconds, py_Duration_divmod_timedelta_quotient. cbv zeta.
      rewrite E1, plain_td_us, R0. reflexivity.
    + cbn. split; [reflexivity|]. apply dur_of_us_native in R0. apply R0.
Qed.

(* Duration(0, 0, u) succeeds while the float normalisation of Duration.__new__ is exact (C09's premise, |u| < 2^33 s) *)
Lemma remainder_constructible : float_split_exact_on_D9 -> forall u, Z.abs u < B33 -> exists r0, dur_of_us u = Ok r0.
Proof.
  intros Hs u Hu. unfold dur_of_us.
  assert (HN : td_of_int_args (0 + YM 0 0) 0 u 0 0 0 0 = Ok u).
  { pose proof (td_of_int_args_ok (0 + YM 0 0) 0 u 0 0 0 0) as K. cbv zeta in K.
    replace (((((0 * 7 + (0 + YM 0 0)) * 24 + 0) * 60 + 0) * 60 + 0) * 1000000 + 0 * 1000 + u) with u in K by (unfold YM; ring).
    apply K. unfold B33 in Hu. lia. }
  assert (HD : D9 u (YM 0 0 * 86400)) by (left; split; [reflexivity | exact Hu]).
  destruct (duration_new_exact_partial Hs _ _ _ _ _ _ _ _ _ _ HN HD) as [total E].
  eexists. exact E.
Qed.

(* ------------------------------------------------------------------ Part 5: + - and int * (through float seconds) *)
Definition B31 : Z := 2147483648000000.   (* 2^31 * 10^6 *)

(* The float premises (explicit premises here; PROVED in Proofs/FloatRoundTripC10.v through Flocq; also validated on every run by the pairs-add / pairs-sub / pairs-mul / band-* streams):
   timedelta(seconds = ts(a) +- ts(b)) and timedelta(seconds = ts(R) * k) are exact while operands and result are below 2^31 s. *)
Definition addsub_float_exact : Prop := forall a b, Z.abs a < B31 -> Z.abs b < B31 ->
  (Z.abs (a + b) < B31 -> td_us_of_float_seconds (fadd (total_seconds a) (total_seconds b)) = Ok (a + b))
  /\ (Z.abs (a - b) < B31 -> td_us_of_float_seconds (fsub (total_seconds a) (total_seconds b)) = Ok (a - b)).
Definition mul_float_exact : Prop := forall R k fk, Z.abs R < B31 -> Z.abs (k * R) < B31 -> py_float_of_int k = Ok fk ->
  td_us_of_float_seconds (fmul (total_seconds R) fk) = Ok (k * R).

(* the native length of a timedelta-like operand *)
Definition native_len (o : value) : option Z :=
  match o with VDur d | VIvl d => Some (d_N d) | VTd n => Some n | _ => None end.

Lemma dur_of_fsec_inv : forall x r, dur_of_fsec x = Ok r -> td_us_of_float_seconds x = Ok (d_N r) /\ d_years r = 0 /\ d_months r = 0.
Proof.
  intros x r H. unfold dur_of_fsec in H. apply duration_new_fsec_inv in H. destruct H as (n0 & A & B & C & D).
  unfold YM in B. replace (n0 + (0 * 365 + 0 * 30) * DAYUS) with n0 in B by ring. rewrite B. auto.
Qed.

Section FloatPremises.
  Hypothesis Haddsub : addsub_float_exact.
  Hypothesis Hmul : mul_float_exact.

  Lemma add_exact_partial : forall d o n2 r, native_len o = Some n2 ->
    Z.abs (d_N d) < B31 -> Z.abs n2 < B31 -> Z.abs (d_N d + n2) < B31 ->
    dur_add d o = Ok (RDur r) -> d_N r = d_N d + n2 /\ d_years r = 0 /\ d_months r = 0.
  Proof.
    intros d o n2 r Hn A B C H.
    assert (T : other_total_seconds o = Some (total_seconds n2)) by (destruct o; cbn in Hn |- *; inversion Hn; reflexivity).
    unfold dur_add in H. rewrite T in H. apply bind_RDur_inv in H. apply dur_of_fsec_inv in H. destruct H as (H & Y & M).
    destruct (Haddsub _ _ A B) as [P _]. rewrite (P C) in H. inversion H. auto.
  Qed.

  Lemma sub_exact_partial : forall d o n2 r, native_len o = Some n2 ->
    Z.abs (d_N d) < B31 -> Z.abs n2 < B31 -> Z.abs (d_N d - n2) < B31 ->
    dur_sub d o = Ok (RDur r) -> d_N r = d_N d - n2 /\ d_years r = 0 /\ d_months r = 0.
  Proof.
    intros d o n2 r Hn A B C H.
    assert (T : other_total_seconds o = Some (total_seconds n2)) by (destruct o; cbn in Hn |- *; inversion Hn; reflexivity).
    unfold dur_sub in H. rewrite T in H. apply bind_RDur_inv in H. apply dur_of_fsec_inv in H. destruct H as (H & Y & M).
    destruct (Haddsub _ _ A B) as [_ P]. rewrite (P C) in H. inversion H. auto.
  Qed.

  (* a Duration without years / months stores _total = total_seconds() *)
  Lemma mul_int_exact_partial : forall d k r, d_years d = 0 -> d_months d = 0 -> d_total d = total_seconds (d_N d) ->
    Z.abs (d_N d) < B31 -> Z.abs (k * d_N d) < B31 ->
    dur_mul d (VInt k) = Ok (RDur r) -> d_N r = k * d_N d /\ d_years r = 0 /\ d_months r = 0.
  Proof.
    intros d k r Y M T A B H. unfold dur_mul in H.
    destruct (py_float_of_int k) as [fk|e] eqn:F; [|discriminate]. cbn [bind] in H.
    apply bind_RDur_inv in H. apply duration_new_fsec_inv in H. destruct H as (n0 & H & N & Y' & M').
    unfold py_Duration_mul_int_years, py_Duration_mul_int_months in *. rewrite Y, M in *.
    rewrite T, (Hmul _ _ _ A B F) in H. inversion H; subst n0.
    repeat split; [|lia|lia]. rewrite N. unfold YM. ring.
  Qed.
End FloatPremises.

(* int scaling acts component-wise on years and months (no premise) *)
Lemma mul_int_years_months : forall d k r, dur_mul d (VInt k) = Ok (RDur r) ->
  d_years r = d_years d * k /\ d_months r = d_months d * k
  /\ exists n0, d_N r = n0 + YM (d_years d * k) (d_months d * k) * DAYUS.
Proof.
  intros d k r H. unfold dur_mul in H.
  destruct (py_float_of_int k) as [fk|e] eqn:F; [|discriminate]. cbn [bind] in H.
  apply bind_RDur_inv in H. apply duration_new_fsec_inv in H. destruct H as (n0 & H & N & Y' & M').
  unfold py_Duration_mul_int_years, py_Duration_mul_int_months in *. repeat split; try assumption. exists n0. exact N.
Qed.

(* construction without years / months: _total is total_seconds() *)
Lemma dur_new_total0 : forall d s us ms mi h w r, duration_new d s us ms mi h w 0 0 = Ok r -> d_total r = total_seconds (d_N r).
Proof.
  intros until r. intro H. unfold duration_new in H.
  destruct (td_of_int_args _ _ _ _ _ _ _) as [N|e] eqn:T; [|discriminate]. cbn [bind] in H.
  unfold float_pipeline in H. replace ((0 * DAYS_PER_Y + 0 * DAYS_PER_M) * C_SECONDS_PER_DAY) with 0 in H by reflexivity.
  change (py_float_of_int 0) with (Ok (S754_zero false)) in H. cbn [bind] in H. rewrite fsub_zero_r in H.
  destruct (split_total (total_seconds N)) as [[[m micro] it]|e] eqn:S; [|discriminate]. cbn [bind] in H.
  inversion H; subst. reflexivity.
Qed.

(* the unbounded statement is false: at 2^31 s the float sum loses a microsecond *)
Lemma add_exact_refuted : exists d1 d2 r,
  dur_of_us (-2240990336911072) = Ok d1 /\ dur_of_us (-564728395307133) = Ok d2 /\ exact0 d1 /\ exact0 d2
  /\ dur_add d1 (VDur d2) = Ok (RDur r) /\ d_N r <> d_N d1 + d_N d2 /\ Z.abs (d_N d1 + d_N d2) < 2 * B31.
Proof.
  eexists. eexists. eexists.
  split; [vm_compute; reflexivity|]. split; [vm_compute; reflexivity|].
  split; [vm_compute; reflexivity|]. split; [vm_compute; reflexivity|].
  split; [vm_compute; reflexivity|]. split; [vm_compute; intro Q; discriminate Q | vm_compute; reflexivity].
Qed.

Lemma mul_int_exact_refuted : exists d r,
  dur_of_us (-4433329909397) = Ok d /\ exact0 d /\ dur_mul d (VInt 617) = Ok (RDur r) /\ d_N r <> 617 * d_N d.
Proof.
  eexists. eexists.
  split; [vm_compute; reflexivity|]. split; [vm_compute; reflexivity|].
  split; [vm_compute; reflexivity|]. vm_compute; intro Q; discriminate Q.
Qed.

(* the premises hold on samples (kernel computation) *)
Lemma addsub_float_exact_samples :
  Forall (fun p => td_us_of_float_seconds (fadd (total_seconds (fst p)) (total_seconds (snd p))) = Ok (fst p + snd p)
                   /\ td_us_of_float_seconds (fsub (total_seconds (fst p)) (total_seconds (snd p))) = Ok (fst p - snd p))
         [(1, 2); (-1, 1); (999999, 1); (100000, 200000); (1073741823999999, 1073741823999999); (-1073741823999999, 1); (86400000000, -1);
          (2147483647999999, -2147483647999998); (1500000, -2500001); (3, 1000000000000000)].
Proof. repeat constructor; vm_compute; reflexivity. Qed.

(* ------------------------------------------------------------------ Part 6: the return-type table *)
Definition kind_of_value (o : value) : Z :=
  match o with VInt _ => 1 | VFloat _ => 2 | VDur _ | VIvl _ => 3 | VTd _ => 4 end.
Definition kind_of_res (r : opres) : Z :=
  match r with RNotImpl => 0 | RDur _ => 1 | RInt _ => 2 | RFloat _ => 3 | RPair _ _ => 4 | _ => 99 end.

Ltac break_binds :=
  repeat match goal with
         | |- context [match ?x with _ => _ end] => destruct x
         | |- context [if ?x then _ else _] => destruct x
         end.

(* whatever a Duration method returns is what the (generated) table says for that operand kind *)
Lemma return_table_agrees : forall m d o r, In m [1; 2; 4; 5; 6; 7; 8] -> dur_method m d o = Ok r ->
  In (m, kind_of_value o, kind_of_res r) py_return_table.
Proof.
  intros m d o r Hm. cbn in Hm.
  destruct Hm as [<-|[<-|[<-|[<-|[<-|[<-|[<-|[]]]]]]]]; destruct o; cbn [dur_method kind_of_value];
    unfold dur_add, dur_sub, dur_mul, dur_floordiv, dur_truediv, dur_mod, dur_divmod, other_total_seconds;
    unfold bind; intro H;
    repeat match type of H with
           | context [match ?x with _ => _ end] => destruct x
           | context [if ?x then _ else _] => destruct x
           end; try discriminate H; inversion H; subst; cbn [kind_of_res]; vm_compute; tauto.
Qed.

(* the generated table has no AttributeError entry any more: no operand kind reaches a Duration-private attribute of `other` *)
Lemma no_attribute_error_in_table : forall m k, ~ In (m, k, 6) py_return_table.
Proof.
  intros m k H. vm_compute in H.
  repeat (destruct H as [H|H]; [discriminate H|]).
  contradiction.
Qed.

Lemma is_arith_cases : forall m, is_arith m = true -> In m [1; 2; 4; 5; 6; 7; 8].
Proof. intros m H. unfold is_arith in H. cbn. lia. Qed.

(* a binary operator with a Duration (or Interval) on the left never yields a plain timedelta or NotImplemented:
   it yields a Duration, or int / float / (int, Duration) for // / divmod by a Duration or a plain timedelta *)
Definition duration_kind (m : Z) (o : value) (res : opres) : Prop :=
  (exists r, res = RDur r)
  \/ ((kind_of_value o = 3 \/ kind_of_value o = 4) /\ ((m = 5 /\ exists q, res = RInt q) \/ (m = 6 /\ exists x, res = RFloat x) \/ (m = 8 /\ exists q r, res = RPair q r))).

Lemma method_result_kind : forall m d o res, In m [1; 2; 4; 5; 6; 7; 8] -> dur_method m d o = Ok res -> res <> RNotImpl ->
  duration_kind m o res.
Proof.
  intros m d o res Hm H NI. pose proof (return_table_agrees _ _ _ _ Hm H) as T.
  unfold duration_kind. remember (kind_of_value o) as ko eqn:K.
  destruct res; try (exfalso; apply NI; reflexivity); cbn [kind_of_res] in T; vm_compute in T;
    repeat (destruct T as [T|T]; [try discriminate T; inversion T; subst;
      first [ left; eexists; reflexivity
            | right; split; [first [left; reflexivity | right; reflexivity]|]; first
                [ left; split; [reflexivity|eexists; reflexivity]
                | right; left; split; [reflexivity|eexists; reflexivity]
                | right; right; split; [reflexivity|eexists; eexists; reflexivity] ] ] |]);
    contradiction.
Qed.

Lemma not_impl_inv : forall x res, not_impl_to_type_error x = Ok res -> x = Ok res /\ res <> RNotImpl.
Proof. intros [[]|e] res H; cbn in H; try discriminate; inversion H; subst; split; try reflexivity; discriminate. Qed.

Lemma duration_left_result : forall m d o res, is_arith m = true -> arith_op m (VDur d) o = Ok res -> duration_kind m o res.
Proof.
  intros m d o res Hm H. cbn [arith_op durlike_method] in H. apply not_impl_inv in H. destruct H as [H NI].
  eapply method_result_kind; eauto using is_arith_cases.
Qed.

Lemma interval_left_result : forall m i o res, is_arith m = true -> arith_op m (VIvl i) o = Ok res -> duration_kind m o res.
Proof.
  intros m i o res Hm H. cbn [arith_op] in H. apply not_impl_inv in H. destruct H as [H NI].
  unfold durlike_method in H. destruct (delegated m); [|inversion H; subst; exfalso; apply NI; reflexivity].
  destruct (as_duration i) as [d|e]; [|discriminate]. cbn [bind] in H.
  eapply method_result_kind; eauto using is_arith_cases.
Qed.

Lemma timedelta_plus_duration : forall n d res, arith_op 1 (VTd n) (VDur d) = Ok res -> exists r, res = RDur r.
Proof.
  intros n d res H. cbn in H. apply not_impl_inv in H. destruct H as [H _]. unfold dur_add in H. cbn in H.
  destruct (dur_of_fsec _); cbn in H; [inversion H; eexists; reflexivity | discriminate].
Qed.

Lemma neg_is_duration : forall d res, unop 3 (VDur d) = Ok res -> exists r, res = RDur r /\ dur_neg d = Ok r.
Proof. intros d res H. cbn in H. destruct (dur_neg d); cbn in H; [inversion H; eexists; split; reflexivity | discriminate]. Qed.

(* what is NOT in the statement's list and indeed differs: timedelta - Duration and abs(Duration) are plain timedeltas of the exact length *)
Lemma timedelta_minus_duration : forall n d, td_in_range (n - d_N d) = true -> arith_op 2 (VTd n) (VDur d) = Ok (RTd (n - d_N d)).
Proof. intros n d H. cbn. unfold td_checked. rewrite H. reflexivity. Qed.

Lemma abs_is_plain_timedelta : forall d, unop 9 (VDur d) = Ok (RTd (Z.abs (d_N d))).
Proof. reflexivity. Qed.

(* Interval arithmetic is Duration arithmetic on as_duration() *)
Lemma interval_delegates : forall m i o, delegated m = true ->
  arith_op m (VIvl i) o = bind (as_duration i) (fun d => arith_op m (VDur d) o).
Proof.
  intros m i o H. cbn [arith_op]. unfold durlike_method. rewrite H.
  destruct (as_duration i); reflexivity.
Qed.

Lemma delegated_all : forall m, is_arith m = true -> delegated m = true.
Proof. intros m H. apply is_arith_cases in H. cbn in H. destruct H as [<-|[<-|[<-|[<-|[<-|[<-|[<-|[]]]]]]]]; reflexivity. Qed.

(* ------------------------------------------------------------------ Part 7: comparisons and hash are timedelta's *)
Lemma compare_is_native : forall m a b, native_of a <> None -> native_of b <> None ->
  exists x y, native_of a = Some x /\ native_of b = Some y /\ cmp_op m a b = Ok (td_compare m x y).
Proof.
  intros m a b Ha Hb. unfold cmp_op.
  destruct (native_of a) as [x|]; [|contradiction]. destruct (native_of b) as [y|]; [|contradiction].
  exists x, y. auto.
Qed.

Lemma eq_iff_native : forall d n, cmp_op 10 (VDur d) (VTd n) = Ok (RBool true) <-> d_N d = n.
Proof.
  intros d n. cbn. split.
  - intro H. inversion H. apply Z.eqb_eq. assumption.
  - intros ->. rewrite Z.eqb_refl. reflexivity.
Qed.

Lemma lt_iff_native : forall d1 d2, cmp_op 12 (VDur d1) (VDur d2) = Ok (RBool true) <-> d_N d1 < d_N d2.
Proof.
  intros. cbn. split.
  - intro H. inversion H. apply Z.ltb_lt. assumption.
  - intro H. apply Z.ltb_lt in H. rewrite H. reflexivity.
Qed.

Lemma hash_is_native : forall d1 d2, d_N d1 = d_N d2 -> unop 17 (VDur d1) = unop 17 (VDur d2).
Proof. intros d1 d2 H. cbn. rewrite H. reflexivity. Qed.

(* ------------------------------------------------------------------ Part 8: as_integer_ratio is exact; examples *)
Lemma strip2_spec : forall m k m' k', 0 <= k -> strip2 m k = (m', k') ->
  Zpos m * 2 ^ k' = Zpos m' * 2 ^ k /\ 0 <= k' <= k.
Proof.
  induction m as [m IH|m IH|]; intros k m' k' Hk H; cbn [strip2] in H.
  - inversion H; subst. split; [reflexivity | lia].
  - destruct (0 <? k) eqn:K.
    + apply IH in H; [|lia]. destruct H as [E R]. split; [|lia].
      replace k with (Z.succ (k - 1)) at 1 by lia. rewrite Z.pow_succ_r by lia.
      change (Z.pos m~0) with (2 * Z.pos m). rewrite <- Z.mul_assoc, E. ring.
    + inversion H; subst. split; [reflexivity | lia].
  - inversion H; subst. split; [reflexivity | lia].
Qed.

(* x = a / b exactly, b a positive power of two *)
Lemma as_integer_ratio_exact : forall s m e a b, py_as_integer_ratio (S754_finite s m e) = Ok (a, b) ->
  0 < b /\ (0 <= e -> a = cond_neg s (Zpos m * 2 ^ e) /\ b = 1)
  /\ (e < 0 -> a * 2 ^ (- e) = cond_neg s (Zpos m) * b).
Proof.
  intros s m e a b H. cbn [py_as_integer_ratio] in H. destruct (0 <=? e) eqn:E.
  - inversion H; subst. split; [lia|]. split; [auto | lia].
  - destruct (strip2 m (- e)) as [m' k] eqn:S. inversion H; subst.
    apply strip2_spec in S; [|lia]. destruct S as [Q R].
    split; [apply Z.pow_pos_nonneg; lia|]. split; [lia|]. intros _.
    destruct s; cbn [cond_neg]; lia.
Qed.

Example truediv_ties : exists d5 d7 dm5 r5 r7 rm5,
  dur_of_us 5 = Ok d5 /\ dur_of_us 7 = Ok d7 /\ dur_of_us (-5) = Ok dm5
  /\ dur_truediv d5 (VInt 2) = Ok (RDur r5) /\ d_N r5 = 2
  /\ dur_truediv d7 (VInt 2) = Ok (RDur r7) /\ d_N r7 = 4
  /\ dur_truediv dm5 (VInt (-2)) = Ok (RDur rm5) /\ d_N rm5 = 2.
Proof.
  do 6 eexists.
  repeat (split; [vm_compute; reflexivity|]). vm_compute; reflexivity.
Qed.

Example div_by_timedelta_witness : exists d r7 r8,
  duration_new 3 0 0 0 0 0 0 0 0 = Ok d /\ exact0 d
  /\ dur_method 5 d (VTd 18000000000) = Ok (RInt 14) /\ td_binop 5 (d_N d) 18000000000 = Ok (RInt 14)
  /\ dur_method 6 d (VTd 18000000000) = td_binop 6 (d_N d) 18000000000
  /\ dur_method 7 d (VTd 18000000000) = Ok (RDur r7) /\ d_N r7 = 7200000000
  /\ dur_method 8 d (VTd 18000000000) = Ok (RPair 14 r8) /\ d_N r8 = 7200000000.
Proof.
  do 3 eexists. repeat (split; [vm_compute; reflexivity|]). vm_compute; reflexivity.
Qed.

Example neg_years_example : exists d r,
  duration_new 4 (-1) 0 0 0 0 0 2 (-3) = Ok d /\ exact_ym d /\ dur_neg d = Ok r
  /\ d_years r = -2 /\ d_months r = 3 /\ d_N r = - d_N d.
Proof.
  do 2 eexists. split; [vm_compute; reflexivity|]. split; [split; vm_compute; reflexivity|].
  repeat (split; [vm_compute; reflexivity|]). vm_compute; reflexivity.
Qed.

Example mod_divmod_example : exists d1 d2 r,
  duration_new 3 5 7 0 0 0 0 0 0 = Ok d1 /\ duration_new 0 0 (-3) 0 0 (-5) 0 0 0 = Ok d2 /\ exact0 d1 /\ exact0 d2
  /\ dur_method 8 d1 (VDur d2) = Ok (RPair (-15) r) /\ d_N r = d_N d1 mod d_N d2.
Proof.
  do 3 eexists. repeat (split; [vm_compute; reflexivity|]). vm_compute; reflexivity.
Qed.

Lemma interval_delegates_arith : forall m i o, is_arith m = true ->
  arith_op m (VIvl i) o = bind (as_duration i) (fun d => arith_op m (VDur d) o).
Proof. intros m i o H. apply interval_delegates. apply delegated_all. exact H. Qed.
