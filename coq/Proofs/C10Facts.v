(* Proofs/C10Facts.v — lemmas for C10 (Duration arithmetic agrees with timedelta arithmetic).
   Part 1: the translated _divide_and_round is round-half-even of the exact quotient (all integers, b <> 0), unique. *)
From Coq Require Import ZArith List Bool Lia ZifyBool.
From Coq Require Import Floats.SpecFloat.
From PV Require Import Lib.PyBase Spec.TdFloat Gen.Constants Model.Duration Gen.DurationOps Model.DurationOps
                       Proofs.TdFloatFacts Proofs.C09Facts.
Import ListNotations.
Open Scope Z_scope.
Ltac Zify.zify_post_hook ::= Z.to_euclidean_division_equations.

(* ------------------------------------------------------------------ Part 1: _divide_and_round *)
(* q is a nearest integer to a / b, ties to even, stated without division:  |2 (a - q b)| <= |b|, and on a tie q is even *)
Definition nearest_even (a b q : Z) : Prop :=
  2 * Z.abs (a - q * b) <= Z.abs b /\ (2 * Z.abs (a - q * b) = Z.abs b -> q mod 2 = 0).

Lemma divide_and_round_unfold : forall a b,
  py_divide_and_round a b =
  let q := a / b in let r := (a mod b) * 2 in
  if (if b >? 0 then r >? b else r <? b) || ((r =? b) && (q mod 2 =? 1)) then q + 1 else q.
Proof. reflexivity. Qed.

Lemma divide_and_round_nearest : forall a b, b <> 0 -> nearest_even a b (py_divide_and_round a b).
Proof.
  intros a b Hb. rewrite divide_and_round_unfold. cbv zeta. unfold nearest_even.
  pose proof (Z.div_mod a b Hb) as DM.
  assert (HR : (0 < b /\ 0 <= a mod b < b) \/ (b < 0 /\ b < a mod b <= 0)).
  { destruct (Z_lt_ge_dec 0 b); [left | right]; split; try lia. }
  set (q := a / b) in *. set (r := a mod b) in *.
  assert (E : forall k, a - k * b = r + (q - k) * b) by (intro; lia).
  assert (Q2 : q mod 2 = 0 \/ q mod 2 = 1) by (pose proof (Z.mod_pos_bound q 2); lia).
  assert (Q3 : (q + 1) mod 2 = 1 - q mod 2) by lia.
  destruct HR as [[Bp Hr]|[Bn Hr]].
  - assert (Gb : (b >? 0) = true) by lia. rewrite Gb.
    destruct (r * 2 >? b) eqn:G1; cbn [orb].
    + rewrite E. replace (q - (q + 1)) with (-1) by lia. split; [lia|]. intro T. lia.
    + destruct (r * 2 =? b) eqn:G2; cbn [andb].
      * destruct (q mod 2 =? 1) eqn:G3.
        -- rewrite E. replace (q - (q + 1)) with (-1) by lia. split; [lia|]. intros _. rewrite Q3. lia.
        -- rewrite E. replace (q - q) with 0 by lia. split; [lia|]. intros _. lia.
      * rewrite E. replace (q - q) with 0 by lia. split; [lia|]. intro T. lia.
  - assert (Gb : (b >? 0) = false) by lia. rewrite Gb.
    destruct (r * 2 <? b) eqn:G1; cbn [orb].
    + rewrite E. replace (q - (q + 1)) with (-1) by lia. split; [lia|]. intro T. lia.
    + destruct (r * 2 =? b) eqn:G2; cbn [andb].
      * destruct (q mod 2 =? 1) eqn:G3.
        -- rewrite E. replace (q - (q + 1)) with (-1) by lia. split; [lia|]. intros _. rewrite Q3. lia.
        -- rewrite E. replace (q - q) with 0 by lia. split; [lia|]. intros _. lia.
      * rewrite E. replace (q - q) with 0 by lia. split; [lia|]. intro T. lia.
Qed.

(* there is exactly one nearest-even integer *)
Lemma nearest_even_unique : forall a b q1 q2, b <> 0 -> nearest_even a b q1 -> nearest_even a b q2 -> q1 = q2.
Proof.
  intros a b q1 q2 Hb [A1 T1] [A2 T2].
  destruct (Z.eq_dec q1 q2) as [|Hne]; [assumption | exfalso].
  set (d := q2 - q1). assert (Hd : d <> 0) by (unfold d; lia).
  assert (E : a - q2 * b = (a - q1 * b) - d * b) by (unfold d; lia).
  assert (M : Z.abs b <= Z.abs (d * b)).
  { rewrite Z.abs_mul. assert (1 <= Z.abs d) by lia. nia. }
  (* |x| + |x - d b| >= |d b| >= |b| and both are <= |b|/2: equality everywhere, so |d| = 1 and both are ties *)
  assert (S : Z.abs (d * b) <= Z.abs (a - q1 * b) + Z.abs (a - q2 * b)) by (rewrite E; lia).
  assert (TA : 2 * Z.abs (a - q1 * b) = Z.abs b) by lia.
  assert (TB : 2 * Z.abs (a - q2 * b) = Z.abs b) by lia.
  assert (D1 : Z.abs d = 1).
  { assert (Z.abs (d * b) = Z.abs b) by lia. rewrite Z.abs_mul in H. assert (0 < Z.abs b) by lia. nia. }
  specialize (T1 TA). specialize (T2 TB).
  assert (q2 = q1 + 1 \/ q2 = q1 - 1) by (unfold d in D1; lia).
  lia.
Qed.

Theorem divide_and_round_characterised : forall a b q, b <> 0 -> (py_divide_and_round a b = q <-> nearest_even a b q).
Proof.
  intros a b q Hb. split.
  - intros <-. apply divide_and_round_nearest; assumption.
  - intro H. eapply nearest_even_unique; eauto. apply divide_and_round_nearest; assumption.
Qed.
