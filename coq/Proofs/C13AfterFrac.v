(* Proofs/C13AfterFrac.v — C13: a decimal fraction is admitted on the LAST component only.
   Compiled parser: once a component carried a fraction (`op_fraction.is_some()`, whatever its VALUE: `P1.0D…`, `PT2,000H…` included),
   the loop of parse_duration accepts nothing more than a lone trailing 'T'; stated for every state of the loop, every integer-component
   prefix (with or without the 'T'), every digit strings, both separators, every designator and every continuation.
   Pure Python: on the match record, a fractional days / hours / minutes group followed by a later time group is rejected. *)
From Coq Require Import ZArith List Bool Lia Floats.SpecFloat.
From PV Require Import Lib.PyBase Gen.Constants Model.DurParse Model.DurSpec Proofs.C13Int Proofs.C13Py Proofs.C13Rej Proofs.C13Catch.
Import ListNotations.
Open Scope Z_scope.

(* ------------------------------------------------------------------ compiled parser: everything it raises is a ValueError *)
Lemma rs_number_raise l e : rs_number l = Raise e -> e = E_ValueError.
Proof. destruct l as [|c r]; cbn [rs_number]; [congruence|]. destruct (is_digit c); congruence. Qed.

Lemma rs_number_frac_raise l e : rs_number_frac l = Raise e -> e = E_ValueError.
Proof.
  unfold rs_number_frac. destruct (rs_number l) as [[v l1]|e0] eqn:E; cbn [bind].
  - destruct l1 as [|c r]; [congruence|]. destruct (is_sep c); [destruct (rs_frac_loop f_zero f_one r) as [[dec den] l2]|]; congruence.
  - intros H. inversion H; subst. exact (rs_number_raise _ _ E).
Qed.

Lemma rs_unit_raise gt cur v fr lhf d e : rs_unit gt cur v fr lhf d = Raise e -> e = E_ValueError.
Proof.
  unfold rs_unit. destruct fr;
  repeat match goal with |- context [if ?b then _ else _] => destruct b end; congruence.
Qed.

(* one iteration of the loop on a character that is not 'T' *)
Lemma rs_loop_step f d gt lhf c r : (c =? c_T) = false ->
  rs_loop (S f) d gt lhf (c :: r) =
  bind (rs_number_frac (c :: r)) (fun vfl =>
    let '(value, frac, l1) := vfl in
    if lhf then Raise E_ValueError else
    let lhf' := match frac with Some _ => true | None => false end in
    match l1 with
    | cur :: r1 => bind (rs_unit gt cur value frac lhf' d) (fun d' => if is_nil r1 then Ok d' else rs_loop f d' gt lhf' r1)
    | [] => Raise E_ValueError
    end).
Proof. intros H. cbn [rs_loop]. rewrite H. reflexivity. Qed.

Lemma rs_loop_step_lhf f d gt c r : (c =? c_T) = false -> rs_loop (S f) d gt true (c :: r) = Raise E_ValueError.
Proof.
  intros H. rewrite (rs_loop_step f d gt true c r H).
  destruct (rs_number_frac (c :: r)) as [[[v fr] l1]|e] eqn:E; cbn [bind]; [reflexivity|].
  apply rs_number_frac_raise in E. subst. reflexivity.
Qed.

(* after a fractional component (last_had_fraction = true) the loop accepts nothing but a lone trailing 'T' *)
Lemma rs_loop_after_fraction f d gt l :
  rs_loop (S (S f)) d gt true l = Raise E_ValueError \/ (gt = false /\ l = [c_T]).
Proof.
  destruct l as [|c r]; [left; reflexivity|].
  destruct (c =? c_T) eqn:ET.
  - apply Z.eqb_eq in ET. subst c. destruct gt; [left; reflexivity|]. destruct r as [|c2 r2]; [right; auto|]. left.
    remember (S f) as f1. cbn [rs_loop]. replace (c_T =? c_T) with true by reflexivity. cbn [is_nil]. subst f1.
    destruct (c2 =? c_T) eqn:ET2.
    + cbn [rs_loop]. rewrite ET2. reflexivity.
    + apply rs_loop_step_lhf. exact ET2.
  - left. apply rs_loop_step_lhf. exact ET.
Qed.

(* a fractional token followed by more input: rejected from every state of the loop *)
Lemma rs_loop_frac_nonfinal fuel d gt ds sep fs c r :
  (3 <= fuel)%nat -> digits ds -> sepc sep -> digits fs -> is_digit c = false -> r <> [] -> (gt = true \/ r <> [c_T]) ->
  rs_loop fuel d gt false (ds ++ sep :: fs ++ c :: r) = Raise E_ValueError.
Proof.
  intros Hf Hd Hs Hfs Hc Hr Hg. destruct fuel as [|[|[|f]]]; try lia.
  destruct (digits_head_not_T ds (sep :: fs ++ c :: r) Hd) as [c0 [l [E HT]]].
  rewrite E. rewrite (rs_loop_step (S (S f)) d gt false c0 l HT). rewrite <- E.
  destruct (rs_number_frac_frac ds sep fs c r Hd Hs Hfs Hc) as [fr Efr]. rewrite Efr. cbn [bind].
  destruct (rs_unit gt c (u32 (dval ds)) (Some fr) true d) as [d'|e] eqn:EU; cbn [bind].
  - destruct r as [|c2 r2]; [congruence|]. cbn [is_nil].
    destruct (rs_loop_after_fraction f d' gt (c2 :: r2)) as [H|[H1 H2]]; [exact H|].
    destruct Hg as [Hg|Hg]; congruence.
  - apply rs_unit_raise in EU. subst. reflexivity.
Qed.

(* an integer-token prefix does not help: if X is rejected from every state, so is <integer tokens> X *)
Lemma rs_loop_prefix_rejected dts : forall n f d gt X, Forall wf_tok dts -> (length dts + n <= f)%nat -> (1 <= n)%nat -> X <> [] ->
  (forall f' d', (n <= f')%nat -> rs_loop f' d' gt false X = Raise E_ValueError) ->
  rs_loop f d gt false (render_toks dts ++ X) = Raise E_ValueError.
Proof.
  induction dts as [|[ds c] dts IH]; intros n f d gt X Hwf Hf Hn HX HR.
  - cbn [render_toks flat_map app]. apply HR. cbn [length] in Hf. lia.
  - inversion Hwf as [|x xs [Hd Hc] Hwf']; subst. cbn [fst snd] in *.
    destruct f as [|f]; [cbn in Hf; lia|]. rewrite render_toks_cons. rewrite <- app_assoc. cbn [app].
    rewrite (rs_loop_tok f d gt ds c _ Hd Hc).
    destruct (rs_unit gt c (u32 (dval ds)) None false d) as [d'|e] eqn:EU; cbn [bind].
    + assert (Hnn : is_nil (render_toks dts ++ X) = false).
      { destruct (render_toks dts); [|reflexivity]. destruct X; [congruence|reflexivity]. }
      rewrite Hnn. apply (IH n); [exact Hwf'|cbn [length] in Hf; lia|exact Hn|exact HX|exact HR].
    + apply rs_unit_raise in EU. subst. reflexivity.
Qed.

Definition frac_tok_text (ds : list Z) (sep : Z) (fs : list Z) (c : Z) (r : list Z) : list Z := ds ++ sep :: fs ++ c :: r.

Lemma frac_tok_text_length ds sep fs c r : digits ds -> digits fs -> r <> [] -> (5 <= length (frac_tok_text ds sep fs c r))%nat.
Proof.
  intros [Hd _] [Hfs _] Hr. unfold frac_tok_text. rewrite app_length. cbn [length]. rewrite app_length. cbn [length].
  destruct ds; [congruence|]. destruct fs; [congruence|]. destruct r; [congruence|]. cbn [length]. lia.
Qed.

(* P <integer date tokens> <ds sep fs c> r   with r neither empty nor a lone 'T' *)
Lemma rs_raw_frac_nonfinal_date dts ds sep fs c r :
  Forall wf_tok dts -> digits ds -> sepc sep -> digits fs -> is_digit c = false -> r <> [] -> r <> [c_T] ->
  rs_raw (c_P :: render_toks dts ++ frac_tok_text ds sep fs c r) = Raise E_ValueError.
Proof.
  intros Hwf Hd Hs Hfs Hc Hr HrT. unfold rs_raw. replace (c_P =? c_P) with true by reflexivity.
  apply (rs_loop_prefix_rejected dts 3).
  - exact Hwf.
  - rewrite app_length. pose proof (render_toks_length dts). pose proof (frac_tok_text_length ds sep fs c r Hd Hfs Hr). lia.
  - lia.
  - unfold frac_tok_text. destruct ds; [destruct Hd; congruence|discriminate].
  - intros f' d' Hf'. apply rs_loop_frac_nonfinal; auto.
Qed.

(* P <integer date tokens> T <integer time tokens> <ds sep fs c> r   with r not empty *)
Lemma rs_raw_frac_nonfinal_time dts tts ds sep fs c r :
  Forall wf_tok dts -> Forall wf_tok tts -> digits ds -> sepc sep -> digits fs -> is_digit c = false -> r <> [] ->
  rs_raw (c_P :: render_toks dts ++ c_T :: render_toks tts ++ frac_tok_text ds sep fs c r) = Raise E_ValueError.
Proof.
  intros Hwd Hwt Hd Hs Hfs Hc Hr. unfold rs_raw. replace (c_P =? c_P) with true by reflexivity.
  pose proof (frac_tok_text_length ds sep fs c r Hd Hfs Hr) as HL.
  assert (HX : frac_tok_text ds sep fs c r <> []) by (destruct (frac_tok_text ds sep fs c r); [cbn in HL; lia|discriminate]).
  apply (rs_loop_prefix_rejected dts (length tts + 4)).
  - exact Hwd.
  - rewrite app_length. cbn [length]. rewrite app_length.
    pose proof (render_toks_length dts). pose proof (render_toks_length tts). lia.
  - lia.
  - discriminate.
  - intros f' d' Hf'. destruct f' as [|f']; [lia|]. cbn [rs_loop]. replace (c_T =? c_T) with true by reflexivity.
    assert (Hnn : is_nil (render_toks tts ++ frac_tok_text ds sep fs c r) = false).
    { destruct (render_toks tts); [|reflexivity]. destruct (frac_tok_text ds sep fs c r); [congruence|reflexivity]. }
    rewrite Hnn. apply (rs_loop_prefix_rejected tts 3); [exact Hwt|lia|lia|exact HX|].
    intros f'' d'' Hf''. apply rs_loop_frac_nonfinal; auto.
Qed.

Lemma rs_dur_of_raw_raise s e : rs_raw s = Raise e -> rs_dur s = Raise e /\ rs_dur_c s = Raise e.
Proof. intros H. unfold rs_dur, rs_dur_c. rewrite H. split; reflexivity. Qed.

(* ================================================================== pure Python: on the match record *)
Definition has_frac (o : option tok) : bool := match o with Some t => is_some (t_frac t) | None => false end.

(* a fractional days / hours / minutes group with a LATER time group present *)
Definition after_frac (m : dmatch) : bool :=
  (has_frac (g_days m) && (is_some (g_hours m) || is_some (g_minutes m) || is_some (g_seconds m))) ||
  (has_frac (g_hours m) && (is_some (g_minutes m) || is_some (g_seconds m))) ||
  (has_frac (g_minutes m) && is_some (g_seconds m)).

Lemma bind_ok {A B} (x : result A) (k : A -> result B) b : bind x k = Ok b -> exists a, x = Ok a /\ k a = Ok b.
Proof. destruct x as [a|e]; cbn [bind]; [eauto|discriminate]. Qed.

Lemma bind_raise {A B} (x : result A) (k : A -> result B) e : bind x k = Raise e -> x = Raise e \/ exists a, x = Ok a /\ k a = Raise e.
Proof. destruct x as [a|e0]; cbn [bind]; [eauto|intros H; left; inversion H; reflexivity]. Qed.

Lemma py_frac10_raise p k e : py_frac10 p k = Raise e -> e = E_OverflowError.
Proof. unfold py_frac10. destruct (int_truediv (dval p) 10); congruence. Qed.

Definition ve_or_ov (e : exn) : Prop := e = E_ValueError \/ e = E_OverflowError.

(* take a stage equation apart: every match / if / py_frac10 call in it *)
Ltac crush H :=
  repeat (cbn [bind] in H;
    match type of H with
    | context [py_frac10 ?p ?k] => let E := fresh "EF" in destruct (py_frac10 p k) eqn:E; [|apply py_frac10_raise in E; subst]
    | context [match ?x with _ => _ end] => destruct x
    end);
  cbn [bind] in H.

(* py_args proceeds in three stages: weeks; years/months/days (returns the `fractional` flag); hours/minutes/seconds *)
Lemma py_args_ok_not_after_frac m a : g_hms m = true -> py_args m = Ok a -> after_frac m = false.
Proof.
  intros Hhms H. unfold py_args in H.
  apply bind_ok in H. destruct H as [[[weeks days0] hours0] [_ H]].
  apply bind_ok in H. destruct H as [[[[[years months] days] hours] fractional] [E2 H]].
  rewrite Hhms in H.
  assert (F2 : fractional = has_frac (g_days m)).
  { clear H. destruct (g_years m) as [ty|], (g_months m) as [tmo|], (g_days m) as [td|]; cbn [is_some orb has_frac] in *;
      crush E2; inversion E2; subst; reflexivity. }
  destruct (negb _) in H; [discriminate H|].
  apply bind_ok in H. destruct H as [[[h1 m1] f1] [E3 H]].
  apply bind_ok in H. destruct H as [[[m2 s2] f2] [E4 H]].
  apply bind_ok in H. destruct H as [[s3 u3] [E5 _]].
  assert (F3 : f1 = fractional || has_frac (g_hours m) /\ (is_some (g_hours m) = true -> fractional = false)).
  { destruct (g_hours m) as [th|]; cbn [has_frac is_some]; crush E3; inversion E3; subst; cbn; rewrite ?orb_false_r; auto; try (split; [reflexivity|discriminate]). }
  assert (F4 : f2 = f1 || has_frac (g_minutes m) /\ (is_some (g_minutes m) = true -> f1 = false)).
  { destruct (g_minutes m) as [tm|]; cbn [has_frac is_some]; crush E4; inversion E4; subst; cbn; rewrite ?orb_false_r; auto; try (split; [reflexivity|discriminate]). }
  assert (F5 : is_some (g_seconds m) = true -> f2 = false).
  { destruct (g_seconds m) as [ts|]; cbn [is_some]; [|discriminate]. crush E5; try discriminate E5; auto. }
  clear E2 E3 E4 E5. unfold after_frac. destruct F3 as [F3 G3]. destruct F4 as [F4 G4]. subst fractional.
  destruct (has_frac (g_days m)), (has_frac (g_hours m)), (has_frac (g_minutes m)),
           (is_some (g_hours m)), (is_some (g_minutes m)), (is_some (g_seconds m)); cbn in *; subst;
    try reflexivity; try (specialize (G3 eq_refl)); try (specialize (G4 eq_refl)); try (specialize (F5 eq_refl)); cbn in *; congruence.
Qed.

(* whatever py_args raises is a ValueError or (from int(portion)/10 on an enormous fraction) an OverflowError *)
Ltac fin H := first [discriminate H | inversion H; subst; unfold ve_or_ov; auto].

Lemma py_args_raise m e : py_args m = Raise e -> ve_or_ov e.
Proof.
  intros H. unfold py_args in H.
  apply bind_raise in H. destruct H as [H|[[[weeks days0] hours0] [_ H]]]; [crush H; fin H|].
  apply bind_raise in H. destruct H as [H|[[[[[years months] days] hours] fractional] [_ H]]]; [crush H; fin H|].
  destruct (g_hms m); [|discriminate H].
  destruct (negb _) in H; [fin H|].
  apply bind_raise in H. destruct H as [H|[[[h1 m1] f1] [_ H]]]; [crush H; fin H|].
  apply bind_raise in H. destruct H as [H|[[[m2 s2] f2] [_ H]]]; [crush H; fin H|].
  apply bind_raise in H. destruct H as [H|[[s3 u3] [_ H]]]; [crush H; fin H|].
  discriminate H.
Qed.

(* the matcher sets the time groups only behind a 'T' *)
Lemma match_duration_hms s m : match_duration s = Some m -> g_hms m = false ->
  g_hours m = None /\ g_minutes m = None /\ g_seconds m = None.
Proof.
  unfold match_duration. destruct s as [|c l0]; [discriminate|]. destruct (c =? c_P); [|discriminate]. cbv zeta.
  destruct (try_tok c_W _ l0) as [w l1]. destruct (try_tok c_Y _ l1) as [y l2].
  destruct (try_tok c_M _ l2) as [mo l3]. destruct (try_tok c_D _ l3) as [dd l4].
  destruct l4 as [|ct l5].
  - intros E; inversion E; subst; cbn; auto.
  - destruct (ct =? c_T).
    + destruct (try_tok c_H _ l5) as [h l6]. destruct (try_tok c_M _ l6) as [mi l7]. destruct (try_tok c_S _ l7) as [se l8].
      destruct l8 as [|e0 [|e2 l9]]; [|destruct (e0 =? c_nl)|]; intros E; inversion E; subst; cbn; intros; discriminate.
    + destruct l5 as [|e2 l9]; [destruct (ct =? c_nl)|]; intros E; inversion E; subst; cbn; auto.
Qed.

Lemma after_frac_hms s m : match_duration s = Some m -> after_frac m = true -> g_hms m = true.
Proof.
  intros Hm Ha. destruct (g_hms m) eqn:E; [reflexivity|].
  destruct (match_duration_hms s m Hm E) as [H1 [H2 H3]]. unfold after_frac in Ha. rewrite H1, H2, H3 in Ha.
  cbn in Ha. rewrite !andb_false_r in Ha. discriminate.
Qed.

(* pure Python: a fractional D / H / M(inute) group followed by a later time group is rejected — on every string the regex matches *)
Lemma py_after_frac s m : match_duration s = Some m -> after_frac m = true ->
  py_dur s = Raise E_ValueError \/ py_dur s = Raise E_OverflowError.
Proof.
  intros Hm Ha. unfold py_dur, py_native. rewrite Hm.
  destruct (py_args m) as [a|e] eqn:E.
  - rewrite (py_args_ok_not_after_frac m a (after_frac_hms s m Hm Ha) E) in Ha. discriminate.
  - cbn [bind]. destruct (py_args_raise m e E) as [->| ->]; auto.
Qed.

Lemma py_after_frac_c s m : match_duration s = Some m -> after_frac m = true -> py_dur_c s = Raise E_ValueError.
Proof.
  intros Hm Ha. rewrite py_dur_c_eq. destruct (py_after_frac s m Hm Ha) as [E|E]; rewrite E; reflexivity.
Qed.

(* ================================================================== packaged statements (Props/C13.v) *)
Lemma rs_frac_nonfinal_date dts ds sep fs c r :
  Forall wf_tok dts -> digits ds -> sepc sep -> digits fs -> is_digit c = false -> r <> [] -> r <> [c_T] ->
  rs_dur (c_P :: render_toks dts ++ ds ++ sep :: fs ++ c :: r) = Raise E_ValueError /\
  rs_dur_c (c_P :: render_toks dts ++ ds ++ sep :: fs ++ c :: r) = Raise E_ValueError.
Proof. intros. apply rs_dur_of_raw_raise. apply (rs_raw_frac_nonfinal_date dts ds sep fs c r); assumption. Qed.

Lemma rs_frac_nonfinal_time dts tts ds sep fs c r :
  Forall wf_tok dts -> Forall wf_tok tts -> digits ds -> sepc sep -> digits fs -> is_digit c = false -> r <> [] ->
  rs_dur (c_P :: render_toks dts ++ c_T :: render_toks tts ++ ds ++ sep :: fs ++ c :: r) = Raise E_ValueError /\
  rs_dur_c (c_P :: render_toks dts ++ c_T :: render_toks tts ++ ds ++ sep :: fs ++ c :: r) = Raise E_ValueError.
Proof. intros. apply rs_dur_of_raw_raise. apply (rs_raw_frac_nonfinal_time dts tts ds sep fs c r); assumption. Qed.

Lemma py_frac_nonfinal s : (forall m, match_duration s = Some m -> after_frac m = true) -> py_dur_c s = Raise E_ValueError.
Proof.
  intros H. destruct (match_duration s) as [m|] eqn:E.
  - exact (py_after_frac_c s m E (H m eq_refl)).
  - rewrite py_dur_c_eq. unfold py_dur, py_native. rewrite E. reflexivity.
Qed.

(* the strings of the class "degenerate fraction" (value zero, 1..9 digits, both separators): evaluated in the kernel on both models *)
Definition s_p1_0y : list Z := [80; 49; 46; 48; 89].                                              (* P1.0Y *)
Definition s_p2_00m : list Z := [80; 50; 44; 48; 48; 77].                                          (* P2,00M *)
Definition s_p1y2_0m3d : list Z := [80; 49; 89; 50; 46; 48; 77; 51; 68].                           (* P1Y2.0M3D *)
Definition s_p1_9zeros_y : list Z := [80; 49; 46; 48; 48; 48; 48; 48; 48; 48; 48; 48; 89].         (* P1.000000000Y *)
Definition s_pt1_0h30m : list Z := [80; 84; 49; 46; 48; 72; 51; 48; 77].                           (* PT1.0H30M *)
Definition s_p1_0dt12h : list Z := [80; 49; 46; 48; 68; 84; 49; 50; 72].                           (* P1.0DT12H *)
Definition s_pt1_00m30s : list Z := [80; 84; 49; 44; 48; 48; 77; 51; 48; 83].                      (* PT1,00M30S *)
Definition s_pt1_0h1_5m : list Z := [80; 84; 49; 46; 48; 72; 49; 46; 53; 77].                      (* PT1.0H1.5M *)
Definition s_p0_0w2d : list Z := [80; 48; 46; 48; 87; 50; 68].                                     (* P0.0W2D *)
Definition degenerate_rejected : list (list Z) :=
  [s_p1_0y; s_p2_00m; s_p1y2_0m3d; s_p1_9zeros_y; s_pt1_0h30m; s_p1_0dt12h; s_pt1_00m30s; s_pt1_0h1_5m; s_p0_0w2d].
Definition is_ve {A} (r : result A) : bool := match r with Raise E_ValueError => true | _ => false end.

Lemma degenerate_rejected_all :
  forallb (fun s => is_ve (py_dur_c s) && is_ve (rs_dur_c s) && is_ve (rs_raw s)) degenerate_rejected = true.
Proof. vm_compute. reflexivity. Qed.

(* ... while the same fraction on the LAST component is the integer value, in both parsers *)
Definition s_p1_0d : list Z := [80; 49; 46; 48; 68].                                               (* P1.0D *)
Definition s_pt1_000s : list Z := [80; 84; 49; 44; 48; 48; 48; 83].                                (* PT1,000S *)
Lemma degenerate_final_ok :
  py_dur_c s_p1_0d = Ok (0, 0, 1, 0, 0) /\ rs_dur_c s_p1_0d = Ok (0, 0, 1, 0, 0) /\
  py_dur_c s_pt1_000s = Ok (0, 0, 0, 1, 0) /\ rs_dur_c s_pt1_000s = Ok (0, 0, 0, 1, 0).
Proof. vm_compute. repeat split; reflexivity. Qed.

(* the hypotheses are satisfiable: PT1.0H30M and P1.0DT12H match with a fraction in front of a later group; P1Y + 2.0D + T12H fits the token form *)
Lemma after_frac_witness :
  (exists m, match_duration s_pt1_0h30m = Some m /\ after_frac m = true) /\
  (exists m, match_duration s_p1_0dt12h = Some m /\ after_frac m = true).
Proof. split; eexists; split; vm_compute; reflexivity. Qed.

Lemma frac_nonfinal_hyps :
  Forall wf_tok [([49], c_Y)] /\ digits [50] /\ sepc c_dot /\ digits [48] /\ is_digit c_D = false /\
  [c_T; 49; 50; c_H] <> [] /\ [c_T; 49; 50; c_H] <> [c_T].
Proof.
  repeat split; try discriminate; try reflexivity.
  constructor; [|constructor]. repeat split; try discriminate; reflexivity.
  left; reflexivity.
Qed.
