(* Proofs/C17PyTotal.v — C17: totality of the PURE-PYTHON chain of pendulum.parse on every string, and `offset_in_range` for both backends.
     * exception classes of _parse_iso8601_duration + Duration.__new__ (`py_native_exn`) and of parse_iso8601 (`py_iso8601_exn`);
     * ISO8601_DT never matches a text starting with 'P' (`iso_re_P`, by `rmatch_nofirst`: a pattern none of whose character tests accepts
       the first character can only match the empty prefix), hence the shapes of the interval halves (`interval_parse_py_form`): the
       TypeError / AttributeError branches of the assembly are unreachable (`assemble_py_dt`, with Proofs/C17Total.v interval_parse_dt);
     * `parse_total_py_all` / `parse_total_py_full`: a value or ValueError/ParserError on every string and option combination.  The
       region `py_parts_unmodelled s` of the earlier `_partial` form (an interval whose duration half had a negative float total, once
       marked E_Exception in the model of Duration's derived fields) is empty: Model/DurParse.v py_parts now computes the negative case
       faithfully (Duration.__new__'s m = -1 branch) and never raises (`py_parts_ok`, `py_parts_unmodelled_never`);
     * soundness of the matcher w.r.t. a declarative reading of the pattern and the LANGUAGE OF EVERY CAPTURE GROUP (`rmatch_sound`,
       `re_match_group_lang`): the tz group of ISO8601_DT is Z or a sign followed by characters >= '0' (`tz_shape`), hence py_tz_offset
       returns |offset| < 24 h (`py_tz_offset_in_range`); the compiled descent only takes its offset from rs_offset
       (`rs_parse_datetime_off`); `offset_in_range_all`: every DateTime returned by parse, either backend, any dateutil, has
       |utcoffset| < 24 h. *)
From Coq Require Import ZArith List Bool Lia ZifyBool.
From PV Require Import Lib.PyBase Spec.Cal Spec.NativeDT Gen.AddDuration.
From PV Require Import Model.C07Regex Model.RegexSpan Gen.IsoRegex Gen.IsoPost Gen.UnicodeNd Model.IsoParse Model.DurParse Model.ParseTotal.
From PV Require Import Proofs.RegexShape Proofs.C17Regex Proofs.C17Total Proofs.C17Py.
Import ListNotations.
Open Scope Z_scope.

Definition VO : list exn := [E_ValueError; E_OverflowError].

Lemma py_frac10_exn p k : exn_in VO (py_frac10 p k).
Proof. unfold py_frac10. destruct (int_truediv (dval p) 10); inl. Qed.

Lemma accum_exn st n f : exn_in VO st -> exn_in VO (accum st n f).
Proof. intros H. unfold accum. destruct st as [[sofar lo]|e]; [|exact H]. cbn [bind]. destruct n as [z|dn]; [exact I|]. destruct dn; try (simpl; auto; fail); destruct (f_is_zero _); exact I. Qed.

Lemma td_total_us_exn d s us m h w : exn_in VO (td_total_us d s us m h w).
Proof.
  unfold td_total_us.
  match goal with |- exn_in VO (bind ?st _) => assert (H : exn_in VO st) by (repeat apply accum_exn; exact I); destruct st as [[x lo]|e]; [|exact H] end.
  cbn [bind]. destruct (f_is_zero lo); exact I.
Qed.

Lemma duration_native_exn y mo w d h mi s us : exn_in VO (duration_native y mo w d h mi s us).
Proof.
  unfold duration_native. apply exn_in_bind; [apply td_total_us_exn|intros x]. unfold td_norm.
  destruct (_ || _); cbn [bind]; inl.
Qed.

Lemma py_args_exn m : exn_in VO (py_args m).
Proof.
  unfold py_args.
  repeat (apply exn_in_bind; [|intros]);
  repeat match goal with
         | |- exn_in VO (match ?x with _ => _ end) => destruct x
         | |- exn_in VO (if ?x then _ else _) => destruct x
         | |- exn_in VO (bind (py_frac10 ?a ?b) _) => apply exn_in_bind; [apply py_frac10_exn|intros]
         | |- exn_in VO (let '(_, _) := ?x in _) => destruct x
         | |- exn_in VO (bind _ _) => apply exn_in_bind; [|intros]
         end; try exact I; try (simpl; auto; fail).
Qed.

Lemma py_native_exn s : exn_in VO (py_native s).
Proof.
  unfold py_native. destruct (match_duration s) as [m|]; [|inl].
  apply exn_in_bind; [apply py_args_exn|intros a; apply duration_native_exn].
Qed.

Lemma py_iso8601_exn s : exn_in VP (py_iso8601 s).
Proof.
  unfold py_iso8601. destruct (match_duration (fold_str s)) as [m|].
  - destruct (negb (runs_ok m)); [inl|]. pose proof (py_native_exn (fold_str s)) as H.
    destruct (py_native (fold_str s)) as [[x o]|e]; [exact I|]. simpl in H. destruct H as [<-|[<-|[]]]; inl.
  - unfold lift_p. pose proof (py_parse_iso_exn (fold_str s)) as H. destruct (py_parse_iso (fold_str s)); [exact I|exact H].
Qed.

(* ------------------------------------------------------------------ a text that starts with a character no test of the pattern accepts
   cannot be matched unless the pattern matches the empty string there *)
Fixpoint firstb (r : re) (x : Z) : bool :=
  match r with
  | REps | RBeg | REnd => false
  | RLit a => x =? a
  | RIn neg rs => xorb neg (in_ranges x rs)
  | RSeq a b | RAlt a b => firstb a x || firstb b x
  | RRep a _ _ | RGrp _ a => firstb a x
  end.

Lemma rmatch_nofirst r x t : firstb r x = false -> forall i c k res,
  rmatch r i (x :: t) c k = Some res -> exists c', k i (x :: t) c' = Some res.
Proof.
  induction r as [|a|neg rs|a IHa b IHb|a IHa b IHb|a IHa mn mx|n a IHa| |]; intros F i c k res H.
  - eexists; exact H.
  - cbn [rmatch firstb] in *. rewrite F in H. discriminate.
  - cbn [rmatch firstb] in *. rewrite F in H. discriminate.
  - cbn [firstb] in F. apply orb_false_iff in F. destruct F as [Fa Fb]. cbn [rmatch] in H.
    apply (IHa Fa) in H. destruct H as [c1 H]. apply (IHb Fb) in H. exact H.
  - cbn [firstb] in F. apply orb_false_iff in F. destruct F as [Fa Fb]. cbn [rmatch] in H.
    destruct (rmatch a i (x :: t) c k) eqn:E; [inversion H; subst; apply (IHa Fa) in E; exact E|apply (IHb Fb) in H; exact H].
  - cbn [firstb] in F. rewrite rmatch_rep in H. revert mn i c H. induction mx as [|mx IHm]; intros mn i c H.
    + rewrite repf_O in H. destruct mn; [eexists; exact H|discriminate].
    + rewrite repf_S in H. destruct (rmatch a i (x :: t) c _) eqn:E.
      * inversion H; subst. apply (IHa F) in E. destruct E as [c1 E]. apply IHm in E. exact E.
      * destruct mn; [eexists; exact H|discriminate].
  - cbn [firstb] in F. cbn [rmatch] in H. apply (IHa F) in H. destruct H as [c1 H]. eexists; exact H.
  - cbn [rmatch] in H. destruct i; [eexists; exact H|discriminate].
  - rewrite rmatch_end in H. destruct (is_end (x :: t)); [eexists; exact H|discriminate].
Qed.

Lemma iso_no_P : firstb ISO_RE 80 = false. Proof. vm_compute. reflexivity. Qed.

(* ISO8601_DT never matches a text that starts with 'P' *)
Lemma iso_re_P t : re_match ISO_RE ISO_NGROUPS (80 :: t) = None.
Proof.
  destruct (re_match ISO_RE ISO_NGROUPS (80 :: t)) as [res|] eqn:E; [|reflexivity]. exfalso.
  unfold re_match in E.
  (* peel the final `$` off: ISO_RE = RSeq RBeg (RSeq A (RSeq B REnd)) *)
  assert (S : exists P, ISO_RE = RSeq RBeg (RSeq (fst P) (RSeq (snd P) REnd))).
  { unfold ISO_RE. eexists (_, _). reflexivity. }
  destruct S as [[A B] S]. cbn [fst snd] in S.
  assert (FA : firstb A 80 = false /\ firstb B 80 = false).
  { pose proof iso_no_P as F. rewrite S in F. cbn [firstb] in F. apply orb_false_iff in F. destruct F as [_ F].
    apply orb_false_iff in F. destruct F as [FA F]. apply orb_false_iff in F. destruct F as [FB _]. split; assumption. }
  destruct FA as [FA FB]. rewrite S in E. cbn [rmatch] in E.
  apply (rmatch_nofirst A 80 t FA) in E. destruct E as [c1 E]. cbv beta in E. cbn [rmatch] in E.
  apply (rmatch_nofirst B 80 t FB) in E. destruct E as [c2 E]. cbv beta in E.
  destruct t; discriminate E.
Qed.

Lemma py_parse_iso_P t : exists e, py_parse_iso (80 :: t) = Raise e.
Proof. unfold py_parse_iso. rewrite iso_re_P. eexists; reflexivity. Qed.

(* fold_str keeps the ASCII letters; in particular the leading P, and nothing else becomes a P *)
Definition run_ok (r : Z * Z * Z) : bool := let '(lo, hi, v) := r in (0 <=? v) && (v + (hi - lo) <=? 9).
Lemma nd_runs_ok : forallb run_ok ND_RUNS = true. Proof. vm_compute. reflexivity. Qed.
Lemma nd_lookup_range runs c : forallb run_ok runs = true -> nd_lookup runs c = c \/ 48 <= nd_lookup runs c <= 57.
Proof.
  induction runs as [|[[lo hi] v] t IH]; intros H; [left; reflexivity|].
  cbn [forallb] in H. apply andb_true_iff in H. destruct H as [H1 H2]. cbn [nd_lookup].
  destruct ((lo <=? c) && (c <=? hi)) eqn:E; [|apply IH; exact H2]. right. unfold run_ok in H1. lia.
Qed.
Lemma nd_fold_P c : (nd_fold c =? 80) = (c =? 80).
Proof.
  unfold nd_fold. destruct (c <? 128) eqn:E; [reflexivity|].
  destruct (nd_lookup_range ND_RUNS c nd_runs_ok) as [-> | H]; [reflexivity|]. lia.
Qed.

Lemma py_iso8601_P s i : head_is_P s = true -> py_iso8601 s = Ok i -> exists x ob, i = I_pydur x ob.
Proof.
  unfold head_is_P. destruct s as [|c t]; [discriminate|]. intros H. apply Z.eqb_eq in H. subst c.
  unfold py_iso8601. change (fold_str (80 :: t)) with (80 :: fold_str t).
  destruct (match_duration (80 :: fold_str t)) as [m|].
  - destruct (negb (runs_ok m)); [discriminate|]. destruct (py_native _) as [[x o]|e]; [|destruct e; discriminate].
    intros E; inversion E. eauto.
  - destruct (py_parse_iso_P (fold_str t)) as [e ->]. discriminate.
Qed.

Lemma py_iso8601_nonP s i : head_is_P s = false -> py_iso8601 s = Ok i -> exists p, i = I_p p.
Proof.
  intros H. unfold py_iso8601.
  assert (M : match_duration (fold_str s) = None).
  { unfold head_is_P in H. destruct s as [|c t]; [reflexivity|]. cbn [fold_str map match_duration]. change c_P with 80. rewrite nd_fold_P, H. reflexivity. }
  rewrite M. unfold lift_p. destruct (py_parse_iso (fold_str s)) as [p|e]; [|discriminate]. intros E; inversion E. eauto.
Qed.

(* ------------------------------------------------------------------ shapes of the interval halves with the pure-Python parser *)
Definition py_form (f : iform) : Prop :=
  match f with
  | F_start_end (I_p _) (I_p _) => True
  | F_start_dur (I_p _) (I_pydur _ _) => True
  | F_dur_end (I_pydur _ _) (I_p _) => True
  | _ => False
  end.

Lemma interval_parse_py_form s f : interval_parse py_iso8601 s = Ok f -> py_form f.
Proof.
  unfold interval_parse. destruct (split_slash s) as [first [last|]]; [|discriminate].
  destruct (has_slash last); [discriminate|].
  destruct (head_is_P first) eqn:HF; [|destruct (head_is_P last) eqn:HL].
  - destruct (py_iso8601 first) as [d|] eqn:E1; [|discriminate]. simpl.
    destruct (py_iso8601 last) as [b|] eqn:E2; [|discriminate]. simpl.
    destruct (endpoint_ok b) eqn:EB; [|discriminate]. intros E; inversion E; subst. simpl.
    destruct (py_iso8601_P _ _ HF E1) as (x & ob & ->). destruct (endpoint_ok_ip _ EB) as [p [-> _]]. simpl. destruct (p_kind p =? 2); exact I.
  - destruct (py_iso8601 first) as [a|] eqn:E1; [|discriminate]. simpl.
    destruct (py_iso8601 last) as [d|] eqn:E2; [|discriminate]. simpl.
    destruct (endpoint_ok a) eqn:EA; [|discriminate]. intros E; inversion E; subst. simpl.
    destruct (py_iso8601_nonP _ _ HF E1) as [p ->]. destruct (py_iso8601_P _ _ HL E2) as (x & ob & ->). simpl. destruct (p_kind p =? 2); exact I.
  - destruct (py_iso8601 first) as [a|] eqn:E1; [|discriminate]. simpl.
    destruct (py_iso8601 last) as [b|] eqn:E2; [|discriminate]. simpl.
    destruct (endpoint_ok a && endpoint_ok b); [|discriminate]. intros E; inversion E; subst. simpl.
    destruct (py_iso8601_nonP _ _ HF E1) as [p ->]. destruct (py_iso8601_nonP _ _ HL E2) as [q ->]. exact I.
Qed.

(* the duration half handed to DateTime.add: the model of Duration's derived fields marks a negative total as outside its fragment *)
Definition VOX : list exn := [E_ValueError; E_OverflowError; E_Exception].
(* py_parts computes both signs of the float total (Duration.__new__'s m = -1 branch included): it never raises *)
Lemma py_parts_ok x ob : exists p, py_parts x ob = Ok p.
Proof. unfold py_parts. destruct ob as [[[[y mo] a] b] c]. eexists; reflexivity. Qed.
Lemma py_parts_exn x ob : exn_in [E_Exception] (py_parts x ob).
Proof. destruct (py_parts_ok x ob) as [p ->]. exact I. Qed.

Lemma vox_of_vo {A} (r : result A) : exn_in [E_ValueError; E_OverflowError] r -> exn_in VOX r.
Proof. apply exn_in_weaken. intros e [<-|[<-|[]]]; simpl; auto. Qed.

Lemma assemble_py_dt o f : py_form f -> all_dt f = true -> exn_in VOX (assemble false o f).
Proof.
  destruct f as [a b|a d|d b]; unfold assemble, py_form, all_dt.
  - destruct a as [p| |]; try contradiction. destruct b as [q| |]; try contradiction. intros _ H.
    destruct (p_kind p =? 1), (p_kind q =? 1), (p_kind p =? 2), (p_kind q =? 2); cbn [andb orb] in *; try discriminate;
      try (apply exn_in_bind; [apply vox_of_vo, interval_new_exn|intros _]; apply exn_in_bind; [apply vox_of_vo, interval_init_exn|intros _; exact I]);
      simpl; auto.
  - destruct a as [p| |]; try contradiction. destruct d as [| |x ob]; try contradiction. intros _ H. rewrite H.
    apply exn_in_bind; [cbn [parts_of]; eapply exn_in_weaken; [|apply py_parts_exn]; intros e [<-|[]]; simpl; auto|intros parts].
    apply exn_in_bind; [apply vox_of_vo, dt_add_exn|intros W'].
    apply exn_in_bind; [apply vox_of_vo, interval_new_exn|intros _].
    apply exn_in_bind; [apply vox_of_vo, interval_init_exn|intros _; exact I].
  - destruct d as [| |x ob]; try contradiction. destruct b as [p| |]; try contradiction. intros _ H. rewrite H.
    apply exn_in_bind; [cbn [parts_of]; eapply exn_in_weaken; [|apply py_parts_exn]; intros e [<-|[]]; simpl; auto|intros parts].
    apply exn_in_bind; [apply vox_of_vo, dt_add_exn|intros W'].
    apply exn_in_bind; [apply vox_of_vo, interval_new_exn|intros _].
    apply exn_in_bind; [apply vox_of_vo, interval_init_exn|intros _; exact I].
Qed.

(* the only region of the model that is not closed: an interval whose duration half has a NEGATIVE float total in py_parts
   (Duration.total_seconds() - (years*365 + months*30)*86400 < 0), which the model marks E_Exception ("outside the modelled fragment") *)
Definition py_parts_unmodelled (s : list Z) : bool :=
  match interval_parse py_iso8601 s with
  | Ok (F_start_dur _ (I_pydur x ob)) | Ok (F_dur_end (I_pydur x ob) _) =>
      match py_parts x ob with Raise E_Exception => true | _ => false end
  | _ => false
  end.

Lemma assemble_py_region o s f : interval_parse py_iso8601 s = Ok f -> py_parts_unmodelled s = false ->
  exn_in [E_ValueError; E_OverflowError] (assemble false o f).
Proof.
  intros E R. pose proof (interval_parse_py_form s f E) as PF. pose proof (interval_parse_dt _ _ _ E) as A.
  pose proof (assemble_py_dt o f PF A) as H. unfold py_parts_unmodelled in R. rewrite E in R.
  destruct (assemble false o f) as [v|e] eqn:EA; [exact I|]. simpl in H. destruct H as [<-|[<-|[<-|[]]]]; simpl; auto.
  exfalso. destruct f as [a b|a d|d b]; cbn [py_form] in PF.
  - destruct a as [p| |]; try contradiction. destruct b as [q| |]; try contradiction. unfold assemble in EA.
    revert EA. destruct (_ && _); [|destruct (_ || _); [discriminate|destruct (_ && _); discriminate]].
    pose proof (interval_new_exn (match p_off p, p_off q with None, None => true | Some x, Some y => false && (x =? y) | _, _ => false end) (wall_p p) (off_of o p) (wall_p q) (off_of o q)) as H1.
    destruct (interval_new _ _ _ _ _) as [|e1]; cbn [bind]; [|intros E1; inversion E1; subst; simpl in H1; destruct H1 as [H1|[H1|[]]]; discriminate].
    pose proof (interval_init_exn false (wall_p p) (off_of o p) (wall_p q) (off_of o q)) as H2.
    destruct (interval_init _ _ _ _ _) as [|e2]; cbn [bind]; [discriminate|intros E2; inversion E2; subst; simpl in H2; destruct H2 as [H2|[H2|[]]]; discriminate].
  - destruct a as [p| |]; try contradiction. destruct d as [| |x ob]; try contradiction. unfold assemble in EA. cbn [parts_of] in EA.
    pose proof (py_parts_exn x ob) as HP. destruct (py_parts x ob) as [parts|ep]; [|simpl in HP; destruct HP as [<-|[]]; discriminate R].
    cbn [bind] in EA. destruct (p_kind p =? 1); [|discriminate].
    pose proof (dt_add_exn (off_of o p) (wall_p p) parts) as H0. destruct (dt_add _ _ _) as [W'|e0]; cbn [bind] in EA;
      [|inversion EA; subst; simpl in H0; destruct H0 as [H0|[H0|[]]]; discriminate].
    pose proof (interval_new_exn true (wall_p p) (off_of o p) W' (off_of o p)) as H1. destruct (interval_new _ _ _ _ _) as [|e1]; cbn [bind] in EA;
      [|inversion EA; subst; simpl in H1; destruct H1 as [H1|[H1|[]]]; discriminate].
    pose proof (interval_init_exn false (wall_p p) (off_of o p) W' (off_of o p)) as H2. destruct (interval_init _ _ _ _ _) as [|e2]; cbn [bind] in EA;
      [discriminate|inversion EA; subst; simpl in H2; destruct H2 as [H2|[H2|[]]]; discriminate].
  - destruct d as [| |x ob]; try contradiction. destruct b as [p| |]; try contradiction. unfold assemble in EA. cbn [parts_of] in EA.
    pose proof (py_parts_exn x ob) as HP. destruct (py_parts x ob) as [parts|ep]; [|simpl in HP; destruct HP as [<-|[]]; discriminate R].
    cbn [bind] in EA. destruct (p_kind p =? 1); [|discriminate].
    pose proof (dt_add_exn (off_of o p) (wall_p p) (neg_parts parts)) as H0. destruct (dt_add _ _ _) as [W'|e0]; cbn [bind] in EA;
      [|inversion EA; subst; simpl in H0; destruct H0 as [H0|[H0|[]]]; discriminate].
    pose proof (interval_new_exn true W' (off_of o p) (wall_p p) (off_of o p)) as H1. destruct (interval_new _ _ _ _ _) as [|e1]; cbn [bind] in EA;
      [|inversion EA; subst; simpl in H1; destruct H1 as [H1|[H1|[]]]; discriminate].
    pose proof (interval_init_exn false W' (off_of o p) (wall_p p) (off_of o p)) as H2. destruct (interval_init _ _ _ _ _) as [|e2]; cbn [bind] in EA;
      [discriminate|inversion EA; subst; simpl in H2; destruct H2 as [H2|[H2|[]]]; discriminate].
Qed.

Lemma interval_parse_py_exn s : exn_in [E_ValueError; E_ParserError] (interval_parse py_iso8601 s).
Proof.
  pose proof (interval_parse_exn py_iso8601 VP s py_iso8601_exn) as H. destruct (interval_parse py_iso8601 s); [exact I|].
  simpl in *. tauto.
Qed.

Section ChainPy.
  Variable du : list Z -> bool -> bool -> result pval.
  Hypothesis du_ok : forall s a b, exn_in [E_ValueError; E_ParserError; E_OverflowError] (du s a b).

  (* the whole pure-Python chain, every string, every option combination, outside the one unclosed region of the model *)
  Theorem parse_total_py_all : forall o s, py_parts_unmodelled s = false ->
    match parse_full du false o s with
    | Ok _ => True
    | Raise E_ValueError | Raise E_ParserError => True
    | Raise _ => False
    end.
  Proof.
    intros o s R. unfold parse_full. destruct (is_now s); [exact I|].
    unfold base_parse. cbn [iso8601].
    pose proof (py_iso8601_exn s) as H1.
    destruct (py_iso8601 s) as [i|e1] eqn:E1.
    - cbn [bind]. destruct i as [p|r|x ob].
      + destruct (finish_ip false o p) as [v ->]. exact I.
      + exfalso. destruct (head_is_P s) eqn:HP;
          [destruct (py_iso8601_P _ _ HP E1) as (x & ob & Hx); discriminate Hx|destruct (py_iso8601_nonP _ _ HP E1) as (p & Hp); discriminate Hp].
      + rewrite normalize_other by (intros p; discriminate). exact I.
    - simpl in H1. assert (V1 : is_ve e1 = true) by (destruct H1 as [<-|[<-|[]]]; reflexivity). rewrite V1. cbn [negb].
      pose proof (interval_parse_py_exn s) as H2.
      destruct (interval_parse py_iso8601 s) as [f|e2] eqn:E2f.
      + cbn [bind]. rewrite normalize_other by (intros p; discriminate). cbn [finish].
        pose proof (assemble_py_region o s f E2f R) as H. destruct (assemble false o f) as [v|e]; [exact I|].
        simpl in H. destruct H as [<-|[<-|[]]]; exact I.
      + simpl in H2. assert (V : is_ve e2 = true) by (destruct H2 as [<-|[<-|[]]]; reflexivity). rewrite V. cbn [negb].
        pose proof (common_classes (o_day_first o) s) as H3.
        destruct (common_parse_df (o_day_first o) s) as [p|e3].
        * cbn [bind]. destruct (finish_ip false o p) as [v ->]. exact I.
        * simpl in H3. destruct H3 as [<-|[<-|[]]]; cbn [bind]; [exact I|].
          destruct (o_strict o); [exact I|].
          pose proof (du_ok s (o_day_first o) (o_year_first o)) as D.
          destruct (du s (o_day_first o) (o_year_first o)) as [p|e4].
          -- destruct (match p_off p with Some z => (z <=? -86400) || (86400 <=? z) | None => false end); [exact I|].
             cbn [bind]. destruct (finish_ip false o p) as [v ->]. exact I.
          -- simpl in D. destruct D as [<-|[<-|[<-|[]]]]; exact I.
  Qed.
End ChainPy.

(* texts without '/' are never in the region: totality there is unconditional *)
Lemma py_parts_unmodelled_noslash s : has_slash s = false -> py_parts_unmodelled s = false.
Proof.
  intros H. unfold py_parts_unmodelled, interval_parse.
  assert (E : snd (split_slash s) = None).
  { induction s as [|c t IH]; [reflexivity|]. cbn [has_slash existsb] in H. apply orb_false_iff in H. destruct H as [H1 H2].
    cbn [split_slash]. rewrite H1. specialize (IH H2). destruct (split_slash t) as [a b]. exact IH. }
  destruct (split_slash s) as [a [b|]]; [discriminate E|reflexivity].
Qed.

(* ================================================================== offsets *)
Definition off_ok_o (oz : option Z) : Prop := match oz with Some z => bad_off z = false | None => True end.
Definition off_ok_p (p : pval) : Prop := off_ok_o (p_off p).

(* ---- compiled descent: the offset of the record only ever comes from rs_offset *)
Lemma rs_parse_time_off dt sk s dt' r : off_ok_o (r_offset dt) -> rs_parse_time dt sk s = Some (dt', r) -> off_ok_o (r_offset dt').
Proof.
  intros H0. unfold rs_parse_time.
  destruct (_ && _ && _); [discriminate|].
  destruct (if sk then _ else _) as [[hour s1]|]; [|discriminate].
  match goal with |- match ?hms with _ => _ end = _ -> _ => destruct hms as [[[[minute second] us] s7]|] end; [|discriminate].
  destruct (rs_offset s7) as [[off s8]|] eqn:EO; [|discriminate].
  intros E. inversion E; subst. cbn [r_offset]. destruct off as [z|]; [|exact I].
  exact (rs_offset_in_range _ _ _ EO).
Qed.

Lemma rs_parse_date_off year s dt r : rs_parse_date year s = Some (dt, r) -> r_offset dt = None.
Proof.
  unfold rs_parse_date, set_ymd.
  repeat match goal with
         | |- context [match ?x with _ => _ end] => destruct x
         | |- context [if ?x then _ else _] => destruct x
         end; intros E; try discriminate E; inversion E; subst; reflexivity.
Qed.

Lemma rs_parse_datetime_off s dt : rs_parse_datetime s = Some dt -> off_ok_o (r_offset dt).
Proof.
  unfold rs_parse_datetime.
  destruct (cur s =? ch_T).
  - destruct (rs_parse_time rdt0 false s) as [[dt' s']|] eqn:E; [|discriminate]. destruct (isend s'); [|discriminate].
    intros E1; inversion E1; subst. eapply rs_parse_time_off; [|exact E]. exact I.
  - destruct (rs_parse_int 2 s 0) as [[y2 s1]|]; [|discriminate].
    destruct (cur s1 =? ch_colon).
    + destruct (rs_parse_time _ true s1) as [[dt' s']|] eqn:E; [|discriminate]. destruct (isend s'); [|discriminate].
      intros E1; inversion E1; subst. eapply rs_parse_time_off; [|exact E]. exact I.
    + destruct (rs_parse_int 2 s1 0) as [[yy s2]|]; [|discriminate].
      destruct (rs_parse_date _ s2) as [[dt0 s3]|] eqn:ED; [|discriminate].
      pose proof (rs_parse_date_off _ _ _ _ ED) as N.
      destruct (negb (isend s3)).
      * destruct (rs_parse_time dt0 false s3) as [[dt' s4]|] eqn:E; [|discriminate]. destruct (isend s4); [|discriminate].
        intros E1; inversion E1; subst. eapply rs_parse_time_off; [|exact E]. rewrite N. exact I.
      * destruct (isend s3); [|discriminate]. intros E1; inversion E1; subst. rewrite N. exact I.
Qed.

Lemma rs_parse_iso_off s p : rs_parse_iso s = Ok p -> off_ok_p p.
Proof.
  unfold rs_parse_iso. destruct (rs_parse_datetime s) as [dt|] eqn:E; [|discriminate].
  pose proof (rs_parse_datetime_off s dt E) as H. unfold off_ok_p.
  destruct (r_has_date dt), (r_has_time dt); unfold mk_datetime, mk_date, mk_time;
    repeat match goal with |- context [if ?x then _ else _] => destruct x end; intros E1; inversion E1; subst; cbn [p_off]; try exact H; exact I.
Qed.

(* ------------------------------------------------------------------ soundness of the matcher w.r.t. a declarative reading of the pattern,
   and the language of every capture group *)
Inductive accepts : re -> list Z -> Prop :=
| A_eps : accepts REps []
| A_lit a : accepts (RLit a) [a]
| A_in neg rs x : xorb neg (in_ranges x rs) = true -> accepts (RIn neg rs) [x]
| A_seq a b t1 t2 : accepts a t1 -> accepts b t2 -> accepts (RSeq a b) (t1 ++ t2)
| A_altl a b t : accepts a t -> accepts (RAlt a b) t
| A_altr a b t : accepts b t -> accepts (RAlt a b) t
| A_rep0 a mn mx : accepts (RRep a mn mx) []
| A_repS a mn mx t1 t2 : accepts a t1 -> accepts (RRep a mn mx) t2 -> accepts (RRep a mn mx) (t1 ++ t2)
| A_grp n a t : accepts a t -> accepts (RGrp n a) t
| A_beg : accepts RBeg []
| A_end : accepts REnd [].

(* the bodies of the groups numbered g *)
Fixpoint bodies (r : re) (g : nat) : list re :=
  match r with
  | RSeq a b | RAlt a b => bodies a g ++ bodies b g
  | RRep a _ _ => bodies a g
  | RGrp n a => (if Nat.eqb n g then [a] else []) ++ bodies a g
  | _ => []
  end.

Section Sound.
  Variable R : re.
  Definition ginv (c : caps) : Prop := forall g t, grp c g = Some t -> exists a, In a (bodies R g) /\ accepts a t.
  Definition subre (r : re) : Prop := forall g, incl (bodies r g) (bodies R g).

  Lemma ginv_upd n a t c : In a (bodies R n) -> accepts a t -> ginv c -> ginv (upd n t c).
  Proof.
    intros Ha At Hc g u Hg. destruct (Nat.eq_dec g n) as [->|Hne].
    - destruct (Nat.lt_ge_cases n (length c)) as [L|L].
      + rewrite grp_upd_same in Hg by exact L. inversion Hg; subst. eauto.
      + rewrite grp_upd_short in Hg by exact L. apply Hc; exact Hg.
    - rewrite grp_upd_other in Hg by exact Hne. apply Hc; exact Hg.
  Qed.

  Lemma rmatch_sound : forall r, subre r -> forall i s c k res, ginv c -> rmatch r i s c k = Some res ->
    exists txt s' c', s = txt ++ s' /\ accepts r txt /\ ginv c' /\ k (i + length txt)%nat s' c' = Some res.
  Proof.
    induction r as [|a|neg rs|a IHa b IHb|a IHa b IHb|a IHa mn mx|n a IHa| |]; intros SR i s c k res Hc H.
    - exists [], s, c. rewrite Nat.add_0_r. repeat split; [constructor|exact Hc|exact H].
    - cbn [rmatch] in H. destruct s as [|x t]; [discriminate|]. destruct (x =? a) eqn:E; [|discriminate]. apply Z.eqb_eq in E. subst x.
      exists [a], t, c. replace (i + length [a])%nat with (S i) by (cbn; lia). repeat split; [constructor|exact Hc|exact H].
    - cbn [rmatch] in H. destruct s as [|x t]; [discriminate|]. destruct (xorb neg (in_ranges x rs)) eqn:E; [|discriminate].
      exists [x], t, c. replace (i + length [x])%nat with (S i) by (cbn; lia). repeat split; [apply A_in; exact E|exact Hc|exact H].
    - assert (SA : subre a) by (intros g x Hx; apply SR; cbn [bodies]; apply in_or_app; left; exact Hx).
      assert (SB : subre b) by (intros g x Hx; apply SR; cbn [bodies]; apply in_or_app; right; exact Hx).
      cbn [rmatch] in H. apply (IHa SA) in H; [|exact Hc]. destruct H as (t1 & s1 & c1 & -> & A1 & I1 & H).
      apply (IHb SB) in H; [|exact I1]. destruct H as (t2 & s2 & c2 & -> & A2 & I2 & H).
      exists (t1 ++ t2), s2, c2. rewrite app_length, Nat.add_assoc, <- app_assoc. repeat split; [apply A_seq; assumption|exact I2|exact H].
    - assert (SA : subre a) by (intros g x Hx; apply SR; cbn [bodies]; apply in_or_app; left; exact Hx).
      assert (SB : subre b) by (intros g x Hx; apply SR; cbn [bodies]; apply in_or_app; right; exact Hx).
      cbn [rmatch] in H. destruct (rmatch a i s c k) eqn:E.
      + inversion H; subst. apply (IHa SA) in E; [|exact Hc]. destruct E as (t1 & s1 & c1 & -> & A1 & I1 & E).
        exists t1, s1, c1. repeat split; [apply A_altl; exact A1|exact I1|exact E].
      + apply (IHb SB) in H; [|exact Hc]. destruct H as (t1 & s1 & c1 & -> & A1 & I1 & E1).
        exists t1, s1, c1. repeat split; [apply A_altr; exact A1|exact I1|exact E1].
    - assert (SA : subre a) by (intros g x Hx; apply SR; exact Hx).
      rewrite rmatch_rep in H.
      assert (G : forall mx' mn' i s c, ginv c -> repf (rmatch a) k mx' mn' i s c = Some res ->
                  exists txt s' c', s = txt ++ s' /\ accepts (RRep a mn mx) txt /\ ginv c' /\ k (i + length txt)%nat s' c' = Some res).
      { induction mx' as [|mx' IHm]; intros mn' i0 s0 c0 Hc0 H0.
        - rewrite repf_O in H0. destruct mn'; [|discriminate]. exists [], s0, c0. rewrite Nat.add_0_r. repeat split; [constructor|exact Hc0|exact H0].
        - rewrite repf_S in H0. destruct (rmatch a i0 s0 c0 _) eqn:E.
          + inversion H0; subst. apply (IHa SA) in E; [|exact Hc0]. destruct E as (t1 & s1 & c1 & -> & A1 & I1 & E).
            apply IHm in E; [|exact I1]. destruct E as (t2 & s2 & c2 & -> & A2 & I2 & E).
            exists (t1 ++ t2), s2, c2. rewrite app_length, Nat.add_assoc, <- app_assoc.
            repeat split; [apply A_repS; assumption|exact I2|exact E].
          + destruct mn'; [|discriminate]. exists [], s0, c0. rewrite Nat.add_0_r. repeat split; [constructor|exact Hc0|exact H0]. }
      exact (G mx mn i s c Hc H).
    - assert (SA : subre a) by (intros g x Hx; apply SR; cbn [bodies]; apply in_or_app; right; exact Hx).
      assert (Ia : In a (bodies R n)) by (apply SR; cbn [bodies]; rewrite Nat.eqb_refl; left; reflexivity).
      cbn [rmatch] in H. apply (IHa SA) in H; [|exact Hc]. destruct H as (t1 & s1 & c1 & -> & A1 & I1 & H).
      replace (i + length t1 - i)%nat with (length t1) in H by lia.
      assert (F : firstn (length t1) (t1 ++ s1) = t1) by (rewrite firstn_app, Nat.sub_diag, firstn_all; cbn [firstn]; apply app_nil_r).
      rewrite F in H. exists t1, s1, (upd n t1 c1). repeat split; [apply A_grp; exact A1|exact (ginv_upd n a t1 c1 Ia A1 I1)|exact H].
    - cbn [rmatch] in H. destruct i; [|discriminate]. exists [], s, c. repeat split; [constructor|exact Hc|exact H].
    - rewrite rmatch_end in H. destruct (is_end s); [|discriminate]. exists [], s, c. rewrite Nat.add_0_r. repeat split; [constructor|exact Hc|exact H].
  Qed.

  (* every group of a successful re.match holds a text that the body of a group with that number accepts *)
  Theorem re_match_group_lang ng s c : re_match R ng s = Some c -> ginv c.
  Proof.
    intros H. unfold re_match in H. apply rmatch_sound in H.
    - destruct H as (t & s' & c' & _ & _ & I & E). inversion E; subst. exact I.
    - intros g x Hx; exact Hx.
    - intros g t Hg. exfalso. unfold grp in Hg. revert Hg. generalize (S ng). intros m. revert g. induction m as [|m IH]; intros [|g] Hg; simpl in Hg; try discriminate. eapply IH; exact Hg.
  Qed.
End Sound.

Lemma accepts_chars r t : accepts r t -> Forall (fun x => firstb r x = true) t.
Proof.
  induction 1; cbn [firstb]; try constructor; auto.
  - apply Z.eqb_refl.
  - apply Forall_app. split; eapply Forall_impl; try eassumption; intros x Hx; cbv beta in *; rewrite Hx; [reflexivity|apply orb_true_r].
  - eapply Forall_impl; try eassumption. intros x Hx. cbv beta in *. rewrite Hx. reflexivity.
  - eapply Forall_impl; try eassumption. intros x Hx. cbv beta in *. rewrite Hx. apply orb_true_r.
  - apply Forall_app. split; assumption.
Qed.

(* ---- the tz group of ISO8601_DT: Z, or a sign followed by digits and at most colons: every character after the sign is >= '0' *)
Definition tz_rest : re := RSeq (RRep (RIn false [(48, 57)]) 2 2) (RSeq (RRep (RLit 58) 0 1) (RRep (RRep (RIn false [(48, 57)]) 2 2) 0 1)).
Definition tz_body : re := RAlt (RSeq (RIn false [(45, 45); (43, 43)]) tz_rest) (RLit 90).
Lemma iso_tz_bodies : bodies ISO_RE G_ISO_tz = [tz_body]. Proof. vm_compute. reflexivity. Qed.

Lemma tz_rest_chars x : firstb tz_rest x = true -> 48 <= x.
Proof. unfold tz_rest. cbn [firstb in_ranges xorb]. intros H. destruct ((48 <=? x) && (x <=? 57) || false) eqn:E; [lia|]. cbn [orb] in H. lia. Qed.

Lemma tz_shape t : accepts tz_body t -> t = [90] \/ exists sg rest, t = sg :: rest /\ Forall (fun x => 48 <= x) rest.
Proof.
  unfold tz_body. intros H. inversion H as [| | | | a b t0 Hl | a b t0 Hr | | | | |]; subst.
  - right. inversion Hl as [| | |a b t1 t2 H1 H2 | | | | | | |]; subst. inversion H1; subst. exists x, t2. split; [reflexivity|].
    apply accepts_chars in H2. eapply Forall_impl; [|exact H2]. intros y Hy. apply tz_rest_chars. exact Hy.
  - left. inversion Hr; subst. reflexivity.
Qed.

Lemma int_of_nonneg l : Forall (fun x => 48 <= x) l -> 0 <= int_of l.
Proof.
  unfold int_of. assert (G : forall acc, 0 <= acc -> Forall (fun x => 48 <= x) l -> 0 <= fold_left (fun a ch => 10 * a + (ch - 48)) l acc).
  { induction l as [|c l IH]; intros acc Ha F; [exact Ha|]. inversion F; subst. cbn [fold_left]. apply IH; [lia|assumption]. }
  apply G. lia.
Qed.
Lemma int_of_str_nonneg l v : Forall (fun x => 48 <= x) l -> int_of_str l = Ok v -> 0 <= v.
Proof. unfold int_of_str. destruct l; [discriminate|]. intros F E. inversion E; subst. apply int_of_nonneg. exact F. Qed.

Lemma split_colon_forall P : forall l acc a b, Forall P l -> Forall P acc -> split_colon l acc = Some (a, b) -> Forall P a /\ Forall P b.
Proof.
  induction l as [|c t IH]; intros acc a b Fl Fa H; [discriminate|]. inversion Fl; subst. cbn [split_colon] in H.
  destruct (c =? ch_colon).
  - inversion H; subst. split; [apply Forall_rev; exact Fa|assumption].
  - eapply IH; [assumption| |exact H]. constructor; assumption.
Qed.
Lemma Forall_firstn {A} (P : A -> Prop) n l : Forall P l -> Forall P (firstn n l).
Proof. revert n. induction l as [|a l IH]; intros [|n] F; cbn; try constructor; inversion F; subst; auto. Qed.
Lemma Forall_skipn {A} (P : A -> Prop) n l : Forall P l -> Forall P (skipn n l).
Proof. revert n. induction l as [|a l IH]; intros [|n] F; cbn; try assumption; try constructor; inversion F; subst; auto. Qed.

Lemma py_tz_offset_in_range t z : accepts tz_body t -> py_tz_offset t = Ok z -> bad_off z = false.
Proof.
  intros A. destruct (tz_shape t A) as [-> | (sg & rest & -> & F)].
  - cbn. intros E; inversion E; reflexivity.
  - unfold py_tz_offset.
    assert (NZ : forall r0, match sg :: rest with [90] => r0 | _ => py_tz_offset (sg :: rest) end = py_tz_offset (sg :: rest) \/ True) by (right; exact I).
    destruct (Z.eq_dec sg 90) as [->|Hsg].
    + destruct rest as [|r1 rs]; [cbn; intros E; inversion E; reflexivity|].
      set (P := fun x => 48 <= x) in *.
      match goal with |- match ?pp with _ => _ end = _ -> _ => idtac end.
      set (parts := match split_colon (r1 :: rs) [] with
                    | None => let r := if (length (r1 :: rs) =? 2)%nat then (r1 :: rs) ++ [48; 48] else r1 :: rs in (slice r 0 2, slice r 2 4)
                    | Some (a, b) => (a, b) end).
      assert (FP : Forall P (fst parts) /\ Forall P (snd parts)).
      { unfold parts. destruct (split_colon (r1 :: rs) []) as [[a b]|] eqn:ES.
        - apply (split_colon_forall P _ _ _ _ F (Forall_nil P) ES).
        - cbv zeta. assert (Fr : Forall P (if (length (r1 :: rs) =? 2)%nat then (r1 :: rs) ++ [48; 48] else r1 :: rs)).
          { destruct (length (r1 :: rs) =? 2)%nat; [apply Forall_app; split; [exact F|repeat constructor; unfold P; lia]|exact F]. }
          unfold slice. cbn [fst snd]. split; [apply Forall_firstn, Forall_skipn, Fr|apply Forall_firstn, Forall_skipn, Fr]. }
      fold parts. destruct FP as [F1 F2].
      destruct (int_of_str (fst parts)) as [hh|] eqn:E1; [|discriminate]. destruct (int_of_str (snd parts)) as [mm|] eqn:E2; [|discriminate].
      pose proof (int_of_str_nonneg _ _ F1 E1). pose proof (int_of_str_nonneg _ _ F2 E2).
      destruct ((hh * 60 + mm) * 60 >=? 24 * 60 * 60) eqn:B; [discriminate|]. intros E; injection E as <-.
      rewrite Z.geb_leb in B. apply Z.leb_gt in B. unfold bad_off. destruct (90 =? ch_dash); apply orb_false_iff; split; apply Z.leb_gt; try fold (Z.opp ((hh * 60 + mm) * 60)); lia.
    + assert (M : forall A0 (x y : A0), match sg :: rest with [90] => x | _ => y end = y).
      { intros A0 x y. destruct sg as [|p|p]; try reflexivity. do 7 (try (destruct p as [p|p|]; try reflexivity)). destruct rest; [contradiction Hsg; reflexivity|reflexivity]. }
      set (P := fun x => 48 <= x) in *.
      set (parts := match split_colon rest [] with
                    | None => let r := if (length rest =? 2)%nat then rest ++ [48; 48] else rest in (slice r 0 2, slice r 2 4)
                    | Some (a, b) => (a, b) end).
      assert (FP : Forall P (fst parts) /\ Forall P (snd parts)).
      { unfold parts. destruct (split_colon rest []) as [[a b]|] eqn:ES.
        - apply (split_colon_forall P _ _ _ _ F (Forall_nil P) ES).
        - cbv zeta. assert (Fr : Forall P (if (length rest =? 2)%nat then rest ++ [48; 48] else rest)).
          { destruct (length rest =? 2)%nat; [apply Forall_app; split; [exact F|repeat constructor; unfold P; lia]|exact F]. }
          unfold slice. cbn [fst snd]. split; [apply Forall_firstn, Forall_skipn, Fr|apply Forall_firstn, Forall_skipn, Fr]. }
      rewrite M. fold parts. destruct FP as [F1 F2].
      destruct (int_of_str (fst parts)) as [hh|] eqn:E1; [|discriminate]. destruct (int_of_str (snd parts)) as [mm|] eqn:E2; [|discriminate].
      pose proof (int_of_str_nonneg _ _ F1 E1). pose proof (int_of_str_nonneg _ _ F2 E2).
      destruct ((hh * 60 + mm) * 60 >=? 24 * 60 * 60) eqn:B; [discriminate|]. intros E; injection E as <-.
      rewrite Z.geb_leb in B. apply Z.leb_gt in B. unfold bad_off. destruct (sg =? ch_dash); apply orb_false_iff; split; apply Z.leb_gt; try fold (Z.opp ((hh * 60 + mm) * 60)); lia.
Qed.

Lemma mk_datetime_off y m d H M S us oz p : off_ok_o oz -> mk_datetime y m d H M S us oz = Ok p -> off_ok_p p.
Proof. intros Ho E. unfold mk_datetime in E. destruct (_ && _); inversion E; subst; exact Ho. Qed.
Lemma mk_time_off H M S us oz p : off_ok_o oz -> mk_time H M S us oz = Ok p -> off_ok_p p.
Proof. intros Ho E. unfold mk_time in E. destruct (valid_time _ _ _ _); inversion E; subst; exact Ho. Qed.

Lemma py_parse_iso_off s p : py_parse_iso s = Ok p -> off_ok_p p.
Proof.
  unfold py_parse_iso. destruct (re_match ISO_RE ISO_NGROUPS s) as [c|] eqn:EM; [|discriminate].
  pose proof (re_match_group_lang ISO_RE ISO_NGROUPS s c EM) as GI.
  destruct (py_datepart c) as [[[[y m] d] amb]|e]; [|discriminate].
  destruct (negb (has c G_ISO_time)).
  - destruct amb.
    + destruct (int_of_str _); [|discriminate]. destruct (int_of_str _); [|discriminate]. destruct (int_of_str _); [|discriminate].
      intros E. eapply mk_time_off; [|exact E]. exact I.
    + unfold mk_date. destruct (valid_date y m d); [|discriminate]. intros E; inversion E; exact I.
  - destruct amb; [discriminate|]. destruct (_ && _); [discriminate|]. unfold py_timepart.
    destruct (_ && _); [discriminate|]. destruct (_ && _ && _); [discriminate|]. destruct (_ && _ && _); [discriminate|]. destruct (_ && _); [discriminate|].
    unfold has, gtext. destruct (grp c G_ISO_tz) as [t|] eqn:ET.
    + destruct (GI _ _ ET) as (a & Ha & At). rewrite iso_tz_bodies in Ha. destruct Ha as [<-|[]].
      destruct (py_tz_offset t) as [z|] eqn:EZ; [|discriminate].
      pose proof (py_tz_offset_in_range t z At EZ) as B.
      cbv beta iota. match goal with |- (if ?x then _ else _) = _ -> _ => destruct x end;
        intros E; first [eapply mk_datetime_off; [|exact E]; exact B | eapply mk_time_off; [|exact E]; exact B].
    + cbv beta iota. match goal with |- (if ?x then _ else _) = _ -> _ => destruct x end;
        intros E; first [eapply mk_datetime_off; [|exact E]; exact I | eapply mk_time_off; [|exact E]; exact I].
Qed.

Lemma iso8601_off rs s p : iso8601 rs s = Ok (I_p p) -> off_ok_p p.
Proof.
  destruct rs; cbn [iso8601].
  - unfold rs_iso8601. destruct (existsb is_surrogate s); [discriminate|]. destruct (cur s =? ch_P).
    + destruct (rs_raw s); discriminate.
    + unfold lift_p. destruct (rs_parse_iso s) as [q|] eqn:E; [|discriminate]. intros E1; inversion E1; subst. eapply rs_parse_iso_off; exact E.
  - unfold py_iso8601. destruct (match_duration (fold_str s)).
    + destruct (negb (runs_ok d)); [discriminate|]. destruct (py_native _) as [[x o]|e]; [discriminate|destruct e; discriminate].
    + unfold lift_p. destruct (py_parse_iso (fold_str s)) as [q|] eqn:E; [|discriminate]. intros E1; inversion E1; subst. eapply py_parse_iso_off; exact E.
Qed.

(* ------------------------------------------------------------------ the chain: every DateTime that parse returns has |utcoffset| < 24 h *)
Definition ival_ok (i : ival) : Prop := match i with I_p p => off_ok_p p | _ => True end.
Definition form_ok (f : iform) : Prop :=
  match f with F_start_end a b | F_start_dur a b | F_dur_end a b => ival_ok a /\ ival_ok b end.
Definition parsed_ok (r : parsed) : Prop := match r with R_i i => ival_ok i | R_form f => form_ok f end.
Definition off_ok_v (v : tval) : Prop :=
  match v with V_p p => off_ok_p p | V_ival _ a b => off_ok_p a /\ off_ok_p b | _ => True end.

Lemma at_midnight_ok i : ival_ok i -> ival_ok (at_midnight i).
Proof. destruct i as [p| |]; cbn; auto. destruct (p_kind p =? 2); cbn; auto. Qed.

Lemma interval_parse_ok iso s f : (forall x i, iso x = Ok i -> ival_ok i) -> interval_parse iso s = Ok f -> form_ok f.
Proof.
  intros H. unfold interval_parse. destruct (split_slash s) as [first [last|]]; [|discriminate].
  destruct (has_slash last); [discriminate|].
  destruct (head_is_P first); [|destruct (head_is_P last)];
    (destruct (iso first) as [a|] eqn:E1; [|discriminate]; destruct (iso last) as [b|] eqn:E2; [|discriminate]; cbn [bind];
     pose proof (H _ _ E1) as Ha; pose proof (H _ _ E2) as Hb).
  - destruct (endpoint_ok b); [|discriminate]. intros E; inversion E; subst. split; [exact Ha|apply at_midnight_ok; exact Hb].
  - destruct (endpoint_ok a); [|discriminate]. intros E; inversion E; subst. split; [apply at_midnight_ok; exact Ha|exact Hb].
  - destruct (endpoint_ok a && endpoint_ok b); [|discriminate]. intros E; inversion E; subst. split; assumption.
Qed.

Lemma common_parse_df_off df s p : common_parse_df df s = Ok p -> off_ok_p p.
Proof.
  unfold common_parse_df. destruct (re_match COMMON_RE COMMON_NGROUPS (fold_str s)) as [c|]; [|discriminate].
  match goal with |- context [let '(a, b) := ?E in _] => destruct E as [month day] end.
  destruct (negb (has c G_COMMON_time)).
  - unfold mk_date. destruct (valid_date _ _ _); [|discriminate]. intros E; inversion E; exact I.
  - destruct (negb (has c G_COMMON_minute)); [discriminate|]. destruct (has c G_COMMON_date); intros E;
      [eapply mk_datetime_off; [|exact E]; exact I|eapply mk_time_off; [|exact E]; exact I].
Qed.

Lemma base_parse_ok du rs o s r : base_parse du rs o s = Ok r -> parsed_ok r.
Proof.
  unfold base_parse. destruct (iso8601 rs s) as [i|e1] eqn:E1.
  - intros E; inversion E; subst. cbn. destruct i as [p| |]; cbn; auto. eapply iso8601_off; exact E1.
  - destruct (negb (is_ve e1)); [discriminate|].
    destruct (interval_parse (iso8601 rs) s) as [f|e2] eqn:E2.
    + intros E; inversion E; subst. cbn. eapply interval_parse_ok; [|exact E2].
      intros x i Hx. destruct i as [p| |]; cbn; auto. eapply iso8601_off; exact Hx.
    + destruct (negb (is_ve e2)); [discriminate|].
      destruct (common_parse_df (o_day_first o) s) as [p|e3] eqn:E3.
      * intros E; inversion E; subst. cbn. eapply common_parse_df_off; exact E3.
      * destruct e3; try discriminate. destruct (o_strict o); [discriminate|].
        destruct (du s (o_day_first o) (o_year_first o)) as [p|e4]; [|destruct e4; discriminate].
        destruct (p_off p) as [z|] eqn:EP.
        -- destruct ((z <=? -86400) || (86400 <=? z)) eqn:B; [discriminate|]. intros E; inversion E; subst. cbn. unfold off_ok_p. rewrite EP. exact B.
        -- intros E; inversion E; subst. cbn. unfold off_ok_p. rewrite EP. exact I.
Qed.

Lemma normalize_ok o r : parsed_ok r -> parsed_ok (normalize o r).
Proof.
  unfold normalize. destruct (o_exact o); [auto|]. destruct r as [[p| |]|f]; auto. intros H.
  destruct (p_kind p =? 3); [destruct (o_now o) as [[? ?] ?]; exact I|]. destruct (p_kind p =? 2); [exact I|exact H].
Qed.

Lemma p_off_of_wall w off : p_off (p_of_wall w off) = Some off.
Proof. unfold p_of_wall. destruct (fields_of_wall w) as [[[[[[? ?] ?] ?] ?] ?] ?]. reflexivity. Qed.

Definition tz_opt_ok (o : opts) : Prop := off_ok_o (o_tz o).
Lemma off_of_ok o p : tz_opt_ok o -> off_ok_p p -> bad_off (off_of o p) = false.
Proof. unfold off_of, off_ok_p, tz_opt_ok, deftz. intros Ht Hp. destruct (p_off p); [exact Hp|]. destruct (o_tz o); [exact Ht|reflexivity]. Qed.

Lemma assemble_ok rs o f v : tz_opt_ok o -> form_ok f -> assemble rs o f = Ok v -> off_ok_v v.
Proof.
  intros Ht Hf. destruct f as [a b|a d|d b]; cbn [form_ok] in Hf; destruct Hf as [H1 H2]; unfold assemble.
  - destruct a as [p| |]; try discriminate. destruct b as [q| |]; try discriminate. cbn in H1, H2.
    destruct (_ && _).
    + destruct (interval_new _ _ _ _ _); [|discriminate]. cbn [bind]. destruct (interval_init _ _ _ _ _); [|discriminate]. cbn [bind].
      intros E; inversion E; subst. cbn. unfold off_ok_p. rewrite !p_off_of_wall. cbn. split; apply off_of_ok; assumption.
    + destruct (_ || _); [discriminate|]. destruct (_ && _); [|discriminate]. intros E; inversion E; subst. cbn. split; assumption.
  - destruct (parts_of d) as [parts|]; [|discriminate]. cbn [bind]. destruct a as [p| |]; try discriminate. cbn in H1.
    destruct (p_kind p =? 1); [|discriminate]. destruct (dt_add _ _ _) as [W'|]; [|discriminate]. cbn [bind].
    destruct (interval_new _ _ _ _ _); [|discriminate]. cbn [bind]. destruct (interval_init _ _ _ _ _); [|discriminate]. cbn [bind].
    intros E; inversion E; subst. cbn. unfold off_ok_p. rewrite !p_off_of_wall. cbn. split; apply off_of_ok; assumption.
  - destruct b as [p| |]; try discriminate. cbn in H2. destruct (parts_of d) as [parts|]; [|discriminate]. cbn [bind].
    destruct (p_kind p =? 1); [|discriminate]. destruct (dt_add _ _ _) as [W'|]; [|discriminate]. cbn [bind].
    destruct (interval_new _ _ _ _ _); [|discriminate]. cbn [bind]. destruct (interval_init _ _ _ _ _); [|discriminate]. cbn [bind].
    intros E; inversion E; subst. cbn. unfold off_ok_p. rewrite !p_off_of_wall. cbn. split; apply off_of_ok; assumption.
Qed.

Lemma finish_ok rs o r v : tz_opt_ok o -> parsed_ok r -> finish rs o r = Ok v -> off_ok_v v.
Proof.
  intros Ht Hr. destruct r as [[p|rd|x ob]|f]; cbn [finish].
  - cbn in Hr. destruct (p_kind p =? 1); [|destruct (p_kind p =? 2)]; intros E; inversion E; subst; cbn; unfold off_ok_p; cbn; try exact I.
    apply off_of_ok; assumption.
  - destruct (rs_glue rd) as [xo|e]; [|destruct e; discriminate]. intros E; inversion E; exact I.
  - intros E; inversion E; exact I.
  - cbn in Hr. destruct (assemble rs o f) as [v'|e] eqn:EA; [|destruct e; discriminate]. intros E; inversion E; subst.
    eapply assemble_ok; eassumption.
Qed.

(* offset_in_range, both backends, every string, any dateutil (no assumption on it), every option combination whose tz option is itself
   a legal fixed offset: every DateTime in the value that parse returns carries an offset strictly between -24 h and +24 h *)
Theorem offset_in_range_all du rs o s v : tz_opt_ok o -> parse_full du rs o s = Ok v -> off_ok_v v.
Proof.
  intros Ht. unfold parse_full. destruct (is_now s); [intros E; inversion E; exact I|].
  destruct (base_parse du rs o s) as [r|e] eqn:EB; [|discriminate]. cbn [bind]. intros E.
  eapply finish_ok; [exact Ht| |exact E]. apply normalize_ok. eapply base_parse_ok; exact EB.
Qed.

(* ------------------------------------------------------------------ assembled statements *)
Theorem parse_total_py_region du :
  (forall s a b, match du s a b with Ok _ | Raise E_ValueError | Raise E_ParserError | Raise E_OverflowError => True | Raise _ => False end) ->
  forall o s, py_parts_unmodelled s = false -> out_ok (parse_full du false o s).
Proof.
  intros H o s R. assert (H' : forall s a b, exn_in [E_ValueError; E_ParserError; E_OverflowError] (du s a b)).
  { intros s0 a b. specialize (H s0 a b). destruct (du s0 a b) as [|e]; [exact I|]. destruct e; try contradiction; simpl; auto. }
  pose proof (parse_total_py_all du H' o s R) as T. destruct (parse_full du false o s) as [|e]; [exact I|]. destruct e; exact T.
Qed.

(* the region is empty on texts without '/', and on the interval witnesses of the property (durations with years and months included) *)
Example py_parts_region_examples :
  py_parts_unmodelled [50;48;50;49;45;48;49;45;48;49;47;80;49;89;50;77;51;68;84;52;72;53;77;54;46;53;83] = false /\   (* 2021-01-01/P1Y2M3DT4H5M6.5S *)
  py_parts_unmodelled [80;49;89;47;50;48;50;49;45;48;49;45;48;49] = false /\                                           (* P1Y/2021-01-01 *)
  py_parts_unmodelled [80;49;46;53;87;47;50;48;50;49;45;48;49;45;48;49] = false.                                       (* P1.5W/2021-01-01 *)
Proof. vm_compute. repeat split; reflexivity. Qed.


(* ------------------------------------------------------------------ unconditional: the region is empty (py_parts never raises) *)
Lemma py_parts_unmodelled_never s : py_parts_unmodelled s = false.
Proof.
  unfold py_parts_unmodelled. destruct (interval_parse py_iso8601 s) as [f|]; [|reflexivity].
  destruct f as [a b|a d|d b]; try reflexivity.
  - destruct d as [| |x ob]; try reflexivity. destruct (py_parts_ok x ob) as [p ->]. reflexivity.
  - destruct d as [| |x ob]; try reflexivity. destruct (py_parts_ok x ob) as [p ->]. reflexivity.
Qed.

Theorem parse_total_py_full du :
  (forall s a b, match du s a b with Ok _ | Raise E_ValueError | Raise E_ParserError | Raise E_OverflowError => True | Raise _ => False end) ->
  forall o s, out_ok (parse_full du false o s).
Proof. intros H o s. apply (parse_total_py_region du H o s). apply py_parts_unmodelled_never. Qed.
