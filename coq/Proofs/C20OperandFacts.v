(* Proofs/C20OperandFacts.v — C20: timedelta SUBCLASS operands (Duration, AbsoluteDuration, Interval) of Time + / - /
   add_timedelta / subtract_timedelta.  Facts about Model/TimeOperand.v: the object is C09's / C10's model, its float
   normalisation is exact on the stated ranges (Proofs/FloatRoundTripC09.v, Proofs/FloatRoundTrip.v: Flocq), so the three accessors
   Time reads are integers determined by the timedelta value, and the guard + shift follow from Proofs/C20Facts.v. *)
From Coq Require Import ZArith List Bool Lia ZifyBool.
From Coq Require Import Floats.SpecFloat.
From PV Require Import Lib.PyBase Spec.Cal Spec.TdFloat Gen.Constants Model.Duration Model.DurationOps Model.TimeBase Gen.TimeArith
                       Model.TimeOfDay Model.TimeOperand Proofs.C09Facts Proofs.FloatRoundTripBase Proofs.FloatRoundTrip Proofs.FloatRoundTripC09 Proofs.C20Facts.
Import ListNotations.
Ltac Zify.zify_post_hook ::= Z.to_euclidean_division_equations.
Open Scope Z_scope.

(* ---------------------------------------------------------------- any triple of accessor values *)
Lemma wrap_congr t a b : (a - b) mod us_day = 0 -> wrap t a = wrap t b.
Proof. intros H. unfold wrap. f_equal. unfold us_day in *. lia. Qed.

(* days = 0 and |seconds * 10^6 + microseconds| inside 1969 years (here: below one day): the shift by that amount *)
Lemma presented_shift t p : valid_time t = true -> td_days p = 0 ->
  Z.abs (amount 0 0 (td_seconds p) (td_microseconds p)) <= us_day ->
  time_add_timedelta t p = Ok (wrap t (amount 0 0 (td_seconds p) (td_microseconds p))) /\
  time_subtract_timedelta t p = Ok (wrap t (- amount 0 0 (td_seconds p) (td_microseconds p))).
Proof.
  intros Hv Hd Ha.
  unfold time_add_timedelta, time_subtract_timedelta, py_Time_add_timedelta_args, py_Time_subtract_timedelta_args.
  rewrite Hd. cbn [Z.eqb negb bind].
  assert (epoch_wall >= us_day) by (unfold epoch_wall, us_day; lia).
  rewrite time_add_spec, time_subtract_spec.
  rewrite !shift_in_range_small by (auto; lia). auto.
Qed.

Lemma presented_rejected t p : td_days p <> 0 ->
  time_add_timedelta t p = Raise E_TypeError /\ time_subtract_timedelta t p = Raise E_TypeError.
Proof. apply timedelta_days_rejected. Qed.

(* ---------------------------------------------------------------- the integer skeleton of the sign-magnitude components *)
Lemma skeleton_amount R :
  amount 0 0 (secs_of R) (micro_of R) = R - days_of R * us_day /\ Z.abs (amount 0 0 (secs_of R) (micro_of R)) < us_day.
Proof.
  pose proof (skeleton_seconds R) as (S1 & S2 & S3 & S4 & S5). unfold amount, us_day.
  split; [lia|]. destruct (Z_le_gt_dec 0 R) as [P|P]; [specialize (S4 P) | specialize (S5 ltac:(lia))]; lia.
Qed.

Lemma days_of_zero_iff R : days_of R = 0 <-> Z.abs R < us_day.
Proof. unfold days_of, it_of, sgn1, us_day. destruct (R <? 0) eqn:E; lia. Qed.

Lemma native_ptd_days x : td_days (native_ptd x) = d_N x / us_day.
Proof. unfold native_ptd, td_norm. reflexivity. Qed.

(* ---------------------------------------------------------------- Duration *)
(* N: the native value (years * 365 + months * 30 days included); the decision is taken on ITS normal form, the shift uses the
   class's own sign-magnitude seconds / microseconds of R = N - (years, months part), which is N modulo 24 h *)
Lemma duration_operand days seconds us ms mi h w years months N t :
  valid_time t = true ->
  td_of_int_args (days + YM years months) seconds us ms mi h w = Ok N ->
  D9 N (YM years months * 86400) ->
  (0 <= N < us_day ->
     time_add_operand t 0 days seconds us ms mi h w years months = Ok (wrap t N) /\
     time_subtract_operand t 0 days seconds us ms mi h w years months = Ok (wrap t (- N))) /\
  (~ (0 <= N < us_day) ->
     time_add_operand t 0 days seconds us ms mi h w years months = Raise E_TypeError /\
     time_subtract_operand t 0 days seconds us ms mi h w years months = Raise E_TypeError).
Proof.
  intros Hv HN HD.
  destruct (duration_new_exact_proved _ _ _ _ _ _ _ _ _ _ HN HD) as [total E].
  unfold time_add_operand, time_subtract_operand, operand_new. cbn [Z.eqb Pos.eqb]. rewrite E. cbn [bind].
  set (x := exact_dur N total years months _).
  set (R := N - YM years months * 86400000000).
  assert (Pd : td_days (operand_present 0 x) = N / us_day) by (unfold operand_present; cbn [Z.eqb td_days]; apply native_ptd_days).
  assert (Ps : td_seconds (operand_present 0 x) = secs_of R) by reflexivity.
  assert (Pu : td_microseconds (operand_present 0 x) = micro_of R) by reflexivity.
  pose proof (skeleton_amount R) as [A1 A2].
  split; intros Hr.
  - assert (D0 : td_days (operand_present 0 x) = 0) by (rewrite Pd; unfold us_day in *; lia).
    destruct (presented_shift t _ Hv D0) as [Ea Es]; [rewrite Ps, Pu; lia|].
    rewrite Ea, Es, Ps, Pu, A1. split; f_equal; apply wrap_congr; unfold R, us_day; lia.
  - apply presented_rejected. rewrite Pd. unfold us_day in *. lia.
Qed.

(* ---------------------------------------------------------------- AbsoluteDuration *)
(* the native value excludes years / months and keeps its sign; the class's components are those of |N| *)
Lemma absolute_operand days seconds us ms mi h w years months x t :
  valid_time t = true ->
  absolute_duration_new days seconds us ms mi h w years months = Ok x -> Z.abs (d_N x) < B33 ->
  td_of_int_args days seconds us ms mi h w = Ok (d_N x) /\
  (0 <= d_N x < us_day ->
     time_add_operand t 1 days seconds us ms mi h w years months = Ok (wrap t (d_N x)) /\
     time_subtract_operand t 1 days seconds us ms mi h w years months = Ok (wrap t (- d_N x))) /\
  (~ (0 <= d_N x < us_day) ->
     time_add_operand t 1 days seconds us ms mi h w years months = Raise E_TypeError /\
     time_subtract_operand t 1 days seconds us ms mi h w years months = Raise E_TypeError).
Proof.
  intros Hv E Hb.
  destruct (absolute_duration_proved _ _ _ _ _ _ _ _ _ _ E Hb) as (HN & _ & _ & Hu & Hs & _).
  split; [exact HN|].
  unfold time_add_operand, time_subtract_operand, operand_new. cbn [Z.eqb Pos.eqb]. rewrite E. cbn [bind].
  set (N := d_N x) in *.
  assert (Pd : td_days (operand_present 1 x) = N / us_day) by (unfold operand_present; cbn [Z.eqb td_days]; apply native_ptd_days).
  assert (Ps : td_seconds (operand_present 1 x) = Z.abs N / 1000000 mod 86400) by (cbn; exact Hs).
  assert (Pu : td_microseconds (operand_present 1 x) = Z.abs N mod 1000000) by (cbn; exact Hu).
  split; intros Hr.
  - assert (D0 : td_days (operand_present 1 x) = 0) by (rewrite Pd; unfold us_day in *; lia).
    assert (A : amount 0 0 (td_seconds (operand_present 1 x)) (td_microseconds (operand_present 1 x)) = N)
      by (rewrite Ps, Pu; unfold amount, us_day in *; lia).
    destruct (presented_shift t _ Hv D0) as [Ea Es]; [rewrite A; unfold us_day in *; lia|].
    rewrite Ea, Es, A. auto.
  - apply presented_rejected. rewrite Pd. unfold us_day in *. lia.
Qed.

(* ---------------------------------------------------------------- Interval *)
(* Interval.__new__ = Duration.__new__(cls, seconds=(end - start).total_seconds()): exact below 2^33 s; Interval overrides
   days = _days (sign-magnitude), so the day component it presents is that of |span|: a NEGATIVE span shorter than a day is accepted
   and shifts backwards exactly (an equal plain timedelta, whose normal form has days = -1, is rejected: timedelta_days_rejected) *)
Lemma interval_new_exact delta : Z.abs delta < B33 ->
  exists total, interval_new delta = Ok (mkdur delta false total 0 0 (weeks_of delta) (days_of delta) (rdays_of delta) (secs_of delta) (micro_of delta) []).
Proof.
  intros Hb. unfold interval_new, dur_of_fsec, duration_new_fsec.
  rewrite td_us_roundtrip_exact by (change (2 ^ 33 * 10 ^ 6) with B33; exact Hb). cbn [bind].
  change (0 * DAYS_PER_Y + 0 * DAYS_PER_M) with 0. rewrite Z.mul_0_l, Z.add_0_r.
  assert (R : td_in_range delta = true) by (apply td_in_range_small; change (2 ^ 33 * 10 ^ 6) with B33; exact Hb).
  rewrite R.
  assert (HD : D9 delta 0) by (left; split; [reflexivity | exact Hb]).
  destruct (float_split_exact_on_D9_proved _ _ HD) as [total Ht].
  replace (delta - 0 * 1000000) with delta in Ht by lia.
  change (0 * C_SECONDS_PER_DAY) with 0. rewrite Ht. cbn [bind]. exists total. change C_SECONDS_PER_DAY with 86400.
  unfold weeks_of, rdays_of, days_of, secs_of. reflexivity.
Qed.

Lemma interval_operand delta a b c d e f g h t :
  valid_time t = true -> Z.abs delta < B33 ->
  (Z.abs delta < us_day ->
     time_add_operand t 2 delta a b c d e f g h = Ok (wrap t delta) /\
     time_subtract_operand t 2 delta a b c d e f g h = Ok (wrap t (- delta))) /\
  (us_day <= Z.abs delta ->
     time_add_operand t 2 delta a b c d e f g h = Raise E_TypeError /\
     time_subtract_operand t 2 delta a b c d e f g h = Raise E_TypeError).
Proof.
  intros Hv Hb. destruct (interval_new_exact delta Hb) as [total E].
  unfold time_add_operand, time_subtract_operand, operand_new. cbn [Z.eqb Pos.eqb]. rewrite E. cbn [bind].
  set (x := mkdur _ _ _ _ _ _ _ _ _ _ _).
  assert (Pd : td_days (operand_present 2 x) = days_of delta) by reflexivity.
  assert (Ps : td_seconds (operand_present 2 x) = secs_of delta) by reflexivity.
  assert (Pu : td_microseconds (operand_present 2 x) = micro_of delta) by reflexivity.
  pose proof (skeleton_amount delta) as [A1 A2]. pose proof (days_of_zero_iff delta) as Dz.
  split; intros Hr.
  - assert (D0 : td_days (operand_present 2 x) = 0) by (rewrite Pd; apply Dz; exact Hr).
    destruct (presented_shift t _ Hv D0) as [Ea Es]; [rewrite Ps, Pu; lia|].
    rewrite Ea, Es, Ps, Pu, A1. rewrite Pd in D0. rewrite D0. split; f_equal; f_equal; lia.
  - apply presented_rejected. rewrite Pd. intro Z0. apply Dz in Z0. lia.
Qed.

(* the two readings side by side: the same negative sub-day value as an Interval and as a plain timedelta *)
Example negative_subday_interval_vs_timedelta :
  time_add_operand (mkT 12 0 0 5) 2 (-3600000000) 0 0 0 0 0 0 0 0 = Ok (mkT 11 0 0 5) /\
  time_add_timedelta (mkT 12 0 0 5) (td_of_total (-3600000000)) = Raise E_TypeError /\
  time_add_operand (mkT 12 0 0 5) 0 0 0 0 0 0 (-1) 0 0 0 = Raise E_TypeError.
Proof. repeat split; vm_compute; reflexivity. Qed.

Example operand_examples :
  time_add_operand (mkT 0 0 0 0) 0 1 0 0 0 0 2 0 0 0 = Raise E_TypeError /\          (* Duration(days=1, hours=2) *)
  time_subtract_operand (mkT 0 0 0 0) 0 0 0 0 0 0 0 1 0 0 = Raise E_TypeError /\     (* Duration(weeks=1) *)
  time_add_operand (mkT 0 0 0 0) 0 0 0 0 0 0 25 0 0 0 = Raise E_TypeError /\         (* Duration(hours=25) *)
  time_add_operand (mkT 0 0 0 0) 0 0 0 0 0 0 0 0 1 0 = Raise E_TypeError /\          (* Duration(years=1) *)
  time_add_operand (mkT 12 0 0 5) 0 (-365) 0 5 0 0 2 0 1 0 = Ok (mkT 14 0 0 10) /\   (* Duration(years=1, days=-365, hours=2, microseconds=5) *)
  time_add_operand (mkT 23 0 0 0) 1 0 0 0 0 0 1 0 1 0 = Ok (mkT 0 0 0 0) /\          (* AbsoluteDuration(years=1, hours=1) *)
  time_add_operand (mkT 0 0 0 0) 1 0 0 0 0 0 (-1) 0 0 0 = Raise E_TypeError.         (* AbsoluteDuration(hours=-1): native days = -1 *)
Proof. repeat split; vm_compute; reflexivity. Qed.

Example duration_operand_hypotheses_satisfiable :
  td_of_int_args (-365 + YM 1 0) 0 5 0 0 2 0 = Ok 7200000005 /\ D9 7200000005 (YM 1 0 * 86400) /\ 0 <= 7200000005 < us_day.
Proof. unfold D9, B32, B33, YM, us_day. repeat split; try reflexivity; lia. Qed.
