(* Proofs/DurParsePyFacts.v — C13: the hand model of the pure-Python duration parser IS the code.  Gen/DurParsePy.v (the post-match code of
   _parse_iso8601_duration translated from /repo on every run by tools/vlib/pyfloat2gallina.py + gens/g53_dur_parse_py.py) equals
   `py_args` followed by `duration_native` (Model/DurParse.v: what py_native does after the match) for EVERY match record — proved here for
   every record whose weeks group has no fraction (week_frac_free); for a fractional week the translation keeps CPython's float `// 1`, `% 1`
   and int() (Spec/TdFloat) where the hand model writes trunc / x - trunc x: that equality needs a rounding argument and is not proved here
   (the branch is the known finding py-week-frac; the correspondence run ties it).  No axioms. *)
From Coq Require Import ZArith List Bool Lia.
From Coq Require Import Floats.SpecFloat.
From PV Require Import Lib.PyBase Gen.Constants Model.DurParse Model.DurParsePrims Gen.DurParsePy.
Import ListNotations.
Open Scope Z_scope.

Lemma bind_ok' {A} (r : result A) : bind r (fun x => Ok x) = r.
Proof. destruct r; reflexivity. Qed.

Lemma bind_assoc {A B C} (r : result A) (f : A -> result B) (g : B -> result C) :
  bind (bind r f) g = bind r (fun x => bind (f x) g).
Proof. destruct r; reflexivity. Qed.

Definition week_frac_free (m : dmatch) : Prop := match g_weeks m with Some t => t_frac t = None | None => True end.

(* what py_native does once the match succeeded *)
Definition py_native_of_match (m : dmatch) : result (Z * durobs) :=
  bind (py_args m) (fun a =>
    duration_native (a_years a) (a_months a) (a_weeks a) (a_days a) (a_hours a) (a_minutes a) (a_seconds a) (a_us a)).

Lemma py_native_unfold : forall s, py_native s = match match_duration s with None => Raise E_ValueError | Some m => py_native_of_match m end.
Proof. reflexivity. Qed.

Ltac step :=
  first
  [ progress cbn [bind tok_start t_start t_frac t_int is_some orb negb andb g_weeks g_years g_months g_days g_hms g_hours g_minutes g_seconds
                  a_years a_months a_weeks a_days a_hours a_minutes a_seconds a_us num_add_int fst snd]
  | progress change (py_float_of_int_c 0) with (Ok (f_of_Z 0) : result spec_float)
  | match goal with
    | |- context [match int_truediv ?a ?b with _ => _ end] => destruct (int_truediv a b)
    | |- context [if ?c then _ else _] => destruct c
    end ].

Ltac crush := unfold py_frac10, py_int_truediv_c, num_add_float; repeat step; rewrite ?bind_ok'; try reflexivity.

Theorem gen_parse_eq : forall m, week_frac_free m -> gen_parse_iso8601_duration m = py_native_of_match m.
Proof.
  intros [w y mo d hms h mi s] Hw. unfold week_frac_free in Hw. cbn [g_weeks] in Hw.
  unfold gen_parse_iso8601_duration, py_native_of_match, py_args. cbv zeta.
  cbn [g_weeks g_years g_months g_days g_hms g_hours g_minutes g_seconds].
  rewrite bind_assoc.
  match goal with |- bind ?A ?K = bind ?B ?K' => set (K1g := K); set (K1h := K'); assert (E1 : A = B) end.
  { destruct w as [[wi wf ws]|]; [|reflexivity]. cbn [t_frac] in Hw. subst wf. crush. }
  rewrite E1. clear E1.
  assert (H2 : forall wk d0 h0, K1g (wk, d0, h0) = K1h (wk, d0, h0)).
  { intros wk d0 h0. subst K1g K1h. cbv beta iota. rewrite bind_assoc.
    match goal with |- bind _ ?K = bind _ ?K' => set (K2g := K); set (K2h := K') end.
    assert (H3 : forall yy mm fr dd hh, K2g (yy, mm, fr, dd, hh) = K2h (yy, mm, dd, hh, fr)).
    { intros yy mm fr dd hh. subst K2g K2h. cbv beta iota.
      destruct hms; [|crush].
      destruct h as [[hi [hf|] hs]|]; destruct mi as [[mii [mif|] mis]|]; destruct s as [[si [sf|] ss]|]; crush. }
    clearbody K2g K2h.
    destruct y as [[yi [yf|] ys]|]; destruct mo as [[moi [mof|] mos]|]; destruct d as [[di [df|] dst]|]; crush; apply H3. }
  destruct (match w with Some _ => _ | None => _ end) as [[[wk d0] h0]|e]; [|reflexivity]. cbn [bind]. apply H2.
Qed.

Print Assumptions gen_parse_eq.

(* through the hand matcher (= the executed regex, Proofs/C13Regex.v): the whole pure-Python pipeline inside the try block *)
Theorem py_native_is_code : forall s m, match_duration s = Some m -> week_frac_free m ->
  py_native s = gen_parse_iso8601_duration m.
Proof. intros s m Hm Hw. rewrite py_native_unfold, Hm. symmetry. apply gen_parse_eq. exact Hw. Qed.

Definition the_match (s : list Z) : dmatch :=
  match match_duration s with Some m => m | None => mk_dmatch None None None None false None None None end.

(* fractional weeks: equal on these witnesses by kernel computation ("P1.1W", "P0.5W", "P12,3W", "P1.25W", "P007.9W") *)
Lemma week_fraction_instances :
  Forall (fun s => match_duration s <> None /\ ~ week_frac_free (the_match s)
                   /\ gen_parse_iso8601_duration (the_match s) = py_native_of_match (the_match s) /\ py_native s = py_native_of_match (the_match s))
         [[80; 49; 46; 49; 87]; [80; 48; 46; 53; 87]; [80; 49; 50; 44; 51; 87]; [80; 49; 46; 50; 53; 87]; [80; 48; 48; 55; 46; 57; 87]].
Proof. repeat constructor; try (vm_compute; discriminate); vm_compute; reflexivity. Qed.

(* the hypothesis is satisfiable: "P1Y2M3DT4H5M6.5S", "P1.5D", "PT0,25H", "P3W" *)
Lemma week_frac_free_instances :
  Forall (fun s => match_duration s <> None /\ week_frac_free (the_match s))
         [[80; 49; 89; 50; 77; 51; 68; 84; 52; 72; 53; 77; 54; 46; 53; 83]; [80; 49; 46; 53; 68]; [80; 84; 48; 44; 50; 53; 72]; [80; 51; 87]].
Proof. repeat constructor; try (vm_compute; discriminate); vm_compute; trivial. Qed.

Print Assumptions py_native_is_code.

(* ------------------------------------------------------------------ with a FRACTIONAL week (Flocq: Proofs/DurParseWeekCarry.v) *)
From PV Require Import Proofs.DurParseWeekCarry.

(* the fraction digits of the weeks group, if any, are below 10^15 (at most 15 digits: beyond, int(portion)/10*7 leaves the range in which
   the float carry is proved; no bound on anything else) *)
Definition week_frac_small (m : dmatch) : Prop :=
  match g_weeks m with Some t => match t_frac t with Some p => dval p < 10 ^ 15 | None => True end | None => True end.

Lemma bind_ok3 {A B C} (r : result (A * B * C)) : bind r (fun '(a, b, c) => Ok (a, b, c)) = r.
Proof. destruct r as [[[a b] c]|e]; reflexivity. Qed.

Theorem gen_parse_eq_week : forall m, week_frac_small m -> gen_parse_iso8601_duration m = py_native_of_match m.
Proof.
  intros m Hs. destruct (g_weeks m) as [[wi [wf|] ws]|] eqn:Ew.
  2, 3: apply gen_parse_eq; unfold week_frac_free; rewrite Ew; exact I || reflexivity.
  destruct m as [w y mo d hms h mi s]. cbn [g_weeks] in Ew. subst w. unfold week_frac_small in Hs. cbn [g_weeks t_frac] in Hs.
  unfold gen_parse_iso8601_duration, py_native_of_match, py_args. cbv zeta.
  cbn [g_weeks g_years g_months g_days g_hms g_hours g_minutes g_seconds].
  rewrite bind_assoc.
  match goal with |- bind ?A ?K = bind ?B ?K' => set (K1g := K); set (K1h := K'); assert (E1 : A = B) end.
  { cbn [is_some t_frac t_int bind]. destruct (is_some y || is_some mo || is_some d || hms); [reflexivity|].
    rewrite bind_ok3. apply week_stage. exact Hs. }
  rewrite E1. clear E1.
  assert (H2 : forall wk d0 h0, K1g (wk, d0, h0) = K1h (wk, d0, h0)).
  { intros wk d0 h0. subst K1g K1h. cbv beta iota. rewrite bind_assoc.
    match goal with |- bind _ ?K = bind _ ?K' => set (K2g := K); set (K2h := K') end.
    assert (H3 : forall yy mm fr dd hh, K2g (yy, mm, fr, dd, hh) = K2h (yy, mm, dd, hh, fr)).
    { intros yy mm fr dd hh. subst K2g K2h. cbv beta iota.
      destruct hms; [|crush].
      destruct h as [[hi [hf|] hs]|]; destruct mi as [[mii [mif|] mis]|]; destruct s as [[si [sf|] ss]|]; crush. }
    clearbody K2g K2h.
    destruct y as [[yi [yf|] ys]|]; destruct mo as [[moi [mof|] mos]|]; destruct d as [[di [df|] dst]|]; crush; apply H3. }
  match goal with |- bind ?X _ = _ => destruct X as [[[wk d0] h0]|e]; [|reflexivity] end. cbn [bind]. apply H2.
Qed.

(* every match record the regular expression can produce on a text whose week fraction has at most 15 digits *)
Theorem py_native_is_code_week : forall s m, match_duration s = Some m -> week_frac_small m ->
  py_native s = gen_parse_iso8601_duration m.
Proof. intros s m Hm Hw. rewrite py_native_unfold, Hm. symmetry. apply gen_parse_eq_week. exact Hw. Qed.

Lemma week_frac_free_small : forall m, week_frac_free m -> week_frac_small m.
Proof. intros m H. unfold week_frac_free, week_frac_small in *. destruct (g_weeks m) as [t|]; [rewrite H|]; exact I. Qed.

Print Assumptions gen_parse_eq_week.
