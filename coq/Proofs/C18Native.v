(* Proofs/C18Native.v (C18) — facts about Model/DiffHumansNative.v: differences whose operands are handed in as native values.
   - transparency: when Interval.__new__ (values as given) and Interval.__init__ (after pendulum.instance) order the pair the same way,
     the difference is the one of the pendulum values themselves (diff_comps of Model/DiffHumans.v) — in particular whenever the two
     values carry different tzinfo objects in both views, or equal offsets;
   - where they do not (a pendulum value and a native value in ONE zone inside a repeated hour: by instant in __new__, by wall clock in
     __init__) the elapsed Duration has the other sign: witness, listed finding same-tzinfo-wall-order;
   - a naive pendulum DateTime against a naive native datetime raises TypeError (pendulum.instance makes the native one aware, UTC):
     listed finding native-naive-operand; with comparable operands the compiled route is total;
   - a native operand in another zone, three hours apart: both backends say 3 hours (the datetime-subclass instance handed to
     precise_diff is read with its own UTC offset);
   - totality of the phrase. *)
From Coq Require Import ZArith List Bool String Lia ZifyBool.
From PV Require Import Lib.PyBase Spec.Cal Model.PdBase Gen.PreciseDiff Model.RustPreciseDiff Model.PdInterval.
From PV Require Import Model.LocaleBase Gen.Locales Model.DiffFormat Model.DiffHumans Model.DiffHumansNative Proofs.C18Facts Proofs.C18Diff.
Import ListNotations.
Open Scope Z_scope.

(* ---- transparency *)
Lemma native_transparent_lemma rs a0 b0 a b :
  p_comparable a b = true -> p_gtb a0 b0 = p_gtb a b ->
  iv_elapsed a0 b0 = iv_elapsed a b -> iv_elapsed b0 a0 = iv_elapsed b a ->
  diff_comps_native rs true a0 b0 a b = diff_comps rs a b.
Proof.
  intros Hc Hg H1 H2. unfold diff_comps_native, interval_native, diff_comps, comp_of_ivc. rewrite Hc. cbn [negb andb]. cbv zeta.
  rewrite Hg, H1, H2.
  destruct (p_gtb a b); cbn [andb]; destruct (pd_backend rs _ _); cbn [bind fst snd]; reflexivity.
Qed.

(* the view of Interval.__new__ differs from the one of __init__ in the tzinfo OBJECT only (aware native values) *)
Lemma as_given_elapsed a b ja jb : iv_elapsed (as_given a (p_has_tz a) ja) (as_given b (p_has_tz b) jb) = iv_elapsed a b.
Proof. destruct a, b. reflexivity. Qed.

Lemma as_given_gtb a b ja jb :
  p_aware a = true -> p_aware b = true ->
  ((p_tzobj a <> p_tzobj b /\ ja <> jb) \/ p_offset a = p_offset b) ->
  p_gtb (as_given a (p_has_tz a) ja) (as_given b (p_has_tz b) jb) = p_gtb a b.
Proof.
  destruct a as [y1 m1 d1 h1 i1 s1 u1 o1 t1 n1 k1 dt1], b as [y2 m2 d2 h2 i2 s2 u2 o2 t2 n2 k2 dt2].
  unfold p_aware, as_given, p_gtb, p_key, p_aware, p_instant, p_wall. cbn [p_is_dt p_has_tz p_tzobj p_offset p_year p_month p_day p_hour p_minute p_second p_microsecond].
  intros Ha Hb Hreg.
  destruct dt1; [| discriminate]. destruct dt2; [| discriminate]. cbn [andb] in Ha, Hb. subst t1 t2. cbn [negb andb].
  destruct Hreg as [[Hk Hj] | Ho].
  - destruct (k1 =? k2) eqn:E1; [apply Z.eqb_eq in E1; contradiction |].
    destruct (ja =? jb) eqn:E2; [apply Z.eqb_eq in E2; contradiction |]. reflexivity.
  - subst o2. destruct (k1 =? k2), (ja =? jb); cbn [negb]; try reflexivity;
      rewrite !Z.gtb_ltb; apply Bool.eq_true_iff_eq; rewrite !Z.ltb_lt; lia.
Qed.

Lemma native_aware_transparent_lemma rs a b ja jb :
  p_aware a = true -> p_aware b = true ->
  ((p_tzobj a <> p_tzobj b /\ ja <> jb) \/ p_offset a = p_offset b) ->
  diff_comps_native rs true (as_given a (p_has_tz a) ja) (as_given b (p_has_tz b) jb) a b = diff_comps rs a b.
Proof.
  intros Ha Hb Hreg. apply native_transparent_lemma.
  - unfold p_comparable. rewrite Ha, Hb.
    unfold p_aware in Ha, Hb. destruct (p_is_dt a); [| discriminate]. destruct (p_is_dt b); [| discriminate]. reflexivity.
  - apply as_given_gtb; assumption.
  - apply as_given_elapsed.
  - apply as_given_elapsed.
Qed.

(* ---- witnesses.  tz name / object ids: 1 Europe/Paris (pendulum's Timezone), 101 the ZoneInfo object of a native value, 2 UTC, 4 Asia/Tokyo *)
(* 2024-05-10 12:00+02:00 (pendulum) and 15:00+02:00 given as a stdlib datetime with ZoneInfo("Europe/Paris"): the seed-demo pair *)
Definition n_paris_1200 := mkpdt 2024 5 10 12 0 0 0 7200 true 1 1 true.
Definition n_paris_1500 := mkpdt 2024 5 10 15 0 0 0 7200 true 1 1 true.
(* 21:00+09:00 Tokyo and 08:45-04:00 New York, both native: 45 minutes *)
Definition n_tokyo_2100 := mkpdt 2024 5 10 21 0 0 0 32400 true 4 4 true.
Definition n_ny_0845 := mkpdt 2024 5 10 8 45 0 0 (-14400) true 3 3 true.

Lemma native_reference_three_hours_lemma :
  let a := n_paris_1200 in let b := n_paris_1500 in let b0 := as_given b true 101 in
  diff_comps_native false true a b0 a b = Ok (mkcomp 0 0 0 0 3 0 0, false) /\
  diff_comps_native true true a b0 a b = Ok (mkcomp 0 0 0 0 3 0 0, false) /\
  diff_comps_native false true b0 a b a = Ok (mkcomp 0 0 0 0 3 0 0, true) /\
  diff_comps_native true true b0 a b a = Ok (mkcomp 0 0 0 0 3 0 0, true) /\
  (let x := n_tokyo_2100 in let y := n_ny_0845 in
   diff_comps_native false false (as_given x true 104) (as_given y true 103) x y = Ok (mkcomp 0 0 0 0 0 45 0, false) /\
   diff_comps_native true false (as_given x true 104) (as_given y true 103) x y = Ok (mkcomp 0 0 0 0 0 45 0, false)).
Proof. vm_compute. repeat split; reflexivity. Qed.

(* inside the repeated hour of 2012-10-28 in Paris: 02:45:00 first occurrence (pendulum) and, 1807 s later, 02:15:07 second occurrence.
   Both pendulum values: __new__ and __init__ agree on the (wall-clock) order, the elapsed Duration is negative.  The reference given
   as a native value: __new__ orders by instant, __init__ by wall clock — invert is still true but remaining_seconds is +7, not -7. *)
Definition n_paris_021507_second := mkpdt 2012 10 28 2 15 7 0 3600 true 1 1 true.
Lemma native_not_transparent_refuted_lemma : exists a b jb c1 c2,
  p_instant b - p_instant a = 1807 * 1000000 /\
  diff_comps true a b = Ok (c1, true) /\
  diff_comps_native true true a (as_given b true jb) a b = Ok (c2, true) /\ c_rsecs c1 = -7 /\ c_rsecs c2 = 7.
Proof.
  exists w_paris_0245_first, n_paris_021507_second, 101.
  eexists. eexists. vm_compute. repeat split; reflexivity.
Qed.

(* ---- a naive pendulum DateTime against a naive native datetime: TypeError (finding native-naive-operand) *)
Definition n_naive_1000 := mkpdt 2020 1 1 10 0 0 0 0 false 0 0 true.
Definition n_naive_1300_as_instance := mkpdt 2020 1 1 13 0 0 0 0 true 2 2 true.    (* pendulum.instance(datetime(2020,1,1,13)): UTC *)
Lemma native_naive_reference_refuted_lemma : exists a b0 b, forall rs iv_abs,
  p_aware a = false /\ p_aware b0 = false /\ p_wall b0 = p_wall b /\
  diff_comps_native rs iv_abs a b0 a b = Raise E_TypeError.
Proof.
  exists n_naive_1000, (as_given n_naive_1300_as_instance false 0), n_naive_1300_as_instance.
  intros rs iv_abs. repeat split.
Qed.

(* ... and it is the only way a native pair fails with the compiled helper: comparable operands always give a difference *)
Lemma native_total_partial_lemma iv_abs a0 b0 a b : p_comparable a b = true ->
  exists ci, diff_comps_native true iv_abs a0 b0 a b = Ok ci.
Proof.
  intro Hc. unfold diff_comps_native, interval_native, pd_backend. rewrite Hc. cbn [negb]. cbv zeta. cbn [bind]. eexists. reflexivity.
Qed.

Lemma native_raises_only_type_error rs iv_abs a0 b0 a b : p_comparable a b = false ->
  diff_comps_native rs iv_abs a0 b0 a b = Raise E_TypeError.
Proof. intro Hc. unfold diff_comps_native, interval_native. rewrite Hc. reflexivity. Qed.

(* both naive natives (pendulum.interval(n1, n2)): both become UTC values, the pair is comparable *)
Example native_hypotheses_satisfiable :
  p_comparable n_paris_1200 n_paris_1500 = true /\ p_aware n_paris_1200 = true /\ p_tzobj n_paris_1200 = p_tzobj n_paris_1500 /\
  p_offset n_paris_1200 = p_offset n_paris_1500.
Proof. repeat split. Qed.

(* ---- the phrase and the words: total whenever the difference exists *)
Lemma format_diff_native_total_lemma L rs iv_abs a0 b0 a b absolute ci : In L all_locales ->
  diff_comps_native rs iv_abs a0 b0 a b = Ok ci ->
  exists s, format_diff_native L rs iv_abs a0 b0 a b absolute = Ok s /\ s <> [] /\ brace_free s.
Proof.
  intros HL H. unfold format_diff_native. rewrite H. cbn [bind]. apply format_total_lemma. exact HL.
Qed.

(* direction: invert is the order of the values Interval.__init__ keeps *)
Lemma native_invert_is_gtb rs iv_abs a0 b0 a b c inv : diff_comps_native rs iv_abs a0 b0 a b = Ok (c, inv) -> inv = p_gtb a b.
Proof.
  unfold diff_comps_native, interval_native. destruct (negb (p_comparable a b)); cbn [bind]; [discriminate |]. cbv zeta.
  destruct (pd_backend rs _ _); cbn [bind fst snd]; intro H; inversion H. reflexivity.
Qed.
