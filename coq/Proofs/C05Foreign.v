(* Proofs/C05Foreign.v — the length of an Interval does not depend on WHAT KIND of tzinfo object its endpoints carry
   (a pendulum Timezone / FixedTimezone, zoneinfo.ZoneInfo, datetime.timezone, a hand-written tzinfo subclass, dateutil ...):
   the model reads a tzinfo object only through (1) `is None`, (2) `is` between the two endpoints and (3) utcoffset() at the endpoint.
   Re-labelling the objects (any other identities, hence any other classes) under which (1), (2), (3) are unchanged leaves every
   observable of the Interval unchanged; in particular an endpoint carrying a foreign tzinfo is never read as naive. *)
From Coq Require Import ZArith List Bool Lia.
From PV Require Import Lib.PyBase Spec.Cal Spec.Zone Spec.TdFloat Model.Duration Model.TzConvert Model.IntervalLen.
Import ListNotations.
Open Scope Z_scope.

(* a' is a with another tzinfo OBJECT (identity, cached counterpart, class) that has the same utcoffset() rules *)
Definition relabelled (a a' : ep) : Prop :=
  e_dt a' = e_dt a /\ e_native a' = e_native a /\ e_zone a' = e_zone a /\ e_W a' = e_W a /\ e_fold a' = e_fold a /\ aware a' = aware a.

Lemma same_tz_sym : forall a b, same_tz a b = same_tz b a.
Proof. intros; unfold same_tz; apply Z.eqb_sym. Qed.

Lemma ep_inst_relabel : forall a a', relabelled a a' -> ep_inst a' = ep_inst a.
Proof. intros a a' (_ & _ & Hz & Hw & Hf & Ha); unfold ep_inst; rewrite Ha, Hz, Hw, Hf; reflexivity. Qed.

Lemma utc_naive_relabel : forall a a', relabelled a a' -> utc_naive a' = utc_naive a.
Proof. intros a a' (_ & _ & Hz & Hw & Hf & _); unfold utc_naive; rewrite Hz, Hw, Hf; reflexivity. Qed.

Lemma py_gt_relabel : forall a b a' b', relabelled a a' -> relabelled b b' -> same_tz a' b' = same_tz a b -> py_gt a' b' = py_gt a b.
Proof.
  intros a b a' b' Ra Rb Hs; unfold py_gt.
  rewrite (ep_inst_relabel _ _ Ra), (ep_inst_relabel _ _ Rb), Hs.
  destruct Ra as (Hd & _ & _ & Hw & _ & Ha); destruct Rb as (_ & _ & _ & Hw' & _ & Hb).
  rewrite Hd, Hw, Hw', Ha, Hb; reflexivity.
Qed.

Lemma native_delta_relabel : forall a b a' b', relabelled a a' -> relabelled b b' -> same_tz a' b' = same_tz a b ->
  native_delta a' b' = native_delta a b.
Proof.
  intros a b a' b' Ra Rb Hs; unfold native_delta.
  rewrite (ep_inst_relabel _ _ Ra), (ep_inst_relabel _ _ Rb), (utc_naive_relabel _ _ Ra), (utc_naive_relabel _ _ Rb), Hs.
  destruct Ra as (Hd & _ & _ & Hw & _ & Ha); destruct Rb as (_ & _ & _ & Hw' & _ & _).
  rewrite Hd, Hw, Hw', Ha; reflexivity.
Qed.

Lemma new_delta_relabel : forall a b a' b' absolute, relabelled a a' -> relabelled b b' -> same_tz a' b' = same_tz a b ->
  interval_new_delta a' b' absolute = interval_new_delta a b absolute.
Proof.
  intros a b a' b' ab Ra Rb Hs; unfold interval_new_delta.
  rewrite (py_gt_relabel _ _ _ _ Ra Rb Hs), (native_delta_relabel _ _ _ _ Ra Rb Hs).
  assert (Hs' : same_tz b' a' = same_tz b a) by (rewrite (same_tz_sym b' a'), (same_tz_sym b a); exact Hs).
  rewrite (native_delta_relabel _ _ _ _ Rb Ra Hs').
  destruct Ra as (Hd & _ & _ & _ & _ & Ha); destruct Rb as (Hd' & _ & _ & _ & _ & Hb).
  rewrite Hd, Hd', Ha, Hb; reflexivity.
Qed.

(* what is observed of an Interval (native microseconds, in_seconds, in_minutes, in_hours, invert) only reads the Duration part and the flag *)
Lemma observe_dur_inv : forall i j, i_dur i = i_dur j -> i_invert i = i_invert j -> ival_observe i = ival_observe j.
Proof. intros i j H1 H2; unfold ival_observe; rewrite H1, H2; reflexivity. Qed.

Lemma make_observe_relabel : forall a b a' b' absolute,
  e_native a = false -> e_native b = false ->
  relabelled a a' -> relabelled b b' -> same_tz a' b' = same_tz a b ->
  bind (interval_make a' b' absolute) ival_observe = bind (interval_make a b absolute) ival_observe.
Proof.
  intros a b a' b' ab Na Nb Ra Rb Hs; unfold interval_make.
  rewrite (new_delta_relabel _ _ _ _ ab Ra Rb Hs).
  destruct (interval_new_delta a b ab) as [D | e]; [| reflexivity]; cbn [bind].
  destruct (duration_of_float_seconds (total_seconds D)) as [d | e]; [| reflexivity]; cbn [bind].
  assert (Na' : e_native a' = false) by (destruct Ra as (_ & H & _); rewrite H; exact Na).
  assert (Nb' : e_native b' = false) by (destruct Rb as (_ & H & _); rewrite H; exact Nb).
  unfold instance_ep; rewrite Na, Nb, Na', Nb'; cbn [negb bind].
  rewrite (py_gt_relabel _ _ _ _ Ra Rb Hs).
  destruct (py_gt a b) as [inv | e]; [| reflexivity]; cbn [bind].
  destruct (inv && ab); cbn [bind]; apply observe_dur_inv; reflexivity.
Qed.

(* the instance a seeded change of the class "the rebuilt endpoint loses its foreign tzinfo" violates: with two aware endpoints that share one
   (foreign or not) tzinfo object the delta is the difference of the UTC instants, NOT of the wall values, whenever the offsets differ *)
Lemma shared_object_delta_is_not_wall_difference : forall a b D, e_dt a = true -> e_dt b = true -> aware a = true -> aware b = true ->
  same_tz a b = true -> interval_new_delta a b false = Ok D ->
  D = (e_W b - e_W a) - (( e_W b - inst (e_zone b) (e_W b) (e_fold b)) - (e_W a - inst (e_zone a) (e_W a) (e_fold a))).
Proof.
  intros a b D Da Db Aa Ab Hs H; unfold interval_new_delta in H.
  rewrite Da, Db, Aa, Ab in H; cbn in H. unfold native_delta in H; rewrite Da, Hs, Aa in H; cbn [negb] in H.
  unfold utc_naive in H.
  destruct (wall_in_range (inst (e_zone a) (e_W a) (e_fold a))); [| discriminate]; cbn [bind] in H.
  destruct (wall_in_range (inst (e_zone b) (e_W b) (e_fold b))); [| discriminate]; cbn [bind] in H.
  inversion H; lia.
Qed.

(* the hypotheses are satisfiable with two DIFFERENT object identities on each side (e.g. 10 = the cached pendulum zone, 77 = a ZoneInfo object) *)
Example relabelled_example :
  let a := mkep true false 10 10 false (fixed_zone 3600) 63000000000000000 false in
  let a' := mkep true false 77 0 false (fixed_zone 3600) 63000000000000000 false in
  relabelled a a' /\ same_tz a' a' = same_tz a a.
Proof. cbv [relabelled]; repeat split. Qed.
