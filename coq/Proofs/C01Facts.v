(* Proofs/C01Facts.v — timezone conversion preserves the instant and matches the tz database (every wf zone, every instant). *)
From Coq Require Import ZArith List Bool Lia ZifyBool.
From PV Require Import Lib.PyBase Spec.Cal Spec.Zone Proofs.CalFacts Proofs.ZoneFacts Model.TzConvert.
Import ListNotations.
Ltac Zify.zify_post_hook ::= Z.to_euclidean_division_equations.
Open Scope Z_scope.

Lemma astz_ok z1 z2 W f W' f' : astz z1 z2 W f = Ok (W', f') ->
  (W', f') = render z2 (inst z1 W f) /\ wall_in_range (inst z1 W f) = true /\ wall_in_range W' = true.
Proof.
  unfold astz. destruct (wall_in_range (inst z1 W f)) eqn:E; cbn [negb]; [|discriminate].
  destruct (render z2 (inst z1 W f)) as [W2 f2]. destruct (wall_in_range W2) eqn:E2; [|discriminate].
  intros H. assert (W' = W2) by congruence. assert (f' = f2) by congruence. subst. auto.
Qed.

(* same instant; the local fields, offset and fold are the database's for that instant *)
Lemma in_tz_spec z1 z2 W f W' f' : wf_zone z2 = true -> astz z1 z2 W f = Ok (W', f') ->
  inst z2 W' f' = inst z1 W f /\
  W' = inst z1 W f + MEG * off_utc z2 (inst z1 W f / MEG) /\ f' = fold_utc z2 (inst z1 W f / MEG).
Proof.
  intros Hwf H. destruct (astz_ok _ _ _ _ _ _ H) as [E _].
  pose proof (render_inst z2 (inst z1 W f) Hwf) as R. rewrite <- E in R.
  unfold render in E. split; [exact R|]. split; congruence.
Qed.

(* A -> B -> C equals A -> C *)
Lemma in_tz_chain z1 z2 z3 W f W2 f2 : wf_zone z2 = true -> astz z1 z2 W f = Ok (W2, f2) ->
  astz z2 z3 W2 f2 = astz z1 z3 W f.
Proof.
  intros Hwf H. destruct (in_tz_spec _ _ _ _ _ _ Hwf H) as [Hi _]. destruct (astz_ok _ _ _ _ _ _ H) as [_ [Hr _]].
  unfold astz. rewrite Hi. reflexivity.
Qed.

(* nothing is ever wrapped: outside years 1..9999 the conversion raises *)
Lemma astz_out_of_range z1 z2 W f : wall_in_range (inst z1 W f) = false -> astz z1 z2 W f = Raise E_OverflowError.
Proof. intros H. unfold astz. rewrite H. reflexivity. Qed.

(* int_timestamp inverts from_timestamp for every integer second, every zone *)
Lemma from_timestamp_roundtrip z n W f : wf_zone z = true -> from_timestamp_int z false n = Ok (W, f) -> int_timestamp z W f = n.
Proof.
  intros Hwf H. unfold from_timestamp_int in H.
  destruct (wall_in_range (EPOCH_US + n * MEG)) eqn:E; cbn [negb] in H; [|discriminate].
  unfold in_tz in H. destruct (in_tz_spec _ _ _ _ _ _ Hwf H) as [Hi _].
  unfold int_timestamp. rewrite Hi. unfold inst. rewrite fixed_zone_local. unfold MEG. lia.
Qed.

Lemma from_timestamp_utc_obj n W f : from_timestamp_int (fixed_zone 0) true n = Ok (W, f) -> int_timestamp (fixed_zone 0) W f = n.
Proof.
  unfold from_timestamp_int, in_tz. destruct (wall_in_range (EPOCH_US + n * MEG)); cbn [negb]; [|discriminate].
  intros H. assert (W = EPOCH_US + n * MEG) by congruence. subst. unfold int_timestamp, inst. rewrite fixed_zone_local. unfold MEG. lia.
Qed.

(* instance(): re-reading the wall fields of an aware native datetime in the pendulum zone of the same name keeps the instant
   exactly when the source's utcoffset is the one the zone assigns to (wall, fold) and the wall time is not skipped *)
Lemma instance_instant z W sf src_off W' f' : wf_zone z = true ->
  src_off = off_local z (sec W) sf -> ~ wall_skipped z (sec W) ->
  convert_naive z W sf false = Ok (W', f') -> inst z W' f' = W - MEG * src_off.
Proof.
  intros Hwf Hs Hn H. unfold convert_naive in H. unfold wall_skipped in Hn.
  destruct (off_local z (sec W) true >? off_local z (sec W) false) eqn:E; [lia|].
  rewrite andb_false_r in H. assert (W' = W) by congruence. assert (f' = sf) by congruence. subst.
  unfold inst, sec. reflexivity.
Qed.

(* pytz represents the second occurrence of a repeated wall time with fold = 0 and the later offset: the instant changes.
   Witness: America/New_York 2013-11-03 01:30 EST (window of the zone table around the transition). *)
(* transition times in seconds since 0001-01-01T00:00:00Z, the unit of W / MEG *)
Definition ny2013 : zone := mkzone (-18000) [(62135596800 + 1362898800, -14400); (62135596800 + 1383458400, -18000)].
Lemma instance_pytz_refuted :
  let W := EPOCH_US + 1383442200 * MEG in     (* wall 2013-11-03T01:30:00, the source says fold 0 and utcoffset -05:00 (EST) *)
  exists W' f', wf_zone ny2013 = true /\ wall_repeated ny2013 (sec W) /\
    convert_naive ny2013 W false false = Ok (W', f') /\
    inst ny2013 W' f' = W - MEG * (-14400) /\ inst ny2013 W' f' <> W - MEG * (-18000).
Proof.
  cbv zeta. eexists. eexists. split; [reflexivity|]. split; [vm_compute; reflexivity|].
  split; [vm_compute; reflexivity|]. split; [vm_compute; reflexivity|]. vm_compute. discriminate.
Qed.
