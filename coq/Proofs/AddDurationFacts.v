(* Proofs/AddDurationFacts.v — helpers.add_duration (translated, Gen/AddDuration.v): the sign-aware carry normalisation
   preserves the total, the year/month step is month arithmetic with end-of-month clamping.  All integers, no bounds. *)
From Coq Require Import ZArith List Bool Lia ZifyBool.
From PV Require Import Lib.PyBase Spec.Cal Spec.NativeDT Proofs.CalFacts Gen.Constants Gen.Helpers Gen.AddDuration.
Ltac Zify.zify_post_hook ::= Z.to_euclidean_division_equations.
Open Scope Z_scope.

(* one carry step exactly as the source writes it *)
Definition carry (lim base x y : Z) : Z * Z :=
  if Z.abs x >? lim then
    let s := py_sign x in
    let '(dv, md) := ((x * s) / base, (x * s) mod base) in
    (md * s, y + dv * s)
  else (x, y).

Lemma carry_total lim base x y : 0 < base -> let '(x', y') := carry lim base x y in x' + base * y' = x + base * y.
Proof.
  intros Hb. unfold carry, py_sign. destruct (Z.abs x >? lim); [|reflexivity].
  destruct (x <? 0) eqn:E; cbv zeta; nia.
Qed.

Lemma carry_small lim base x y : lim = base - 1 -> 0 < base -> let '(x', _) := carry lim base x y in Z.abs x' <= lim.
Proof.
  intros -> Hb. unfold carry, py_sign. destruct (Z.abs x >? base - 1) eqn:E0; [|lia].
  destruct (x <? 0) eqn:E; cbv zeta; nia.
Qed.

(* the normalised time parts and the year/month step, as a specification-level function *)
Definition norm_parts (weeks days hours minutes seconds us : Z) : Z * Z * Z * Z * Z :=
  let days := days + weeks * 7 in
  let '(us, seconds) := carry 999999 1000000 us seconds in
  let '(seconds, minutes) := carry 59 60 seconds minutes in
  let '(minutes, hours) := carry 59 60 minutes hours in
  let '(hours, days) := carry 23 24 hours days in
  (days, hours, minutes, seconds, us).

Lemma norm_parts_total weeks days hours minutes seconds us :
  let '(d, h, m, s, u) := norm_parts weeks days hours minutes seconds us in
  td_total_us d h m s u = td_total_us (days + weeks * 7) hours minutes seconds us.
Proof.
  unfold norm_parts, td_total_us.
  pose proof (carry_total 999999 1000000 us seconds ltac:(lia)) as H1.
  destruct (carry 999999 1000000 us seconds) as [us1 s1].
  pose proof (carry_total 59 60 s1 minutes ltac:(lia)) as H2.
  destruct (carry 59 60 s1 minutes) as [s2 m1].
  pose proof (carry_total 59 60 m1 hours ltac:(lia)) as H3.
  destruct (carry 59 60 m1 hours) as [m2 h1].
  pose proof (carry_total 23 24 h1 (days + weeks * 7) ltac:(lia)) as H4.
  destruct (carry 23 24 h1 (days + weeks * 7)) as [h2 d1].
  lia.
Qed.

(* months since year 0, and back *)
Definition ym_add (y m k : Z) : Z * Z := let t := y * 12 + (m - 1) + k in (t / 12, t mod 12 + 1).

Definition ym_step (year month years months : Z) : Z * Z :=
  let '(months, years) := carry 11 12 months years in
  let year := year + years in
  if negb (months =? 0) then
    let month := month + months in
    if month >? 12 then (year + 1, month - 12)
    else if month <? 1 then (year - 1, month + 12) else (year, month)
  else (year, month).

Lemma ym_step_spec year month years months : 1 <= month <= 12 ->
  ym_step year month years months = ym_add year month (12 * years + months).
Proof.
  intros Hm. unfold ym_step, ym_add.
  pose proof (carry_total 11 12 months years ltac:(lia)) as H1.
  pose proof (carry_small 11 12 months years eq_refl ltac:(lia)) as H2.
  destruct (carry 11 12 months years) as [mo ye].
  destruct (negb (mo =? 0)) eqn:E0.
  - destruct (month + mo >? 12) eqn:E1; [f_equal; lia|].
    destruct (month + mo <? 1) eqn:E2; f_equal; lia.
  - f_equal; lia.
Qed.

(* the whole function, re-expressed through the specification-level pieces; closed by conversion + case analysis on the joins *)
Definition add_duration_spec (d : ndt) (years months weeks days hours minutes seconds us : Z) : result ndt :=
  if negb (n_isdt d) && (negb (hours =? 0) || negb (minutes =? 0) || negb (seconds =? 0) || negb (us =? 0)) then Raise E_RuntimeError else
  let '(dd, h, m, s, u) := norm_parts weeks days hours minutes seconds us in
  let '(y', m') := ym_step (ndt_year d) (ndt_month d) years months in
  let day := Z.min (tidx (tidx2 C_DAYS_PER_MONTHS (Z.b2z (py_is_leap y'))) m') (ndt_day d) in
  match ndt_replace_ymd d y' m' day with
  | Raise e => Raise e
  | Ok d' => ndt_add_td d' dd h m s u
  end.

Lemma py_add_duration_unfold d years months weeks days hours minutes seconds us :
  py_add_duration d years months weeks days hours minutes seconds us =
  add_duration_spec d years months weeks days hours minutes seconds us.
Proof.
  unfold py_add_duration, add_duration_spec, norm_parts, ym_step, carry.
  destruct (negb (n_isdt d) && _); [reflexivity|].
  repeat match goal with |- context [if ?c then _ else _] =>
    match c with
    | context [Z.abs] => destruct c
    end end; try reflexivity;
  repeat match goal with |- context [if ?c then _ else _] =>
    destruct c end; reflexivity.
Qed.
