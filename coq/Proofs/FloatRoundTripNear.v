(* Proofs/FloatRoundTripNear.v — the general form of the round trip: timedelta(seconds=t) for ANY finite double t

     Theorem td_us_near_exact : valid64 t = true -> is_finite_SF t = true ->
       |t - R / 10^6| <= 2^-21  ->  td_us_of_float_seconds t = Ok R.

   (no bound on R, no case analysis on R mod 10^6: with I = floor |t|, g = |t| - I (exact), p = RN(10^6 g),
    |10^6 I + p - |R|| <= 10^6 * 2^-21 + 2^-34 < 1/2, so round(p) = |R| - 10^6 I with no tie.)
   Also: fadd / fsub / fmul on finite doubles as correctly rounded reals (Flocq's Bplus / Bminus / Bmult). *)
From Coq Require Import ZArith Reals Lia Lra Bool.
From Coq Require Import Floats.SpecFloat.
From Flocq Require Import Core.Core IEEE754.BinarySingleNaN.
From PV Require Import Lib.PyBase Spec.TdFloat Proofs.TdFloatFacts Proofs.FloatRoundTripBase Proofs.FloatRoundTrip.
Open Scope Z_scope.

Lemma td_us_near_pos : forall m e A, bounded64 m e = true ->
  (Rabs (F2R (Float radix2 (Zpos m) e) - IZR A / 1000000) <= / 2 * bpow radix2 (-20))%R ->
  td_us_of_float_seconds (S754_finite false m e) = Ok A.
Proof.
  intros m e A Hb Err. rewrite td_us_finite_unfold. cbv zeta.
  set (X := F2R (Float radix2 (Zpos m) e)) in *.
  rewrite sf_intpart_floor. fold X. simpl cond_neg. set (I := Zfloor X).
  pose proof (Zfloor_lb X) as LB. pose proof (Zfloor_ub X) as UB. fold I in LB, UB.
  pose proof (sf_frac_correct false m e Hb) as K. cbv zeta in K. fold X in K. fold I in K.
  destruct K as (Vf & Rf & Ff & Sf).
  set (g := (X - IZR I)%R) in *.
  assert (Hg : (0 <= g < 1)%R) by (unfold g; lra).
  rewrite bpow_m20 in Err. apply Rabs_le_inv in Err.
  assert (EI : IZR (I * US_PER_SEC) = (1000000 * IZR I)%R) by (unfold US_PER_SEC; rewrite mult_IZR; ring).
  destruct (Req_dec g 0) as [G0|G0].
  - rewrite (classify_zero _ Ff) by (rewrite Rf; exact G0). f_equal.
    assert (A - 1 < I * US_PER_SEC < A + 1); [|lia].
    apply Z_of_R_sandwich; rewrite EI, ?minus_IZR, ?plus_IZR; simpl (IZR 1); unfold g in G0; lra.
  - destruct (classify_finite _ Ff ltac:(rewrite Rf; exact G0) Vf) as (m1 & e1 & E1 & B1).
    rewrite Sf in E1. rewrite E1. simpl sf_is_zero. cbv iota. rewrite E1 in Rf. simpl in Rf.
    set (P := (1000000 * g)%R) in *.
    assert (HP : (Rabs P < bpow radix2 20)%R) by (rewrite bpow_20; apply Rabs_lt; unfold P; lra).
    pose proof (RN_error P 20 ltac:(lia) HP) as EP. simpl (20 - 53) in EP. rewrite bpow_m33 in EP.
    apply Rabs_le_inv in EP.
    pose proof (fmul_1e6_correct false m1 e1 B1) as Mu. cbv zeta in Mu. simpl cond_Zopp in Mu. rewrite Rf in Mu. fold P in Mu.
    destruct Mu as (Vp & Rp & Fp & Sp).
    { rewrite bpow_60. apply Rabs_lt. unfold P in *. lra. }
    destruct (Req_dec (RN P) 0) as [Z0|Z0].
    + pose proof (classify_zero _ Fp ltac:(rewrite Rp; exact Z0)) as Zp.
      destruct (fmul f_1e6 (S754_finite false m1 e1)) as [sp|sp| |sp mp ep]; try discriminate.
      unfold td_tail. simpl sf_intpart. simpl sf_frac. cbv iota. f_equal.
      assert (A - 1 < I * US_PER_SEC < A + 1); [|lia].
      apply Z_of_R_sandwich; rewrite EI, ?minus_IZR, ?plus_IZR; simpl (IZR 1); unfold P, g in *; lra.
    + destruct (classify_finite _ Fp ltac:(rewrite Rp; exact Z0) Vp) as (m2 & e2 & E2 & B2).
      rewrite Sp in E2. rewrite E2. rewrite E2 in Rp. simpl in Rp.
      rewrite (td_tail_correct (I * US_PER_SEC) m2 e2 (A - I * US_PER_SEC) B2).
      * f_equal. ring.
      * rewrite Rp, minus_IZR, EI. apply Rabs_lt. unfold P, g in *. lra.
Qed.

Theorem td_us_near_exact : forall t R, valid64 t = true -> is_finite_SF t = true ->
  (Rabs (R_of_sf t - IZR R / 1000000) <= / 2 * bpow radix2 (-20))%R ->
  td_us_of_float_seconds t = Ok R.
Proof.
  intros t R Vt Ft Err. destruct t as [s|s| |s m e]; try discriminate.
  - (* zero *)
    rewrite bpow_m20 in Err. apply Rabs_le_inv in Err. simpl in Err.
    assert (R = 0). { assert (-1 < R < 1); [|lia]. apply Z_of_R_sandwich; simpl (IZR (-1)); simpl (IZR 1); lra. }
    subst R. destruct s; reflexivity.
  - simpl in Vt. destruct s.
    + change (S754_finite true m e) with (fopp (S754_finite false m e)). rewrite td_us_of_float_seconds_opp.
      rewrite (td_us_near_pos m e (- R) Vt).
      * simpl. f_equal. ring.
      * unfold SF2R in Err. simpl cond_Zopp in Err. change (Z.neg m) with (- Z.pos m) in Err. rewrite F2R_Zopp in Err.
        rewrite opp_IZR. rewrite <- Rabs_Ropp.
        replace (- (F2R (Float radix2 (Z.pos m) e) - - IZR R / 1000000))%R
          with (- F2R (Float radix2 (Z.pos m) e) - IZR R / 1000000)%R by field. exact Err.
    + apply td_us_near_pos; [exact Vt | exact Err].
Qed.

(* ------------------------------------------------------------------ fadd / fmul on finite doubles *)
Lemma bn_equiv' : forall m e szero,
  SpecFloat.binary_normalize 53 1024 m e szero = B2SF (BinarySingleNaN.binary_normalize 53 1024 prec64 emax64 mode_NE m e szero).
Proof.
  intros [|p|p] e szero; [reflexivity| |]; simpl; rewrite B2SF_SF2B; apply br_equiv.
Qed.

Lemma fadd_Bplus : forall x y (Vx : valid64 x = true) (Vy : valid64 y = true),
  fadd x y = B2SF (Bplus mode_NE (SF2B x Vx) (SF2B y Vy)).
Proof.
  intros [sx|sx| |sx mx ex] [sy|sy| |sy my ey] Vx Vy;
    try (now (trivial || (simpl; case Bool.eqb))).
  unfold fadd. simpl. apply bn_equiv'.
Qed.

Lemma fadd_correct : forall x y, valid64 x = true -> valid64 y = true -> is_finite_SF x = true -> is_finite_SF y = true ->
  (Rabs (RN (R_of_sf x + R_of_sf y)) < bpow radix2 60)%R ->
  valid64 (fadd x y) = true /\ R_of_sf (fadd x y) = RN (R_of_sf x + R_of_sf y) /\ is_finite_SF (fadd x y) = true.
Proof.
  intros x y Vx Vy Fx Fy Hb. rewrite (fadd_Bplus x y Vx Vy).
  pose proof (Bplus_correct 53 1024 prec64 emax64 mode_NE (SF2B x Vx) (SF2B y Vy)) as K.
  rewrite !is_finite_SF2B, !B2R_SF2B in K. specialize (K Fx Fy).
  change (SpecFloat.fexp 53 1024) with fexp64 in K. simpl round_mode in K.
  rewrite (bpow_1024_big _ Hb) in K. destruct K as (K1 & K2 & _).
  split; [apply valid_binary_B2SF|]. split; [rewrite SF2R_B2SF; exact K1 | rewrite is_finite_SF_B2SF; exact K2].
Qed.

Lemma fmul_correct : forall x y, valid64 x = true -> valid64 y = true -> is_finite_SF x = true -> is_finite_SF y = true ->
  (Rabs (RN (R_of_sf x * R_of_sf y)) < bpow radix2 60)%R ->
  valid64 (fmul x y) = true /\ R_of_sf (fmul x y) = RN (R_of_sf x * R_of_sf y) /\ is_finite_SF (fmul x y) = true.
Proof.
  intros x y Vx Vy Fx Fy Hb.
  assert (Z0 : RN 0 = 0%R) by (apply round_0; typeclasses eauto).
  destruct x as [sx|sx| |sx mx ex]; try discriminate; destruct y as [sy|sy| |sy my ey]; try discriminate;
    try (simpl; rewrite ?Rmult_0_l, ?Rmult_0_r, Z0; repeat split; reflexivity).
  simpl in Vx, Vy.
  pose proof (Bmult_correct_aux 53 1024 prec64 emax64 mode_NE sx mx ex Vx sy my ey Vy) as H. cbv zeta in H.
  assert (Ez : fmul (S754_finite sx mx ex) (S754_finite sy my ey)
               = BinarySingleNaN.binary_round_aux 53 1024 mode_NE (xorb sx sy) (Z.pos (mx * my)) (ex + ey) loc_Exact).
  { unfold fmul, SFmul. apply bra_equiv. }
  rewrite <- Ez in H. destruct H as [Hv H]. split; [exact Hv|].
  change (SpecFloat.fexp 53 1024) with fexp64 in H. simpl round_mode in H.
  unfold SF2R in Hb |- *. rewrite (bpow_1024_big _ Hb) in H. destruct H as (H1 & H2 & _). split; assumption.
Qed.

Print Assumptions td_us_near_exact.
