(* Proofs/C12Week.v — the week units: for naive / fixed-offset / UTC values the day-by-day walk of previous()/next() reaches the
   closed-form first / last day of the week; Date versions. *)
From Coq Require Import ZArith List Bool Lia ZifyBool.
From PV Require Import Lib.PyBase Spec.Cal Spec.Zone Spec.NativeDT Proofs.CalFacts Proofs.ZoneFacts Proofs.AddDurationFacts Proofs.C03Facts.
From PV Require Import Gen.Constants Gen.Helpers Gen.AddDuration Model.TzConvert Model.StartEndBase Gen.StartEnd Model.StartEnd Proofs.C12Spec Proofs.C12Facts.
Import ListNotations.
Ltac Zify.zify_post_hook ::= Z.to_euclidean_division_equations.
Open Scope Z_scope.

Lemma add_duration_days W k : wall_in_range W = true -> -999999999 <= k <= 999999999 ->
  py_add_duration (mkndt W true) 0 0 0 k 0 0 0 0 =
  if wall_in_range (W + k * us_per_day) then Ok (mkndt (W + k * us_per_day) true) else Raise E_OverflowError.
Proof.
  intros Hr Hlim. rewrite py_add_duration_unfold. unfold add_duration_spec. cbn [n_isdt negb andb].
  pose proof (norm_parts_total 0 k 0 0 0 0) as NT.
  destruct (norm_parts 0 k 0 0 0 0) as [[[[dd h] m] s] u].
  replace (ym_step (ndt_year (mkndt W true)) (ndt_month (mkndt W true)) 0 0) with (ndt_year (mkndt W true), ndt_month (mkndt W true))
    by (unfold ym_step, carry; cbn; f_equal; lia).
  destruct (fields_in_range W Hr) as [Hy [Hv Hw]]. cbv zeta in Hy, Hv, Hw.
  pose proof (proj1 (valid_dateb_true _ _ _) Hv) as [Hm Hd].
  rewrite days_per_months_dim by lia. rewrite Z.min_r by lia.
  unfold ndt_replace_ymd. rewrite Hv.
  replace ((1 <=? ndt_year (mkndt W true)) && (ndt_year (mkndt W true) <=? 9999)) with true by lia. cbn [andb].
  rewrite Hw. unfold ndt_add_td. cbn [n_isdt n_wall].
  assert (T : td_total_us dd h m s u = k * us_per_day) by (rewrite NT; unfold td_total_us; rewrite upd_val; lia).
  rewrite T.
  replace (k * us_per_day / us_per_day) with k by (rewrite upd_val; lia).
  destruct ((k <? -999999999) || (999999999 <? k)) eqn:E; [lia|]. reflexivity.
Qed.

Definition step_fold (v : dtv) : bool := negb (v_kind v =? 1).

Lemma step_day_plain v k : plain v -> wall_in_range (v_W v) = true -> -1 <= k <= 1 ->
  step_day v k = if wall_in_range (v_W v + k * us_per_day) then Ok (v_W v + k * us_per_day, step_fold v) else Raise E_OverflowError.
Proof.
  intros P Hr Hk. unfold step_day. rewrite (add_duration_days (v_W v) k Hr ltac:(lia)).
  destruct (wall_in_range (v_W v + k * us_per_day)); [|reflexivity]. cbn [n_wall]. unfold step_fold.
  destruct (v_kind v =? 0) eqn:E0.
  - replace (v_kind v =? 1) with false by lia. reflexivity.
  - rewrite (create_ok v _ true (plain_boundary_ok v _ P) ltac:(lia)). destruct (v_kind v =? 1); reflexivity.
Qed.

Lemma wall_dow_eq W : wall_dow W = (W / us_per_day) mod 7.
Proof. unfold wall_dow, weekday0. lia. Qed.

Lemma upd_plain v r : plain v -> plain (upd v r). Proof. intros P. exact P. Qed.

(* the backward walk: j = distance (in days) back to the wanted weekday *)
Lemma walk_back fuel : forall v wd, plain v -> wall_in_range (v_W v) = true -> 0 <= wd <= 6 ->
  let j := (v_W v / us_per_day - wd) mod 7 in
  j < Z.of_nat fuel ->
  dt_walk fuel (-1) wd v =
  if 0 <=? v_W v - j * us_per_day
  then Ok (mkdtv (v_zone v) (v_kind v) (v_W v - j * us_per_day) (if j =? 0 then v_fold v else step_fold v))
  else Raise E_OverflowError.
Proof.
  induction fuel as [|fuel IH]; intros v wd P Hr Hwd j Hj; [lia|].
  cbn [dt_walk]. rewrite wall_dow_eq.
  pose proof (proj1 (wall_in_range_iff _) Hr) as HW.
  destruct (negb ((v_W v / us_per_day) mod 7 =? wd)) eqn:E.
  - assert (Hj1 : 1 <= j) by (unfold j; lia).
    rewrite (step_day_plain v (-1) P Hr ltac:(lia)).
    destruct (wall_in_range (v_W v + -1 * us_per_day)) eqn:Er.
    + cbn [bind]. pose proof (proj1 (wall_in_range_iff _) Er) as HW2.
      specialize (IH (upd v (v_W v + -1 * us_per_day, step_fold v)) wd P Er Hwd). cbv zeta in IH.
      cbn [upd fst snd v_W v_zone v_kind v_fold] in IH.
      assert (Ej : ((v_W v + -1 * us_per_day) / us_per_day - wd) mod 7 = j - 1) by (unfold j; rewrite upd_val in *; lia).
      rewrite Ej in IH. rewrite IH by lia.
      replace (v_W v + -1 * us_per_day - (j - 1) * us_per_day) with (v_W v - j * us_per_day) by lia.
      replace (j =? 0) with false by lia.
      assert (SF : step_fold (upd v (v_W v + -1 * us_per_day, step_fold v)) = step_fold v) by reflexivity.
      cbn [upd fst snd v_W v_zone v_kind v_fold]. fold (step_fold v).
      destruct (j - 1 =? 0); reflexivity.
    + cbn [bind]. apply wall_in_range_false_iff in Er.
      replace (0 <=? v_W v - j * us_per_day) with false by (rewrite upd_val in *; lia). reflexivity.
  - assert (Hj0 : j = 0) by (unfold j; lia). rewrite Hj0.
    replace (0 <=? v_W v - 0 * us_per_day) with true by lia. cbn [Z.eqb].
    replace (v_W v - 0 * us_per_day) with (v_W v) by lia. destruct v; reflexivity.
Qed.

Lemma walk_fwd fuel : forall v wd, plain v -> wall_in_range (v_W v) = true -> 0 <= wd <= 6 ->
  let j := (wd - v_W v / us_per_day) mod 7 in
  j < Z.of_nat fuel ->
  dt_walk fuel 1 wd v =
  if v_W v + j * us_per_day <=? 315537897599999999
  then Ok (mkdtv (v_zone v) (v_kind v) (v_W v + j * us_per_day) (if j =? 0 then v_fold v else step_fold v))
  else Raise E_OverflowError.
Proof.
  induction fuel as [|fuel IH]; intros v wd P Hr Hwd j Hj; [lia|].
  cbn [dt_walk]. rewrite wall_dow_eq.
  pose proof (proj1 (wall_in_range_iff _) Hr) as HW.
  destruct (negb ((v_W v / us_per_day) mod 7 =? wd)) eqn:E.
  - assert (Hj1 : 1 <= j) by (unfold j; lia).
    rewrite (step_day_plain v 1 P Hr ltac:(lia)).
    destruct (wall_in_range (v_W v + 1 * us_per_day)) eqn:Er.
    + cbn [bind]. pose proof (proj1 (wall_in_range_iff _) Er) as HW2.
      specialize (IH (upd v (v_W v + 1 * us_per_day, step_fold v)) wd P Er Hwd). cbv zeta in IH.
      cbn [upd fst snd v_W v_zone v_kind v_fold] in IH.
      assert (Ej : (wd - (v_W v + 1 * us_per_day) / us_per_day) mod 7 = j - 1) by (unfold j; rewrite upd_val in *; lia).
      rewrite Ej in IH. rewrite IH by lia.
      replace (v_W v + 1 * us_per_day + (j - 1) * us_per_day) with (v_W v + j * us_per_day) by lia.
      replace (j =? 0) with false by lia.
      cbn [upd fst snd v_W v_zone v_kind v_fold]. fold (step_fold v).
      destruct (j - 1 =? 0); reflexivity.
    + cbn [bind]. apply wall_in_range_false_iff in Er.
      replace (v_W v + j * us_per_day <=? 315537897599999999) with false by (rewrite upd_val in *; lia). reflexivity.
  - assert (Hj0 : j = 0) by (unfold j; lia). rewrite Hj0.
    replace (v_W v + 0 * us_per_day <=? 315537897599999999) with true by lia. cbn [Z.eqb].
    replace (v_W v + 0 * us_per_day) with (v_W v) by lia. destruct v; reflexivity.
Qed.

Lemma unit_lo_3 ws W : unit_lo 3 ws W = W / us_per_day * us_per_day. Proof. reflexivity. Qed.
Lemma unit_hi_3 ws W : unit_hi 3 ws W = W / us_per_day * us_per_day + (us_per_day - 1). Proof. reflexivity. Qed.
Lemma unit_lo_4 ws W : unit_lo 4 ws W = (W / us_per_day - (W / us_per_day - ws) mod 7) * us_per_day. Proof. reflexivity. Qed.
Lemma unit_hi_4 ws W : unit_hi 4 ws W = (W / us_per_day - (W / us_per_day - ws) mod 7 + 7) * us_per_day - 1. Proof. reflexivity. Qed.

Lemma start_of_day_plain v : plain v -> wall_in_range (v_W v) = true ->
  dt_start_of_day v = Ok (v_W v / us_per_day * us_per_day, fold_out v).
Proof.
  intros P Hr. unfold dt_start_of_day. rewrite (set_from_start v 3 Hr ltac:(lia) (plain_boundary_ok _ _ P)). rewrite unit_lo_3. reflexivity.
Qed.
Lemma end_of_day_plain v : plain v -> wall_in_range (v_W v) = true ->
  dt_end_of_day v = Ok (v_W v / us_per_day * us_per_day + (us_per_day - 1), fold_out v).
Proof.
  intros P Hr. unfold dt_end_of_day. rewrite (set_from_end v 3 Hr ltac:(lia) (plain_boundary_ok _ _ P)). rewrite unit_hi_3. reflexivity.
Qed.

Lemma dt_start_week_plain ws v : plain v -> wall_in_range (v_W v) = true -> 0 <= ws <= 6 ->
  if 0 <=? unit_lo 4 ws (v_W v)
  then exists f', dt_start_of_week ws v = Ok (unit_lo 4 ws (v_W v), f')
  else dt_start_of_week ws v = Raise E_OverflowError.
Proof.
  intros P Hr Hws. rewrite unit_lo_4. set (W := v_W v) in *. set (k := W / us_per_day).
  pose proof (proj1 (wall_in_range_iff _) Hr) as HW.
  assert (Hk : 0 <= k <= 3652058) by (unfold k; rewrite upd_val; lia).
  unfold dt_start_of_week. fold W. rewrite wall_dow_eq. fold k.
  destruct (negb (k mod 7 =? ws)) eqn:E.
  - set (j0 := (k - ws) mod 7). assert (Hj0 : 1 <= j0 <= 6) by (unfold j0; lia).
    unfold dt_previous. rewrite (start_of_day_plain v P Hr). fold W. fold k. cbn [bind].
    set (v1 := upd v (k * us_per_day, fold_out v)).
    assert (Hr1 : wall_in_range (v_W v1) = true) by (apply wall_in_range_iff; cbn; rewrite upd_val; lia).
    rewrite (step_day_plain v1 (-1) P Hr1 ltac:(lia)). cbn [v1 upd fst snd v_W].
    destruct (wall_in_range (k * us_per_day + -1 * us_per_day)) eqn:Er.
    + cbn [bind]. match goal with |- context [dt_walk WALK_FUEL (-1) ws ?x] => set (v2 := x) end.
      assert (Hr2 : wall_in_range (v_W v2) = true) by exact Er.
      pose proof (walk_back WALK_FUEL v2 ws P Hr2 Hws) as Wk. cbv zeta in Wk.
      cbn [v2 upd fst snd v_W v_zone v_kind v_fold] in Wk.
      assert (Ej : ((k * us_per_day + -1 * us_per_day) / us_per_day - ws) mod 7 = j0 - 1) by (unfold j0; rewrite upd_val; lia).
      rewrite Ej in Wk. specialize (Wk ltac:(unfold WALK_FUEL; lia)). rewrite Wk.
      replace (k * us_per_day + -1 * us_per_day - (j0 - 1) * us_per_day) with ((k - j0) * us_per_day) by lia.
      destruct (0 <=? (k - j0) * us_per_day) eqn:E0.
      * cbn [bind]. eexists.
        match goal with |- dt_start_of_day ?x = _ => rewrite (start_of_day_plain x P) end.
        -- cbn [v_W]. replace ((k - j0) * us_per_day / us_per_day * us_per_day) with ((k - j0) * us_per_day) by (rewrite upd_val; lia). reflexivity.
        -- cbn [v_W]. apply wall_in_range_iff. rewrite upd_val in *. lia.
      * reflexivity.
    + cbn [bind]. apply wall_in_range_false_iff in Er.
      replace (0 <=? (k - j0) * us_per_day) with false by (rewrite upd_val in *; lia). reflexivity.
  - assert (Ej : (k - ws) mod 7 = 0) by lia. rewrite Ej.
    replace (0 <=? (k - 0) * us_per_day) with true by (rewrite upd_val; lia).
    eexists. rewrite (start_of_day_plain v P Hr). fold W. fold k. replace (k - 0) with k by lia. reflexivity.
Qed.

Lemma dt_end_week_plain ws v : plain v -> wall_in_range (v_W v) = true -> 0 <= ws <= 6 ->
  let we := (ws + 6) mod 7 in
  if unit_hi 4 ws (v_W v) <=? 315537897599999999
  then exists f', dt_end_of_week we v = Ok (unit_hi 4 ws (v_W v), f')
  else dt_end_of_week we v = Raise E_OverflowError.
Proof.
  intros P Hr Hws we. rewrite unit_hi_4. set (W := v_W v) in *. set (k := W / us_per_day).
  assert (Hwe : 0 <= we <= 6) by (unfold we; lia).
  pose proof (proj1 (wall_in_range_iff _) Hr) as HW.
  assert (Hk : 0 <= k <= 3652058) by (unfold k; rewrite upd_val; lia).
  set (j0 := (we - k) mod 7).
  assert (Ehi : (k - (k - ws) mod 7 + 7) * us_per_day - 1 = (k + j0) * us_per_day + (us_per_day - 1)) by (unfold j0, we; rewrite upd_val; lia).
  rewrite Ehi.
  unfold dt_end_of_week. fold W. rewrite wall_dow_eq. fold k.
  destruct (negb (k mod 7 =? we)) eqn:E.
  - assert (Hj0 : 1 <= j0 <= 6) by (unfold j0; lia).
    unfold dt_next. rewrite (start_of_day_plain v P Hr). fold W. fold k. cbn [bind].
    set (v1 := upd v (k * us_per_day, fold_out v)).
    assert (Hr1 : wall_in_range (v_W v1) = true) by (apply wall_in_range_iff; cbn; rewrite upd_val; lia).
    rewrite (step_day_plain v1 1 P Hr1 ltac:(lia)). cbn [v1 upd fst snd v_W].
    destruct (wall_in_range (k * us_per_day + 1 * us_per_day)) eqn:Er.
    + cbn [bind]. match goal with |- context [dt_walk WALK_FUEL 1 we ?x] => set (v2 := x) end.
      assert (Hr2 : wall_in_range (v_W v2) = true) by exact Er.
      pose proof (walk_fwd WALK_FUEL v2 we P Hr2 Hwe) as Wk. cbv zeta in Wk.
      cbn [v2 upd fst snd v_W v_zone v_kind v_fold] in Wk.
      assert (Ej : (we - (k * us_per_day + 1 * us_per_day) / us_per_day) mod 7 = j0 - 1) by (unfold j0; rewrite upd_val; lia).
      rewrite Ej in Wk. specialize (Wk ltac:(unfold WALK_FUEL; lia)). rewrite Wk.
      replace (k * us_per_day + 1 * us_per_day + (j0 - 1) * us_per_day) with ((k + j0) * us_per_day) by lia.
      destruct ((k + j0) * us_per_day <=? 315537897599999999) eqn:E0.
      * replace ((k + j0) * us_per_day + (us_per_day - 1) <=? 315537897599999999) with true by (rewrite upd_val in *; lia).
        cbn [bind]. eexists.
        match goal with |- dt_end_of_day ?x = _ => rewrite (end_of_day_plain x P) end.
        -- cbn [v_W]. replace ((k + j0) * us_per_day / us_per_day * us_per_day) with ((k + j0) * us_per_day) by (rewrite upd_val; lia). reflexivity.
        -- cbn [v_W]. apply wall_in_range_iff. rewrite upd_val in *. lia.
      * replace ((k + j0) * us_per_day + (us_per_day - 1) <=? 315537897599999999) with false by (rewrite upd_val in *; lia). reflexivity.
    + cbn [bind]. apply wall_in_range_false_iff in Er.
      replace ((k + j0) * us_per_day + (us_per_day - 1) <=? 315537897599999999) with false by (rewrite upd_val in *; lia). reflexivity.
  - assert (Ej : j0 = 0) by (unfold j0; lia). rewrite Ej.
    replace ((k + 0) * us_per_day + (us_per_day - 1) <=? 315537897599999999) with true by (rewrite upd_val; lia).
    eexists. rewrite (end_of_day_plain v P Hr). fold W. fold k. replace (k + 0) with k by lia. reflexivity.
Qed.

(* ---------------------------------------------------------------- Date *)
Lemma date_walk_back fuel : forall n wd, 1 <= n <= 3652059 -> 0 <= wd <= 6 ->
  let j := (n - 1 - wd) mod 7 in j < Z.of_nat fuel ->
  date_walk fuel (-1) wd n = if 1 <=? n - j then Ok (n - j) else Raise E_OverflowError.
Proof.
  induction fuel as [|fuel IH]; intros n wd Hn Hwd j Hj; [lia|].
  cbn [date_walk]. unfold weekday0.
  destruct (negb ((n + 6) mod 7 =? wd)) eqn:E.
  - assert (Hj1 : 1 <= j) by (unfold j; lia). unfold date_step, MAXORD.
    destruct ((1 <=? n + -1) && (n + -1 <=? 3652059)) eqn:Er.
    + cbn [bind]. specialize (IH (n + -1) wd ltac:(lia) Hwd). cbv zeta in IH.
      replace ((n + -1 - 1 - wd) mod 7) with (j - 1) in IH by (unfold j; lia). rewrite IH by lia.
      replace (n + -1 - (j - 1)) with (n - j) by lia. reflexivity.
    + cbn [bind]. replace (1 <=? n - j) with false by lia. reflexivity.
  - assert (j = 0) by (unfold j; lia). replace (1 <=? n - j) with true by lia. f_equal. lia.
Qed.

Lemma date_walk_fwd fuel : forall n wd, 1 <= n <= 3652059 -> 0 <= wd <= 6 ->
  let j := (wd - (n - 1)) mod 7 in j < Z.of_nat fuel ->
  date_walk fuel 1 wd n = if n + j <=? 3652059 then Ok (n + j) else Raise E_OverflowError.
Proof.
  induction fuel as [|fuel IH]; intros n wd Hn Hwd j Hj; [lia|].
  cbn [date_walk]. unfold weekday0.
  destruct (negb ((n + 6) mod 7 =? wd)) eqn:E.
  - assert (Hj1 : 1 <= j) by (unfold j; lia). unfold date_step, MAXORD.
    destruct ((1 <=? n + 1) && (n + 1 <=? 3652059)) eqn:Er.
    + cbn [bind]. specialize (IH (n + 1) wd ltac:(lia) Hwd). cbv zeta in IH.
      replace ((wd - (n + 1 - 1)) mod 7) with (j - 1) in IH by (unfold j; lia). rewrite IH by lia.
      replace (n + 1 + (j - 1)) with (n + j) by lia. reflexivity.
    + cbn [bind]. replace (n + j <=? 3652059) with false by lia. reflexivity.
  - assert (j = 0) by (unfold j; lia). replace (n + j <=? 3652059) with true by lia. f_equal. lia.
Qed.

(* first / last day (ordinal) of the unit containing day n *)
Definition day_lo (u ws n : Z) : Z := ord_of (unit_lo u ws (wall_of_ord n)).
Definition day_hi (u ws n : Z) : Z := ord_of (unit_hi u ws (wall_of_ord n)).

Lemma ord_of_wall_of_ord n : ord_of (wall_of_ord n) = n.
Proof. unfold ord_of, wall_of_ord. rewrite upd_val. lia. Qed.
Lemma f_year_ord n : f_year (wall_of_ord n) = o_year n. Proof. rewrite f_year_o, ord_of_wall_of_ord. reflexivity. Qed.
Lemma f_month_ord n : f_month (wall_of_ord n) = o_month n. Proof. rewrite f_month_o, ord_of_wall_of_ord. reflexivity. Qed.
Lemma ord_of_wall_start y m d : ord_of (wall_of y m d 0 0 0 0) = ymd2ord y m d.
Proof. unfold ord_of, wall_of. rewrite upd_val. lia. Qed.
Lemma ord_of_wall_end y m d : ord_of (wall_of y m d 23 59 59 999999) = ymd2ord y m d.
Proof. unfold ord_of, wall_of. rewrite upd_val. lia. Qed.

Lemma date_set_ok v y m d : 1 <= y <= 9999 -> valid_dateb y m d = true -> date_set v y m d = Ok (ymd2ord y m d).
Proof. intros Hy V. unfold date_set. rewrite V. replace ((1 <=? y) && (y <=? 9999)) with true by lia. reflexivity. Qed.

Lemma date_start_spec ws u n : date_unit u -> 1 <= n <= 3652059 -> 0 <= ws <= 6 ->
  date_start_of ws u n = if 1 <=? day_lo u ws n then Ok (day_lo u ws n) else Raise (if u =? 4 then E_OverflowError else E_ValueError).
Proof.
  unfold date_unit. intros Hu Hn Hws. unfold day_lo.
  pose proof (o_year_range n Hn) as Hy.
  assert (C : u = 3 \/ u = 4 \/ u = 5 \/ u = 6 \/ u = 7 \/ u = 8) by lia.
  destruct C as [->|[->|[->|[->|[->| ->]]]]]; cbn [date_start_of Z.eqb].
  - rewrite unit_lo_3. unfold ord_of, wall_of_ord. rewrite upd_val.
    replace (1 <=? (n - 1) * 86400000000 / 86400000000 * 86400000000 / 86400000000 + 1) with true by lia. f_equal. lia.
  - rewrite unit_lo_4. unfold ord_of, wall_of_ord. rewrite upd_val.
    replace ((n - 1) * 86400000000 / 86400000000) with (n - 1) by lia.
    replace (((n - 1 - (n - 1 - ws) mod 7) * 86400000000) / 86400000000 + 1) with (n - (n - 1 - ws) mod 7) by lia.
    unfold weekday0. destruct (negb ((n + 6) mod 7 =? ws)) eqn:E.
    + unfold date_previous, date_step, MAXORD.
      destruct ((1 <=? n + -1) && (n + -1 <=? 3652059)) eqn:Er.
      * cbn [bind]. rewrite (date_walk_back 7 (n + -1) ws ltac:(lia) Hws ltac:(cbv zeta; change (Z.of_nat 7) with 7; lia)).
        replace ((n + -1 - 1 - ws) mod 7) with ((n - 1 - ws) mod 7 - 1) by lia.
        replace (n + -1 - ((n - 1 - ws) mod 7 - 1)) with (n - (n - 1 - ws) mod 7) by lia. reflexivity.
      * cbn [bind]. replace (1 <=? n - (n - 1 - ws) mod 7) with false by lia. reflexivity.
    + replace ((n - 1 - ws) mod 7) with 0 by lia. replace (1 <=? n - 0) with true by lia. f_equal. lia.
  - rewrite unit_lo_5, f_year_ord, f_month_ord, ord_of_wall_start.
    unfold py_date_start_of_month, date_year, date_month. cbn [d_ord].
    pose proof (valid_month_first (wall_of_ord n)) as V. rewrite f_year_ord, f_month_ord in V.
    rewrite (date_set_ok _ _ _ _ Hy V).
    apply valid_dateb_true in V. pose proof (dbm_nonneg (is_leap (o_year n)) (o_month n) ltac:(lia)).
    pose proof (proj2 (dby_nonneg (o_year n)) ltac:(lia)).
    replace (1 <=? ymd2ord (o_year n) (o_month n) 1) with true by (unfold ymd2ord, days_before_month; lia). reflexivity.
  - rewrite unit_lo_6, f_year_ord, ord_of_wall_start.
    unfold py_date_start_of_year, date_year. cbn [d_ord].
    rewrite (date_set_ok _ _ _ _ Hy (valid_jan1 _)). rewrite ymd2ord_jan1.
    pose proof (proj2 (dby_nonneg (o_year n)) ltac:(lia)).
    replace (1 <=? days_before_year (o_year n) + 1) with true by lia. reflexivity.
  - rewrite unit_lo_7, f_year_ord, ord_of_wall_start.
    unfold py_date_start_of_decade, date_year, C_YEARS_PER_DECADE. cbn [d_ord]. cbv zeta.
    rewrite ymd2ord_jan1. pose proof (dby_nonneg (o_year n - o_year n mod 10)) as J.
    destruct (1 <=? days_before_year (o_year n - o_year n mod 10) + 1) eqn:E.
    + rewrite (date_set_ok (mkdv n) (o_year n - o_year n mod 10) 1 1 ltac:(lia) (valid_jan1 _)). rewrite ymd2ord_jan1. reflexivity.
    + unfold date_set. replace (1 <=? o_year n - o_year n mod 10) with false by lia. reflexivity.
  - rewrite unit_lo_8, f_year_ord, ord_of_wall_start.
    unfold py_date_start_of_century, date_year, C_YEARS_PER_CENTURY. cbn [d_ord]. cbv zeta.
    rewrite (date_set_ok (mkdv n) (o_year n - 1 - (o_year n - 1) mod 100 + 1) 1 1 ltac:(lia) (valid_jan1 _)). rewrite ymd2ord_jan1.
    pose proof (proj2 (dby_nonneg (o_year n - 1 - (o_year n - 1) mod 100 + 1)) ltac:(lia)).
    replace (1 <=? days_before_year (o_year n - 1 - (o_year n - 1) mod 100 + 1) + 1) with true by lia. reflexivity.
Qed.

Lemma date_end_spec ws u n : date_unit u -> 1 <= n <= 3652059 -> 0 <= ws <= 6 ->
  date_end_of ((ws + 6) mod 7) u n =
  if day_hi u ws n <=? 3652059 then Ok (day_hi u ws n) else Raise (if u =? 4 then E_OverflowError else E_ValueError).
Proof.
  unfold date_unit. intros Hu Hn Hws. unfold day_hi.
  pose proof (o_year_range n Hn) as Hy.
  assert (C : u = 3 \/ u = 4 \/ u = 5 \/ u = 6 \/ u = 7 \/ u = 8) by lia.
  destruct C as [->|[->|[->|[->|[->| ->]]]]]; cbn [date_end_of Z.eqb].
  - rewrite unit_hi_3. unfold ord_of, wall_of_ord. rewrite upd_val.
    replace (((n - 1) * 86400000000 / 86400000000 * 86400000000 + (86400000000 - 1)) / 86400000000 + 1) with n by lia.
    replace (n <=? 3652059) with true by lia. reflexivity.
  - rewrite unit_hi_4. unfold ord_of, wall_of_ord. rewrite upd_val.
    replace ((n - 1) * 86400000000 / 86400000000) with (n - 1) by lia.
    set (we := (ws + 6) mod 7). set (j := (we - (n - 1)) mod 7).
    replace (((n - 1 - (n - 1 - ws) mod 7 + 7) * 86400000000 - 1) / 86400000000 + 1) with (n + j) by (unfold j, we; lia).
    assert (Hwe : 0 <= we <= 6) by (unfold we; lia).
    unfold weekday0. destruct (negb ((n + 6) mod 7 =? we)) eqn:E.
    + unfold date_next, date_step, MAXORD.
      destruct ((1 <=? n + 1) && (n + 1 <=? 3652059)) eqn:Er.
      * cbn [bind]. rewrite (date_walk_fwd 7 (n + 1) we ltac:(lia) Hwe ltac:(cbv zeta; change (Z.of_nat 7) with 7; lia)).
        replace ((we - (n + 1 - 1)) mod 7) with (j - 1) by (unfold j; lia).
        replace (n + 1 + (j - 1)) with (n + j) by lia. reflexivity.
      * cbn [bind]. replace (n + j <=? 3652059) with false by (unfold j; lia). reflexivity.
    + replace j with 0 by (unfold j; lia). replace (n + 0 <=? 3652059) with true by lia. f_equal. lia.
  - rewrite unit_hi_5, f_year_ord, f_month_ord, ord_of_wall_end.
    unfold py_date_end_of_month, date_days_in_month, date_year, date_month. cbn [d_ord].
    pose proof (valid_month_last (wall_of_ord n)) as V. rewrite f_year_ord, f_month_ord in V.
    rewrite (date_set_ok _ _ _ _ Hy V).
    replace (ymd2ord (o_year n) (o_month n) (dim (o_year n) (o_month n)) <=? 3652059) with true; [reflexivity|].
    apply valid_dateb_true in V. pose proof (dbm_upper (is_leap (o_year n)) (o_month n) ltac:(lia)) as U.
    pose proof (proj2 (dby_le (o_year n)) ltac:(lia)) as L. rewrite days_before_year_succ in L. unfold days_in_year in L.
    unfold ymd2ord, days_before_month, dim. destruct (is_leap (o_year n)); lia.
  - rewrite unit_hi_6, f_year_ord, ord_of_wall_end.
    unfold py_date_end_of_year, date_year. cbn [d_ord].
    rewrite (date_set_ok _ _ _ _ Hy (valid_dec31 _)). rewrite ymd2ord_dec31.
    pose proof (proj2 (dby_le (o_year n)) ltac:(lia)).
    replace (days_before_year (o_year n + 1) <=? 3652059) with true by lia. reflexivity.
  - rewrite unit_hi_7, f_year_ord, ord_of_wall_end.
    unfold py_date_end_of_decade, date_year, C_YEARS_PER_DECADE. cbn [d_ord]. cbv zeta.
    replace (o_year n - o_year n mod 10 + 10 - 1) with (o_year n - o_year n mod 10 + 9) by lia.
    rewrite (date_set_ok (mkdv n) (o_year n - o_year n mod 10 + 9) 12 31 ltac:(lia) (valid_dec31 _)). rewrite ymd2ord_dec31.
    pose proof (proj2 (dby_le (o_year n - o_year n mod 10 + 9)) ltac:(lia)).
    replace (days_before_year (o_year n - o_year n mod 10 + 9 + 1) <=? 3652059) with true by lia. reflexivity.
  - rewrite unit_hi_8, f_year_ord, ord_of_wall_end.
    unfold py_date_end_of_century, date_year, C_YEARS_PER_CENTURY. cbn [d_ord]. cbv zeta.
    rewrite ymd2ord_dec31. pose proof (dby_le (o_year n - 1 - (o_year n - 1) mod 100 + 100)) as J.
    destruct (days_before_year (o_year n - 1 - (o_year n - 1) mod 100 + 100 + 1) <=? 3652059) eqn:E.
    + rewrite (date_set_ok (mkdv n) (o_year n - 1 - (o_year n - 1) mod 100 + 100) 12 31 ltac:(lia) (valid_dec31 _)). rewrite ymd2ord_dec31. reflexivity.
    + unfold date_set. replace (o_year n - 1 - (o_year n - 1) mod 100 + 100 <=? 9999) with false by lia. rewrite andb_false_r. reflexivity.
Qed.
