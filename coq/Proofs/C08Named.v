(* Proofs/C08Named.v — C08: from_format on the renderings of the named formats (DateTime._FORMATS, locale en), for EVERY DateTime:
     * atom / w3c  (YYYY-MM-DDTHH:mm:ssZ): inverted to the second (`from_format_inverts_atom`);
     * rfc1123 / rfc2822 / rss (ddd, DD MMM YYYY HH:mm:ss ZZ): inverted (`from_format_inverts_rfc1123_rfc2822_rss`) — the 7 x 12 x 2 shapes
       (weekday name, month name, offset sign) are checked against the span matcher by one kernel computation (`rfc1123_chk_all`), the
       digits are lifted by shape invariance (Proofs/MreShape.v);
     * rfc822 / rfc1036 (…YY…): inverted exactly for the years 1969..2068, the window of the two-digit year rule
       (`from_format_inverts_rfc822_rfc1036`); outside it the century is lost and the weekday name moves the day (`rfc822_outside_window_witness`);
     * cookie / rfc850 end in the token zz, which from_format does not support: ValueError on every text (`from_format_rejects_cookie_rfc850`). *)
From Coq Require Import ZArith List Bool Lia ZifyBool.
From PV Require Import Lib.PyBase Spec.Cal Proofs.CalFacts Model.FormatterBase Gen.FormatterTables Gen.LocaleTables Model.Formatter Model.FormatterParse.
From PV Require Import Proofs.C15Facts Proofs.C08Decimal Proofs.C08Facts Proofs.MreShape Proofs.C08Match Proofs.C08Locale.
Import ListNotations.
Ltac Zify.zify_post_hook ::= Z.to_euclidean_division_equations.
Open Scope Z_scope.

(* the format string of a named format (DateTime._FORMATS, generated) *)
Definition nf (k : str) : str := match assoc k named_formats with Some (NFmt f) => f | _ => [] end.
Definition k_atom : str := [97; 116; 111; 109].
Definition k_w3c : str := [119; 51; 99].
Definition k_cookie : str := [99; 111; 111; 107; 105; 101].
Definition k_rfc850 : str := [114; 102; 99; 56; 53; 48].
Definition k_rfc822 : str := [114; 102; 99; 56; 50; 50].
Definition k_rfc1036 : str := [114; 102; 99; 49; 48; 51; 54].
Definition k_rfc1123 : str := [114; 102; 99; 49; 49; 50; 51].
Definition k_rfc2822 : str := [114; 102; 99; 50; 56; 50; 50].
Definition k_rss : str := [114; 115; 115].
Definition en : str := [101; 110].

(* ------------------------------------------------------------------ cookie and rfc850 end in the token zz, which from_format does not
   support: every call raises ValueError ("Unsupported token: zz"), whatever the text *)
Lemma parse_unsupported_token rs zones lname loc now time fmt e :
  find_locale lname = Some loc ->
  forallb (fun p => match p with FLit _ => true | _ => false end) (ff_tokenize (S (length (re_escape fmt))) [] (re_escape fmt)) = false ->
  parse_pattern loc fmt = Raise e -> parse rs zones lname now time fmt = Raise e.
Proof.
  intros Hl Ht Hp. unfold parse. cbv zeta. rewrite Ht, Hl. unfold parse_pattern in Hp. cbv zeta in Hp.
  destruct (assemble loc (ff_tokenize (S (length (re_escape fmt))) [] (re_escape fmt))) as [els|e']; [discriminate Hp|].
  cbn [bind] in *. injection Hp as ->. reflexivity.
Qed.

Theorem from_format_rejects_cookie_rfc850 rs zones now time :
  parse rs zones en now time (nf k_cookie) = Raise E_ValueError /\ parse rs zones en now time (nf k_rfc850) = Raise E_ValueError.
Proof. split; apply (parse_unsupported_token rs zones en loc_en now time _ E_ValueError en_locale_is_en); vm_compute; reflexivity. Qed.

(* ------------------------------------------------------------------ atom / w3c:  YYYY-MM-DDTHH:mm:ssZ *)
Definition atom_re : re := match parse_pattern loc_en (nf k_atom) with Ok (_, r) => r | Raise _ => Eps end.
Definition atom_names : list str := [[89; 89; 89; 89]; [77; 77]; [68; 68]; [72; 72]; [109; 109]; [115; 115]; T_Z].
Lemma atom_pattern : parse_pattern loc_en (nf k_atom) = Ok (atom_names, atom_re).
Proof. vm_compute. reflexivity. Qed.
Lemma atom_blind : dblind atom_re = true. Proof. vm_compute. reflexivity. Qed.
Lemma nf_w3c : nf k_w3c = nf k_atom. Proof. reflexivity. Qed.
Definition atom_rep (sg : Z) : str :=
  [48; 48; 48; 48; 45; 48; 48; 45; 48; 48; 84; 48; 48; 58; 48; 48; 58; 48; 48; sg; 48; 48; 58; 48; 48].
Lemma atom_rep_search sg : sg = 43 \/ sg = 45 -> search_anchored atom_re (atom_rep sg) = true.
Proof. intros [-> | ->]; vm_compute; reflexivity. Qed.
Lemma atom_tokens : forallb (fun p => match p with FLit _ => true | _ => false end)
  (ff_tokenize (S (length (re_escape (nf k_atom)))) [] (re_escape (nf k_atom))) = false.
Proof. vm_compute. reflexivity. Qed.

Definition atom_text (t : pdt) : str :=
  render_0wd 4 (t_year t) ++ [45] ++ render_0wd 2 (t_month t) ++ [45] ++ render_0wd 2 (t_day t) ++ [84]
  ++ render_0wd 2 (t_hour t) ++ [58] ++ render_0wd 2 (t_minute t) ++ [58] ++ render_0wd 2 (t_second t) ++ format_offset t true.
Definition atom_caps (t : pdt) : caps :=
  [(T_Z, format_offset t true); ([115; 115], render_0wd 2 (t_second t)); ([109; 109], render_0wd 2 (t_minute t));
   ([72; 72], render_0wd 2 (t_hour t)); ([68; 68], render_0wd 2 (t_day t)); ([77; 77], render_0wd 2 (t_month t));
   ([89; 89; 89; 89], render_0wd 4 (t_year t))].

Lemma atom_matches t : dt_in_range t -> 1000 <= t_year t <= 9999 -> dt_widths t ->
  search_anchored atom_re (atom_text t) = true /\
  sub_matches (S (length (atom_text t))) atom_re (atom_text t) = Some [atom_caps t].
Proof.
  intros (Hy & Hm & Hd & Hh & Hmi & Hs & Hus & Htz & Hom & Hob) Hyear (Wm & Wd & Wh & Wmi & Ws & Wus).
  pose proof (field_digits 4 (t_year t) ltac:(lia) ltac:(cbn; lia)) as FY.
  pose proof (field_digits 2 (t_month t) ltac:(lia) ltac:(cbn; lia)) as FM.
  pose proof (field_digits 2 (t_day t) ltac:(lia) ltac:(cbn; lia)) as FD.
  pose proof (field_digits 2 (t_hour t) ltac:(lia) ltac:(cbn; lia)) as FH.
  pose proof (field_digits 2 (t_minute t) ltac:(lia) ltac:(cbn; lia)) as FMi.
  pose proof (field_digits 2 (t_second t) ltac:(lia) ltac:(cbn; lia)) as FS.
  pose proof (field_digits 2 (Z.abs (t_off t) / 3600) ltac:(lia) ltac:(cbn; lia)) as FOh.
  pose proof (field_digits 2 (Z.abs (t_off t) / 60 mod 60) ltac:(lia) ltac:(cbn; lia)) as FOm.
  change (Z.of_nat 4) with 4 in *. change (Z.of_nat 2) with 2 in *.
  unfold atom_text, atom_caps. rewrite (format_offset_minutes t true Htz Hom).
  set (sg := if 0 <=? t_off t then 43 else 45). assert (Hsg : sg = 43 \/ sg = 45) by (unfold sg; destruct (0 <=? t_off t); tauto).
  clearbody sg.
  explode FY. explode FM. explode FD. explode FH. explode FMi. explode FS. explode FOh. explode FOm.
  cbn [app].
  match goal with |- search_anchored _ ?s = true /\ _ => assert (F : Forall2 (simR atom_re) (atom_rep sg) s) end.
  { unfold atom_rep.
    repeat (constructor; [match goal with
                          | |- simR _ ?a ?a => apply simnl_refl
                          | |- simR _ 48 _ => apply (dblind_sim _ _ atom_blind); assumption end|]); constructor. }
  split.
  - rewrite (search_anchored_shape _ _ _ F). apply atom_rep_search. exact Hsg.
  - rewrite (sub_matches_shape _ _ _ _ F).
    destruct Hsg as [-> | ->]; cbn [length];
      match goal with |- option_map _ ?x = _ =>
        let v := eval vm_compute in x in replace x with v by (vm_compute; reflexivity) end;
      cbn [option_map map tx sub_at fst snd length Nat.sub firstn skipn]; reflexivity.
Qed.

Lemma atom_finish rs zones now t : dt_in_range t ->
  parse_finish rs zones loc_en atom_names [atom_caps t] now =
  Ok (t_year t, t_month t, t_day t, t_hour t, t_minute t, t_second t, 0, Some (TzFixed (t_off t))).
Proof.
  intros (Hy & Hm & Hd & Hh & Hmi & Hs & Hus & Htz & Hom & Hob).
  unfold parse_finish, atom_names, atom_caps. cbn [fold_matches].
  cbn [get_parsed_values assoc str_eqb Z.eqb Pos.eqb andb T_Z T_ZZ]; closed_existsb; cbv iota;
    rewrite parsed_YYYY by lia; cbn [bind get_parsed_values assoc str_eqb Z.eqb Pos.eqb andb];
    rewrite parsed_MM by lia; cbn [bind get_parsed_values assoc str_eqb Z.eqb Pos.eqb andb];
    rewrite parsed_DD by lia; cbn [bind get_parsed_values assoc str_eqb Z.eqb Pos.eqb andb];
    rewrite parsed_HH by lia; cbn [bind get_parsed_values assoc str_eqb Z.eqb Pos.eqb andb];
    rewrite parsed_mm by lia; cbn [bind get_parsed_values assoc str_eqb Z.eqb Pos.eqb andb];
    rewrite parsed_ss by lia; cbn [bind get_parsed_values assoc str_eqb Z.eqb Pos.eqb andb].
  change [90] with T_Z. rewrite (parsed_Z zones t _ Htz Hom Hob). reflexivity.
Qed.

(* from_format inverts to_atom_string / to_w3c_string (to the second: the microsecond is not written) *)
Theorem from_format_inverts_atom rs zones now t : dt_in_range t -> 1000 <= t_year t <= 9999 -> dt_widths t ->
  bind (string_helper [116;111;95;97;116;111;109;95;115;116;114;105;110;103] t) (fun s => parse rs zones en now s (nf k_atom)) =
  Ok (t_year t, t_month t, t_day t, t_hour t, t_minute t, t_second t, 0, Some (TzFixed (t_off t))) /\
  bind (string_helper [116;111;95;119;51;99;95;115;116;114;105;110;103] t) (fun s => parse rs zones en now s (nf k_w3c)) =
  Ok (t_year t, t_month t, t_day t, t_hour t, t_minute t, t_second t, 0, Some (TzFixed (t_off t))).
Proof.
  intros Hr Hy Hw. destruct (atom_matches t Hr Hy Hw) as [Hs Hm].
  rewrite atom_composition, w3c_composition, nf_w3c. rewrite (render_d_year4 _ Hy). fold (atom_text t). cbn [bind].
  rewrite (parse_match_ok rs zones en loc_en now _ _ _ atom_re _ en_locale_is_en atom_tokens atom_pattern eq_refl Hs Hm).
  split; apply atom_finish; exact Hr.
Qed.

(* ------------------------------------------------------------------ ddd, DD MMM YYYY HH:mm:ss ZZ (rfc1123, rfc2822, rss) and
   ddd, DD MMM YY HH:mm:ss ZZ (rfc822, rfc1036), locale en *)
Lemma nf_rfc2822 : nf k_rfc2822 = nf k_rfc1123. Proof. reflexivity. Qed.
Lemma nf_rss : nf k_rss = nf k_rfc1123. Proof. reflexivity. Qed.
Lemma nf_rfc1036 : nf k_rfc1036 = nf k_rfc822. Proof. reflexivity. Qed.

Definition pat_of (fmt : str) : re := match parse_pattern loc_en fmt with Ok (_, r) => r | Raise _ => Eps end.
Definition names_of (fmt : str) : list str := match parse_pattern loc_en fmt with Ok (n, _) => n | Raise _ => [] end.
Definition T_YY : str := [89; 89].
Definition T_YYYY : str := [89; 89; 89; 89].

Definition rfc_rep (wy : nat) (dn mn : str) (sg : Z) : str :=
  dn ++ [44; 32; 48; 48; 32] ++ mn ++ [32] ++ repeat 48 wy ++ [32; 48; 48; 58; 48; 48; 58; 48; 48; 32; sg; 48; 48; 48; 48].
(* the spans, read off one representative (Mon, Jan, +); the check below compares all the others with them *)
Definition rfc_exp (fmt : str) (wy : nat) : scaps :=
  match sub_matches_sp 40 (pat_of fmt) (rfc_rep wy [77; 111; 110] [74; 97; 110] 43) with Some [e] => e | _ => [] end.

Definition get_name (tbl : option (list (Z * str))) (k : Z) : str := match tbl_get tbl k with Ok s => s | Raise _ => [] end.
Definition rfc_chk (fmt : str) (wy : nat) (w m sg : Z) : bool :=
  let dn := get_name (l_days_abbr loc_en) w in let mn := get_name (l_months_abbr loc_en) m in
  let r := pat_of fmt in let s0 := rfc_rep wy dn mn sg in
  Nat.eqb (length dn) 3 && Nat.eqb (length mn) 3 && search_anchored r s0
  && matches_eqb (sub_matches_sp (S (length s0)) r s0) [rfc_exp fmt wy]
  && (match match_translation (l_days_abbr loc_en) dn with Ok (Some k) => k =? w | _ => false end)
  && (match match_translation (l_months_abbr loc_en) mn with Ok (Some k) => k =? m | _ => false end)
  && (match tbl_get (l_days_abbr loc_en) w, tbl_get (l_months_abbr loc_en) m with Ok _, Ok _ => true | _, _ => false end).
Definition rfc_chk_all (fmt : str) (wy : nat) : bool :=
  forallb (fun w => forallb (fun m => forallb (fun sg => rfc_chk fmt wy w m sg) [43; 45]) months12) days7.
Lemma rfc1123_chk_all : rfc_chk_all (nf k_rfc1123) 4 = true. Proof. vm_compute. reflexivity. Qed.
Lemma rfc822_chk_all : rfc_chk_all (nf k_rfc822) 2 = true. Proof. vm_compute. reflexivity. Qed.
Lemma rfc1123_blind : dblind (pat_of (nf k_rfc1123)) = true. Proof. vm_compute. reflexivity. Qed.
Lemma rfc822_blind : dblind (pat_of (nf k_rfc822)) = true. Proof. vm_compute. reflexivity. Qed.
Lemma rfc1123_pattern : parse_pattern loc_en (nf k_rfc1123) = Ok ([T_ddd; [68; 68]; T_MMM; T_YYYY; [72; 72]; [109; 109]; [115; 115]; T_ZZ], pat_of (nf k_rfc1123)).
Proof. vm_compute. reflexivity. Qed.
Lemma rfc822_pattern : parse_pattern loc_en (nf k_rfc822) = Ok ([T_ddd; [68; 68]; T_MMM; T_YY; [72; 72]; [109; 109]; [115; 115]; T_ZZ], pat_of (nf k_rfc822)).
Proof. vm_compute. reflexivity. Qed.
Lemma rfc1123_tokens : forallb (fun p => match p with FLit _ => true | _ => false end)
  (ff_tokenize (S (length (re_escape (nf k_rfc1123)))) [] (re_escape (nf k_rfc1123))) = false. Proof. vm_compute. reflexivity. Qed.
Lemma rfc822_tokens : forallb (fun p => match p with FLit _ => true | _ => false end)
  (ff_tokenize (S (length (re_escape (nf k_rfc822)))) [] (re_escape (nf k_rfc822))) = false. Proof. vm_compute. reflexivity. Qed.

Lemma rfc_chk_use fmt wy w m sg : rfc_chk_all fmt wy = true -> 0 <= w <= 6 -> 1 <= m <= 12 -> sg = 43 \/ sg = 45 -> rfc_chk fmt wy w m sg = true.
Proof.
  intros A Hw Hm Hsg. unfold rfc_chk_all in A.
  pose proof (proj1 (forallb_forall _ _) A w (days7_in w Hw)) as A1. cbv beta in A1.
  pose proof (proj1 (forallb_forall _ _) A1 m (months12_in m Hm)) as A2. cbv beta in A2.
  apply (proj1 (forallb_forall _ _) A2 sg). destruct Hsg as [-> | ->]; cbn [In]; tauto.
Qed.

Lemma parsed_YY zones v p : 0 <= v -> get_parsed_value zones T_YY (render_0wd 2 v) p = Ok (set_year (Some (if v <=? 68 then v + 2000 else v + 1900)) p).
Proof. unfold T_YY. gpv v. Qed.

Lemma check_parsed_dow_time rs y m d hh mi ss tz now : date_ok y m d = true ->
  check_parsed rs (mkparsed (Some y) (Some m) (Some d) (Some hh) (Some mi) (Some ss) None tz None (Some (weekday0 (ymd2ord y m d))) None None None) now =
  Ok (y, m, d, hh, mi, ss, 0, tz).
Proof.
  intros V. pose proof (ymd2ord_range y m d V) as R.
  assert (Vb : valid_dateb y m d = true) by (unfold date_ok in V; apply andb_true_iff in V; tauto).
  pose proof (proj1 (valid_dateb_true y m d) Vb) as [Bm Bd].
  unfold check_parsed. cbn [p_ts]. unfold check_parsed_fields.
  cbn [p_quarter p_year p_month p_day p_doy p_dow p_pm p_hour p_minute p_second p_micro p_tz p_ts bind].
  unfold or_else. replace (m =? 0) with false by lia. replace (d =? 0) with false by lia. rewrite V. cbn [negb].
  set (n := ymd2ord y m d) in *. unfold weekday0.
  replace (((n + 6) mod 7 <? 0) || (6 <? (n + 6) mod 7)) with false by lia.
  replace (n - (n + 6) mod 7 + (n + 6) mod 7) with n by lia.
  replace ((n <? 1) || (3652059 <? n)) with false by lia.
  unfold n. rewrite (ord2ymd_ymd2ord y m d Vb). cbn [bind]. reflexivity.
Qed.

Definition rfc_text (ytext : str) (t : pdt) (dn mn : str) : str :=
  dn ++ [44] ++ [32] ++ render_0wd 2 (t_day t) ++ [32] ++ mn ++ [32] ++ ytext ++ [32]
  ++ render_0wd 2 (t_hour t) ++ [58] ++ render_0wd 2 (t_minute t) ++ [58] ++ render_0wd 2 (t_second t) ++ [32] ++ format_offset t false.
Definition rfc_caps (ytok ytext : str) (t : pdt) (dn mn : str) : caps :=
  [(T_ZZ, format_offset t false); ([115; 115], render_0wd 2 (t_second t)); ([109; 109], render_0wd 2 (t_minute t));
   ([72; 72], render_0wd 2 (t_hour t)); (ytok, ytext); (T_MMM, mn); ([68; 68], render_0wd 2 (t_day t)); (T_ddd, dn)].

Lemma rfc_chk_parts fmt wy w m sg : rfc_chk fmt wy w m sg = true ->
  exists dn mn, tbl_get (l_days_abbr loc_en) w = Ok dn /\ tbl_get (l_months_abbr loc_en) m = Ok mn /\
    length dn = 3%nat /\ length mn = 3%nat /\ search_anchored (pat_of fmt) (rfc_rep wy dn mn sg) = true /\
    sub_matches_sp (S (length (rfc_rep wy dn mn sg))) (pat_of fmt) (rfc_rep wy dn mn sg) = Some [rfc_exp fmt wy] /\
    match_translation (l_days_abbr loc_en) dn = Ok (Some w) /\ match_translation (l_months_abbr loc_en) mn = Ok (Some m).
Proof.
  unfold rfc_chk, get_name. cbv zeta. intros C.
  apply andb_true_iff in C. destruct C as [C C7]. apply andb_true_iff in C. destruct C as [C C6]. apply andb_true_iff in C. destruct C as [C C5].
  apply andb_true_iff in C. destruct C as [C C4]. apply andb_true_iff in C. destruct C as [C C3]. apply andb_true_iff in C. destruct C as [C1 C2].
  destruct (tbl_get (l_days_abbr loc_en) w) as [dn|]; [|discriminate C7]. destruct (tbl_get (l_months_abbr loc_en) m) as [mn|]; [|discriminate C7].
  exists dn, mn. apply Nat.eqb_eq in C1, C2. apply matches_eqb_eq in C4.
  repeat split; try assumption.
  - destruct (match_translation (l_days_abbr loc_en) dn) as [[k|]|]; try discriminate C5. apply Z.eqb_eq in C5. subst. reflexivity.
  - destruct (match_translation (l_months_abbr loc_en) mn) as [[k|]|]; try discriminate C6. apply Z.eqb_eq in C6. subst. reflexivity.
Qed.

Ltac explode3 l L := destruct l as [|? [|? [|? [|? ?]]]]; try discriminate L; clear L.

Ltac rfc_match_tac blind :=
  match goal with |- search_anchored ?r ?s = true /\ _ => idtac end.

Lemma rfc_matches fmt wy ytok ytext t dn mn sg :
  dblind (pat_of fmt) = true -> all_digits ytext -> length ytext = wy -> (wy = 4%nat \/ wy = 2%nat) ->
  dt_in_range t -> dt_widths t -> sg = (if 0 <=? t_off t then 43 else 45) ->
  length dn = 3%nat -> length mn = 3%nat -> search_anchored (pat_of fmt) (rfc_rep wy dn mn sg) = true ->
  sub_matches_sp (S (length (rfc_rep wy dn mn sg))) (pat_of fmt) (rfc_rep wy dn mn sg) = Some [rfc_exp fmt wy] ->
  (forall a b c d e f, tx (rfc_text ytext t [a; b; c] [d; e; f]) (rfc_exp fmt wy) = rfc_caps ytok ytext t [a; b; c] [d; e; f]) ->
  search_anchored (pat_of fmt) (rfc_text ytext t dn mn) = true /\
  sub_matches (S (length (rfc_text ytext t dn mn))) (pat_of fmt) (rfc_text ytext t dn mn) = Some [rfc_caps ytok ytext t dn mn].
Proof.
  intros Hb DYt LYt Hwy (Hy & Hm & Hd & Hh & Hmi & Hs & Hus & Htz & Hom & Hob) (Wm & Wd & Wh & Wmi & Ws & Wus) Hsg Ldn Lmn Hsr Hsp Htx.
  assert (F : Forall2 (simR (pat_of fmt)) (rfc_rep wy dn mn sg) (rfc_text ytext t dn mn)).
  { unfold rfc_rep, rfc_text. rewrite (format_offset_minutes t false Htz Hom). rewrite <- Hsg.
    pose proof (field_digits 2 (t_day t) ltac:(lia) ltac:(cbn; lia)) as [DD LD].
    pose proof (field_digits 2 (t_hour t) ltac:(lia) ltac:(cbn; lia)) as [DH LH].
    pose proof (field_digits 2 (t_minute t) ltac:(lia) ltac:(cbn; lia)) as [DMi LMi].
    pose proof (field_digits 2 (t_second t) ltac:(lia) ltac:(cbn; lia)) as [DS LS].
    pose proof (field_digits 2 (Z.abs (t_off t) / 3600) ltac:(lia) ltac:(cbn; lia)) as [DOh LOh].
    pose proof (field_digits 2 (Z.abs (t_off t) / 60 mod 60) ltac:(lia) ltac:(cbn; lia)) as [DOm LOm].
    change (Z.of_nat 2) with 2 in *.
    apply Forall2_app; [apply Forall2_sim_refl|].
    change [44; 32; 48; 48; 32] with ([44] ++ [32] ++ repeat 48 2 ++ [32]). rewrite <- LD at 1. rewrite <- !app_assoc.
    apply Forall2_app; [apply Forall2_sim_refl|]. apply Forall2_app; [apply Forall2_sim_refl|].
    apply Forall2_app; [apply Forall2_sim_zeros; assumption|]. apply Forall2_app; [apply Forall2_sim_refl|].
    apply Forall2_app; [apply Forall2_sim_refl|]. apply Forall2_app; [apply Forall2_sim_refl|].
    rewrite <- LYt. apply Forall2_app; [apply Forall2_sim_zeros; assumption|].
    change [32; 48; 48; 58; 48; 48; 58; 48; 48; 32; sg; 48; 48; 48; 48]
      with ([32] ++ repeat 48 2 ++ [58] ++ repeat 48 2 ++ [58] ++ repeat 48 2 ++ [32] ++ sg :: repeat 48 2 ++ [] ++ repeat 48 2).
    rewrite <- LH at 1. rewrite <- LMi at 1. rewrite <- LS at 1. rewrite <- LOh at 1. rewrite <- LOm.
    repeat (apply Forall2_app; [first [apply Forall2_sim_zeros; assumption | apply Forall2_sim_refl]|]).
    constructor; [apply simnl_refl|].
    repeat (apply Forall2_app; [first [apply Forall2_sim_zeros; assumption | apply Forall2_sim_refl]|]).
    apply Forall2_sim_zeros; assumption. }
  split; [rewrite (search_anchored_shape _ _ _ F); exact Hsr|].
  rewrite (sub_matches_shape _ _ _ _ F).
  rewrite <- (Forall2_len (simR (pat_of fmt)) _ _ F), Hsp. cbn [option_map map].
  explode3 dn Ldn. explode3 mn Lmn. rewrite Htx. reflexivity.
Qed.

Ltac rfc_tx_tac wy ytextfact :=
  intros a b c d0 e f;
  match goal with Hr : dt_in_range ?t, Hw : dt_widths ?t |- _ =>
    destruct Hr as (Hy & Hm & Hd & Hh & Hmi & Hs & Hus & Htz & Hom & Hob); destruct Hw as (Wm & Wd & Wh & Wmi & Ws & Wus);
    pose proof (field_digits 2 (t_day t) ltac:(lia) ltac:(cbn; lia)) as FD;
    pose proof (field_digits 2 (t_hour t) ltac:(lia) ltac:(cbn; lia)) as FH;
    pose proof (field_digits 2 (t_minute t) ltac:(lia) ltac:(cbn; lia)) as FMi;
    pose proof (field_digits 2 (t_second t) ltac:(lia) ltac:(cbn; lia)) as FS;
    pose proof (field_digits 2 (Z.abs (t_off t) / 3600) ltac:(lia) ltac:(cbn; lia)) as FOh;
    pose proof (field_digits 2 (Z.abs (t_off t) / 60 mod 60) ltac:(lia) ltac:(cbn; lia)) as FOm;
    pose proof ytextfact as FY;
    change (Z.of_nat 4) with 4 in *; change (Z.of_nat 2) with 2 in *;
    unfold rfc_text, rfc_caps; rewrite (format_offset_minutes t false Htz Hom);
    generalize (if 0 <=? t_off t then 43 else 45); intros sg;
    explode FY; explode FD; explode FH; explode FMi; explode FS; explode FOh; explode FOm;
    cbn [app];
    match goal with |- tx _ ?x = _ => let v := eval vm_compute in x in replace x with v by (vm_compute; reflexivity) end;
    cbn [map tx sub_at fst snd length Nat.sub firstn skipn]; reflexivity
  end.

Lemma rfc1123_tx t : dt_in_range t -> 1000 <= t_year t <= 9999 -> dt_widths t ->
  forall a b c d e f, tx (rfc_text (render_0wd 4 (t_year t)) t [a; b; c] [d; e; f]) (rfc_exp (nf k_rfc1123) 4) =
                      rfc_caps T_YYYY (render_0wd 4 (t_year t)) t [a; b; c] [d; e; f].
Proof. intros Hr Hyr Hw. rfc_tx_tac 4%nat (field_digits 4 (t_year t) ltac:(lia) ltac:(cbn; lia)). Qed.

Lemma rfc822_tx t : dt_in_range t -> 1000 <= t_year t <= 9999 -> dt_widths t ->
  forall a b c d e f, tx (rfc_text (render_0wd 2 (t_year t mod 100)) t [a; b; c] [d; e; f]) (rfc_exp (nf k_rfc822) 2) =
                      rfc_caps T_YY (render_0wd 2 (t_year t mod 100)) t [a; b; c] [d; e; f].
Proof. intros Hr Hyr Hw. rfc_tx_tac 2%nat (field_digits 2 (t_year t mod 100) ltac:(lia) ltac:(cbn; lia)). Qed.

Ltac gpv_step2 :=
  cbn [get_parsed_values assoc str_eqb Z.eqb Pos.eqb andb T_MMMM T_MMM T_dddd T_ddd T_YY T_YYYY T_Z T_ZZ]; closed_existsb; cbv iota.

Lemma rfc_finish rs zones now ytok ytext yv t dn mn :
  (ytok = T_YYYY \/ ytok = T_YY) ->
  (forall p, get_parsed_value zones ytok ytext p = Ok (set_year (Some yv) p)) ->
  dt_in_range t -> date_ok yv (t_month t) (t_day t) = true ->
  match_translation (l_days_abbr loc_en) dn = Ok (Some (weekday0 (ymd2ord yv (t_month t) (t_day t)))) ->
  match_translation (l_months_abbr loc_en) mn = Ok (Some (t_month t)) ->
  parse_finish rs zones loc_en [T_ddd; [68; 68]; T_MMM; ytok; [72; 72]; [109; 109]; [115; 115]; T_ZZ] [rfc_caps ytok ytext t dn mn] now =
  Ok (yv, t_month t, t_day t, t_hour t, t_minute t, t_second t, 0, Some (TzFixed (t_off t))).
Proof.
  intros Hyt HY (Hy & Hm & Hd & Hh & Hmi & Hs & Hus & Htz & Hom & Hob) Vok Hdn Hmn.
  unfold parse_finish, rfc_caps. cbn [fold_matches].
  destruct Hyt as [-> | ->]; gpv_step2;
    (unfold get_parsed_locale_value at 1; cbn [str_eqb Z.eqb Pos.eqb andb T_MMMM T_MMM T_Do T_dddd T_ddd]; rewrite Hdn; cbn [bind]; gpv_step2);
    (rewrite parsed_DD by lia; cbn [bind]; gpv_step2);
    (unfold get_parsed_locale_value at 1; cbn [str_eqb Z.eqb Pos.eqb andb T_MMMM T_MMM T_Do T_dddd T_ddd]; rewrite Hmn; cbn [bind]; gpv_step2);
    (rewrite HY; cbn [bind]; gpv_step2);
    (rewrite parsed_HH by lia; cbn [bind]; gpv_step2);
    (rewrite parsed_mm by lia; cbn [bind]; gpv_step2);
    (rewrite parsed_ss by lia; cbn [bind]; gpv_step2);
    (change [90; 90] with T_ZZ; rewrite (parsed_ZZ zones t _ Htz Hom Hob); cbn [bind get_parsed_values]);
    cbn [set_year set_month set_day set_dow set_hour set_minute set_second set_tz p_year p_month p_day p_hour p_minute p_second p_micro p_tz p_quarter p_dow p_doy p_pm p_ts parsed0];
    apply check_parsed_dow_time; exact Vok.
Qed.

Definition helper_rfc1123 : str := [116;111;95;114;102;99;49;49;50;51;95;115;116;114;105;110;103].
Definition helper_rfc2822 : str := [116;111;95;114;102;99;50;56;50;50;95;115;116;114;105;110;103].
Definition helper_rss : str := [116;111;95;114;115;115;95;115;116;114;105;110;103].
Definition helper_rfc822 : str := [116;111;95;114;102;99;56;50;50;95;115;116;114;105;110;103].
Definition helper_rfc1036 : str := [116;111;95;114;102;99;49;48;51;54;95;115;116;114;105;110;103].

Definition named_dt_ok (t : pdt) : Prop :=
  dt_in_range t /\ dt_widths t /\ 1000 <= t_year t <= 9999 /\ date_ok (t_year t) (t_month t) (t_day t) = true.

(* ddd, DD MMM YYYY HH:mm:ss ZZ *)
Lemma rfc1123_core rs zones now t : named_dt_ok t ->
  forall dn mn, tbl_get (l_days_abbr loc_en) (weekday0 (ordn t)) = Ok dn -> tbl_get (l_months_abbr loc_en) (t_month t) = Ok mn ->
  parse rs zones en now (rfc_text (render_0wd 4 (t_year t)) t dn mn) (nf k_rfc1123) =
  Ok (t_year t, t_month t, t_day t, t_hour t, t_minute t, t_second t, 0, Some (TzFixed (t_off t))).
Proof.
  intros (Hr & Hw & Hy & Hok) dn mn Hdn Hmn.
  pose proof (date_ok_bounds _ _ _ Hok) as (By & Bm & Bd).
  assert (Wr : 0 <= weekday0 (ordn t) <= 6) by (unfold weekday0; lia).
  set (sg := if 0 <=? t_off t then 43 else 45).
  assert (Hsg : sg = 43 \/ sg = 45) by (unfold sg; destruct (0 <=? t_off t); tauto).
  destruct (rfc_chk_parts _ _ _ _ _ (rfc_chk_use _ _ (weekday0 (ordn t)) (t_month t) sg rfc1123_chk_all Wr Bm Hsg))
    as (dn' & mn' & E1 & E2 & Ldn & Lmn & Hsr & Hsp & Tdn & Tmn).
  rewrite Hdn in E1. rewrite Hmn in E2. injection E1 as <-. injection E2 as <-.
  pose proof (field_digits 4 (t_year t) ltac:(lia) ltac:(cbn; lia)) as [DY LY]. change (Z.of_nat 4) with 4 in DY, LY.
  destruct (rfc_matches (nf k_rfc1123) 4 T_YYYY (render_0wd 4 (t_year t)) t dn mn sg rfc1123_blind DY LY ltac:(left; reflexivity)
              Hr Hw eq_refl Ldn Lmn Hsr Hsp (rfc1123_tx t Hr Hy Hw)) as [Hs Hm].
  rewrite (parse_match_ok rs zones en loc_en now _ _ _ _ _ en_locale_is_en rfc1123_tokens rfc1123_pattern eq_refl Hs Hm).
  apply (rfc_finish rs zones now T_YYYY _ (t_year t) t dn mn); try assumption.
  - left; reflexivity.
  - intros p. apply parsed_YYYY. lia.
Qed.

Theorem from_format_inverts_rfc1123_rfc2822_rss rs zones now t : named_dt_ok t ->
  bind (string_helper helper_rfc1123 t) (fun s => parse rs zones en now s (nf k_rfc1123)) =
    Ok (t_year t, t_month t, t_day t, t_hour t, t_minute t, t_second t, 0, Some (TzFixed (t_off t))) /\
  bind (string_helper helper_rfc2822 t) (fun s => parse rs zones en now s (nf k_rfc2822)) =
    Ok (t_year t, t_month t, t_day t, t_hour t, t_minute t, t_second t, 0, Some (TzFixed (t_off t))) /\
  bind (string_helper helper_rss t) (fun s => parse rs zones en now s (nf k_rss)) =
    Ok (t_year t, t_month t, t_day t, t_hour t, t_minute t, t_second t, 0, Some (TzFixed (t_off t))).
Proof.
  intros Hok. pose proof Hok as (Hr & Hw & Hy & Hd). pose proof (date_ok_bounds _ _ _ Hd) as (By & Bm & Bd).
  assert (Wr : 0 <= weekday0 (ordn t) <= 6) by (unfold weekday0; lia).
  all: unfold helper_rfc1123, helper_rfc2822, helper_rss; rewrite rfc1123_composition, rfc2822_composition, rss_composition, nf_rfc2822, nf_rss.
  all: destruct (tbl_get (l_days_abbr loc_en) (weekday0 (ordn t))) as [dn|] eqn:Hdn.
  all: destruct (tbl_get (l_months_abbr loc_en) (t_month t)) as [mn|] eqn:Hmn'.
  all: cbn [bind]; rewrite ?(render_d_year4 _ Hy).
  all: try (fold (rfc_text (render_0wd 4 (t_year t)) t dn mn); rewrite (rfc1123_core rs zones now t Hok dn mn Hdn Hmn'); tauto).
  all: exfalso.
  all: set (sg := if 0 <=? t_off t then 43 else 45); assert (Hsg : sg = 43 \/ sg = 45) by (unfold sg; destruct (0 <=? t_off t); tauto);
       destruct (rfc_chk_parts _ _ _ _ _ (rfc_chk_use _ _ (weekday0 (ordn t)) (t_month t) sg rfc1123_chk_all Wr Bm Hsg)) as (dn' & mn' & E1 & E2 & _);
       congruence.
Qed.

(* ddd, DD MMM YY HH:mm:ss ZZ: the two-digit year is read back into 1969..2068 *)
Lemma rfc822_core rs zones now t : named_dt_ok t -> 1969 <= t_year t <= 2068 ->
  forall dn mn, tbl_get (l_days_abbr loc_en) (weekday0 (ordn t)) = Ok dn -> tbl_get (l_months_abbr loc_en) (t_month t) = Ok mn ->
  parse rs zones en now (rfc_text (render_0wd 2 (t_year t mod 100)) t dn mn) (nf k_rfc822) =
  Ok (t_year t, t_month t, t_day t, t_hour t, t_minute t, t_second t, 0, Some (TzFixed (t_off t))).
Proof.
  intros (Hr & Hw & Hy & Hok) Hwin dn mn Hdn Hmn.
  pose proof (date_ok_bounds _ _ _ Hok) as (By & Bm & Bd).
  assert (Wr : 0 <= weekday0 (ordn t) <= 6) by (unfold weekday0; lia).
  set (sg := if 0 <=? t_off t then 43 else 45).
  assert (Hsg : sg = 43 \/ sg = 45) by (unfold sg; destruct (0 <=? t_off t); tauto).
  destruct (rfc_chk_parts _ _ _ _ _ (rfc_chk_use _ _ (weekday0 (ordn t)) (t_month t) sg rfc822_chk_all Wr Bm Hsg))
    as (dn' & mn' & E1 & E2 & Ldn & Lmn & Hsr & Hsp & Tdn & Tmn).
  rewrite Hdn in E1. rewrite Hmn in E2. injection E1 as <-. injection E2 as <-.
  pose proof (field_digits 2 (t_year t mod 100) ltac:(lia) ltac:(cbn; lia)) as [DY LY]. change (Z.of_nat 2) with 2 in DY, LY.
  destruct (rfc_matches (nf k_rfc822) 2 T_YY (render_0wd 2 (t_year t mod 100)) t dn mn sg rfc822_blind DY LY ltac:(right; reflexivity)
              Hr Hw eq_refl Ldn Lmn Hsr Hsp (rfc822_tx t Hr Hy Hw)) as [Hs Hm].
  rewrite (parse_match_ok rs zones en loc_en now _ _ _ _ _ en_locale_is_en rfc822_tokens rfc822_pattern eq_refl Hs Hm).
  apply (rfc_finish rs zones now T_YY _ (t_year t) t dn mn); try assumption.
  - right; reflexivity.
  - intros p. rewrite parsed_YY by lia. do 3 f_equal. destruct (t_year t mod 100 <=? 68) eqn:C; lia.
Qed.

Theorem from_format_inverts_rfc822_rfc1036 rs zones now t : named_dt_ok t -> 1969 <= t_year t <= 2068 ->
  bind (string_helper helper_rfc822 t) (fun s => parse rs zones en now s (nf k_rfc822)) =
    Ok (t_year t, t_month t, t_day t, t_hour t, t_minute t, t_second t, 0, Some (TzFixed (t_off t))) /\
  bind (string_helper helper_rfc1036 t) (fun s => parse rs zones en now s (nf k_rfc1036)) =
    Ok (t_year t, t_month t, t_day t, t_hour t, t_minute t, t_second t, 0, Some (TzFixed (t_off t))).
Proof.
  intros Hok Hwin. pose proof Hok as (Hr & Hw & Hy & Hd). pose proof (date_ok_bounds _ _ _ Hd) as (By & Bm & Bd).
  assert (Wr : 0 <= weekday0 (ordn t) <= 6) by (unfold weekday0; lia).
  unfold helper_rfc822, helper_rfc1036. rewrite rfc822_composition, rfc1036_composition, nf_rfc1036.
  destruct (tbl_get (l_days_abbr loc_en) (weekday0 (ordn t))) as [dn|] eqn:Hdn;
  destruct (tbl_get (l_months_abbr loc_en) (t_month t)) as [mn|] eqn:Hmn';
  cbn [bind]; rewrite ?(render_yy _ Hy);
  try (fold (rfc_text (render_0wd 2 (t_year t mod 100)) t dn mn); rewrite (rfc822_core rs zones now t Hok Hwin dn mn Hdn Hmn'); tauto);
  exfalso;
  set (sg := if 0 <=? t_off t then 43 else 45); assert (Hsg : sg = 43 \/ sg = 45) by (unfold sg; destruct (0 <=? t_off t); tauto);
  destruct (rfc_chk_parts _ _ _ _ _ (rfc_chk_use _ _ (weekday0 (ordn t)) (t_month t) sg rfc822_chk_all Wr Bm Hsg)) as (dn' & mn' & E1 & E2 & _);
  congruence.
Qed.

(* outside that window the century is lost AND the weekday name then pulls the date to another day: 2069-07-06 comes back as 1969-07-05 *)
Lemma rfc822_outside_window_witness :
  bind (string_helper helper_rfc822 (mkpdt 2069 7 6 13 14 15 0 true 19800 [] [])) (fun s => parse false [] en (mknow 2021 3 4) s (nf k_rfc822)) =
  Ok (1969, 7, 5, 13, 14, 15, 0, Some (TzFixed 19800)).
Proof. vm_compute. reflexivity. Qed.

Example named_hyps_satisfiable : named_dt_ok (mkpdt 2024 7 6 13 14 15 0 true 19800 [] []).
Proof. unfold named_dt_ok, dt_in_range, dt_widths. cbn. repeat split; try lia; reflexivity. Qed.
