(* Proofs/C18Cross.v (C18) — magnitude of DateTime.diff(other) for two aware datetimes in differently named zones, at ANY offsets
   (in particular when an endpoint is the second occurrence of a repeated wall time): the translated pure-Python precise_diff moves both
   operands to UTC with their own offsets, so its result satisfies C06's arithmetic specification pd_spec on the two UTC readings. *)
From Coq Require Import ZArith List Bool String Lia ZifyBool.
From PV Require Import Lib.PyBase Spec.Cal Proofs.CalFacts Gen.Constants Gen.Helpers Model.PdBase Gen.PreciseDiff Model.RustPreciseDiff Model.PdInterval.
From PV Require Import Proofs.C06Facts Proofs.C06Spec Proofs.C06Rebuild Proofs.C06Thms.
From PV Require Import Model.LocaleBase Gen.Locales Model.DiffFormat Model.DiffHumans Proofs.C18Facts Proofs.C18Diff.
Import ListNotations.
Ltac Zify.zify_post_hook ::= Z.to_euclidean_division_equations.
Open Scope Z_scope.

(* the UTC reading of an operand: the wall fields of its instant, offset 0, same tzinfo *)
Definition utc_of (d : pdt) : pdt :=
  let '(y, m, dd, hh, mm, ss, us) := fields_of_wall (p_instant d) in
  mkpdt y m dd hh mm ss us 0 (p_has_tz d) (p_tzname d) (p_tzobj d) (p_is_dt d).

Lemma fields_of_wall_spec w :
  let '(y, m, d, hh, mm, ss, us) := fields_of_wall w in
  valid_dateb y m d = true /\ 0 <= hh <= 23 /\ 0 <= mm <= 59 /\ 0 <= ss <= 59 /\ 0 <= us <= 999999 /\ wall_of y m d hh mm ss us = w.
Proof.
  unfold fields_of_wall. cbv zeta.
  pose proof (ord2ymd_spec (w / us_per_day + 1)) as S.
  destruct (ord2ymd (w / us_per_day + 1)) as [[y m] d]. destruct S as [V O].
  split; [exact V|]. unfold wall_of. rewrite O. unfold us_per_day in *.
  assert (0 <= w mod 86400000000 < 86400000000) by (apply Z.mod_pos_bound; lia).
  repeat split; try lia.
Qed.

Lemma utc_of_wf d : wf_op (utc_of d) /\ p_wall (utc_of d) = p_instant d.
Proof.
  unfold utc_of. pose proof (fields_of_wall_spec (p_instant d)) as S.
  destruct (fields_of_wall (p_instant d)) as [[[[[[y m] dd] hh] mm] ss] us].
  destruct S as (V & Hh & Hm & Hs & Hu & W).
  unfold wf_op, wf_time, p_wall. cbn [p_year p_month p_day p_hour p_minute p_second p_microsecond p_offset]. tauto.
Qed.

(* what precise_diff computes with after `if offset: d = d - timedelta(seconds=offset)` *)
Definition shifted (d : pdt) : pdt := if negb (p_offset d =? 0) then p_shift d (p_offset d) else d.

Lemma shifted_fields d : valid_dateb (p_year d) (p_month d) (p_day d) = true -> wf_time d ->
  p_year (shifted d) = p_year (utc_of d) /\ p_month (shifted d) = p_month (utc_of d) /\ p_day (shifted d) = p_day (utc_of d) /\
  p_hour (shifted d) = p_hour (utc_of d) /\ p_minute (shifted d) = p_minute (utc_of d) /\ p_second (shifted d) = p_second (utc_of d) /\
  p_microsecond (shifted d) = p_microsecond (utc_of d) /\ p_is_dt (shifted d) = p_is_dt d.
Proof.
  intros V (Hh & Hm & Hs & Hu). unfold shifted, utc_of.
  destruct (p_offset d =? 0) eqn:E; cbn [negb].
  - assert (Ei : p_instant d = p_wall d) by (unfold p_instant; lia). rewrite Ei. unfold p_wall.
    rewrite fields_of_wall_of by assumption. cbn. repeat split; reflexivity.
  - unfold p_shift, p_of_wall. change (p_wall d - p_offset d * 1000000) with (p_instant d).
    destruct (fields_of_wall (p_instant d)) as [[[[[[y m] dd] hh] mm] ss] us]. cbn. repeat split; reflexivity.
Qed.

Definition cross_pair (a b : pdt) : Prop :=
  valid_dateb (p_year a) (p_month a) (p_day a) = true /\ wf_time a /\ valid_dateb (p_year b) (p_month b) (p_day b) = true /\ wf_time b /\
  p_is_dt a = true /\ p_is_dt b = true /\ p_has_tz a = true /\ p_has_tz b = true /\
  p_tzobj a <> p_tzobj b /\ tzname_same (p_tzname a) (p_tzname b) = false.

Lemma py_pd_spec_cross a b : cross_pair a b -> p_instant a < p_instant b ->
  match py_precise_diff a b with Ok r => pd_spec (utc_of a) (utc_of b) r | Raise _ => False end.
Proof.
  intros (Va0 & Ta0 & Vb0 & Tb0 & Da & Db & Za & Zb & Hobj & Hname) Hlt.
  assert (Aa : p_aware a = true) by (unfold p_aware; rewrite Da, Za; reflexivity).
  assert (Ab : p_aware b = true) by (unfold p_aware; rewrite Db, Zb; reflexivity).
  assert (Kx : forall x, p_is_dt x = true -> p_key a b x = p_instant x).
  { intros x Hx. unfold p_key. rewrite Hx, Aa, Ab. cbn [negb andb]. replace (p_tzobj a =? p_tzobj b) with false by lia. reflexivity. }
  assert (Eq : p_eqb a b = false) by (unfold p_eqb; rewrite (Kx a Da), (Kx b Db); lia).
  assert (Gt : p_gtb a b = false) by (unfold p_gtb; rewrite (Kx a Da), (Kx b Db); lia).
  assert (Ua : p_utcoffset a = p_offset a) by (unfold p_utcoffset; rewrite Aa; reflexivity).
  assert (Ub : p_utcoffset b = p_offset b) by (unfold p_utcoffset; rewrite Ab; reflexivity).
  pose proof (shifted_fields a Va0 Ta0) as (A1 & A2 & A3 & A4 & A5 & A6 & A7 & A8).
  pose proof (shifted_fields b Vb0 Tb0) as (B1' & B2' & B3' & B4' & B5' & B6' & B7' & B8').
  unfold shifted in *.
  unfold py_precise_diff. rewrite Eq, Gt.
  unfold tz_is_none, tzinfo_of, tz_truthy, tz_name_of. cbn [fst snd]. rewrite Aa, Ab. cbn [negb andb orb].
  rewrite Hname. cbv beta iota zeta. cbn [negb orb]. rewrite Ua, Ub, Db.
  rewrite Da.
  set (X := if negb (p_offset a =? 0) then p_shift a (p_offset a) else a) in *.
  set (Y := if negb (p_offset b =? 0) then p_shift b (p_offset b) else b) in *.
  clearbody X Y.
  destruct X as [xy xm xd xh xi xs xu xo xt xn xb xk]. destruct Y as [yy ym yd yh yi ys yu yo yt yn yb yk].
  cbn [p_year p_month p_day p_hour p_minute p_second p_microsecond p_is_dt] in A1, A2, A3, A4, A5, A6, A7, A8, B1', B2', B3', B4', B5', B6', B7', B8'.
  subst xy xm xd xh xi xs xu xk yy ym yd yh yi ys yu yk.
  destruct (utc_of_wf a) as ((Va & Ta & _) & Wa). destruct (utc_of_wf b) as ((Vb & Tb & _) & Wb).
  set (a' := utc_of a) in *. set (b' := utc_of b) in *.
  assert (Hlt' : p_wall a' < p_wall b') by lia.
  clearbody a' b'.
  clear Va0 Ta0 Vb0 Tb0 Za Zb Hobj Hname Hlt Aa Ab Kx Eq Gt Ua Ub Wa Wb.
  pose proof (wall_le_split a' b' Ta Tb ltac:(lia)) as Hsplit.
  assert (Hlex := fun H => ord_le_lex a' b' Va Vb H).
  pose proof (same_date_tod a' b') as Hsame. specialize (fun e1 e2 e3 => Hsame e1 e2 e3 Hlt').
  apply valid_dateb_true in Va, Vb.
  assert (E1 : tidx (tidx2 C_DAYS_PER_MONTHS (Z.b2z (py_is_leap (p_year b')))) (p_month b') = dim (p_year b') (p_month b')) by (apply dpm_dim; lia).
  assert (E2 : tidx (tidx2 C_DAYS_PER_MONTHS (Z.b2z (py_is_leap (p_year b' - 1)))) 12 = dim (p_year b' - 1) 12) by (apply dpm_dim; lia).
  assert (E3 : p_month b' <> 1 -> tidx (tidx2 C_DAYS_PER_MONTHS (Z.b2z (py_is_leap (p_year b')))) (p_month b' - 1) = dim (p_year b') (p_month b' - 1)) by (intros; apply dpm_dim; lia).
  pose proof (dim_bounds (p_year b') (p_month b')) as B1. pose proof (dim_bounds (p_year b' - 1) 12) as B2. pose proof (dim_bounds (p_year b') (p_month b' - 1)) as B3.
  pose proof (dim_bounds (p_year a') (p_month a')) as B4.
  unfold pd_spec, prev_y, prev_m. unfold wf_time in Ta, Tb. unfold tod in *. unfold us_per_day in *.
  cbn [p_year p_month p_day p_hour p_minute p_second p_microsecond].
  repeat (match goal with |- context [if ?c then _ else _] => destruct c eqn:? end; cbv beta iota zeta; cbn [p_year p_month p_day p_hour p_minute p_second p_microsecond]).
  all: cbn [pd_years pd_months pd_days pd_hours pd_minutes pd_seconds pd_microseconds pd_total_days].
  all: try (rewrite E3 in * by lia); rewrite ?E1, ?E2 in *.
  all: lia.
Qed.
