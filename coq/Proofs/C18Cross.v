(* Proofs/C18Cross.v (C18) — magnitude of DateTime.diff(other) for two aware datetimes in DIFFERENTLY NAMED zones at ANY offsets (in particular when an
   endpoint is the second occurrence of a repeated wall time), less than a day apart, the instance earlier, pure-Python helper: by Proofs/C06Cross.v the
   translated precise_diff satisfies pd_spec on the two UTC readings, so the difference has no years, months or days and its hours / minutes / seconds
   ARE the true elapsed time p_instant b - p_instant a; hence the count of the phrase is within one unit of the true elapsed time.
   (The compiled helper mis-carries its manual UTC shift on such pairs: finding rs-cross-zone-shift, Props/C18.v diff_rs_cross_zone_refuted.) *)
From Coq Require Import ZArith List Bool String Lia ZifyBool.
From PV Require Import Lib.PyBase Spec.Cal Model.PdBase Gen.PreciseDiff Model.RustPreciseDiff Model.PdInterval.
From PV Require Import Proofs.CalFacts Proofs.C06Facts Proofs.C06Spec Proofs.C06Rebuild Proofs.C06Thms Proofs.C06Cross.
From PV Require Import Model.LocaleBase Gen.Locales Model.DiffFormat Model.DiffHumans Proofs.C18Facts Proofs.C18Diff.
Import ListNotations.
Ltac Zify.zify_post_hook ::= Z.to_euclidean_division_equations.
Open Scope Z_scope.

Lemma subday_cross a b : cross_pair a b -> 0 < p_instant b - p_instant a < us_per_day ->
  exists c, diff_comps false a b = Ok (c, false) /\ sub_month_ranges c /\
            c_weeks c = 0 /\ c_rdays c = 0 /\ total_seconds c = (p_instant b - p_instant a) / 1000000.
Proof.
  intros C He. pose proof (py_pd_spec_cross a b C ltac:(lia)) as S.
  destruct (utc_of_wf a) as [Wa Ea]. destruct (utc_of_wf b) as [Wb Eb].
  destruct C as (_ & _ & _ & _ & Da & Db & Za & Zb & Hobj & _).
  destruct (py_precise_diff a b) as [r|] eqn:E; [|contradiction].
  pose proof (subday_spec (utc_of a) (utc_of b) r Wa Wb ltac:(rewrite Ea, Eb; exact He) S) as (HY & HMo & HD & HT).
  rewrite Ea, Eb in HT.
  unfold pd_spec in S. cbv zeta in S. destruct S as (Rh & Rm & Rs & Ru & _).
  assert (Aa : p_aware a = true) by (unfold p_aware; rewrite Da, Za; reflexivity).
  assert (Ab : p_aware b = true) by (unfold p_aware; rewrite Db, Zb; reflexivity).
  assert (Kx : forall x, p_is_dt x = true -> p_key a b x = p_instant x).
  { intros x Hx. unfold p_key. rewrite Hx, Aa, Ab. cbn [negb andb]. replace (p_tzobj a =? p_tzobj b) with false by lia. reflexivity. }
  assert (G : p_gtb a b = false) by (unfold p_gtb; rewrite (Kx a Da), (Kx b Db); lia).
  unfold diff_comps. rewrite G. cbv zeta. cbv iota.
  unfold pd_backend. rewrite E. cbn [bind].
  assert (El : iv_elapsed a b = p_instant b - p_instant a) by (unfold iv_elapsed; rewrite Da, Aa; reflexivity).
  rewrite El. eexists. split; [reflexivity|].
  unfold sub_month_ranges, total_seconds, iv_components. cbn [c_years c_months c_weeks c_rdays c_hours c_minutes c_rsecs iv_years iv_months iv_weeks iv_remaining_days iv_hours iv_minutes iv_remaining_seconds].
  rewrite HY, HMo, HD. unfold sgn. unfold us_per_day in *.
  set (E0 := p_instant b - p_instant a) in *. clearbody E0. clear - Rh Rm Rs Ru HT He.
  assert (Hs : Z.abs E0 / 1000000 = (pd_hours r * 60 + pd_minutes r) * 60 + pd_seconds r) by lia.
  rewrite Hs. change (Z.abs 0) with 0. change (0 / 7) with 0. change (0 mod 7) with 0.
  assert (Hq : E0 / 1000000 = (pd_hours r * 60 + pd_minutes r) * 60 + pd_seconds r) by lia.
  rewrite Hq.
  destruct (E0 <? 0) eqn:B0; [lia|].
  set (T := (pd_hours r * 60 + pd_minutes r) * 60 + pd_seconds r) in *.
  assert (RT : 0 <= T < 86400) by (unfold T; lia).
  rewrite (Z.mod_small T 86400 RT), (Z.div_small T 86400 RT), !Z.mul_1_r.
  destruct (T <? 0) eqn:B1; [lia|]. change (0 <? 0) with false. cbv iota.
  rewrite (Z.abs_eq T) by lia.
  assert (Hm60 : T mod 60 = pd_seconds r) by (unfold T; lia).
  rewrite Hm60. repeat split; try lia.
Qed.

Lemma within_one_unit_true_elapsed_cross_zone_lemma a b : cross_pair a b -> 0 < p_instant b - p_instant a < us_per_day ->
  exists c, diff_comps false a b = Ok (c, false) /\
    match gen_pick c with
    | Some (u, n) => Z.abs (n * unit_seconds u - (p_instant b - p_instant a) / 1000000) < unit_seconds u
    | None => (p_instant b - p_instant a) / 1000000 <= 10
    end.
Proof.
  intros P He. destruct (subday_cross a b P He) as (c & Hc & R & _ & _ & HT).
  exists c. split; [exact Hc|]. rewrite <- HT. apply within_one_unit_fixed_lemma. exact R.
Qed.
