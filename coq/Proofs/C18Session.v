(* Proofs/C18Session.v (C18) — facts about the default-locale state machine of Model/LocaleSession.v:
   a rejected set_locale keeps the configuration, the configuration is the last successfully set name, it can always be
   loaded, a rendering operation without a locale is the same operation with the configured name given explicitly, an
   operation with an explicit locale does not depend on the history at all, and — with format_total / in_words_total /
   locale_tokens_total of Proofs/C18Facts.v — rendering with the ambient locale is total after EVERY history. *)
From Coq Require Import ZArith List Bool String Lia.
From PV Require Import Lib.PyBase Model.LocaleBase Gen.Locales Model.DiffFormat Model.LocaleSession Proofs.C18Facts.
Import ListNotations.
Open Scope list_scope.
Open Scope Z_scope.

Ltac ustep := cbn [step fst snd eff final last_good_set].

Definition loadable (st : pstr) : Prop := exists L, load st = Ok L /\ In L all_locales.

Lemma load_in n L : load n = Ok L -> In L all_locales.
Proof.
  unfold load, find_locale. destruct (find _ all_locales) eqn:E; intro H; inversion H; subst.
  apply find_some in E. tauto.
Qed.

Lemma loads_loadable n : loads n = true <-> loadable n.
Proof.
  unfold loads, loadable. split.
  - destruct (load n) eqn:E; [intros _ | discriminate]. exists a. split; [reflexivity | eapply load_in; eauto].
  - intros [L [H _]]. rewrite H. reflexivity.
Qed.

Lemma initial_loadable : loadable initial.
Proof. apply loads_loadable. vm_compute. reflexivity. Qed.

(* ---- a set_locale call that raised has not touched the configuration; one that returned has stored its argument *)
Lemma failed_set_keeps_configuration_lemma st n e : snd (step st (SSet n)) = Raise e -> fst (step st (SSet n)) = st.
Proof. ustep. destruct (load n); ustep; [discriminate | reflexivity]. Qed.

Lemma successful_set_stores_lemma st n s : snd (step st (SSet n)) = Ok s -> fst (step st (SSet n)) = n /\ loadable n /\ s = [].
Proof.
  ustep. destruct (load n) eqn:E; ustep; [| discriminate]. intro H. inversion H.
  split; [reflexivity |]. split; [| reflexivity].
  exists a. split; [exact E | eapply load_in; eauto].
Qed.

Lemma only_set_changes_state_lemma st o : (forall n, o <> SSet n) -> fst (step st o) = st.
Proof. destruct o; ustep; try reflexivity. intro H. exfalso. eapply H. reflexivity. Qed.

(* ---- the configuration is the last successfully set name *)
Lemma final_is_last_good_set_lemma ops st : final st ops = last_good_set ops st.
Proof.
  revert st. induction ops as [| o r IH]; intro st; [reflexivity |].
  cbn [final last_good_set]. rewrite IH. destruct o; ustep; try reflexivity.
  unfold loads. destruct (load name); reflexivity.
Qed.

(* ---- invariant: the configured name can always be loaded *)
Lemma step_loadable st o : loadable st -> loadable (fst (step st o)).
Proof.
  intro H. destruct o; ustep; try exact H.
  destruct (load name) eqn:E; ustep; [| exact H]. exists a. split; [exact E | eapply load_in; eauto].
Qed.

Lemma configuration_always_loadable_lemma ops st : loadable st -> loadable (final st ops).
Proof.
  revert st. induction ops as [| o r IH]; intros st H; [exact H |]. cbn [final]. apply IH. apply step_loadable. exact H.
Qed.

(* ---- outputs: no locale given = the configured name given; an explicit locale makes the state irrelevant *)
Definition with_loc (o : sop) (n : pstr) : sop :=
  match o with
  | SFmt None d a b c => SFmt (Some n) d a b c
  | SWords None d us sep => SWords (Some n) d us sep
  | STok None t m dw dd h => STok (Some n) t m dw dd h
  | o => o
  end.

Definition state_free (o : sop) : bool :=
  match o with
  | SSet _ | SLoad _ => true
  | SGet => false
  | SFmt l _ _ _ _ | SWords l _ _ _ | STok l _ _ _ _ _ => match l with Some _ => true | None => false end
  end.

Lemma ambient_is_configured_lemma st st' o : o <> SGet -> snd (step st o) = snd (step st' (with_loc o st)).
Proof.
  destruct o; cbn [with_loc].
  - intros _. ustep. destruct (load name); reflexivity.
  - intro H. exfalso. apply H. reflexivity.
  - intros _. reflexivity.
  - intros _. destruct loc; reflexivity.
  - intros _. destruct loc; reflexivity.
  - intros _. destruct loc; reflexivity.
Qed.

Lemma result_independent_of_history_lemma ops1 ops2 st1 st2 o :
  state_free o = true -> snd (step (final st1 ops1) o) = snd (step (final st2 ops2) o).
Proof.
  destruct o; cbn [state_free].
  - intros _. ustep. destruct (load name); reflexivity.
  - discriminate.
  - intros _. reflexivity.
  - destruct loc; [intros _; reflexivity | discriminate].
  - destruct loc; [intros _; reflexivity | discriminate].
  - destruct loc; [intros _; reflexivity | discriminate].
Qed.

(* ---- totality of the ambient-locale operations after every history that starts from a loadable configuration *)
Lemma ambient_format_total_lemma ops st d is_now absolute invert : loadable st ->
  exists s, snd (step (final st ops) (SFmt None d is_now absolute invert)) = Ok s /\ s <> [] /\ brace_free s.
Proof.
  intro H. destruct (configuration_always_loadable_lemma ops st H) as [L [HL HIn]].
  ustep. rewrite HL. cbn [bind]. apply format_total_lemma. exact HIn.
Qed.

Lemma ambient_in_words_total_lemma ops st d us sep : loadable st -> brace_free sep ->
  exists s, snd (step (final st ops) (SWords None d us sep)) = Ok s /\ s <> [] /\ brace_free s.
Proof.
  intros H Hs. destruct (configuration_always_loadable_lemma ops st H) as [L [HL HIn]].
  ustep. rewrite HL. cbn [bind]. apply in_words_total_explicit; assumption.
Qed.

Lemma ambient_token_total_lemma ops st tok month dow day hour : loadable st ->
  0 <= tok <= 10 -> 1 <= month <= 12 -> 0 <= dow <= 6 ->
  exists s, snd (step (final st ops) (STok None tok month dow day hour)) = Ok s /\ s <> [] /\ brace_free s.
Proof.
  intros H H1 H2 H3. destruct (configuration_always_loadable_lemma ops st H) as [L [HL HIn]].
  ustep. rewrite HL. cbn [bind]. apply tokens_total_explicit; assumption.
Qed.

(* get_locale() after any history answers with a name that loads *)
Lemma get_locale_loadable_lemma ops st : loadable st ->
  exists n, snd (step (final st ops) SGet) = Ok n /\ loadable n.
Proof. intro H. exists (final st ops). split; [reflexivity | apply configuration_always_loadable_lemma; exact H]. Qed.

(* ---- the same from the configuration a process starts with *)
Lemma initial_always_loadable ops : loadable (final initial ops).
Proof. exact (configuration_always_loadable_lemma ops initial initial_loadable). Qed.
Lemma initial_format_total ops d is_now absolute invert :
  exists s, snd (step (final initial ops) (SFmt None d is_now absolute invert)) = Ok s /\ s <> [] /\ brace_free s.
Proof. apply ambient_format_total_lemma. exact initial_loadable. Qed.
Lemma initial_in_words_total ops d us sep : brace_free sep ->
  exists s, snd (step (final initial ops) (SWords None d us sep)) = Ok s /\ s <> [] /\ brace_free s.
Proof. intros. apply ambient_in_words_total_lemma; [exact initial_loadable | assumption]. Qed.
Lemma initial_token_total ops tok month dow day hour : 0 <= tok <= 10 -> 1 <= month <= 12 -> 0 <= dow <= 6 ->
  exists s, snd (step (final initial ops) (STok None tok month dow day hour)) = Ok s /\ s <> [] /\ brace_free s.
Proof. intros. apply ambient_token_total_lemma; [exact initial_loadable | assumption ..]. Qed.

(* the hypotheses are satisfiable and the machine does what the comment says on the pattern
   "set fr; try an unknown locale; render": the rejected name is not left behind *)
Example rejected_name_not_left_behind :
  let fr := [102; 114] in let tlh := [116; 108; 104] in
  final initial [SSet fr; SSet tlh] = fr /\
  run initial [SSet fr; SSet tlh; SGet] = [Ok []; Raise E_ValueError; Ok fr].
Proof. vm_compute. split; reflexivity. Qed.
