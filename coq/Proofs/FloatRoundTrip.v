(* Proofs/FloatRoundTrip.v — the float round trip of DESIGN 3.3, proved (no premise):

     Theorem td_roundtrip_exact : forall N, Z.abs N < 2^33 * 10^6 -> td_of_float_seconds (total_seconds N) = Ok N.

   i.e. timedelta(seconds=timedelta(microseconds=N).total_seconds()) == timedelta(microseconds=N) below 2^33 seconds.
   Route: Flocq's real-number semantics of SFdiv / SFmul / binary_normalize (Proofs/FloatRoundTripBase.v), then
     x = RN(N / 10^6)              |x - N/10^6|        <= 2^-21         (|N/10^6| < 2^33)
     f = x - floor x               exact (modf)
     p = RN(10^6 * f)              |p - 10^6 f|        <= 2^-34         (10^6 f < 2^20)
     |p - (N mod 10^6)| <= 10^6 * 2^-21 + 2^-34 < 1/2  hence trunc p + round(frac p) = N mod 10^6, no tie.
   No Axiom / Parameter / Admitted of our own; `Print Assumptions` at the end lists what Reals/Flocq bring in. *)
From Coq Require Import ZArith Reals Lia Lra Bool.
From Coq Require Import Floats.SpecFloat.
From Flocq Require Import Core.Core IEEE754.BinarySingleNaN.
From PV Require Import Lib.PyBase Spec.TdFloat Proofs.TdFloatFacts Proofs.FloatRoundTripBase.
Open Scope Z_scope.

(* ------------------------------------------------------------------ small tools *)
Lemma Z_of_R_sandwich : forall n a b : Z, (IZR a < IZR n)%R -> (IZR n < IZR b)%R -> a < n < b.
Proof. intros n a b H1 H2. apply lt_IZR in H1. apply lt_IZR in H2. lia. Qed.

Lemma finite_nonzero : forall s m e, R_of_sf (S754_finite s m e) <> 0%R.
Proof. intros s m e. unfold SF2R. apply F2R_neq_0. destruct s; discriminate. Qed.

Lemma classify_zero : forall z, is_finite_SF z = true -> R_of_sf z = 0%R -> sf_is_zero z = true.
Proof. intros [s|s| |s m e] F H; try reflexivity; try discriminate. now apply finite_nonzero in H. Qed.

Lemma classify_finite : forall z, is_finite_SF z = true -> R_of_sf z <> 0%R -> valid64 z = true ->
  exists m e, z = S754_finite (sign_SF z) m e /\ bounded64 m e = true.
Proof. intros [s|s| |s m e] F H V; try discriminate; try (now elim H). exists m, e. split; [reflexivity | exact V]. Qed.

(* rounding error of RN below 2^k *)
Lemma RN_error : forall (x : R) k, -1074 <= k - 53 -> (Rabs x < bpow radix2 k)%R ->
  (Rabs (RN x - x) <= / 2 * bpow radix2 (k - 53))%R.
Proof.
  intros x k Hk Hx. destruct (Req_dec x 0) as [->|Nz].
  - rewrite round_0 by typeclasses eauto. rewrite Rminus_0_r, Rabs_R0.
    apply Rmult_le_pos; [lra | apply bpow_ge_0].
  - apply Rle_trans with (/ 2 * ulp radix2 fexp64 x)%R.
    + apply error_le_half_ulp. typeclasses eauto.
    + apply Rmult_le_compat_l; [lra|]. rewrite ulp_neq_0 by exact Nz. apply bpow_le.
      unfold cexp, FLT_exp. pose proof (mag_le_bpow radix2 x k Nz Hx). lia.
Qed.

Lemma bpow_m20 : bpow radix2 (-20) = (/ 1048576)%R.  Proof. reflexivity. Qed.
Lemma bpow_m33 : bpow radix2 (-33) = (/ 8589934592)%R.  Proof. reflexivity. Qed.
Lemma bpow_20 : bpow radix2 20 = 1048576%R.  Proof. reflexivity. Qed.
Lemma bpow_33 : bpow radix2 33 = 8589934592%R.  Proof. reflexivity. Qed.
Lemma bpow_60 : bpow radix2 60 = 1152921504606846976%R.  Proof. reflexivity. Qed.

(* ------------------------------------------------------------------ the code of td_us_of_float_seconds, cut in two *)
Definition td_tail (sum : Z) (prod : sf) : result Z :=
  let y := sum + sf_intpart prod in
  let left := sf_frac prod in
  match left with
  | S754_finite s m e =>
      let whole := cond_neg s (sf_round_away_mag m e) in
      if feq (fabs left) f_half then
        let odd := y mod 2 in
        let w := if s then (if odd =? 1 then -1 else 0) else (if odd =? 1 then 1 else 0) in
        Ok (y + w)
      else Ok (y + whole)
  | _ => Ok y
  end.

Lemma td_us_finite_unfold : forall s m e,
  td_us_of_float_seconds (S754_finite s m e) =
  let x := S754_finite s m e in
  let sum := sf_intpart x * US_PER_SEC in
  let fr := sf_frac x in
  if sf_is_zero fr then Ok sum else td_tail sum (fmul f_1e6 fr).
Proof. reflexivity. Qed.

(* the tail: a valid positive product within 1/2 of the integer u yields u, ties never occur *)
Lemma td_tail_correct : forall sum m e u, bounded64 m e = true ->
  (Rabs (F2R (Float radix2 (Zpos m) e) - IZR u) < / 2)%R ->
  td_tail sum (S754_finite false m e) = Ok (sum + u).
Proof.
  intros sum m e u Hb Hu. unfold td_tail.
  set (Pr := F2R (Float radix2 (Zpos m) e)) in *.
  rewrite sf_intpart_floor. fold Pr. simpl cond_neg. set (t := Zfloor Pr).
  pose proof (sf_frac_correct false m e Hb) as K. cbv zeta in K. fold Pr in K. fold t in K.
  destruct K as (Vl & Rl & Fl & Sl).
  pose proof (Zfloor_lb Pr) as LB. pose proof (Zfloor_ub Pr) as UB. fold t in LB, UB.
  apply Rabs_def2 in Hu. destruct Hu as [Hu1 Hu2].
  destruct (sf_frac (S754_finite false m e)) as [s3|s3| |s3 m3 e3]; try discriminate.
  - (* fractional part zero *)
    simpl in Rl. f_equal. f_equal.
    assert (u - 1 < t < u + 1); [|lia].
    apply Z_of_R_sandwich; rewrite ?minus_IZR, ?plus_IZR; lra.
  - simpl in Sl. subst s3. simpl in Vl.
    set (g := F2R (Float radix2 (Zpos m3) e3)) in *.
    assert (Eg : g = (Pr - IZR t)%R) by exact Rl.
    change (fabs (S754_finite false m3 e3)) with (S754_finite false m3 e3).
    destruct (feq (S754_finite false m3 e3) f_half) eqn:Q.
    + (* a tie is impossible *)
      exfalso. apply (feq_half_correct m3 e3 Vl) in Q. fold g in Q.
      assert (u - 1 < t < u); [|lia].
      apply Z_of_R_sandwich; rewrite ?minus_IZR; lra.
    + rewrite sf_round_away_mag_floor. fold g. simpl cond_neg. f_equal.
      destruct (Rlt_dec g (/ 2)) as [L|L].
      * rewrite (Zfloor_imp 0) by (simpl; lra).
        assert (u - 1 < t < u + 1); [|lia].
        apply Z_of_R_sandwich; rewrite ?minus_IZR, ?plus_IZR; lra.
      * rewrite (Zfloor_imp 1) by (simpl; lra).
        assert (u - 2 < t < u); [|lia].
        apply Z_of_R_sandwich; rewrite ?minus_IZR; lra.
Qed.

(* ------------------------------------------------------------------ timedelta(seconds=x) for a positive double x, from real-number facts about x *)
(* integer-valued x *)
Lemma td_us_pos_integral : forall m e I, bounded64 m e = true ->
  F2R (Float radix2 (Zpos m) e) = IZR I ->
  td_us_of_float_seconds (S754_finite false m e) = Ok (I * 1000000).
Proof.
  intros m e I Hb HX. rewrite td_us_finite_unfold. cbv zeta.
  rewrite sf_intpart_floor, HX, Zfloor_IZR. simpl cond_neg.
  pose proof (sf_frac_correct false m e Hb) as K. cbv zeta in K. rewrite HX, Zfloor_IZR in K.
  destruct K as (_ & Rl & Fl & _).
  rewrite (classify_zero _ Fl) by (rewrite Rl; lra). reflexivity.
Qed.

(* x strictly between two integers, 10^6 * frac(x) within 10^6 * 2^-21 of the integer u *)
Lemma td_us_pos_fractional : forall m e I u, bounded64 m e = true ->
  let X := F2R (Float radix2 (Zpos m) e) in
  0 < u < 1000000 ->
  (IZR I < X < IZR I + 1)%R ->
  (Rabs (1000000 * (X - IZR I) - IZR u) <= 1000000 * (/ 2 * bpow radix2 (-20)))%R ->
  td_us_of_float_seconds (S754_finite false m e) = Ok (I * 1000000 + u).
Proof.
  intros m e I u Hb X Hu HX Herr. rewrite td_us_finite_unfold. cbv zeta.
  assert (Fl : Zfloor X = I) by (apply Zfloor_imp; rewrite plus_IZR; simpl (IZR 1); lra).
  rewrite sf_intpart_floor. fold X. rewrite Fl. simpl cond_neg.
  pose proof (sf_frac_correct false m e Hb) as K. cbv zeta in K. fold X in K. rewrite Fl in K.
  destruct K as (Vf & Rf & Ff & Sf).
  set (g := (X - IZR I)%R) in *.
  assert (Hg : (0 < g < 1)%R) by (unfold g; lra).
  destruct (classify_finite _ Ff ltac:(rewrite Rf; lra) Vf) as (m1 & e1 & E1 & B1).
  rewrite Sf in E1. rewrite E1. simpl sf_is_zero. cbv iota.
  rewrite E1 in Rf. simpl in Rf.
  (* the product *)
  assert (Hu' : (1 <= IZR u <= 999999)%R) by (split; apply IZR_le; lia).
  rewrite bpow_m20 in Herr. apply Rabs_le_inv in Herr.
  set (P := (1000000 * g)%R) in *.
  assert (HP : (Rabs P < bpow radix2 20)%R) by (rewrite bpow_20; apply Rabs_lt; lra).
  pose proof (RN_error P 20 ltac:(lia) HP) as EP. simpl (20 - 53) in EP. rewrite bpow_m33 in EP.
  apply Rabs_le_inv in EP.
  pose proof (fmul_1e6_correct false m1 e1 B1) as M. cbv zeta in M. simpl cond_Zopp in M. rewrite Rf in M. fold P in M.
  destruct M as (Vp & Rp & Fp & Sp).
  { rewrite bpow_60. apply Rabs_lt. lra. }
  destruct (classify_finite _ Fp ltac:(rewrite Rp; lra) Vp) as (m2 & e2 & E2 & B2).
  rewrite Sp in E2. rewrite E2. rewrite E2 in Rp. simpl in Rp.
  apply td_tail_correct; [exact B2|]. rewrite Rp. apply Rabs_lt. lra.
Qed.

(* ------------------------------------------------------------------ 1. total_seconds as a correctly rounded real *)
Theorem total_seconds_spec : forall N, 0 < N < 2 ^ 33 * 10 ^ 6 ->
  exists m e, total_seconds N = S754_finite false m e /\ bounded64 m e = true /\
    F2R (Float radix2 (Zpos m) e) = RN (IZR N / 1000000) /\
    (Rabs (F2R (Float radix2 (Zpos m) e) - IZR N / 1000000) <= / 2 * bpow radix2 (-20))%R.
Proof.
  intros N HN. change (2 ^ 33 * 10 ^ 6) with 8589934592000000 in HN.
  destruct N as [|p|p]; try lia.
  set (q := (IZR (Z.pos p) / 1000000)%R).
  assert (Hq : (0 < q < 8589934592)%R).
  { unfold q. destruct HN as [H1 H2]. apply IZR_lt in H1, H2. lra. }
  assert (Hq' : (Rabs q < bpow radix2 33)%R) by (rewrite bpow_33; apply Rabs_lt; lra).
  pose proof (RN_error q 33 ltac:(lia) Hq') as Eq. simpl (33 - 53) in Eq.
  pose proof Eq as Eq'. rewrite bpow_m20 in Eq'. apply Rabs_le_inv in Eq'.
  pose proof (fdiv_ratio_correct false p 1000000) as D. cbv zeta in D. fold q in D.
  destruct D as (Vx & Rx & Fx & Sx).
  { rewrite bpow_60. apply Rabs_lt. lra. }
  change (fdiv (S754_finite false p 0) (S754_finite false 1000000 0)) with (total_seconds (Z.pos p)) in *.
  assert (Pos : (0 < RN q)%R).
  { (* q >= 10^-6 > 2^-21 *)
    assert (1 <= IZR (Z.pos p))%R by (apply IZR_le; lia). unfold q in *. lra. }
  destruct (classify_finite _ Fx ltac:(rewrite Rx; lra) Vx) as (m & e & E & B).
  rewrite Sx in E. exists m, e. split; [exact E|]. split; [exact B|].
  rewrite E in Rx. simpl in Rx. split; [exact Rx|]. rewrite Rx. exact Eq.
Qed.

(* ------------------------------------------------------------------ 3. the round trip, positive N *)
Lemma td_us_roundtrip_pos : forall N, 0 < N < 2 ^ 33 * 10 ^ 6 ->
  td_us_of_float_seconds (total_seconds N) = Ok N.
Proof.
  intros N HN. destruct (total_seconds_spec N HN) as (m & e & E & B & RX & Err).
  change (2 ^ 33 * 10 ^ 6) with 8589934592000000 in HN.
  rewrite E. set (X := F2R (Float radix2 (Z.pos m) e)) in *.
  set (I := N / 1000000). set (u := N mod 1000000).
  assert (DM : N = I * 1000000 + u) by (unfold I, u; lia).
  assert (Hu : 0 <= u < 1000000) by (unfold u; lia).
  assert (HI : 0 <= I < 8589934592) by (unfold I; lia).
  assert (Eq : (IZR N / 1000000 = IZR I + IZR u / 1000000)%R).
  { rewrite DM at 1. rewrite plus_IZR, mult_IZR. field. }
  destruct (Z.eq_dec u 0) as [U0|U0].
  - (* whole seconds: no rounding at all *)
    rewrite U0 in *. replace (Ok N) with (Ok (I * 1000000)) by (f_equal; lia).
    apply td_us_pos_integral; [exact B|]. fold X. rewrite RX, Eq.
    replace (IZR I + 0 / 1000000)%R with (IZR I) by field.
    apply round_generic; [typeclasses eauto|]. apply generic_IZR. lia.
  - replace (Ok N) with (Ok (I * 1000000 + u)) by (f_equal; lia). rewrite bpow_m20 in Err. pose proof Err as Err'. apply Rabs_le_inv in Err'.
    assert (Hu' : (1 <= IZR u <= 999999)%R) by (split; apply IZR_le; lia).
    apply td_us_pos_fractional; [exact B | lia | fold X; lra |]. fold X.
    rewrite bpow_m20.
    replace (1000000 * (X - IZR I) - IZR u)%R with (1000000 * (X - IZR N / 1000000))%R by (rewrite Eq; field).
    rewrite Rabs_mult. rewrite (Rabs_pos_eq 1000000) by lra.
    apply Rmult_le_compat_l; [lra | exact Err].
Qed.

(* ------------------------------------------------------------------ 2. whole seconds (a corollary here; no rounding occurs anywhere) *)
Theorem td_roundtrip_whole_seconds : forall S, Z.abs S < 2 ^ 33 ->
  td_of_float_seconds (total_seconds (S * 1000000)) = Ok (S * 1000000).
Proof.
  intros S HS. change (2 ^ 33) with 8589934592 in HS.
  assert (R : td_in_range (S * 1000000) = true).
  { apply td_in_range_small. change (2 ^ 33 * 10 ^ 6) with 8589934592000000. lia. }
  unfold td_of_float_seconds.
  destruct (Z.lt_trichotomy S 0) as [L|[->|G]].
  - replace (S * 1000000) with (- (- S * 1000000)) at 1 by ring.
    rewrite total_seconds_opp by lia. rewrite td_us_of_float_seconds_opp.
    rewrite td_us_roundtrip_pos by (change (2 ^ 33 * 10 ^ 6) with 8589934592000000; lia).
    simpl res_opp. replace (- (- S * 1000000)) with (S * 1000000) by ring. simpl bind. now rewrite R.
  - reflexivity.
  - rewrite td_us_roundtrip_pos by (change (2 ^ 33 * 10 ^ 6) with 8589934592000000; lia).
    simpl bind. now rewrite R.
Qed.

(* ------------------------------------------------------------------ 3. the theorem *)
Theorem td_us_roundtrip_exact : forall N, Z.abs N < 2 ^ 33 * 10 ^ 6 ->
  td_us_of_float_seconds (total_seconds N) = Ok N.
Proof.
  intros N HN. destruct (Z.lt_trichotomy N 0) as [L|[->|G]].
  - replace N with (- (- N)) at 1 by ring. rewrite total_seconds_opp by lia.
    rewrite td_us_of_float_seconds_opp, td_us_roundtrip_pos by lia.
    simpl. f_equal. ring.
  - reflexivity.
  - apply td_us_roundtrip_pos. lia.
Qed.

Theorem td_roundtrip_exact : forall N : Z, Z.abs N < 2 ^ 33 * 10 ^ 6 ->
  td_of_float_seconds (total_seconds N) = Ok N.
Proof.
  intros N HN. unfold td_of_float_seconds. rewrite td_us_roundtrip_exact by exact HN.
  simpl bind. now rewrite td_in_range_small.
Qed.

(* the same statement in the vocabulary of Proofs/C09Facts.v (roundtripb is defined there; restated to avoid the dependency) *)
Corollary td_roundtrip_exact_B33 : forall N, Z.abs N < 8589934592000000 ->
  (match td_of_float_seconds (total_seconds N) with Ok M => M =? N | Raise _ => false end) = true.
Proof. intros N HN. rewrite td_roundtrip_exact by exact HN. apply Z.eqb_refl. Qed.

Print Assumptions total_seconds_spec.
Print Assumptions td_roundtrip_whole_seconds.
Print Assumptions td_roundtrip_exact.
