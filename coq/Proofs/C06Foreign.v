(* Proofs/C06Foreign.v — C06: one zone NAME carried by tzinfo objects of different classes (pendulum Timezone, its base class zoneinfo.ZoneInfo,
   pytz, hand-written tzinfo with .key / .name / .zone), and DateTime.add on a start that carries a non-pendulum tzinfo (Model/PdForeign.v). *)
From Coq Require Import ZArith List Bool Lia ZifyBool.
From PV Require Import Lib.PyBase Spec.Cal Proofs.CalFacts Gen.Constants Gen.Helpers Model.PdBase Gen.PreciseDiff Model.RustPreciseDiff
  Model.PdInterval Model.PdHistory Model.PdForeign.
From PV Require Import Proofs.C06Facts Proofs.C06Cross.
Import ListNotations.
Open Scope Z_scope.

(* the ONLY reads of the tzinfo identity in the model of precise_diff are CPython's == and > (p_eqb / p_gtb: wall fields for one shared object,
   instants otherwise); for two operands with the same UTC offset they answer the same whatever objects carry the zone *)
Lemma cmp_ignores_identity a b i j : p_offset a = p_offset b ->
  p_eqb (retag a i) (retag b j) = p_eqb a b /\ p_gtb (retag a i) (retag b j) = p_gtb a b.
Proof.
  intros E. unfold p_eqb, p_gtb, p_comparable, p_key, p_aware, p_instant, p_wall, retag.
  cbn [p_year p_month p_day p_hour p_minute p_second p_microsecond p_offset p_has_tz p_tzname p_tzobj p_is_dt].
  rewrite E.
  set (wa := wall_of (p_year a) (p_month a) (p_day a) (p_hour a) (p_minute a) (p_second a) (p_microsecond a)).
  set (wb := wall_of (p_year b) (p_month b) (p_day b) (p_hour b) (p_minute b) (p_second b) (p_microsecond b)).
  destruct (p_is_dt a), (p_is_dt b), (p_has_tz a), (p_has_tz b), (i =? j), (p_tzobj a =? p_tzobj b); cbn; split; try reflexivity; lia.
Qed.

Definition paris_a (obj : Z) (name : Z) : pdt := mkpdt 2021 3 31 0 30 0 0 7200 true name obj true.
Definition paris_b (obj : Z) (name : Z) : pdt := mkpdt 2021 5 1 0 30 0 0 7200 true name obj true.

(* 2021-03-31T00:30+02:00 -> 2021-05-01T00:30+02:00, Timezone("Europe/Paris") (object 1) and ZoneInfo("Europe/Paris") (object 2), one name:
   1 month 1 day on the shared wall clock, both backends, both directions, whichever operand carries which object, and a + (b - a) = b;
   read as DIFFERENT zones (another name) the same pair is decomposed on the UTC calendar (30 Mar 22:30 -> 30 Apr 22:30): 1 month 0 days *)
Lemma same_name_other_class_witness :
  py_precise_diff (paris_a 1 5) (paris_b 2 5) = Ok (mkPD 0 1 1 0 0 0 0 31) /\
  py_precise_diff (paris_a 2 5) (paris_b 1 5) = Ok (mkPD 0 1 1 0 0 0 0 31) /\
  py_precise_diff (paris_a 1 5) (paris_b 1 5) = Ok (mkPD 0 1 1 0 0 0 0 31) /\
  rs_precise_diff (paris_a 1 5) (paris_b 2 5) = mkPD 0 1 1 0 0 0 0 31 /\
  py_precise_diff (paris_b 2 5) (paris_a 1 5) = Ok (mkPD 0 (-1) (-1) 0 0 0 0 (-31)) /\
  rs_precise_diff (paris_b 2 5) (paris_a 1 5) = mkPD 0 (-1) (-1) 0 0 0 0 (-31) /\
  of_dt (rebuild_of (py_pd (paris_a 1 5) (paris_b 2 5)) (paris_a 1 5) (paris_b 2 5)) = [0; 2021; 5; 1; 0; 30; 0; 0] /\
  py_precise_diff (paris_a 1 5) (paris_b 2 6) = Ok (mkPD 0 1 0 0 0 0 0 31).
Proof. repeat split; vm_compute; reflexivity. Qed.

(* finding add-foreign-tzinfo-time-units: 2023-02-27T23:59+01:00 carried by a ZoneInfo -> 2023-02-28T00:29+01:00: the Interval is 30 minutes
   (no unit of variable length); a pendulum-zone start is rebuilt (00:29 on the 28th), a start that carries the ZoneInfo gives 23:29 on the 27th *)
Definition fs_a (obj : Z) : pdt := mkpdt 2023 2 27 23 59 0 0 3600 true 5 obj true.
Definition fs_b : pdt := mkpdt 2023 2 28 0 29 0 0 3600 true 5 1 true.

Lemma foreign_start_refuted : exists a b,
  p_tzname a = p_tzname b /\ p_offset a = p_offset b /\ p_wall a <= p_wall b /\
  py_pd a b = Ok (mkPD 0 0 0 0 30 0 0 1) /\ rs_pd a b = Ok (mkPD 0 0 0 0 30 0 0 1) /\
  of_dt (rebuild_of (py_pd a b) a b) = [0; 2023; 2; 28; 0; 29; 0; 0] /\
  of_dt (rebuild_of_foreign (py_pd a b) a b) = [0; 2023; 2; 27; 23; 29; 0; 0] /\
  of_dt (rebuild_of_foreign (rs_pd a b) a b) = [0; 2023; 2; 27; 23; 29; 0; 0].
Proof. exists (fs_a 2), fs_b. repeat split; vm_compute; try reflexivity; discriminate. Qed.

Lemma p_wall_of_wall a w : p_wall (p_of_wall a w) = w.
Proof.
  unfold p_of_wall, p_wall. pose proof (fields_of_wall_spec w) as S.
  destruct (fields_of_wall w) as [[[[[[y m] dd] hh] mm] ss] us]. cbn. tauto.
Qed.

(* where it does hold: with a unit of variable length (years, months, weeks, days not all zero) or a zero offset, add() on a start carrying a
   foreign tzinfo reaches the same wall fields as on a pendulum-zone start (the value is naive, see Model/PdForeign.v) *)
Lemma foreign_start_partial a years months weeks days hours minutes seconds us r' : p_is_dt a = true ->
  (negb (years =? 0) || negb (months =? 0) || negb (weeks =? 0) || negb (days =? 0) = true \/ p_utcoffset a = 0) ->
  dt_add a years months weeks days hours minutes seconds us = Ok r' ->
  exists r, dt_add_foreign a years months weeks days hours minutes seconds us = Ok r /\ p_wall r = p_wall r'.
Proof.
  intros Hdt Hv. unfold dt_add, dt_add_foreign. rewrite Hdt. cbv zeta.
  set (varlen := negb (years =? 0) || negb (months =? 0) || negb (weeks =? 0) || negb (days =? 0)) in *.
  assert (Hw0 : (if varlen then p_wall a else p_wall a - p_utcoffset a * 1000000) = p_wall a).
  { destruct Hv as [-> | ->]; [reflexivity | destruct varlen; lia]. }
  rewrite Hw0.
  destruct (negb (wall_in_range (p_wall a))); [discriminate|].
  destruct (pd_add_duration (as_naive a (p_wall a)) years months weeks days hours minutes seconds us) as [r|e]; [|discriminate].
  assert (Hw : (if varlen || negb (p_aware a) then p_wall r else p_wall r + p_utcoffset a * 1000000) = p_wall r).
  { destruct Hv as [-> | ->]; [reflexivity | destruct (varlen || negb (p_aware a)); lia]. }
  rewrite Hw. destruct (wall_in_range (p_wall r)); [|discriminate].
  intros H. injection H as <-. exists r. split; [reflexivity|]. symmetry. apply p_wall_of_wall.
Qed.

Example foreign_start_partial_inhabited :
  dt_add (fs_a 2) 0 0 0 1 0 30 0 0 = Ok (mkpdt 2023 3 1 0 29 0 0 3600 true 5 2 true) /\
  dt_add_foreign (fs_a 2) 0 0 0 1 0 30 0 0 = Ok (mkpdt 2023 3 1 0 29 0 0 0 false 0 0 true).
Proof. split; vm_compute; reflexivity. Qed.
