(* Proofs/C12Facts.v — the model of start_of/end_of (Model/StartEnd.v) computes the first / last microsecond of the unit whenever the
   boundary is not a skipped wall time; consequences for naive / fixed-offset / UTC values and for tz-database zones. *)
From Coq Require Import ZArith List Bool Lia ZifyBool.
From PV Require Import Lib.PyBase Spec.Cal Spec.Zone Spec.NativeDT Proofs.CalFacts Proofs.ZoneFacts Proofs.AddDurationFacts Proofs.C03Facts.
From PV Require Import Gen.Constants Gen.Helpers Gen.AddDuration Model.TzConvert Model.StartEndBase Gen.StartEnd Model.StartEnd Proofs.C12Spec.
Import ListNotations.
Ltac Zify.zify_post_hook ::= Z.to_euclidean_division_equations.
Open Scope Z_scope.

(* ---------- representable values have representable fields ---------- *)
Lemma dby_1 : days_before_year 1 = 0. Proof. reflexivity. Qed.
Lemma dby_10000 : days_before_year 10000 = 3652059. Proof. reflexivity. Qed.

Lemma ord_in_range W : wall_in_range W = true -> 1 <= ord_of W <= 3652059.
Proof. intros H. apply wall_in_range_iff in H. unfold ord_of. rewrite upd_val. lia. Qed.

Lemma o_year_range n : 1 <= n <= 3652059 -> 1 <= o_year n <= 9999.
Proof.
  intros Hn. pose proof (year_span n) as S. split.
  - destruct (Z_lt_ge_dec (o_year n) 1); [|lia].
    pose proof (days_before_year_mono (o_year n + 1) 1 ltac:(lia)). rewrite dby_1 in *. lia.
  - destruct (Z_lt_ge_dec 9999 (o_year n)); [|lia].
    pose proof (days_before_year_mono 10000 (o_year n) ltac:(lia)). rewrite dby_10000 in *. lia.
Qed.

Lemma f_year_range W : wall_in_range W = true -> 1 <= f_year W <= 9999.
Proof. intros H. rewrite f_year_o. apply o_year_range. apply ord_in_range. exact H. Qed.

(* the wall value rebuilt from the date of W and an arbitrary time of day *)
Lemma wall_of_date W hh mm ss us :
  wall_of (f_year W) (f_month W) (f_day W) hh mm ss us = (W / us_per_day) * us_per_day + ((hh * 60 + mm) * 60 + ss) * 1000000 + us.
Proof. unfold wall_of. destruct (f_ymd_spec W) as [_ E]. rewrite E. unfold ord_of. lia. Qed.

(* ---------- when does create return the requested wall value ---------- *)
(* naive, fixed offset, or a wall second that exists in the zone (once or twice) *)
Definition boundary_ok (v : dtv) (W' : Z) : Prop :=
  v_kind v = 0 \/ v_kind v = 1 \/ ~ wall_skipped (v_zone v) (sec W').
Definition plain (v : dtv) : Prop := v_kind v = 0 \/ v_kind v = 1 \/ z_trans (v_zone v) = [].
Definition fold_out (v : dtv) : bool := if v_kind v =? 1 then false else v_fold v.

Lemma plain_boundary_ok v W' : plain v -> boundary_ok v W'.
Proof.
  intros [H|[H|H]]; [left; exact H|right; left; exact H|right; right].
  unfold wall_skipped, off_local. rewrite H. cbn. lia.
Qed.

Lemma create_ok v W' f : boundary_ok v W' -> v_kind v <> 0 ->
  create (v_zone v) (v_kind v =? 1) W' f false = Ok (W', if v_kind v =? 1 then false else f).
Proof.
  intros B Hk. unfold create. destruct (v_kind v =? 1) eqn:E; [reflexivity|].
  destruct B as [H|[H|H]]; try lia.
  unfold convert_naive. unfold wall_skipped in H.
  destruct (off_local (v_zone v) (sec W') true >? off_local (v_zone v) (sec W') false) eqn:E1; [lia|].
  rewrite andb_false_r. reflexivity.
Qed.

Lemma dt_set_ok v y m d hh mm ss us :
  1 <= y <= 9999 -> valid_dateb y m d = true -> time_okb hh mm ss us = true ->
  boundary_ok v (wall_of y m d hh mm ss us) ->
  dt_set v y m d hh mm ss us = Ok (wall_of y m d hh mm ss us, fold_out v).
Proof.
  intros Hy V T B. unfold dt_set, fold_out. rewrite V, T.
  replace ((1 <=? y) && (y <=? 9999)) with true by lia. cbn [andb].
  destruct (v_kind v =? 0) eqn:E0.
  - replace (v_kind v =? 1) with false by lia. reflexivity.
  - apply create_ok; [exact B|lia].
Qed.

Lemma dt_set_year_low v y m d hh mm ss us : y < 1 -> dt_set v y m d hh mm ss us = Raise E_ValueError.
Proof. intros H. unfold dt_set. replace (1 <=? y) with false by lia. reflexivity. Qed.
Lemma dt_set_year_high v y m d hh mm ss us : 9999 < y -> dt_set v y m d hh mm ss us = Raise E_ValueError.
Proof. intros H. unfold dt_set. replace (y <=? 9999) with false by lia. rewrite andb_false_r. reflexivity. Qed.

(* ---------- the non-week units ---------- *)
Definition non_week (u : Z) : Prop := valid_unit u /\ u <> 4.

Lemma tod_bounds W : 0 <= tod_s W <= 86399.
Proof. unfold tod_s. rewrite upd_val. lia. Qed.

Lemma valid_jan1 y : valid_dateb y 1 1 = true. Proof. apply valid_dateb_true. pose proof (dim_bounds y 1). lia. Qed.
Lemma valid_dec31 y : valid_dateb y 12 31 = true. Proof. apply valid_dateb_true. assert (dim y 12 = 31) by reflexivity. lia. Qed.
Lemma valid_month_first W : valid_dateb (f_year W) (f_month W) 1 = true.
Proof. apply valid_dateb_true. pose proof (f_month_range W). pose proof (dim_bounds (f_year W) (f_month W)). lia. Qed.
Lemma valid_month_last W : valid_dateb (f_year W) (f_month W) (dim (f_year W) (f_month W)) = true.
Proof. apply valid_dateb_true. pose proof (f_month_range W). pose proof (dim_bounds (f_year W) (f_month W)). lia. Qed.

Lemma hms t : (t / 3600 * 60 + (t / 60) mod 60) * 60 + t mod 60 = t. Proof. lia. Qed.
Lemma hm_ t : (t / 3600 * 60 + (t / 60) mod 60) * 60 = t - t mod 60. Proof. lia. Qed.
Lemma h__ t : (t / 3600 * 60) * 60 = t - t mod 3600. Proof. lia. Qed.
Lemma split_tod W : W = (W / us_per_day) * us_per_day + tod_s W * 1000000 + W mod 1000000.
Proof. unfold tod_s. rewrite upd_val. lia. Qed.
Lemma m60 W : W mod 60000000 = (tod_s W mod 60) * 1000000 + W mod 1000000.
Proof. unfold tod_s. rewrite upd_val. lia. Qed.
Lemma m3600 W : W mod 3600000000 = (tod_s W mod 3600) * 1000000 + W mod 1000000.
Proof. unfold tod_s. rewrite upd_val. lia. Qed.

Ltac lvl_case W target :=
  match goal with |- dt_set ?v ?y ?m ?d ?a ?b ?c ?e = _ =>
    let EW := fresh "EW" in
    assert (EW : wall_of y m d a b c e = target)
      by (rewrite wall_of_date; try rewrite f_hour_eq; try rewrite f_minute_eq; try rewrite f_second_eq; unfold unit_lo, unit_hi;
          pose proof (hms (tod_s W)); pose proof (hm_ (tod_s W)); pose proof (h__ (tod_s W));
          pose proof (split_tod W); pose proof (m60 W); pose proof (m3600 W); rewrite upd_val in *; lia);
    rewrite <- EW in *; apply dt_set_ok; try assumption;
    try rewrite f_hour_eq; try rewrite f_minute_eq; try rewrite f_second_eq; unfold time_okb; lia
  end.

Lemma set_from_start v lvl : wall_in_range (v_W v) = true -> 0 <= lvl <= 3 ->
  boundary_ok v (unit_lo lvl 0 (v_W v)) ->
  set_from v lvl true = Ok (unit_lo lvl 0 (v_W v), fold_out v).
Proof.
  intros Hr Hl B. set (W := v_W v) in *. pose proof (tod_bounds W) as TB.
  destruct (f_ymd_spec W) as [V _]. pose proof (f_year_range W Hr) as Hy.
  assert (C : lvl = 0 \/ lvl = 1 \/ lvl = 2 \/ lvl = 3) by lia.
  unfold set_from. fold W.
  destruct C as [->|[->|[-> | ->]]]; cbn [Z.leb Z.compare]; cbv beta iota.
  - lvl_case W (unit_lo 0 0 W).
  - lvl_case W (unit_lo 1 0 W).
  - lvl_case W (unit_lo 2 0 W).
  - lvl_case W (unit_lo 3 0 W).
Qed.

Lemma set_from_end v lvl : wall_in_range (v_W v) = true -> 0 <= lvl <= 3 ->
  boundary_ok v (unit_hi lvl 0 (v_W v)) ->
  set_from v lvl false = Ok (unit_hi lvl 0 (v_W v), fold_out v).
Proof.
  intros Hr Hl B. set (W := v_W v) in *. pose proof (tod_bounds W) as TB.
  destruct (f_ymd_spec W) as [V _]. pose proof (f_year_range W Hr) as Hy.
  assert (C : lvl = 0 \/ lvl = 1 \/ lvl = 2 \/ lvl = 3) by lia.
  unfold set_from. fold W.
  destruct C as [->|[->|[-> | ->]]]; cbn [Z.leb Z.compare]; cbv beta iota.
  - lvl_case W (unit_hi 0 0 W).
  - lvl_case W (unit_hi 1 0 W).
  - lvl_case W (unit_hi 2 0 W).
  - lvl_case W (unit_hi 3 0 W).
Qed.
