(* Proofs/C12Facts.v — the model of start_of/end_of (Model/StartEnd.v) computes the first / last microsecond of the unit whenever the
   boundary is not a skipped wall time; consequences for naive / fixed-offset / UTC values and for tz-database zones. *)
From Coq Require Import ZArith List Bool Lia ZifyBool.
From PV Require Import Lib.PyBase Spec.Cal Spec.Zone Spec.NativeDT Proofs.CalFacts Proofs.ZoneFacts Proofs.AddDurationFacts Proofs.C03Facts.
From PV Require Import Gen.Constants Gen.Helpers Gen.AddDuration Model.TzConvert Model.StartEndBase Gen.StartEnd Model.StartEnd Proofs.C12Spec.
Import ListNotations.
Ltac Zify.zify_post_hook ::= Z.to_euclidean_division_equations.
Open Scope Z_scope.

(* ---------- representable values have representable fields ---------- *)
Lemma dby_1 : days_before_year 1 = 0. Proof. reflexivity. Qed.
Lemma dby_10000 : days_before_year 10000 = 3652059. Proof. reflexivity. Qed.

Lemma ord_in_range W : wall_in_range W = true -> 1 <= ord_of W <= 3652059.
Proof. intros H. apply wall_in_range_iff in H. unfold ord_of. rewrite upd_val. lia. Qed.

Lemma o_year_range n : 1 <= n <= 3652059 -> 1 <= o_year n <= 9999.
Proof.
  intros Hn. pose proof (year_span n) as S. split.
  - destruct (Z_lt_ge_dec (o_year n) 1); [|lia].
    pose proof (days_before_year_mono (o_year n + 1) 1 ltac:(lia)). rewrite dby_1 in *. lia.
  - destruct (Z_lt_ge_dec 9999 (o_year n)); [|lia].
    pose proof (days_before_year_mono 10000 (o_year n) ltac:(lia)). rewrite dby_10000 in *. lia.
Qed.

Lemma f_year_range W : wall_in_range W = true -> 1 <= f_year W <= 9999.
Proof. intros H. rewrite f_year_o. apply o_year_range. apply ord_in_range. exact H. Qed.

(* the wall value rebuilt from the date of W and an arbitrary time of day *)
Lemma wall_of_date W hh mm ss us :
  wall_of (f_year W) (f_month W) (f_day W) hh mm ss us = (W / us_per_day) * us_per_day + ((hh * 60 + mm) * 60 + ss) * 1000000 + us.
Proof. unfold wall_of. destruct (f_ymd_spec W) as [_ E]. rewrite E. unfold ord_of. lia. Qed.

(* ---------- when does create return the requested wall value ---------- *)
(* naive, fixed offset, or a wall second that exists in the zone (once or twice) *)
Definition boundary_ok (v : dtv) (W' : Z) : Prop :=
  v_kind v = 0 \/ v_kind v = 1 \/ ~ wall_skipped (v_zone v) (sec W').
Definition plain (v : dtv) : Prop := v_kind v = 0 \/ v_kind v = 1 \/ z_trans (v_zone v) = [].
Definition fold_out (v : dtv) : bool := if v_kind v =? 1 then false else v_fold v.

Lemma plain_boundary_ok v W' : plain v -> boundary_ok v W'.
Proof.
  intros [H|[H|H]]; [left; exact H|right; left; exact H|right; right].
  unfold wall_skipped, off_local. rewrite H. cbn. lia.
Qed.

Lemma create_ok v W' f : boundary_ok v W' -> v_kind v <> 0 ->
  create (v_zone v) (v_kind v =? 1) W' f false = Ok (W', if v_kind v =? 1 then false else f).
Proof.
  intros B Hk. unfold create. destruct (v_kind v =? 1) eqn:E; [reflexivity|].
  destruct B as [H|[H|H]]; try lia.
  unfold convert_naive. unfold wall_skipped in H.
  destruct (off_local (v_zone v) (sec W') true >? off_local (v_zone v) (sec W') false) eqn:E1; [lia|].
  rewrite andb_false_r. reflexivity.
Qed.

Lemma dt_set_ok v y m d hh mm ss us :
  1 <= y <= 9999 -> valid_dateb y m d = true -> time_okb hh mm ss us = true ->
  boundary_ok v (wall_of y m d hh mm ss us) ->
  dt_set v y m d hh mm ss us = Ok (wall_of y m d hh mm ss us, fold_out v).
Proof.
  intros Hy V T B. unfold dt_set, fold_out. rewrite V, T.
  replace ((1 <=? y) && (y <=? 9999)) with true by lia. cbn [andb].
  destruct (v_kind v =? 0) eqn:E0.
  - replace (v_kind v =? 1) with false by lia. reflexivity.
  - apply create_ok; [exact B|lia].
Qed.

Lemma dt_set_year_low v y m d hh mm ss us : y < 1 -> dt_set v y m d hh mm ss us = Raise E_ValueError.
Proof. intros H. unfold dt_set. replace (1 <=? y) with false by lia. reflexivity. Qed.
Lemma dt_set_year_high v y m d hh mm ss us : 9999 < y -> dt_set v y m d hh mm ss us = Raise E_ValueError.
Proof. intros H. unfold dt_set. replace (y <=? 9999) with false by lia. rewrite andb_false_r. reflexivity. Qed.

(* ---------- the non-week units ---------- *)
Definition non_week (u : Z) : Prop := valid_unit u /\ u <> 4.

Lemma tod_bounds W : 0 <= tod_s W <= 86399.
Proof. unfold tod_s. rewrite upd_val. lia. Qed.

Lemma valid_jan1 y : valid_dateb y 1 1 = true. Proof. apply valid_dateb_true. pose proof (dim_bounds y 1). lia. Qed.
Lemma valid_dec31 y : valid_dateb y 12 31 = true. Proof. apply valid_dateb_true. assert (dim y 12 = 31) by reflexivity. lia. Qed.
Lemma valid_month_first W : valid_dateb (f_year W) (f_month W) 1 = true.
Proof. apply valid_dateb_true. pose proof (f_month_range W). pose proof (dim_bounds (f_year W) (f_month W)). lia. Qed.
Lemma valid_month_last W : valid_dateb (f_year W) (f_month W) (dim (f_year W) (f_month W)) = true.
Proof. apply valid_dateb_true. pose proof (f_month_range W). pose proof (dim_bounds (f_year W) (f_month W)). lia. Qed.

Lemma hms t : (t / 3600 * 60 + (t / 60) mod 60) * 60 + t mod 60 = t. Proof. lia. Qed.
Lemma hm_ t : (t / 3600 * 60 + (t / 60) mod 60) * 60 = t - t mod 60. Proof. lia. Qed.
Lemma h__ t : (t / 3600 * 60) * 60 = t - t mod 3600. Proof. lia. Qed.
Lemma split_tod W : W = (W / us_per_day) * us_per_day + tod_s W * 1000000 + W mod 1000000.
Proof. unfold tod_s. rewrite upd_val. lia. Qed.
Lemma m60 W : W mod 60000000 = (tod_s W mod 60) * 1000000 + W mod 1000000.
Proof. unfold tod_s. rewrite upd_val. lia. Qed.
Lemma m3600 W : W mod 3600000000 = (tod_s W mod 3600) * 1000000 + W mod 1000000.
Proof. unfold tod_s. rewrite upd_val. lia. Qed.

Ltac lvl_case W target :=
  match goal with |- dt_set ?v ?y ?m ?d ?a ?b ?c ?e = _ =>
    let EW := fresh "EW" in
    assert (EW : wall_of y m d a b c e = target)
      by (rewrite wall_of_date; try rewrite f_hour_eq; try rewrite f_minute_eq; try rewrite f_second_eq; unfold unit_lo, unit_hi;
          pose proof (hms (tod_s W)); pose proof (hm_ (tod_s W)); pose proof (h__ (tod_s W));
          pose proof (split_tod W); pose proof (m60 W); pose proof (m3600 W); rewrite upd_val in *; lia);
    rewrite <- EW in *; apply dt_set_ok; try assumption;
    try rewrite f_hour_eq; try rewrite f_minute_eq; try rewrite f_second_eq; unfold time_okb; lia
  end.

Lemma set_from_start v lvl : wall_in_range (v_W v) = true -> 0 <= lvl <= 3 ->
  boundary_ok v (unit_lo lvl 0 (v_W v)) ->
  set_from v lvl true = Ok (unit_lo lvl 0 (v_W v), fold_out v).
Proof.
  intros Hr Hl B. set (W := v_W v) in *. pose proof (tod_bounds W) as TB.
  destruct (f_ymd_spec W) as [V _]. pose proof (f_year_range W Hr) as Hy.
  assert (C : lvl = 0 \/ lvl = 1 \/ lvl = 2 \/ lvl = 3) by lia.
  unfold set_from. fold W.
  destruct C as [->|[->|[-> | ->]]]; cbn [Z.leb Z.compare Pos.compare Pos.compare_cont]; cbv beta iota.
  - lvl_case W (unit_lo 0 0 W).
  - lvl_case W (unit_lo 1 0 W).
  - lvl_case W (unit_lo 2 0 W).
  - lvl_case W (unit_lo 3 0 W).
Qed.

Lemma set_from_end v lvl : wall_in_range (v_W v) = true -> 0 <= lvl <= 3 ->
  boundary_ok v (unit_hi lvl 0 (v_W v)) ->
  set_from v lvl false = Ok (unit_hi lvl 0 (v_W v), fold_out v).
Proof.
  intros Hr Hl B. set (W := v_W v) in *. pose proof (tod_bounds W) as TB.
  destruct (f_ymd_spec W) as [V _]. pose proof (f_year_range W Hr) as Hy.
  assert (C : lvl = 0 \/ lvl = 1 \/ lvl = 2 \/ lvl = 3) by lia.
  unfold set_from. fold W.
  destruct C as [->|[->|[-> | ->]]]; cbn [Z.leb Z.compare Pos.compare Pos.compare_cont]; cbv beta iota.
  - lvl_case W (unit_hi 0 0 W).
  - lvl_case W (unit_hi 1 0 W).
  - lvl_case W (unit_hi 2 0 W).
  - lvl_case W (unit_hi 3 0 W).
Qed.

(* representability of January 1st / December 31st of a year *)
Lemma wall_jan1 Y : wall_of Y 1 1 0 0 0 0 = days_before_year Y * us_per_day.
Proof. unfold wall_of. rewrite ymd2ord_jan1. lia. Qed.
Lemma wall_dec31 Y : wall_of Y 12 31 23 59 59 999999 = days_before_year (Y + 1) * us_per_day - 1.
Proof. unfold wall_of. rewrite ymd2ord_dec31, upd_val. lia. Qed.
Lemma dby_nonneg Y : 0 <= days_before_year Y <-> 1 <= Y.
Proof. unfold days_before_year. lia. Qed.
Lemma dby_le Y : days_before_year (Y + 1) <= 3652059 <-> Y <= 9999.
Proof. unfold days_before_year. lia. Qed.
Lemma jan1_nonneg Y : 0 <= wall_of Y 1 1 0 0 0 0 <-> 1 <= Y.
Proof. rewrite wall_jan1, upd_val, <- dby_nonneg. lia. Qed.
Lemma dec31_in_range Y : wall_of Y 12 31 23 59 59 999999 <= 315537897599999999 <-> Y <= 9999.
Proof. rewrite wall_dec31, upd_val, <- dby_le. lia. Qed.

Lemma time0_ok : time_okb 0 0 0 0 = true. Proof. reflexivity. Qed.
Lemma time_end_ok : time_okb 23 59 59 999999 = true. Proof. reflexivity. Qed.

Lemma unit_lo_ws_irrelevant u ws W : u <> 4 -> unit_lo u ws W = unit_lo u 0 W.
Proof. intros H. unfold unit_lo. destruct u as [|p|p]; try reflexivity. do 3 (destruct p; try reflexivity). lia. Qed.
Lemma unit_hi_ws_irrelevant u ws W : u <> 4 -> unit_hi u ws W = unit_hi u 0 W.
Proof. intros H. unfold unit_hi. destruct u as [|p|p]; try reflexivity. do 3 (destruct p; try reflexivity). lia. Qed.


Lemma unit_lo_5 ws W : unit_lo 5 ws W = wall_of (f_year W) (f_month W) 1 0 0 0 0. Proof. reflexivity. Qed.
Lemma unit_lo_6 ws W : unit_lo 6 ws W = wall_of (f_year W) 1 1 0 0 0 0. Proof. reflexivity. Qed.
Lemma unit_lo_7 ws W : unit_lo 7 ws W = wall_of (f_year W - f_year W mod 10) 1 1 0 0 0 0. Proof. reflexivity. Qed.
Lemma unit_lo_8 ws W : unit_lo 8 ws W = wall_of (f_year W - 1 - (f_year W - 1) mod 100 + 1) 1 1 0 0 0 0. Proof. reflexivity. Qed.
Lemma unit_hi_5 ws W : unit_hi 5 ws W = wall_of (f_year W) (f_month W) (dim (f_year W) (f_month W)) 23 59 59 999999. Proof. reflexivity. Qed.
Lemma unit_hi_6 ws W : unit_hi 6 ws W = wall_of (f_year W) 12 31 23 59 59 999999. Proof. reflexivity. Qed.
Lemma unit_hi_7 ws W : unit_hi 7 ws W = wall_of (f_year W - f_year W mod 10 + 9) 12 31 23 59 59 999999. Proof. reflexivity. Qed.
Lemma unit_hi_8 ws W : unit_hi 8 ws W = wall_of (f_year W - 1 - (f_year W - 1) mod 100 + 100) 12 31 23 59 59 999999. Proof. reflexivity. Qed.

Lemma unit_id_5 ws W : unit_id 5 ws W = f_year W * 12 + (f_month W - 1). Proof. reflexivity. Qed.
Lemma unit_id_6 ws W : unit_id 6 ws W = f_year W. Proof. reflexivity. Qed.
Lemma hi5_le_hi6 W : unit_hi 5 0 W <= unit_hi 6 0 W.
Proof.
  pose proof (unit_hi_same 5 0 W ltac:(unfold valid_unit; lia)) as S. rewrite !unit_id_5 in S.
  assert (E6 : unit_id 6 0 (unit_hi 5 0 W) = unit_id 6 0 W).
  { rewrite !unit_id_6. pose proof (f_month_range W). pose proof (f_month_range (unit_hi 5 0 W)). lia. }
  apply (unit_range_iff 6 0 W (unit_hi 5 0 W) ltac:(unfold valid_unit; lia)) in E6. lia.
Qed.

Lemma dt_start_non_week ws u v : non_week u -> wall_in_range (v_W v) = true ->
  boundary_ok v (unit_lo u ws (v_W v)) ->
  dt_start_of ws u v = if 0 <=? unit_lo u ws (v_W v) then Ok (unit_lo u ws (v_W v), fold_out v) else Raise E_ValueError.
Proof.
  intros [Hu H4] Hr B. rewrite (unit_lo_ws_irrelevant u ws _ H4) in *. unfold valid_unit in Hu.
  set (W := v_W v) in *. pose proof (f_year_range W Hr) as Hy. pose proof (proj1 (wall_in_range_iff W) Hr) as HW.
  assert (C : u = 0 \/ u = 1 \/ u = 2 \/ u = 3 \/ u = 5 \/ u = 6 \/ u = 7 \/ u = 8) by lia.
  destruct C as [->|[->|[->|[->|[->|[->|[->| ->]]]]]]]; cbn [dt_start_of].
  - rewrite (set_from_start v 0 Hr ltac:(lia) B). fold W. replace (0 <=? unit_lo 0 0 W) with true by (unfold unit_lo; lia). reflexivity.
  - rewrite (set_from_start v 1 Hr ltac:(lia) B). fold W. replace (0 <=? unit_lo 1 0 W) with true by (unfold unit_lo; lia). reflexivity.
  - rewrite (set_from_start v 2 Hr ltac:(lia) B). fold W. replace (0 <=? unit_lo 2 0 W) with true by (unfold unit_lo; lia). reflexivity.
  - unfold dt_start_of_day. rewrite (set_from_start v 3 Hr ltac:(lia) B). fold W.
    replace (0 <=? unit_lo 3 0 W) with true by (unfold unit_lo; rewrite upd_val; lia). reflexivity.
  - unfold py_dt_start_of_month, dt_year, dt_month. fold W. rewrite unit_lo_5 in *.
    rewrite (dt_set_ok v _ _ _ _ _ _ _ Hy (valid_month_first W) time0_ok B).
    replace (0 <=? wall_of (f_year W) (f_month W) 1 0 0 0 0) with true; [reflexivity|].
    unfold wall_of, ymd2ord, days_before_month.
    pose proof (dbm_nonneg (is_leap (f_year W)) (f_month W) (f_month_range W)).
    pose proof (proj2 (dby_nonneg (f_year W)) ltac:(lia)). rewrite upd_val. lia.
  - unfold py_dt_start_of_year, dt_year. fold W. rewrite unit_lo_6 in *.
    rewrite (dt_set_ok v _ _ _ _ _ _ _ Hy (valid_jan1 _) time0_ok B).
    pose proof (proj2 (jan1_nonneg (f_year W)) ltac:(lia)).
    replace (0 <=? wall_of (f_year W) 1 1 0 0 0 0) with true by lia. reflexivity.
  - unfold py_dt_start_of_decade, dt_year, C_YEARS_PER_DECADE. fold W. cbv zeta. rewrite unit_lo_7 in *.
    pose proof (jan1_nonneg (f_year W - f_year W mod 10)) as J.
    destruct (0 <=? wall_of (f_year W - f_year W mod 10) 1 1 0 0 0 0) eqn:E.
    + apply dt_set_ok; [lia|apply valid_jan1|reflexivity|exact B].
    + apply dt_set_year_low. lia.
  - unfold py_dt_start_of_century, dt_year, C_YEARS_PER_CENTURY. fold W. cbv zeta. rewrite unit_lo_8 in *.
    pose proof (jan1_nonneg (f_year W - 1 - (f_year W - 1) mod 100 + 1)) as J.
    replace (0 <=? wall_of (f_year W - 1 - (f_year W - 1) mod 100 + 1) 1 1 0 0 0 0) with true by lia.
    apply dt_set_ok; [lia|apply valid_jan1|reflexivity|exact B].
Qed.

Lemma dt_end_non_week we u v : non_week u -> wall_in_range (v_W v) = true ->
  boundary_ok v (unit_hi u 0 (v_W v)) ->
  dt_end_of we u v = if unit_hi u 0 (v_W v) <=? 315537897599999999 then Ok (unit_hi u 0 (v_W v), fold_out v) else Raise E_ValueError.
Proof.
  intros [Hu H4] Hr B. unfold valid_unit in Hu.
  set (W := v_W v) in *. pose proof (f_year_range W Hr) as Hy. pose proof (proj1 (wall_in_range_iff W) Hr) as HW.
  assert (C : u = 0 \/ u = 1 \/ u = 2 \/ u = 3 \/ u = 5 \/ u = 6 \/ u = 7 \/ u = 8) by lia.
  destruct C as [->|[->|[->|[->|[->|[->|[->| ->]]]]]]]; cbn [dt_end_of].
  - rewrite (set_from_end v 0 Hr ltac:(lia) B). fold W. replace (unit_hi 0 0 W <=? 315537897599999999) with true by (unfold unit_hi; lia). reflexivity.
  - rewrite (set_from_end v 1 Hr ltac:(lia) B). fold W. replace (unit_hi 1 0 W <=? 315537897599999999) with true by (unfold unit_hi; lia). reflexivity.
  - rewrite (set_from_end v 2 Hr ltac:(lia) B). fold W. replace (unit_hi 2 0 W <=? 315537897599999999) with true by (unfold unit_hi; lia). reflexivity.
  - unfold dt_end_of_day. rewrite (set_from_end v 3 Hr ltac:(lia) B). fold W.
    replace (unit_hi 3 0 W <=? 315537897599999999) with true by (unfold unit_hi; rewrite upd_val; lia). reflexivity.
  - unfold py_dt_end_of_month, dt_days_in_month, dt_year, dt_month. fold W.
    pose proof (hi5_le_hi6 W) as L.
    rewrite unit_hi_5, unit_hi_6 in *.
    rewrite (dt_set_ok v _ _ _ _ _ _ _ Hy (valid_month_last W) time_end_ok B).
    pose proof (proj2 (dec31_in_range (f_year W)) ltac:(lia)).
    replace (wall_of (f_year W) (f_month W) (dim (f_year W) (f_month W)) 23 59 59 999999 <=? 315537897599999999) with true by lia. reflexivity.
  - unfold py_dt_end_of_year, dt_year. fold W. rewrite unit_hi_6 in *.
    rewrite (dt_set_ok v _ _ _ _ _ _ _ Hy (valid_dec31 _) time_end_ok B).
    pose proof (proj2 (dec31_in_range (f_year W)) ltac:(lia)).
    replace (wall_of (f_year W) 12 31 23 59 59 999999 <=? 315537897599999999) with true by lia. reflexivity.
  - unfold py_dt_end_of_decade, dt_year, C_YEARS_PER_DECADE. fold W. cbv zeta. rewrite unit_hi_7 in *.
    replace (f_year W - f_year W mod 10 + 10 - 1) with (f_year W - f_year W mod 10 + 9) by lia.
    pose proof (dec31_in_range (f_year W - f_year W mod 10 + 9)) as J.
    replace (wall_of (f_year W - f_year W mod 10 + 9) 12 31 23 59 59 999999 <=? 315537897599999999) with true by lia.
    apply dt_set_ok; [lia|apply valid_dec31|reflexivity|exact B].
  - unfold py_dt_end_of_century, dt_year, C_YEARS_PER_CENTURY. fold W. cbv zeta. rewrite unit_hi_8 in *.
    pose proof (dec31_in_range (f_year W - 1 - (f_year W - 1) mod 100 + 100)) as J.
    destruct (wall_of (f_year W - 1 - (f_year W - 1) mod 100 + 100) 12 31 23 59 59 999999 <=? 315537897599999999) eqn:E.
    + apply dt_set_ok; [lia|apply valid_dec31|reflexivity|exact B].
    + apply dt_set_year_high. lia.
Qed.
