(* Proofs/C17Rs.v — C17: exception classes (`exn_in`) and the compiled parser on ALL strings: parse_iso8601 of the extension (descent + pyo3
   glue + the duration loop with its fuel) returns a value or raises ValueError.  Split from C17Total.v so that C13 (Proofs/C13Catch.v) can use
   rs_raw_ve without depending on the COMMON-pattern theorem of Proofs/C17Regex.v. *)
From Coq Require Import ZArith List Bool Lia.
From PV Require Import Lib.PyBase Spec.Cal Spec.NativeDT Gen.AddDuration.
From PV Require Import Model.C07Regex Gen.IsoRegex Gen.IsoPost Model.IsoParse Model.DurParse Model.ParseTotal.
Import ListNotations.
Open Scope Z_scope.

(* the exception (if any) is one of l *)
Definition exn_in {A} (l : list exn) (r : result A) : Prop := match r with Ok _ => True | Raise e => In e l end.

Lemma exn_in_bind {A B} l (r : result A) (f : A -> result B) :
  exn_in l r -> (forall a, exn_in l (f a)) -> exn_in l (bind r f).
Proof. destruct r; simpl; auto. Qed.

Lemma exn_in_weaken {A} l l' (r : result A) : incl l l' -> exn_in l r -> exn_in l' r.
Proof. destruct r; simpl; auto. Qed.

Lemma exn_in_ve_ok {A} (r : result A) : exn_in [E_ValueError; E_ParserError] r -> out_ok r.
Proof. destruct r as [|e]; simpl; auto. intros [<-|[<-|[]]]; exact I. Qed.

Ltac brk := repeat match goal with |- context [match ?x with _ => _ end] => destruct x end.
Ltac inl := simpl; auto 10.

(* ------------------------------------------------------------------ the compiled parser, all strings *)
Lemma mk_date_ve y m d : exn_in [E_ValueError] (mk_date y m d).
Proof. unfold mk_date. destruct (valid_date y m d); inl. Qed.
Lemma mk_time_ve H M S us o : exn_in [E_ValueError] (mk_time H M S us o).
Proof. unfold mk_time. destruct (valid_time H M S us); inl. Qed.
Lemma mk_datetime_ve y m d H M S us o : exn_in [E_ValueError] (mk_datetime y m d H M S us o).
Proof. unfold mk_datetime. destruct (valid_date y m d && valid_time H M S us); inl. Qed.

Lemma rs_parse_iso_ve s : exn_in [E_ValueError] (rs_parse_iso s).
Proof.
  unfold rs_parse_iso. destruct (rs_parse_datetime s) as [dt|]; [|inl].
  destruct (r_has_date dt), (r_has_time dt); auto using mk_date_ve, mk_time_ve, mk_datetime_ve; inl.
Qed.

(* parse_duration: the loop consumes at least one character per turn, so the fuel of rs_raw is never exhausted *)
Lemma rs_num_loop_len l : forall v, (length (snd (rs_num_loop v l)) <= length l)%nat.
Proof. induction l as [|c r IH]; intros v; simpl; [lia|]. destruct (DurParse.is_digit c); simpl; [specialize (IH (u32 (u32 (v * 10) + (c - 48)))); lia | lia]. Qed.

Lemma rs_frac_loop_len l : forall a b, (length (snd (rs_frac_loop a b l)) <= length l)%nat.
Proof. induction l as [|c r IH]; intros a b; simpl; [lia|]. destruct (DurParse.is_digit c); simpl; [match goal with |- context [rs_frac_loop ?x ?y r] => specialize (IH x y) end; lia | lia]. Qed.

Lemma rs_number_frac_len l v fr l1 : rs_number_frac l = Ok (v, fr, l1) -> (length l1 < length l)%nat.
Proof.
  unfold rs_number_frac, rs_number. destruct l as [|c r]; simpl; [discriminate|].
  destruct (DurParse.is_digit c); simpl; [|discriminate].
  pose proof (rs_num_loop_len r (c - 48)) as H1. destruct (rs_num_loop (c - 48) r) as [v0 l0]. simpl in H1.
  destruct l0 as [|c0 r0]; [intros E; inversion E; subst; simpl; lia|].
  destruct (is_sep c0).
  - pose proof (rs_frac_loop_len r0 f_zero f_one) as H2. destruct (rs_frac_loop f_zero f_one r0) as [[dec den] l2]. simpl in H2.
    intros E; inversion E; subst. simpl in *. lia.
  - intros E; inversion E; subst. simpl in *. lia.
Qed.

Lemma rs_number_frac_ve l : exn_in [E_ValueError] (rs_number_frac l).
Proof.
  unfold rs_number_frac, rs_number. destruct l as [|c r]; [inl|]. destruct (DurParse.is_digit c); [|inl]. simpl.
  destruct (rs_num_loop (c - 48) r) as [v0 l0]. destruct l0 as [|c0 r0]; [inl|]. destruct (is_sep c0); [|inl].
  destruct (rs_frac_loop f_zero f_one r0) as [[dec den] l2]. inl.
Qed.

Lemma rs_unit_ve gt cur v fr lhf d : exn_in [E_ValueError] (rs_unit gt cur v fr lhf d).
Proof. unfold rs_unit. brk; inl. Qed.

Lemma rs_loop_ve : forall f d gt lhf l, (length l < f)%nat -> exn_in [E_ValueError] (rs_loop f d gt lhf l).
Proof.
  induction f as [|f IH]; intros d gt lhf l Hl; [lia|].
  simpl. destruct l as [|c r]; [inl|].
  destruct (c =? c_T).
  - destruct gt; [inl|]. destruct (is_nil r); [inl|]. apply IH. simpl in Hl. lia.
  - pose proof (rs_number_frac_ve (c :: r)) as Hv. pose proof (rs_number_frac_len (c :: r)) as Hn.
    destruct (rs_number_frac (c :: r)) as [[[v fr] l1]|e]; [|exact Hv]. simpl.
    specialize (Hn v fr l1 eq_refl).
    destruct lhf; [inl|]. destruct l1 as [|cur r1]; [inl|].
    pose proof (rs_unit_ve gt cur v fr (match fr with Some _ => true | None => false end) d) as Hu.
    destruct (rs_unit gt cur v fr (match fr with Some _ => true | None => false end) d) as [d'|e]; [|exact Hu]. simpl.
    destruct (is_nil r1); [inl|]. apply IH. simpl in *. lia.
Qed.

Lemma rs_raw_ve s : exn_in [E_ValueError] (rs_raw s).
Proof. unfold rs_raw. destruct s as [|c l]; [inl|]. destruct (c =? c_P); [|inl]. apply rs_loop_ve. lia. Qed.

Lemma rs_iso8601_ve s : exn_in [E_ValueError] (rs_iso8601 s).
Proof.
  unfold rs_iso8601. destruct (existsb is_surrogate s); [inl|]. destruct (cur s =? ch_P).
  - pose proof (rs_raw_ve s). destruct (rs_raw s); auto.
  - pose proof (rs_parse_iso_ve s). unfold lift_p. destruct (rs_parse_iso s); auto.
Qed.

(* the compiled parser never yields a pendulum (Python) Duration *)
Definition rs_shaped (i : ival) : Prop := match i with I_pydur _ _ => False | _ => True end.
Lemma rs_iso8601_shape s i : rs_iso8601 s = Ok i -> rs_shaped i.
Proof.
  unfold rs_iso8601, lift_p. destruct (existsb is_surrogate s); [discriminate|]. destruct (cur s =? ch_P).
  - destruct (rs_raw s); intros E; inversion E; exact I.
  - destruct (rs_parse_iso s); intros E; inversion E; exact I.
Qed.
(* ... and a string that does not begin with 'P' never yields a duration *)
Lemma rs_iso8601_nonP s i : head_is_P s = false -> rs_iso8601 s = Ok i -> exists p, i = I_p p.
Proof.
  unfold rs_iso8601, lift_p, head_is_P, cur, ch_P. destruct (existsb is_surrogate s); [discriminate|].
  destruct s as [|c t]; intros H.
  - simpl. destruct (rs_parse_iso []); intros E; inversion E; eauto.
  - rewrite H. destruct (rs_parse_iso (c :: t)); intros E; inversion E; eauto.
Qed.

Lemma rs_iso8601_P s i : head_is_P s = true -> rs_iso8601 s = Ok i -> exists r, i = I_rsdur r.
Proof.
  unfold rs_iso8601, lift_p, head_is_P, cur, ch_P. destruct (existsb is_surrogate s); [discriminate|].
  destruct s as [|c t]; intros H; [discriminate|]. rewrite H.
  destruct (rs_raw (c :: t)); intros E; inversion E; eauto.
Qed.
