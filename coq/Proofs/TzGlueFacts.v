(* Proofs/TzGlueFacts.v — the hand-written model Model/TzConvert.v (on which C01 C02 C03 C04 C05 C11 C12 C16 C19 rest) EQUALS the machine
   translation of pendulum's own code (Gen/TzGlue.v, translated from /repo's src/pendulum/tz/timezone.py and datetime.py on every run).
   Bridge: a datetime object with wall value W, fold f and tzinfo tz is dt_of W f tz; a result (W', f') of the hand model in the zone of the
   timezone object tz is the object dt_of W' f' (Some tz) (res_of).  gtz_ok: a FixedTimezone's table is fixed_zone of its offset;
   same_obj: two timezone objects with the same identity tag are the same object. *)
From Coq Require Import ZArith List Bool Lia ZifyBool.
From PV Require Import Lib.PyBase Spec.Cal Spec.Zone Spec.NativeDT Proofs.CalFacts Proofs.ZoneFacts Gen.AddDuration Model.TzConvert.
From PV Require Import Proofs.C03Facts Proofs.StdlibDTFacts Model.TzGlueObj Gen.TzGlue Model.WallHistory.
From PV Require Import Spec.TdFloat Model.Duration Model.CalendarArith.
Import ListNotations.
Ltac Zify.zify_post_hook ::= Z.to_euclidean_division_equations.
Open Scope Z_scope.

Definition dt_of (W : Z) (f : bool) (tz : option gtz) : gdt := mkgdt W (Z.b2z f) tz.
Definition res_of (tz : option gtz) (r : result (Z * bool)) : result gdt :=
  match r with Ok (W, f) => Ok (dt_of W f tz) | Raise e => Raise e end.
Definition gtz_ok (t : gtz) : Prop := gz_fixed t = true -> gz_zone t = fixed_zone (gz_off t).
Definition same_obj (a b : gtz) : Prop := gz_id a = gz_id b -> a = b.

(* rebuilding an object from its own fields (cls(dt.year, ..., dt.microsecond, tzinfo=, fold=)) gives the same value *)
Lemma nat_new_fields d tz fold : wall_in_range (g_wall d) = true -> fold = 0 \/ fold = 1 ->
  nat_new (g_year d) (g_month d) (g_day d) (g_hour d) (g_minute d) (g_second d) (g_microsecond d) tz fold = Ok (mkgdt (g_wall d) fold tz).
Proof.
  intros R Hf. destruct (fields_in_range _ R) as (Hy & Hv & _). cbv zeta in Hy, Hv.
  unfold ndt_year, ndt_month, ndt_day, ndt_ord in Hy, Hv. cbn [n_wall] in Hy, Hv.
  pose proof (wall_of_fields (g_wall d)) as Hw.
  unfold nat_new, g_year, g_month, g_day, g_hour, g_minute, g_second, g_microsecond. unfold fields_of_wall in *.
  destruct (ord2ymd (g_wall d / us_per_day + 1)) as [[y m] dd]. cbn [fst snd] in Hy, Hv. rewrite Hw, Hv.
  set (t := g_wall d mod us_per_day) in *. set (s := t / 1000000) in *.
  assert (0 <= t < us_per_day) by (subst t; unfold us_per_day; lia). unfold us_per_day in *.
  replace ((1 <=? y) && (y <=? 9999)) with true by lia. cbn [andb].
  replace ((0 <=? s / 3600) && (s / 3600 <=? 23)) with true by (subst s; lia). cbn [andb].
  replace ((0 <=? s / 60 mod 60) && (s / 60 mod 60 <=? 59)) with true by lia. cbn [andb].
  replace ((0 <=? s mod 60) && (s mod 60 <=? 59)) with true by lia. cbn [andb].
  replace ((0 <=? t mod 1000000) && (t mod 1000000 <=? 999999)) with true by lia. cbn [andb].
  replace ((fold =? 0) || (fold =? 1)) with true by lia. reflexivity.
Qed.

Lemma b2z_fold f : Z.b2z f = 0 \/ Z.b2z f = 1. Proof. destruct f; auto. Qed.
Lemma foldb_b2z W f tz : g_foldb (dt_of W f tz) = f. Proof. destruct f; reflexivity. Qed.

(* ---------- Timezone.convert, naive branch = convert_naive ---------- *)
Theorem glue_convert_naive tz W f r :
  glue_Timezone_convert tz (dt_of W f None) r = res_of (Some tz) (convert_naive (gz_zone tz) W f r).
Proof.
  (* robust to meaning-preserving rewrites of the source (b < a for a > b, reordered assignments or conjuncts): every test is split on both
     sides and the combinations are closed by linear arithmetic, nothing is matched syntactically *)
  unfold glue_Timezone_convert, convert_naive, zi_utcoffset, g_set_fold, g_foldb, dt_of, sec, nat_add, g_set_tz.
  cbn [g_tz g_wall g_fold]. cbv zeta.
  set (ob := off_local (gz_zone tz) (W / MEG) false). set (oa := off_local (gz_zone tz) (W / MEG) true).
  destruct f, r; cbv [Z.b2z]; change (1 =? 0) with false; change (0 =? 0) with true; cbn [negb andb orb]; cbv iota; fold ob oa; unfold MEG;
  repeat match goal with |- context [if ?c then _ else _] => destruct c eqn:? end;
  repeat match goal with
         | H : wall_in_range _ = true |- _ => apply wall_in_range_iff in H
         | H : wall_in_range _ = false |- _ => apply wall_in_range_false_iff in H
         end;
  cbn [res_of]; unfold dt_of; cbn [Z.b2z g_wall g_fold g_tz];
  try reflexivity; try (exfalso; lia);
  match goal with |- Ok (mkgdt ?a _ _) = Ok (mkgdt ?b _ _) => replace a with b by lia; reflexivity end.
Qed.

(* ---------- native astimezone between pendulum timezone objects = in_tz / astz ---------- *)
Lemma tz_utcoffset_spec t W f tz' : gtz_ok t ->
  tz_utcoffset t (dt_of W f tz') = MEG * off_local (gz_zone t) (sec W) f.
Proof.
  intros Ok_. unfold tz_utcoffset, glue_FixedTimezone_utcoffset, gz_utcoffset_us, zi_utcoffset. rewrite foldb_b2z. cbn [g_wall dt_of].
  destruct (gz_fixed t) eqn:F; [|reflexivity]. rewrite (Ok_ F). reflexivity.
Qed.

Theorem nat_astimezone_spec t1 t2 W f : gtz_ok t1 -> gtz_ok t2 -> same_obj t1 t2 ->
  nat_astimezone (dt_of W f (Some t1)) t2 = res_of (Some t2) (in_tz (gtz_is t1 t2) (gz_zone t1) (gz_zone t2) W f).
Proof.
  intros O1 O2 S. unfold nat_astimezone, in_tz. cbn [g_tz dt_of]. fold (dt_of W f (Some t1)).
  destruct (gtz_is t1 t2) eqn:I.
  - unfold gtz_is in I. rewrite (S ltac:(lia)). reflexivity.
  - rewrite tz_utcoffset_spec by assumption. unfold astz, inst, nat_add. cbn [g_wall g_tz dt_of]. unfold sec.
    replace (W + - (MEG * off_local (gz_zone t1) (W / MEG) f)) with (W - MEG * off_local (gz_zone t1) (W / MEG) f) by lia.
    set (U := W - MEG * off_local (gz_zone t1) (W / MEG) f).
    destruct (wall_in_range U) eqn:RU; cbn [negb]; [|reflexivity].
    unfold tz_fromutc, g_set_tz. cbn [g_wall g_fold].
    destruct (gz_fixed t2) eqn:F2.
    + unfold glue_FixedTimezone_fromutc, nat_add, gz_utcoffset_us, g_set_tz. cbn [g_wall g_tz g_fold]. rewrite (O2 F2).
      unfold render, off_utc, fold_utc, fixed_zone. cbn [z_init z_trans off_utc_l fold_utc_l].
      destruct (wall_in_range (U + MEG * gz_off t2)); reflexivity.
    + unfold zi_fromutc. cbn [g_wall]. destruct (render (gz_zone t2) U) as [W' f']. destruct (wall_in_range W'); reflexivity.
Qed.

(* Timezone.convert / FixedTimezone.convert, aware branch *)
Theorem glue_convert_aware tz t1 W f r : gtz_ok t1 -> gtz_ok tz -> same_obj t1 tz ->
  g_convert tz (dt_of W f (Some t1)) r = res_of (Some tz) (in_tz (gtz_is t1 tz) (gz_zone t1) (gz_zone tz) W f).
Proof.
  intros O1 O2 S. unfold g_convert, glue_FixedTimezone_convert, glue_Timezone_convert. cbn [g_tz dt_of]. fold (dt_of W f (Some t1)).
  rewrite nat_astimezone_spec by assumption. destruct (gz_fixed tz); destruct (res_of _ _); reflexivity.
Qed.

(* ---------- FixedTimezone.convert, naive branch = convert_naive_fixed ---------- *)
Theorem glue_fixed_convert_naive tz W f r : wall_in_range W = true ->
  glue_FixedTimezone_convert tz (dt_of W f None) r = res_of (Some tz) (convert_naive_fixed W f).
Proof.
  intros R. unfold glue_FixedTimezone_convert. cbn [g_tz dt_of]. fold (dt_of W f None).
  rewrite nat_new_fields by (auto; exact R). reflexivity.
Qed.

(* tz.convert(dt) on a naive dt, whatever the class of tz = create's core *)
Theorem glue_convert_naive_any tz W f r : wall_in_range W = true ->
  g_convert tz (dt_of W f None) r = res_of (Some tz) (create (gz_zone tz) (gz_fixed tz) W f r).
Proof.
  intros R. unfold g_convert, create. destruct (gz_fixed tz); [apply glue_fixed_convert_naive; exact R|apply glue_convert_naive].
Qed.

(* ---------- results of the hand model stay in range (so that the field-by-field rebuild cls(dt.year, ...) is the identity) ---------- *)
Lemma create_in_range z fx W f r W' f' : wall_in_range W = true -> create z fx W f r = Ok (W', f') -> wall_in_range W' = true.
Proof.
  intros R. unfold create, convert_naive_fixed, convert_naive. destruct fx; [intros H; injection H as <- _; exact R|].
  destruct (_ >? _); [destruct r; [discriminate|]|].
  - match goal with |- context [wall_in_range ?w] => destruct (wall_in_range w) eqn:E end; [|discriminate]. intros H. injection H as <- _. exact E.
  - destruct (_ && r); [discriminate|]. intros H. injection H as <- _. exact R.
Qed.
Lemma in_tz_in_range s z1 z2 W f W' f' : wall_in_range W = true -> in_tz s z1 z2 W f = Ok (W', f') -> wall_in_range W' = true.
Proof.
  intros R. unfold in_tz, astz. destruct s; [intros H; injection H as <- _; exact R|].
  destruct (negb _); [discriminate|]. destruct (render z2 _) as [W2 f2]. destruct (wall_in_range W2) eqn:E; [|discriminate].
  intros H. injection H as <- _. exact E.
Qed.

Lemma rebuild d : wall_in_range (g_wall d) = true -> g_fold d = 0 \/ g_fold d = 1 ->
  nat_new (g_year d) (g_month d) (g_day d) (g_hour d) (g_minute d) (g_second d) (g_microsecond d) (g_tz d) (g_fold d) = Ok d.
Proof. intros R F. rewrite nat_new_fields by assumption. destruct d; reflexivity. Qed.

Lemma rebuild_res tz (r : result (Z * bool)) :
  (forall W' f', r = Ok (W', f') -> wall_in_range W' = true) ->
  match res_of tz r with
  | Raise e => Raise e
  | Ok m => let v_dt := m in
            match nat_new (g_year v_dt) (g_month v_dt) (g_day v_dt) (g_hour v_dt) (g_minute v_dt) (g_second v_dt) (g_microsecond v_dt) (g_tz v_dt) (g_fold v_dt)
            with Raise e => Raise e | Ok m' => Ok m' end
  end = res_of tz r.
Proof.
  intros H. destruct r as [[W' f']|e]; [|reflexivity]. cbn [res_of]. cbv zeta.
  rewrite rebuild; [reflexivity|exact (H _ _ eq_refl)|apply b2z_fold].
Qed.

(* ---------- DateTime.create = create ---------- *)
Theorem glue_create tz W f r : wall_in_range W = true ->
  let d := dt_of W f None in
  glue_DateTime_create (g_year d) (g_month d) (g_day d) (g_hour d) (g_minute d) (g_second d) (g_microsecond d) (Some tz) (Z.b2z f) r
  = res_of (Some tz) (create (gz_zone tz) (gz_fixed tz) W f r).
Proof.
  intros R d. unfold glue_DateTime_create. cbv beta iota zeta.
  rewrite (nat_new_fields d None (Z.b2z f) R (b2z_fold f)). cbv beta iota zeta delta [negb].
  change (mkgdt (g_wall d) (Z.b2z f) None) with (dt_of W f None). rewrite glue_convert_naive_any by exact R.
  apply rebuild_res. intros W' f' H. exact (create_in_range _ _ _ _ _ _ _ R H).
Qed.

(* DateTime.create(..., tz=None): the naive value itself *)
Theorem glue_create_naive W f r : wall_in_range W = true ->
  let d := dt_of W f None in
  glue_DateTime_create (g_year d) (g_month d) (g_day d) (g_hour d) (g_minute d) (g_second d) (g_microsecond d) None (Z.b2z f) r = Ok d.
Proof.
  intros R d. unfold glue_DateTime_create. cbv beta iota zeta.
  rewrite (nat_new_fields d None (Z.b2z f) R (b2z_fold f)). cbv beta iota zeta delta [negb].
  change (mkgdt (g_wall d) (Z.b2z f) None) with d. rewrite rebuild; [reflexivity|exact R|apply b2z_fold].
Qed.

(* Timezone.datetime / FixedTimezone.datetime: convert(datetime(fields, fold=1)) *)
Theorem glue_tz_datetime tz W : wall_in_range W = true ->
  let d := dt_of W true None in
  (if gz_fixed tz then glue_FixedTimezone_datetime else glue_Timezone_datetime) tz (g_year d) (g_month d) (g_day d) (g_hour d) (g_minute d) (g_second d) (g_microsecond d)
  = res_of (Some tz) (create (gz_zone tz) (gz_fixed tz) W true false).
Proof.
  intros R d. pose proof (glue_convert_naive_any tz W true false R) as C. unfold g_convert in C.
  destruct (gz_fixed tz); unfold glue_FixedTimezone_datetime, glue_Timezone_datetime;
  rewrite (nat_new_fields d None 1 R (or_intror eq_refl)); change (mkgdt (g_wall d) 1 None) with (dt_of W true None);
  rewrite C; destruct (res_of _ _); reflexivity.
Qed.

(* ---------- DateTime.in_timezone / in_tz / astimezone ---------- *)
Theorem glue_in_timezone_aware t1 tz W f : gtz_ok t1 -> gtz_ok tz -> same_obj t1 tz ->
  glue_DateTime_in_timezone (dt_of W f (Some t1)) tz = res_of (Some tz) (in_tz (gtz_is t1 tz) (gz_zone t1) (gz_zone tz) W f).
Proof.
  intros O1 O2 S. unfold glue_DateTime_in_timezone. cbv zeta. cbn [g_tz dt_of opt_tz_truth negb]. fold (dt_of W f (Some t1)).
  rewrite glue_convert_aware by assumption. destruct (res_of _ _); reflexivity.
Qed.

Theorem glue_in_timezone_naive tz W f : wall_in_range W = true ->
  glue_DateTime_in_timezone (dt_of W f None) tz = res_of (Some tz) (create (gz_zone tz) (gz_fixed tz) W true false).
Proof.
  intros R. unfold glue_DateTime_in_timezone. cbv zeta. change (opt_tz_truth (g_tz (dt_of W f None))) with false. cbn [negb].
  change (g_set_fold (dt_of W f None) 1) with (dt_of W true None). rewrite glue_convert_naive_any by exact R. destruct (res_of _ _); reflexivity.
Qed.

Theorem glue_in_tz_is_in_timezone d tz : glue_DateTime_in_tz d tz = glue_DateTime_in_timezone d tz.
Proof. unfold glue_DateTime_in_tz. destruct (glue_DateTime_in_timezone d tz); reflexivity. Qed.

Theorem glue_astimezone t1 tz W f : gtz_ok t1 -> gtz_ok tz -> same_obj t1 tz -> wall_in_range W = true ->
  glue_DateTime_astimezone (dt_of W f (Some t1)) tz = res_of (Some tz) (in_tz (gtz_is t1 tz) (gz_zone t1) (gz_zone tz) W f).
Proof.
  intros O1 O2 S R. unfold glue_DateTime_astimezone. rewrite nat_astimezone_spec by assumption.
  apply rebuild_res. intros W' f' H. exact (in_tz_in_range _ _ _ _ _ _ _ R H).
Qed.

(* ---------- DateTime.add, fixed-unit branch = add_fixed ---------- *)
Lemma gtz_ok_UTC : gtz_ok g_UTC. Proof. intros H. discriminate. Qed.

(* the tail of the fixed-unit branch: datetime(fields, tzinfo=UTC) -> self.tz.convert -> rebuild *)
Lemma add_tail t V : gtz_ok t -> same_obj g_UTC t -> wall_in_range V = true ->
  let d := mkgdt V 0 None in
  match nat_new (g_year d) (g_month d) (g_day d) (g_hour d) (g_minute d) (g_second d) (g_microsecond d) (Some g_UTC) 0 with
  | Raise e => Raise e
  | Ok m5 =>
    match g_convert_opt (Some t) m5 false with
    | Raise e => Raise e
    | Ok m6 =>
      match nat_new (g_year m6) (g_month m6) (g_day m6) (g_hour m6) (g_minute m6) (g_second m6) (g_microsecond m6) (Some t) (g_fold m6) with
      | Raise e => Raise e
      | Ok m7 => Ok m7
      end
    end
  end
  = res_of (Some t) (let '(W', f') := render (gz_zone t) V in if wall_in_range W' then Ok (W', f') else Raise E_OverflowError).
Proof.
  intros Ot S R d. rewrite (nat_new_fields d (Some g_UTC) 0 R (or_introl eq_refl)).
  change (mkgdt (g_wall d) 0 (Some g_UTC)) with (dt_of V false (Some g_UTC)). cbn [g_convert_opt].
  rewrite (glue_convert_aware t g_UTC V false false gtz_ok_UTC Ot S). unfold in_tz.
  destruct (gtz_is g_UTC t) eqn:I.
  - unfold gtz_is in I. assert (E : g_UTC = t) by (apply S; lia). rewrite <- E. cbn [gz_zone g_UTC res_of].
    unfold render, off_utc, fold_utc, fixed_zone. cbn [z_init z_trans off_utc_l fold_utc_l].
    replace (V + MEG * 0) with V by lia. rewrite R. cbn [res_of].
    rewrite nat_new_fields; [reflexivity|exact R|left; reflexivity].
  - unfold astz, inst. change (gz_zone g_UTC) with (fixed_zone 0). change (off_local (fixed_zone 0) (V / MEG) false) with 0. replace (V - MEG * 0) with V by lia. rewrite R. cbn [negb].
    destruct (render (gz_zone t) V) as [W' f']. destruct (wall_in_range W') eqn:R'; [|reflexivity]. cbn [res_of].
    rewrite nat_new_fields; [reflexivity|exact R'|apply b2z_fold].
Qed.

Lemma add_mid t U hours minutes seconds us : gtz_ok t -> same_obj g_UTC t -> wall_in_range U = true ->
  -999999999 <= td_total_us 0 hours minutes seconds us / us_per_day <= 999999999 ->
  match g_add_duration (mkgdt U 0 None) 0 0 0 0 hours minutes seconds us with
  | Raise e => Raise e
  | Ok m3 =>
    match nat_new (g_year m3) (g_month m3) (g_day m3) (g_hour m3) (g_minute m3) (g_second m3) (g_microsecond m3) (Some g_UTC) 0 with
    | Raise e => Raise e
    | Ok m5 =>
      match g_convert_opt (Some t) m5 false with
      | Raise e => Raise e
      | Ok m6 =>
        match nat_new (g_year m6) (g_month m6) (g_day m6) (g_hour m6) (g_minute m6) (g_second m6) (g_microsecond m6) (Some t) (g_fold m6) with
        | Raise e => Raise e
        | Ok m7 => Ok m7
        end
      end
    end
  end
  = res_of (Some t)
      match py_add_duration (mkndt U true) 0 0 0 0 hours minutes seconds us with
      | Ok d => let '(W', f') := render (gz_zone t) (n_wall d) in if wall_in_range W' then Ok (W', f') else Raise E_OverflowError
      | Raise e => Raise e
      end.
Proof.
  intros Ot S R Hlim. unfold g_add_duration. cbn [g_wall]. rewrite (add_duration_fixed _ _ _ _ _ R Hlim). cbv zeta.
  destruct (wall_in_range (U + td_total_us 0 hours minutes seconds us)) eqn:R2; [|reflexivity].
  cbn [n_wall]. exact (add_tail t _ Ot S R2).
Qed.

Theorem glue_add_fixed t W f hours minutes seconds us : gtz_ok t -> same_obj g_UTC t -> wall_in_range W = true ->
  let total := td_total_us 0 hours minutes seconds us in
  -999999999 <= total / us_per_day <= 999999999 ->
  glue_DateTime_add (dt_of W f (Some t)) 0 0 0 0 hours minutes seconds us = res_of (Some t) (add_fixed (gz_zone t) W f hours minutes seconds us).
Proof.
  intros Ot S R total Hlim. unfold glue_DateTime_add, add_fixed. cbv beta zeta.
  change ((negb (0 =? 0) || negb (0 =? 0) || negb (0 =? 0) || negb (0 =? 0))) with false. cbn [negb orb]. cbv iota.
  rewrite (nat_new_fields (dt_of W f (Some t)) None 0 R (or_introl eq_refl)). cbv beta iota zeta.
  unfold nat_utcoffset. cbn [g_tz dt_of]. fold (dt_of W f (Some t)). rewrite tz_utcoffset_spec by exact Ot.
  unfold inst. fold (sec W). set (o := off_local (gz_zone t) (sec W) f).
  cbn [opt_td_truth g_wall dt_of].
  destruct (MEG * o =? 0) eqn:EO; cbn [negb]; cbv iota.
  - assert (o = 0) by (unfold MEG in EO; lia). replace (W - MEG * o) with W by (unfold MEG; lia). rewrite R. cbn [negb].
    change (mkgdt W 0 None) with (mkgdt W 0 None). apply add_mid; assumption.
  - unfold nat_sub_opt_td, nat_add. cbn [g_wall g_tz]. replace (W + - (MEG * o)) with (W - MEG * o) by lia.
    destruct (wall_in_range (W - MEG * o)) eqn:RU; cbn [negb]; [|reflexivity]. apply add_mid; assumption.
Qed.

(* ---------- DateTime.add on a naive value / with calendar units ---------- *)
Definition var_units (years months weeks days : Z) : bool :=
  negb (years =? 0) || negb (months =? 0) || negb (weeks =? 0) || negb (days =? 0).

Theorem glue_add_naive W f years months weeks days hours minutes seconds us : wall_in_range W = true ->
  (forall r, py_add_duration (mkndt W true) years months weeks days hours minutes seconds us = Ok r -> wall_in_range (n_wall r) = true) ->
  glue_DateTime_add (dt_of W f None) years months weeks days hours minutes seconds us =
  res_of None (add_naive W f years months weeks days hours minutes seconds us).
Proof.
  intros R Hres. unfold glue_DateTime_add, add_naive. cbv beta zeta. fold (var_units years months weeks days).
  rewrite (nat_new_fields (dt_of W f None) None 0 R (or_introl eq_refl)). cbv beta iota zeta.
  change (nat_utcoffset (dt_of W f None)) with (@None Z). cbn [opt_td_truth]. cbn [g_tz dt_of]. rewrite orb_true_r.
  unfold g_add_duration. cbn [g_wall dt_of].
  assert (K : match py_add_duration (mkndt W true) years months weeks days hours minutes seconds us with
              | Ok r => match (let m := mkgdt (n_wall r) 0 None in
                               glue_DateTime_create (g_year m) (g_month m) (g_day m) (g_hour m) (g_minute m) (g_second m) (g_microsecond m) None 1 false)
                        with Ok m4 => Ok m4 | Raise e => Raise e end
              | Raise e => Raise e
              end = res_of None match py_add_duration (mkndt W true) years months weeks days hours minutes seconds us with
                                | Ok d => Ok (n_wall d, true) | Raise e => Raise e end).
  { destruct (py_add_duration (mkndt W true) years months weeks days hours minutes seconds us) as [r|e] eqn:E; [|reflexivity].
    cbv zeta. pose proof (glue_create_naive (n_wall r) true false (Hres r eq_refl)) as C. cbv zeta in C.
    change (Z.b2z true) with 1 in C.
    change (g_year (mkgdt (n_wall r) 0 None)) with (g_year (dt_of (n_wall r) true None)).
    change (g_month (mkgdt (n_wall r) 0 None)) with (g_month (dt_of (n_wall r) true None)).
    change (g_day (mkgdt (n_wall r) 0 None)) with (g_day (dt_of (n_wall r) true None)).
    change (g_hour (mkgdt (n_wall r) 0 None)) with (g_hour (dt_of (n_wall r) true None)).
    change (g_minute (mkgdt (n_wall r) 0 None)) with (g_minute (dt_of (n_wall r) true None)).
    change (g_second (mkgdt (n_wall r) 0 None)) with (g_second (dt_of (n_wall r) true None)).
    change (g_microsecond (mkgdt (n_wall r) 0 None)) with (g_microsecond (dt_of (n_wall r) true None)).
    rewrite C. reflexivity. }
  destruct (negb (var_units years months weeks days)); cbv iota;
  destruct (py_add_duration (mkndt W true) years months weeks days hours minutes seconds us) as [r|e]; cbv beta iota zeta in K |- *; exact K.
Qed.

Theorem glue_add_calendar t W f years months weeks days hours minutes seconds us : wall_in_range W = true ->
  var_units years months weeks days = true ->
  (forall r, py_add_duration (mkndt W true) years months weeks days hours minutes seconds us = Ok r -> wall_in_range (n_wall r) = true) ->
  glue_DateTime_add (dt_of W f (Some t)) years months weeks days hours minutes seconds us =
  res_of (Some t) (add_calendar (gz_zone t) (gz_fixed t) W years months weeks days hours minutes seconds us).
Proof.
  intros R Hu Hres. unfold glue_DateTime_add, add_calendar. cbv beta zeta. fold (var_units years months weeks days). rewrite Hu.
  rewrite (nat_new_fields (dt_of W f (Some t)) None 0 R (or_introl eq_refl)). cbv beta iota zeta. cbn [negb orb]. cbv iota.
  unfold g_add_duration. cbn [g_wall dt_of g_tz].
  destruct (py_add_duration (mkndt W true) years months weeks days hours minutes seconds us) as [r|e] eqn:E; [|reflexivity].
  cbv beta iota zeta. pose proof (glue_create t (n_wall r) true false (Hres r eq_refl)) as C. cbv zeta in C. change (Z.b2z true) with 1 in C.
  change (g_year (mkgdt (n_wall r) 0 None)) with (g_year (dt_of (n_wall r) true None)).
  change (g_month (mkgdt (n_wall r) 0 None)) with (g_month (dt_of (n_wall r) true None)).
  change (g_day (mkgdt (n_wall r) 0 None)) with (g_day (dt_of (n_wall r) true None)).
  change (g_hour (mkgdt (n_wall r) 0 None)) with (g_hour (dt_of (n_wall r) true None)).
  change (g_minute (mkgdt (n_wall r) 0 None)) with (g_minute (dt_of (n_wall r) true None)).
  change (g_second (mkgdt (n_wall r) 0 None)) with (g_second (dt_of (n_wall r) true None)).
  change (g_microsecond (mkgdt (n_wall r) 0 None)) with (g_microsecond (dt_of (n_wall r) true None)).
  rewrite C. destruct (res_of _ _); reflexivity.
Qed.

(* ---------- DateTime.int_timestamp ---------- *)
Theorem glue_int_timestamp t W f : gtz_ok t -> same_obj t g_UTC -> wall_in_range W = true ->
  glue_DateTime_int_timestamp (dt_of W f (Some t)) = Ok (int_timestamp (gz_zone t) W f).
Proof.
  intros Ot S R. unfold glue_DateTime_int_timestamp. rewrite rebuild by (try exact R; apply b2z_fold). cbv beta iota zeta.
  unfold nat_sub, g_EPOCH. cbn [g_tz dt_of g_wall]. fold (dt_of W f (Some t)).
  unfold int_timestamp, inst, TzConvert.EPOCH_US, td_days_us, td_seconds_us.
  destruct (gtz_is t g_UTC) eqn:I.
  - unfold gtz_is in I. rewrite (S ltac:(lia)). change (off_local (gz_zone g_UTC) (W / MEG) f) with 0.
    f_equal. unfold EPOCH_US_g, MEG, us_per_day. lia.
  - rewrite tz_utcoffset_spec by exact Ot. change (tz_utcoffset g_UTC _) with 0. unfold sec.
    set (o := off_local (gz_zone t) (W / MEG) f). f_equal. unfold EPOCH_US_g, MEG, us_per_day. lia.
Qed.

(* the statements are not vacuous: a gap, a fold, an aware conversion, a fixed offset *)
Example glue_examples :
  let z := mkzone 3600 [(1000, 7200); (100000, 3600)] in let t := mkgtz 7 false 0 z in let fx := mkgtz 8 true (-18000) (fixed_zone (-18000)) in
  wf_zone z = true /\
  glue_Timezone_convert t (mkgdt (5000 * MEG) 0 None) false = Ok (mkgdt (1400 * MEG) 0 (Some t)) /\
  glue_Timezone_convert t (mkgdt (5000 * MEG) 1 None) false = Ok (mkgdt (8600 * MEG) 0 (Some t)) /\
  glue_Timezone_convert t (mkgdt (5000 * MEG) 1 None) true = Raise E_NonExistingTime /\
  glue_Timezone_convert t (mkgdt (105000 * MEG) 0 None) true = Raise E_AmbiguousTime /\
  glue_Timezone_convert t (mkgdt (105000 * MEG) 1 None) false = Ok (mkgdt (105000 * MEG) 1 (Some t)) /\
  g_convert fx (mkgdt (105000 * MEG) 1 (Some t)) false = Ok (mkgdt (83400 * MEG) 0 (Some fx)).
Proof. vm_compute. repeat split; reflexivity. Qed.

(* ---------- DateTime.set / on / at / replace / naive = the step functions of Model/WallHistory.v ---------- *)
Definition tzp (tzo : option gtz) : option (zone * bool) := option_map (fun t => (gz_zone t, gz_fixed t)) tzo.
Definition hres (tzo : option gtz) (r : result hst) : result gdt :=
  match r with Ok st => Ok (dt_of (h_W st) (h_f st) tzo) | Raise e => Raise e end.
Definition g_build (tzo : option gtz) (W : Z) (f r : bool) : result gdt :=
  match tzo with None => Ok (dt_of W f None) | Some t => res_of (Some t) (create (gz_zone t) (gz_fixed t) W f r) end.

Lemma g_build_build tzo W f r : hres tzo (build (tzp tzo) W f r) = g_build tzo W f r.
Proof.
  destruct tzo as [t|]; [|reflexivity]. cbn [tzp option_map build g_build].
  destruct (create (gz_zone t) (gz_fixed t) W f r) as [[W' f']|e]; reflexivity.
Qed.

Definition time_us (h mi s us : Z) : Z := ((h * 60 + mi) * 60 + s) * 1000000 + us.
Definition fields_ok (y m d h mi s us : Z) : Prop :=
  1 <= y <= 9999 /\ valid_dateb y m d = true /\ 0 <= h <= 23 /\ 0 <= mi <= 59 /\ 0 <= s <= 59 /\ 0 <= us <= 999999.

Lemma nat_new_ok y m d h mi s us tz fold : fields_ok y m d h mi s us -> fold = 0 \/ fold = 1 ->
  nat_new y m d h mi s us tz fold = Ok (mkgdt (wall_of y m d h mi s us) fold tz).
Proof.
  intros (Hy & Hv & Hh & Hm & Hs & Hu) Hf. unfold nat_new. rewrite Hv.
  replace (1 <=? y) with true by lia. replace (y <=? 9999) with true by lia. replace (0 <=? h) with true by lia. replace (h <=? 23) with true by lia.
  replace (0 <=? mi) with true by lia. replace (mi <=? 59) with true by lia. replace (0 <=? s) with true by lia. replace (s <=? 59) with true by lia.
  replace (0 <=? us) with true by lia. replace (us <=? 999999) with true by lia. cbn [andb].
  replace ((fold =? 0) || (fold =? 1)) with true by lia. reflexivity.
Qed.

(* DateTime.create on any valid fields *)
Lemma glue_create_fields tzo y m d h mi s us f r : fields_ok y m d h mi s us ->
  wall_in_range (wall_of y m d h mi s us) = true ->
  glue_DateTime_create y m d h mi s us tzo (Z.b2z f) r = g_build tzo (wall_of y m d h mi s us) f r.
Proof.
  intros F R. unfold glue_DateTime_create. rewrite (nat_new_ok _ _ _ _ _ _ _ None _ F (b2z_fold f)).
  set (W := wall_of y m d h mi s us) in *. change (mkgdt W (Z.b2z f) None) with (dt_of W f None).
  destruct tzo as [t|]; cbv beta iota zeta delta [negb].
  - rewrite glue_convert_naive_any by exact R. cbn [g_build]. apply rebuild_res. intros W' f' H. exact (create_in_range _ _ _ _ _ _ _ R H).
  - rewrite rebuild; [reflexivity|exact R|apply b2z_fold].
Qed.

(* the fields of an existing in-range value *)
Lemma own_fields d : wall_in_range (g_wall d) = true ->
  fields_ok (g_year d) (g_month d) (g_day d) (g_hour d) (g_minute d) (g_second d) (g_microsecond d) /\
  ymd2ord (g_year d) (g_month d) (g_day d) = g_wall d / us_per_day + 1 /\
  time_us (g_hour d) (g_minute d) (g_second d) (g_microsecond d) = g_wall d mod us_per_day.
Proof.
  intros R. destruct (fields_in_range _ R) as (Hy & Hv & _). cbv zeta in Hy, Hv.
  unfold ndt_year, ndt_month, ndt_day, ndt_ord in Hy, Hv. cbn [n_wall] in Hy, Hv.
  pose proof (ymd2ord_ord2ymd (g_wall d / us_per_day + 1)) as Ho.
  unfold fields_ok, time_us, g_year, g_month, g_day, g_hour, g_minute, g_second, g_microsecond, fields_of_wall.
  destruct (ord2ymd (g_wall d / us_per_day + 1)) as [[y m] dd]. cbn [fst snd] in Hy, Hv.
  unfold us_per_day in *. repeat split; try assumption; try lia.
Qed.

Lemma wall_of_split y m d h mi s us : wall_of y m d h mi s us = (ymd2ord y m d - 1) * us_per_day + time_us h mi s us.
Proof. unfold wall_of, time_us. lia. Qed.

Lemma day_us_val : day_us = us_per_day. Proof. reflexivity. Qed.

(* set(<all seven fields>): OSetWall *)
Theorem glue_set_wall tzo W f W' : wall_in_range W' = true ->
  let d' := dt_of W' f None in
  glue_DateTime_set (dt_of W f tzo) (Some (g_year d')) (Some (g_month d')) (Some (g_day d')) (Some (g_hour d')) (Some (g_minute d'))
                    (Some (g_second d')) (Some (g_microsecond d')) None
  = hres tzo (hstep (mkhst (tzp tzo) W f) (OSetWall W')).
Proof.
  intros R d'. unfold glue_DateTime_set. cbv beta iota zeta. cbn [g_tz g_fold dt_of hstep h_tz h_f].
  destruct (own_fields d' R) as (F & Ho & Ht).
  rewrite glue_create_fields; [| exact F | rewrite wall_of_split, Ho, Ht; cbn [g_wall d' dt_of]; replace (_ + _) with W' by (unfold us_per_day; lia); exact R].
  rewrite wall_of_split, Ho, Ht. cbn [g_wall d' dt_of].
  replace ((W' / us_per_day + 1 - 1) * us_per_day + W' mod us_per_day) with W' by (unfold us_per_day; lia).
  rewrite g_build_build. destruct (g_build tzo W' f false); reflexivity.
Qed.

(* set(tz=t) / replace(tzinfo=t): OSetTz *)
Theorem glue_set_tz tzo t W f : wall_in_range W = true ->
  glue_DateTime_set (dt_of W f tzo) None None None None None None None (Some t)
  = hres (Some t) (hstep (mkhst (tzp tzo) W f) (OSetTz (gz_zone t) (gz_fixed t))).
Proof.
  intros R. unfold glue_DateTime_set. cbv beta iota zeta. cbn [hstep h_W h_f].
  set (d := dt_of W f tzo). destruct (own_fields d R) as (F & Ho & Ht). change (g_fold d) with (Z.b2z f).
  rewrite glue_create_fields; [| exact F | rewrite wall_of_split, Ho, Ht; cbn [g_wall d dt_of]; replace (_ + _) with W by (unfold us_per_day; lia); exact R].
  rewrite wall_of_split, Ho, Ht. cbn [g_wall d dt_of].
  replace ((W / us_per_day + 1 - 1) * us_per_day + W mod us_per_day) with W by (unfold us_per_day; lia).
  change (build (Some (gz_zone t, gz_fixed t)) W f false) with (build (tzp (Some t)) W f false). rewrite g_build_build.
  destruct (g_build (Some t) W f false); reflexivity.
Qed.

(* on(y, m, d): OOn *)
Theorem glue_on tzo W f y m d : wall_in_range W = true -> 1 <= y <= 9999 -> valid_dateb y m d = true ->
  wall_in_range ((ymd2ord y m d - 1) * us_per_day + W mod us_per_day) = true ->
  glue_DateTime_on (dt_of W f tzo) y m d = hres tzo (hstep (mkhst (tzp tzo) W f) (OOn (ymd2ord y m d - 1))).
Proof.
  intros R Hy Hv R'. unfold glue_DateTime_on, glue_DateTime_set. cbv beta iota zeta. cbn [hstep h_W h_f h_tz]. rewrite day_us_val.
  set (s0 := dt_of W f tzo). destruct (own_fields s0 R) as ((_ & _ & Hh & Hm & Hs & Hu) & _ & Ht). change (g_fold s0) with (Z.b2z f). change (g_tz s0) with tzo.
  assert (F : fields_ok y m d (g_hour s0) (g_minute s0) (g_second s0) (g_microsecond s0)) by (repeat split; assumption || lia).
  assert (E : wall_of y m d (g_hour s0) (g_minute s0) (g_second s0) (g_microsecond s0) = (ymd2ord y m d - 1) * us_per_day + W mod us_per_day)
    by (rewrite wall_of_split, Ht; reflexivity).
  rewrite glue_create_fields; [| exact F | rewrite E; exact R']. rewrite E, g_build_build.
  destruct (g_build tzo _ f false); reflexivity.
Qed.

(* at(h, mi, s, us): OAt *)
Theorem glue_at tzo W f h mi s us : wall_in_range W = true -> 0 <= h <= 23 -> 0 <= mi <= 59 -> 0 <= s <= 59 -> 0 <= us <= 999999 ->
  glue_DateTime_at (dt_of W f tzo) h mi s us = hres tzo (hstep (mkhst (tzp tzo) W f) (OAt (time_us h mi s us))).
Proof.
  intros R Hh Hm Hs Hu. unfold glue_DateTime_at, glue_DateTime_set. cbv beta iota zeta. cbn [hstep h_W h_f h_tz]. rewrite day_us_val.
  set (s0 := dt_of W f tzo). destruct (own_fields s0 R) as ((Hy & Hv & _) & Ho & _). change (g_fold s0) with (Z.b2z f). change (g_tz s0) with tzo.
  assert (F : fields_ok (g_year s0) (g_month s0) (g_day s0) h mi s us) by (repeat split; assumption || lia).
  assert (E : wall_of (g_year s0) (g_month s0) (g_day s0) h mi s us = W / us_per_day * us_per_day + time_us h mi s us)
    by (rewrite wall_of_split, Ho; cbn [g_wall s0 dt_of]; lia).
  assert (R' : wall_in_range (W / us_per_day * us_per_day + time_us h mi s us) = true).
  { apply wall_in_range_iff. apply wall_in_range_iff in R. unfold time_us, us_per_day. lia. }
  rewrite glue_create_fields; [| exact F | rewrite E; exact R']. rewrite E, g_build_build.
  destruct (g_build tzo _ f false); reflexivity.
Qed.

(* replace(fold=f'): OSetFold;  replace(tzinfo=None): OReplaceNoTz;  replace(tzinfo=t): OSetTz;  naive(): ODropTz *)
Theorem glue_replace_fold tzo W f f' : wall_in_range W = true ->
  glue_DateTime_replace_keep (dt_of W f tzo) None None None None None None None (Some (Z.b2z f'))
  = hres tzo (hstep (mkhst (tzp tzo) W f) (OSetFold f')).
Proof.
  intros R. unfold glue_DateTime_replace_keep. cbv beta iota zeta. cbn [hstep h_W h_f h_tz].
  set (d := dt_of W f tzo). destruct (own_fields d R) as (F & Ho & Ht). change (g_tz d) with tzo.
  assert (T : (if negb match tzo with None => true | Some _ => false end then tzo else tzo) = tzo) by (destruct tzo; reflexivity). rewrite T.
  rewrite glue_create_fields; [| exact F | rewrite wall_of_split, Ho, Ht; cbn [g_wall d dt_of]; replace (_ + _) with W by (unfold us_per_day; lia); exact R].
  rewrite wall_of_split, Ho, Ht. cbn [g_wall d dt_of].
  replace ((W / us_per_day + 1 - 1) * us_per_day + W mod us_per_day) with W by (unfold us_per_day; lia).
  rewrite g_build_build. destruct (g_build tzo W f' false); reflexivity.
Qed.

Theorem glue_replace_tzinfo tzo tz' W f : wall_in_range W = true ->
  glue_DateTime_replace_tz (dt_of W f tzo) None None None None None None None tz' None
  = match tz' with
    | Some t => hres (Some t) (hstep (mkhst (tzp tzo) W f) (OSetTz (gz_zone t) (gz_fixed t)))
    | None => hres None (hstep (mkhst (tzp tzo) W f) OReplaceNoTz)
    end.
Proof.
  intros R. unfold glue_DateTime_replace_tz. cbv beta iota zeta. cbn [hstep h_W h_f h_tz].
  set (d := dt_of W f tzo). destruct (own_fields d R) as (F & Ho & Ht). change (g_fold d) with (Z.b2z f).
  assert (T : (if negb match tz' with None => true | Some _ => false end then tz' else tz') = tz') by (destruct tz'; reflexivity). rewrite T.
  rewrite glue_create_fields; [| exact F | rewrite wall_of_split, Ho, Ht; cbn [g_wall d dt_of]; replace (_ + _) with W by (unfold us_per_day; lia); exact R].
  rewrite wall_of_split, Ho, Ht. cbn [g_wall d dt_of].
  replace ((W / us_per_day + 1 - 1) * us_per_day + W mod us_per_day) with W by (unfold us_per_day; lia).
  destruct tz' as [t|]; [|reflexivity].
  change (build (Some (gz_zone t, gz_fixed t)) W f false) with (build (tzp (Some t)) W f false). rewrite g_build_build.
  destruct (g_build (Some t) W f false); reflexivity.
Qed.

Theorem glue_naive tzo W f : wall_in_range W = true ->
  glue_DateTime_naive (dt_of W f tzo) = hres None (hstep (mkhst (tzp tzo) W f) ODropTz).
Proof.
  intros R. unfold glue_DateTime_naive. rewrite nat_new_fields; [reflexivity|exact R|left; reflexivity].
Qed.

(* ---------- pendulum.from_timestamp (integer) = from_timestamp_int;  DateTime.instance = create with the fold of the native value ---------- *)
Lemma create_from_own_fields tzo W f r : wall_in_range W = true ->
  let d := mkgdt W 0 None in
  glue_DateTime_create (g_year d) (g_month d) (g_day d) (g_hour d) (g_minute d) (g_second d) (g_microsecond d) tzo (Z.b2z f) r = g_build tzo W f r.
Proof.
  intros R d. destruct (own_fields d R) as (F & Ho & Ht).
  rewrite glue_create_fields; [| exact F | rewrite wall_of_split, Ho, Ht; cbn [g_wall d]; replace (_ + _) with W by (unfold us_per_day; lia); exact R].
  rewrite wall_of_split, Ho, Ht. cbn [g_wall d]. replace ((W / us_per_day + 1 - 1) * us_per_day + W mod us_per_day) with W by (unfold us_per_day; lia).
  reflexivity.
Qed.

Theorem glue_from_timestamp_spec tz n : gtz_ok tz -> same_obj g_UTC tz ->
  glue_from_timestamp n tz = res_of (Some tz) (from_timestamp_int (gz_zone tz) (gtz_is g_UTC tz) n).
Proof.
  intros Ot S. unfold glue_from_timestamp, from_timestamp_int, nat_utcfromtimestamp. cbv zeta.
  change TzConvert.EPOCH_US with EPOCH_US_g. set (U := EPOCH_US_g + n * MEG).
  destruct (wall_in_range U) eqn:R; cbn [negb]; [|reflexivity]. cbv beta iota zeta.
  unfold glue_pendulum_datetime. change 1 with (Z.b2z true) at 1.
  rewrite (create_from_own_fields (Some g_UTC) U true false R). cbn [g_build].
  change (create (gz_zone g_UTC) (gz_fixed g_UTC) U true false) with (Ok (U, true) : result (Z * bool)). cbn [res_of]. cbv beta iota zeta.
  rewrite (glue_in_timezone_aware g_UTC tz U true gtz_ok_UTC Ot S). destruct (res_of _ _); reflexivity.
Qed.

Theorem glue_instance_spec tzo tzarg W f : wall_in_range W = true ->
  glue_DateTime_instance (dt_of W f tzo) tzarg = g_build (opt_tz_or tzo tzarg) W f false.
Proof.
  intros R. unfold glue_DateTime_instance. cbv beta zeta. cbn [g_tz dt_of]. fold (dt_of W f tzo).
  set (T := opt_tz_or tzo tzarg).
  assert (E : (if negb match T with None => true | Some _ => false end then T else T) = T) by (destruct T; reflexivity). rewrite E.
  set (d := dt_of W f tzo). destruct (own_fields d R) as (F & Ho & Ht). change (g_fold d) with (Z.b2z f).
  rewrite glue_create_fields; [| exact F | rewrite wall_of_split, Ho, Ht; cbn [g_wall d dt_of]; replace (_ + _) with W by (unfold us_per_day; lia); exact R].
  rewrite wall_of_split, Ho, Ht. cbn [g_wall d dt_of]. replace ((W / us_per_day + 1 - 1) * us_per_day + W mod us_per_day) with W by (unfold us_per_day; lia).
  destruct (g_build T W f false); reflexivity.
Qed.

(* ---------- DateTime.add / subtract as a whole = dt_add / dt_subtract of Model/CalendarArith.v ---------- *)
Definition tzk_of (tzo : option gtz) : tzk := match tzo with None => Naive | Some t => Aware (gz_zone t) (gz_fixed t) end.
Definition tzo_ok (tzo : option gtz) : Prop := match tzo with Some t => gtz_ok t /\ same_obj g_UTC t | None => True end.
(* side conditions of one addition: the timedelta of the fixed part exists, and add_duration's result lies in years 1..9999 *)
Definition add_side (W y mo wk d h m s us : Z) : Prop :=
  -999999999 <= td_total_us 0 h m s us / us_per_day <= 999999999 /\
  (forall r, py_add_duration (mkndt W true) y mo wk d h m s us = Ok r -> wall_in_range (n_wall r) = true).

Theorem glue_dt_add tzo W f y mo wk d h m s us : wall_in_range W = true -> tzo_ok tzo -> add_side W y mo wk d h m s us ->
  glue_DateTime_add (dt_of W f tzo) y mo wk d h m s us = res_of tzo (dt_add (tzk_of tzo) W f y mo wk d h m s us).
Proof.
  intros R Ok_ [Hlim Hres]. destruct tzo as [t|]; cbn [tzk_of dt_add].
  - destruct Ok_ as [Ot S]. change (any_cal y mo wk d) with (var_units y mo wk d). destruct (var_units y mo wk d) eqn:V.
    + apply glue_add_calendar; assumption.
    + unfold var_units in V. assert (y = 0 /\ mo = 0 /\ wk = 0 /\ d = 0) as (-> & -> & -> & ->) by lia.
      apply glue_add_fixed; assumption.
  - apply glue_add_naive; assumption.
Qed.

Lemma glue_subtract_is_add dt y mo wk d h m s us :
  glue_DateTime_subtract dt y mo wk d h m s us = glue_DateTime_add dt (- y) (- mo) (- wk) (- d) (- h) (- m) (- s) (- us).
Proof. unfold glue_DateTime_subtract. destruct (glue_DateTime_add _ _ _ _ _ _ _ _ _); reflexivity. Qed.

Theorem glue_dt_subtract tzo W f y mo wk d h m s us : wall_in_range W = true -> tzo_ok tzo ->
  add_side W (- y) (- mo) (- wk) (- d) (- h) (- m) (- s) (- us) ->
  glue_DateTime_subtract (dt_of W f tzo) y mo wk d h m s us = res_of tzo (dt_subtract (tzk_of tzo) W f y mo wk d h m s us).
Proof. intros. rewrite glue_subtract_is_add. unfold dt_subtract. apply glue_dt_add; assumption. Qed.

(* ---------- the operators with a Duration / Interval operand ---------- *)
Definition gop_of_iv (y mo wk rd h mi rs us N : Z) : gop := mkgop 2 N y mo wk rd h mi rs us [].
Definition gop_of_dur (d : dur) : gop :=
  mkgop 1 (d_N d) (d_years d) (d_months d) (d_weeks d) (d_rdays d) (dur_hours d) (dur_minutes d) (dur_remaining_seconds d) (d_micro d) (d_sig d).
(* "DateTime.add agrees with the model on this value for all arguments" (discharged by glue_dt_add under its side conditions) *)
Definition add_agrees (tzo : option gtz) (W : Z) (f : bool) : Prop :=
  forall y mo wk d h m s us, glue_DateTime_add (dt_of W f tzo) y mo wk d h m s us = res_of tzo (dt_add (tzk_of tzo) W f y mo wk d h m s us).

Theorem glue_add_interval_operand tzo W f y mo wk rd h mi rs us N total : add_agrees tzo W f ->
  g_add_timedelta (dt_of W f tzo) (gop_of_iv y mo wk rd h mi rs us N) = res_of tzo (dt_add_timedelta (tzk_of tzo) W f (OpIv y mo wk rd h mi rs us total)).
Proof.
  intros A. unfold g_add_timedelta, glue_DateTime_add_timedelta_interval, gop_of_iv. cbn [op_kind op_years op_months op_weeks op_rdays op_hours op_minutes op_rsecs op_micro Z.eqb Pos.eqb].
  rewrite A. cbn [dt_add_timedelta]. destruct (res_of _ _); reflexivity.
Qed.

Theorem glue_add_duration_operand tzo W f d : add_agrees tzo W f ->
  g_add_timedelta (dt_of W f tzo) (gop_of_dur d) = res_of tzo (dt_add_timedelta (tzk_of tzo) W f (OpDur d)).
Proof.
  intros A. unfold g_add_timedelta, glue_DateTime_add_timedelta_duration, g_add_signature, gop_of_dur. cbn [op_kind op_sig Z.eqb Pos.eqb dt_add_timedelta].
  destruct (d_sig d) as [|y [|mo [|wk [|dd [|h [|mi [|s [|us [|x l]]]]]]]]]; try reflexivity.
  rewrite A. destruct (res_of _ _); reflexivity.
Qed.

Theorem glue_sub_duration_operand tzo W f d : add_agrees tzo W f ->
  g_subtract_timedelta (dt_of W f tzo) (gop_of_dur d) = res_of tzo (dt_sub_timedelta (tzk_of tzo) W f (OpDur d)).
Proof.
  intros A. unfold g_subtract_timedelta, glue_DateTime_subtract_timedelta_duration, gop_of_dur.
  cbn [op_kind op_years op_months op_weeks op_rdays op_hours op_minutes op_rsecs op_micro Z.eqb Pos.eqb orb dt_sub_timedelta].
  rewrite glue_subtract_is_add, A. unfold dt_sub_components, dt_subtract. destruct (res_of _ _); reflexivity.
Qed.

Theorem glue_sub_interval_operand tzo W f y mo wk rd h mi rs us N total : add_agrees tzo W f ->
  g_subtract_timedelta (dt_of W f tzo) (gop_of_iv y mo wk rd h mi rs us N) = res_of tzo (dt_sub_timedelta (tzk_of tzo) W f (OpIv y mo wk rd h mi rs us total)).
Proof.
  intros A. unfold g_subtract_timedelta, glue_DateTime_subtract_timedelta_duration, gop_of_iv.
  cbn [op_kind op_years op_months op_weeks op_rdays op_hours op_minutes op_rsecs op_micro Z.eqb Pos.eqb orb dt_sub_timedelta].
  rewrite glue_subtract_is_add, A. unfold dt_subtract. destruct (res_of _ _); reflexivity.
Qed.

(* DateTime.__add__: the native addition when called from astimezone's frame, else _add_timedelta_; __radd__ passes False *)
Theorem glue_dunder_add dt o called :
  glue_DateTime___add__ dt o called = if called then nat_add dt (op_us o) else g_add_timedelta dt o.
Proof. unfold glue_DateTime___add__, nat_add_op. destruct called; [destruct (nat_add _ _)|destruct (g_add_timedelta _ _)]; reflexivity. Qed.
Theorem glue_dunder_radd dt o : glue_DateTime___radd__ dt o = g_add_timedelta dt o.
Proof. unfold glue_DateTime___radd__. rewrite glue_dunder_add. destruct (g_add_timedelta dt o); reflexivity. Qed.

(* ---------- Date.add / subtract / _add_timedelta / _subtract_timedelta / __add__ / __sub__(timedelta) = Model/CalendarArith.v date_* ---------- *)
Definition gres_date (r : result Z) : result gdate := match r with Ok W => Ok (mkgdate W) | Raise e => Raise e end.
Definition midnight (W : Z) : Prop := wall_in_range W = true /\ W mod us_per_day = 0.
(* add_duration's result on this date is again a date of years 1..9999 (its own range checks; stated as a side condition) *)
Definition date_side (W y mo wk d : Z) : Prop :=
  forall r, py_add_duration (mkndt W false) y mo wk d 0 0 0 0 = Ok r -> midnight (n_wall r).

Lemma date_rebuild W : midnight W -> nat_date_new (gd_year (mkgdate W)) (gd_month (mkgdate W)) (gd_day (mkgdate W)) = Ok (mkgdate W).
Proof.
  intros [R M]. destruct (own_fields (mkgdt W 0 None) R) as ((Hy & Hv & _) & Ho & _).
  change (g_year (mkgdt W 0 None)) with (gd_year (mkgdate W)) in *. change (g_month (mkgdt W 0 None)) with (gd_month (mkgdate W)) in *.
  change (g_day (mkgdt W 0 None)) with (gd_day (mkgdate W)) in *. cbn [g_wall] in Ho.
  unfold nat_date_new. rewrite Hv, Ho. replace ((1 <=? gd_year (mkgdate W)) && (gd_year (mkgdate W) <=? 9999)) with true by lia. cbn [andb].
  f_equal. f_equal. unfold us_per_day in *. lia.
Qed.

Theorem glue_date_add W y mo wk d : midnight W -> date_side W y mo wk d ->
  glue_Date_add (mkgdate W) y mo wk d = gres_date (date_add W y mo wk d).
Proof.
  intros M S. unfold glue_Date_add, date_add, g_add_duration_date. rewrite (date_rebuild W M). cbv beta iota zeta. cbn [gd_wall].
  destruct (py_add_duration (mkndt W false) y mo wk d 0 0 0 0) as [r|e] eqn:E; [|reflexivity]. cbv beta iota zeta.
  rewrite (date_rebuild _ (S r E)). reflexivity.
Qed.

Lemma glue_date_subtract_is_add dt y mo wk d : glue_Date_subtract dt y mo wk d = glue_Date_add dt (- y) (- mo) (- wk) (- d).
Proof. unfold glue_Date_subtract. destruct (glue_Date_add _ _ _ _ _); reflexivity. Qed.

Theorem glue_date_subtract W y mo wk d : midnight W -> date_side W (- y) (- mo) (- wk) (- d) ->
  glue_Date_subtract (mkgdate W) y mo wk d = gres_date (date_subtract W y mo wk d).
Proof. intros. rewrite glue_date_subtract_is_add. unfold date_subtract. apply glue_date_add; assumption. Qed.

Definition gop_of_td (N : Z) : gop := mkgop 0 N 0 0 0 0 0 0 0 0 [].
Definition date_agrees (W : Z) : Prop := forall y mo wk d, glue_Date_add (mkgdate W) y mo wk d = gres_date (date_add W y mo wk d).

Theorem glue_date_add_timedelta_td W N : date_agrees W ->
  glue_Date___add__ (mkgdate W) (gop_of_td N) = gres_date (date_add_timedelta W (OpTd N)).
Proof.
  intros A. unfold glue_Date___add__, g_date_add_timedelta, glue_Date_add_timedelta_plain, gop_of_td, op_days. cbn [op_kind op_us Z.eqb date_add_timedelta].
  rewrite A. change US_PER_DAY with us_per_day. destruct (gres_date _); reflexivity.
Qed.
Theorem glue_date_add_timedelta_dur W d : date_agrees W ->
  glue_Date___add__ (mkgdate W) (gop_of_dur d) = gres_date (date_add_timedelta W (OpDur d)).
Proof.
  intros A. unfold glue_Date___add__, g_date_add_timedelta, glue_Date_add_timedelta_duration, gop_of_dur.
  cbn [op_kind op_years op_months op_weeks op_rdays Z.eqb Pos.eqb date_add_timedelta]. rewrite A. destruct (gres_date _); reflexivity.
Qed.
Theorem glue_date_add_timedelta_iv W y mo wk rd h mi rs us N total : date_agrees W ->
  glue_Date___add__ (mkgdate W) (gop_of_iv y mo wk rd h mi rs us N) = gres_date (date_add_timedelta W (OpIv y mo wk rd h mi rs us total)).
Proof.
  intros A. unfold glue_Date___add__, g_date_add_timedelta, glue_Date_add_timedelta_duration, gop_of_iv.
  cbn [op_kind op_years op_months op_weeks op_rdays Z.eqb Pos.eqb date_add_timedelta]. rewrite A. destruct (gres_date _); reflexivity.
Qed.
Theorem glue_date_sub_timedelta W op : date_agrees W ->
  glue_Date___sub___timedelta (mkgdate W)
    (match op with OpTd N => gop_of_td N | OpDur d => gop_of_dur d | OpIv y mo wk rd h mi rs us _ => gop_of_iv y mo wk rd h mi rs us 0 end)
  = gres_date (date_sub_timedelta W op).
Proof.
  intros A. unfold glue_Date___sub___timedelta, g_date_subtract_timedelta, glue_Date_subtract_timedelta_plain, glue_Date_subtract_timedelta_duration.
  destruct op as [N|d|y mo wk rd h mi rs us total]; unfold gop_of_td, gop_of_dur, gop_of_iv, op_days;
  cbn [op_kind op_us op_years op_months op_weeks op_rdays Z.eqb Pos.eqb date_sub_timedelta];
  rewrite glue_date_subtract_is_add, A; unfold date_subtract; change US_PER_DAY with us_per_day;
  replace (- 0) with 0 by lia; destruct (gres_date _); reflexivity.
Qed.

(* ---------- pendulum._safe_timezone on every argument kind, and DateTime.instance with a foreign tzinfo ---------- *)
Definition safe_tz_table (o : gtzarg) : gtz :=
  if ta_kind o =? 0 then ta_tz o                                           (* a pendulum timezone object: itself *)
  else if ta_kind o =? 4 then g_fixed_tz (ta_hours o * 3600)               (* a number of hours: the FixedTimezone of that offset *)
  else if ta_kind o =? 5 then                                              (* a foreign tzinfo, in THIS order: *)
    if ta_has_key o then ta_key_named o                                    (*   .key (zoneinfo)  -> Timezone(key) *)
    else if ta_has_localize o then ta_zone_named o                         (*   .localize (pytz) -> Timezone(obj.zone) *)
    else if ta_tzname_utc o then g_UTC                                     (*   tzname(None) == "UTC" -> pendulum.UTC *)
    else g_fixed_tz (Z.quot (match ta_utcoffset o with Some us => us | None => 0 end) 1000000)   (* utcoffset(dt), None = 0, truncated to seconds *)
  else if ta_kind o =? 7 then g_fixed_tz (ta_offset o)
  else ta_named o.                                                         (* a name: the cached Timezone *)

Theorem glue_safe_timezone_spec o : glue_safe_timezone o = safe_tz_table o.
Proof.
  unfold glue_safe_timezone, safe_tz_table. cbv zeta.
  destruct (ta_kind o =? 0) eqn:K0; [reflexivity|]. destruct (ta_kind o =? 4) eqn:K4.
  - unfold g_timezone, ta_of_offset. cbn [ta_kind ta_offset Z.eqb Pos.eqb]. f_equal. lia.
  - destruct (ta_kind o =? 5) eqn:K5.
    + destruct (ta_has_key o); [reflexivity|]. destruct (ta_has_localize o); [reflexivity|]. destruct (ta_tzname_utc o); [reflexivity|].
      unfold g_timezone, ta_of_offset. cbn [ta_kind ta_offset Z.eqb Pos.eqb]. destruct (ta_utcoffset o); reflexivity.
    + unfold g_timezone. destruct (ta_kind o =? 7); reflexivity.
Qed.

Theorem glue_instance_foreign_spec W f tzo tzarg : wall_in_range W = true ->
  glue_DateTime_instance_foreign (mkgfdt W (Z.b2z f) tzo) tzarg = g_build (option_map safe_tz_table (opt_ta_or tzo tzarg)) W f false.
Proof.
  intros R. unfold glue_DateTime_instance_foreign. cbv beta zeta. cbn [fd_tz fd_fold].
  pose proof (fun t => create_from_own_fields t W f false R) as C. cbv zeta in C.
  change (fd_gdt (mkgfdt W (Z.b2z f) tzo)) with (mkgdt W (Z.b2z f) None).
  change (g_year (mkgdt W (Z.b2z f) None)) with (g_year (mkgdt W 0 None)). change (g_month (mkgdt W (Z.b2z f) None)) with (g_month (mkgdt W 0 None)).
  change (g_day (mkgdt W (Z.b2z f) None)) with (g_day (mkgdt W 0 None)). change (g_hour (mkgdt W (Z.b2z f) None)) with (g_hour (mkgdt W 0 None)).
  change (g_minute (mkgdt W (Z.b2z f) None)) with (g_minute (mkgdt W 0 None)). change (g_second (mkgdt W (Z.b2z f) None)) with (g_second (mkgdt W 0 None)).
  change (g_microsecond (mkgdt W (Z.b2z f) None)) with (g_microsecond (mkgdt W 0 None)).
  destruct (opt_ta_or tzo tzarg) as [a|]; cbn [option_map]; cbv zeta; rewrite C; [rewrite glue_safe_timezone_spec|];
  match goal with |- match ?r with Ok m => Ok m | Raise e => Raise e end = _ => destruct r; reflexivity end.
Qed.
