(* Proofs/FloatRoutesFlocq.v — the float premises of Proofs/FloatRoutesFacts.v, proved with Flocq's real-number semantics
   (same route as Proofs/FloatRoundTrip.v / FloatRoundTripC09.v):

     Theorem utcfromtimestamp_exact_proved : utcfromtimestamp_exact.      (C01: from_timestamp(<float>))
     Theorem float_chain_exact_proved      : float_chain_exact.           (C03: dt +/- timedelta)

   No Axiom / Parameter / Admitted of our own; `Print Assumptions` lists what Coq's Reals bring in. *)
From Coq Require Import ZArith Reals Lia Lra Bool List.
From Coq Require Import Floats.SpecFloat.
From Flocq Require Import Core.Core IEEE754.BinarySingleNaN.
From PV Require Import Lib.PyBase Spec.Cal Spec.Zone Spec.NativeDT Spec.TdFloat Proofs.TdFloatFacts
                       Proofs.FloatRoundTripBase Proofs.FloatRoundTrip Proofs.FloatRoundTripC09
                       Model.TzConvert Model.FloatRoutes Proofs.FloatRoutesFacts.
Open Scope Z_scope.

(* ================================================================== C01: utcfromtimestamp(<float>) *)
Lemma ts_us_of_parts : forall t r, sf_is_finite t = true ->
  py_round_half_even (fmul (sf_frac t) f_1e6) = Ok r -> Z.abs (sf_intpart t) < 2 ^ 62 -> Z.abs r <= 1000000 ->
  utcfromtimestamp_float_us t = Ok (sf_intpart t * 1000000 + r).
Proof.
  intros t r Ft Hr Hi Hrb. change (2 ^ 62) with 4611686018427387904 in Hi.
  assert (E : utcfromtimestamp_float_us t =
    bind (match py_round_half_even (fmul (sf_frac t) f_1e6) with
          | Raise e => Raise e
          | Ok r =>
            let '(sec, us) := if r >=? 1000000 then (sf_intpart t + 1, r - 1000000) else if r <? 0 then (sf_intpart t - 1, r + 1000000) else (sf_intpart t, r) in
            if (sec <? - 2 ^ 63) || (2 ^ 63 <=? sec) then Raise E_OverflowError else Ok (sec, us)
          end) (fun p => Ok (fst p * MEG + snd p))).
  { destruct t; try discriminate; reflexivity. }
  rewrite E, Hr. clear E. change (2 ^ 63) with 9223372036854775808. unfold MEG.
  destruct (r >=? 1000000) eqn:A; cbv beta iota zeta.
  - destruct ((sf_intpart t + 1 <? Z.opp 9223372036854775808) || (9223372036854775808 <=? sf_intpart t + 1)) eqn:B; [lia|].
    cbn [bind fst snd]. f_equal. ring.
  - destruct (r <? 0) eqn:C; cbv beta iota zeta.
    + destruct ((sf_intpart t - 1 <? Z.opp 9223372036854775808) || (9223372036854775808 <=? sf_intpart t - 1)) eqn:B; [lia|].
      cbn [bind fst snd]. f_equal. ring.
    + destruct ((sf_intpart t <? Z.opp 9223372036854775808) || (9223372036854775808 <=? sf_intpart t)) eqn:B; [lia|].
      cbn [bind fst snd]. reflexivity.
Qed.

Lemma cond_neg_mul : forall s a b, cond_neg s a * b = cond_neg s (a * b).
Proof. intros [|] a b; simpl; ring. Qed.
Lemma cond_neg_add : forall s a b, cond_neg s a + cond_neg s b = cond_neg s (a + b).
Proof. intros [|] a b; simpl; ring. Qed.
Lemma cond_neg_abs : forall s a, Z.abs (cond_neg s a) = Z.abs a.
Proof. intros [|] a; simpl; lia. Qed.

(* a double that is a whole number of seconds *)
Lemma ts_integral : forall s m e I, bounded64 m e = true ->
  F2R (Float radix2 (Zpos m) e) = IZR I -> 0 <= I < 2 ^ 40 ->
  utcfromtimestamp_float_us (S754_finite s m e) = Ok (cond_neg s I * 1000000).
Proof.
  intros s m e I Hb HX HI. change (2 ^ 40) with 1099511627776 in HI.
  pose proof (sf_frac_correct s m e Hb) as K. cbv zeta in K. rewrite HX, Zfloor_IZR in K.
  destruct K as (_ & Rl & Fl & _).
  assert (Zf : sf_is_zero (sf_frac (S754_finite s m e)) = true).
  { apply classify_zero; [exact Fl|]. rewrite Rl. destruct s; lra. }
  assert (Hr : py_round_half_even (fmul (sf_frac (S754_finite s m e)) f_1e6) = Ok 0).
  { destruct (sf_frac (S754_finite s m e)) as [s'|s'| |s' m' e']; try discriminate. reflexivity. }
  rewrite (ts_us_of_parts (S754_finite s m e) 0 eq_refl Hr).
  - rewrite sf_intpart_floor, HX, Zfloor_IZR. f_equal. ring.
  - rewrite sf_intpart_floor, HX, Zfloor_IZR, cond_neg_abs. change (2 ^ 62) with 4611686018427387904. lia.
  - simpl. lia.
Qed.

(* a double strictly between two whole seconds, whose fraction times 10^6 is within 10^6 * 2^-21 of the integer u *)
Lemma ts_fractional : forall s m e I u, bounded64 m e = true ->
  let X := F2R (Float radix2 (Zpos m) e) in
  0 <= I < 2 ^ 40 -> 0 < u < 1000000 ->
  (IZR I < X < IZR I + 1)%R ->
  (Rabs (1000000 * (X - IZR I) - IZR u) <= 1000000 * (/ 2 * bpow radix2 (-20)))%R ->
  utcfromtimestamp_float_us (S754_finite s m e) = Ok (cond_neg s (I * 1000000 + u)).
Proof.
  intros s m e I u Hb X HI Hu HX Herr. change (2 ^ 40) with 1099511627776 in HI.
  assert (Fl : Zfloor X = I) by (apply Zfloor_imp; rewrite plus_IZR; simpl (IZR 1); lra).
  pose proof (sf_frac_correct s m e Hb) as K. cbv zeta in K. fold X in K. rewrite Fl in K.
  destruct K as (Vf & Rf & Ff & Sf).
  set (g := (X - IZR I)%R) in *.
  assert (Hg : (0 < g < 1)%R) by (unfold g; lra).
  destruct (classify_finite _ Ff ltac:(rewrite Rf; destruct s; lra) Vf) as (m1 & e1 & E1 & B1).
  rewrite Sf in E1. rewrite E1 in Rf.
  assert (Hu' : (1 <= IZR u <= 999999)%R) by (split; apply IZR_le; lia).
  rewrite bpow_m20 in Herr. apply Rabs_le_inv in Herr.
  set (P := (1000000 * g)%R) in *.
  assert (HP : (Rabs P < bpow radix2 20)%R) by (rewrite bpow_20; apply Rabs_lt; lra).
  pose proof (RN_error P 20 ltac:(lia) HP) as EP. simpl (20 - 53) in EP. rewrite bpow_m33 in EP.
  apply Rabs_le_inv in EP.
  pose proof (fmul_1e6_correct s m1 e1 B1) as M. cbv zeta in M.
  change (F2R (Float radix2 (cond_Zopp s (Z.pos m1)) e1)) with (R_of_sf (S754_finite s m1 e1)) in M.
  rewrite Rf in M.
  replace (1000000 * (if s then - g else g))%R with (if s then - P else P)%R in M by (unfold P; destruct s; ring).
  rewrite RN_signed in M.
  destruct M as (Vp & Rp & Fp & Sp).
  { rewrite bpow_60. apply Rabs_lt. destruct s; lra. }
  destruct (classify_finite _ Fp ltac:(rewrite Rp; destruct s; lra) Vp) as (m2 & e2 & E2 & B2).
  rewrite Sp in E2. rewrite E2 in Rp. apply mag_of_signed in Rp.
  assert (Hr : py_round_half_even (fmul (sf_frac (S754_finite s m e)) f_1e6) = Ok (cond_neg s u)).
  { rewrite E1. rewrite f_1e6_eq, fmul_comm_fin, <- f_1e6_eq. rewrite E2.
    unfold py_round_half_even. rewrite (sf_round_mag_correct m2 e2 u) by (rewrite Rp; apply Rabs_lt; lra). reflexivity. }
  rewrite (ts_us_of_parts (S754_finite s m e) _ eq_refl Hr).
  - rewrite sf_intpart_floor. fold X. rewrite Fl. rewrite cond_neg_mul, cond_neg_add. reflexivity.
  - rewrite sf_intpart_floor. fold X. rewrite Fl, cond_neg_abs. change (2 ^ 62) with 4611686018427387904. lia.
  - rewrite cond_neg_abs. lia.
Qed.

Lemma ts_exact_signed : forall s A, 0 < A < 2 ^ 33 * 10 ^ 6 ->
  forall m e, total_seconds A = S754_finite false m e -> bounded64 m e = true ->
  (Rabs (F2R (Float radix2 (Zpos m) e) - IZR A / 1000000) <= / 2 * bpow radix2 (-20))%R ->
  F2R (Float radix2 (Zpos m) e) = RN (IZR A / 1000000) ->
  utcfromtimestamp_float_us (S754_finite s m e) = Ok (cond_neg s A).
Proof.
  intros s A HA m e E B Err RX. change (2 ^ 33 * 10 ^ 6) with 8589934592000000 in HA.
  set (X := F2R (Float radix2 (Z.pos m) e)) in *.
  set (I := A / 1000000). set (u := A mod 1000000).
  assert (DM : A = I * 1000000 + u) by (unfold I, u; lia).
  assert (Hu : 0 <= u < 1000000) by (unfold u; lia).
  assert (HI : 0 <= I < 8589934592) by (unfold I; lia).
  assert (Eq : (IZR A / 1000000 = IZR I + IZR u / 1000000)%R).
  { rewrite DM at 1. rewrite plus_IZR, mult_IZR. field. }
  destruct (Z.eq_dec u 0) as [U0|U0].
  - rewrite U0 in *. replace A with (I * 1000000) by lia. rewrite <- cond_neg_mul.
    apply ts_integral; [exact B | | change (2 ^ 40) with 1099511627776; lia]. fold X. rewrite RX, Eq.
    replace (IZR I + 0 / 1000000)%R with (IZR I) by field.
    apply round_generic; [typeclasses eauto|]. apply generic_IZR. lia.
  - rewrite DM. rewrite bpow_m20 in Err. pose proof Err as Err'. apply Rabs_le_inv in Err'.
    assert (Hu' : (1 <= IZR u <= 999999)%R) by (split; apply IZR_le; lia).
    apply ts_fractional; [exact B | change (2 ^ 40) with 1099511627776; lia | lia | fold X; lra |]. fold X.
    rewrite bpow_m20.
    replace (1000000 * (X - IZR I) - IZR u)%R with (1000000 * (X - IZR A / 1000000))%R by (rewrite Eq; field).
    rewrite Rabs_mult. rewrite (Rabs_pos_eq 1000000) by lra.
    apply Rmult_le_compat_l; [lra | exact Err].
Qed.

Theorem utcfromtimestamp_exact_proved : utcfromtimestamp_exact.
Proof.
  intros N HN. unfold B33us in HN.
  destruct (Z.lt_trichotomy N 0) as [L|[->|G]].
  - assert (HA : 0 < - N < 2 ^ 33 * 10 ^ 6) by lia.
    destruct (total_seconds_spec (- N) HA) as (m & e & E & B & RX & Err).
    replace N with (- (- N)) at 1 by ring. rewrite total_seconds_opp by lia. rewrite E.
    change (fopp (S754_finite false m e)) with (S754_finite true m e).
    rewrite (ts_exact_signed true (- N) HA m e E B Err RX). simpl. f_equal. ring.
  - reflexivity.
  - assert (HA : 0 < N < 2 ^ 33 * 10 ^ 6) by lia.
    destruct (total_seconds_spec N HA) as (m & e & E & B & RX & Err). rewrite E.
    exact (ts_exact_signed false N HA m e E B Err RX).
Qed.

Print Assumptions utcfromtimestamp_exact_proved.

(* ================================================================== C03: the float carry chain of add_duration *)
From PV Require Import Proofs.FloatRoundTripDiv.

(* x is a valid finite double of real value v *)
Definition repr (x : sf) (v : R) : Prop := valid64 x = true /\ is_finite_SF x = true /\ R_of_sf x = v.

Lemma repr_finite : forall s m e, bounded64 m e = true ->
  repr (S754_finite s m e) (cond_Ropp s (F2R (Float radix2 (Zpos m) e))).
Proof. intros. split; [assumption|]. split; [reflexivity|]. apply R_of_sf_finite. Qed.

Lemma repr_zero : forall s, repr (S754_zero s) 0.
Proof. intros. repeat split. Qed.

(* a valid finite double with a non-zero value, in structural form *)
Lemma repr_nonzero : forall x v, repr x v -> v <> 0%R ->
  exists s m e, x = S754_finite s m e /\ bounded64 m e = true /\ cond_Ropp s (F2R (Float radix2 (Zpos m) e)) = v /\
                (0 < F2R (Float radix2 (Zpos m) e))%R.
Proof.
  intros x v (V & F & Rv) Nz.
  destruct (classify_finite x F ltac:(rewrite Rv; exact Nz) V) as (m & e & E & B).
  exists (sign_SF x), m, e. split; [exact E|]. split; [exact B|]. split.
  - rewrite <- Rv. rewrite E at 2. symmetry. apply R_of_sf_finite.
  - apply F2R_gt_0. reflexivity.
Qed.

Lemma repr_pos : forall x v, repr x v -> (0 < v)%R ->
  exists m e, x = S754_finite false m e /\ bounded64 m e = true /\ F2R (Float radix2 (Zpos m) e) = v.
Proof.
  intros x v Hx Hv. destruct (repr_nonzero x v Hx ltac:(lra)) as (s & m & e & E & B & Rv & P).
  destruct s; simpl in Rv; [lra|]. exists m, e. auto.
Qed.

Lemma repr_zero_inv : forall x, repr x 0 -> exists s, x = S754_zero s.
Proof.
  intros x (V & F & Rv). pose proof (classify_zero x F Rv) as Z. destruct x; try discriminate. eexists; reflexivity.
Qed.

(* two valid finite doubles with the same non-zero value are the same double *)
Lemma finite_unique : forall s m e s' m' e', bounded64 m e = true -> bounded64 m' e' = true ->
  R_of_sf (S754_finite s m e) = R_of_sf (S754_finite s' m' e') -> S754_finite s m e = S754_finite s' m' e'.
Proof.
  intros s m e s' m' e' B B' H.
  assert (K : B754_finite s m e B = B754_finite s' m' e' B').
  { apply B2R_inj; try reflexivity. exact H. }
  inversion K. reflexivity.
Qed.

Lemma repr_unique : forall x y v, repr x v -> repr y v -> v <> 0%R -> x = y.
Proof.
  intros x y v Hx Hy Nz.
  destruct (repr_nonzero x v Hx Nz) as (s & m & e & E & B & Rv & _).
  destruct (repr_nonzero y v Hy Nz) as (s' & m' & e' & E' & B' & Rv' & _).
  subst x y. apply finite_unique; try assumption. rewrite !R_of_sf_finite. congruence.
Qed.

(* ------------------------------------------------------------------ x * 1.0 and x * -1.0 *)
Lemma sf_of_Z_1 : sf_of_Z 1 = S754_finite false 4503599627370496 (-52).  Proof. reflexivity. Qed.
Lemma sf_of_Z_m1 : sf_of_Z (-1) = S754_finite true 4503599627370496 (-52).  Proof. reflexivity. Qed.

Lemma fmul_pm1_finite : forall s m e t, bounded64 m e = true ->
  fmul (S754_finite s m e) (S754_finite t 4503599627370496 (-52)) = S754_finite (xorb s t) m e.
Proof.
  intros s m e t Hb.
  assert (H1 : bounded64 4503599627370496 (-52) = true) by reflexivity.
  pose proof (Bmult_correct_aux 53 1024 prec64 emax64 mode_NE s m e Hb t 4503599627370496 (-52) H1) as H. cbv zeta in H.
  set (z := fmul (S754_finite s m e) (S754_finite t 4503599627370496 (-52))).
  assert (Ez : z = BinarySingleNaN.binary_round_aux 53 1024 mode_NE (xorb s t) (Z.pos (m * 4503599627370496)) (e + -52) loc_Exact).
  { unfold z, fmul, SFmul. apply bra_equiv. }
  rewrite <- Ez in H. destruct H as [Hv H].
  change (SpecFloat.fexp 53 1024) with fexp64 in H. simpl round_mode in H.
  set (X := F2R (Float radix2 (cond_Zopp s (Z.pos m)) e)) in *.
  assert (E1 : F2R (Float radix2 (cond_Zopp t 4503599627370496) (-52)) = (if t then -1 else 1)%R).
  { unfold F2R. destruct t; simpl; lra. }
  rewrite E1 in H.
  assert (GX : generic_format radix2 fexp64 X).
  { unfold X. destruct (bounded64_inv _ _ Hb). apply generic_small_mantissa; lia. }
  assert (GP : generic_format radix2 fexp64 (X * (if t then -1 else 1))).
  { destruct t; [|now rewrite Rmult_1_r]. replace (X * -1)%R with (- X)%R by ring. now apply generic_format_opp. }
  rewrite (round_generic radix2 fexp64 ZnearestE _ GP) in H.
  assert (Fin : Rlt_bool (Rabs (X * (if t then -1 else 1))) (bpow radix2 1024) = true).
  { apply Rlt_bool_true.
    replace (Rabs (X * (if t then -1 else 1))) with (Rabs X) by (destruct t; [replace (X * -1)%R with (- X)%R by ring; now rewrite Rabs_Ropp | now rewrite Rmult_1_r]).
    pose proof (abs_B2R_lt_emax 53 1024 (B754_finite s m e Hb)) as L. exact L. }
  rewrite Fin in H. destruct H as (Rz & Fz & Sz).
  assert (Nz : R_of_sf z <> 0%R).
  { rewrite Rz. assert (NX : X <> 0%R) by apply (finite_nonzero s m e). intro K. apply NX. destruct t; lra. }
  destruct (classify_finite z Fz Nz Hv) as (m2 & e2 & E2 & B2).
  rewrite E2. apply finite_unique; [exact B2 | exact Hb |].
  rewrite <- E2, Rz. unfold X. unfold SF2R. rewrite !F2R_cond_Zopp. destruct s, t; simpl; ring.
Qed.

Definition sgnmul (neg : bool) (x : sf) : sf := if neg then fopp x else x.

Lemma fmul_sign : forall x (neg : bool), valid64 x = true -> is_finite_SF x = true ->
  fmul x (sf_of_Z (if neg then -1 else 1)) = sgnmul neg x.
Proof.
  intros [sx|sx| |sx m e] neg V F; try discriminate.
  - destruct neg, sx; reflexivity.
  - destruct neg; [rewrite sf_of_Z_m1 | rewrite sf_of_Z_1]; rewrite fmul_pm1_finite by exact V; simpl.
    + now rewrite xorb_true_r.
    + now rewrite xorb_false_r.
Qed.

Lemma repr_sgnmul : forall neg x v, repr x v -> repr (sgnmul neg x) (if neg then - v else v)%R.
Proof.
  intros [|] x v (V & F & Rv); [|repeat split; assumption].
  destruct x as [s|s| |s m e]; try discriminate.
  - repeat split. simpl in Rv. simpl. lra.
  - split; [exact V|]. split; [reflexivity|]. simpl sgnmul. unfold fopp, SFopp. rewrite R_of_sf_finite in *. rewrite <- Rv. destruct s; simpl; ring.
Qed.

(* ------------------------------------------------------------------ comparisons *)
Lemma flt_correct : forall x y vx vy, repr x vx -> repr y vy -> flt x y = Rlt_bool vx vy.
Proof.
  intros x y vx vy (Vx & Fx & Rx) (Vy & Fy & Ry).
  pose proof (Bltb_correct 53 1024 (SF2B x Vx) (SF2B y Vy)) as K.
  rewrite !is_finite_SF2B, !B2R_SF2B in K. specialize (K Fx Fy).
  unfold Bltb in K. rewrite !B2SF_SF2B in K. unfold flt. rewrite K, Rx, Ry. reflexivity.
Qed.

Lemma repr_fabs : forall x v, repr x v -> repr (fabs x) (Rabs v).
Proof.
  intros [s|s| |s m e] v (V & F & Rv); try discriminate.
  - simpl in Rv. subst v. rewrite Rabs_R0. repeat split.
  - split; [exact V|]. split; [reflexivity|]. rewrite R_of_sf_finite in Rv. subst v.
    unfold fabs, SFabs. rewrite R_of_sf_finite. simpl cond_Ropp.
    assert (0 < F2R (Float radix2 (Z.pos m) e))%R by (apply F2R_gt_0; reflexivity).
    destruct s; simpl; [rewrite Rabs_Ropp|]; rewrite Rabs_pos_eq; lra.
Qed.

Lemma repr_sf_of_Z : forall n, Z.abs n < 2 ^ 53 -> repr (sf_of_Z n) (IZR n).
Proof. intros n Hn. destruct (sf_of_Z_correct n Hn) as (V & Rv & F). repeat split; assumption. Qed.

(* ------------------------------------------------------------------ C fmod(x, y) for positive x: exact *)
Lemma sf_fmod_correct : forall mx ex sy my ey, bounded64 mx ex = true -> bounded64 my ey = true ->
  let v := F2R (Float radix2 (Zpos mx) ex) in
  let w := F2R (Float radix2 (Zpos my) ey) in
  (w < bpow radix2 60)%R ->
  let md := sf_fmod (S754_finite false mx ex) (S754_finite sy my ey) in
  exists q : Z, 0 <= q /\ (0 <= v - w * IZR q < w)%R /\ repr md (v - w * IZR q) /\
    (md = S754_zero false \/ exists m' e', md = S754_finite false m' e').
Proof.
  intros mx ex sy my ey Hbx Hby v w Hw md.
  destruct (bounded64_inv _ _ Hbx) as [Hmx Hex]. destruct (bounded64_inv _ _ Hby) as [Hmy Hey].
  unfold md, sf_fmod. set (e0 := Z.min ex ey).
  assert (He0 : -1074 <= e0 /\ e0 <= ex /\ e0 <= ey) by (unfold e0; lia).
  set (X := Z.pos mx * 2 ^ (ex - e0)). set (Y := Z.pos my * 2 ^ (ey - e0)).
  assert (HY : 0 < Y) by (unfold Y; pose proof (pow2_pos (ey - e0)); nia).
  assert (HX : 0 <= X) by (unfold X; pose proof (pow2_pos (ex - e0)); nia).
  assert (Ev : v = F2R (Float radix2 X e0)).
  { unfold v. rewrite (F2R_change_exp radix2 e0) by lia. reflexivity. }
  assert (Ew : w = F2R (Float radix2 Y e0)).
  { unfold w. rewrite (F2R_change_exp radix2 e0) by lia. reflexivity. }
  pose proof (Z.div_mod X Y ltac:(lia)) as DM.
  pose proof (Z.mod_pos_bound X Y HY) as MB.
  assert (Hr53 : X mod Y < 2 ^ 53).
  { destruct (Z_le_gt_dec ey ex) as [L|L].
    - assert (e0 = ey) by (unfold e0; lia).
      assert (EY : Y = Z.pos my) by (unfold Y; rewrite H, Z.sub_diag, Z.mul_1_r; reflexivity). lia.
    - assert (e0 = ex) by (unfold e0; lia).
      assert (EX : X = Z.pos mx) by (unfold X; rewrite H, Z.sub_diag, Z.mul_1_r; reflexivity).
      pose proof (Z.mod_le X Y ltac:(lia) HY). lia. }
  assert (P0 : (0 < bpow radix2 e0)%R) by apply bpow_gt_0.
  assert (G : (v - w * IZR (X / Y))%R = F2R (Float radix2 (X mod Y) e0)).
  { rewrite Ev, Ew. unfold F2R. simpl Fnum; simpl Fexp. rewrite DM at 1. rewrite plus_IZR, mult_IZR. ring. }
  exists (X / Y). split; [apply Z.div_pos; lia|]. rewrite G. split.
  - rewrite Ew. unfold F2R. simpl Fnum; simpl Fexp. split.
    + apply Rmult_le_pos; [apply IZR_le; lia | lra].
    + apply Rmult_lt_compat_r; [lra | apply IZR_lt; lia].
  - destruct (X mod Y) as [|r|r] eqn:Er; [| |lia].
    + split; [|left; reflexivity]. replace (F2R (Float radix2 0 e0)) with 0%R by (unfold F2R; simpl; ring). apply repr_zero.
    + assert (Hg : generic_format radix2 fexp64 (F2R (Float radix2 (cond_Zopp false (Z.pos r)) e0))).
      { apply generic_small_mantissa; lia. }
      pose proof (normalize_correct false r e0) as K. cbv zeta in K.
      rewrite (round_generic radix2 fexp64 ZnearestE _ Hg) in K. simpl cond_Zopp in K. simpl cond_neg in K.
      assert (Bd : (0 < F2R (Float radix2 (Z.pos r) e0) < w)%R).
      { split; [apply F2R_gt_0; reflexivity|]. rewrite Ew. unfold F2R. simpl Fnum; simpl Fexp.
        apply Rmult_lt_compat_r; [lra | apply IZR_lt; lia]. }
      destruct K as (Vm & Rm & Fm & Sm).
      { rewrite Rabs_pos_eq by lra. lra. }
      simpl cond_neg.
      assert (Rp : repr (SpecFloat.binary_normalize 53 1024 (Z.pos r) e0 false) (F2R (Float radix2 (Z.pos r) e0))) by (repeat split; assumption).
      split; [exact Rp|]. right.
      destruct (repr_pos _ _ Rp ltac:(lra)) as (m' & e' & E' & _). exists m', e'. exact E'.
Qed.

(* ------------------------------------------------------------------ divmod(x, k) for a positive double x and a small int k: exact *)
Lemma sf_floor_integral : forall m e q, bounded64 m e = true -> F2R (Float radix2 (Zpos m) e) = IZR q ->
  repr (sf_floor (S754_finite false m e)) (IZR q).
Proof.
  intros m e q Hb HX. destruct (bounded64_inv _ _ Hb) as [Hm He]. unfold sf_floor. destruct (0 <=? e) eqn:E.
  - pose proof (repr_finite false m e Hb) as K. simpl cond_Ropp in K. rewrite HX in K. exact K.
  - apply Z.leb_gt in E. rewrite F2R_neg_exp in HX by exact E.
    set (d := 2 ^ (- e)) in *. assert (Hd : 0 < d) by (apply pow2_pos; lia).
    assert (Hdr : (0 < IZR d)%R) by (apply IZR_lt; exact Hd).
    assert (Em : Z.pos m = q * d).
    { apply eq_IZR. rewrite mult_IZR. rewrite <- HX. field. lra. }
    assert (Eq : Z.pos m / d = q) by (rewrite Em; apply Z.div_mul; lia).
    assert (Er : Z.pos m mod d = 0) by (rewrite Em; apply Z.mod_mul; lia).
    cbv beta iota zeta. rewrite Eq.
    assert (Hq : 0 < q < 2 ^ 53) by nia.
    destruct q as [|p|p]; try lia. apply repr_sf_of_Z. lia.
Qed.

Lemma flt_half_zero : forall s, flt f_half (S754_zero s) = false.
Proof. intros [|]; reflexivity. Qed.

Lemma divmod_unfold : forall x y, sf_is_zero y = false ->
  py_float_divmod x y =
  (let md := sf_fmod x y in
   let dv := fdiv (fsub x md) y in
   let '(md', dv') :=
     match md with
     | S754_zero _ => (sf_copysign0 y, dv)
     | S754_finite sm _ _ => if Bool.eqb (sf_sign y) sm then (md, dv) else (fadd md y, fsub dv (sf_of_Z 1))
     | _ => (md, dv)
     end in
   let fl :=
     match dv' with
     | S754_zero _ => S754_zero (sf_sign (fdiv x y))
     | S754_finite _ _ _ => let f := sf_floor dv' in if flt f_half (fsub dv' f) then fadd f (sf_of_Z 1) else f
     | _ => dv'
     end in
   Ok (fl, md')).
Proof. intros x y H. unfold py_float_divmod. rewrite H. reflexivity. Qed.

Lemma divmod_exact : forall mx ex k, bounded64 mx ex = true -> 1 <= k <= 100 ->
  let v := F2R (Float radix2 (Zpos mx) ex) in
  (v < bpow radix2 50)%R ->
  exists fl md (q : Z), py_float_divmod (S754_finite false mx ex) (sf_of_Z k) = Ok (fl, md) /\
    0 <= q /\ (0 <= v - IZR k * IZR q < IZR k)%R /\ repr fl (IZR q) /\ repr md (v - IZR k * IZR q) /\
    (md = S754_zero false \/ exists m' e', md = S754_finite false m' e').
Proof.
  intros mx ex k Hbx Hk v Hv.
  assert (Pv : (0 < v)%R) by (apply F2R_gt_0; reflexivity).
  destruct k as [|pk|pk]; try lia.
  destruct (sf_of_Z_pos pk ltac:(change (2 ^ 53) with 9007199254740992; lia)) as (my & ey & Ey & By & RY).
  rewrite Ey. set (kk := Z.pos pk) in *.
  assert (Hkr : (1 <= IZR kk <= 100)%R) by (split; apply IZR_le; lia).
  rewrite divmod_unfold by reflexivity. cbv zeta.
  pose proof (sf_fmod_correct mx ex false my ey Hbx By) as K. cbv zeta in K. fold v in K. rewrite RY in K.
  destruct K as (q & Hq & Hb & Rmd & Smd).
  { apply Rle_lt_trans with 100%R; [lra|]. change 100%R with (IZR 100). change (bpow radix2 60) with (IZR (2 ^ 60)). apply IZR_lt. reflexivity. }
  set (md0 := sf_fmod (S754_finite false mx ex) (S754_finite false my ey)) in *. clearbody md0.
  (* q is bounded *)
  assert (Hq50 : 0 <= kk * q < 2 ^ 50).
  { split; [nia|]. apply lt_IZR. rewrite mult_IZR. change (IZR (2 ^ 50)) with (bpow radix2 50). lra. }
  assert (Hq53 : Z.abs (kk * q) < 2 ^ 53 /\ Z.abs q < 2 ^ 53).
  { change (2 ^ 50) with 1125899906842624 in Hq50. change (2 ^ 53) with 9007199254740992. nia. }
  (* x - md = k * q exactly *)
  pose proof (repr_finite false mx ex Hbx) as Rx. simpl cond_Ropp in Rx. fold v in Rx.
  destruct Rx as (Vx & Fx & Rx). destruct Rmd as (Vmd & Fmd & Rmd).
  assert (Ediff : (v - (v - IZR kk * IZR q))%R = IZR (kk * q)) by (rewrite mult_IZR; ring).
  assert (Gdiff : RN (IZR (kk * q)) = IZR (kk * q)).
  { apply round_generic; [typeclasses eauto|]. apply generic_IZR. lia. }
  destruct (fsub_correct (S754_finite false mx ex) md0 Vx Vmd Fx Fmd) as (Vn & Rn & Fn).
  { rewrite Rx, Rmd, Ediff, Gdiff. rewrite <- abs_IZR. change (bpow radix2 60) with (IZR (2 ^ 60)). apply IZR_lt.
    change (2 ^ 53) with 9007199254740992 in Hq53. change (2 ^ 60) with 1152921504606846976. lia. }
  rewrite Rx, Rmd, Ediff, Gdiff in Rn.
  set (num := fsub (S754_finite false mx ex) md0) in *. clearbody num.
  assert (Rnum : repr num (IZR (kk * q))) by (repeat split; assumption).
  (* dv = num / k = q exactly *)
  assert (Hdv : exists dv, fdiv num (S754_finite false my ey) = dv /\ repr dv (IZR q) /\
                 (q = 0 -> exists s0, dv = S754_zero s0) /\ (0 < q -> exists md ed, dv = S754_finite false md ed /\ bounded64 md ed = true /\ F2R (Float radix2 (Zpos md) ed) = IZR q)).
  { destruct (Z.eq_dec q 0) as [Q0|Q0].
    - subst q. rewrite Z.mul_0_r in Rnum. destruct (repr_zero_inv _ Rnum) as (s0 & ->).
      exists (S754_zero (xorb s0 false)). split; [reflexivity|]. split; [apply repr_zero|]. split; [eexists; reflexivity | lia].
    - assert (Pq : 0 < q) by lia.
      assert (Pn : (0 < IZR (kk * q))%R) by (apply IZR_lt; nia).
      destruct (repr_pos _ _ Rnum Pn) as (mn & en & -> & Bn & RNn).
      pose proof (fdiv_fin_correct false mn en false my ey) as D. cbv zeta in D. simpl cond_Zopp in D.
      rewrite RNn, RY in D.
      assert (Eqq : (IZR (kk * q) / IZR kk)%R = IZR q) by (rewrite mult_IZR; field; lra).
      assert (Gq : RN (IZR q) = IZR q).
      { apply round_generic; [typeclasses eauto|]. apply generic_IZR. lia. }
      rewrite Eqq, Gq in D.
      destruct D as (Vd & Rd & Fd & Sd).
      { rewrite <- abs_IZR. change (bpow radix2 60) with (IZR (2 ^ 60)). apply IZR_lt.
        change (2 ^ 53) with 9007199254740992 in Hq53. change (2 ^ 60) with 1152921504606846976. lia. }
      eexists. split; [reflexivity|].
      assert (Rdv : repr (fdiv (S754_finite false mn en) (S754_finite false my ey)) (IZR q)) by (repeat split; assumption).
      split; [exact Rdv|]. split; [lia|]. intros _.
      destruct (repr_pos _ _ Rdv ltac:(apply IZR_lt; lia)) as (md & ed & E' & B' & R'). exists md, ed. auto. }
  destruct Hdv as (dv & Edv & Rdv & Dz & Dp).
  (* the (md', dv') selection keeps both: md has the sign of y *)
  assert (Sel : (match md0 with
                 | S754_zero _ => (sf_copysign0 (S754_finite false my ey), fdiv num (S754_finite false my ey))
                 | S754_finite sm _ _ => if Bool.eqb (sf_sign (S754_finite false my ey)) sm then (md0, fdiv num (S754_finite false my ey))
                                         else (fadd md0 (S754_finite false my ey), fsub (fdiv num (S754_finite false my ey)) (sf_of_Z 1))
                 | _ => (md0, fdiv num (S754_finite false my ey))
                 end) = (md0, dv)).
  { rewrite Edv. destruct Smd as [-> | (m' & e' & ->)]; reflexivity. }
  rewrite Sel. clear Sel.
  assert (Rmd' : repr md0 (v - IZR kk * IZR q)) by (repeat split; assumption).
  destruct (Z.eq_dec q 0) as [Q0|Q0].
  - destruct (Dz Q0) as (s0 & ->). eexists. exists md0, q. split; [reflexivity|].
    split; [exact Hq|]. split; [exact Hb|]. split; [subst q; apply repr_zero|]. split; [exact Rmd' | exact Smd].
  - destruct (Dp ltac:(lia)) as (md & ed & -> & Bd & Rd).
    pose proof (sf_floor_integral md ed q Bd Rd) as Rf.
    set (f := sf_floor (S754_finite false md ed)) in *.
    destruct Rdv as (Vdv & Fdv & Rdv). destruct Rf as (Vf & Ff & Rf).
    destruct (fsub_correct (S754_finite false md ed) f Vdv Vf Fdv Ff) as (Vs & Rs & Fs).
    { rewrite Rdv, Rf. replace (IZR q - IZR q)%R with 0%R by ring. rewrite round_0 by typeclasses eauto. rewrite Rabs_R0. apply bpow_gt_0. }
    rewrite Rdv, Rf in Rs. replace (IZR q - IZR q)%R with 0%R in Rs by ring. rewrite round_0 in Rs by typeclasses eauto.
    destruct (repr_zero_inv (fsub (S754_finite false md ed) f) ltac:(repeat split; assumption)) as (s1 & Es).
    exists f, md0, q. split.
    + cbv beta iota. fold f. rewrite Es, flt_half_zero. reflexivity.
    + split; [exact Hq|]. split; [exact Hb|]. split; [repeat split; assumption|]. split; [exact Rmd' | exact Smd].
Qed.

(* ------------------------------------------------------------------ one normalisation step of add_duration on a float *)
Lemma py_float_of_int_0 : py_float_of_int 0 = Ok (S754_zero false).  Proof. reflexivity. Qed.

Lemma carry_step_float : forall neg m e limit k, bounded64 m e = true -> 1 <= k <= 100 -> 0 <= limit < 100 ->
  let a := F2R (Float radix2 (Zpos m) e) in (a < bpow radix2 50)%R ->
  if Rlt_bool (IZR limit) a then
    exists fl md (q : Z), carry_step (PFlt (S754_finite neg m e)) (PInt 0) limit k
        = Ok (PFlt (sgnmul neg md), PFlt (fadd (S754_zero false) (sgnmul neg fl))) /\
      0 <= q /\ (0 <= a - IZR k * IZR q < IZR k)%R /\ repr fl (IZR q) /\ repr md (a - IZR k * IZR q) /\
      (md = S754_zero false \/ exists m' e', md = S754_finite false m' e')
  else carry_step (PFlt (S754_finite neg m e)) (PInt 0) limit k = Ok (PFlt (S754_finite neg m e), PInt 0).
Proof.
  intros neg m e limit k Hb Hk Hl a Ha.
  assert (Pa : (0 < a)%R) by (apply F2R_gt_0; reflexivity).
  pose proof (repr_finite neg m e Hb) as Rx. fold a in Rx.
  assert (Cmp : num_abs_gt (PFlt (S754_finite neg m e)) limit = Rlt_bool (IZR limit) a).
  { unfold num_abs_gt. rewrite (flt_correct _ _ (IZR limit) (Rabs (cond_Ropp neg a))).
    - f_equal. destruct neg; simpl; [rewrite Rabs_Ropp|]; apply Rabs_pos_eq; lra.
    - apply repr_sf_of_Z. change (2 ^ 53) with 9007199254740992. lia.
    - apply repr_fabs. exact Rx. }
  unfold carry_step. rewrite Cmp. destruct (Rlt_bool (IZR limit) a); [|reflexivity].
  destruct (divmod_exact m e k Hb Hk Ha) as (fl & md & q & Edm & Hq & Hbd & Rfl & Rmd & Smd). fold a in Hbd, Rmd.
  exists fl, md, q. split; [|split; [exact Hq|]; split; [exact Hbd|]; split; [exact Rfl|]; split; [exact Rmd | exact Smd]].
  cbn [num_sign sf_sign num_mul_int].
  destruct Rx as (Vx & Fx & _).
  rewrite (fmul_sign (S754_finite neg m e) neg Vx Fx).
  assert (Ea : sgnmul neg (S754_finite neg m e) = S754_finite false m e) by (destruct neg; reflexivity).
  rewrite Ea. cbn [num_divmod]. rewrite Edm. cbn [bind fst snd num_mul_int num_add]. rewrite py_float_of_int_0. cbn [bind].
  destruct Rfl as (Vfl & Ffl & _). destruct Rmd as (Vmd & Fmd & _).
  rewrite (fmul_sign fl neg Vfl Ffl), (fmul_sign md neg Vmd Fmd). reflexivity.
Qed.

(* int-valued numbers *)
Definition is_int (v : pynum) (n : Z) : Prop :=
  match v with PInt j => j = 0 /\ n = 0 | PFlt x => repr x (IZR n) end.

Lemma repr_fadd_zero : forall y v, repr y v -> repr (fadd (S754_zero false) y) v.
Proof.
  intros [s|s| |s m e] v (V & F & Rv); try discriminate.
  - simpl in Rv. subst v. destruct s; apply repr_zero.
  - repeat split; assumption.
Qed.

Lemma carry_step_int : forall lo n limit k, is_int lo n -> Z.abs n < 2 ^ 50 -> 1 <= k <= 100 -> 0 <= limit < 100 ->
  exists lo' hi' n' c, carry_step lo (PInt 0) limit k = Ok (lo', hi') /\ is_int lo' n' /\ is_int hi' c /\
    n = n' + k * c /\ Z.abs c <= Z.abs n.
Proof.
  intros lo n limit k Hlo Hn Hk Hl. change (2 ^ 50) with 1125899906842624 in Hn.
  destruct lo as [j|y].
  - destruct Hlo as [-> ->]. exists (PInt 0), (PInt 0), 0, 0. split.
    + unfold carry_step, num_abs_gt. replace (Z.abs 0 >? limit) with false by lia. reflexivity.
    + repeat split; lia.
  - simpl in Hlo. destruct (Z.eq_dec n 0) as [N0|N0].
    + subst n. destruct (repr_zero_inv _ Hlo) as (s & ->).
      exists (PFlt (S754_zero s)), (PInt 0), 0, 0. split.
      * unfold carry_step, num_abs_gt.
        rewrite (flt_correct _ _ (IZR limit) (Rabs 0)); [| apply repr_sf_of_Z; change (2 ^ 53) with 9007199254740992; lia | apply repr_fabs; apply repr_zero].
        rewrite Rabs_R0. rewrite Rlt_bool_false; [reflexivity | apply IZR_le; lia].
      * split; [apply repr_zero|]. repeat split; lia.
    + destruct (repr_nonzero y (IZR n) Hlo ltac:(apply IZR_neq; exact N0)) as (neg & m & e & -> & B & Rv & Pa).
      set (a := F2R (Float radix2 (Z.pos m) e)) in *.
      assert (Ea : a = IZR (Z.abs n)).
      { destruct neg; simpl in Rv.
        - assert (H : IZR n = (- a)%R) by lra. assert (n < 0) by (apply lt_IZR; lra). rewrite Z.abs_neq by lia. rewrite opp_IZR. lra.
        - assert (0 < n) by (apply lt_IZR; lra). rewrite Z.abs_eq by lia. lra. }
      assert (Sg : n = cond_neg neg (Z.abs n)).
      { destruct neg; simpl in Rv; simpl.
        - assert (n < 0) by (apply lt_IZR; lra). lia.
        - assert (0 < n) by (apply lt_IZR; lra). lia. }
      pose proof (carry_step_float neg m e limit k B Hk Hl) as K. cbv zeta in K. fold a in K.
      specialize (K ltac:(rewrite Ea; change (bpow radix2 50) with (IZR (2 ^ 50)); apply IZR_lt; change (2 ^ 50) with 1125899906842624; lia)).
      destruct (Rlt_bool (IZR limit) a).
      * destruct K as (fl & md & q & Ec & Hq & Hbd & Rfl & Rmd & _).
        rewrite Ea in Hbd, Rmd. rewrite <- mult_IZR, <- minus_IZR in Hbd, Rmd.
        assert (Hb' : 0 <= Z.abs n - k * q < k) by (destruct Hbd as [H1 H2]; apply le_IZR in H1; apply lt_IZR in H2; lia).
        exists (PFlt (sgnmul neg md)), (PFlt (fadd (S754_zero false) (sgnmul neg fl))), (cond_neg neg (Z.abs n - k * q)), (cond_neg neg q).
        split; [exact Ec|]. split.
        { simpl. pose proof (repr_sgnmul neg md _ Rmd) as K. destruct neg; simpl; [rewrite opp_IZR|]; exact K. }
        split.
        { simpl. apply repr_fadd_zero. pose proof (repr_sgnmul neg fl _ Rfl) as K. destruct neg; simpl; [rewrite opp_IZR|]; exact K. }
        split; [rewrite Sg at 1; destruct neg; simpl; ring|]. rewrite cond_neg_abs. nia.
      * exists (PFlt (S754_finite neg m e)), (PInt 0), n, 0. split; [exact K|]. split; [exact Hlo|]. repeat split; lia.
Qed.

(* ------------------------------------------------------------------ timedelta(days=, hours=, minutes=, seconds=) with int-valued days/hours/minutes *)
Lemma accum_int : forall v n sofar lo factor, is_int v n -> accum (sofar, lo) v factor = Ok (sofar + n * factor, lo).
Proof.
  intros [j|y] n sofar lo factor H.
  - destruct H as [-> ->]. reflexivity.
  - simpl in H. destruct (Z.eq_dec n 0) as [N0|N0].
    + subst n. destruct (repr_zero_inv _ H) as (s & ->). reflexivity.
    + destruct (repr_nonzero y (IZR n) H ltac:(apply IZR_neq; exact N0)) as (s & m & e & -> & B & Rv & Pa).
      assert (EX : F2R (Float radix2 (Z.pos m) e) = IZR (cond_neg s n)).
      { destruct s; simpl in Rv; simpl; [rewrite opp_IZR|]; lra. }
      unfold accum. rewrite sf_intpart_floor, EX, Zfloor_IZR.
      pose proof (sf_frac_correct s m e B) as K. cbv zeta in K. rewrite EX, Zfloor_IZR in K.
      destruct K as (_ & Rl & Fl & _).
      rewrite (classify_zero _ Fl) by (rewrite Rl; destruct s; lra).
      f_equal. f_equal. destruct s; simpl; ring.
Qed.

Lemma accum_finite : forall s m e sofar lo factor,
  accum (sofar, lo) (PFlt (S754_finite s m e)) factor =
  (let x := S754_finite s m e in
   let sum := sofar + sf_intpart x * factor in
   if sf_is_zero (sf_frac x) then Ok (sum, lo)
   else Ok (sum + sf_intpart (fmul (sf_of_Z factor) (sf_frac x)), fadd lo (sf_frac (fmul (sf_of_Z factor) (sf_frac x))))).
Proof. reflexivity. Qed.

Lemma even_extras : forall y M H D, (y + M * 60000000 + H * 3600000000 + D * 86400000000) mod 2 = y mod 2.
Proof.
  intros. replace (y + M * 60000000 + H * 3600000000 + D * 86400000000) with (y + (M * 30000000 + H * 1800000000 + D * 43200000000) * 2) by ring.
  apply Z_mod_plus_full.
Qed.

Lemma td_of_mixed_integral : forall d h mi sec D H M, is_int d D -> is_int h H -> is_int mi M -> sf_is_finite sec = true ->
  td_of_mixed d h mi (PFlt sec) =
  bind (td_us_of_float_seconds sec) (fun n =>
    let N := n + M * 60000000 + H * 3600000000 + D * 86400000000 in if td_in_range N then Ok N else Raise E_OverflowError).
Proof.
  intros d h mi sec D H M Hd Hh Hm Fs. unfold td_of_mixed. cbv zeta.
  change (accum (0, S754_zero false) (PInt 0) 1) with (Ok (0, S754_zero false) : result (Z * sf)). cbn [bind].
  assert (Tail : forall y lo, bind (accum (y, lo) mi 60000000) (fun st => bind (accum st h 3600000000) (fun st => bind (accum st d 86400000000) (fun st =>
             if td_in_range (td_finish st) then Ok (td_finish st) else Raise E_OverflowError)))
           = if td_in_range (td_finish (y + M * 60000000 + H * 3600000000 + D * 86400000000, lo))
             then Ok (td_finish (y + M * 60000000 + H * 3600000000 + D * 86400000000, lo)) else Raise E_OverflowError).
  { intros y lo. rewrite (accum_int mi M _ _ _ Hm). cbn [bind]. rewrite (accum_int h H _ _ _ Hh). cbn [bind].
    rewrite (accum_int d D _ _ _ Hd). cbn [bind]. reflexivity. }
  destruct sec as [s|s| |s m e]; try discriminate.
  - (* zero seconds *)
    change (accum (0, S754_zero false) (PFlt (S754_zero s)) 1000000) with (Ok (0, S754_zero false) : result (Z * sf)). cbn [bind].
    rewrite Tail. reflexivity.
  - rewrite td_us_finite_unfold. cbv zeta. rewrite accum_finite. cbv zeta.
    set (x := S754_finite s m e). change (0 + sf_intpart x * 1000000) with (sf_intpart x * US_PER_SEC).
    destruct (sf_is_zero (sf_frac x)) eqn:Zf.
    + cbn [bind]. rewrite Tail. reflexivity.
    + cbn [bind]. rewrite Tail. change (sf_of_Z 1000000) with f_1e6. unfold td_tail. cbv zeta.
      set (y := sf_intpart x * US_PER_SEC + sf_intpart (fmul f_1e6 (sf_frac x))).
      destruct (sf_frac (fmul f_1e6 (sf_frac x))) as [s3|s3| |s3 m3 e3] eqn:El.
      * assert (Ez : exists s4, fadd (S754_zero false) (S754_zero s3) = S754_zero s4) by (destruct s3; eexists; reflexivity).
        destruct Ez as (s4 & ->). reflexivity.
      * reflexivity.
      * reflexivity.
      * change (fadd (S754_zero false) (S754_finite s3 m3 e3)) with (S754_finite s3 m3 e3).
        unfold td_finish. destruct (feq (fabs (S754_finite s3 m3 e3)) f_half).
        -- rewrite even_extras. cbn [bind]. cbv zeta.
           match goal with |- (if td_in_range ?a then _ else _) = (if td_in_range ?b then _ else _) => replace a with b by ring end. reflexivity.
        -- cbn [bind]. cbv zeta.
           match goal with |- (if td_in_range ?a then _ else _) = (if td_in_range ?b then _ else _) => replace a with b by ring end. reflexivity.
Qed.

(* ------------------------------------------------------------------ the seconds left after the first carry still read exactly *)
Lemma td_us_remainder : forall A m e md q, 0 < A < 2 ^ 33 * 10 ^ 6 -> bounded64 m e = true ->
  let a := F2R (Float radix2 (Zpos m) e) in
  a = RN (IZR A / 1000000) ->
  (Rabs (a - IZR A / 1000000) <= / 2 * bpow radix2 (-20))%R ->
  0 <= q -> (0 <= a - 60 * IZR q < 60)%R -> repr md (a - 60 * IZR q) ->
  (md = S754_zero false \/ exists m' e', md = S754_finite false m' e') ->
  td_us_of_float_seconds md = Ok (A - 60000000 * q).
Proof.
  intros A m e md q HA B a RX Err Hq Hbd Rmd Smd. change (2 ^ 33 * 10 ^ 6) with 8589934592000000 in HA.
  set (I := A / 1000000). set (u := A mod 1000000).
  assert (DM : A = I * 1000000 + u) by (unfold I, u; lia).
  assert (Hu : 0 <= u < 1000000) by (unfold u; lia).
  assert (HI : 0 <= I < 8589934592) by (unfold I; lia).
  assert (Eq : (IZR A / 1000000 = IZR I + IZR u / 1000000)%R).
  { rewrite DM at 1. rewrite plus_IZR, mult_IZR. field. }
  rewrite bpow_m20 in Err. pose proof Err as Err'. apply Rabs_le_inv in Err'.
  destruct (Z.eq_dec u 0) as [U0|U0].
  - (* a is the integer I *)
    assert (Ea : a = IZR I).
    { rewrite RX, Eq, U0. replace (IZR I + 0 / 1000000)%R with (IZR I) by field.
      apply round_generic; [typeclasses eauto|]. apply generic_IZR. lia. }
    rewrite Ea in Rmd, Hbd. change 60%R with (IZR 60) in Rmd, Hbd. rewrite <- mult_IZR, <- minus_IZR in Rmd, Hbd.
    replace (A - 60000000 * q) with ((I - 60 * q) * 1000000) by lia.
    destruct Smd as [-> | (m' & e' & ->)].
    + destruct Rmd as (_ & _ & R0). change (R_of_sf (S754_zero false)) with 0%R in R0. symmetry in R0. apply eq_IZR in R0. rewrite R0. reflexivity.
    + destruct Rmd as (V' & _ & R'). rewrite R_of_sf_finite in R'. simpl in R'. apply td_us_pos_integral; assumption.
  - assert (Hu' : (1 <= IZR u <= 999999)%R) by (split; apply IZR_le; lia).
    assert (Ia : (IZR I < a < IZR I + 1)%R) by lra.
    replace (A - 60000000 * q) with ((I - 60 * q) * 1000000 + u) by lia.
    destruct Smd as [-> | (m' & e' & ->)].
    + exfalso. destruct Rmd as (_ & _ & R0). change (R_of_sf (S754_zero false)) with 0%R in R0.
      assert (Ea : a = IZR (60 * q)) by (rewrite mult_IZR; simpl (IZR 60); lra).
      rewrite Ea in Ia. destruct Ia as [I1 I2]. apply lt_IZR in I1. rewrite <- (plus_IZR I 1) in I2. apply lt_IZR in I2. lia.
    + destruct Rmd as (V' & _ & R'). rewrite R_of_sf_finite in R'. simpl in R'.
      apply td_us_pos_fractional; [exact V' | lia | |]; rewrite R', minus_IZR, mult_IZR; simpl (IZR 60).
      * lra.
      * rewrite bpow_m20.
        replace (1000000 * (a - 60 * IZR q - (IZR I - 60 * IZR q)) - IZR u)%R with (1000000 * (a - IZR A / 1000000))%R by (rewrite Eq; field).
        rewrite Rabs_mult. rewrite (Rabs_pos_eq 1000000) by lra.
        apply Rmult_le_compat_l; [lra | exact Err].
Qed.

Lemma carry_pint0 : forall limit k, 0 <= limit -> carry_step (PInt 0) (PInt 0) limit k = Ok (PInt 0, PInt 0).
Proof. intros. unfold carry_step, num_abs_gt. replace (Z.abs 0 >? limit) with false by lia. reflexivity. Qed.

Lemma float_chain_signed : forall neg A m e, 0 < A < 2 ^ 33 * 10 ^ 6 ->
  total_seconds A = S754_finite false m e -> bounded64 m e = true ->
  F2R (Float radix2 (Zpos m) e) = RN (IZR A / 1000000) ->
  (Rabs (F2R (Float radix2 (Zpos m) e) - IZR A / 1000000) <= / 2 * bpow radix2 (-20))%R ->
  float_route_us (S754_finite neg m e) = Ok (cond_neg neg A).
Proof.
  intros neg A m e HA E B RX Err.
  pose proof HA as HA'. change (2 ^ 33 * 10 ^ 6) with 8589934592000000 in HA'.
  set (a := F2R (Float radix2 (Z.pos m) e)) in *.
  assert (Ha34 : (0 < a < 8589934593)%R).
  { pose proof Err as Err'. rewrite bpow_m20 in Err'. apply Rabs_le_inv in Err'.
    assert (H1 : (1 <= IZR A)%R) by (apply IZR_le; lia). assert (H2 : (IZR A < 8589934592000000)%R) by (apply IZR_lt; lia). lra. }
  assert (Ha50 : (a < bpow radix2 50)%R).
  { apply Rlt_trans with 8589934593%R; [lra|]. change (bpow radix2 50) with (IZR (2 ^ 50)). apply IZR_lt. reflexivity. }
  assert (Ex : S754_finite neg m e = total_seconds (cond_neg neg A)).
  { destruct neg; simpl cond_neg; [|symmetry; exact E]. rewrite total_seconds_opp by lia. rewrite E. reflexivity. }
  assert (Rng : td_in_range (cond_neg neg A) = true).
  { apply td_in_range_small. rewrite cond_neg_abs. lia. }
  pose proof (carry_step_float neg m e 59 60 B ltac:(lia) ltac:(lia)) as K. cbv zeta in K. fold a in K. specialize (K Ha50).
  unfold float_route_us, float_carry.
  destruct (Rlt_bool 59 a).
  - destruct K as (fl1 & md1 & q1 & Ec & Hq1 & Hbd & Rfl & Rmd & Smd).
    simpl (IZR 60) in Hbd, Rmd.
    assert (Hq1b : q1 < 2 ^ 28).
    { assert (H : (60 * IZR q1 < 8589934593)%R) by lra. change 60%R with (IZR 60) in H. rewrite <- mult_IZR in H. apply lt_IZR in H.
      change (2 ^ 28) with 268435456. lia. }
    change (2 ^ 28) with 268435456 in Hq1b.
    rewrite Ec. cbn [bind fst snd].
    (* minutes *)
    assert (Imi : is_int (PFlt (fadd (S754_zero false) (sgnmul neg fl1))) (cond_neg neg q1)).
    { simpl. apply repr_fadd_zero. pose proof (repr_sgnmul neg fl1 _ Rfl) as K. destruct neg; simpl; [rewrite opp_IZR|]; exact K. }
    assert (Bq1 : Z.abs (cond_neg neg q1) < 2 ^ 50) by (rewrite cond_neg_abs; change (2 ^ 50) with 1125899906842624; lia).
    destruct (carry_step_int _ _ 59 60 Imi Bq1 ltac:(lia) ltac:(lia)) as (lo2 & hi2 & M & c2 & Ec2 & Ilo2 & Ihi2 & Em & Hc2).
    rewrite cond_neg_abs in Hc2.
    rewrite Ec2. cbn [bind fst snd].
    (* hours *)
    assert (Bc2 : Z.abs c2 < 2 ^ 50) by (change (2 ^ 50) with 1125899906842624; lia).
    destruct (carry_step_int _ _ 23 24 Ihi2 Bc2 ltac:(lia) ltac:(lia)) as (lo3 & hi3 & H & D & Ec3 & Ilo3 & Ihi3 & Eh & _).
    rewrite Ec3. cbn [bind fst snd].
    assert (Fsec : sf_is_finite (sgnmul neg md1) = true) by (destruct Smd as [-> | (m' & e' & ->)]; destruct neg; reflexivity).
    rewrite (td_of_mixed_integral hi3 lo3 lo2 (sgnmul neg md1) D H M Ihi3 Ilo3 Ilo2 Fsec).
    pose proof (td_us_remainder A m e md1 q1 HA B RX Err Hq1 Hbd Rmd Smd) as Tr.
    assert (Ts : td_us_of_float_seconds (sgnmul neg md1) = Ok (cond_neg neg (A - 60000000 * q1))).
    { destruct neg; simpl sgnmul; simpl cond_neg; [|exact Tr]. rewrite td_us_of_float_seconds_opp, Tr. reflexivity. }
    rewrite Ts. cbn [bind]. cbv zeta.
    assert (Tot : cond_neg neg (A - 60000000 * q1) + M * 60000000 + H * 3600000000 + D * 86400000000 = cond_neg neg A).
    { clear - Em Eh. destruct neg; unfold cond_neg in *; lia. }
    rewrite Tot.
    rewrite Rng. reflexivity.
  - rewrite K. cbn [bind fst snd]. rewrite (carry_pint0 59 60) by lia. cbn [bind fst snd]. rewrite (carry_pint0 23 24) by lia. cbn [bind fst snd].
    rewrite (td_of_mixed_integral (PInt 0) (PInt 0) (PInt 0) (S754_finite neg m e) 0 0 0) by (simpl; auto).
    rewrite Ex. rewrite td_us_roundtrip_exact by (rewrite cond_neg_abs; lia). cbn [bind]. cbv zeta.
    replace (cond_neg neg A + 0 * 60000000 + 0 * 3600000000 + 0 * 86400000000) with (cond_neg neg A) by ring.
    rewrite Rng. reflexivity.
Qed.

Theorem float_chain_exact_proved : float_chain_exact.
Proof.
  intros N HN. unfold B33us in HN.
  destruct (Z.lt_trichotomy N 0) as [L|[->|G]].
  - assert (HA : 0 < - N < 2 ^ 33 * 10 ^ 6) by lia.
    destruct (total_seconds_spec (- N) HA) as (m & e & E & B & RX & Err).
    replace N with (- (- N)) at 1 by ring. rewrite total_seconds_opp by lia. rewrite E.
    change (fopp (S754_finite false m e)) with (S754_finite true m e).
    rewrite (float_chain_signed true (- N) m e HA E B RX Err). simpl. f_equal. ring.
  - vm_compute. reflexivity.
  - assert (HA : 0 < N < 2 ^ 33 * 10 ^ 6) by lia.
    destruct (total_seconds_spec N HA) as (m & e & E & B & RX & Err). rewrite E.
    exact (float_chain_signed false N m e HA E B RX Err).
Qed.

Print Assumptions float_chain_exact_proved.

(* ================================================================== the theorems of Proofs/FloatRoutesFacts.v without premise *)
Definition add_timedelta_eq_add_fixed_proved := add_timedelta_eq_add_fixed float_chain_exact_proved.
Definition sub_timedelta_eq_add_fixed_proved := sub_timedelta_eq_add_fixed float_chain_exact_proved.
Definition add_timedelta_spec_proved := add_timedelta_spec float_chain_exact_proved.
Definition sub_timedelta_spec_proved := sub_timedelta_spec float_chain_exact_proved.
Definition sub_undoes_add_timedelta_proved := sub_undoes_add_timedelta float_chain_exact_proved.
Definition add_timedelta_naive_spec_proved := add_timedelta_naive_spec float_chain_exact_proved.
Definition sub_timedelta_naive_spec_proved := sub_timedelta_naive_spec float_chain_exact_proved.
Definition from_timestamp_float_unfold_proved := from_timestamp_float_unfold utcfromtimestamp_exact_proved.
Definition from_timestamp_float_whole_proved := from_timestamp_float_whole utcfromtimestamp_exact_proved.
Definition timestamp_inverts_from_timestamp_proved := timestamp_inverts_from_timestamp utcfromtimestamp_exact_proved.
Definition timestamp_inverts_from_timestamp_utc_proved := timestamp_inverts_from_timestamp_utc utcfromtimestamp_exact_proved.
Check add_timedelta_spec_proved.
Check timestamp_inverts_from_timestamp_proved.

(* combined statements used by Props/C03.v and Props/C01.v *)
Lemma timedelta_is_add_microseconds_proved : forall z W f N, Z.abs N < 2 ^ 33 * 10 ^ 6 ->
  add_timedelta z W f N = add_fixed z W f 0 0 0 N /\ sub_timedelta z W f N = add_fixed z W f 0 0 0 (- N).
Proof. intros z W f N H. split; [exact (add_timedelta_eq_add_fixed_proved z W f N H) | exact (sub_timedelta_eq_add_fixed_proved z W f N H)]. Qed.

Lemma naive_timedelta_proved : forall W f N, wall_in_range W = true -> Z.abs N < 2 ^ 33 * 10 ^ 6 ->
  add_timedelta_naive W f N = (if wall_in_range (W + N) then Ok (W + N, true) else Raise E_OverflowError) /\
  sub_timedelta_naive W f N = (if wall_in_range (W - N) then Ok (W - N, true) else Raise E_OverflowError).
Proof. intros W f N Hr HN. split; [exact (add_timedelta_naive_spec_proved W f N Hr HN) | exact (sub_timedelta_naive_spec_proved W f N Hr HN)]. Qed.

Lemma chain_boundary_family_evaluated : forallb route_exactb boundary_family = true /\ (length boundary_family >= 1400)%nat.
Proof. split; [exact float_chain_exact_on_boundary_family | exact boundary_family_size]. Qed.

Lemma ts_beyond_family_evaluated :
  (forallb ts_invertb beyond_family = true /\ (length beyond_family >= 100)%nat) /\
  from_timestamp_float (fixed_zone 0) false (total_seconds 253402300799999985) = Raise E_ValueError.
Proof. split; [exact timestamp_inverts_beyond_on_family | exact (proj1 (proj2 from_timestamp_float_last_microseconds_raise))]. Qed.
