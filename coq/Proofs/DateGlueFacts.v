(* Proofs/DateGlueFacts.v — the hand models of the Date navigation ARE the code: Gen/DateGlue.v (translated from src/pendulum/date.py by
   tools/vlib/gens/g82_weekday_glue.py on every run, on the object model gdate of Model/TzGlueObj.v and on the translated Date.add / subtract
   of Gen/TzGlue.v) is proved EQUAL to
     Model/Weekday.v      d_next, d_previous, d_first_of_month .. d_last_of_year, d_first_of, d_last_of, d_nth_of_month/quarter/year, d_nth_of  (C16)
     Model/StartEnd.v     date_set, date_previous, date_next, date_start_of, date_end_of                                              (C12)
   under the representation  Date(y, m, d)  =  mkgdate ((ymd2ord y m d - 1) * us_per_day)  (the wall value of its midnight).
   HAND-WRITTEN here (the getattr dispatches and the try/except of nth_of, which the translator does not take): wglue_Date_first_of,
   wglue_Date_last_of, wglue_Date_nth_of, wglue_Date_start_of, wglue_Date_end_of — definitions by cases over the translated helpers. *)
From Coq Require Import ZArith List Bool Lia ZifyBool.
From PV Require Import Lib.PyBase Spec.Cal Spec.NativeDT Proofs.CalFacts Gen.AddDuration Gen.Constants Gen.DateGetters Model.CalendarArith.
From PV Require Import Proofs.C03Facts Proofs.C04Facts Model.TzGlueObj Gen.TzGlue Proofs.TzGlueFacts Model.Weekday Proofs.C16Facts.
From PV Require Import Model.DateGlueObj Gen.DateGlue.
Import ListNotations.
Open Scope Z_scope.

(* ------------------------------------------------------------------ the representation *)
Definition gdo (n : Z) : gdate := mkgdate ((n - 1) * us_per_day).
Definition gd_of (p : pdate) : gdate := gdo (date_ord p).
Definition gres (r : result pdate) : result gdate := match r with Ok p => Ok (gd_of p) | Raise e => Raise e end.
Definition ord_ok (n : Z) : Prop := 1 <= n <= MAXORD.

Lemma res_id {A} (r : result A) : match r with Ok m => Ok m | Raise e => Raise e end = r.
Proof. destruct r; reflexivity. Qed.
Lemma res_id' {A} (r : result A) : match r with Raise e => Raise e | Ok m => Ok m end = r.
Proof. destruct r; reflexivity. Qed.

Lemma gdo_midnight n : ord_ok n -> midnight ((n - 1) * us_per_day).
Proof.
  intros [L H]. unfold MAXORD in H. split.
  - unfold wall_in_range, max_wall. rewrite us_per_day_val. lia.
  - apply Z.mod_mul. rewrite us_per_day_val. lia.
Qed.

Lemma gdo_fields n : gd_year (gdo n) = (let '(y, _, _) := ord2ymd n in y) /\ gd_month (gdo n) = (let '(_, m, _) := ord2ymd n in m)
  /\ gd_day (gdo n) = (let '(_, _, d) := ord2ymd n in d).
Proof.
  unfold gd_year, gd_month, gd_day, gdo. cbn [gd_wall]. unfold fields_of_wall.
  replace ((n - 1) * us_per_day / us_per_day + 1) with n by (rewrite Z.div_mul by (rewrite us_per_day_val; lia); lia).
  cbv zeta. destruct (ord2ymd n) as [[y m] d]. repeat split.
Qed.

Lemma gd_of_fields p : wf_date p -> gd_year (gd_of p) = d_year p /\ gd_month (gd_of p) = d_month p /\ gd_day (gd_of p) = d_day p.
Proof.
  intros [V _]. unfold gd_of. destruct (gdo_fields (date_ord p)) as (A & B & C). rewrite A, B, C. unfold date_ord.
  rewrite (ord2ymd_ymd2ord _ _ _ V). repeat split.
Qed.

Lemma gdo_dow n : gd_day_of_week (gdo n) = weekday0 n.
Proof.
  unfold gd_day_of_week, gdo. cbn [gd_wall]. rewrite Z.div_mul by (rewrite us_per_day_val; lia). f_equal. lia.
Qed.
Lemma gd_of_dow p : gd_day_of_week (gd_of p) = dow p.
Proof. apply gdo_dow. Qed.

Lemma gd_of_P n : ord_ok n -> gd_of (P n) = gdo n.
Proof. intros H. unfold gd_of. now rewrite (proj2 (P_spec n H)). Qed.

Lemma gd_of_pdate p : wf_date p -> gd_pdate (gd_of p) = p.
Proof. intros W. destruct (gd_of_fields p W) as (A & B & C). unfold gd_pdate. rewrite A, B, C. destruct p; reflexivity. Qed.

Lemma gd_of_dim p : wf_date p -> gd_days_in_month (gd_of p) = days_in_month p.
Proof. intros W. destruct (gd_of_fields p W) as (A & B & C). unfold gd_days_in_month, days_in_month. now rewrite A, B. Qed.

Lemma gd_of_quarter p : wf_date p -> gd_quarter (gd_of p) = py_Date_quarter p.
Proof. intros W. unfold gd_quarter. now rewrite gd_of_pdate. Qed.

Lemma gd_of_same_ym a b : wf_date a -> wf_date b -> gd_same_ym (gd_of a) (gd_of b) = same_year_month a b.
Proof.
  intros Wa Wb. destruct (gd_of_fields a Wa) as (A & B & _). destruct (gd_of_fields b Wb) as (A' & B' & _).
  unfold gd_same_ym, same_year_month. now rewrite A, B, A', B'.
Qed.

(* datetime.date(y, m, d) *)
Lemma nat_date_new_sim y m d : nat_date_new y m d = gres (date_new y m d).
Proof. unfold nat_date_new, date_new. destruct (_ && _); reflexivity. Qed.

Lemma date_new_wf y m d q : date_new y m d = Ok q -> wf_date q.
Proof.
  unfold date_new. destruct ((1 <=? y) && (y <=? 9999) && valid_dateb y m d) eqn:E; [|discriminate]. intros H. injection H as <-.
  apply andb_true_iff in E. destruct E as [E V]. split; cbn [d_year d_month d_day]; [exact V|lia].
Qed.

Lemma date_of_ord_wf n q : date_of_ord n = Ok q -> wf_date q.
Proof. intros H. apply date_of_ord_ok in H. destruct H as [R ->]. apply P_spec. exact R. Qed.

Lemma date_add_days_wf p k q : date_add_days p k = Ok q -> wf_date q.
Proof. apply date_of_ord_wf. Qed.

(* Date.add(days=k) / Date.subtract(days=k) on the translated glue_Date_add *)
Lemma date_add_days_closed W k : midnight W -> -999999999 <= k <= 999999999 ->
  date_add W 0 0 0 k = if wall_in_range (W + k * us_per_day) then Ok (W + k * us_per_day) else Raise E_OverflowError.
Proof.
  intros [R _] Hk. rewrite date_add_spec_l by exact R. rewrite ym_shift_zero by exact R. cbv zeta.
  replace ((k + 7 * 0 <? -999999999) || (999999999 <? k + 7 * 0)) with false by lia. replace (k + 7 * 0) with k by lia. reflexivity.
Qed.

Lemma date_side_days W k : midnight W -> -999999999 <= k <= 999999999 -> date_side W 0 0 0 k.
Proof.
  intros M Hk r Hr. pose proof (date_add_days_closed W k M Hk) as S. unfold date_add in S. rewrite Hr in S.
  destruct (wall_in_range (W + k * us_per_day)) eqn:E; [|discriminate]. injection S as S. rewrite S.
  split; [exact E|]. destruct M as [_ M]. rewrite Z.mod_add by (rewrite us_per_day_val; lia). exact M.
Qed.

Lemma wall_range_ord n : wall_in_range ((n - 1) * us_per_day) = (1 <=? n) && (n <=? MAXORD).
Proof. unfold wall_in_range, max_wall, MAXORD. rewrite us_per_day_val. lia. Qed.

Lemma glue_add_days_ord n k : ord_ok n -> -999999999 <= k <= 999999999 ->
  glue_Date_add (gdo n) 0 0 0 k = gres (date_of_ord (n + k)).
Proof.
  intros Hn Hk. pose proof (gdo_midnight n Hn) as M.
  unfold gdo. rewrite (glue_date_add _ 0 0 0 k M (date_side_days _ k M Hk)). rewrite (date_add_days_closed _ k M Hk).
  replace ((n - 1) * us_per_day + k * us_per_day) with ((n + k - 1) * us_per_day) by lia.
  rewrite wall_range_ord. unfold date_of_ord.
  destruct ((1 <=? n + k) && (n + k <=? MAXORD)) eqn:E; [|reflexivity].
  cbn [gres_date gres]. f_equal. change (pdate_of3 (ord2ymd (n + k))) with (P (n + k)). rewrite gd_of_P by (unfold ord_ok; lia). reflexivity.
Qed.

Lemma glue_add_days p k : wf_date p -> -999999999 <= k <= 999999999 -> glue_Date_add (gd_of p) 0 0 0 k = gres (date_add_days p k).
Proof. intros W Hk. apply glue_add_days_ord; [apply date_ord_range; exact W|exact Hk]. Qed.

Lemma glue_sub_days p k : wf_date p -> -999999999 <= k <= 999999999 -> glue_Date_subtract (gd_of p) 0 0 0 k = gres (date_add_days p (- k)).
Proof. intros W Hk. rewrite glue_date_subtract_is_add. change (- 0) with 0. apply glue_add_days; [exact W|lia]. Qed.
