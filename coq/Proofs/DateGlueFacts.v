(* Proofs/DateGlueFacts.v — the hand models of the Date navigation ARE the code: Gen/DateGlue.v (translated from src/pendulum/date.py by
   tools/vlib/gens/g82_weekday_glue.py on every run, on the object model gdate of Model/TzGlueObj.v and on the translated Date.add / subtract
   of Gen/TzGlue.v) is proved EQUAL to
     Model/Weekday.v      d_next, d_previous, d_first_of_month .. d_last_of_year, d_first_of, d_last_of, d_nth_of_month/quarter/year, d_nth_of  (C16)
     Model/StartEnd.v     date_set, date_previous, date_next, date_start_of, date_end_of                                              (C12)
   under the representation  Date(y, m, d)  =  mkgdate ((ymd2ord y m d - 1) * us_per_day)  (the wall value of its midnight).
   HAND-WRITTEN here (the getattr dispatches and the try/except of nth_of, which the translator does not take): wglue_Date_first_of,
   wglue_Date_last_of, wglue_Date_nth_of, wglue_Date_start_of, wglue_Date_end_of — definitions by cases over the translated helpers. *)
From Coq Require Import ZArith List Bool Lia ZifyBool.
From PV Require Import Lib.PyBase Spec.Cal Spec.NativeDT Proofs.CalFacts Gen.AddDuration Gen.Constants Gen.DateGetters Model.CalendarArith.
From PV Require Import Proofs.C03Facts Proofs.C04Facts Model.TzGlueObj Gen.TzGlue Proofs.TzGlueFacts Model.Weekday Proofs.C16Facts.
From PV Require Import Model.DateGlueObj Gen.DateGlue.
Import ListNotations.
Open Scope Z_scope.

(* ------------------------------------------------------------------ the representation *)
Definition gdo (n : Z) : gdate := mkgdate ((n - 1) * us_per_day).
Definition gd_of (p : pdate) : gdate := gdo (date_ord p).
Definition gres (r : result pdate) : result gdate := match r with Ok p => Ok (gd_of p) | Raise e => Raise e end.
Definition ord_ok (n : Z) : Prop := 1 <= n <= MAXORD.

Lemma res_id {A} (r : result A) : match r with Ok m => Ok m | Raise e => Raise e end = r.
Proof. destruct r; reflexivity. Qed.
Lemma res_id' {A} (r : result A) : match r with Raise e => Raise e | Ok m => Ok m end = r.
Proof. destruct r; reflexivity. Qed.

Lemma gdo_midnight n : ord_ok n -> midnight ((n - 1) * us_per_day).
Proof.
  intros [L H]. unfold MAXORD in H. split.
  - unfold wall_in_range, max_wall. rewrite us_per_day_val. lia.
  - apply Z.mod_mul. rewrite us_per_day_val. lia.
Qed.

Lemma gdo_fields n : gd_year (gdo n) = (let '(y, _, _) := ord2ymd n in y) /\ gd_month (gdo n) = (let '(_, m, _) := ord2ymd n in m)
  /\ gd_day (gdo n) = (let '(_, _, d) := ord2ymd n in d).
Proof.
  unfold gd_year, gd_month, gd_day, gdo. cbn [gd_wall]. unfold fields_of_wall.
  replace ((n - 1) * us_per_day / us_per_day + 1) with n by (rewrite Z.div_mul by (rewrite us_per_day_val; lia); lia).
  cbv zeta. destruct (ord2ymd n) as [[y m] d]. repeat split.
Qed.

Lemma gd_of_fields p : wf_date p -> gd_year (gd_of p) = d_year p /\ gd_month (gd_of p) = d_month p /\ gd_day (gd_of p) = d_day p.
Proof.
  intros [V _]. unfold gd_of. destruct (gdo_fields (date_ord p)) as (A & B & C). rewrite A, B, C. unfold date_ord.
  rewrite (ord2ymd_ymd2ord _ _ _ V). repeat split.
Qed.

Lemma gdo_dow n : gd_day_of_week (gdo n) = weekday0 n.
Proof.
  unfold gd_day_of_week, gdo. cbn [gd_wall]. rewrite Z.div_mul by (rewrite us_per_day_val; lia). f_equal. lia.
Qed.
Lemma gd_of_dow p : gd_day_of_week (gd_of p) = dow p.
Proof. apply gdo_dow. Qed.

Lemma gd_of_P n : ord_ok n -> gd_of (P n) = gdo n.
Proof. intros H. unfold gd_of. now rewrite (proj2 (P_spec n H)). Qed.

Lemma gd_of_pdate p : wf_date p -> gd_pdate (gd_of p) = p.
Proof. intros W. destruct (gd_of_fields p W) as (A & B & C). unfold gd_pdate. rewrite A, B, C. destruct p; reflexivity. Qed.

Lemma gd_of_dim p : wf_date p -> gd_days_in_month (gd_of p) = days_in_month p.
Proof. intros W. destruct (gd_of_fields p W) as (A & B & C). unfold gd_days_in_month, days_in_month. now rewrite A, B. Qed.

Lemma gd_of_quarter p : wf_date p -> gd_quarter (gd_of p) = py_Date_quarter p.
Proof. intros W. unfold gd_quarter. now rewrite gd_of_pdate. Qed.

Lemma gd_of_same_ym a b : wf_date a -> wf_date b -> gd_same_ym (gd_of a) (gd_of b) = same_year_month a b.
Proof.
  intros Wa Wb. destruct (gd_of_fields a Wa) as (A & B & _). destruct (gd_of_fields b Wb) as (A' & B' & _).
  unfold gd_same_ym, same_year_month. now rewrite A, B, A', B'.
Qed.

(* datetime.date(y, m, d) *)
Lemma nat_date_new_sim y m d : nat_date_new y m d = gres (date_new y m d).
Proof. unfold nat_date_new, date_new. destruct (_ && _); reflexivity. Qed.

Lemma date_new_wf y m d q : date_new y m d = Ok q -> wf_date q.
Proof.
  unfold date_new. destruct ((1 <=? y) && (y <=? 9999) && valid_dateb y m d) eqn:E; [|discriminate]. intros H. injection H as <-.
  apply andb_true_iff in E. destruct E as [E V]. split; cbn [d_year d_month d_day]; [exact V|lia].
Qed.

Lemma date_of_ord_wf n q : date_of_ord n = Ok q -> wf_date q.
Proof. intros H. apply date_of_ord_ok in H. destruct H as [R ->]. apply P_spec. exact R. Qed.

Lemma date_add_days_wf p k q : date_add_days p k = Ok q -> wf_date q.
Proof. apply date_of_ord_wf. Qed.

(* Date.add(days=k) / Date.subtract(days=k) on the translated glue_Date_add *)
Lemma date_add_days_closed W k : midnight W -> -999999999 <= k <= 999999999 ->
  date_add W 0 0 0 k = if wall_in_range (W + k * us_per_day) then Ok (W + k * us_per_day) else Raise E_OverflowError.
Proof.
  intros [R _] Hk. rewrite date_add_spec_l by exact R. rewrite ym_shift_zero by exact R. cbv zeta.
  replace ((k + 7 * 0 <? -999999999) || (999999999 <? k + 7 * 0)) with false by lia. replace (k + 7 * 0) with k by lia. reflexivity.
Qed.

Lemma date_side_days W k : midnight W -> -999999999 <= k <= 999999999 -> date_side W 0 0 0 k.
Proof.
  intros M Hk r Hr. pose proof (date_add_days_closed W k M Hk) as S. unfold date_add in S. rewrite Hr in S.
  destruct (wall_in_range (W + k * us_per_day)) eqn:E; [|discriminate]. injection S as S. rewrite S.
  split; [exact E|]. destruct M as [_ M]. rewrite Z.mod_add by (rewrite us_per_day_val; lia). exact M.
Qed.

Lemma wall_range_ord n : wall_in_range ((n - 1) * us_per_day) = (1 <=? n) && (n <=? MAXORD).
Proof. unfold wall_in_range, max_wall, MAXORD. rewrite us_per_day_val. lia. Qed.

Lemma glue_add_days_ord n k : ord_ok n -> -999999999 <= k <= 999999999 ->
  glue_Date_add (gdo n) 0 0 0 k = gres (date_of_ord (n + k)).
Proof.
  intros Hn Hk. pose proof (gdo_midnight n Hn) as M.
  unfold gdo. rewrite (glue_date_add _ 0 0 0 k M (date_side_days _ k M Hk)). rewrite (date_add_days_closed _ k M Hk).
  replace ((n - 1) * us_per_day + k * us_per_day) with ((n + k - 1) * us_per_day) by lia.
  rewrite wall_range_ord. unfold date_of_ord.
  destruct ((1 <=? n + k) && (n + k <=? MAXORD)) eqn:E; [|reflexivity].
  cbn [gres_date gres]. f_equal. change (pdate_of3 (ord2ymd (n + k))) with (P (n + k)). rewrite gd_of_P by (unfold ord_ok; lia). reflexivity.
Qed.

Lemma glue_add_days p k : wf_date p -> -999999999 <= k <= 999999999 -> glue_Date_add (gd_of p) 0 0 0 k = gres (date_add_days p k).
Proof. intros W Hk. apply glue_add_days_ord; [apply date_ord_range; exact W|exact Hk]. Qed.

Lemma glue_sub_days p k : wf_date p -> -999999999 <= k <= 999999999 -> glue_Date_subtract (gd_of p) 0 0 0 k = gres (date_add_days p (- k)).
Proof. intros W Hk. rewrite glue_date_subtract_is_add. change (- 0) with 0. apply glue_add_days; [exact W|lia]. Qed.

(* ------------------------------------------------------------------ Date.replace / Date.set *)
Definition dflt (o : option Z) (x : Z) : Z := match o with None => x | Some w => w end.

Lemma wglue_Date_replace_eq p oy om od : wf_date p ->
  wglue_Date_replace (gd_of p) oy om od = gres (date_new (dflt oy (d_year p)) (dflt om (d_month p)) (dflt od (d_day p))).
Proof.
  intros W. destruct (gd_of_fields p W) as (A & B & C). unfold wglue_Date_replace. rewrite A, B, C. cbv zeta. rewrite res_id'.
  rewrite nat_date_new_sim. destruct oy, om, od; reflexivity.
Qed.

Lemma wglue_Date_set_eq p oy om od : wf_date p ->
  wglue_Date_set (gd_of p) oy om od = gres (date_new (dflt oy (d_year p)) (dflt om (d_month p)) (dflt od (d_day p))).
Proof. intros W. unfold wglue_Date_set. rewrite res_id'. apply wglue_Date_replace_eq. exact W. Qed.

Lemma sim_bind (G : result gdate) (R : result pdate) (K : gdate -> result gdate) (F : pdate -> result pdate) :
  G = gres R -> (forall q, R = Ok q -> K (gd_of q) = gres (F q)) ->
  match G with Raise e => Raise e | Ok m => K m end = gres (bind R F).
Proof. intros -> H. destruct R as [q|e]; cbn [gres bind]; [apply H; reflexivity|reflexivity]. Qed.

(* ------------------------------------------------------------------ Date.next / Date.previous *)
Lemma next_loop_eq w : forall fuel q, wf_date q -> wglue_Date_next_loop fuel w (gd_of q) = gres (d_next_loop fuel w q).
Proof.
  induction fuel as [|f IH]; intros q W; [reflexivity|]. cbn [wglue_Date_next_loop d_next_loop].
  unfold wglue_Date_next_cond. rewrite gd_of_dow. destruct (negb (dow q =? w)); [|reflexivity].
  unfold wglue_Date_next_step. rewrite res_id'. apply sim_bind; [apply glue_add_days; [exact W|lia]|].
  intros q' Hq. apply IH. exact (date_add_days_wf _ _ _ Hq).
Qed.

Theorem wglue_Date_next_eq p wd : wf_date p -> wglue_Date_next (gd_of p) wd = gres (d_next p wd).
Proof.
  intros W. unfold wglue_Date_next, wglue_Date_next_init, d_next. rewrite gd_of_dow. cbv zeta.
  set (w := match wd with None => dow p | Some w_ => w_ end).
  replace (match wd with None => dow p | Some w0 => w0 end) with w by reflexivity.
  unfold wd_invalid. destruct ((w <? 0) || (w >? 6)); [reflexivity|].
  rewrite (glue_add_days p 1 W) by lia. destruct (date_add_days p 1) as [q|e] eqn:E; cbn [gres bind]; [|reflexivity].
  apply next_loop_eq. exact (date_add_days_wf _ _ _ E).
Qed.

Lemma prev_loop_eq w : forall fuel q, wf_date q -> wglue_Date_previous_loop fuel w (gd_of q) = gres (d_prev_loop fuel w q).
Proof.
  induction fuel as [|f IH]; intros q W; [reflexivity|]. cbn [wglue_Date_previous_loop d_prev_loop].
  unfold wglue_Date_previous_cond. rewrite gd_of_dow. destruct (negb (dow q =? w)); [|reflexivity].
  unfold wglue_Date_previous_step. rewrite res_id'. apply sim_bind; [apply (glue_sub_days q 1); [exact W|lia]|].
  intros q' Hq. apply IH. exact (date_add_days_wf _ _ _ Hq).
Qed.

Theorem wglue_Date_previous_eq p wd : wf_date p -> wglue_Date_previous (gd_of p) wd = gres (d_previous p wd).
Proof.
  intros W. unfold wglue_Date_previous, wglue_Date_previous_init, d_previous. rewrite gd_of_dow. cbv zeta.
  set (w := match wd with None => dow p | Some w_ => w_ end).
  replace (match wd with None => dow p | Some w0 => w0 end) with w by reflexivity.
  unfold wd_invalid. destruct ((w <? 0) || (w >? 6)); [reflexivity|].
  rewrite (glue_sub_days p 1 W) by lia. change (- (1)) with (-1). destruct (date_add_days p (-1)) as [q|e] eqn:E; cbn [gres bind]; [|reflexivity].
  apply prev_loop_eq. exact (date_add_days_wf _ _ _ E).
Qed.

Lemma d_next_loop_wf w : forall fuel q r, wf_date q -> d_next_loop fuel w q = Ok r -> wf_date r.
Proof.
  induction fuel as [|f IH]; intros q r W; [discriminate|]. cbn [d_next_loop]. destruct (negb (dow q =? w)).
  - destruct (date_add_days q 1) as [q'|e] eqn:E; cbn [bind]; [|discriminate]. apply IH. exact (date_add_days_wf _ _ _ E).
  - intros H. injection H as <-. exact W.
Qed.
Lemma d_next_wf p wd r : wf_date p -> d_next p wd = Ok r -> wf_date r.
Proof.
  intros W. unfold d_next. cbv zeta. destruct (wd_invalid _); [discriminate|].
  destruct (date_add_days p 1) as [q'|e] eqn:E; cbn [bind]; [|discriminate]. apply d_next_loop_wf. exact (date_add_days_wf _ _ _ E).
Qed.
Lemma d_prev_loop_wf w : forall fuel q r, wf_date q -> d_prev_loop fuel w q = Ok r -> wf_date r.
Proof.
  induction fuel as [|f IH]; intros q r W; [discriminate|]. cbn [d_prev_loop]. destruct (negb (dow q =? w)).
  - destruct (date_add_days q (-1)) as [q'|e] eqn:E; cbn [bind]; [|discriminate]. apply IH. exact (date_add_days_wf _ _ _ E).
  - intros H. injection H as <-. exact W.
Qed.
Lemma d_previous_wf p wd r : wf_date p -> d_previous p wd = Ok r -> wf_date r.
Proof.
  intros W. unfold d_previous. cbv zeta. destruct (wd_invalid _); [discriminate|].
  destruct (date_add_days p (-1)) as [q'|e] eqn:E; cbn [bind]; [|discriminate]. apply d_prev_loop_wf. exact (date_add_days_wf _ _ _ E).
Qed.

(* ------------------------------------------------------------------ _first_of_month .. _last_of_year *)
Lemma set_day_eq p d : wf_date p -> wglue_Date_set (gd_of p) None None (Some d) = gres (date_set_day p d).
Proof. intros W. rewrite wglue_Date_set_eq by exact W. reflexivity. Qed.
Lemma set_month_eq p m : wf_date p -> wglue_Date_set (gd_of p) None (Some m) None = gres (date_set_month p m).
Proof. intros W. rewrite wglue_Date_set_eq by exact W. reflexivity. Qed.
Lemma set_ymd_eq p y m d : wf_date p -> wglue_Date_set (gd_of p) (Some y) (Some m) (Some d) = gres (date_set_ymd p y m d).
Proof. intros W. rewrite wglue_Date_set_eq by exact W. reflexivity. Qed.
Lemma replace_ymd_eq p y m d : wf_date p -> wglue_Date_replace (gd_of p) (Some y) (Some m) (Some d) = gres (date_set_ymd p y m d).
Proof. intros W. rewrite wglue_Date_replace_eq by exact W. reflexivity. Qed.

Theorem wglue_Date_first_of_month_eq p wd : wf_date p -> wglue_Date_first_of_month (gd_of p) wd = gres (d_first_of_month p wd).
Proof.
  intros W. destruct (gd_of_fields p W) as (A & B & C). unfold wglue_Date_first_of_month, d_first_of_month. cbv zeta. rewrite A, B.
  destruct wd as [w|]; [|rewrite res_id'; apply set_day_eq; exact W].
  destruct (mc_get (d_year p) (d_month p) 0 w) as [c0|e]; cbn [bind]; cbv beta iota zeta; [|reflexivity].
  destruct (c0 >? 0); [rewrite res_id'; apply set_day_eq; exact W|].
  destruct (mc_get (d_year p) (d_month p) 1 w) as [c1|e]; cbn [bind]; cbv beta iota zeta; [|reflexivity]. rewrite res_id'. apply set_day_eq; exact W.
Qed.

Theorem wglue_Date_last_of_month_eq p wd : wf_date p -> wglue_Date_last_of_month (gd_of p) wd = gres (d_last_of_month p wd).
Proof.
  intros W. destruct (gd_of_fields p W) as (A & B & C). unfold wglue_Date_last_of_month, d_last_of_month. cbv zeta. rewrite A, B.
  destruct wd as [w|]; [|rewrite res_id'; rewrite gd_of_dim by exact W; apply set_day_eq; exact W].
  destruct (mc_get (d_year p) (d_month p) (-1) w) as [c0|e]; cbn [bind]; cbv beta iota zeta; [|reflexivity].
  destruct (c0 >? 0); [rewrite res_id'; apply set_day_eq; exact W|].
  destruct (mc_get (d_year p) (d_month p) (-2) w) as [c1|e]; cbn [bind]; cbv beta iota zeta; [|reflexivity]. rewrite res_id'. apply set_day_eq; exact W.
Qed.

Theorem wglue_Date_first_of_quarter_eq p wd : wf_date p -> wglue_Date_first_of_quarter (gd_of p) wd = gres (d_first_of_quarter p wd).
Proof.
  intros W. destruct (gd_of_fields p W) as (A & B & C). unfold wglue_Date_first_of_quarter, d_first_of_quarter. rewrite A, gd_of_quarter by exact W.
  apply sim_bind; [apply set_ymd_eq; exact W|]. intros q Hq. rewrite res_id'. apply wglue_Date_first_of_month_eq. exact (date_new_wf _ _ _ _ Hq).
Qed.
Theorem wglue_Date_last_of_quarter_eq p wd : wf_date p -> wglue_Date_last_of_quarter (gd_of p) wd = gres (d_last_of_quarter p wd).
Proof.
  intros W. destruct (gd_of_fields p W) as (A & B & C). unfold wglue_Date_last_of_quarter, d_last_of_quarter. rewrite A, gd_of_quarter by exact W.
  apply sim_bind; [apply set_ymd_eq; exact W|]. intros q Hq. rewrite res_id'. apply wglue_Date_last_of_month_eq. exact (date_new_wf _ _ _ _ Hq).
Qed.
Theorem wglue_Date_first_of_year_eq p wd : wf_date p -> wglue_Date_first_of_year (gd_of p) wd = gres (d_first_of_year p wd).
Proof.
  intros W. unfold wglue_Date_first_of_year, d_first_of_year.
  apply sim_bind; [apply set_month_eq; exact W|]. intros q Hq. rewrite res_id'. apply wglue_Date_first_of_month_eq. exact (date_new_wf _ _ _ _ Hq).
Qed.
Theorem wglue_Date_last_of_year_eq p wd : wf_date p -> wglue_Date_last_of_year (gd_of p) wd = gres (d_last_of_year p wd).
Proof.
  intros W. unfold wglue_Date_last_of_year, d_last_of_year. change C_MONTHS_PER_YEAR with 12.
  apply sim_bind; [apply set_month_eq; exact W|]. intros q Hq. rewrite res_id'. apply wglue_Date_last_of_month_eq. exact (date_new_wf _ _ _ _ Hq).
Qed.

(* first_of / last_of: `if unit not in ["month", "quarter", "year"]: raise ValueError; return getattr(self, f"_first_of_{unit}")(day_of_week)` —
   the dispatch is written by hand over the translated helpers (the generator checks that the two bodies are exactly this text) *)
Definition wglue_Date_first_of (u : Z) (self : gdate) (wd : option Z) : result gdate :=
  if u =? U_MONTH then wglue_Date_first_of_month self wd
  else if u =? U_QUARTER then wglue_Date_first_of_quarter self wd
  else if u =? U_YEAR then wglue_Date_first_of_year self wd
  else Raise E_ValueError.
Definition wglue_Date_last_of (u : Z) (self : gdate) (wd : option Z) : result gdate :=
  if u =? U_MONTH then wglue_Date_last_of_month self wd
  else if u =? U_QUARTER then wglue_Date_last_of_quarter self wd
  else if u =? U_YEAR then wglue_Date_last_of_year self wd
  else Raise E_ValueError.

Theorem wglue_Date_first_of_eq u p wd : wf_date p -> wglue_Date_first_of u (gd_of p) wd = gres (d_first_of u p wd).
Proof.
  intros W. unfold wglue_Date_first_of, d_first_of.
  destruct (u =? U_MONTH); [apply wglue_Date_first_of_month_eq; exact W|].
  destruct (u =? U_QUARTER); [apply wglue_Date_first_of_quarter_eq; exact W|].
  destruct (u =? U_YEAR); [apply wglue_Date_first_of_year_eq; exact W|reflexivity].
Qed.
Theorem wglue_Date_last_of_eq u p wd : wf_date p -> wglue_Date_last_of u (gd_of p) wd = gres (d_last_of u p wd).
Proof.
  intros W. unfold wglue_Date_last_of, d_last_of.
  destruct (u =? U_MONTH); [apply wglue_Date_last_of_month_eq; exact W|].
  destruct (u =? U_QUARTER); [apply wglue_Date_last_of_quarter_eq; exact W|].
  destruct (u =? U_YEAR); [apply wglue_Date_last_of_year_eq; exact W|reflexivity].
Qed.

Lemma gres_ok r g : gres r = Ok g -> exists q, r = Ok q /\ g = gd_of q.
Proof. destruct r as [q|e]; cbn [gres]; [|discriminate]. intros H. injection H as <-. now exists q. Qed.

Lemma d_first_of_month_wf p wd r : wf_date p -> d_first_of_month p wd = Ok r -> wf_date r.
Proof.
  intros W. unfold d_first_of_month, date_set_day. destruct wd as [w|]; [|apply date_new_wf]. cbv zeta.
  destruct (mc_get _ _ 0 w) as [c0|e]; cbn [bind]; [|discriminate]. destruct (c0 >? 0); [apply date_new_wf|].
  destruct (mc_get _ _ 1 w) as [c1|e]; cbn [bind]; [|discriminate]. apply date_new_wf.
Qed.
Lemma d_first_of_wf u p wd r : wf_date p -> d_first_of u p wd = Ok r -> wf_date r.
Proof.
  intros W. unfold d_first_of, d_first_of_quarter, d_first_of_year, date_set_ymd, date_set_month.
  destruct (u =? U_MONTH); [apply d_first_of_month_wf; exact W|].
  destruct (u =? U_QUARTER).
  { destruct (date_new _ _ _) as [q|e] eqn:E; cbn [bind]; [|discriminate]. apply d_first_of_month_wf. exact (date_new_wf _ _ _ _ E). }
  destruct (u =? U_YEAR); [|discriminate].
  destruct (date_new _ _ _) as [q|e] eqn:E; cbn [bind]; [|discriminate]. apply d_first_of_month_wf. exact (date_new_wf _ _ _ _ E).
Qed.

(* ------------------------------------------------------------------ _nth_of_month / _nth_of_quarter / _nth_of_year (Self | None) *)
Definition gres_opt (r : result (option pdate)) : result (option gdate) :=
  match r with Ok (Some p) => Ok (Some (gd_of p)) | Ok None => Ok None | Raise e => Raise e end.

Lemma d_iter_next_wf w : forall k q r, wf_date q -> d_iter_next k w q = Ok r -> wf_date r.
Proof.
  induction k as [|k IH]; intros q r W; cbn [d_iter_next]; [intros H; injection H as <-; exact W|].
  destruct (d_next q (Some w)) as [q'|e] eqn:E; cbn [bind]; [|discriminate]. apply IH. exact (d_next_wf _ _ _ W E).
Qed.

Ltac for_loop_eq :=
  let k := fresh "k" in let IH := fresh "IH" in
  induction k as [|k IH]; intros i q W; [reflexivity|]; cbn -[wglue_Date_next d_next];
  apply sim_bind; [apply wglue_Date_next_eq; exact W|]; intros q' Hq; apply IH; exact (d_next_wf _ _ _ W Hq).
Lemma for1_month_eq w : forall k i q, wf_date q -> wglue_Date_nth_of_month_for1 k i w (gd_of q) = gres (d_iter_next k w q).
Proof. for_loop_eq. Qed.
Lemma for1_quarter_eq w : forall k i q, wf_date q -> wglue_Date_nth_of_quarter_for1 k i w (gd_of q) = gres (d_iter_next k w q).
Proof. for_loop_eq. Qed.
Lemma for1_year_eq w : forall k i q, wf_date q -> wglue_Date_nth_of_year_for1 k i w (gd_of q) = gres (d_iter_next k w q).
Proof. for_loop_eq. Qed.

Lemma d_first_of_month_unit p wd : d_first_of U_MONTH p wd = d_first_of_month p wd. Proof. reflexivity. Qed.
Lemma d_first_of_quarter_unit p wd : d_first_of U_QUARTER p wd = d_first_of_quarter p wd. Proof. reflexivity. Qed.
Lemma d_first_of_year_unit p wd : d_first_of U_YEAR p wd = d_first_of_year p wd. Proof. reflexivity. Qed.

Lemma gres_some r : match gres r with Raise e => Raise e | Ok m => Ok (Some m) end = gres_opt (bind r (fun x => Ok (Some x))).
Proof. destruct r; reflexivity. Qed.

Theorem wglue_Date_nth_of_month_eq p nth w : wf_date p -> wglue_Date_nth_of_month (gd_of p) nth w = gres_opt (d_nth_of_month p nth w).
Proof.
  intros W. unfold wglue_Date_nth_of_month, d_nth_of_month. rewrite ?(d_first_of_month_unit p None), ?(d_first_of_month_unit p (Some w)). rewrite !wglue_Date_first_of_month_eq by exact W.
  destruct (nth =? 1); [apply gres_some|].
  destruct (d_first_of_month p None) as [dt0|e] eqn:E0; cbn [gres bind]; cbv beta iota zeta; [|reflexivity].
  pose proof (d_first_of_month_wf _ _ _ W E0) as W0. rewrite gd_of_dow, Z.sub_0_r. unfold nth_iters. rewrite for1_month_eq by exact W0.
  destruct (d_iter_next _ w dt0) as [dt|e] eqn:E1; cbn [gres bind]; cbv beta iota zeta; [|reflexivity].
  pose proof (d_iter_next_wf _ _ _ _ W0 E1) as W1. rewrite gd_of_same_ym by assumption. destruct (same_year_month dt dt0); [|reflexivity].
  rewrite (proj2 (proj2 (gd_of_fields dt W1))). rewrite set_day_eq by exact W. apply gres_some.
Qed.

Theorem wglue_Date_nth_of_quarter_eq p nth w : wf_date p -> wglue_Date_nth_of_quarter (gd_of p) nth w = gres_opt (d_nth_of_quarter p nth w).
Proof.
  intros W. destruct (gd_of_fields p W) as (A & B & C).
  unfold wglue_Date_nth_of_quarter, d_nth_of_quarter. rewrite ?(d_first_of_quarter_unit p None), ?(d_first_of_quarter_unit p (Some w)). rewrite wglue_Date_first_of_quarter_eq by exact W.
  destruct (nth =? 1); [apply gres_some|]. rewrite A, gd_of_quarter by exact W. rewrite replace_ymd_eq by exact W.
  destruct (date_set_ymd p (d_year p) (py_Date_quarter p * 3) 1) as [dtq|e] eqn:Eq; cbn [gres bind]; cbv beta iota zeta; [|reflexivity].
  pose proof (date_new_wf _ _ _ _ Eq) as Wq. destruct (gd_of_fields dtq Wq) as (Aq & Bq & Cq). rewrite Aq, Bq.
  rewrite (d_first_of_quarter_unit dtq None). rewrite wglue_Date_first_of_quarter_eq by exact Wq.
  destruct (d_first_of_quarter dtq None) as [dt0|e] eqn:E0; cbn [gres bind]; cbv beta iota zeta; [|reflexivity].
  assert (W0 : wf_date dt0) by (apply (d_first_of_wf U_QUARTER dtq None); [exact Wq|exact E0]).
  rewrite gd_of_dow, Z.sub_0_r. unfold nth_iters. rewrite for1_quarter_eq by exact W0.
  destruct (d_iter_next _ w dt0) as [dt|e] eqn:E1; cbn [gres bind]; cbv beta iota zeta; [|reflexivity].
  pose proof (d_iter_next_wf _ _ _ _ W0 E1) as W1. destruct (gd_of_fields dt W1) as (A1 & B1 & C1). rewrite A1, B1, C1.
  destruct ((d_month dtq <? d_month dt) || negb (d_year dtq =? d_year dt)); [reflexivity|].
  rewrite set_ymd_eq by exact W. apply gres_some.
Qed.

Theorem wglue_Date_nth_of_year_eq p nth w : wf_date p -> wglue_Date_nth_of_year (gd_of p) nth w = gres_opt (d_nth_of_year p nth w).
Proof.
  intros W. destruct (gd_of_fields p W) as (A & B & C).
  unfold wglue_Date_nth_of_year, d_nth_of_year. rewrite ?(d_first_of_year_unit p None), ?(d_first_of_year_unit p (Some w)). rewrite !wglue_Date_first_of_year_eq by exact W.
  destruct (nth =? 1); [apply gres_some|].
  destruct (d_first_of_year p None) as [dt0|e] eqn:E0; cbn [gres bind]; cbv beta iota zeta; [|reflexivity].
  assert (W0 : wf_date dt0) by (apply (d_first_of_wf U_YEAR p None); [exact W|exact E0]).
  destruct (gd_of_fields dt0 W0) as (A0 & B0 & C0). rewrite A0.
  rewrite gd_of_dow, Z.sub_0_r. unfold nth_iters. rewrite for1_year_eq by exact W0.
  destruct (d_iter_next _ w dt0) as [dt|e] eqn:E1; cbn [gres bind]; cbv beta iota zeta; [|reflexivity].
  pose proof (d_iter_next_wf _ _ _ _ W0 E1) as W1. destruct (gd_of_fields dt W1) as (A1 & B1 & C1). rewrite A, A1, B1, C1.
  destruct (negb (d_year dt0 =? d_year dt)); [reflexivity|].
  rewrite set_ymd_eq by exact W. apply gres_some.
Qed.

(* nth_of:
     if unit not in ["month", "quarter", "year"]: raise ValueError
     try: dt = getattr(self, f"_nth_of_{unit}")(nth, day_of_week)
     except OverflowError: dt = None
     if not dt: raise PendulumException
     return dt
   written by hand over the translated helpers (the translator has no try/except and no getattr) *)
Definition wglue_Date_nth_of (u : Z) (self : gdate) (nth wd : Z) : result gdate :=
  let r := if u =? U_MONTH then overflow_to_none (wglue_Date_nth_of_month self nth wd)
           else if u =? U_QUARTER then overflow_to_none (wglue_Date_nth_of_quarter self nth wd)
           else if u =? U_YEAR then overflow_to_none (wglue_Date_nth_of_year self nth wd)
           else Raise E_ValueError in
  match r with Raise e => Raise e | Ok (Some d) => Ok d | Ok None => Raise E_PendulumException end.

Lemma overflow_gres_opt r : overflow_to_none (gres_opt r) = gres_opt (overflow_to_none r).
Proof. destruct r as [[q|]|[]]; reflexivity. Qed.

Theorem wglue_Date_nth_of_eq u p nth w : wf_date p -> wglue_Date_nth_of u (gd_of p) nth w = gres (d_nth_of u p nth w).
Proof.
  intros W. unfold wglue_Date_nth_of, d_nth_of.
  rewrite wglue_Date_nth_of_month_eq, wglue_Date_nth_of_quarter_eq, wglue_Date_nth_of_year_eq by exact W. rewrite !overflow_gres_opt.
  cbv zeta. destruct (u =? U_MONTH); [destruct (overflow_to_none _) as [[q|]|e]; reflexivity|].
  destruct (u =? U_QUARTER); [destruct (overflow_to_none _) as [[q|]|e]; reflexivity|].
  destruct (u =? U_YEAR); [destruct (overflow_to_none _) as [[q|]|e]; reflexivity|reflexivity].
Qed.
