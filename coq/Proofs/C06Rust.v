(* Proofs/C06Rust.v — the hand model of the Rust precise_diff satisfies the same specification pd_spec on ordered
   zero-offset datetime pairs with years >= 1, hence equals the Python helper there. *)
From Coq Require Import ZArith List Bool Lia ZifyBool.
From PV Require Import Lib.Reflect Lib.PyBase Spec.Cal Proofs.CalFacts.
From PV Require Import Gen.Constants Gen.Helpers Gen.RustConstants Model.RustHelpers Model.PdBase Gen.PreciseDiff Model.RustPreciseDiff Model.PdInterval Proofs.C06Facts Proofs.C06Spec.
Import ListNotations.
Ltac Zify.zify_post_hook ::= Z.to_euclidean_division_equations.
Open Scope Z_scope.

Lemma if_same' {A} (c : bool) (x : A) : (if c then x else x) = x. Proof. destruct c; reflexivity. Qed.

Lemma rs_shift_zero hh mm ss dd : 0 <= hh <= 23 -> 0 <= mm <= 59 -> 0 <= ss <= 59 -> rs_shift hh mm ss dd 0 = (hh, mm, ss, dd).
Proof.
  intros. unfold rs_shift. cbn [Z.quot Z.rem Z.quotrem]. rewrite !Z.sub_0_r.
  replace (ss <? 0) with false by lia. replace (ss >? 60) with false by lia.
  replace (mm <? 0) with false by lia. replace (mm >? 60) with false by lia.
  replace (hh <? 0) with false by lia. replace (hh >? 24) with false by lia. reflexivity.
Qed.

Lemma rs_info_plain d b t : wf_time d -> p_offset d = 0 -> p_is_dt d = true ->
  rs_info d true b t = mkrs (p_year d) (p_month d) (p_day d) (p_hour d) (p_minute d) (p_second d) (p_microsecond d).
Proof.
  intros (H1 & H2 & H3 & H4) Ho Hd. unfold rs_info, rs_off. rewrite Ho. rewrite if_same'. cbn [Z.eqb negb]. rewrite andb_false_r. cbn [orb].
  rewrite rs_shift_zero by lia. rewrite if_same'. reflexivity.
Qed.

Lemma rs_pd_spec a b : dt_pair a b -> 1 <= p_year a -> p_wall a < p_wall b ->
  pd_spec a b (rs_precise_diff a b) /\
  pd_total_days (rs_precise_diff a b) = rs_day_number (p_year b) (p_month b) (p_day b) - rs_day_number (p_year a) (p_month a) (p_day a).
Proof.
  intros (Wa & Wb & Da & Db & Htz) Hy Hlt.
  destruct Wa as (Va & Ta & Oa). destruct Wb as (Vb & Tb & Ob).
  pose proof (wall_le_split a b Ta Tb ltac:(lia)) as Hsplit.
  assert (Hlex := fun H => ord_le_lex a b Va Vb H).
  pose proof (same_date_tod a b) as Hsame. specialize (fun e1 e2 e3 => Hsame e1 e2 e3 Hlt).
  unfold rs_precise_diff. rewrite Db, Da.
  rewrite (rs_info_plain a) by assumption. rewrite (rs_info_plain b) by assumption.
  apply valid_dateb_true in Va, Vb.
  assert (Hle : p_date_ord a <= p_date_ord b) by (clear - Hsplit; lia). pose proof (Hlex Hle) as Hl2.
  assert (Hyb : 1 <= p_year b) by (clear - Hl2 Hy; lia). clear Hle Hl2.
  unfold wf_time in Ta, Tb. unfold tod in *. unfold us_per_day in *.
  assert (G : rs_gtb (mkrs (p_year a) (p_month a) (p_day a) (p_hour a) (p_minute a) (p_second a) (p_microsecond a))
                     (mkrs (p_year b) (p_month b) (p_day b) (p_hour b) (p_minute b) (p_second b) (p_microsecond b)) = false).
  { unfold rs_gtb, rs_fields, lex_gtb. cbn [r_year r_month r_day r_hour r_minute r_second r_micro].
    repeat match goal with |- context [if ?c then _ else _] => destruct c eqn:? end; try reflexivity; exfalso; lia. }
  rewrite G. unfold rs_core. cbn [r_year r_month r_day r_hour r_minute r_second r_micro].
  assert (E1 : tidx (tidx2 RS_DAYS_PER_MONTHS (Z.b2z (rs_is_leap (p_year b)))) (p_month b) = dim (p_year b) (p_month b)) by (apply rs_dpm_dim; lia).
  assert (E2 : tidx (tidx2 RS_DAYS_PER_MONTHS (Z.b2z (rs_is_leap (p_year b - 1)))) 12 = dim (p_year b - 1) 12) by (apply rs_dpm_dim; lia).
  assert (E3 : p_month b <> 1 -> tidx (tidx2 RS_DAYS_PER_MONTHS (Z.b2z (rs_is_leap (p_year b)))) (p_month b - 1) = dim (p_year b) (p_month b - 1)) by (intros; apply rs_dpm_dim; lia).
  pose proof (dim_bounds (p_year b) (p_month b)) as B1. pose proof (dim_bounds (p_year b - 1) 12) as B2. pose proof (dim_bounds (p_year b) (p_month b - 1)) as B3.
  pose proof (dim_bounds (p_year a) (p_month a)) as B4.
  unfold pd_spec, prev_y, prev_m. unfold tod, us_per_day.
  repeat (match goal with |- context [if ?c then _ else _] => destruct c eqn:? end; cbv beta iota zeta).
  all: cbn [pd_years pd_months pd_days pd_hours pd_minutes pd_seconds pd_microseconds pd_total_days].
  all: try (rewrite E3 in * by lia); rewrite ?E1, ?E2 in *.
  all: lia.
Qed.
