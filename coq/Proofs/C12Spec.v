(* Proofs/C12Spec.v — the calendar units on the wall clock: a wall value lies between the first and the last microsecond of a unit
   exactly when it has the unit's identifier.  Every integer wall value (no bound on years). *)
From Coq Require Import ZArith List Bool Lia ZifyBool.
From PV Require Import Lib.PyBase Spec.Cal Proofs.CalFacts Model.StartEndBase Model.StartEnd.
Ltac Zify.zify_post_hook ::= Z.to_euclidean_division_equations.
Open Scope Z_scope.

Lemma upd_val : us_per_day = 86400000000. Proof. reflexivity. Qed.

(* ---------- fields of a wall value ---------- *)
Definition ord_of (W : Z) : Z := W / us_per_day + 1.
Definition tod_s (W : Z) : Z := (W mod us_per_day) / 1000000.

Lemma ord2ymd_fields W : ord2ymd (ord_of W) = (f_year W, f_month W, f_day W).
Proof.
  unfold f_year, f_month, f_day, fields_of_wall, ord_of.
  destruct (ord2ymd (W / us_per_day + 1)) as [[y m] d]. reflexivity.
Qed.

Lemma f_ymd_spec W : valid_dateb (f_year W) (f_month W) (f_day W) = true /\ ymd2ord (f_year W) (f_month W) (f_day W) = ord_of W.
Proof. pose proof (ord2ymd_spec (ord_of W)) as H. rewrite ord2ymd_fields in H. exact H. Qed.

Lemma f_hour_eq W : f_hour W = tod_s W / 3600.
Proof. unfold f_hour, fields_of_wall, tod_s. destruct (ord2ymd (W / us_per_day + 1)) as [[y m] d]. reflexivity. Qed.
Lemma f_minute_eq W : f_minute W = (tod_s W / 60) mod 60.
Proof. unfold f_minute, fields_of_wall, tod_s. destruct (ord2ymd (W / us_per_day + 1)) as [[y m] d]. reflexivity. Qed.
Lemma f_second_eq W : f_second W = tod_s W mod 60.
Proof. unfold f_second, fields_of_wall, tod_s. destruct (ord2ymd (W / us_per_day + 1)) as [[y m] d]. reflexivity. Qed.
Lemma f_us_eq W : f_us W = (W mod us_per_day) mod 1000000.
Proof. unfold f_us, fields_of_wall. destruct (ord2ymd (W / us_per_day + 1)) as [[y m] d]. reflexivity. Qed.

Lemma o_fields n : ord2ymd n = (o_year n, o_month n, o_day n).
Proof. unfold o_year, o_month, o_day. destruct (ord2ymd n) as [[y m] d]. reflexivity. Qed.
Lemma o_spec n : valid_dateb (o_year n) (o_month n) (o_day n) = true /\ ymd2ord (o_year n) (o_month n) (o_day n) = n.
Proof. pose proof (ord2ymd_spec n) as H. rewrite o_fields in H. exact H. Qed.
Lemma f_year_o W : f_year W = o_year (ord_of W).
Proof. pose proof (ord2ymd_fields W) as H. rewrite o_fields in H. congruence. Qed.
Lemma f_month_o W : f_month W = o_month (ord_of W).
Proof. pose proof (ord2ymd_fields W) as H. rewrite o_fields in H. congruence. Qed.
Lemma f_day_o W : f_day W = o_day (ord_of W).
Proof. pose proof (ord2ymd_fields W) as H. rewrite o_fields in H. congruence. Qed.

(* ---------- ordinals of a year range / of a month ---------- *)
Lemma ymd2ord_jan1 y : ymd2ord y 1 1 = days_before_year y + 1.
Proof. unfold ymd2ord, days_before_month. rewrite dbm_1. lia. Qed.
Lemma ymd2ord_dec31 y : ymd2ord y 12 31 = days_before_year (y + 1).
Proof.
  unfold ymd2ord, days_before_month. rewrite days_before_year_succ. unfold days_in_year.
  pose proof (dbm_12 (is_leap y)) as H. assert (E : dim_l (is_leap y) 12 = 31) by reflexivity. rewrite E in H.
  destruct (is_leap y); lia.
Qed.

Lemma year_span n : days_before_year (o_year n) + 1 <= n <= days_before_year (o_year n + 1).
Proof.
  destruct (o_spec n) as [V E]. pose proof (yday_bounds _ _ _ V) as B.
  rewrite days_before_year_succ. unfold ymd2ord in E. lia.
Qed.

Lemma year_range a b n : a <= b -> (ymd2ord a 1 1 <= n <= ymd2ord b 12 31 <-> a <= o_year n <= b).
Proof.
  intros Hab. rewrite ymd2ord_jan1, ymd2ord_dec31. pose proof (year_span n) as S. split.
  - intros [H1 H2]. split.
    + destruct (Z_lt_ge_dec (o_year n) a) as [Hlt|]; [|lia].
      pose proof (days_before_year_mono (o_year n + 1) a ltac:(lia)). lia.
    + destruct (Z_lt_ge_dec b (o_year n)) as [Hlt|]; [|lia].
      pose proof (days_before_year_mono (b + 1) (o_year n) ltac:(lia)). lia.
  - intros [H1 H2].
    pose proof (days_before_year_mono a (o_year n) H1). pose proof (days_before_year_mono (o_year n + 1) (b + 1) ltac:(lia)). lia.
Qed.

Lemma month_range y m n : 1 <= m <= 12 ->
  (ymd2ord y m 1 <= n <= ymd2ord y m (dim y m) <-> (o_year n = y /\ o_month n = m)).
Proof.
  intros Hm. split.
  - intros [H1 H2]. set (d := n - ymd2ord y m 1 + 1).
    assert (Hd : 1 <= d <= dim y m) by (unfold d, ymd2ord in *; lia).
    assert (V : valid_dateb y m d = true) by (apply valid_dateb_true; lia).
    assert (E : ymd2ord y m d = n) by (unfold d, ymd2ord; lia).
    pose proof (ord2ymd_ymd2ord y m d V) as R. rewrite E, o_fields in R. split; congruence.
  - intros [<- <-]. destruct (o_spec n) as [V E]. apply valid_dateb_true in V. unfold ymd2ord in *. lia.
Qed.

(* ---------- wall values and ordinals ---------- *)
Lemma wall_lo_le y m d W' : (wall_of y m d 0 0 0 0 <= W' <-> ymd2ord y m d <= ord_of W').
Proof. unfold wall_of, ord_of. rewrite upd_val. lia. Qed.
Lemma wall_hi_ge y m d W' : (W' <= wall_of y m d 23 59 59 999999 <-> ord_of W' <= ymd2ord y m d).
Proof. unfold wall_of, ord_of. rewrite upd_val. lia. Qed.

Lemma f_month_range W : 1 <= f_month W <= 12.
Proof. destruct (f_ymd_spec W) as [V _]. apply valid_dateb_true in V. lia. Qed.

(* ---------- the main fact ---------- *)
Theorem unit_range_iff u ws W W' : valid_unit u ->
  (unit_lo u ws W <= W' <= unit_hi u ws W <-> unit_id u ws W' = unit_id u ws W).
Proof.
  unfold valid_unit. intros Hu.
  assert (C : u = 0 \/ u = 1 \/ u = 2 \/ u = 3 \/ u = 4 \/ u = 5 \/ u = 6 \/ u = 7 \/ u = 8) by lia.
  destruct C as [->|[->|[->|[->|[->|[->|[->|[->| ->]]]]]]]]; unfold unit_lo, unit_hi, unit_id.
  - lia.
  - lia.
  - lia.
  - rewrite upd_val. lia.
  - rewrite upd_val. lia.
  - rewrite wall_lo_le, wall_hi_ge, (month_range (f_year W) (f_month W) (ord_of W') (f_month_range W)).
    rewrite <- f_year_o, <- f_month_o. pose proof (f_month_range W). pose proof (f_month_range W'). lia.
  - rewrite wall_lo_le, wall_hi_ge, (year_range (f_year W) (f_year W) (ord_of W') ltac:(lia)). rewrite <- f_year_o. lia.
  - rewrite wall_lo_le, wall_hi_ge, (year_range (f_year W - f_year W mod 10) (f_year W - f_year W mod 10 + 9) (ord_of W') ltac:(lia)).
    rewrite <- f_year_o. lia.
  - rewrite wall_lo_le, wall_hi_ge,
      (year_range (f_year W - 1 - (f_year W - 1) mod 100 + 1) (f_year W - 1 - (f_year W - 1) mod 100 + 100) (ord_of W') ltac:(lia)).
    rewrite <- f_year_o. lia.
Qed.

Corollary unit_lo_le u ws W : valid_unit u -> unit_lo u ws W <= W <= unit_hi u ws W.
Proof. intros Hu. apply (unit_range_iff u ws W W Hu). reflexivity. Qed.

Corollary unit_lo_same u ws W : valid_unit u -> unit_id u ws (unit_lo u ws W) = unit_id u ws W.
Proof. intros Hu. apply (unit_range_iff u ws W _ Hu). pose proof (unit_lo_le u ws W Hu). lia. Qed.
Corollary unit_hi_same u ws W : valid_unit u -> unit_id u ws (unit_hi u ws W) = unit_id u ws W.
Proof. intros Hu. apply (unit_range_iff u ws W _ Hu). pose proof (unit_lo_le u ws W Hu). lia. Qed.
Corollary unit_pred_other u ws W W' : valid_unit u -> W' < unit_lo u ws W -> unit_id u ws W' <> unit_id u ws W.
Proof. intros Hu Hlt E. apply (unit_range_iff u ws W W' Hu) in E. lia. Qed.
Corollary unit_succ_other u ws W W' : valid_unit u -> unit_hi u ws W < W' -> unit_id u ws W' <> unit_id u ws W.
Proof. intros Hu Hlt E. apply (unit_range_iff u ws W W' Hu) in E. lia. Qed.

(* the bounds depend on the unit only *)
Lemma unit_bounds_of_id u ws W1 W2 : valid_unit u -> unit_id u ws W1 = unit_id u ws W2 ->
  unit_lo u ws W1 = unit_lo u ws W2 /\ unit_hi u ws W1 = unit_hi u ws W2.
Proof.
  intros Hu E.
  assert (L : forall A B, unit_id u ws A = unit_id u ws B -> unit_lo u ws B <= unit_lo u ws A /\ unit_hi u ws A <= unit_hi u ws B).
  { intros A B EAB.
    pose proof (unit_lo_same u ws A Hu) as SA. pose proof (unit_hi_same u ws A Hu) as SB.
    pose proof (proj2 (unit_range_iff u ws B (unit_lo u ws A) Hu) ltac:(congruence)).
    pose proof (proj2 (unit_range_iff u ws B (unit_hi u ws A) Hu) ltac:(congruence)). lia. }
  pose proof (L W1 W2 E). pose proof (L W2 W1 (eq_sym E)). lia.
Qed.
Corollary unit_lo_idem u ws W : valid_unit u -> unit_lo u ws (unit_lo u ws W) = unit_lo u ws W.
Proof. intros Hu. apply (unit_bounds_of_id u ws _ _ Hu). apply unit_lo_same. exact Hu. Qed.
Corollary unit_hi_idem u ws W : valid_unit u -> unit_hi u ws (unit_hi u ws W) = unit_hi u ws W.
Proof. intros Hu. apply (unit_bounds_of_id u ws _ _ Hu). apply unit_hi_same. exact Hu. Qed.
