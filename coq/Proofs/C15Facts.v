(* Proofs/C15Facts.v — the translated Python helpers and the Rust model agree with Spec/Cal.v,
   for every year (no bound) unless a hypothesis says otherwise. *)
From Coq Require Import ZArith List Bool Lia ZifyBool.
From PV Require Import Lib.Reflect Lib.PyBase Spec.Cal Proofs.CalFacts.
From PV Require Import Gen.Constants Gen.Helpers Gen.DateGetters Gen.RustConstants Model.RustHelpers.
Ltac Zify.zify_post_hook ::= Z.to_euclidean_division_equations.
Open Scope Z_scope.

Ltac split_ifs := repeat match goal with |- context [if ?c then _ else _] => destruct c eqn:? end.

Lemma py_is_leap_spec y : py_is_leap y = is_leap y.
Proof. reflexivity. Qed.

Lemma rs_is_leap_spec y : 0 <= y -> rs_is_leap y = is_leap y.
Proof. intros H. unfold rs_is_leap, is_leap. rewrite !Z.rem_mod_nonneg by lia. reflexivity. Qed.

Lemma py_days_in_year_spec y : py_days_in_year y = days_in_year y.
Proof. reflexivity. Qed.

Lemma rs_days_in_year_spec y : 0 <= y -> rs_days_in_year y = days_in_year y.
Proof. intros H. unfold rs_days_in_year, days_in_year. rewrite rs_is_leap_spec by lia. reflexivity. Qed.

Lemma month_cases m : 1 <= m <= 12 ->
  m = 1 \/ m = 2 \/ m = 3 \/ m = 4 \/ m = 5 \/ m = 6 \/ m = 7 \/ m = 8 \/ m = 9 \/ m = 10 \/ m = 11 \/ m = 12.
Proof. lia. Qed.

Ltac eval_table T :=
  repeat match goal with |- context [tidx T ?k] =>
    let v := eval vm_compute in (tidx T k) in change (tidx T k) with v end.

(* ISO weekday, every year (also y <= 0), every day number d *)
Lemma py_week_day_spec y m d : 1 <= m <= 12 -> py_week_day y m d = iso_weekday (ymd2ord y m d).
Proof.
  intros Hm. unfold py_week_day, iso_weekday, ymd2ord, days_before_month, days_before_year, dbm_l, is_leap.
  destruct (month_cases m Hm) as [->|[->|[->|[->|[->|[->|[->|[->|[->|[->|[->| ->]]]]]]]]]]];
  eval_table C_DAY_OF_WEEK_TABLE;
  match goal with |- context [dbm_common ?k] => let v := eval vm_compute in (dbm_common k) in change (dbm_common k) with v end;
  cbn [andb Z.ltb Z.compare Pos.compare Pos.compare_cont];
  split_ifs; lia.
Qed.

Lemma rs_p_nonneg y : 0 <= y -> rs_p y = y + y / 4 - y / 100 + y / 400.
Proof. intros H. unfold rs_p. rewrite !Z.quot_div_nonneg by lia. reflexivity. Qed.

(* the Rust weekday equals the Python one on the domain of dates (years >= 1, d >= 0) *)
Lemma rs_week_day_eq_py y m d : 1 <= y -> 1 <= m <= 12 -> 0 <= d -> rs_week_day y m d = py_week_day y m d.
Proof.
  intros Hy Hm Hd. unfold rs_week_day, py_week_day.
  destruct (month_cases m Hm) as [->|[->|[->|[->|[->|[->|[->|[->|[->|[->|[->| ->]]]]]]]]]]];
  eval_table C_DAY_OF_WEEK_TABLE; eval_table RS_DAY_OF_WEEK_TABLE;
  cbn [Z.ltb Z.compare Pos.compare Pos.compare_cont];
  rewrite rs_p_nonneg by lia; rewrite Z.rem_mod_nonneg by lia;
  split_ifs; lia.
Qed.

Lemma rs_week_day_spec y m d : 1 <= y -> 1 <= m <= 12 -> 0 <= d -> rs_week_day y m d = iso_weekday (ymd2ord y m d).
Proof. intros. rewrite rs_week_day_eq_py by assumption. now apply py_week_day_spec. Qed.

Lemma ymd2ord_jan1 y : ymd2ord y 1 1 = days_before_year y + 1.
Proof. unfold ymd2ord, days_before_month, dbm_l. cbn. destruct (is_leap y); cbn; lia. Qed.

(* ISO long year, every year *)
Lemma py_is_long_year_spec y : py_is_long_year y = (iso_weeks_in_year y =? 53).
Proof.
  unfold py_is_long_year, iso_weeks_in_year, iso_week1_monday. rewrite !ymd2ord_jan1.
  unfold days_before_year. replace (y + 1 - 1) with y by lia.
  cbv zeta. split_ifs; lia.
Qed.

Lemma rs_is_long_year_eq_py y : 1 <= y -> rs_is_long_year y = py_is_long_year y.
Proof.
  intros Hy. unfold rs_is_long_year, py_is_long_year. rewrite !rs_p_nonneg by lia.
  rewrite !Z.rem_mod_nonneg by lia. reflexivity.
Qed.

Lemma iso_weeks_52_53 y : iso_weeks_in_year y = 52 \/ iso_weeks_in_year y = 53.
Proof.
  unfold iso_weeks_in_year, iso_week1_monday. rewrite !ymd2ord_jan1.
  pose proof (days_before_year_succ y) as S. unfold days_in_year in S.
  cbv zeta. destruct (is_leap y); split_ifs; lia.
Qed.

(* the week number of December 28 is the number of ISO weeks of the year: Date.is_long_year *)
Lemma dec28_week y : snd (fst (isocalendar y 12 28)) = iso_weeks_in_year y.
Proof.
  unfold isocalendar, iso_weeks_in_year, iso_week1_monday. rewrite !ymd2ord_jan1.
  unfold ymd2ord, days_before_month, dbm_l. 
  pose proof (days_before_year_succ y) as S. unfold days_in_year in S.
  replace (dbm_common 12) with 334 by reflexivity. cbn [Z.ltb Z.compare Pos.compare Pos.compare_cont andb].
  replace (y - 1 + 1) with y by lia.
  cbv zeta. destruct (is_leap y) eqn:L; cbn [fst snd]; split_ifs; cbn [fst snd]; lia.
Qed.

(* day of year: the closed formula of Date.day_of_year *)
Lemma py_day_of_year_spec y m d : 1 <= m <= 12 ->
  py_Date_day_of_year (mkdate y m d) = days_before_month y m + d.
Proof.
  intros Hm. unfold py_Date_day_of_year, py_Date_is_leap_year, days_before_month, dbm_l. cbn [d_year d_month d_day].
  destruct (month_cases m Hm) as [->|[->|[->|[->|[->|[->|[->|[->|[->|[->|[->| ->]]]]]]]]]]];
  match goal with |- context [dbm_common ?k] => let v := eval vm_compute in (dbm_common k) in change (dbm_common k) with v end;
  cbn [andb Z.ltb Z.compare Pos.compare Pos.compare_cont];
  destruct (is_leap y); cbn [andb]; lia.
Qed.

Lemma cdiv_pos a b : 0 < b -> cdiv a b = (a + b - 1) / b.
Proof. intros H. unfold cdiv. nia. Qed.

Lemma py_quarter_spec y m d : py_Date_quarter (mkdate y m d) = (m + 2) / 3.
Proof. unfold py_Date_quarter. cbn [d_month]. rewrite cdiv_pos by lia. f_equal. lia. Qed.

(* week of month: index (from 1) of the Monday-first calendar row that contains the day *)
Lemma py_week_of_month_spec y m d :
  py_Date_week_of_month (mkdate y m d) = (d + weekday0 (ymd2ord y m 1) - 1) / 7 + 1.
Proof.
  unfold py_Date_week_of_month, first_of_month_isoweekday, iso_weekday, weekday0. cbn [d_year d_month d_day].
  rewrite cdiv_pos by lia. lia.
Qed.
