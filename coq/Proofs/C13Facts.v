(* Proofs/C13Facts.v — lemmas for C13 (ISO 8601 durations). *)
From Coq Require Import ZArith List Bool Lia Floats.SpecFloat.
From PV Require Import Lib.PyBase Gen.Constants Gen.DurRegex Model.DurParse Model.DurSpec.
Import ListNotations.
Open Scope Z_scope.

(* ------------------------------------------------------------------ the regular expression the matcher was written for *)
Definition expected_duration_pattern : list Z :=
  [94; 80; 40; 63; 80; 60; 119; 62; 40; 63; 80; 60; 119; 101; 101; 107; 115; 62; 92; 100; 43; 40; 63; 58; 91; 46; 44; 93; 92; 100; 43; 41; 63; 87; 41; 41; 63; 40; 63; 80; 60; 121; 109; 100; 62; 40; 63; 80; 60; 121; 101; 97; 114; 115; 62; 92; 100; 43; 40; 63; 58; 91; 46; 44; 93; 92; 100; 43; 41; 63; 89; 41; 63; 40; 63; 80; 60; 109; 111; 110; 116; 104; 115; 62; 92; 100; 43; 40; 63; 58; 91; 46; 44; 93; 92; 100; 43; 41; 63; 77; 41; 63; 40; 63; 80; 60; 100; 97; 121; 115; 62; 92; 100; 43; 40; 63; 58; 91; 46; 44; 93; 92; 100; 43; 41; 63; 68; 41; 63; 41; 63; 40; 63; 80; 60; 104; 109; 115; 62; 40; 63; 80; 60; 116; 105; 109; 101; 115; 101; 112; 62; 84; 41; 40; 63; 80; 60; 104; 111; 117; 114; 115; 62; 92; 100; 43; 40; 63; 58; 91; 46; 44; 93; 92; 100; 43; 41; 63; 72; 41; 63; 40; 63; 80; 60; 109; 105; 110; 117; 116; 101; 115; 62; 92; 100; 43; 40; 63; 58; 91; 46; 44; 93; 92; 100; 43; 41; 63; 77; 41; 63; 40; 63; 80; 60; 115; 101; 99; 111; 110; 100; 115; 62; 92; 100; 43; 40; 63; 58; 91; 46; 44; 93; 92; 100; 43; 41; 63; 83; 41; 63; 41; 63; 36].
Lemma duration_pattern_pinned : ISO8601_DURATION_PATTERN = expected_duration_pattern.
Proof. reflexivity. Qed.

(* ------------------------------------------------------------------ witnesses (closed computations) *)
(* "P4294967297D" *)
Definition s_wrap : list Z := [80; 52; 50; 57; 52; 57; 54; 55; 50; 57; 55; 68].
(* "P1.25D" *)
Definition s_125d : list Z := [80; 49; 46; 50; 53; 68].
(* "PT1.00001H" *)
Definition s_100001h : list Z := [80; 84; 49; 46; 48; 48; 48; 48; 49; 72].
(* "P0.0005D" *)
Definition s_00005d : list Z := [80; 48; 46; 48; 48; 48; 53; 68].
(* "P1.1W" *)
Definition s_11w : list Z := [80; 49; 46; 49; 87].
(* "PT1.9999999S" *)
Definition s_19999999s : list Z := [80; 84; 49; 46; 57; 57; 57; 57; 57; 57; 57; 83].
(* "P99999999999D" *)
Definition s_big : list Z := [80; 57; 57; 57; 57; 57; 57; 57; 57; 57; 57; 57; 68].
(* "P0D1Y", "PT1H1H", "P2D1W" *)
Definition s_0d1y : list Z := [80; 48; 68; 49; 89].
Definition s_1h1h : list Z := [80; 84; 49; 72; 49; 72].
Definition s_2d1w : list Z := [80; 50; 68; 49; 87].

Lemma rs_wrap_witness : rs_dur s_wrap = Ok (0, 0, 1, 0, 0) /\ py_dur s_wrap = Raise E_OverflowError.
Proof. split; vm_compute; reflexivity. Qed.

(* exact value of P1.25D is 108000 s; the pure-Python parser returns 3 days 12 h = 302400 s, the compiled one is right *)
Lemma py_125d_witness :
  py_dur s_125d = Ok (0, 0, 3, 43200, 0) /\ rs_dur s_125d = Ok (0, 0, 1, 21600, 0)
  /\ nearestb (obs_us (0, 0, 3, 43200, 0)) (spec_num 0 1 0 0 0 86400 [50; 53]) (spec_den [50; 53]) = false
  /\ nearestb (obs_us (0, 0, 1, 21600, 0)) (spec_num 0 1 0 0 0 86400 [50; 53]) (spec_den [50; 53]) = true.
Proof. repeat split; vm_compute; reflexivity. Qed.

(* exact value of PT1.00001H is 3600.036 s; the compiled parser returns 3600 s; the pure-Python one 3960 s *)
Lemma rs_100001h_witness :
  rs_dur s_100001h = Ok (0, 0, 0, 3600, 0) /\ py_dur s_100001h = Ok (0, 0, 0, 3960, 0)
  /\ nearestb (obs_us (0, 0, 0, 3600, 0)) (spec_num 0 0 1 0 0 3600 [48; 48; 48; 48; 49]) (spec_den [48; 48; 48; 48; 49]) = false
  /\ nearestb 3600036000 (spec_num 0 0 1 0 0 3600 [48; 48; 48; 48; 49]) (spec_den [48; 48; 48; 48; 49]) = true.
Proof. repeat split; vm_compute; reflexivity. Qed.

(* exact value of P0.0005D is 43.2 s; the compiled parser returns 60 s (day and week fractions are rounded to whole minutes) *)
Lemma rs_00005d_witness :
  rs_dur s_00005d = Ok (0, 0, 0, 60, 0)
  /\ nearestb (obs_us (0, 0, 0, 60, 0)) (spec_num 0 0 0 0 0 86400 [48; 48; 48; 53]) (spec_den [48; 48; 48; 53]) = false
  /\ nearestb 43200000 (spec_num 0 0 0 0 0 86400 [48; 48; 48; 53]) (spec_den [48; 48; 48; 53]) = true.
Proof. repeat split; vm_compute; reflexivity. Qed.

(* one fraction digit is not enough for weeks in the pure-Python parser: P1.1W = 7 d 16.8 h, parsed as 7 d 16 h *)
Lemma py_11w_witness :
  py_dur s_11w = Ok (0, 0, 7, 57600, 0) /\ rs_dur s_11w = Ok (0, 0, 7, 60480, 0)
  /\ nearestb (obs_us (0, 0, 7, 57600, 0)) (spec_num 1 0 0 0 0 604800 [49]) (spec_den [49]) = false
  /\ nearestb (obs_us (0, 0, 7, 60480, 0)) (spec_num 1 0 0 0 0 604800 [49]) (spec_den [49]) = true.
Proof. repeat split; vm_compute; reflexivity. Qed.

(* second fractions beyond 6 digits: truncated by the pure-Python parser, rounded by the compiled one *)
Lemma py_19999999s_witness :
  py_dur s_19999999s = Ok (0, 0, 0, 1, 999999) /\ rs_dur s_19999999s = Ok (0, 0, 0, 2, 0)
  /\ nearestb (obs_us (0, 0, 0, 1, 999999)) (spec_num 0 0 0 0 1 1 [57; 57; 57; 57; 57; 57; 57]) (spec_den [57; 57; 57; 57; 57; 57; 57]) = false
  /\ nearestb (obs_us (0, 0, 0, 2, 0)) (spec_num 0 0 0 0 1 1 [57; 57; 57; 57; 57; 57; 57]) (spec_den [57; 57; 57; 57; 57; 57; 57]) = true.
Proof. repeat split; vm_compute; reflexivity. Qed.

Lemma too_large_witness : py_dur s_big = Raise E_OverflowError /\ rs_dur s_big = Raise E_OverflowError.
Proof. split; vm_compute; reflexivity. Qed.

Lemma rs_order_witness :
  rs_dur s_0d1y = Ok (1, 0, 365, 0, 0) /\ py_dur s_0d1y = Raise E_ValueError
  /\ rs_dur s_1h1h = Ok (0, 0, 0, 7200, 0) /\ py_dur s_1h1h = Raise E_ValueError
  /\ rs_dur s_2d1w = Ok (0, 0, 9, 0, 0) /\ py_dur s_2d1w = Raise E_ValueError.
Proof. repeat split; vm_compute; reflexivity. Qed.
