(* Proofs/C08Locale.v — C08: from_format inverts format for LOCALIZED month and weekday names, every shipped locale.
   For each format layout ("YYYY <month> DD", "<weekday> YYYY-MM-DD", "YYYY-MM-DD <weekday>"; wide and abbreviated names) a boolean check
   `chkA` / `chkW` of (locale, table key) is evaluated by the kernel on all 27 locales x 12 months / 7 weekdays (`chk*_all`, vm_compute):
   the pattern that the model assembles for the locale has the expected groups and cannot tell digits apart (`dblind`), the anchored
   search and the re.sub pass on the representative "0000 <name> 00" succeed with the closed-form spans, and the name translates back to
   its key.  `chkA_sound` / `chkB_sound` / `chkC_sound` lift a successful check to EVERY year / month / day by shape invariance of the
   matcher (Proofs/MreShape.v); the rest is the post-match code (`finish*`, `check_parsed_dow`) and the rendering (`format*`).
   Excluded regions, stated in the theorems: month names of ja, ko (and the abbreviations of zh) contain decimal digits, so the
   assembled pattern is not digit-blind there; "YYYY-MM-DD dddd" in tr on a Saturday is the listed finding tr-cumartesi-prefix. *)
From Coq Require Import ZArith List Bool Lia ZifyBool.
From PV Require Import Lib.PyBase Spec.Cal Proofs.CalFacts Model.FormatterBase Gen.FormatterTables Gen.LocaleTables Model.Formatter Model.FormatterParse.
From PV Require Import Proofs.C15Facts Proofs.C08Decimal Proofs.C08Facts Proofs.MreShape Proofs.C08Match.
Import ListNotations.
Ltac Zify.zify_post_hook ::= Z.to_euclidean_division_equations.
Open Scope Z_scope.

(* ------------------------------------------------------------------ decidable equalities for the reflective checks *)
Definition scap_eqb (a b : scap) : bool :=
  str_eqb (fst a) (fst b) && Nat.eqb (fst (snd a)) (fst (snd b)) && Nat.eqb (snd (snd a)) (snd (snd b)).
Fixpoint list_eqb {A} (f : A -> A -> bool) (a b : list A) : bool :=
  match a, b with [], [] => true | x :: a', y :: b' => f x y && list_eqb f a' b' | _, _ => false end.
Lemma list_eqb_eq {A} (f : A -> A -> bool) : (forall x y, f x y = true -> x = y) -> forall a b, list_eqb f a b = true -> a = b.
Proof.
  intros Hf. induction a as [|x a IH]; intros [|y b] H; try discriminate H; [reflexivity|].
  cbn [list_eqb] in H. apply andb_true_iff in H. destruct H as [H1 H2]. f_equal; [apply Hf; exact H1|apply IH; exact H2].
Qed.
Lemma scap_eqb_eq a b : scap_eqb a b = true -> a = b.
Proof.
  destruct a as [n [x y]], b as [n' [x' y']]. unfold scap_eqb. cbn [fst snd]. intros H.
  apply andb_true_iff in H. destruct H as [H H3]. apply andb_true_iff in H. destruct H as [H1 H2].
  apply str_eqb_eq in H1. apply Nat.eqb_eq in H2, H3. subst. reflexivity.
Qed.
Definition matches_eqb (a : option (list scaps)) (b : list scaps) : bool :=
  match a with Some l => list_eqb (list_eqb scap_eqb) l b | None => false end.
Lemma matches_eqb_eq a b : matches_eqb a b = true -> a = Some b.
Proof.
  destruct a as [l|]; [|discriminate]. cbn [matches_eqb]. intros H. f_equal.
  apply (list_eqb_eq _ (list_eqb_eq _ scap_eqb_eq)). exact H.
Qed.
Definition names_eqb (a b : list str) : bool := list_eqb str_eqb a b.
Lemma names_eqb_eq a b : names_eqb a b = true -> a = b.
Proof. apply list_eqb_eq. apply str_eqb_eq. Qed.

(* ------------------------------------------------------------------ reading end-relative spans off a concatenation *)
Lemma sub_at_app (A B : str) sp : (fst sp <= length B)%nat -> sub_at (A ++ B) sp = sub_at B sp.
Proof.
  intros H. unfold sub_at. rewrite app_length. f_equal.
  replace (length A + length B - fst sp)%nat with (length A + (length B - fst sp))%nat by lia.
  rewrite skipn_app. rewrite skipn_all2 by lia. cbn [app]. f_equal. lia.
Qed.
Lemma sub_at_head (B C : str) : sub_at (B ++ C) ((length B + length C)%nat, length B) = B.
Proof.
  unfold sub_at. cbn [fst snd]. rewrite app_length, Nat.sub_diag. cbn [skipn].
  rewrite firstn_app, Nat.sub_diag, firstn_all. cbn [firstn]. apply app_nil_r.
Qed.
Lemma sub_at_prefix (P R : str) k len : (len <= k)%nat -> (k <= length P)%nat ->
  sub_at (P ++ R) ((length R + k)%nat, len) = firstn len (skipn (length P - k) P).
Proof.
  intros H1 H2. unfold sub_at. cbn [fst snd]. rewrite app_length.
  replace (length P + length R - (length R + k))%nat with (length P - k)%nat by lia.
  rewrite skipn_app. replace (length P - k - length P)%nat with 0%nat by lia. cbn [skipn].
  rewrite firstn_app. rewrite skipn_length. replace (len - (length P - (length P - k)))%nat with 0%nat by lia.
  cbn [firstn]. apply app_nil_r.
Qed.

(* ------------------------------------------------------------------ the shipped locales are found by their names *)
Lemma find_locale_shipped L : In L locales -> find_locale (l_name L) = Some L.
Proof.
  unfold locales. cbn [In]. intros H.
  repeat (destruct H as [H|H]; [subst L; vm_compute; reflexivity|]). contradiction.
Qed.

Definition dblind (r : re) : bool := forallb (fun d => simnl r 48 d) [48; 49; 50; 51; 52; 53; 54; 55; 56; 57].
Lemma dblind_sim r d : dblind r = true -> 48 <= d <= 57 -> simR r 48 d.
Proof.
  intros A H. unfold dblind in A. rewrite forallb_forall in A. apply A. cbn [In].
  assert (d = 48 \/ d = 49 \/ d = 50 \/ d = 51 \/ d = 52 \/ d = 53 \/ d = 54 \/ d = 55 \/ d = 56 \/ d = 57) by lia. intuition.
Qed.
Lemma Forall2_sim_refl r (l : str) : Forall2 (simR r) l l.
Proof. induction l; constructor; [apply simnl_refl|assumption]. Qed.
Lemma Forall2_sim_zeros r (l : str) : dblind r = true -> all_digits l -> Forall2 (simR r) (repeat 48 (length l)) l.
Proof.
  intros B D. induction D as [|c l Hc D IH]; [constructor|]. cbn [length repeat]. constructor; [apply dblind_sim; assumption|exact IH].
Qed.

(* ================================================================== layout A:  YYYY <name> DD  (month names) *)
Section LayoutA.
  Variables (tok : str) (tbl : locale_data -> option (list (Z * str))).
  Definition fmtA : str := [89; 89; 89; 89; 32] ++ tok ++ [32; 68; 68].
  Definition repA (name : str) : str := [48; 48; 48; 48; 32] ++ name ++ [32; 48; 48].
  Definition expA (name : str) : scaps :=
    [([68; 68], (2%nat, 2%nat)); (tok, ((length name + 3)%nat, length name)); ([89; 89; 89; 89], ((length name + 3 + 5)%nat, 4%nat))].
  Definition namesA : list str := [[89; 89; 89; 89]; tok; [68; 68]].
  Definition chkA (L : locale_data) (k : Z) : bool :=
    match parse_pattern L fmtA, tbl_get (tbl L) k with
    | Ok (names, r), Ok name =>
        names_eqb names namesA && dblind r && search_anchored r (repA name)
        && matches_eqb (sub_matches_sp (S (length (repA name))) r (repA name)) [expA name]
        && (match match_translation (tbl L) name with Ok (Some k') => k' =? k | _ => false end)
    | _, _ => false
    end.

  Lemma chkA_sound L k name Y D : chkA L k = true -> tbl_get (tbl L) k = Ok name ->
    all_digits Y -> length Y = 4%nat -> all_digits D -> length D = 2%nat ->
    let s := Y ++ [32] ++ name ++ [32] ++ D in
    exists r, parse_pattern L fmtA = Ok (namesA, r) /\ search_anchored r s = true /\
              sub_matches (S (length s)) r s = Some [[([68; 68], D); (tok, name); ([89; 89; 89; 89], Y)]] /\
              match_translation (tbl L) name = Ok (Some k).
  Proof.
    intros C Hn DY LY DD LD s. unfold chkA in C. rewrite Hn in C.
    destruct (parse_pattern L fmtA) as [[names r]|]; [|discriminate C].
    apply andb_true_iff in C. destruct C as [C C5]. apply andb_true_iff in C. destruct C as [C C4].
    apply andb_true_iff in C. destruct C as [C C3]. apply andb_true_iff in C. destruct C as [C1 C2].
    apply names_eqb_eq in C1. subst names. apply matches_eqb_eq in C4.
    exists r. split; [reflexivity|].
    assert (F : Forall2 (simR r) (repA name) s).
    { unfold repA, s. change [48; 48; 48; 48; 32] with (repeat 48 4 ++ [32]). rewrite <- LY.
      change [32; 48; 48] with ([32] ++ repeat 48 2). rewrite <- LD. rewrite <- !app_assoc.
      apply Forall2_app; [apply Forall2_sim_zeros; assumption|]. apply Forall2_app; [apply Forall2_sim_refl|].
      apply Forall2_app; [apply Forall2_sim_refl|]. apply Forall2_app; [apply Forall2_sim_refl|]. apply Forall2_sim_zeros; assumption. }
    split; [rewrite (search_anchored_shape _ _ _ F); exact C3|]. split.
    - rewrite (sub_matches_shape r _ _ _ F).
      assert (Ls : length s = length (repA name)) by (symmetry; apply (Forall2_len (simR r)); exact F).
      rewrite Ls, C4. cbn [option_map map]. f_equal. f_equal. unfold expA, tx. cbn [map fst snd]. unfold s.
      f_equal; [|f_equal; [|f_equal]]; f_equal.
      + rewrite !app_assoc. rewrite sub_at_app by (cbn [fst]; lia).
        unfold sub_at. cbn [fst snd]. rewrite LD. cbn [Nat.sub skipn]. rewrite <- LD. apply firstn_all.
      + rewrite app_assoc. rewrite sub_at_app by (cbn [fst]; rewrite !app_length; cbn [length]; lia).
        replace (Nat.add (length name) 3) with (Nat.add (length name) (length ([32] ++ D))) by (rewrite app_length; cbn [length]; lia).
        apply sub_at_head.
      + replace (Y ++ [32] ++ name ++ [32] ++ D) with ((Y ++ [32]) ++ (name ++ [32] ++ D)) by (rewrite <- app_assoc; reflexivity).
        replace (Nat.add (length name) 3) with (length (name ++ [32] ++ D)) by (rewrite !app_length; cbn [length]; lia).
        rewrite sub_at_prefix by (rewrite ?app_length; cbn [length]; lia).
        rewrite app_length, LY. cbn [length Nat.add Nat.sub skipn]. rewrite <- LY at 1. rewrite firstn_app, Nat.sub_diag, firstn_all. cbn [firstn]. apply app_nil_r.
    - destruct (match_translation (tbl L) name) as [[k'|]|]; try discriminate C5. apply Z.eqb_eq in C5. subst. reflexivity.
  Qed.
End LayoutA.

(* ---- the two month tokens *)
Definition months12 : list Z := [1; 2; 3; 4; 5; 6; 7; 8; 9; 10; 11; 12].
Definition name_in (n : str) (l : list str) : bool := existsb (str_eqb n) l.
(* locales whose month names contain decimal digits (the assembled pattern then tells digits apart): ja, ko; and zh for the abbreviations *)
Definition digit_months_wide : list str := [[106; 97]; [107; 111]].
Definition digit_months_abbr : list str := [[106; 97]; [107; 111]; [122; 104]].

Lemma chkA_MMMM_all :
  forallb (fun L => name_in (l_name L) digit_months_wide || forallb (chkA T_MMMM l_months_wide L) months12) locales = true.
Proof. vm_compute. reflexivity. Qed.
Lemma chkA_MMM_all :
  forallb (fun L => name_in (l_name L) digit_months_abbr || forallb (chkA T_MMM l_months_abbr L) months12) locales = true.
Proof. vm_compute. reflexivity. Qed.

Lemma months12_in k : 1 <= k <= 12 -> In k months12.
Proof. intros H. unfold months12. cbn [In]. lia. Qed.

Lemma formatA_MMMM L t name : tbl_get (l_months_wide L) (t_month t) = Ok name -> 1000 <= t_year t <= 9999 ->
  format_loc 4 L t (fmtA T_MMMM) = Ok (render_0wd 4 (t_year t) ++ [32] ++ name ++ [32] ++ render_0wd 2 (t_day t)).
Proof.
  intros Hn Hy. unfold fmtA, T_MMMM. cbn [app format_loc length]. compute_tokenize. cbn [render_pieces bind].
  rewrite (tok_YYYY_4 _ _ _ Hy). cbn [bind]. change [77; 77; 77; 77] with T_MMMM. rewrite tok_MMMM, Hn. cbn [bind].
  rewrite tok_DD. cbn [bind]. rewrite ?app_nil_r. reflexivity.
Qed.

Lemma chkA_name tok tbl L k : chkA tok tbl L k = true -> exists name, tbl_get (tbl L) k = Ok name.
Proof. unfold chkA. destruct (parse_pattern L (fmtA tok)) as [[? ?]|]; [|discriminate]. destruct (tbl_get (tbl L) k); [eauto|discriminate]. Qed.

Lemma fmtA_MMMM_tokens : forallb (fun p => match p with FLit _ => true | _ => false end)
  (ff_tokenize (S (length (re_escape (fmtA T_MMMM)))) [] (re_escape (fmtA T_MMMM))) = false.
Proof. vm_compute. reflexivity. Qed.
Lemma fmtA_MMM_tokens : forallb (fun p => match p with FLit _ => true | _ => false end)
  (ff_tokenize (S (length (re_escape (fmtA T_MMM)))) [] (re_escape (fmtA T_MMM))) = false.
Proof. vm_compute. reflexivity. Qed.

Ltac gpv_step :=
  cbn [get_parsed_values assoc str_eqb Z.eqb Pos.eqb andb T_MMMM T_MMM T_dddd T_ddd]; closed_existsb; cbv iota.

Lemma finishA_MMMM rs zones now L name k y d : match_translation (l_months_wide L) name = Ok (Some k) -> 0 <= y -> 0 <= d ->
  parse_finish rs zones L (namesA T_MMMM) [[([68; 68], render_0wd 2 d); (T_MMMM, name); ([89; 89; 89; 89], render_0wd 4 y)]] now =
  Ok (y, k, d, 0, 0, 0, 0, None).
Proof.
  intros Ht Hy Hd. unfold parse_finish, namesA. cbn [fold_matches]. gpv_step.
  rewrite parsed_YYYY by lia. cbn [bind]. gpv_step.
  unfold get_parsed_locale_value. cbn [str_eqb Z.eqb Pos.eqb andb T_MMMM]. rewrite Ht. cbn [bind]. gpv_step.
  rewrite parsed_DD by lia. cbn [bind get_parsed_values]. reflexivity.
Qed.

Lemma chkA_MMMM_use L k : In L locales -> name_in (l_name L) digit_months_wide = false -> 1 <= k <= 12 ->
  chkA T_MMMM l_months_wide L k = true.
Proof.
  intros HL Hex Hk. pose proof (proj1 (forallb_forall _ _) chkA_MMMM_all L HL) as A. cbv beta in A.
  apply orb_true_iff in A. destruct A as [A|A]; [congruence|].
  exact (proj1 (forallb_forall _ _) A k (months12_in _ Hk)).
Qed.

Theorem from_format_inverts_month_wide rs zones now L t :
  In L locales -> name_in (l_name L) digit_months_wide = false ->
  1 <= t_month t <= 12 -> 1000 <= t_year t <= 9999 -> 0 <= t_day t < 100 ->
  bind (format (l_name L) t (fmtA T_MMMM)) (fun s => parse rs zones (l_name L) now s (fmtA T_MMMM)) =
  Ok (t_year t, t_month t, t_day t, 0, 0, 0, 0, None).
Proof.
  intros HL Hex Hm Hy Hd.
  pose proof (chkA_MMMM_use L (t_month t) HL Hex Hm) as A.
  destruct (chkA_name _ _ _ _ A) as [name Hn].
  pose proof (field_digits 4 (t_year t) ltac:(lia) ltac:(cbn; lia)) as [DY LY].
  pose proof (field_digits 2 (t_day t) ltac:(lia) ltac:(cbn; lia)) as [DD LD].
  change (Z.of_nat 4) with 4 in DY, LY. change (Z.of_nat 2) with 2 in DD, LD.
  destruct (chkA_sound T_MMMM l_months_wide L (t_month t) name _ _ A Hn DY LY DD LD) as (r & Hp & Hs & Hsub & Ht).
  assert (E1 : format (l_name L) t (fmtA T_MMMM) = Ok (render_0wd 4 (t_year t) ++ [32] ++ name ++ [32] ++ render_0wd 2 (t_day t))).
  { unfold format. rewrite (find_locale_shipped L HL). apply formatA_MMMM; assumption. }
  rewrite E1. cbn [bind].
  assert (E2 := parse_match_ok rs zones (l_name L) L now _ _ _ r _ (find_locale_shipped L HL) fmtA_MMMM_tokens Hp eq_refl Hs Hsub).
  rewrite E2.
  apply finishA_MMMM; [exact Ht|lia|lia].
Qed.

Lemma chkA_MMM_use L k : In L locales -> name_in (l_name L) digit_months_abbr = false -> 1 <= k <= 12 ->
  chkA T_MMM l_months_abbr L k = true.
Proof.
  intros HL Hex Hk. pose proof (proj1 (forallb_forall _ _) chkA_MMM_all L HL) as A. cbv beta in A.
  apply orb_true_iff in A. destruct A as [A|A]; [congruence|].
  exact (proj1 (forallb_forall _ _) A k (months12_in _ Hk)).
Qed.

Lemma formatA_MMM L t name : tbl_get (l_months_abbr L) (t_month t) = Ok name -> 1000 <= t_year t <= 9999 ->
  format_loc 4 L t (fmtA T_MMM) = Ok (render_0wd 4 (t_year t) ++ [32] ++ name ++ [32] ++ render_0wd 2 (t_day t)).
Proof.
  intros Hn Hy. unfold fmtA, T_MMM. cbn [app format_loc length]. compute_tokenize. cbn [render_pieces bind].
  rewrite (tok_YYYY_4 _ _ _ Hy). cbn [bind]. change [77; 77; 77] with T_MMM. rewrite tok_MMM, Hn. cbn [bind].
  rewrite tok_DD. cbn [bind]. rewrite ?app_nil_r. reflexivity.
Qed.

Lemma finishA_MMM rs zones now L name k y d : match_translation (l_months_abbr L) name = Ok (Some k) -> 0 <= y -> 0 <= d ->
  parse_finish rs zones L (namesA T_MMM) [[([68; 68], render_0wd 2 d); (T_MMM, name); ([89; 89; 89; 89], render_0wd 4 y)]] now =
  Ok (y, k, d, 0, 0, 0, 0, None).
Proof.
  intros Ht Hy Hd. unfold parse_finish, namesA. cbn [fold_matches]. gpv_step.
  rewrite parsed_YYYY by lia. cbn [bind]. gpv_step.
  unfold get_parsed_locale_value. cbn [str_eqb Z.eqb Pos.eqb andb T_MMMM T_MMM]. rewrite Ht. cbn [bind]. gpv_step.
  rewrite parsed_DD by lia. cbn [bind get_parsed_values]. reflexivity.
Qed.

Theorem from_format_inverts_month_abbr rs zones now L t :
  In L locales -> name_in (l_name L) digit_months_abbr = false ->
  1 <= t_month t <= 12 -> 1000 <= t_year t <= 9999 -> 0 <= t_day t < 100 ->
  bind (format (l_name L) t (fmtA T_MMM)) (fun s => parse rs zones (l_name L) now s (fmtA T_MMM)) =
  Ok (t_year t, t_month t, t_day t, 0, 0, 0, 0, None).
Proof.
  intros HL Hex Hm Hy Hd.
  pose proof (chkA_MMM_use L (t_month t) HL Hex Hm) as A.
  destruct (chkA_name _ _ _ _ A) as [name Hn].
  pose proof (field_digits 4 (t_year t) ltac:(lia) ltac:(cbn; lia)) as [DY LY].
  pose proof (field_digits 2 (t_day t) ltac:(lia) ltac:(cbn; lia)) as [DD LD].
  change (Z.of_nat 4) with 4 in DY, LY. change (Z.of_nat 2) with 2 in DD, LD.
  destruct (chkA_sound T_MMM l_months_abbr L (t_month t) name _ _ A Hn DY LY DD LD) as (r & Hp & Hs & Hsub & Ht).
  assert (E1 : format (l_name L) t (fmtA T_MMM) = Ok (render_0wd 4 (t_year t) ++ [32] ++ name ++ [32] ++ render_0wd 2 (t_day t))).
  { unfold format. rewrite (find_locale_shipped L HL). apply formatA_MMM; assumption. }
  rewrite E1. cbn [bind].
  assert (E2 := parse_match_ok rs zones (l_name L) L now _ _ _ r _ (find_locale_shipped L HL) fmtA_MMM_tokens Hp eq_refl Hs Hsub).
  rewrite E2. apply finishA_MMM; [exact Ht|lia|lia].
Qed.

(* ================================================================== weekday names *)
(* the date part YYYY-MM-DD as three digit fields *)
Definition ymd_text (Y M D : str) : str := Y ++ [45] ++ M ++ [45] ++ D.
Definition ymd_zero : str := [48; 48; 48; 48; 45; 48; 48; 45; 48; 48].

Lemma ymd_sim r Y M D : dblind r = true -> all_digits Y -> length Y = 4%nat -> all_digits M -> length M = 2%nat ->
  all_digits D -> length D = 2%nat -> Forall2 (simR r) ymd_zero (ymd_text Y M D).
Proof.
  intros B DY LY DM LM DD LD. unfold ymd_zero, ymd_text.
  change [48; 48; 48; 48; 45; 48; 48; 45; 48; 48] with (repeat 48 4 ++ [45] ++ repeat 48 2 ++ [45] ++ repeat 48 2).
  rewrite <- LY. rewrite <- LM at 1. rewrite <- LD.
  repeat (apply Forall2_app; [first [apply Forall2_sim_zeros; assumption | apply Forall2_sim_refl]|]). apply Forall2_sim_zeros; assumption.
Qed.
Lemma ymd_len Y M D : length Y = 4%nat -> length M = 2%nat -> length D = 2%nat -> length (ymd_text Y M D) = 10%nat.
Proof. intros. unfold ymd_text. rewrite !app_length. cbn [length]. lia. Qed.

(* end-relative spans inside the date text *)
Lemma ymd_sub_D Y M D : length D = 2%nat -> sub_at (ymd_text Y M D) (2%nat, 2%nat) = D.
Proof.
  intros LD. unfold ymd_text. rewrite !app_assoc. rewrite sub_at_app by (cbn [fst]; lia).
  unfold sub_at. cbn [fst snd]. rewrite LD. cbn [Nat.sub skipn]. rewrite <- LD. apply firstn_all.
Qed.
Lemma ymd_sub_M Y M D : length M = 2%nat -> length D = 2%nat -> sub_at (ymd_text Y M D) (5%nat, 2%nat) = M.
Proof.
  intros LM LD. unfold ymd_text. replace (Y ++ [45] ++ M ++ [45] ++ D) with ((Y ++ [45]) ++ (M ++ [45] ++ D)) by (rewrite <- app_assoc; reflexivity).
  rewrite sub_at_app by (cbn [fst]; rewrite !app_length; cbn [length]; lia).
  replace 5%nat with (Nat.add (length M) (length ([45] ++ D))) by (rewrite app_length; cbn [length]; lia).
  rewrite <- LM. apply sub_at_head.
Qed.
Lemma ymd_sub_Y Y M D : length Y = 4%nat -> length M = 2%nat -> length D = 2%nat -> sub_at (ymd_text Y M D) (10%nat, 4%nat) = Y.
Proof.
  intros LY LM LD. unfold ymd_text.
  replace 10%nat with (Nat.add (length Y) (length ([45] ++ M ++ [45] ++ D))) by (rewrite !app_length; cbn [length]; lia).
  rewrite <- LY. apply sub_at_head.
Qed.

Section Weekdays.
  Variables (tok : str) (tbl : locale_data -> option (list (Z * str))).

  (* layout B: <name> YYYY-MM-DD *)
  Definition fmtB : str := tok ++ [32; 89; 89; 89; 89; 45; 77; 77; 45; 68; 68].
  Definition repB (name : str) : str := name ++ [32] ++ ymd_zero.
  Definition expB (name : str) : scaps :=
    [([68; 68], (2%nat, 2%nat)); ([77; 77], (5%nat, 2%nat)); ([89; 89; 89; 89], (10%nat, 4%nat)); (tok, ((length name + 11)%nat, length name))].
  Definition namesB : list str := [tok; [89; 89; 89; 89]; [77; 77]; [68; 68]].
  (* layout C: YYYY-MM-DD <name> *)
  Definition fmtC : str := [89; 89; 89; 89; 45; 77; 77; 45; 68; 68; 32] ++ tok.
  Definition repC (name : str) : str := ymd_zero ++ [32] ++ name.
  Definition expC (name : str) : scaps :=
    [(tok, (length name, length name)); ([68; 68], ((length name + 1 + 2)%nat, 2%nat)); ([77; 77], ((length name + 1 + 5)%nat, 2%nat));
     ([89; 89; 89; 89], ((length name + 1 + 10)%nat, 4%nat))].
  Definition namesC : list str := [[89; 89; 89; 89]; [77; 77]; [68; 68]; tok].

  Definition chkW (fmt : str) (rep : str -> str) (exp : str -> scaps) (names0 : list str) (L : locale_data) (k : Z) : bool :=
    match parse_pattern L fmt, tbl_get (tbl L) k with
    | Ok (names, r), Ok name =>
        names_eqb names names0 && dblind r && search_anchored r (rep name)
        && matches_eqb (sub_matches_sp (S (length (rep name))) r (rep name)) [exp name]
        && (match match_translation (tbl L) name with Ok (Some k') => k' =? k | _ => false end)
    | _, _ => false
    end.

  Lemma chkW_parts fmt rep exp names0 L k name : chkW fmt rep exp names0 L k = true -> tbl_get (tbl L) k = Ok name ->
    exists r, parse_pattern L fmt = Ok (names0, r) /\ dblind r = true /\ search_anchored r (rep name) = true /\
              sub_matches_sp (S (length (rep name))) r (rep name) = Some [exp name] /\ match_translation (tbl L) name = Ok (Some k).
  Proof.
    intros C Hn. unfold chkW in C. rewrite Hn in C. destruct (parse_pattern L fmt) as [[names r]|]; [|discriminate C].
    apply andb_true_iff in C. destruct C as [C C5]. apply andb_true_iff in C. destruct C as [C C4].
    apply andb_true_iff in C. destruct C as [C C3]. apply andb_true_iff in C. destruct C as [C1 C2].
    apply names_eqb_eq in C1. subst names. apply matches_eqb_eq in C4. exists r. repeat split; try assumption.
    destruct (match_translation (tbl L) name) as [[k'|]|]; try discriminate C5. apply Z.eqb_eq in C5. subst. reflexivity.
  Qed.
  Lemma chkW_name fmt rep exp names0 L k : chkW fmt rep exp names0 L k = true -> exists name, tbl_get (tbl L) k = Ok name.
  Proof. unfold chkW. destruct (parse_pattern L fmt) as [[? ?]|]; [|discriminate]. destruct (tbl_get (tbl L) k); [eauto|discriminate]. Qed.

  Lemma chkB_sound L k name Y M D : chkW fmtB repB expB namesB L k = true -> tbl_get (tbl L) k = Ok name ->
    all_digits Y -> length Y = 4%nat -> all_digits M -> length M = 2%nat -> all_digits D -> length D = 2%nat ->
    let s := name ++ [32] ++ ymd_text Y M D in
    exists r, parse_pattern L fmtB = Ok (namesB, r) /\ search_anchored r s = true /\
              sub_matches (S (length s)) r s = Some [[([68; 68], D); ([77; 77], M); ([89; 89; 89; 89], Y); (tok, name)]] /\
              match_translation (tbl L) name = Ok (Some k).
  Proof.
    intros C Hn DY LY DM LM DD LD s. destruct (chkW_parts _ _ _ _ L k name C Hn) as (r & Hp & Hb & Hs & Hm & Ht).
    exists r. split; [exact Hp|].
    assert (F : Forall2 (simR r) (repB name) s).
    { unfold repB, s. apply Forall2_app; [apply Forall2_sim_refl|]. apply Forall2_app; [apply Forall2_sim_refl|]. apply ymd_sim; assumption. }
    split; [rewrite (search_anchored_shape _ _ _ F); exact Hs|]. split; [|exact Ht].
    rewrite (sub_matches_shape r _ _ _ F).
    assert (Ls : length s = length (repB name)) by (symmetry; apply (Forall2_len (simR r)); exact F).
    rewrite Ls, Hm. cbn [option_map map]. f_equal. f_equal. unfold expB, tx. cbn [map fst snd]. unfold s.
    pose proof (ymd_len Y M D LY LM LD) as L10.
    f_equal; [|f_equal; [|f_equal; [|f_equal]]]; f_equal.
    - rewrite !app_assoc. rewrite sub_at_app by (cbn [fst]; lia). apply ymd_sub_D; assumption.
    - rewrite !app_assoc. rewrite sub_at_app by (cbn [fst]; lia). apply ymd_sub_M; assumption.
    - rewrite !app_assoc. rewrite sub_at_app by (cbn [fst]; lia). apply ymd_sub_Y; assumption.
    - replace (Nat.add (length name) 11) with (Nat.add (length name) (length ([32] ++ ymd_text Y M D))) by (rewrite app_length, L10; reflexivity).
      apply sub_at_head.
  Qed.

  Lemma chkC_sound L k name Y M D : chkW fmtC repC expC namesC L k = true -> tbl_get (tbl L) k = Ok name ->
    all_digits Y -> length Y = 4%nat -> all_digits M -> length M = 2%nat -> all_digits D -> length D = 2%nat ->
    let s := ymd_text Y M D ++ [32] ++ name in
    exists r, parse_pattern L fmtC = Ok (namesC, r) /\ search_anchored r s = true /\
              sub_matches (S (length s)) r s = Some [[(tok, name); ([68; 68], D); ([77; 77], M); ([89; 89; 89; 89], Y)]] /\
              match_translation (tbl L) name = Ok (Some k).
  Proof.
    intros C Hn DY LY DM LM DD LD s. destruct (chkW_parts _ _ _ _ L k name C Hn) as (r & Hp & Hb & Hs & Hm & Ht).
    exists r. split; [exact Hp|].
    assert (F : Forall2 (simR r) (repC name) s).
    { unfold repC, s. apply Forall2_app; [apply ymd_sim; assumption|]. apply Forall2_app; apply Forall2_sim_refl. }
    split; [rewrite (search_anchored_shape _ _ _ F); exact Hs|]. split; [|exact Ht].
    rewrite (sub_matches_shape r _ _ _ F).
    assert (Ls : length s = length (repC name)) by (symmetry; apply (Forall2_len (simR r)); exact F).
    rewrite Ls, Hm. cbn [option_map map]. f_equal. f_equal. unfold expC, tx. cbn [map fst snd]. unfold s.
    pose proof (ymd_len Y M D LY LM LD) as L10.
    assert (Pre : forall k len, (len <= k)%nat -> (k <= 10)%nat ->
              sub_at (ymd_text Y M D ++ [32] ++ name) (Nat.add (Nat.add (length name) 1) k, len) = sub_at (ymd_text Y M D) (k, len)).
    { intros k0 len H1 H2. replace (Nat.add (Nat.add (length name) 1) k0) with (Nat.add (length ([32] ++ name)) k0) by (rewrite app_length; cbn [length]; lia).
      rewrite sub_at_prefix by lia. unfold sub_at. cbn [fst snd]. reflexivity. }
    f_equal; [|f_equal; [|f_equal; [|f_equal]]]; f_equal.
    - rewrite app_assoc. rewrite sub_at_app by (cbn [fst]; lia). unfold sub_at. cbn [fst snd]. rewrite Nat.sub_diag. apply firstn_all.
    - rewrite Pre by lia. apply ymd_sub_D; assumption.
    - rewrite Pre by lia. apply ymd_sub_M; assumption.
    - rewrite Pre by lia. apply ymd_sub_Y; assumption.
  Qed.
End Weekdays.

Definition days7 : list Z := [0; 1; 2; 3; 4; 5; 6].
Lemma days7_in k : 0 <= k <= 6 -> In k days7.
Proof. intros H. unfold days7. cbn [In]. lia. Qed.
Definition tr_name : str := [116; 114].

Lemma chkB_dddd_all : forallb (fun L => forallb (chkW l_days_wide (fmtB T_dddd) repB (expB T_dddd) (namesB T_dddd) L) days7) locales = true.
Proof. vm_compute. reflexivity. Qed.
Lemma chkB_ddd_all : forallb (fun L => forallb (chkW l_days_abbr (fmtB T_ddd) repB (expB T_ddd) (namesB T_ddd) L) days7) locales = true.
Proof. vm_compute. reflexivity. Qed.
Lemma chkC_ddd_all : forallb (fun L => forallb (chkW l_days_abbr (fmtC T_ddd) repC (expC T_ddd) (namesC T_ddd) L) days7) locales = true.
Proof. vm_compute. reflexivity. Qed.
(* name last, wide names: everything but the listed finding tr-cumartesi-prefix (tr, Saturday = key 5) *)
Lemma chkC_dddd_all :
  forallb (fun L => forallb (fun k => (str_eqb (l_name L) tr_name && (k =? 5)) || chkW l_days_wide (fmtC T_dddd) repC (expC T_dddd) (namesC T_dddd) L k) days7) locales = true.
Proof. vm_compute. reflexivity. Qed.
(* and the listed finding itself, in the model: the re.sub pass stops at the prefix "Cuma" of "Cumartesi" *)
Lemma chkC_dddd_tr_saturday : exists L, In L locales /\ l_name L = tr_name /\ chkW l_days_wide (fmtC T_dddd) repC (expC T_dddd) (namesC T_dddd) L 5 = false.
Proof. exists loc_tr. split; [unfold locales; cbn [In]; tauto|]. split; vm_compute; reflexivity. Qed.

Lemma ymd2ord_range y m d : date_ok y m d = true -> 1 <= ymd2ord y m d <= 3652059.
Proof.
  unfold date_ok. intros H. apply andb_true_iff in H. destruct H as [H V]. apply andb_true_iff in H. destruct H as [H1 H2].
  pose proof (yday_bounds y m d V) as B. pose proof (ymd2ord_jan1 y) as J.
  assert (E : ymd2ord y m d = ymd2ord y 1 1 + (days_before_month y m + d) - 1) by (rewrite J; unfold ymd2ord; lia).
  pose proof (days_before_year_succ y) as S1. pose proof (days_before_year_mono (y + 1) 10000 ltac:(lia)) as M1.
  pose proof (days_before_year_mono 1 y ltac:(lia)) as M0.
  change (days_before_year 10000) with 3652059 in M1. change (days_before_year 1) with 0 in M0. lia.
Qed.

Lemma check_parsed_dow rs y m d now : date_ok y m d = true ->
  check_parsed rs (mkparsed (Some y) (Some m) (Some d) None None None None None None (Some (weekday0 (ymd2ord y m d))) None None None) now =
  Ok (y, m, d, 0, 0, 0, 0, None).
Proof.
  intros V. pose proof (ymd2ord_range y m d V) as R.
  assert (Vb : valid_dateb y m d = true) by (unfold date_ok in V; apply andb_true_iff in V; tauto).
  pose proof (proj1 (valid_dateb_true y m d) Vb) as [Bm Bd].
  unfold check_parsed. cbn [p_ts]. unfold check_parsed_fields. cbn [p_quarter p_year p_month p_day p_doy p_dow p_pm p_hour p_minute p_second p_micro p_tz p_ts bind].
  unfold or_else. replace (m =? 0) with false by lia. replace (d =? 0) with false by lia. rewrite V. cbn [negb].
  set (n := ymd2ord y m d) in *. unfold weekday0.
  replace (((n + 6) mod 7 <? 0) || (6 <? (n + 6) mod 7)) with false by lia.
  replace (n - (n + 6) mod 7 + (n + 6) mod 7) with n by lia.
  replace ((n <? 1) || (3652059 <? n)) with false by lia.
  unfold n. rewrite (ord2ymd_ymd2ord y m d Vb). cbn [bind]. reflexivity.
Qed.

(* ---- rendering of the four weekday formats *)
Lemma formatB_dddd L t name : tbl_get (l_days_wide L) (weekday0 (ymd2ord (t_year t) (t_month t) (t_day t))) = Ok name -> 1000 <= t_year t <= 9999 ->
  format_loc 4 L t (fmtB T_dddd) = Ok (name ++ [32] ++ ymd_text (render_0wd 4 (t_year t)) (render_0wd 2 (t_month t)) (render_0wd 2 (t_day t))).
Proof.
  intros Hn Hy. unfold fmtB, T_dddd, ymd_text. cbn [app format_loc length]. compute_tokenize. cbn [render_pieces bind].
  change [100; 100; 100; 100] with T_dddd. rewrite tok_dddd. unfold ordn. rewrite Hn. cbn [bind].
  rewrite (tok_YYYY_4 _ _ _ Hy). cbn [bind]. rewrite tok_MM. cbn [bind]. rewrite tok_DD. cbn [bind]. rewrite ?app_nil_r. reflexivity.
Qed.
Lemma formatB_ddd L t name : tbl_get (l_days_abbr L) (weekday0 (ymd2ord (t_year t) (t_month t) (t_day t))) = Ok name -> 1000 <= t_year t <= 9999 ->
  format_loc 4 L t (fmtB T_ddd) = Ok (name ++ [32] ++ ymd_text (render_0wd 4 (t_year t)) (render_0wd 2 (t_month t)) (render_0wd 2 (t_day t))).
Proof.
  intros Hn Hy. unfold fmtB, T_ddd, ymd_text. cbn [app format_loc length]. compute_tokenize. cbn [render_pieces bind].
  change [100; 100; 100] with T_ddd. rewrite tok_ddd. unfold ordn. rewrite Hn. cbn [bind].
  rewrite (tok_YYYY_4 _ _ _ Hy). cbn [bind]. rewrite tok_MM. cbn [bind]. rewrite tok_DD. cbn [bind]. rewrite ?app_nil_r. reflexivity.
Qed.
Lemma formatC_dddd L t name : tbl_get (l_days_wide L) (weekday0 (ymd2ord (t_year t) (t_month t) (t_day t))) = Ok name -> 1000 <= t_year t <= 9999 ->
  format_loc 4 L t (fmtC T_dddd) = Ok (ymd_text (render_0wd 4 (t_year t)) (render_0wd 2 (t_month t)) (render_0wd 2 (t_day t)) ++ [32] ++ name).
Proof.
  intros Hn Hy. unfold fmtC, T_dddd, ymd_text. cbn [app format_loc length]. compute_tokenize. cbn [render_pieces bind].
  rewrite (tok_YYYY_4 _ _ _ Hy). cbn [bind]. rewrite tok_MM. cbn [bind]. rewrite tok_DD. cbn [bind].
  change [100; 100; 100; 100] with T_dddd. rewrite tok_dddd. unfold ordn. rewrite Hn. cbn [bind]. rewrite ?app_nil_r. f_equal. repeat (progress (repeat rewrite <- app_assoc; cbn [app])). reflexivity.
Qed.
Lemma formatC_ddd L t name : tbl_get (l_days_abbr L) (weekday0 (ymd2ord (t_year t) (t_month t) (t_day t))) = Ok name -> 1000 <= t_year t <= 9999 ->
  format_loc 4 L t (fmtC T_ddd) = Ok (ymd_text (render_0wd 4 (t_year t)) (render_0wd 2 (t_month t)) (render_0wd 2 (t_day t)) ++ [32] ++ name).
Proof.
  intros Hn Hy. unfold fmtC, T_ddd, ymd_text. cbn [app format_loc length]. compute_tokenize. cbn [render_pieces bind].
  rewrite (tok_YYYY_4 _ _ _ Hy). cbn [bind]. rewrite tok_MM. cbn [bind]. rewrite tok_DD. cbn [bind].
  change [100; 100; 100] with T_ddd. rewrite tok_ddd. unfold ordn. rewrite Hn. cbn [bind]. rewrite ?app_nil_r. f_equal. repeat (progress (repeat rewrite <- app_assoc; cbn [app])). reflexivity.
Qed.


Lemma tokensB_dddd : forallb (fun p => match p with FLit _ => true | _ => false end)
  (ff_tokenize (S (length (re_escape (fmtB T_dddd)))) [] (re_escape (fmtB T_dddd))) = false. Proof. vm_compute. reflexivity. Qed.
Lemma tokensB_ddd : forallb (fun p => match p with FLit _ => true | _ => false end)
  (ff_tokenize (S (length (re_escape (fmtB T_ddd)))) [] (re_escape (fmtB T_ddd))) = false. Proof. vm_compute. reflexivity. Qed.
Lemma tokensC_dddd : forallb (fun p => match p with FLit _ => true | _ => false end)
  (ff_tokenize (S (length (re_escape (fmtC T_dddd)))) [] (re_escape (fmtC T_dddd))) = false. Proof. vm_compute. reflexivity. Qed.
Lemma tokensC_ddd : forallb (fun p => match p with FLit _ => true | _ => false end)
  (ff_tokenize (S (length (re_escape (fmtC T_ddd)))) [] (re_escape (fmtC T_ddd))) = false. Proof. vm_compute. reflexivity. Qed.

Ltac finish_dow Ht :=
  unfold parse_finish, namesB, namesC; cbn [fold_matches]; gpv_step;
  repeat first [ rewrite parsed_YYYY by lia; cbn [bind]; gpv_step
               | rewrite parsed_MM by lia; cbn [bind]; gpv_step
               | rewrite parsed_DD by lia; cbn [bind]; gpv_step
               | progress (unfold get_parsed_locale_value; cbn [str_eqb Z.eqb Pos.eqb andb T_MMMM T_MMM T_Do T_dddd T_ddd]; rewrite Ht; cbn [bind]; gpv_step) ];
  cbn [bind get_parsed_values set_year set_month set_day set_dow p_year p_month p_day p_hour p_minute p_second p_micro p_tz p_quarter p_dow p_doy p_pm p_ts parsed0].

Lemma finishB_dddd rs zones now L name y m d : date_ok y m d = true ->
  match_translation (l_days_wide L) name = Ok (Some (weekday0 (ymd2ord y m d))) ->
  parse_finish rs zones L (namesB T_dddd) [[([68; 68], render_0wd 2 d); ([77; 77], render_0wd 2 m); ([89; 89; 89; 89], render_0wd 4 y); (T_dddd, name)]] now =
  Ok (y, m, d, 0, 0, 0, 0, None).
Proof.
  intros V Ht. assert (B : 1 <= y /\ 1 <= m /\ 1 <= d).
  { unfold date_ok in V. apply andb_true_iff in V. destruct V as [V Vb]. pose proof (proj1 (valid_dateb_true y m d) Vb). lia. }
  finish_dow Ht. apply check_parsed_dow. exact V.
Qed.
Lemma finishB_ddd rs zones now L name y m d : date_ok y m d = true ->
  match_translation (l_days_abbr L) name = Ok (Some (weekday0 (ymd2ord y m d))) ->
  parse_finish rs zones L (namesB T_ddd) [[([68; 68], render_0wd 2 d); ([77; 77], render_0wd 2 m); ([89; 89; 89; 89], render_0wd 4 y); (T_ddd, name)]] now =
  Ok (y, m, d, 0, 0, 0, 0, None).
Proof.
  intros V Ht. assert (B : 1 <= y /\ 1 <= m /\ 1 <= d).
  { unfold date_ok in V. apply andb_true_iff in V. destruct V as [V Vb]. pose proof (proj1 (valid_dateb_true y m d) Vb). lia. }
  finish_dow Ht. apply check_parsed_dow. exact V.
Qed.
Lemma finishC_dddd rs zones now L name y m d : date_ok y m d = true ->
  match_translation (l_days_wide L) name = Ok (Some (weekday0 (ymd2ord y m d))) ->
  parse_finish rs zones L (namesC T_dddd) [[(T_dddd, name); ([68; 68], render_0wd 2 d); ([77; 77], render_0wd 2 m); ([89; 89; 89; 89], render_0wd 4 y)]] now =
  Ok (y, m, d, 0, 0, 0, 0, None).
Proof.
  intros V Ht. assert (B : 1 <= y /\ 1 <= m /\ 1 <= d).
  { unfold date_ok in V. apply andb_true_iff in V. destruct V as [V Vb]. pose proof (proj1 (valid_dateb_true y m d) Vb). lia. }
  finish_dow Ht. apply check_parsed_dow. exact V.
Qed.
Lemma finishC_ddd rs zones now L name y m d : date_ok y m d = true ->
  match_translation (l_days_abbr L) name = Ok (Some (weekday0 (ymd2ord y m d))) ->
  parse_finish rs zones L (namesC T_ddd) [[(T_ddd, name); ([68; 68], render_0wd 2 d); ([77; 77], render_0wd 2 m); ([89; 89; 89; 89], render_0wd 4 y)]] now =
  Ok (y, m, d, 0, 0, 0, 0, None).
Proof.
  intros V Ht. assert (B : 1 <= y /\ 1 <= m /\ 1 <= d).
  { unfold date_ok in V. apply andb_true_iff in V. destruct V as [V Vb]. pose proof (proj1 (valid_dateb_true y m d) Vb). lia. }
  finish_dow Ht. apply check_parsed_dow. exact V.
Qed.

Definition wd_of (t : pdt) : Z := weekday0 (ymd2ord (t_year t) (t_month t) (t_day t)).
Lemma wd_of_range t : 0 <= wd_of t <= 6.
Proof. unfold wd_of, weekday0. lia. Qed.

Lemma date_ok_bounds y m d : date_ok y m d = true -> 1 <= y <= 9999 /\ 1 <= m <= 12 /\ 1 <= d <= 31.
Proof.
  unfold date_ok. intros V. apply andb_true_iff in V. destruct V as [V Vb]. pose proof (proj1 (valid_dateb_true y m d) Vb) as [Bm Bd].
  unfold dim in Bd. pose proof (dim_l_bounds (is_leap y) m). lia.
Qed.

Ltac weekday_main chk_use sound fmtlemma tokens finish L t HL Hok Hy :=
  pose proof (wd_of_range t) as Wr;
  pose proof (date_ok_bounds _ _ _ Hok) as (By & Bm & Bd);
  pose proof chk_use as A;
  let name := fresh "name" in let Hn := fresh "Hn" in
  destruct (chkW_name _ _ _ _ _ _ _ A) as [name Hn];
  pose proof (field_digits 4 (t_year t) ltac:(lia) ltac:(cbn; lia)) as [DY LY];
  pose proof (field_digits 2 (t_month t) ltac:(lia) ltac:(cbn; lia)) as [DM LM];
  pose proof (field_digits 2 (t_day t) ltac:(lia) ltac:(cbn; lia)) as [DD LD];
  change (Z.of_nat 4) with 4 in DY, LY; change (Z.of_nat 2) with 2 in DM, LM, DD, LD;
  destruct (sound L (wd_of t) name _ _ _ A Hn DY LY DM LM DD LD) as (r & Hp & Hs & Hsub & Ht);
  unfold format; rewrite (find_locale_shipped L HL); rewrite (fmtlemma L t name Hn Hy); cbn [bind];
  rewrite (parse_match_ok _ _ (l_name L) L _ _ _ _ r _ (find_locale_shipped L HL) tokens Hp eq_refl Hs Hsub);
  apply finish; [exact Hok|exact Ht].

Lemma chkB_dddd_use L k : In L locales -> 0 <= k <= 6 -> chkW l_days_wide (fmtB T_dddd) repB (expB T_dddd) (namesB T_dddd) L k = true.
Proof. intros HL Hk. exact (proj1 (forallb_forall _ _) (proj1 (forallb_forall _ _) chkB_dddd_all L HL) k (days7_in k Hk)). Qed.
Lemma chkB_ddd_use L k : In L locales -> 0 <= k <= 6 -> chkW l_days_abbr (fmtB T_ddd) repB (expB T_ddd) (namesB T_ddd) L k = true.
Proof. intros HL Hk. exact (proj1 (forallb_forall _ _) (proj1 (forallb_forall _ _) chkB_ddd_all L HL) k (days7_in k Hk)). Qed.
Lemma chkC_ddd_use L k : In L locales -> 0 <= k <= 6 -> chkW l_days_abbr (fmtC T_ddd) repC (expC T_ddd) (namesC T_ddd) L k = true.
Proof. intros HL Hk. exact (proj1 (forallb_forall _ _) (proj1 (forallb_forall _ _) chkC_ddd_all L HL) k (days7_in k Hk)). Qed.
Lemma chkC_dddd_use L k : In L locales -> 0 <= k <= 6 -> ~ (l_name L = tr_name /\ k = 5) ->
  chkW l_days_wide (fmtC T_dddd) repC (expC T_dddd) (namesC T_dddd) L k = true.
Proof.
  intros HL Hk Hex. pose proof (proj1 (forallb_forall _ _) (proj1 (forallb_forall _ _) chkC_dddd_all L HL) k (days7_in k Hk)) as A.
  cbv beta in A. apply orb_true_iff in A. destruct A as [A|A]; [|exact A].
  apply andb_true_iff in A. destruct A as [A1 A2]. apply str_eqb_eq in A1. apply Z.eqb_eq in A2. tauto.
Qed.

Section WeekdayTheorems.
  Variables (rs : bool) (zones : list str) (now : pnow) (L : locale_data) (t : pdt).
  Hypothesis HL : In L locales.
  Hypothesis Hok : date_ok (t_year t) (t_month t) (t_day t) = true.
  Hypothesis Hy : 1000 <= t_year t <= 9999.

  Theorem from_format_inverts_weekday_wide_first :
    bind (format (l_name L) t (fmtB T_dddd)) (fun s => parse rs zones (l_name L) now s (fmtB T_dddd)) =
    Ok (t_year t, t_month t, t_day t, 0, 0, 0, 0, None).
  Proof.
    weekday_main (chkB_dddd_use L (wd_of t) HL (wd_of_range t)) (chkB_sound T_dddd l_days_wide) formatB_dddd tokensB_dddd finishB_dddd L t HL Hok Hy.
  Qed.
  Theorem from_format_inverts_weekday_abbr_first :
    bind (format (l_name L) t (fmtB T_ddd)) (fun s => parse rs zones (l_name L) now s (fmtB T_ddd)) =
    Ok (t_year t, t_month t, t_day t, 0, 0, 0, 0, None).
  Proof.
    weekday_main (chkB_ddd_use L (wd_of t) HL (wd_of_range t)) (chkB_sound T_ddd l_days_abbr) formatB_ddd tokensB_ddd finishB_ddd L t HL Hok Hy.
  Qed.
  Theorem from_format_inverts_weekday_abbr_last :
    bind (format (l_name L) t (fmtC T_ddd)) (fun s => parse rs zones (l_name L) now s (fmtC T_ddd)) =
    Ok (t_year t, t_month t, t_day t, 0, 0, 0, 0, None).
  Proof.
    weekday_main (chkC_ddd_use L (wd_of t) HL (wd_of_range t)) (chkC_sound T_ddd l_days_abbr) formatC_ddd tokensC_ddd finishC_ddd L t HL Hok Hy.
  Qed.
  Theorem from_format_inverts_weekday_wide_last :
    ~ (l_name L = tr_name /\ wd_of t = 5) ->
    bind (format (l_name L) t (fmtC T_dddd)) (fun s => parse rs zones (l_name L) now s (fmtC T_dddd)) =
    Ok (t_year t, t_month t, t_day t, 0, 0, 0, 0, None).
  Proof.
    intros Hex.
    weekday_main (chkC_dddd_use L (wd_of t) HL (wd_of_range t) Hex) (chkC_sound T_dddd l_days_wide) formatC_dddd tokensC_dddd finishC_dddd L t HL Hok Hy.
  Qed.
End WeekdayTheorems.

Example localized_hyps_satisfiable :
  In loc_tr locales /\ date_ok 2024 7 6 = true /\ wd_of (mkpdt 2024 7 6 0 0 0 0 false 0 [] []) = 5 /\ name_in (l_name loc_tr) digit_months_wide = false.
Proof. split; [unfold locales; cbn [In]; tauto|]. vm_compute. repeat split; reflexivity. Qed.
