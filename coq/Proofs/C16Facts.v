(* Proofs/C16Facts.v — weekday navigation (Model/Weekday.v): closed forms in proleptic ordinals, for every date of the
   supported range (years 1..9999: the range check is part of the model), every weekday, every n. *)
From Coq Require Import ZArith List Bool Lia ZifyBool.
From PV Require Import Lib.Reflect Lib.PyBase Spec.Cal Proofs.CalFacts Gen.DateGetters Model.Weekday.
Ltac Zify.zify_post_hook ::= Z.to_euclidean_division_equations.
Open Scope Z_scope.

(* ------------------------------------------------------------------ dates and ordinals *)
Definition wf_date (p : pdate) : Prop :=
  valid_dateb (d_year p) (d_month p) (d_day p) = true /\ 1 <= d_year p <= 9999.

(* the date with ordinal n *)
Definition P (n : Z) : pdate := pdate_of3 (ord2ymd n).

Lemma maxord_val : MAXORD = ymd2ord 9999 12 31.
Proof. reflexivity. Qed.

Lemma ymd2ord_le y1 m1 d1 y2 m2 d2 :
  valid_dateb y1 m1 d1 = true -> valid_dateb y2 m2 d2 = true ->
  (y1 < y2 \/ (y1 = y2 /\ (m1 < m2 \/ (m1 = m2 /\ d1 <= d2)))) ->
  ymd2ord y1 m1 d1 <= ymd2ord y2 m2 d2.
Proof.
  intros V1 V2 H.
  destruct (Z.eq_dec d1 d2) as [E|N].
  - destruct H as [H|[Hy [H|[Hm _]]]].
    + pose proof (ymd2ord_lt _ _ _ _ _ _ V1 V2 (or_introl H)). lia.
    + pose proof (ymd2ord_lt _ _ _ _ _ _ V1 V2 (or_intror (conj Hy (or_introl H)))). lia.
    + subst. lia.
  - assert (H' : y1 < y2 \/ (y1 = y2 /\ (m1 < m2 \/ (m1 = m2 /\ d1 < d2)))) by lia.
    pose proof (ymd2ord_lt _ _ _ _ _ _ V1 V2 H'). lia.
Qed.

Lemma date_ord_range p : wf_date p -> 1 <= date_ord p <= MAXORD.
Proof.
  intros [V Y]. unfold date_ord. destruct p as [y m d]. cbn [d_year d_month d_day] in *.
  pose proof V as V'. apply valid_dateb_true in V'.
  assert (V1 : valid_dateb 1 1 1 = true) by reflexivity.
  assert (V2 : valid_dateb 9999 12 31 = true) by reflexivity.
  split.
  - change 1 with (ymd2ord 1 1 1) at 1. apply ymd2ord_le; try assumption. lia.
  - rewrite maxord_val. apply ymd2ord_le; try assumption.
    assert (dim y m <= 31) by apply dim_bounds. lia.
Qed.

Lemma P_spec n : 1 <= n <= MAXORD -> wf_date (P n) /\ date_ord (P n) = n.
Proof.
  intros Hn. unfold P, wf_date, date_ord.
  pose proof (ord2ymd_spec n) as H. pose proof (ord2ymd_year_pos n ltac:(lia)) as Hy.
  destruct (ord2ymd n) as [[y m] d]. cbn [pdate_of3 d_year d_month d_day]. destruct H as [V E].
  repeat split; try assumption; try lia.
  destruct (Z_le_gt_dec y 9999) as [L|G]; [assumption|exfalso].
  assert (V2 : valid_dateb 9999 12 31 = true) by reflexivity.
  pose proof (ymd2ord_lt 9999 12 31 y m d V2 V ltac:(lia)) as Hlt.
  rewrite <- maxord_val in Hlt. lia.
Qed.

Lemma P_date_ord p : wf_date p -> P (date_ord p) = p.
Proof.
  intros [V _]. unfold P, date_ord. rewrite ord2ymd_ymd2ord by assumption. destruct p; reflexivity.
Qed.

Lemma wf_date_inj p q : wf_date p -> wf_date q -> date_ord p = date_ord q -> p = q.
Proof. intros Hp Hq E. rewrite <- (P_date_ord p Hp), <- (P_date_ord q Hq). now rewrite E. Qed.

Lemma date_of_ord_in n : 1 <= n <= MAXORD -> date_of_ord n = Ok (P n).
Proof. intros H. unfold date_of_ord, P. destruct ((1 <=? n) && (n <=? MAXORD)) eqn:E; [reflexivity|lia]. Qed.

Lemma date_of_ord_hi n : MAXORD < n -> date_of_ord n = Raise E_OverflowError.
Proof. intros H. unfold date_of_ord. destruct ((1 <=? n) && (n <=? MAXORD)) eqn:E; [lia|reflexivity]. Qed.

Lemma date_of_ord_lo n : n < 1 -> date_of_ord n = Raise E_OverflowError.
Proof. intros H. unfold date_of_ord. destruct ((1 <=? n) && (n <=? MAXORD)) eqn:E; [lia|reflexivity]. Qed.

Lemma date_of_ord_ok n p : date_of_ord n = Ok p -> 1 <= n <= MAXORD /\ p = P n.
Proof.
  unfold date_of_ord, P. destruct ((1 <=? n) && (n <=? MAXORD)) eqn:E; [|discriminate].
  intros H. inversion H. split; [lia|reflexivity].
Qed.

Lemma date_of_ord_not_fuel n : date_of_ord n <> Raise E_OutOfFuel.
Proof. unfold date_of_ord. destruct ((1 <=? n) && (n <=? MAXORD)); discriminate. Qed.

Lemma dow_P n : 1 <= n <= MAXORD -> dow (P n) = weekday0 n.
Proof. intros H. unfold dow. now rewrite (proj2 (P_spec n H)). Qed.

Lemma weekday0_range n : 0 <= weekday0 n <= 6.
Proof. unfold weekday0. lia. Qed.

Lemma date_new_ok y m d : 1 <= y <= 9999 -> 1 <= m <= 12 -> 1 <= d <= dim y m -> date_new y m d = Ok (mkdate y m d).
Proof.
  intros Hy Hm Hd. unfold date_new.
  assert (V : valid_dateb y m d = true) by (apply valid_dateb_true; lia).
  rewrite V. destruct ((1 <=? y) && (y <=? 9999)) eqn:E; [reflexivity|lia].
Qed.

Lemma wf_mk y m d : 1 <= y <= 9999 -> 1 <= m <= 12 -> 1 <= d <= dim y m -> wf_date (mkdate y m d).
Proof. intros. split; cbn [d_year d_month d_day]; [apply valid_dateb_true; lia|lia]. Qed.

Lemma wf_fields p : wf_date p -> 1 <= d_year p <= 9999 /\ 1 <= d_month p <= 12 /\ 1 <= d_day p <= dim (d_year p) (d_month p).
Proof. intros [V Y]. apply valid_dateb_true in V. lia. Qed.

(* ------------------------------------------------------------------ next / previous *)
Definition next_target (n wd : Z) : Z := n + (wd - weekday0 n - 1) mod 7 + 1.
Definition prev_target (n wd : Z) : Z := n - (weekday0 n - wd - 1) mod 7 - 1.

Lemma d_next_loop_spec wd : 0 <= wd <= 6 -> forall f n, 1 <= n <= MAXORD ->
  (wd - weekday0 n) mod 7 < Z.of_nat f ->
  d_next_loop f wd (P n) = date_of_ord (n + (wd - weekday0 n) mod 7).
Proof.
  intros Hwd. induction f as [|f IH]; intros n Hn Hk; [lia|].
  cbn [d_next_loop]. rewrite dow_P by assumption.
  destruct (weekday0 n =? wd) eqn:E; cbn [negb].
  - replace ((wd - weekday0 n) mod 7) with 0 by (unfold weekday0 in *; lia).
    rewrite Z.add_0_r. now rewrite date_of_ord_in.
  - unfold date_add_days. rewrite (proj2 (P_spec n Hn)).
    destruct (Z_le_gt_dec (n + 1) MAXORD) as [L|G].
    + rewrite date_of_ord_in by lia. cbn [bind]. rewrite IH by (unfold weekday0 in *; lia).
      f_equal. unfold weekday0 in *. lia.
    + rewrite date_of_ord_hi by lia. cbn [bind]. rewrite date_of_ord_hi; [reflexivity|]. unfold weekday0 in *. lia.
Qed.

Lemma wd_invalid_false wd : 0 <= wd <= 6 -> wd_invalid wd = false.
Proof. unfold wd_invalid. lia. Qed.

Lemma d_next_some p wd : wf_date p -> 0 <= wd <= 6 ->
  d_next p (Some wd) = date_of_ord (next_target (date_ord p) wd).
Proof.
  intros Hp Hwd. unfold d_next. rewrite wd_invalid_false by assumption.
  pose proof (date_ord_range p Hp) as Hn. unfold date_add_days, next_target.
  set (n := date_ord p) in *.
  destruct (Z_le_gt_dec (n + 1) MAXORD) as [L|G].
  - rewrite date_of_ord_in by lia. cbn [bind]. rewrite d_next_loop_spec by (unfold weekday0; lia).
    f_equal. unfold weekday0. lia.
  - rewrite date_of_ord_hi by lia. cbn [bind]. rewrite date_of_ord_hi; [reflexivity|]. unfold weekday0. lia.
Qed.

Lemma d_next_none p : wf_date p -> d_next p None = d_next p (Some (dow p)).
Proof. reflexivity. Qed.

Lemma d_prev_loop_spec wd : 0 <= wd <= 6 -> forall f n, 1 <= n <= MAXORD ->
  (weekday0 n - wd) mod 7 < Z.of_nat f ->
  d_prev_loop f wd (P n) = date_of_ord (n - (weekday0 n - wd) mod 7).
Proof.
  intros Hwd. induction f as [|f IH]; intros n Hn Hk; [lia|].
  cbn [d_prev_loop]. rewrite dow_P by assumption.
  destruct (weekday0 n =? wd) eqn:E; cbn [negb].
  - replace ((weekday0 n - wd) mod 7) with 0 by (unfold weekday0 in *; lia).
    rewrite Z.sub_0_r. now rewrite date_of_ord_in.
  - unfold date_add_days. rewrite (proj2 (P_spec n Hn)).
    destruct (Z_le_gt_dec 1 (n + -1)) as [L|G].
    + rewrite date_of_ord_in by lia. cbn [bind]. rewrite IH by (unfold weekday0 in *; lia).
      f_equal. unfold weekday0 in *. lia.
    + rewrite date_of_ord_lo by lia. cbn [bind]. rewrite date_of_ord_lo; [reflexivity|]. unfold weekday0 in *. lia.
Qed.

Lemma d_previous_some p wd : wf_date p -> 0 <= wd <= 6 ->
  d_previous p (Some wd) = date_of_ord (prev_target (date_ord p) wd).
Proof.
  intros Hp Hwd. unfold d_previous. rewrite wd_invalid_false by assumption.
  pose proof (date_ord_range p Hp) as Hn. unfold date_add_days, prev_target.
  set (n := date_ord p) in *.
  destruct (Z_le_gt_dec 1 (n + -1)) as [L|G].
  - rewrite date_of_ord_in by lia. cbn [bind]. rewrite d_prev_loop_spec by (unfold weekday0; lia).
    f_equal. unfold weekday0. lia.
  - rewrite date_of_ord_lo by lia. cbn [bind]. rewrite date_of_ord_lo; [reflexivity|]. unfold weekday0. lia.
Qed.

(* the arithmetic content of "nearest strictly later / earlier day on weekday wd" *)
Lemma next_target_props n wd : 0 <= wd <= 6 ->
  n < next_target n wd <= n + 7 /\ weekday0 (next_target n wd) = wd /\
  (forall k, n < k < next_target n wd -> weekday0 k <> wd).
Proof. intros H. unfold next_target, weekday0. repeat split; intros; lia. Qed.

Lemma prev_target_props n wd : 0 <= wd <= 6 ->
  n - 7 <= prev_target n wd < n /\ weekday0 (prev_target n wd) = wd /\
  (forall k, prev_target n wd < k < n -> weekday0 k <> wd).
Proof. intros H. unfold prev_target, weekday0. repeat split; intros; lia. Qed.

(* ------------------------------------------------------------------ calendar.monthcalendar rows *)
Lemma mc_first_range y m : 0 <= mc_first y m <= 6.
Proof. unfold mc_first. apply weekday0_range. Qed.

(* month[0][wd] if > 0 else month[1][wd]  is the first day of the month on weekday wd *)
Lemma mc_first_rows y m wd : 0 <= wd <= 6 ->
  let day := 1 + (wd - mc_first y m) mod 7 in
  1 <= day <= 7 /\
  ((exists c0, mc_get y m 0 wd = Ok c0 /\ (c0 >? 0) = true /\ c0 = day) \/
   (mc_get y m 0 wd = Ok 0 /\ mc_get y m 1 wd = Ok day)).
Proof.
  intros Hwd. unfold mc_get, mc_rows, mc_cell.
  pose proof (mc_first_range y m) as Hf. pose proof (dim_bounds y m) as Hd.
  generalize dependent (mc_first y m). generalize dependent (dim y m). intros dm Hd fw Hf. cbv zeta.
  assert (Ew : (wd <? 0) = false) by lia. rewrite !Ew.
  change (0 <? 0) with false. change (1 <? 0) with false. cbv iota.
  split; [lia|].
  destruct (Z_le_gt_dec fw wd) as [L|G].
  - left. exists (wd - fw + 1). repeat split; try lia.
    repeat match goal with |- context [if ?c then _ else _] => destruct c eqn:? end; try lia; f_equal; lia.
  - right. split; repeat match goal with |- context [if ?c then _ else _] => destruct c eqn:? end; try lia; f_equal; lia.
Qed.

(* month[-1][wd] if > 0 else month[-2][wd]  is the last day of the month on weekday wd *)
Lemma mc_last_rows y m wd : 0 <= wd <= 6 ->
  let dm := dim y m in
  let day := dm - ((mc_first y m + dm - 1) - wd) mod 7 in
  dm - 6 <= day <= dm /\
  ((exists c0, mc_get y m (-1) wd = Ok c0 /\ (c0 >? 0) = true /\ c0 = day) \/
   (mc_get y m (-1) wd = Ok 0 /\ mc_get y m (-2) wd = Ok day)).
Proof.
  intros Hwd. unfold mc_get, mc_rows, mc_cell.
  pose proof (mc_first_range y m) as Hf. pose proof (dim_bounds y m) as Hd.
  generalize dependent (mc_first y m). generalize dependent (dim y m). intros dm Hd fw Hf. cbv zeta.
  assert (Ew : (wd <? 0) = false) by lia. rewrite !Ew.
  change (-1 <? 0) with true. change (-2 <? 0) with true. cbv iota.
  split; [lia|].
  destruct (Z_le_gt_dec wd ((fw + dm - 1) mod 7)) as [L|G].
  - left. exists (dm - (fw + dm - 1 - wd) mod 7). repeat split; try lia.
    repeat match goal with |- context [if ?c then _ else _] => destruct c eqn:? end; try lia; f_equal; lia.
  - right. split; repeat match goal with |- context [if ?c then _ else _] => destruct c eqn:? end; try lia; f_equal; lia.
Qed.

Lemma ymd2ord_day y m d : ymd2ord y m d = ymd2ord y m 1 + d - 1.
Proof. unfold ymd2ord. lia. Qed.

Lemma d_first_of_month_some p wd : wf_date p -> 0 <= wd <= 6 ->
  d_first_of_month p (Some wd) = Ok (mkdate (d_year p) (d_month p) (1 + (wd - mc_first (d_year p) (d_month p)) mod 7)).
Proof.
  intros Hp Hwd. destruct (wf_fields p Hp) as (Hy & Hm & Hd).
  pose proof (dim_bounds (d_year p) (d_month p)) as Hdim.
  destruct (mc_first_rows (d_year p) (d_month p) wd Hwd) as [Hday [(c0 & E0 & G0 & Ec)|[E0 E1]]];
  unfold d_first_of_month; rewrite E0; cbn [bind].
  - rewrite G0. subst c0. unfold date_set_day. apply date_new_ok; lia.
  - change (0 >? 0) with false. cbv iota. rewrite E1. cbn [bind]. unfold date_set_day. apply date_new_ok; lia.
Qed.

Lemma d_first_of_month_none p : wf_date p -> d_first_of_month p None = Ok (mkdate (d_year p) (d_month p) 1).
Proof.
  intros Hp. destruct (wf_fields p Hp) as (Hy & Hm & Hd). pose proof (dim_bounds (d_year p) (d_month p)).
  unfold d_first_of_month, date_set_day. apply date_new_ok; lia.
Qed.

Lemma d_last_of_month_some p wd : wf_date p -> 0 <= wd <= 6 ->
  let dm := dim (d_year p) (d_month p) in
  d_last_of_month p (Some wd) = Ok (mkdate (d_year p) (d_month p) (dm - ((mc_first (d_year p) (d_month p) + dm - 1) - wd) mod 7)).
Proof.
  intros Hp Hwd. destruct (wf_fields p Hp) as (Hy & Hm & Hd).
  pose proof (dim_bounds (d_year p) (d_month p)) as Hdim. cbv zeta.
  destruct (mc_last_rows (d_year p) (d_month p) wd Hwd) as [Hday [(c0 & E0 & G0 & Ec)|[E0 E1]]];
  unfold d_last_of_month; rewrite E0; cbn [bind].
  - rewrite G0. subst c0. unfold date_set_day. apply date_new_ok; lia.
  - change (0 >? 0) with false. cbv iota. rewrite E1. cbn [bind]. unfold date_set_day. apply date_new_ok; lia.
Qed.

Lemma d_last_of_month_none p : wf_date p ->
  d_last_of_month p None = Ok (mkdate (d_year p) (d_month p) (dim (d_year p) (d_month p))).
Proof.
  intros Hp. destruct (wf_fields p Hp) as (Hy & Hm & Hd). pose proof (dim_bounds (d_year p) (d_month p)).
  unfold d_last_of_month, date_set_day, days_in_month. apply date_new_ok; lia.
Qed.

(* ------------------------------------------------------------------ units: month, quarter, year *)
Definition is_unit (u : Z) : Prop := u = U_MONTH \/ u = U_QUARTER \/ u = U_YEAR.
(* decide the closed unit tests  U =? U'  *)
Ltac closed_num t := match t with Z0 => idtac | Zpos xH => idtac | Zpos (xO xH) => idtac end.
Ltac eval_units :=
  repeat match goal with |- context [?a =? ?b] =>
    let a' := eval cbv [U_MONTH U_QUARTER U_YEAR] in a in
    let b' := eval cbv [U_MONTH U_QUARTER U_YEAR] in b in
    closed_num a'; closed_num b';
    let v := eval vm_compute in (a =? b) in change (a =? b) with v end;
  cbv iota.
Definition unit_first_month (u m : Z) : Z :=
  if u =? U_MONTH then m else if u =? U_QUARTER then 3 * ((m + 2) / 3) - 2 else 1.
Definition unit_last_month (u m : Z) : Z :=
  if u =? U_MONTH then m else if u =? U_QUARTER then 3 * ((m + 2) / 3) else 12.
(* ordinals of the first and the last day of the unit that contains p *)
Definition unit_start (u : Z) (p : pdate) : Z := ymd2ord (d_year p) (unit_first_month u (d_month p)) 1.
Definition unit_end (u : Z) (p : pdate) : Z :=
  let lm := unit_last_month u (d_month p) in ymd2ord (d_year p) lm (dim (d_year p) lm).
(* q lies in the month / quarter / year of p *)
Definition in_unit (u : Z) (p q : pdate) : Prop :=
  d_year q = d_year p /\ unit_first_month u (d_month p) <= d_month q <= unit_last_month u (d_month p).

Lemma unit_months u m : is_unit u -> 1 <= m <= 12 ->
  1 <= unit_first_month u m <= m /\ m <= unit_last_month u m <= 12.
Proof. unfold is_unit, unit_first_month, unit_last_month, U_MONTH, U_QUARTER, U_YEAR. intros [->|[->| ->]] Hm; eval_units; lia. Qed.

Lemma py_quarter_val p : py_Date_quarter p = (d_month p + 2) / 3.
Proof. unfold py_Date_quarter, cdiv. lia. Qed.

Lemma in_unit_ord u p q : is_unit u -> wf_date p -> wf_date q ->
  (in_unit u p q <-> unit_start u p <= date_ord q <= unit_end u p).
Proof.
  intros Hu Hp Hq. destruct (wf_fields p Hp) as (Hy & Hm & Hd). destruct (wf_fields q Hq) as (Hy' & Hm' & Hd').
  destruct (unit_months u (d_month p) Hu Hm) as [Hf Hl].
  unfold in_unit, unit_start, unit_end, date_ord. cbv zeta.
  set (fm := unit_first_month u (d_month p)) in *. set (lm := unit_last_month u (d_month p)) in *.
  pose proof (dim_bounds (d_year p) fm) as B1. pose proof (dim_bounds (d_year p) lm) as B2.
  assert (Vq : valid_dateb (d_year q) (d_month q) (d_day q) = true) by (apply valid_dateb_true; lia).
  assert (Vs : valid_dateb (d_year p) fm 1 = true) by (apply valid_dateb_true; lia).
  assert (Ve : valid_dateb (d_year p) lm (dim (d_year p) lm) = true) by (apply valid_dateb_true; lia).
  split.
  - intros [Ey [H1 H2]]. split.
    + apply ymd2ord_le; try assumption. lia.
    + apply ymd2ord_le; try assumption.
      destruct (Z.eq_dec (d_month q) lm) as [E|N]; [|lia].
      right. split; [assumption|]. right. split; [assumption|]. rewrite <- E, <- Ey. lia.
  - intros [H1 H2].
    destruct (Z_lt_ge_dec (d_year q) (d_year p)) as [L|G].
    { pose proof (ymd2ord_lt _ _ _ _ _ _ Vq Vs ltac:(lia)). lia. }
    destruct (Z_lt_ge_dec (d_year p) (d_year q)) as [L|G'].
    { pose proof (ymd2ord_lt _ _ _ _ _ _ Ve Vq ltac:(lia)). lia. }
    assert (Ey : d_year q = d_year p) by lia.
    destruct (Z_lt_ge_dec (d_month q) fm) as [L|G1].
    { pose proof (ymd2ord_lt _ _ _ _ _ _ Vq Vs ltac:(lia)). lia. }
    destruct (Z_lt_ge_dec lm (d_month q)) as [L|G2].
    { pose proof (ymd2ord_lt _ _ _ _ _ _ Ve Vq ltac:(lia)). lia. }
    lia.
Qed.

(* a unit has at least 28 days *)
Lemma unit_span u p : is_unit u -> wf_date p -> unit_start u p + 27 <= unit_end u p.
Proof.
  intros Hu Hp. destruct (wf_fields p Hp) as (Hy & Hm & Hd).
  destruct (unit_months u (d_month p) Hu Hm) as [Hf Hl].
  unfold unit_start, unit_end. cbv zeta.
  set (fm := unit_first_month u (d_month p)) in *. set (lm := unit_last_month u (d_month p)) in *.
  pose proof (dim_bounds (d_year p) fm) as B1. pose proof (dim_bounds (d_year p) lm) as B2.
  assert (Vs : valid_dateb (d_year p) fm 1 = true) by (apply valid_dateb_true; lia).
  assert (Vm : valid_dateb (d_year p) lm 1 = true) by (apply valid_dateb_true; lia).
  pose proof (ymd2ord_le _ _ _ _ _ _ Vs Vm ltac:(lia)) as H.
  rewrite (ymd2ord_day (d_year p) lm (dim (d_year p) lm)). lia.
Qed.

Lemma unit_start_range u p : is_unit u -> wf_date p -> 1 <= unit_start u p <= date_ord p /\ date_ord p <= unit_end u p <= MAXORD.
Proof.
  intros Hu Hp. destruct (wf_fields p Hp) as (Hy & Hm & Hd).
  destruct (unit_months u (d_month p) Hu Hm) as [Hf Hl].
  pose proof (dim_bounds (d_year p) (unit_first_month u (d_month p))) as B1.
  pose proof (dim_bounds (d_year p) (unit_last_month u (d_month p))) as B2.
  assert (Hin : in_unit u p p) by (unfold in_unit; lia).
  apply (in_unit_ord u p p Hu Hp Hp) in Hin.
  assert (W1 : wf_date (mkdate (d_year p) (unit_first_month u (d_month p)) 1)) by (apply wf_mk; lia).
  assert (W2 : wf_date (mkdate (d_year p) (unit_last_month u (d_month p)) (dim (d_year p) (unit_last_month u (d_month p))))) by (apply wf_mk; lia).
  pose proof (date_ord_range _ W1) as R1. pose proof (date_ord_range _ W2) as R2.
  unfold date_ord in R1, R2. cbn [d_year d_month d_day] in R1, R2. unfold unit_start, unit_end in *. cbv zeta in *. lia.
Qed.

(* closed forms of the first / last occurrence of weekday wd in [s, e] *)
Definition first_occ (s wd : Z) : Z := s + (wd - weekday0 s) mod 7.
Definition last_occ (e wd : Z) : Z := e - (weekday0 e - wd) mod 7.

Lemma first_occ_props s wd : 0 <= wd <= 6 ->
  s <= first_occ s wd <= s + 6 /\ weekday0 (first_occ s wd) = wd /\
  (forall k, s <= k -> weekday0 k = wd -> first_occ s wd <= k).
Proof. intros H. unfold first_occ, weekday0. repeat split; intros; lia. Qed.

Lemma last_occ_props e wd : 0 <= wd <= 6 ->
  e - 6 <= last_occ e wd <= e /\ weekday0 (last_occ e wd) = wd /\
  (forall k, k <= e -> weekday0 k = wd -> k <= last_occ e wd).
Proof. intros H. unfold last_occ, weekday0. repeat split; intros; lia. Qed.

Lemma dim_jan y : dim y 1 = 31. Proof. reflexivity. Qed.
Lemma dim_dec y : dim y 12 = 31. Proof. reflexivity. Qed.

(* first_of / last_of in every unit reduce to the month helper on the first / last month of the unit *)
Lemma d_first_of_reduce u p wd : is_unit u -> wf_date p ->
  d_first_of u p wd = d_first_of_month (mkdate (d_year p) (unit_first_month u (d_month p)) (if u =? U_MONTH then d_day p else if u =? U_QUARTER then 1 else d_day p)) wd
  /\ wf_date (mkdate (d_year p) (unit_first_month u (d_month p)) (if u =? U_MONTH then d_day p else if u =? U_QUARTER then 1 else d_day p)).
Proof.
  intros Hu Hp. destruct (wf_fields p Hp) as (Hy & Hm & Hd).
  pose proof (dim_bounds (d_year p) (d_month p)) as B.
  destruct Hu as [->|[->| ->]]; unfold d_first_of, unit_first_month; eval_units.
  - split; [destruct p; reflexivity|destruct p; exact Hp].
  - unfold d_first_of_quarter, date_set_ymd. rewrite py_quarter_val.
    pose proof (dim_bounds (d_year p) ((d_month p + 2) / 3 * 3 - 2)).
    rewrite date_new_ok by lia. cbn [bind].
    replace (3 * ((d_month p + 2) / 3) - 2) with ((d_month p + 2) / 3 * 3 - 2) by lia. split; [reflexivity|apply wf_mk; lia].
  - unfold d_first_of_year, date_set_month. rewrite date_new_ok by (try rewrite dim_jan; lia). cbn [bind].
    split; [reflexivity|apply wf_mk; try rewrite dim_jan; lia].
Qed.

Lemma d_last_of_reduce u p wd : is_unit u -> wf_date p ->
  d_last_of u p wd = d_last_of_month (mkdate (d_year p) (unit_last_month u (d_month p)) (if u =? U_MONTH then d_day p else if u =? U_QUARTER then 1 else d_day p)) wd
  /\ wf_date (mkdate (d_year p) (unit_last_month u (d_month p)) (if u =? U_MONTH then d_day p else if u =? U_QUARTER then 1 else d_day p)).
Proof.
  intros Hu Hp. destruct (wf_fields p Hp) as (Hy & Hm & Hd).
  pose proof (dim_bounds (d_year p) (d_month p)) as B.
  destruct Hu as [->|[->| ->]]; unfold d_last_of, unit_last_month; eval_units.
  - split; [destruct p; reflexivity|destruct p; exact Hp].
  - unfold d_last_of_quarter, date_set_ymd. rewrite py_quarter_val.
    pose proof (dim_bounds (d_year p) ((d_month p + 2) / 3 * 3)).
    rewrite date_new_ok by lia. cbn [bind].
    replace (3 * ((d_month p + 2) / 3)) with ((d_month p + 2) / 3 * 3) by lia. split; [reflexivity|apply wf_mk; lia].
  - unfold d_last_of_year, date_set_month. rewrite date_new_ok by (try rewrite dim_dec; lia). cbn [bind].
    split; [reflexivity|apply wf_mk; try rewrite dim_dec; lia].
Qed.

(* first_of: the result is the date whose ordinal is the closed form, it exists and lies in the unit *)
Lemma d_first_of_some u p wd : is_unit u -> wf_date p -> 0 <= wd <= 6 ->
  d_first_of u p (Some wd) = Ok (P (first_occ (unit_start u p) wd)).
Proof.
  intros Hu Hp Hwd. destruct (d_first_of_reduce u p (Some wd) Hu Hp) as [-> W].
  rewrite d_first_of_month_some by assumption. cbn [d_year d_month d_day].
  destruct (wf_fields p Hp) as (Hy & Hm & Hd). destruct (unit_months u (d_month p) Hu Hm) as [Hf Hl].
  set (fm := unit_first_month u (d_month p)) in *.
  pose proof (dim_bounds (d_year p) fm) as B. pose proof (mc_first_range (d_year p) fm) as F.
  assert (W' : wf_date (mkdate (d_year p) fm (1 + (wd - mc_first (d_year p) fm) mod 7))) by (apply wf_mk; lia).
  f_equal. rewrite <- (P_date_ord _ W'). f_equal.
  unfold date_ord, first_occ, unit_start. cbn [d_year d_month d_day]. fold fm.
  rewrite ymd2ord_day. unfold mc_first. lia.
Qed.

Lemma d_first_of_none u p : is_unit u -> wf_date p -> d_first_of u p None = Ok (P (unit_start u p)).
Proof.
  intros Hu Hp. destruct (d_first_of_reduce u p None Hu Hp) as [-> W].
  rewrite d_first_of_month_none by assumption. cbn [d_year d_month d_day].
  destruct (wf_fields p Hp) as (Hy & Hm & Hd). destruct (unit_months u (d_month p) Hu Hm) as [Hf Hl].
  set (fm := unit_first_month u (d_month p)) in *. pose proof (dim_bounds (d_year p) fm) as B.
  assert (W' : wf_date (mkdate (d_year p) fm 1)) by (apply wf_mk; lia).
  f_equal. rewrite <- (P_date_ord _ W'). reflexivity.
Qed.

Lemma d_last_of_some u p wd : is_unit u -> wf_date p -> 0 <= wd <= 6 ->
  d_last_of u p (Some wd) = Ok (P (last_occ (unit_end u p) wd)).
Proof.
  intros Hu Hp Hwd. destruct (d_last_of_reduce u p (Some wd) Hu Hp) as [-> W].
  rewrite d_last_of_month_some by assumption. cbn [d_year d_month d_day].
  destruct (wf_fields p Hp) as (Hy & Hm & Hd). destruct (unit_months u (d_month p) Hu Hm) as [Hf Hl].
  set (lm := unit_last_month u (d_month p)) in *.
  pose proof (dim_bounds (d_year p) lm) as B. pose proof (mc_first_range (d_year p) lm) as F.
  set (dm := dim (d_year p) lm) in *.
  assert (W' : wf_date (mkdate (d_year p) lm (dm - (mc_first (d_year p) lm + dm - 1 - wd) mod 7))) by (apply wf_mk; fold dm; lia).
  f_equal. rewrite <- (P_date_ord _ W'). f_equal.
  unfold date_ord, last_occ, unit_end. cbn [d_year d_month d_day]. cbv zeta. fold lm. fold dm.
  rewrite (ymd2ord_day (d_year p) lm dm). rewrite ymd2ord_day. unfold mc_first, weekday0. lia.
Qed.

Lemma d_last_of_none u p : is_unit u -> wf_date p -> d_last_of u p None = Ok (P (unit_end u p)).
Proof.
  intros Hu Hp. destruct (d_last_of_reduce u p None Hu Hp) as [-> W].
  rewrite d_last_of_month_none by assumption. cbn [d_year d_month d_day].
  destruct (wf_fields p Hp) as (Hy & Hm & Hd). destruct (unit_months u (d_month p) Hu Hm) as [Hf Hl].
  set (lm := unit_last_month u (d_month p)) in *. pose proof (dim_bounds (d_year p) lm) as B.
  assert (W' : wf_date (mkdate (d_year p) lm (dim (d_year p) lm))) by (apply wf_mk; lia).
  f_equal. rewrite <- (P_date_ord _ W'). reflexivity.
Qed.

(* ------------------------------------------------------------------ nth_of *)
Lemma bind_ok_id {A} (r : result A) : bind r (fun x => Ok x) = r.
Proof. destruct r; reflexivity. Qed.

Lemma d_iter_next_spec wd : 0 <= wd <= 6 -> forall k a, 1 <= a <= MAXORD ->
  d_iter_next (S k) wd (P a) = date_of_ord (next_target a wd + 7 * Z.of_nat k).
Proof.
  intros Hwd. induction k as [|k IH]; intros a Ha.
  - cbn [d_iter_next]. destruct (P_spec a Ha) as [W E]. rewrite d_next_some, E by assumption.
    rewrite Z.mul_0_r, Z.add_0_r. apply bind_ok_id.
  - change (d_iter_next (S (S k)) wd (P a)) with (bind (d_next (P a) (Some wd)) (d_iter_next (S k) wd)).
    destruct (P_spec a Ha) as [W E]. rewrite d_next_some, E by assumption.
    destruct (next_target_props a wd Hwd) as (R & Wd & _).
    destruct (Z_le_gt_dec (next_target a wd) MAXORD) as [L|G].
    + rewrite date_of_ord_in by lia. cbn [bind]. rewrite IH by lia. f_equal.
      unfold next_target at 1. rewrite Wd. replace ((wd - wd - 1) mod 7) with 6 by lia. lia.
    + rewrite date_of_ord_hi by lia. cbn [bind]. rewrite date_of_ord_hi; [reflexivity|lia].
Qed.

Definition nth_target (u : Z) (p : pdate) (n wd : Z) : Z := first_occ (unit_start u p) wd + 7 * (n - 1).

Lemma nth_loop s n wd : 1 <= s <= MAXORD -> 0 <= wd <= 6 -> 2 <= n ->
  d_iter_next (nth_iters n wd (P s)) wd (P s) = date_of_ord (first_occ s wd + 7 * (n - 1)).
Proof.
  intros Hs Hwd Hn. unfold nth_iters. rewrite dow_P by assumption.
  destruct (weekday0 s =? wd) eqn:E.
  - replace (Z.to_nat (n - 1)) with (S (Z.to_nat (n - 2))) by lia.
    rewrite d_iter_next_spec by assumption. f_equal. unfold next_target, first_occ.
    rewrite Z2Nat.id by lia. unfold weekday0 in *. lia.
  - replace (Z.to_nat (n - 0)) with (S (Z.to_nat (n - 1))) by lia.
    rewrite d_iter_next_spec by assumption. f_equal. unfold next_target, first_occ.
    rewrite Z2Nat.id by lia. unfold weekday0 in *. lia.
Qed.

Lemma date_new_wf q : wf_date q -> date_new (d_year q) (d_month q) (d_day q) = Ok q.
Proof. intros W. destruct (wf_fields q W) as (Hy & Hm & Hd). rewrite date_new_ok by lia. destruct q; reflexivity. Qed.

(* what nth_of returns, as a function of the ordinal  t = first occurrence + 7 (n - 1) *)
Definition nth_result (u : Z) (p : pdate) (n wd : Z) : result pdate :=
  let t := nth_target u p n wd in
  if t <=? unit_end u p then Ok (P t) else Raise E_PendulumException.

Lemma P_unit_start u p : is_unit u -> wf_date p ->
  P (unit_start u p) = mkdate (d_year p) (unit_first_month u (d_month p)) 1.
Proof.
  intros Hu Hp. destruct (wf_fields p Hp) as (Hy & Hm & Hd). destruct (unit_months u (d_month p) Hu Hm) as [Hf Hl].
  pose proof (dim_bounds (d_year p) (unit_first_month u (d_month p))) as B.
  assert (W' : wf_date (mkdate (d_year p) (unit_first_month u (d_month p)) 1)) by (apply wf_mk; lia).
  rewrite <- (P_date_ord _ W'). reflexivity.
Qed.

Definition raise_if_none (o : option pdate) : result pdate :=
  match o with Some d => Ok d | None => Raise E_PendulumException end.

(* the common tail of the three _nth_of_* helpers; `body` is the unit test + rebuild on the reached date *)
Lemma nth_tail u p n wd (body : pdate -> result (option pdate)) : is_unit u -> wf_date p -> 0 <= wd <= 6 -> 2 <= n ->
  (forall q, wf_date q -> unit_start u p <= date_ord q ->
     body q = if date_ord q <=? unit_end u p then Ok (Some q) else Ok None) ->
  bind (overflow_to_none (bind (d_iter_next (nth_iters n wd (P (unit_start u p))) wd (P (unit_start u p))) body)) raise_if_none
  = nth_result u p n wd.
Proof.
  intros Hu Hp Hwd Hn Hin. destruct (unit_start_range u p Hu Hp) as [Rs Re].
  rewrite nth_loop by (try assumption; lia). unfold nth_result, nth_target.
  destruct (first_occ_props (unit_start u p) wd Hwd) as (F1 & _ & _).
  set (t := first_occ (unit_start u p) wd + 7 * (n - 1)) in *.
  destruct (Z_le_gt_dec t MAXORD) as [L|G].
  - rewrite date_of_ord_in by lia. cbn [bind]. destruct (P_spec t ltac:(lia)) as [W E].
    rewrite (Hin (P t) W ltac:(lia)), E.
    destruct (t <=? unit_end u p) eqn:C; cbn [overflow_to_none bind raise_if_none]; reflexivity.
  - (* the walk left the date range: OverflowError, caught by nth_of and turned into "no such occurrence" *)
    rewrite date_of_ord_hi by lia. cbn [bind overflow_to_none raise_if_none].
    destruct (t <=? unit_end u p) eqn:C; [lia|reflexivity].
Qed.

Lemma nth_first u p wd : is_unit u -> wf_date p -> 0 <= wd <= 6 ->
  bind (overflow_to_none (bind (d_first_of u p (Some wd)) (fun r => Ok (Some r)))) raise_if_none = nth_result u p 1 wd.
Proof.
  intros Hu Hp Hwd. rewrite d_first_of_some by assumption. cbn [bind overflow_to_none raise_if_none]. unfold nth_result, nth_target.
  rewrite Z.mul_0_r, Z.add_0_r. pose proof (unit_span u p Hu Hp). destruct (first_occ_props (unit_start u p) wd Hwd) as (F1 & _ & _).
  destruct (first_occ (unit_start u p) wd <=? unit_end u p) eqn:C; [reflexivity|lia].
Qed.

(* the three unit tests decide "not after the end of the unit" for a date that is not before its start *)
Lemma in_unit_dec u p q : is_unit u -> wf_date p -> wf_date q -> unit_start u p <= date_ord q ->
  (date_ord q <=? unit_end u p) = true <-> in_unit u p q.
Proof. intros Hu Hp Hq Hs. rewrite (in_unit_ord u p q Hu Hp Hq). lia. Qed.

Lemma body_month p q : wf_date p -> wf_date q -> unit_start U_MONTH p <= date_ord q ->
  (if same_year_month q (P (unit_start U_MONTH p)) then bind (date_set_day p (d_day q)) (fun r => Ok (Some r)) else Ok None)
  = if date_ord q <=? unit_end U_MONTH p then Ok (Some q) else Ok None.
Proof.
  intros Hp Hq Hs. assert (Hu : is_unit U_MONTH) by (left; reflexivity).
  rewrite P_unit_start by assumption. pose proof (in_unit_dec U_MONTH p q Hu Hp Hq Hs) as D.
  unfold same_year_month. cbn [d_year d_month]. unfold in_unit in D.
  change (unit_first_month U_MONTH (d_month p)) with (d_month p) in *. change (unit_last_month U_MONTH (d_month p)) with (d_month p) in *.
  destruct (date_ord q <=? unit_end U_MONTH p).
  - destruct D as [D _]. destruct (D eq_refl) as [Ey Em].
    replace ((d_year q =? d_year p) && (d_month q =? d_month p)) with true by lia.
    unfold date_set_day. rewrite <- Ey. replace (d_month p) with (d_month q) by lia. rewrite date_new_wf by assumption. reflexivity.
  - destruct ((d_year q =? d_year p) && (d_month q =? d_month p)) eqn:E; [|reflexivity].
    assert (true = false) by (symmetry; apply D; lia). discriminate.
Qed.

Lemma body_quarter p q : wf_date p -> wf_date q -> unit_start U_QUARTER p <= date_ord q ->
  (if (unit_last_month U_QUARTER (d_month p) <? d_month q) || negb (d_year p =? d_year q) then Ok None
   else bind (date_set_ymd p (d_year p) (d_month q) (d_day q)) (fun r => Ok (Some r)))
  = if date_ord q <=? unit_end U_QUARTER p then Ok (Some q) else Ok None.
Proof.
  intros Hp Hq Hs. assert (Hu : is_unit U_QUARTER) by (right; left; reflexivity).
  pose proof (in_unit_dec U_QUARTER p q Hu Hp Hq Hs) as D. unfold in_unit in D.
  destruct (date_ord q <=? unit_end U_QUARTER p).
  - destruct D as [D _]. destruct (D eq_refl) as [Ey Em].
    replace ((unit_last_month U_QUARTER (d_month p) <? d_month q) || negb (d_year p =? d_year q)) with false by lia.
    unfold date_set_ymd. rewrite <- Ey. rewrite date_new_wf by assumption. reflexivity.
  - destruct ((unit_last_month U_QUARTER (d_month p) <? d_month q) || negb (d_year p =? d_year q)) eqn:E; [reflexivity|].
    (* same year and month <= last month of the quarter, yet after the end of the quarter: impossible *)
    exfalso. assert (Ey : d_year q = d_year p) by lia. assert (Em : d_month q <= unit_last_month U_QUARTER (d_month p)) by lia.
    destruct (Z_lt_ge_dec (d_month q) (unit_first_month U_QUARTER (d_month p))) as [L|G].
    + destruct (wf_fields p Hp) as (Hy & Hm & Hd). destruct (wf_fields q Hq) as (Hy' & Hm' & Hd').
      destruct (unit_months U_QUARTER (d_month p) Hu Hm) as [Hf Hl].
      pose proof (dim_bounds (d_year p) (unit_first_month U_QUARTER (d_month p))).
      assert (Vq : valid_dateb (d_year q) (d_month q) (d_day q) = true) by (apply valid_dateb_true; lia).
      assert (Vs : valid_dateb (d_year p) (unit_first_month U_QUARTER (d_month p)) 1 = true) by (apply valid_dateb_true; lia).
      pose proof (ymd2ord_lt _ _ _ _ _ _ Vq Vs ltac:(lia)) as Hlt. unfold unit_start, date_ord in Hs. lia.
    + assert (true = false) by (symmetry; apply D; lia). discriminate.
Qed.

Lemma body_year p q : wf_date p -> wf_date q -> unit_start U_YEAR p <= date_ord q ->
  (if negb (d_year p =? d_year q) then Ok None
   else bind (date_set_ymd p (d_year p) (d_month q) (d_day q)) (fun r => Ok (Some r)))
  = if date_ord q <=? unit_end U_YEAR p then Ok (Some q) else Ok None.
Proof.
  intros Hp Hq Hs. assert (Hu : is_unit U_YEAR) by (right; right; reflexivity).
  pose proof (in_unit_dec U_YEAR p q Hu Hp Hq Hs) as D. unfold in_unit in D.
  change (unit_first_month U_YEAR (d_month p)) with 1 in *. change (unit_last_month U_YEAR (d_month p)) with 12 in *.
  destruct (wf_fields q Hq) as (Hy' & Hm' & Hd').
  destruct (date_ord q <=? unit_end U_YEAR p).
  - destruct D as [D _]. destruct (D eq_refl) as [Ey Em].
    replace (negb (d_year p =? d_year q)) with false by lia.
    unfold date_set_ymd. rewrite <- Ey. rewrite date_new_wf by assumption. reflexivity.
  - destruct (negb (d_year p =? d_year q)) eqn:E; [reflexivity|].
    assert (true = false) by (symmetry; apply D; lia). discriminate.
Qed.

Theorem d_nth_of_spec u p n wd : is_unit u -> wf_date p -> 0 <= wd <= 6 -> 1 <= n ->
  d_nth_of u p n wd = nth_result u p n wd.
Proof.
  intros Hu Hp Hwd Hn. destruct (wf_fields p Hp) as (Hy & Hm & Hd).
  destruct (Z.eq_dec n 1) as [->|N1].
  { rewrite <- nth_first by assumption. unfold d_nth_of, d_nth_of_month, d_nth_of_quarter, d_nth_of_year.
    destruct Hu as [->|[->| ->]]; eval_units; reflexivity. }
  assert (Hn2 : 2 <= n) by lia.
  assert (N1' : (n =? 1) = false) by lia.
  destruct Hu as [Eu|[Eu|Eu]]; subst u.
  - (* month *)
    assert (Hu : is_unit U_MONTH) by (left; reflexivity).
    unfold d_nth_of, d_nth_of_month. eval_units. rewrite N1'.
    rewrite d_first_of_none by assumption. cbn [bind].
    apply (nth_tail U_MONTH p n wd _ Hu Hp Hwd Hn2). intros q Wq Hs. apply body_month; assumption.
  - (* quarter *)
    assert (Hu : is_unit U_QUARTER) by (right; left; reflexivity).
    destruct (unit_months U_QUARTER (d_month p) Hu Hm) as [Hf Hl].
    unfold d_nth_of, d_nth_of_quarter. eval_units. rewrite N1'.
    unfold date_set_ymd at 1. rewrite py_quarter_val.
    pose proof (dim_bounds (d_year p) ((d_month p + 2) / 3 * 3)) as B.
    assert (El : (d_month p + 2) / 3 * 3 = unit_last_month U_QUARTER (d_month p)) by (unfold unit_last_month; eval_units; lia).
    rewrite date_new_ok by lia. cbn [bind]. cbv zeta. cbn [d_year d_month].
    assert (Wq : wf_date (mkdate (d_year p) ((d_month p + 2) / 3 * 3) 1)) by (apply wf_mk; lia).
    rewrite d_first_of_none by assumption. cbn [bind].
    assert (Es : unit_start U_QUARTER (mkdate (d_year p) ((d_month p + 2) / 3 * 3) 1) = unit_start U_QUARTER p).
    { unfold unit_start, unit_first_month. eval_units. cbn [d_year d_month]. f_equal. lia. }
    rewrite Es, El.
    apply (nth_tail U_QUARTER p n wd _ Hu Hp Hwd Hn2). intros q Wq' Hs. apply body_quarter; assumption.
  - (* year *)
    assert (Hu : is_unit U_YEAR) by (right; right; reflexivity).
    unfold d_nth_of, d_nth_of_year. eval_units. rewrite N1'.
    rewrite d_first_of_none by assumption. cbn [bind]. cbv zeta.
    rewrite P_unit_start by assumption. cbn [d_year]. rewrite <- (P_unit_start U_YEAR p Hu Hp).
    apply (nth_tail U_YEAR p n wd _ Hu Hp Hwd Hn2). intros q Wq' Hs. apply body_year; assumption.
Qed.

(* ------------------------------------------------------------------ statements used by Props/C16.v (Date) *)
Definition valid_wd (wd : Z) : Prop := 0 <= wd <= 6.
Definition owd_ok (o : option Z) : Prop := match o with None => True | Some w => valid_wd w end.

Theorem next_closed_form p wd : wf_date p -> valid_wd wd ->
  d_next p (Some wd) = date_of_ord (date_ord p + (wd - dow p - 1) mod 7 + 1).
Proof. intros. rewrite d_next_some by assumption. reflexivity. Qed.

Theorem next_none_closed_form p : wf_date p -> d_next p None = date_of_ord (date_ord p + 7).
Proof.
  intros Hp. rewrite d_next_none by assumption. rewrite d_next_some; [|assumption|apply weekday0_range].
  f_equal. unfold next_target, dow, weekday0. lia.
Qed.

Theorem next_nearest p wd q : wf_date p -> valid_wd wd -> d_next p (Some wd) = Ok q ->
  wf_date q /\ date_ord p < date_ord q <= date_ord p + 7 /\ dow q = wd /\
  (forall q', wf_date q' -> date_ord p < date_ord q' < date_ord q -> dow q' <> wd).
Proof.
  intros Hp Hwd E. rewrite d_next_some in E by assumption. apply date_of_ord_ok in E. destruct E as [R ->].
  destruct (P_spec _ R) as [W E]. destruct (next_target_props (date_ord p) wd Hwd) as (B & Wd & Nn).
  split; [assumption|]. rewrite E. split; [lia|]. split; [unfold dow; now rewrite E|].
  intros q' _ Hq'. unfold dow. apply Nn. assumption.
Qed.

Theorem next_defined p wd : wf_date p -> valid_wd wd ->
  (date_ord p + (wd - dow p - 1) mod 7 + 1 <= MAXORD -> exists q, d_next p (Some wd) = Ok q) /\
  (MAXORD < date_ord p + (wd - dow p - 1) mod 7 + 1 -> d_next p (Some wd) = Raise E_OverflowError).
Proof.
  intros Hp Hwd. rewrite next_closed_form by assumption. pose proof (date_ord_range p Hp). split; intros H'.
  - eexists. apply date_of_ord_in. unfold dow, weekday0 in *. lia.
  - now apply date_of_ord_hi.
Qed.

Theorem next_fuel_7_suffices p o : wf_date p -> owd_ok o -> d_next p o <> Raise E_OutOfFuel.
Proof.
  intros Hp Ho. destruct o as [w|].
  - rewrite d_next_some by assumption. apply date_of_ord_not_fuel.
  - rewrite next_none_closed_form by assumption. apply date_of_ord_not_fuel.
Qed.

Theorem previous_closed_form p wd : wf_date p -> valid_wd wd ->
  d_previous p (Some wd) = date_of_ord (date_ord p - (dow p - wd - 1) mod 7 - 1).
Proof. intros. rewrite d_previous_some by assumption. reflexivity. Qed.

Theorem previous_none_closed_form p : wf_date p -> d_previous p None = date_of_ord (date_ord p - 7).
Proof.
  intros Hp. change (d_previous p None) with (d_previous p (Some (dow p))).
  rewrite d_previous_some; [|assumption|apply weekday0_range].
  f_equal. unfold prev_target, dow, weekday0. lia.
Qed.

Theorem previous_nearest p wd q : wf_date p -> valid_wd wd -> d_previous p (Some wd) = Ok q ->
  wf_date q /\ date_ord p - 7 <= date_ord q < date_ord p /\ dow q = wd /\
  (forall q', wf_date q' -> date_ord q < date_ord q' < date_ord p -> dow q' <> wd).
Proof.
  intros Hp Hwd E. rewrite d_previous_some in E by assumption. apply date_of_ord_ok in E. destruct E as [R ->].
  destruct (P_spec _ R) as [W E]. destruct (prev_target_props (date_ord p) wd Hwd) as (B & Wd & Nn).
  split; [assumption|]. rewrite E. split; [lia|]. split; [unfold dow; now rewrite E|].
  intros q' _ Hq'. unfold dow. apply Nn. assumption.
Qed.

Theorem previous_defined p wd : wf_date p -> valid_wd wd ->
  (1 <= date_ord p - (dow p - wd - 1) mod 7 - 1 -> exists q, d_previous p (Some wd) = Ok q) /\
  (date_ord p - (dow p - wd - 1) mod 7 - 1 < 1 -> d_previous p (Some wd) = Raise E_OverflowError).
Proof.
  intros Hp Hwd. rewrite previous_closed_form by assumption. pose proof (date_ord_range p Hp). split; intros H'.
  - eexists. apply date_of_ord_in. unfold dow, weekday0 in *. lia.
  - now apply date_of_ord_lo.
Qed.

Theorem previous_fuel_7_suffices p o : wf_date p -> owd_ok o -> d_previous p o <> Raise E_OutOfFuel.
Proof.
  intros Hp Ho. destruct o as [w|].
  - rewrite d_previous_some by assumption. apply date_of_ord_not_fuel.
  - rewrite previous_none_closed_form by assumption. apply date_of_ord_not_fuel.
Qed.

Lemma first_occ_in_unit u p wd : is_unit u -> wf_date p -> valid_wd wd ->
  1 <= first_occ (unit_start u p) wd <= MAXORD /\ unit_start u p <= first_occ (unit_start u p) wd <= unit_end u p.
Proof.
  intros Hu Hp Hwd. destruct (unit_start_range u p Hu Hp). pose proof (unit_span u p Hu Hp).
  destruct (first_occ_props (unit_start u p) wd Hwd) as (F & _). lia.
Qed.

Lemma last_occ_in_unit u p wd : is_unit u -> wf_date p -> valid_wd wd ->
  1 <= last_occ (unit_end u p) wd <= MAXORD /\ unit_start u p <= last_occ (unit_end u p) wd <= unit_end u p.
Proof.
  intros Hu Hp Hwd. destruct (unit_start_range u p Hu Hp). pose proof (unit_span u p Hu Hp).
  destruct (last_occ_props (unit_end u p) wd Hwd) as (F & _). lia.
Qed.

(* first_of(unit, wd): the least day of the unit on weekday wd *)
Theorem first_of_least u p wd : is_unit u -> wf_date p -> valid_wd wd ->
  exists q, d_first_of u p (Some wd) = Ok q /\ wf_date q /\ in_unit u p q /\ dow q = wd /\
            date_ord q = unit_start u p + (wd - weekday0 (unit_start u p)) mod 7 /\
            (forall q', wf_date q' -> in_unit u p q' -> dow q' = wd -> date_ord q <= date_ord q').
Proof.
  intros Hu Hp Hwd. exists (P (first_occ (unit_start u p) wd)).
  destruct (first_occ_in_unit u p wd Hu Hp Hwd) as [R I]. destruct (P_spec _ R) as [W E].
  destruct (first_occ_props (unit_start u p) wd Hwd) as (_ & Wd & Least).
  split; [now apply d_first_of_some|]. split; [assumption|].
  split; [apply (in_unit_ord u p _ Hu Hp W); rewrite E; assumption|].
  split; [unfold dow; now rewrite E|]. split; [exact E|].
  intros q' W' I' D'. rewrite E. apply Least; [|exact D'].
  apply (in_unit_ord u p q' Hu Hp W') in I'. lia.
Qed.

(* first_of(unit): the first day of the unit *)
Theorem first_of_none_is_first_day u p : is_unit u -> wf_date p ->
  exists q, d_first_of u p None = Ok q /\ wf_date q /\ in_unit u p q /\ date_ord q = unit_start u p /\
            (forall q', wf_date q' -> in_unit u p q' -> date_ord q <= date_ord q').
Proof.
  intros Hu Hp. exists (P (unit_start u p)). destruct (unit_start_range u p Hu Hp) as [Rs Re].
  pose proof (unit_span u p Hu Hp). destruct (P_spec (unit_start u p) ltac:(lia)) as [W E].
  split; [now apply d_first_of_none|]. split; [assumption|].
  split; [apply (in_unit_ord u p _ Hu Hp W); rewrite E; lia|]. split; [exact E|].
  intros q' W' I'. rewrite E. apply (in_unit_ord u p q' Hu Hp W') in I'. lia.
Qed.

Theorem last_of_greatest u p wd : is_unit u -> wf_date p -> valid_wd wd ->
  exists q, d_last_of u p (Some wd) = Ok q /\ wf_date q /\ in_unit u p q /\ dow q = wd /\
            date_ord q = unit_end u p - (weekday0 (unit_end u p) - wd) mod 7 /\
            (forall q', wf_date q' -> in_unit u p q' -> dow q' = wd -> date_ord q' <= date_ord q).
Proof.
  intros Hu Hp Hwd. exists (P (last_occ (unit_end u p) wd)).
  destruct (last_occ_in_unit u p wd Hu Hp Hwd) as [R I]. destruct (P_spec _ R) as [W E].
  destruct (last_occ_props (unit_end u p) wd Hwd) as (_ & Wd & Greatest).
  split; [now apply d_last_of_some|]. split; [assumption|].
  split; [apply (in_unit_ord u p _ Hu Hp W); rewrite E; assumption|].
  split; [unfold dow; now rewrite E|]. split; [exact E|].
  intros q' W' I' D'. rewrite E. apply Greatest; [|exact D'].
  apply (in_unit_ord u p q' Hu Hp W') in I'. lia.
Qed.

Theorem last_of_none_is_last_day u p : is_unit u -> wf_date p ->
  exists q, d_last_of u p None = Ok q /\ wf_date q /\ in_unit u p q /\ date_ord q = unit_end u p /\
            (forall q', wf_date q' -> in_unit u p q' -> date_ord q' <= date_ord q).
Proof.
  intros Hu Hp. exists (P (unit_end u p)). destruct (unit_start_range u p Hu Hp) as [Rs Re].
  pose proof (unit_span u p Hu Hp). destruct (P_spec (unit_end u p) ltac:(lia)) as [W E].
  split; [now apply d_last_of_none|]. split; [assumption|].
  split; [apply (in_unit_ord u p _ Hu Hp W); rewrite E; lia|]. split; [exact E|].
  intros q' W' I'. rewrite E. apply (in_unit_ord u p q' Hu Hp W') in I'. lia.
Qed.

(* nth_of: success exactly when first + 7 (n - 1) is still inside the unit, and then it is that date *)
Theorem nth_of_ok_iff u p n wd q : is_unit u -> wf_date p -> valid_wd wd -> 1 <= n ->
  (d_nth_of u p n wd = Ok q <->
   (wf_date q /\ in_unit u p q /\ date_ord q = first_occ (unit_start u p) wd + 7 * (n - 1))).
Proof.
  intros Hu Hp Hwd Hn. rewrite d_nth_of_spec by assumption. unfold nth_result, nth_target.
  destruct (first_occ_in_unit u p wd Hu Hp Hwd) as [R I]. destruct (unit_start_range u p Hu Hp) as [Rs Re].
  set (t := first_occ (unit_start u p) wd + 7 * (n - 1)) in *.
  destruct (t <=? unit_end u p) eqn:C.
  - destruct (P_spec t ltac:(lia)) as [W E]. split.
    + intros H. inversion H; subst q. split; [assumption|]. split; [|assumption].
      apply (in_unit_ord u p _ Hu Hp W). lia.
    + intros (Wq & Iq & Eq). f_equal. apply wf_date_inj; try assumption. lia.
  - split.
    + destruct (t <=? MAXORD); discriminate.
    + intros (Wq & Iq & Eq). apply (in_unit_ord u p q Hu Hp Wq) in Iq. lia.
Qed.

(* the result is on weekday wd and exactly n - 1 weeks after the first occurrence (which first_of returns) *)
Theorem nth_of_weekday u p n wd q : is_unit u -> wf_date p -> valid_wd wd -> 1 <= n ->
  d_nth_of u p n wd = Ok q -> dow q = wd /\
  exists q1, d_first_of u p (Some wd) = Ok q1 /\ date_ord q = date_ord q1 + 7 * (n - 1).
Proof.
  intros Hu Hp Hwd Hn H. apply (nth_of_ok_iff u p n wd q Hu Hp Hwd Hn) in H. destruct H as (W & I & E).
  destruct (first_occ_props (unit_start u p) wd Hwd) as (_ & Wd & _).
  split.
  - unfold dow. rewrite E. unfold weekday0 in *. lia.
  - exists (P (first_occ (unit_start u p) wd)). split; [now apply d_first_of_some|].
    destruct (first_occ_in_unit u p wd Hu Hp Hwd) as [R _]. rewrite (proj2 (P_spec _ R)). exact E.
Qed.

(* "raises PendulumException when the unit holds fewer than n": for EVERY date of the range, year 9999 included
   (before the repair of finding nth-of-overflow-at-max-year the loop's OverflowError escaped when the n-th occurrence
   would fall after 9999-12-31) *)
Theorem nth_of_exception_kind u p n wd : is_unit u -> wf_date p -> valid_wd wd -> 1 <= n ->
  unit_end u p < first_occ (unit_start u p) wd + 7 * (n - 1) ->
  d_nth_of u p n wd = Raise E_PendulumException.
Proof.
  intros Hu Hp Hwd Hn H. rewrite d_nth_of_spec by assumption. unfold nth_result, nth_target.
  destruct (_ <=? unit_end u p) eqn:C; [lia|reflexivity].
Qed.

Theorem nth_of_exception_iff u p n wd : is_unit u -> wf_date p -> valid_wd wd -> 1 <= n ->
  (d_nth_of u p n wd = Raise E_PendulumException <-> unit_end u p < first_occ (unit_start u p) wd + 7 * (n - 1)).
Proof.
  intros Hu Hp Hwd Hn. split; [|now apply nth_of_exception_kind].
  rewrite d_nth_of_spec by assumption. unfold nth_result, nth_target.
  destruct (_ <=? unit_end u p) eqn:C; [discriminate|lia].
Qed.

(* no other exception, in particular no OverflowError, for any date and any n >= 1 *)
Theorem nth_of_only_pendulum_exception u p n wd e : is_unit u -> wf_date p -> valid_wd wd -> 1 <= n ->
  d_nth_of u p n wd = Raise e -> e = E_PendulumException.
Proof.
  intros Hu Hp Hwd Hn. rewrite d_nth_of_spec by assumption. unfold nth_result.
  destruct (_ <=? unit_end u p); [discriminate|]. intros H. inversion H. reflexivity.
Qed.

Theorem nth_of_never_overflows u p n wd : is_unit u -> wf_date p -> valid_wd wd -> 1 <= n ->
  d_nth_of u p n wd <> Raise E_OverflowError.
Proof.
  intros Hu Hp Hwd Hn H. apply (nth_of_only_pendulum_exception u p n wd _ Hu Hp Hwd Hn) in H. discriminate.
Qed.

(* the property as stated: the n-th weekday wd inside the unit, or PendulumException when the unit holds fewer than n
   (every day of the unit on weekday wd comes before the place of the n-th one) *)
Theorem nth_of_total u p n wd : is_unit u -> wf_date p -> valid_wd wd -> 1 <= n ->
  (exists q, d_nth_of u p n wd = Ok q /\ wf_date q /\ in_unit u p q /\ dow q = wd /\
             date_ord q = first_occ (unit_start u p) wd + 7 * (n - 1)) \/
  (d_nth_of u p n wd = Raise E_PendulumException /\
   forall q', wf_date q' -> in_unit u p q' -> dow q' = wd -> date_ord q' < first_occ (unit_start u p) wd + 7 * (n - 1)).
Proof.
  intros Hu Hp Hwd Hn.
  destruct (Z_le_gt_dec (first_occ (unit_start u p) wd + 7 * (n - 1)) (unit_end u p)) as [L|G].
  - left. destruct (first_occ_in_unit u p wd Hu Hp Hwd) as [R I]. destruct (unit_start_range u p Hu Hp) as [Rs Re].
    set (t := first_occ (unit_start u p) wd + 7 * (n - 1)) in *.
    destruct (P_spec t ltac:(lia)) as [W E]. exists (P t).
    assert (Ok_ : d_nth_of u p n wd = Ok (P t)).
    { apply (nth_of_ok_iff u p n wd (P t) Hu Hp Hwd Hn). split; [assumption|]. split; [|exact E].
      apply (in_unit_ord u p _ Hu Hp W). lia. }
    split; [exact Ok_|]. apply (nth_of_ok_iff u p n wd (P t) Hu Hp Hwd Hn) in Ok_. destruct Ok_ as (W' & I' & E').
    split; [assumption|]. split; [assumption|]. split; [|exact E'].
    destruct (first_occ_props (unit_start u p) wd Hwd) as (_ & Wd & _).
    unfold dow. rewrite E'. unfold weekday0 in *. lia.
  - right. split; [apply nth_of_exception_kind; try assumption; lia|].
    intros q' W' I' _. apply (in_unit_ord u p q' Hu Hp W') in I'. lia.
Qed.

(* the former witnesses of the finding, as ordinary instances *)
Theorem nth_of_max_year_examples :
  d_nth_of U_MONTH (mkdate 9999 12 1) 5 0 = Raise E_PendulumException /\
  d_nth_of U_YEAR (mkdate 9999 1 1) 53 0 = Raise E_PendulumException /\
  d_nth_of U_QUARTER (mkdate 9999 11 15) 14 4 = Ok (mkdate 9999 12 31) /\
  d_nth_of U_QUARTER (mkdate 9999 11 15) 15 4 = Raise E_PendulumException.
Proof. repeat split; vm_compute; reflexivity. Qed.

(* n <= 0: the loop does not run and the first day of the unit is returned, whatever its weekday *)
Theorem nth_of_nonpositive_refuted :
  exists u p n wd q, is_unit u /\ wf_date p /\ valid_wd wd /\ n <= 0 /\ d_nth_of u p n wd = Ok q /\ dow q <> wd.
Proof.
  exists U_MONTH, (mkdate 2024 5 17), 0, 0, (mkdate 2024 5 1). unfold is_unit, wf_date, valid_wd.
  repeat split; try (left; reflexivity); try (vm_compute; congruence); try lia.
Qed.

(* satisfiability of the hypotheses *)
Example wf_example : wf_date (mkdate 2024 2 29) /\ is_unit U_QUARTER /\ valid_wd 3.
Proof. unfold wf_date, is_unit, valid_wd. cbn [d_year d_month d_day]. repeat split; try (right; left; reflexivity); try reflexivity; try lia. Qed.
