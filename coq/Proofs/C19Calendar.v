(* Proofs/C19Calendar.v — a month / year step from a value inside the calendar can ONLY fail at the limits of the calendar.
   Interval.range() ends the iteration normally when computing the next value raises OverflowError / ValueError (`limit_exn`), on the assumption
   that this means "outside 0001-01-01 .. 9999-12-31, hence beyond the end".  For dates, naive values and UTC / fixed offsets this file proves the
   assumption for month and year stepping: start.add(years / months = a) raises only when the TARGET YEAR is outside 1 .. 9999 — in particular
   never because of the clamped day (a step landing on February of any year, century years included, succeeds), so a range by months / years
   is never cut short inside the calendar.  The proof goes through days_per_months_dim (the DAYS_PER_MONTHS row selected by the translated is_leap
   is the month length of Spec/Cal.v): a leap rule that is wrong for one year would make the clamped day an impossible date there and break it. *)
From Coq Require Import ZArith List Bool Lia ZifyBool.
From PV Require Import Lib.PyBase Spec.Cal Spec.Zone Spec.NativeDT Proofs.CalFacts Proofs.ZoneFacts Proofs.AddDurationFacts Proofs.C03Facts.
From PV Require Import Gen.Constants Gen.Helpers Gen.AddDuration Model.TzConvert Model.IntervalRange Gen.IntervalRange Proofs.C19Facts Proofs.C19Mono Proofs.C19Witness.
Import ListNotations.
Ltac Zify.zify_post_hook ::= Z.to_euclidean_division_equations.
Open Scope Z_scope.

(* the year in which the wall clock W moved by a years (u = 0) / months (u = 1) lies *)
Definition ym_target_year (W u a : Z) : Z :=
  let d := mkndt W true in fst (ym_add (ndt_year d) (ndt_month d) (if u =? 0 then 12 * a else a)).

Lemma ymd2ord_first : ymd2ord 1 1 1 = 1. Proof. vm_compute. reflexivity. Qed.
Lemma ymd2ord_last : ymd2ord 9999 12 31 = 3652059. Proof. vm_compute. reflexivity. Qed.

Lemma ymd2ord_in_calendar y m d : 1 <= y <= 9999 -> valid_dateb y m d = true -> 1 <= ymd2ord y m d <= 3652059.
Proof.
  intros Hy V. pose proof (proj1 (valid_dateb_true _ _ _) V) as [Hm Hd]. pose proof (dim_bounds y m) as DB.
  split.
  - assert (C : (y = 1 /\ m = 1 /\ d = 1) \/ (1 < y \/ (1 = y /\ (1 < m \/ (1 = m /\ 1 < d))))) by lia.
    destruct C as [(-> & -> & ->)|C]; [rewrite ymd2ord_first; lia|].
    pose proof (ymd2ord_lt 1 1 1 y m d eq_refl V C) as L. rewrite ymd2ord_first in L. lia.
  - assert (C : (y = 9999 /\ m = 12 /\ d = 31) \/ (y < 9999 \/ (y = 9999 /\ (m < 12 \/ (m = 12 /\ d < 31))))) by lia.
    destruct C as [(-> & -> & ->)|C]; [rewrite ymd2ord_last; lia|].
    pose proof (ymd2ord_lt y m d 9999 12 31 V eq_refl C) as L. rewrite ymd2ord_last in L. lia.
Qed.

Lemma ym_wall_in_range y m d tod : 1 <= y <= 9999 -> valid_dateb y m d = true -> 0 <= tod < us_per_day ->
  wall_in_range ((ymd2ord y m d - 1) * us_per_day + tod) = true.
Proof.
  intros Hy V Ht. pose proof (ymd2ord_in_calendar y m d Hy V) as B. apply wall_in_range_iff. unfold us_per_day in *. nia.
Qed.

(* add_duration with years / months only: it succeeds whenever the target year is inside the calendar *)
Lemma add_dur_ym_total W isdt years months : wall_in_range W = true ->
  let d := mkndt W true in
  1 <= fst (ym_add (ndt_year d) (ndt_month d) (12 * years + months)) <= 9999 ->
  exists d', py_add_duration (mkndt W isdt) years months 0 0 0 0 0 0 = Ok d'.
Proof.
  intros Hr d Hy. subst d. rewrite py_add_duration_unfold. unfold add_duration_spec. cbn [n_isdt].
  replace (negb isdt && (negb (0 =? 0) || negb (0 =? 0) || negb (0 =? 0) || negb (0 =? 0))) with false by (destruct isdt; reflexivity).
  replace (norm_parts 0 0 0 0 0 0) with (0, 0, 0, 0, 0) by (vm_compute; reflexivity).
  change (ndt_year (mkndt W isdt)) with (ndt_year (mkndt W true)).
  change (ndt_month (mkndt W isdt)) with (ndt_month (mkndt W true)).
  change (ndt_day (mkndt W isdt)) with (ndt_day (mkndt W true)).
  destruct (fields_in_range W Hr) as [Hy0 [Hv Hw]]. cbv zeta in Hy0, Hv, Hw.
  pose proof (proj1 (valid_dateb_true _ _ _) Hv) as [Hm Hd].
  rewrite ym_step_spec by lia.
  pose proof (ym_add_month (ndt_year (mkndt W true)) (ndt_month (mkndt W true)) (12 * years + months)) as Hm'.
  destruct (ym_add (ndt_year (mkndt W true)) (ndt_month (mkndt W true)) (12 * years + months)) as [y' m']. cbn [fst] in Hy.
  rewrite days_per_months_dim by lia.
  pose proof (dim_bounds y' m') as DB.
  assert (V : valid_dateb y' m' (Z.min (dim y' m') (ndt_day (mkndt W true))) = true) by (apply valid_dateb_true; lia).
  unfold ndt_replace_ymd. rewrite V.
  replace ((1 <=? y') && (y' <=? 9999)) with true by lia. cbn [andb].
  change (ndt_tod (mkndt W isdt)) with (ndt_tod (mkndt W true)).
  unfold ndt_add_td. cbn [n_isdt n_wall].
  change (td_total_us 0 0 0 0 0) with 0. change (0 / us_per_day) with 0.
  change ((0 <? -999999999) || (999999999 <? 0)) with false. cbv iota.
  set (X := (ymd2ord y' m' (Z.min (dim y' m') (ndt_day (mkndt W true))) - 1) * us_per_day + ndt_tod (mkndt W true)).
  replace (if isdt then X + 0 else X + 0 * us_per_day) with X by (destruct isdt; lia).
  assert (Ht : 0 <= ndt_tod (mkndt W true) < us_per_day) by (unfold ndt_tod, us_per_day; cbn [n_wall]; lia).
  unfold X. rewrite (ym_wall_in_range y' m' _ _ Hy V Ht). eexists. reflexivity.
Qed.

(* s.add(years = a) / s.add(months = a) on a date, a naive value or a value in UTC / a fixed offset: succeeds whenever the target year is in 1 .. 9999 *)
Theorem shift_ym_total s u a : wall_in_range (dv_W s) = true -> plain s -> 0 <= u <= 1 ->
  1 <= ym_target_year (dv_W s) u a <= 9999 -> exists x, shift s u a = Ok x.
Proof.
  intros Hr Hp Hu Hy. unfold ym_target_year in Hy. cbv zeta in Hy. rewrite <- (sel_ym u a Hu) in Hy.
  unfold shift. cbv zeta beta.
  replace ((u <? 0) || (7 <? u)) with false by lia.
  replace (u =? 2) with false by lia. replace (u =? 3) with false by lia. replace (u =? 4) with false by lia.
  replace (u =? 5) with false by lia. replace (u =? 6) with false by lia. replace (u =? 7) with false by lia.
  replace (u <=? 3) with true by lia.
  destruct Hp as [Hk | [Hk | [Hk Hz]]]; rewrite Hk.
  - change (K_DATE =? K_DATE) with true. cbv iota.
    destruct (add_dur_ym_total (dv_W s) false _ _ Hr Hy) as [d' ->]. eexists. reflexivity.
  - change (K_NAIVE =? K_DATE) with false. change (K_NAIVE =? K_NAIVE) with true. cbv iota.
    destruct (add_dur_ym_total (dv_W s) true _ _ Hr Hy) as [d' ->]. eexists. reflexivity.
  - change (K_AWARE =? K_DATE) with false. change (K_AWARE =? K_NAIVE) with false. cbv iota.
    unfold add_calendar. destruct (add_dur_ym_total (dv_W s) true _ _ Hr Hy) as [d' ->].
    unfold create, convert_naive_fixed. rewrite (convert_naive_notrans _ _ _ Hz).
    destruct (dv_fixed s); eexists; reflexivity.
Qed.

(* contrapositive: a month / year step that raises — whatever it raises — has its target year outside the calendar *)
Corollary shift_ym_raise_outside s u a e : wall_in_range (dv_W s) = true -> plain s -> 0 <= u <= 1 ->
  shift s u a = Raise e -> ~ (1 <= ym_target_year (dv_W s) u a <= 9999).
Proof. intros Hr Hp Hu H Hy. destruct (shift_ym_total s u a Hr Hp Hu Hy) as [x Hx]. rewrite Hx in H. discriminate H. Qed.

(* Interval.range by years / months: a finished run stopped because the next value is beyond the end, or because the next value's year is
   outside 1 .. 9999 — never for another reason (no February, of a century year or otherwise, ends a range early) *)
Theorem range_ym_stop_only_outside_calendar_l fuel iv u n l :
  wall_in_range (dv_W (iv_start iv)) = true -> plain (iv_start iv) -> 0 <= u <= 1 ->
  py_range fuel iv u n = (l, GDone) ->
  (exists y, seq_at iv u n (length l) = Ok y /\ within iv y = false) \/
  ((1 <= length l)%nat /\ ~ (1 <= ym_target_year (dv_W (iv_start iv)) u (amount_at iv n (length l)) <= 9999)).
Proof.
  intros Hr Hp Hu H. destruct (proj2 (range_prefix_l _ _ _ _ _ H)) as [A|(e & He & _ & Hl)]; [left; exact A|right].
  split; [exact Hl|].
  destruct (length l) as [|k] eqn:El; [lia|].
  cbn [seq_at] in He. unfold call_method, range_meth in He. unfold amount_at.
  destruct (range_down iv).
  - change (M_subtract =? M_subtract) with true in He. cbv iota in He. exact (shift_ym_raise_outside _ _ _ _ Hr Hp Hu He).
  - change (M_add =? M_subtract) with false in He. cbv iota in He. exact (shift_ym_raise_outside _ _ _ _ Hr Hp Hu He).
Qed.

(* every index whose value is inside the calendar and not beyond the end IS yielded: with all target years in 1 .. 9999 the run is exactly the
   prefix of start.add(k*n) not beyond the end *)
Corollary range_ym_complete_l fuel iv u n l :
  wall_in_range (dv_W (iv_start iv)) = true -> plain (iv_start iv) -> 0 <= u <= 1 ->
  py_range fuel iv u n = (l, GDone) ->
  1 <= ym_target_year (dv_W (iv_start iv)) u (amount_at iv n (length l)) <= 9999 ->
  exists y, seq_at iv u n (length l) = Ok y /\ within iv y = false.
Proof.
  intros Hr Hp Hu H Hy. destruct (range_ym_stop_only_outside_calendar_l _ _ _ _ _ Hr Hp Hu H) as [A|[_ B]]; [exact A|contradiction].
Qed.

(* witnesses: month and year stepping across February of the century year 2100 (28 days) and of 2000 (29 days), starts on day 31 / 29 February.
   2099-10-31 .. 2100-06-30 by months: nine values, #4 is 2100-02-28, the reachable end 2100-06-30 is the last one;
   2096-02-29 .. 2104-02-29 by 4 years: 2096-02-29, 2100-02-28, 2104-02-29;  1999-10-31 .. 2000-03-31 by months: #4 is 2000-02-29 *)
Lemma range_century_february_witness_l :
  map dv_W (fst (py_range 20 (mk_interval (d 766582) (d 766824) false) U_months 1)) =
    map (fun n => n * us_per_day) [766582; 766612; 766643; 766674; 766702; 766733; 766763; 766794; 766824] /\
  snd (py_range 20 (mk_interval (d 766582) (d 766824) false) U_months 1) = GDone /\
  map dv_W (fst (py_range 20 (mk_interval (d 765242) (d 768163) false) U_years 4)) = map (fun n => n * us_per_day) [765242; 766702; 768163] /\
  map dv_W (fst (py_range 20 (mk_interval (d 768163) (d 765242) false) U_years 4)) = map (fun n => n * us_per_day) [768163; 766702; 765242] /\
  map dv_W (fst (py_range 20 (mk_interval (d 730057) (d 730209) false) U_months 1)) =
    map (fun n => n * us_per_day) [730057; 730087; 730118; 730149; 730178; 730209].
Proof. vm_compute. repeat split; reflexivity. Qed.

(* the hypotheses are satisfiable, and the second disjunct does occur: 9999-10-31 .. 9999-12-31 by months stops because 10000-01 is outside *)
Example range_ym_stop_outside_calendar_occurs :
  let iv := mk_interval (d 3651997) (d 3652058) false in
  wall_in_range (dv_W (iv_start iv)) = true /\ plain (iv_start iv) /\
  py_range 10 iv U_months 1 = ([d 3651997; d 3652027; d 3652058], GDone) /\
  ym_target_year (dv_W (iv_start iv)) U_months (amount_at iv 1 3) = 10000.
Proof. cbv zeta. split; [vm_compute; reflexivity|]. split; [left; reflexivity|]. split; vm_compute; reflexivity. Qed.
