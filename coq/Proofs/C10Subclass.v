(* Proofs/C10Subclass.v — C10 with an operand that is an instance of a SUBCLASS overriding the public accessors (Interval: years / months / weeks /
   remaining_days / hours / minutes are the calendar residual of its end points) on the RIGHT of a Duration-like operand.
   The operators read the private record of the operand (py_timedelta_to_microseconds_duration: _days, _seconds, _microseconds) and its native
   length (total_seconds()), never a public accessor: the class of the right operand is irrelevant, and what Duration.__new__ stores for an
   Interval (a float-seconds construction) is exactly its native length, so // / % divmod by an Interval of ANY span (months, years) divide by
   end - start.  Model: Model/DurationOps.v (dur_method, arith_op, interval_new_abs). *)
From Coq Require Import ZArith List Bool Lia ZifyBool.
From Coq Require Import Floats.SpecFloat.
From PV Require Import Lib.PyBase Spec.TdFloat Gen.Constants Model.Duration Gen.DurationOps Model.DurationOps
                       Proofs.TdFloatFacts Proofs.C09Facts Proofs.C10Facts Proofs.FloatRoundTripBase Proofs.FloatRoundTrip
                       Proofs.FloatRoundTripC09 Proofs.C10Reflected.
Import ListNotations.
Open Scope Z_scope.

(* ------------------------------------------------------------------ 1. the class of the right operand is no input of any method *)
Lemma dur_method_ivl_is_dur : forall m d i, dur_method m d (VIvl i) = dur_method m d (VDur i).
Proof.
  intros m d i. reflexivity.      (* every branch of every method treats `VDur d2 | VIvl d2` alike *)
Qed.

Lemma durlike_method_ivl_is_dur : forall m b d i, durlike_method m b d (VIvl i) = durlike_method m b d (VDur i).
Proof.
  intros m b d i. unfold durlike_method. destruct b; [|apply dur_method_ivl_is_dur].
  destruct (delegated m); [|reflexivity]. destruct (as_duration d) as [d'|e]; [|reflexivity].
  cbn [bind]. apply dur_method_ivl_is_dur.
Qed.

Lemma arith_right_class_irrelevant : forall m l i, is_pendulum l = true -> arith_op m l (VIvl i) = arith_op m l (VDur i).
Proof.
  intros m l i H. destruct l; try discriminate; unfold arith_op; rewrite durlike_method_ivl_is_dur; reflexivity.
Qed.

(* ------------------------------------------------------------------ 2. what an Interval stores is its native length *)
Lemma interval_new_exact0 : forall n i, Z.abs n < 2 ^ 33 * 10 ^ 6 -> interval_new n = Ok i -> exact0 i.
Proof.
  intros n i B H. unfold interval_new, dur_of_fsec, duration_new_fsec in H.
  rewrite td_us_roundtrip_exact in H by exact B. cbn [bind] in H.
  replace (n + (0 * DAYS_PER_Y + 0 * DAYS_PER_M) * US_PER_DAY) with n in H by ring.
  replace ((0 * DAYS_PER_Y + 0 * DAYS_PER_M) * C_SECONDS_PER_DAY) with 0 in H by ring.
  destruct (td_in_range n); [|discriminate].
  assert (D : D9 n 0) by (left; split; [reflexivity | unfold B33; lia]).
  destruct (float_split_exact_on_D9_proved n 0 D) as [total E]. cbv zeta in E.
  replace (n - 0 * 1000000) with n in E by ring.
  rewrite E in H. cbn [bind] in H. inversion H; subst; clear H.
  apply exact_ym_0; [|reflexivity|reflexivity].
  pose proof (to_microseconds_exact_dur n total 0 0 []) as X. unfold exact_dur in X. cbv zeta in X.
  replace (n - YM 0 0 * 86400000000) with n in X by (unfold YM; ring).
  unfold C_SECONDS_PER_DAY. exact X.
Qed.

Lemma interval_new_abs_exact0 : forall delta a i, Z.abs delta < 2 ^ 33 * 10 ^ 6 -> interval_new_abs delta a = Ok i -> exact0 i.
Proof.
  intros delta a i B H. unfold interval_new_abs in H. apply interval_new_exact0 in H; [exact H|].
  unfold ivl_eff. destruct (a && (delta <? 0)); lia.
Qed.

Lemma interval_new_abs_native_eff : forall delta a i, Z.abs delta < 2 ^ 33 * 10 ^ 6 -> interval_new_abs delta a = Ok i -> d_N i = ivl_eff delta a.
Proof.
  intros delta a i B H. rewrite (interval_new_abs_native delta a i B H). unfold ivl_eff. destruct a; cbn [andb]; [|reflexivity].
  destruct (delta <? 0) eqn:E; lia.
Qed.

(* ------------------------------------------------------------------ 3. // / % divmod by an Interval of any span *)
Lemma div_mod_by_interval_spec : forall m d delta a i r, (m = 5 \/ m = 6 \/ m = 7 \/ m = 8) -> exact0 d ->
  Z.abs delta < 2 ^ 33 * 10 ^ 6 -> interval_new_abs delta a = Ok i ->
  dur_method m d (VIvl i) = Ok r ->
  ivl_eff delta a <> 0 /\ exists t, td_binop m (d_N d) (ivl_eff delta a) = Ok t /\ same_length r t.
Proof.
  intros m d delta a i r Hm E1 B Hi H. rewrite dur_method_ivl_is_dur in H.
  pose proof (interval_new_abs_exact0 _ _ _ B Hi) as E2.
  pose proof (div_mod_by_duration_spec m d i r Hm E1 E2 H) as X.
  rewrite (interval_new_abs_native_eff _ _ _ B Hi) in X. exact X.
Qed.

(* the plain timedelta of the same length gives literally the same outcome as the Interval *)
Lemma interval_divisor_is_its_timedelta : forall m d delta a i, (m = 5 \/ m = 6 \/ m = 7 \/ m = 8) ->
  Z.abs delta < 2 ^ 33 * 10 ^ 6 -> interval_new_abs delta a = Ok i ->
  dur_method m d (VIvl i) = dur_method m d (VTd (ivl_eff delta a)).
Proof.
  intros m d delta a i Hm B Hi. rewrite dur_method_ivl_is_dur.
  rewrite <- (interval_new_abs_native_eff _ _ _ B Hi). symmetry.
  apply div_mod_operand_kind_irrelevant; [exact Hm | exact (interval_new_abs_exact0 _ _ _ B Hi)].
Qed.

(* the conversion itself: _timedelta_to_microseconds(<Interval>) = end - start (|end - start| when absolute), whatever its months / weeks say *)
Lemma interval_divisor_us : forall delta a i, Z.abs delta < 2 ^ 33 * 10 ^ 6 -> interval_new_abs delta a = Ok i ->
  divisor_us (VIvl i) = Some (ivl_eff delta a).
Proof.
  intros delta a i B Hi. unfold divisor_us. f_equal.
  rewrite <- (interval_new_abs_native_eff _ _ _ B Hi). exact (interval_new_abs_exact0 _ _ _ B Hi).
Qed.

(* 45 days from the first of a month = 1 month 14 days: dividing 100 days by it gives 2 (not 7 = 100 // 14), and a whole month is no zero divisor *)
Lemma month_spanning_divisor_example : exists d i45 i31,
  dur_of_us (100 * 86400000000) = Ok d /\ interval_new_abs (45 * 86400000000) false = Ok i45 /\ interval_new_abs (- (31 * 86400000000)) true = Ok i31 /\
  dur_method 5 d (VIvl i45) = Ok (RInt 2) /\ dur_method 5 d (VIvl i31) = Ok (RInt 3).
Proof.
  destruct (dur_of_us (100 * 86400000000)) as [d|] eqn:E1; [|vm_compute in E1; discriminate].
  destruct (interval_new_abs (45 * 86400000000) false) as [i|] eqn:E2; [|vm_compute in E2; discriminate].
  destruct (interval_new_abs (- (31 * 86400000000)) true) as [j|] eqn:E3; [|vm_compute in E3; discriminate].
  exists d, i, j. repeat split.
  - vm_compute in E1, E2. inversion E1; inversion E2; subst. vm_compute. reflexivity.
  - vm_compute in E1, E3. inversion E1; inversion E3; subst. vm_compute. reflexivity.
Qed.
