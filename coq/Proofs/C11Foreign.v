(* Proofs/C11Foreign.v — C11, operands carrying FOREIGN tzinfo kinds (stream family dt-foreign-* of tools/props/C11.py).
   In Model/DropIn.v a tzinfo object is an identity + a fixed flag + the table it presents; what KIND of object it is (pendulum's Timezone /
   FixedTimezone, datetime.timezone, zoneinfo.ZoneInfo, dateutil, a user subclass) only shows in tz_fixed (used by create() when a value is
   rebuilt) and in o_pid (the pendulum object instance() would attach to a NATIVE operand).  For two DateTime operands neither is consulted:
   the subtraction depends on the tzinfo identities, the tables, the walls and the folds only. *)
From Coq Require Import ZArith List Bool Lia.
From PV Require Import Lib.PyBase Spec.Cal Spec.Zone Spec.NativeDT Spec.TdFloat Model.TzConvert Model.DropIn Proofs.C11Facts.
Import ListNotations.
Open Scope Z_scope.

(* the same operand with its tzinfo object re-labelled as another kind *)
Definition rekind_val (v : dtv) (fx : bool) : dtv :=
  mkdtv (v_wall v) (v_fold v) (match v_tz v with Some t => Some (mktzi (tz_id t) fx (tz_zone t)) | None => None end).
Definition rekind (o : operand) (fx : bool) (pid : Z) : operand := mkop (rekind_val (o_val o) fx) (o_is_pendulum o) pid.

Lemma rekind_native_sub a b fa fb : native_sub (rekind_val a fa) (rekind_val b fb) = native_sub a b.
Proof. destruct a as [wa fa' [[ia xa za]|]], b as [wb fb' [[ib xb zb]|]]; reflexivity. Qed.

Lemma rekind_native_eq a b fa fb : native_eq (rekind_val a fa) (rekind_val b fb) = native_eq a b.
Proof. destruct a as [wa fa' [[ia xa za]|]], b as [wb fb' [[ib xb zb]|]]; reflexivity. Qed.

Lemma rekind_native_ord op a b fa fb : native_ord op (rekind_val a fa) (rekind_val b fb) = native_ord op a b.
Proof. destruct a as [wa fa' [[ia xa za]|]], b as [wb fb' [[ib xb zb]|]]; reflexivity. Qed.

Lemma rekind_hash_eq a b fa fb : hash_eq (rekind_val a fa) (rekind_val b fb) = hash_eq a b.
Proof. destruct a as [wa fa' [[ia xa za]|]], b as [wb fb' [[ib xb zb]|]]; reflexivity. Qed.

Lemma sub_tzinfo_kind_irrelevant x y fx fy px py :
  o_is_pendulum x = true -> o_is_pendulum y = true ->
  pd_sub (rekind x fx px) (rekind y fy py) = pd_sub x y.
Proof.
  intros Px Py. destruct x as [[wa fa [[ia xa za]|]] ipx qx], y as [[wb fb [[ib xb zb]|]] ipy qy];
    cbn [o_is_pendulum] in Px, Py; subst; reflexivity.
Qed.

(* the case the compiled backend must not reject: a DateTime in Europe/Paris minus a DateTime carrying datetime.timezone.utc (another object, a
   fixed-offset kind): the native difference *)
Example sub_foreign_utc_instance :
  let x := pop (mkdtv (W_2013_03_31 + 5 * HOUR + 7) false (Some (tz_paris 1))) in
  let y := mkop (mkdtv (W_2013_03_31 - HOUR) false (Some (mktzi 11 true (mkzone 0 [])))) true 2 in
  native_sub (o_val x) (o_val y) = Ok (4 * HOUR + 7) /\ pd_sub x y = Ok (TyInterval, 4 * HOUR + 7) /\ pd_sub y x = Ok (TyInterval, - (4 * HOUR + 7))
  /\ native_eq (o_val x) (o_val y) = false /\ native_gt (o_val x) (o_val y) = Ok true.
Proof. vm_compute. repeat split; reflexivity. Qed.
