(* Proofs/C18Facts.v — lemmas for C18 (human-readable differences). *)
From Coq Require Import ZArith List Bool Lia ZifyBool String.
From PV Require Import Lib.PyBase Model.LocaleBase Gen.Locales Model.DiffFormat.
Import ListNotations.
Open Scope string_scope.
Open Scope list_scope.
Open Scope Z_scope.
Ltac Zify.zify_post_hook ::= Z.to_euclidean_division_equations.

(* ================================================================== plural / ordinal lambdas *)
Lemma seval_in_leaves : forall e n, In (seval e n) (leaves e).
Proof.
  induction e as [s|c t IHt f IHf]; intros n; cbn [seval leaves].
  - left; reflexivity.
  - apply in_or_app. destruct (beval c n); [left; apply IHt | right; apply IHf].
Qed.

(* ================================================================== good strings: non-empty, no '{' or '}' *)
Definition okc (c : Z) : bool := negb (c =? 123) && negb (c =? 125).
Definition nobraceb (s : pstr) : bool := forallb okc s.
Definition nonemptyb (s : pstr) : bool := match s with [] => false | _ => true end.
Definition goodstr (s : pstr) : bool := nonemptyb s && nobraceb s.
Definition good_res (r : result pstr) : bool := match r with Ok s => goodstr s | Raise _ => false end.

Lemma nobraceb_app a b : nobraceb (a ++ b) = nobraceb a && nobraceb b.
Proof. apply forallb_app. Qed.

Lemma nonemptyb_app a b : nonemptyb (a ++ b) = nonemptyb a || nonemptyb b.
Proof. destruct a; reflexivity. Qed.

Lemma goodstr_spec s : goodstr s = true <-> s <> [] /\ Forall (fun c => c <> 123 /\ c <> 125) s.
Proof.
  unfold goodstr, nobraceb. rewrite andb_true_iff, forallb_forall, Forall_forall. split; intros [H1 H2]; split.
  - destruct s; [discriminate | congruence].
  - intros c Hc. specialize (H2 c Hc). unfold okc in H2. lia.
  - destruct s; [congruence | reflexivity].
  - intros c Hc. specialize (H2 c Hc). unfold okc. lia.
Qed.

(* ------------------------------------------------------------------ str(int) is a good string *)
Definition digitb (c : Z) : bool := (48 <=? c) && (c <=? 57).

Lemma digits_pos_digits fuel : forall n acc, 0 <= n -> forallb digitb acc = true -> forallb digitb (digits_pos fuel n acc) = true.
Proof.
  induction fuel as [|f IH]; intros n acc Hn Hacc; cbn [digits_pos]; [exact Hacc|].
  assert (Hd : forallb digitb ((48 + n mod 10) :: acc) = true).
  { cbn [forallb]. rewrite Hacc, andb_true_r. unfold digitb. lia. }
  destruct (n <? 10); [exact Hd|]. apply IH; [lia | exact Hd].
Qed.

Lemma digits_pos_nonempty fuel : forall n acc, acc <> [] -> digits_pos fuel n acc <> [].
Proof.
  induction fuel as [|f IH]; intros n acc Hacc; cbn [digits_pos]; [exact Hacc|].
  destruct (n <? 10); [discriminate|]. apply IH. discriminate.
Qed.

Lemma digits_nobrace s : forallb digitb s = true -> nobraceb s = true.
Proof.
  unfold nobraceb. rewrite !forallb_forall. intros H c Hc. specialize (H c Hc). unfold digitb in H. unfold okc. lia.
Qed.

Lemma str_of_Z_good n : goodstr (str_of_Z n) = true.
Proof.
  unfold str_of_Z. destruct (n <? 0) eqn:Hn.
  - unfold goodstr. cbn [nonemptyb nobraceb forallb]. cbn [andb].
    change (okc 45) with true. cbn [andb].
    apply digits_nobrace. cbn [digits_pos].
    assert (Hd : forallb digitb [48 + - n mod 10] = true) by (cbn [forallb]; unfold digitb; lia).
    destruct (- n <? 10); [exact Hd|]. apply digits_pos_digits; [lia | exact Hd].
  - unfold goodstr. apply andb_true_iff. split.
    + cbn [digits_pos]. destruct (n <? 10); [reflexivity|].
      match goal with |- nonemptyb ?x = true => destruct x eqn:E; [|reflexivity] end.
      exfalso. revert E. apply digits_pos_nonempty. discriminate.
    + apply digits_nobrace. apply digits_pos_digits; [lia | reflexivity].
Qed.

(* ------------------------------------------------------------------ substitution keeps goodness, independently of the argument *)
Lemma subst_nil_indep t : forall a b, b <> [] -> subst t b = [] -> subst t a = [].
Proof.
  induction t as [|sg r IH]; intros a b Hb H; [reflexivity|].
  destruct sg; cbn [subst] in *.
  - apply app_eq_nil in H. destruct H as [-> H]. cbn. eapply IH; eauto.
  - apply app_eq_nil in H. destruct H as [H _]. contradiction.
  - apply app_eq_nil in H. destruct H as [H _]. contradiction.
  - apply app_eq_nil in H. destruct H as [H _]. contradiction.
Qed.

Lemma subst_nobrace_indep t : forall a b, nobraceb b = true -> nobraceb (subst t a) = true -> nobraceb (subst t b) = true.
Proof.
  induction t as [|sg r IH]; intros a b Hb H; [reflexivity|].
  destruct sg; cbn [subst] in *; rewrite nobraceb_app in *; apply andb_true_iff in H; destruct H as [H1 H2];
    apply andb_true_iff; split; eauto.
Qed.

Lemma subst_good_indep t a b : goodstr a = true -> goodstr b = true -> goodstr (subst t a) = true -> goodstr (subst t b) = true.
Proof.
  unfold goodstr. rewrite !andb_true_iff. intros [Ha1 Ha2] [Hb1 Hb2] [H1 H2]. split.
  - destruct (subst t b) eqn:E; [|reflexivity]. exfalso.
    assert (subst t a = []) by (eapply subst_nil_indep; [|exact E]; destruct b; [discriminate|discriminate]).
    rewrite H in H1. discriminate.
  - eapply subst_nobrace_indep; eauto.
Qed.

Lemma node_format_good_indep o a b : goodstr a = true -> goodstr b = true ->
  good_res (node_format o a) = true -> good_res (node_format o b) = true.
Proof.
  intros Ha Hb. destruct o as [[raw t| | |]|]; cbn [node_format good_res]; try discriminate.
  unfold render. destruct (fields_err t None 0); cbn [good_res]; [discriminate|].
  apply subst_good_indep; assumption.
Qed.

(* a good result is Ok of a good string *)
Lemma good_res_inv r : good_res r = true -> exists s, r = Ok s /\ goodstr s = true.
Proof. destruct r; cbn; [eauto | discriminate]. Qed.

Lemma good_bind_inv {A} (r : result A) f : good_res (bind r f) = true -> exists x, r = Ok x /\ good_res (f x) = true.
Proof. destruct r; cbn; [eauto | discriminate]. Qed.

Lemma subscript_format_good_indep o cls a b : goodstr a = true -> goodstr b = true ->
  good_res (subscript_format o cls a) = true -> good_res (subscript_format o cls b) = true.
Proof.
  intros Ha Hb. unfold subscript_format. destruct o as [[| | |l]|]; try discriminate.
  destruct (assoc (KS cls) l); [|discriminate]. apply node_format_good_indep; assumption.
Qed.

Lemma inner_time_good_indep L u cls a b inv : goodstr a = true -> goodstr b = true ->
  good_res (inner_time L u cls a inv) = true -> good_res (inner_time L u cls b inv) = true.
Proof.
  intros Ha Hb. unfold inner_time. intros H. apply good_bind_inv in H. destruct H as [tr [-> H]]. cbn [bind].
  destruct (truthy tr).
  - exact (subscript_format_good_indep tr cls a b Ha Hb H).
  - apply good_bind_inv in H. destruct H as [o [-> H]]. cbn [bind]. exact (node_format_good_indep o a b Ha Hb H).
Qed.

(* the probe used by the finite checks: the string "0" *)
Definition PROBE : pstr := [48].

(* what is checked, per (locale, unit, plural class, flags), by computation *)
Definition tail_chk (L : locale) (u cls : string) (now ab_ inv : bool) : bool :=
  good_res (tail_with L u cls PROBE now ab_ inv) && (now || ab_ || good_res (inner_time L u cls PROBE inv)).

(* the phrase built after the unit selection is good for EVERY argument once the check passes on the probe *)
Lemma tail_with_good L u cls b now ab_ inv : goodstr b = true ->
  tail_chk L u cls now ab_ inv = true -> good_res (tail_with L u cls b now ab_ inv) = true.
Proof.
  intros Hb. unfold tail_chk. rewrite andb_true_iff. intros [H Hin].
  assert (Ha : goodstr PROBE = true) by reflexivity.
  revert H Hin. unfold tail_with. destruct ab_; [|destruct now].
  - intros H _. apply good_bind_inv in H. destruct H as [o [-> H]]. cbn [bind]. exact (node_format_good_indep o PROBE b Ha Hb H).
  - intros H _. apply good_bind_inv in H. destruct H as [o [-> H]]. cbn [bind]. exact (node_format_good_indep o PROBE b Ha Hb H).
  - cbn [orb]. intros H Hin.
    pose proof (inner_time_good_indep L u cls PROBE b inv Ha Hb Hin) as Hinb.
    apply good_res_inv in Hin. destruct Hin as [ta [Eta Hta]].
    apply good_res_inv in Hinb. destruct Hinb as [tb [Etb Htb]].
    rewrite Eta in H. rewrite Etb. cbn [bind] in *.
    apply good_bind_inv in H. destruct H as [o [-> H]]. cbn [bind]. exact (node_format_good_indep o ta tb Hta Htb H).
Qed.

(* ================================================================== the finite check over all shipped locales *)
Definition units7 : list string := ["year"; "month"; "week"; "day"; "hour"; "minute"; "second"].
Definition units8 : list string := units7 ++ ["microsecond"].
Definition bools : list bool := [false; true].

(* no (locale, flag) combination is excluded any more: the zh defect ('{time}' templates) was repaired by a fix: commit in /repo *)
Definition excluded (L : locale) (now ab_ : bool) : bool := false.

Definition locale_tail_ok (L : locale) : bool :=
  forallb (fun u => forallb (fun cls => forallb (fun now => forallb (fun ab_ => forallb (fun inv =>
    excluded L now ab_ || tail_chk L u cls now ab_ inv) bools) bools) bools) (leaves (l_plural L))) units7.

Lemma all_locales_tail_ok : forallb locale_tail_ok all_locales = true.
Proof. vm_compute. reflexivity. Qed.

Lemma in_bools b : In b bools.
Proof. destruct b; cbn; auto. Qed.

Lemma tail_total L u c now ab_ inv : In L all_locales -> In u units7 -> excluded L now ab_ = false ->
  good_res (tail L u c now ab_ inv) = true.
Proof.
  intros HL Hu Hex. pose proof all_locales_tail_ok as H.
  rewrite forallb_forall in H. specialize (H L HL). unfold locale_tail_ok in H.
  rewrite forallb_forall in H. specialize (H u Hu).
  rewrite forallb_forall in H. specialize (H _ (seval_in_leaves (l_plural L) (norm_count c))).
  rewrite forallb_forall in H. specialize (H now (in_bools _)).
  rewrite forallb_forall in H. specialize (H ab_ (in_bools _)).
  rewrite forallb_forall in H. specialize (H inv (in_bools _)).
  rewrite Hex in H. cbn [orb] in H.
  unfold tail. apply tail_with_good; [apply str_of_Z_good | exact H].
Qed.

(* ------------------------------------------------------------------ the unit selection only yields the 7 units *)
Ltac split_ifs :=
  repeat match goal with
         | |- context [if ?c then _ else _] => destruct c eqn:?
         | H : context [if ?c then _ else _] |- _ => destruct c eqn:?
         end.

Lemma pick_unit d u c : gen_pick d = Some (u, c) -> In u units7.
Proof.
  unfold gen_pick. intros H. split_ifs; inversion H; subst; cbn; tauto.
Qed.

(* ------------------------------------------------------------------ the "a few seconds" branch *)
Definition few_chk (L : locale) (now ab_ inv : bool) : bool :=
  match lget L few_path with
  | Ok (Some n) => good_res (few_branch L (Some n) now ab_ inv)
  | Ok None => true
  | Raise _ => false
  end.

Definition locale_few_ok (L : locale) : bool :=
  forallb (fun now => forallb (fun ab_ => forallb (fun inv => excluded L now ab_ || few_chk L now ab_ inv) bools) bools) bools.

Lemma all_locales_few_ok : forallb locale_few_ok all_locales = true.
Proof. vm_compute. reflexivity. Qed.

Lemma second_in_units7 : In "second" units7.
Proof. cbn; tauto. Qed.

Lemma format_total_ok L d now ab_ inv : In L all_locales -> excluded L now ab_ = false ->
  good_res (format L d now ab_ inv) = true.
Proof.
  intros HL Hex. unfold format. destruct (gen_pick d) as [[u c]|] eqn:Hp.
  - apply tail_total; auto. eapply pick_unit; eauto.
  - pose proof all_locales_few_ok as H.
    rewrite forallb_forall in H. specialize (H L HL). unfold locale_few_ok in H.
    rewrite forallb_forall in H. specialize (H now (in_bools _)).
    rewrite forallb_forall in H. specialize (H ab_ (in_bools _)).
    rewrite forallb_forall in H. specialize (H inv (in_bools _)).
    rewrite Hex in H. cbn [orb] in H. unfold few_chk in H.
    destruct (lget L few_path) as [[n|]|e]; cbn [bind]; [exact H | | discriminate].
    apply tail_total; auto. apply second_in_units7.
Qed.

Lemma format_total_lemma : forall L d now ab_ inv, In L all_locales ->
  exists s, format L d now ab_ inv = Ok s /\ s <> [] /\ Forall (fun c => c <> 123 /\ c <> 125) s.
Proof.
  intros L d now ab_ inv HL. pose proof (format_total_ok L d now ab_ inv HL eq_refl) as H.
  apply good_res_inv in H. destruct H as [s [E G]]. exists s. split; [exact E|]. apply goodstr_spec. exact G.
Qed.

Definition comp0 : comp := mkcomp 0 0 0 2 0 0 0.

(* ================================================================== unit and count: the documented rounding *)
Definition days_of (d : comp) : Z := c_weeks d * 7 + c_rdays d.

(* the largest positive component above the seconds *)
Definition first_pos (d : comp) : option (string * Z) :=
  if 0 <? c_years d then Some ("year", c_years d)
  else if 0 <? c_months d then Some ("month", c_months d)
  else if 0 <? c_weeks d then Some ("week", c_weeks d)
  else if 0 <? c_rdays d then Some ("day", c_rdays d)
  else if 0 <? c_hours d then Some ("hour", c_hours d)
  else if 0 <? c_minutes d then Some ("minute", c_minutes d)
  else None.

(* when the count is rounded up *)
Definition round_up (u : string) (d : comp) : bool :=
  if String.eqb u "year" then 6 <? c_months d
  else if String.eqb u "month" then 27 <=? days_of d
  else if String.eqb u "week" then 3 <? c_rdays d
  else if String.eqb u "day" then 22 <=? c_hours d
  else false.

Lemma pick_count_pos_lemma d u c : gen_pick d = Some (u, c) -> 1 <= c.
Proof. unfold gen_pick. intros H. split_ifs; inversion H; subst; lia. Qed.

Lemma pick_spec_lemma d u c : gen_pick d = Some (u, c) ->
  (exists base, first_pos d = Some (u, base) /\ c = base + (if round_up u d then 1 else 0) /\
                ~ (u = "month" /\ base = 11 /\ 15 < days_of d))
  \/ (first_pos d = Some ("month", 11) /\ 15 < days_of d /\ u = "year" /\ c = 1)
  \/ (first_pos d = None /\ u = "second" /\ c = c_rsecs d /\ 10 < c <= 59).
Proof.
  unfold gen_pick, first_pos, days_of. intros H.
  destruct (0 <? c_years d) eqn:Hy.
  { left. destruct (6 <? c_months d) eqn:Hm; inversion H; subst; eexists; (split; [reflexivity|]);
    unfold round_up; cbn [String.eqb Ascii.eqb Bool.eqb andb]; rewrite Hm; split; try lia; intros [E _]; discriminate. }
  destruct ((c_months d =? 11) && (15 <? c_weeks d * 7 + c_rdays d)) eqn:H11.
  { right; left. inversion H; subst. assert (0 <? c_months d = true) as -> by lia.
    assert (c_months d = 11) as -> by lia. repeat split; lia. }
  destruct (0 <? c_months d) eqn:Hmo.
  { left. destruct (27 <=? c_weeks d * 7 + c_rdays d) eqn:Hd; inversion H; subst; eexists; (split; [reflexivity|]);
    unfold round_up, days_of; cbn [String.eqb Ascii.eqb Bool.eqb andb]; rewrite Hd; split; try lia. }
  destruct (0 <? c_weeks d) eqn:Hw.
  { left. destruct (3 <? c_rdays d) eqn:Hd; inversion H; subst; eexists; (split; [reflexivity|]);
    unfold round_up; cbn [String.eqb Ascii.eqb Bool.eqb andb]; rewrite Hd; split; try lia; intros [E _]; discriminate. }
  destruct (0 <? c_rdays d) eqn:Hrd.
  { left. destruct (22 <=? c_hours d) eqn:Hd; inversion H; subst; eexists; (split; [reflexivity|]);
    unfold round_up; cbn [String.eqb Ascii.eqb Bool.eqb andb]; rewrite Hd; split; try lia; intros [E _]; discriminate. }
  destruct (0 <? c_hours d) eqn:Hh.
  { left. inversion H; subst. eexists; (split; [reflexivity|]). unfold round_up; cbn [String.eqb Ascii.eqb Bool.eqb andb].
    split; try lia; intros [E _]; discriminate. }
  destruct (0 <? c_minutes d) eqn:Hmi.
  { left. inversion H; subst. eexists; (split; [reflexivity|]). unfold round_up; cbn [String.eqb Ascii.eqb Bool.eqb andb].
    split; try lia; intros [E _]; discriminate. }
  destruct ((10 <? c_rsecs d) && (c_rsecs d <=? 59)) eqn:Hs; [|discriminate].
  right; right. inversion H; subst. repeat split; lia.
Qed.

Lemma pick_none_lemma d : gen_pick d = None <-> first_pos d = None /\ ~ (10 < c_rsecs d <= 59).
Proof.
  unfold gen_pick, first_pos. split.
  - intros H. split_ifs; try discriminate; split; try reflexivity; lia.
  - intros [H1 H2]. split_ifs; try discriminate; try reflexivity; lia.
Qed.

(* fixed-length units: the phrase is within one unit of the elapsed time *)
Definition unit_seconds (u : string) : Z :=
  if String.eqb u "week" then 604800 else if String.eqb u "day" then 86400 else if String.eqb u "hour" then 3600
  else if String.eqb u "minute" then 60 else 1.

Definition total_seconds (d : comp) : Z :=
  (((c_weeks d * 7 + c_rdays d) * 24 + c_hours d) * 60 + c_minutes d) * 60 + c_rsecs d.

Definition sub_month_ranges (d : comp) : Prop :=
  c_years d = 0 /\ c_months d = 0 /\ 0 <= c_weeks d /\ 0 <= c_rdays d < 7 /\ 0 <= c_hours d < 24 /\
  0 <= c_minutes d < 60 /\ 0 <= c_rsecs d < 60.

Lemma within_one_unit_fixed_lemma d : sub_month_ranges d ->
  match gen_pick d with
  | Some (u, c) => Z.abs (c * unit_seconds u - total_seconds d) < unit_seconds u
  | None => total_seconds d <= 10
  end.
Proof.
  unfold sub_month_ranges, gen_pick, total_seconds. intros (Hy & Hm & Hw & Hrd & Hh & Hmi & Hs).
  rewrite Hy, Hm. cbn [Z.ltb Z.compare Z.eqb andb].
  destruct (0 <? c_weeks d) eqn:E1.
  { destruct (3 <? c_rdays d) eqn:E; unfold unit_seconds; cbn [String.eqb Ascii.eqb Bool.eqb andb]; lia. }
  destruct (0 <? c_rdays d) eqn:E2.
  { destruct (22 <=? c_hours d) eqn:E; unfold unit_seconds; cbn [String.eqb Ascii.eqb Bool.eqb andb]; lia. }
  destruct (0 <? c_hours d) eqn:E3.
  { unfold unit_seconds; cbn [String.eqb Ascii.eqb Bool.eqb andb]; lia. }
  destruct (0 <? c_minutes d) eqn:E4.
  { unfold unit_seconds; cbn [String.eqb Ascii.eqb Bool.eqb andb]; lia. }
  destruct ((10 <? c_rsecs d) && (c_rsecs d <=? 59)) eqn:E5.
  { unfold unit_seconds; cbn [String.eqb Ascii.eqb Bool.eqb andb]; lia. }
  lia.
Qed.

(* calendar units, in whole months M = 12 y + mo and the day remainder *)
Lemma within_one_unit_calendar_lemma d u c :
  0 <= c_years d -> 0 <= c_months d < 12 -> 0 <= days_of d ->
  gen_pick d = Some (u, c) ->
  (u = "year" -> Z.abs (12 * c - (12 * c_years d + c_months d)) <= 6) /\
  (u = "month" -> c_months d <= c <= c_months d + 1 /\ (c = c_months d + 1 -> 27 <= days_of d)).
Proof.
  unfold gen_pick, days_of. intros Hy Hm Hd H. split; intros ->; split_ifs; inversion H; subst; lia.
Qed.

Example sub_month_ranges_sat : sub_month_ranges (mkcomp 0 0 1 4 22 0 30).
Proof. unfold sub_month_ranges; cbn; lia. Qed.

(* ================================================================== direction *)
Lemma absolute_no_marker_lemma L d n1 n2 i1 i2 : format L d n1 true i1 = format L d n2 true i2.
Proof. unfold format, tail, tail_with, few_branch. destruct (gen_pick d) as [[u c]|]; reflexivity. Qed.

Lemma direction_now_lemma L d u c inv : gen_pick d = Some (u, c) ->
  format L d true false inv =
  bind (lget L ["translations"; "relative"; u; (if inv then "future" else "past"); lplural L (norm_count c)])
       (fun o => node_format o (str_of_Z (norm_count c))).
Proof. intros H. unfold format. rewrite H. reflexivity. Qed.

Lemma direction_other_lemma L d u c inv s : gen_pick d = Some (u, c) -> format L d false false inv = Ok s ->
  exists raw t time, lget L ["custom"; (if inv then "after" else "before")] = Ok (Some (NStr raw t)) /\ s = subst t time.
Proof.
  intros H. unfold format. rewrite H. unfold tail, tail_with. cbn [negb].
  destruct (inner_time L u (lplural L (norm_count c)) (str_of_Z (norm_count c)) inv) as [time|e]; cbn [bind]; [|discriminate].
  unfold ab. destruct (lget L ["custom"; if inv then "after" else "before"]) as [[[raw t| | |]|]|e]; cbn [bind node_format]; try discriminate.
  unfold render. destruct (fields_err t None 0); [discriminate|]. intros E. injection E as <-. eauto.
Qed.

Lemma direction_few_lemma L d now inv n s : gen_pick d = None -> lget L few_path = Ok (Some n) ->
  format L d now false inv = Ok s ->
  exists raw t few, lget L ["custom"; dir_key now inv] = Ok (Some (NStr raw t)) /\ s = subst t few.
Proof.
  intros H Hf. unfold format. rewrite H, Hf. cbn [bind]. unfold few_branch.
  destruct (lget L ["custom"; dir_key now inv]) as [[[raw t| | |]|]|e]; cbn [bind]; try discriminate.
  destruct (node_str (Some n)) as [few|e]; cbn [bind node_format]; [|discriminate].
  unfold render. destruct (fields_err t None 0); [discriminate|]. intros E. injection E as <-. eauto.
Qed.

(* the locale data tells past from future: the two templates of every pair differ, in every shipped locale *)
Fixpoint pstr_eqb (a b : pstr) : bool :=
  match a, b with
  | [], [] => true
  | x :: a', y :: b' => (x =? y) && pstr_eqb a' b'
  | _, _ => false
  end.

Definition raw_of (r : result (option node)) : option pstr :=
  match r with Ok (Some (NStr raw _)) => Some raw | _ => None end.

Definition differ (a b : option pstr) : bool :=
  match a, b with Some x, Some y => negb (pstr_eqb x y) | None, None => true | _, _ => false end.

Definition locale_markers_ok (L : locale) : bool :=
  differ (raw_of (lget L ["custom"; "after"])) (raw_of (lget L ["custom"; "before"])) &&
  differ (raw_of (lget L ["custom"; "from_now"])) (raw_of (lget L ["custom"; "ago"])) &&
  forallb (fun u => forallb (fun cls =>
     match raw_of (lget L ["translations"; "relative"; u; "future"; cls]), raw_of (lget L ["translations"; "relative"; u; "past"; cls]) with
     | Some x, Some y => negb (pstr_eqb x y)
     | _, _ => false
     end) (leaves (l_plural L))) units7.

Lemma markers_distinct_lemma : forallb locale_markers_ok all_locales = true.
Proof. vm_compute. reflexivity. Qed.

(* ================================================================== in_words *)
Definition unit_chk (L : locale) (u cls : string) : bool :=
  good_res (bind (lget L ["translations"; "units"; u; cls]) (fun o => node_format o PROBE)).

Definition locale_units_ok (L : locale) : bool :=
  forallb (fun u => forallb (fun cls => unit_chk L u cls) (leaves (l_plural L))) units8.

Lemma all_locales_units_ok : forallb locale_units_ok all_locales = true.
Proof. vm_compute. reflexivity. Qed.

Lemma unit_phrase_good L u n arg : In L all_locales -> In u units8 -> goodstr arg = true ->
  good_res (bind (lget L ["translations"; "units"; u; lplural L n]) (fun o => node_format o arg)) = true.
Proof.
  intros HL Hu Ha. pose proof all_locales_units_ok as H.
  rewrite forallb_forall in H. specialize (H L HL). unfold locale_units_ok in H.
  rewrite forallb_forall in H. specialize (H u Hu).
  rewrite forallb_forall in H. specialize (H _ (seval_in_leaves (l_plural L) n)).
  unfold unit_chk in H. apply good_bind_inv in H. destruct H as [o [E H]]. unfold lplural. rewrite E. cbn [bind].
  exact (node_format_good_indep o PROBE arg eq_refl Ha H).
Qed.

Lemma words_parts_good L : In L all_locales -> forall l, (forall u c, In (u, c) l -> In u units8) ->
  exists parts, words_parts L l = Ok parts /\ forallb goodstr parts = true.
Proof.
  intros HL. induction l as [|[u c] r IH]; intros Hl.
  - exists []. split; reflexivity.
  - destruct IH as [parts [E G]]. { intros u' c' Hin. apply (Hl u' c'). right. exact Hin. }
    cbn [words_parts]. destruct (0 <? Z.abs c).
    + pose proof (unit_phrase_good L u (Z.abs c) (str_of_Z c) HL (Hl u c (or_introl eq_refl)) (str_of_Z_good c)) as H.
      apply good_bind_inv in H. destruct H as [o [Eo H]]. rewrite Eo. cbn [bind].
      unfold fmt_count. apply good_res_inv in H. destruct H as [s [Es Gs]]. rewrite Es. cbn [bind]. rewrite E. cbn [bind].
      exists (s :: parts). split; [reflexivity|]. cbn [forallb]. rewrite Gs, G. reflexivity.
    + exists parts. split; assumption.
Qed.

Lemma goodstr_app_l a b : goodstr a = true -> nobraceb b = true -> goodstr (a ++ b) = true.
Proof.
  unfold goodstr. rewrite !andb_true_iff. intros [H1 H2] Hb. rewrite nonemptyb_app, nobraceb_app, H1, H2, Hb. split; reflexivity.
Qed.

Lemma goodstr_nobrace a : goodstr a = true -> nobraceb a = true.
Proof. unfold goodstr. rewrite andb_true_iff. tauto. Qed.

Lemma join_good sep : nobraceb sep = true -> forall parts, parts <> [] -> forallb goodstr parts = true -> goodstr (join sep parts) = true.
Proof.
  intros Hs. induction parts as [|x r IH]; intros Hne G; [congruence|].
  cbn [forallb] in G. apply andb_true_iff in G. destruct G as [Gx Gr].
  destruct r as [|y r'].
  - exact Gx.
  - change (join sep (x :: y :: r')) with (x ++ sep ++ join sep (y :: r')).
    apply goodstr_app_l; [exact Gx|]. rewrite nobraceb_app, Hs. cbn [andb].
    apply goodstr_nobrace. apply IH; [discriminate | exact Gr].
Qed.

Lemma two_digits_nobrace n : nobraceb (two_digits (n mod 100)) = true.
Proof. unfold two_digits, nobraceb. cbn [forallb]. unfold okc. lia. Qed.

Lemma fmt2_good us : goodstr (fmt2 us) = true.
Proof.
  unfold fmt2. cbv zeta. apply goodstr_app_l; [apply str_of_Z_good|].
  rewrite nobraceb_app. rewrite two_digits_nobrace. reflexivity.
Qed.

Lemma unit_counts_units d u c : In (u, c) (unit_counts d) -> In u units8.
Proof.
  unfold unit_counts. cbn [In]. intros H.
  repeat match goal with H : _ \/ _ |- _ => destruct H as [H|H] end; try contradiction; inversion H; subst; cbn; tauto.
Qed.

Lemma in_words_total_lemma L d us sep : In L all_locales -> nobraceb sep = true -> good_res (in_words L d us sep) = true.
Proof.
  intros HL Hs. unfold in_words.
  destruct (words_parts_good L HL (unit_counts d) (unit_counts_units d)) as [parts [E G]]. rewrite E. cbn [bind].
  destruct parts as [|p r].
  - destruct (0 <? Z.abs us).
    + apply unit_phrase_good; [exact HL | cbn; tauto | apply fmt2_good].
    + unfold fmt_count. apply unit_phrase_good; [exact HL | cbn; tauto | apply str_of_Z_good].
  - cbn [good_res]. apply join_good; [exact Hs | discriminate | exact G].
Qed.

(* ================================================================== locale-dependent format tokens *)
Definition range_list (lo : Z) (n : nat) : list Z := map (fun k => lo + Z.of_nat k) (seq 0 n).

Lemma in_range_list lo n k : lo <= k < lo + Z.of_nat n -> In k (range_list lo n).
Proof.
  intros H. unfold range_list. apply in_map_iff. exists (Z.to_nat (k - lo)). split; [lia|]. apply in_seq. lia.
Qed.

(* every locale has week_data (nl was repaired by a fix: commit in /repo): no (locale, token) pair is excluded *)

Definition ord_chk (L : locale) (cls : string) : bool := good_res (ordinalize_with L cls PROBE).

Lemma ordinalize_with_good L cls b : goodstr b = true -> ord_chk L cls = true -> good_res (ordinalize_with L cls b) = true.
Proof.
  intros Hb. unfold ord_chk, ordinalize_with. intros H. apply good_bind_inv in H. destruct H as [o [-> H]]. cbn [bind].
  destruct (truthy o); [|exact Hb].
  apply good_bind_inv in H. destruct H as [s [-> H]]. cbn [bind good_res] in *.
  apply goodstr_app_l; [exact Hb|]. apply goodstr_nobrace in H. rewrite nobraceb_app in H. apply andb_true_iff in H. tauto.
Qed.

Definition locale_tokens_ok (L : locale) : bool :=
  forallb (fun m => good_res (token L 0 m 0 0 0) && good_res (token L 1 m 0 0 0)) (range_list 1 12) &&
  forallb (fun w => good_res (token L 2 0 w 0 0) && good_res (token L 3 0 w 0 0) && good_res (token L 4 0 w 0 0)) (range_list 0 7) &&
  good_res (token L 10 0 0 0 0) && good_res (token L 10 0 0 0 12) &&
  forallb (ord_chk L) (leaves (l_ordinal L)) &&
  match first_day L with Ok _ => true | Raise _ => false end.

Lemma all_locales_tokens_ok : forallb locale_tokens_ok all_locales = true.
Proof. vm_compute. reflexivity. Qed.

Lemma ordinalize_good L n : In L all_locales -> good_res (ordinalize L n) = true.
Proof.
  intros HL. pose proof all_locales_tokens_ok as H. rewrite forallb_forall in H. specialize (H L HL).
  unfold locale_tokens_ok in H. rewrite !andb_true_iff in H. destruct H as [[_ Ho] _].
  rewrite forallb_forall in Ho. unfold ordinalize. apply ordinalize_with_good; [apply str_of_Z_good|].
  apply Ho. apply seval_in_leaves.
Qed.

Lemma tokens_total_lemma L tok month dow day hour : In L all_locales ->
  0 <= tok <= 10 -> 1 <= month <= 12 -> 0 <= dow <= 6 ->
  good_res (token L tok month dow day hour) = true.
Proof.
  intros HL Ht Hm Hw. pose proof all_locales_tokens_ok as H. rewrite forallb_forall in H. specialize (H L HL).
  unfold locale_tokens_ok in H. rewrite !andb_true_iff in H.
  destruct H as [[[[[Hmo Hdw] Ham] Hpm] Ho] Hfd].
  rewrite forallb_forall in Hmo. specialize (Hmo month (in_range_list 1 12 month ltac:(lia))).
  rewrite forallb_forall in Hdw. specialize (Hdw dow (in_range_list 0 7 dow ltac:(lia))).
  cbv beta in Hmo, Hdw. apply andb_true_iff in Hmo. destruct Hmo as [Hm0 Hm1].
  apply andb_true_iff in Hdw. destruct Hdw as [Hdw Hd4]. apply andb_true_iff in Hdw. destruct Hdw as [Hd2 Hd3].
  assert (Hfd' : (tok = 5 \/ tok = 9) -> exists fd, first_day L = Ok fd).
  { intros Htok. destruct (first_day L); [eauto | discriminate]. }
  assert (Hcases : tok = 0 \/ tok = 1 \/ tok = 2 \/ tok = 3 \/ tok = 4 \/ tok = 5 \/ tok = 6 \/ tok = 7 \/ tok = 8 \/ tok = 9 \/ tok = 10) by lia.
  repeat match goal with H : _ \/ _ |- _ => destruct H as [H|H] end; subst tok; cbn [token] in *; try assumption.
  - destruct (Hfd' (or_introl eq_refl)) as [fd ->]. cbn [bind good_res]. apply str_of_Z_good.
  - apply ordinalize_good; exact HL.
  - apply ordinalize_good; exact HL.
  - apply ordinalize_good; exact HL.
  - destruct (Hfd' (or_intror eq_refl)) as [fd ->]. cbn [bind]. apply ordinalize_good; exact HL.
  - destruct (12 <=? hour); assumption.
Qed.

Definition loc_nl_present : In loc_nl all_locales.
Proof. cbn; tauto. Qed.

(* ================================================================== explicit forms used in Props/C18.v *)
Definition brace_free (s : pstr) : Prop := Forall (fun c => c <> 123 /\ c <> 125) s.

Lemma good_res_explicit r : good_res r = true -> exists s, r = Ok s /\ s <> [] /\ brace_free s.
Proof. intros H. apply good_res_inv in H. destruct H as [s [E G]]. exists s. split; [exact E|]. apply goodstr_spec. exact G. Qed.

Lemma brace_free_nobraceb s : brace_free s -> nobraceb s = true.
Proof.
  unfold brace_free, nobraceb. rewrite Forall_forall, forallb_forall. intros H c Hc. specialize (H c Hc). unfold okc. lia.
Qed.

Lemma in_words_total_explicit : forall L d us sep, In L all_locales -> brace_free sep ->
  exists s, in_words L d us sep = Ok s /\ s <> [] /\ brace_free s.
Proof. intros. apply good_res_explicit. apply in_words_total_lemma; [assumption | apply brace_free_nobraceb; assumption]. Qed.

Lemma tokens_total_explicit : forall L tok month dow day hour, In L all_locales ->
  0 <= tok <= 10 -> 1 <= month <= 12 -> 0 <= dow <= 6 ->
  exists s, token L tok month dow day hour = Ok s /\ s <> [] /\ brace_free s.
Proof.
  intros L tok month dow day hour HL Ht Hm Hw. apply good_res_explicit. apply tokens_total_lemma; assumption.
Qed.

Lemma markers_distinct_explicit : forall L, In L all_locales -> locale_markers_ok L = true.
Proof. intros L HL. pose proof markers_distinct_lemma as H. rewrite forallb_forall in H. exact (H L HL). Qed.

Lemma zh_in_all : In loc_zh all_locales.
Proof. cbn; tauto. Qed.

(* ================================================================== non-vacuity examples *)
Example ex_en_in : In loc_en all_locales.
Proof. cbn; tauto. Qed.

Example ex_format_en : format loc_en (mkcomp 0 0 0 2 0 0 0) false false true = Ok (pstr_of_string "2 days after").
Proof. vm_compute. reflexivity. Qed.

Example ex_pick_round : gen_pick (mkcomp 0 0 1 4 22 0 30) = Some ("week", 2).
Proof. vm_compute. reflexivity. Qed.

Example ex_pick_year : gen_pick (mkcomp 0 11 2 2 0 0 0) = Some ("year", 1).
Proof. vm_compute. reflexivity. Qed.

Example ex_words_ru : in_words loc_en (mkcomp 1 2 0 (-3) 0 0 5) 0 [32] = Ok (pstr_of_string "1 year 2 months -3 days 5 seconds").
Proof. vm_compute. reflexivity. Qed.
