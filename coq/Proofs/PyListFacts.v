(* Proofs/PyListFacts.v — facts about the list runtime Lib/PyList.v (indexing, functional update, bisect_right). *)
From Coq Require Import ZArith List Bool Lia ZifyBool.
From PV Require Import Lib.PyBase Lib.PyList.
Import ListNotations.
Open Scope Z_scope.

Lemma plen_nonneg {A} (l : list A) : 0 <= plen l. Proof. unfold plen. lia. Qed.
Lemma plen_cons {A} (a : A) l : plen (a :: l) = plen l + 1. Proof. unfold plen. cbn [length]. lia. Qed.
Lemma plen_app {A} (l1 l2 : list A) : plen (l1 ++ l2) = plen l1 + plen l2. Proof. unfold plen. rewrite app_length. lia. Qed.
Lemma plen_nil {A} : plen (@nil A) = 0. Proof. reflexivity. Qed.
Lemma plen_map {A B} (f : A -> B) l : plen (map f l) = plen l. Proof. unfold plen. now rewrite map_length. Qed.

(* ---------- reading ---------- *)
Lemma tidx_nth l i : 0 <= i < plen l -> tidx l i = nth (Z.to_nat i) l OOB.
Proof.
  intros H. unfold tidx. fold (plen l). replace (i <? 0) with false by lia.
  replace ((i <? 0) || (plen l <=? i)) with false by lia. reflexivity.
Qed.

Lemma tidx_app_mid l1 x l2 : tidx (l1 ++ x :: l2) (plen l1) = x.
Proof.
  rewrite tidx_nth by (rewrite plen_app, plen_cons; pose proof (plen_nonneg l1); pose proof (plen_nonneg l2); lia).
  unfold plen. rewrite Nat2Z.id. apply nth_middle.
Qed.

Lemma tidx_0 x l : tidx (x :: l) 0 = x.
Proof. exact (tidx_app_mid [] x l). Qed.

Lemma tidx_last l x : tidx (l ++ [x]) (-1) = x.
Proof.
  unfold tidx. rewrite app_length. cbn [length]. replace (Z.of_nat (length l + 1)) with (plen l + 1) by (unfold plen; lia).
  change (-1 <? 0) with true. cbv iota. pose proof (plen_nonneg l).
  replace ((-1 + (plen l + 1) <? 0) || (plen l + 1 <=? -1 + (plen l + 1))) with false by lia.
  replace (-1 + (plen l + 1)) with (plen l) by lia. unfold plen. rewrite Nat2Z.id. apply nth_middle.
Qed.

Lemma tidx2_0 (a b : list Z) : tidx2 [a; b] 0 = a. Proof. reflexivity. Qed.
Lemma tidx2_1 (a b : list Z) : tidx2 [a; b] 1 = b. Proof. reflexivity. Qed.

Lemma tidx_seq1 n j : 0 <= j < Z.of_nat n -> tidx (map Z.of_nat (seq 1 n)) j = j + 1.
Proof.
  intros H. rewrite tidx_nth by (rewrite plen_map; unfold plen; rewrite seq_length; lia).
  rewrite (nth_indep _ OOB (Z.of_nat 0)) by (rewrite map_length, seq_length; lia).
  rewrite map_nth, seq_nth by lia. lia.
Qed.

(* ---------- functional update ---------- *)
Lemma set_nth_app_mid {A} (l1 : list A) x l2 v : set_nth (l1 ++ x :: l2) (length l1) v = l1 ++ v :: l2.
Proof. induction l1 as [|a l1 IH]; cbn; [reflexivity|]. now rewrite IH. Qed.

Lemma norm_index_in n i : 0 <= i < n -> norm_index n i = Some (Z.to_nat i).
Proof. intros H. unfold norm_index. replace (i <? 0) with false by lia. replace ((i <? 0) || (n <=? i)) with false by lia. reflexivity. Qed.

Lemma pset_app_mid {A} (l1 : list A) x l2 v : pset (l1 ++ x :: l2) (plen l1) v = Some (l1 ++ v :: l2).
Proof.
  unfold pset. rewrite norm_index_in by (rewrite plen_app, plen_cons; pose proof (plen_nonneg l1); pose proof (plen_nonneg l2); lia).
  unfold plen at 1. rewrite Nat2Z.id, set_nth_app_mid. reflexivity.
Qed.

Lemma pset2_row0 (a b : list Z) j v : pset2 [a; b] 0 j v = match pset a j v with None => None | Some a' => Some [a'; b] end.
Proof. unfold pset2. change (norm_index (plen [a; b]) 0) with (Some 0%nat). cbn [nth set_nth]. destruct (pset a j v); reflexivity. Qed.
Lemma pset2_row1 (a b : list Z) j v : pset2 [a; b] 1 j v = match pset b j v with None => None | Some b' => Some [a; b'] end.
Proof. unfold pset2. change (norm_index (plen [a; b]) 1) with (Some 1%nat). cbn [nth set_nth]. destruct (pset b j v); reflexivity. Qed.

(* ---------- slices ---------- *)
Lemma pslice_pair {A} (l1 : list A) x y l2 :
  pslice (l1 ++ x :: y :: l2) (Some (plen l1)) (Some (plen l1 + 2)) = [x; y].
Proof.
  unfold pslice, clamp_index. cbv beta zeta. rewrite plen_app, !plen_cons. pose proof (plen_nonneg l1). pose proof (plen_nonneg l2).
  destruct (plen l1 <? 0) eqn:E1; [lia|]. destruct (plen l1 + 2 <? 0) eqn:E2; [lia|].
  rewrite !Z.max_r, !Z.min_r by lia. replace (plen l1 + 2 - plen l1) with 2 by lia.
  unfold plen at 1. rewrite Nat2Z.id, skipn_app, skipn_all, Nat.sub_diag. reflexivity.
Qed.

(* ---------- bisect_right (model of the library contract) ---------- *)
Lemma bisect_right_bounds l x : 0 <= bisect_right l x <= plen l.
Proof.
  induction l as [|a l IH]; cbn [bisect_right]; [unfold plen; cbn [length]; lia|].
  rewrite plen_cons. destruct (x <? a); lia.
Qed.

(* characterisation: everything before the result is <= x, the element at the result (if any) is > x *)
Lemma bisect_right_split l x :
  exists l1 l2, l = l1 ++ l2 /\ plen l1 = bisect_right l x /\ (forall a, In a l1 -> a <= x) /\
                match l2 with [] => True | b :: _ => x < b end.
Proof.
  induction l as [|a l IH]; cbn [bisect_right].
  - exists [], []. repeat split; auto. intros a [].
  - destruct (x <? a) eqn:E.
    + exists [], (a :: l). repeat split; auto; [intros b []|lia].
    + destruct IH as (l1 & l2 & -> & Hl & H1 & H2). exists (a :: l1), l2. repeat split; auto.
      * rewrite plen_cons. lia.
      * intros b [<-|Hb]; [lia|auto].
Qed.

Lemma sortedb_cons a l : sortedb (a :: l) = true -> sortedb l = true /\ forall b, In b l -> a <= b.
Proof.
  revert a. induction l as [|b l IH]; intros a H; [split; [reflexivity|intros ? []]|].
  cbn [sortedb] in H. apply andb_true_iff in H. destruct H as [Hab Hs]. split; [exact Hs|].
  destruct (IH b Hs) as [_ Hb]. intros c [<-|Hc]; [lia|]. specialize (Hb c Hc). lia.
Qed.

Lemma sortedb_app l1 l2 : sortedb (l1 ++ l2) = true ->
  sortedb l1 = true /\ sortedb l2 = true /\ forall a b, In a l1 -> In b l2 -> a <= b.
Proof.
  induction l1 as [|a l1 IH]; intros H; [repeat split; auto; intros ? ? []|].
  cbn [app] in H. destruct (sortedb_cons _ _ H) as [Hs Ha]. destruct (IH Hs) as (H1 & H2 & H12).
  repeat split; auto.
  - destruct l1 as [|b l1]; [reflexivity|]. change (sortedb (a :: b :: l1)) with ((a <=? b) && sortedb (b :: l1)). rewrite H1.
    assert (a <= b) by (apply Ha; left; reflexivity). replace (a <=? b) with true by lia. reflexivity.
  - intros c d [<-|Hc] Hd; [apply Ha, in_or_app; right; exact Hd|auto].
Qed.

(* on a sorted list the prefix model is the number of elements <= x *)
Lemma bisect_right_count l x : sortedb l = true -> bisect_right l x = count_le l x.
Proof.
  unfold count_le. induction l as [|a l IH]; intros S; [reflexivity|].
  destruct (sortedb_cons _ _ S) as [Sl Ha]. cbn [bisect_right filter]. destruct (x <? a) eqn:E.
  - replace (a <=? x) with false by lia.
    assert (F : filter (fun a0 => a0 <=? x) l = []).
    { clear IH S Sl. induction l as [|b l IHl]; [reflexivity|]. cbn [filter].
      assert (a <= b) by (apply Ha; left; reflexivity). replace (b <=? x) with false by lia.
      apply IHl. intros c Hc. apply Ha. right. exact Hc. }
    rewrite F. reflexivity.
  - replace (a <=? x) with true by lia. rewrite plen_cons, IH by assumption. lia.
Qed.

(* if x is above the last element of a sorted list, the result is the length *)
Lemma bisect_right_above_last l y x : sortedb (l ++ [y]) = true -> y < x -> bisect_right (l ++ [y]) x = plen (l ++ [y]).
Proof.
  intros S H. destruct (sortedb_app _ _ S) as (_ & _ & H12).
  assert (G : forall l', (forall a, In a l' -> a <= x) -> bisect_right l' x = plen l').
  { induction l' as [|a l' IH]; intros Ha; [reflexivity|]. cbn [bisect_right].
    assert (a <= x) by (apply Ha; left; reflexivity). replace (x <? a) with false by lia.
    rewrite plen_cons, IH by (intros; apply Ha; right; assumption). lia. }
  apply G. intros a Ha. apply in_app_or in Ha. destruct Ha as [Ha|[<-|[]]]; [|lia].
  specialize (H12 a y Ha ltac:(left; reflexivity)). lia.
Qed.
