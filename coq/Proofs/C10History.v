(* Proofs/C10History.v — C10 over a whole process: the operators keep no state, so what a call returns depends on its operands only,
   whatever was called before (also calls that raised), and an object handed from one call to the next behaves as its native value.
   Model: Model/DurationOps.v (run_history, eval_step, divisor_us, memo_divisors). *)
From Coq Require Import ZArith List Bool Lia ZifyBool.
From Coq Require Import Floats.SpecFloat.
From PV Require Import Lib.PyBase Spec.TdFloat Gen.Constants Model.Duration Gen.DurationOps Model.DurationOps
                       Proofs.TdFloatFacts Proofs.C09Facts Proofs.C10Facts.
Import ListNotations.
Open Scope Z_scope.

(* ------------------------------------------------------------------ 1. the shape of a run *)
Lemma run_from_length : forall h env, length (run_from env h) = length h.
Proof. induction h as [|s t IH]; intro env; cbn [run_from length]; [reflexivity | rewrite IH; reflexivity]. Qed.

Lemma run_from_app : forall h1 h2 env,
  run_from env (h1 ++ h2) = run_from env h1 ++ run_from (env ++ run_from env h1) h2.
Proof.
  induction h1 as [|s t IH]; intros h2 env.
  - cbn [run_from app]. rewrite app_nil_r. reflexivity.
  - cbn [run_from app]. rewrite IH. rewrite <- app_assoc. reflexivity.
Qed.

(* what has been returned is never revised by what is called afterwards *)
Lemma history_prefix_stable : forall h t, run_history (h ++ t) = run_history h ++ run_from (run_history h) t.
Proof. intros. unfold run_history. rewrite run_from_app. reflexivity. Qed.

Lemma history_step : forall h s t,
  nth_error (run_history (h ++ s :: t)) (length h) = Some (eval_step (run_history h) s).
Proof.
  intros. rewrite history_prefix_stable. unfold run_history.
  rewrite nth_error_app2 by (rewrite run_from_length; lia).
  rewrite run_from_length, Nat.sub_diag. reflexivity.
Qed.

(* ------------------------------------------------------------------ 2. a call on freshly constructed operands does not see the history *)
Definition literal (o : operand) : Prop := match o with OLit _ => True | ORef _ => False end.
Definition literal_step (s : hstep) : Prop :=
  match s with HBin _ l r => literal l /\ literal r | HUn _ v => literal v end.

Lemma fetch_literal : forall env o, literal o -> fetch env o = fetch [] o.
Proof. intros env [v|i] H; [reflexivity | destruct H]. Qed.

Lemma eval_step_literal : forall env s, literal_step s -> eval_step env s = eval_step [] s.
Proof.
  intros env [m l r|m v] H; cbn [literal_step] in H; cbn [eval_step].
  - destruct H as [Hl Hr]. rewrite (fetch_literal env l Hl), (fetch_literal env r Hr). reflexivity.
  - rewrite (fetch_literal env v H). reflexivity.
Qed.

Theorem result_independent_of_history : forall h1 t1 h2 t2 s, literal_step s ->
  nth_error (run_history (h1 ++ s :: t1)) (length h1) = Some (eval_step [] s)
  /\ nth_error (run_history (h2 ++ s :: t2)) (length h2) = Some (eval_step [] s).
Proof.
  intros. rewrite !history_step.
  rewrite (eval_step_literal (run_history h1) s H), (eval_step_literal (run_history h2) s H). split; reflexivity.
Qed.

(* ... and such a step IS the single-operator model (binop / unop) that every other theorem of C10 speaks about *)
Lemma literal_binop_step : forall env m a b, is_pendulum a || is_pendulum b = true ->
  eval_step env (HBin m (OLit (Ok a)) (OLit (Ok b))) = binop m a b.
Proof. intros env m a b H. cbn [eval_step fetch bind]. rewrite H. reflexivity. Qed.

Lemma literal_unop_step : forall env m d, m <> M_TOUCH -> eval_step env (HUn m (OLit (Ok (VDur d)))) = unop m (VDur d).
Proof.
  intros env m d H. cbn [eval_step fetch bind is_pendulum hist_unop].
  destruct (m =? M_TOUCH) eqn:E; [apply Z.eqb_eq in E; contradiction | reflexivity].
Qed.

(* a call that raised (or anything else) in front changes nothing: the two-call history *)
Lemma earlier_call_leaves_no_trace : forall first m a b, is_pendulum a || is_pendulum b = true ->
  run_history [first; HBin m (OLit (Ok a)) (OLit (Ok b))] = [eval_step [] first; binop m a b].
Proof. intros. unfold run_history. cbn [run_from app]. rewrite literal_binop_step by assumption. reflexivity. Qed.

(* the operand kind of the divisor is irrelevant in every position of a history (div_mod_operand_kind_irrelevant, lifted) *)
Lemma history_divisor_kind_irrelevant : forall h t1 t2 m d d2, (m = 5 \/ m = 6 \/ m = 7 \/ m = 8) -> exact0 d2 ->
  nth_error (run_history (h ++ HBin m (OLit (Ok (VDur d))) (OLit (Ok (VTd (d_N d2)))) :: t1)) (length h)
  = nth_error (run_history (h ++ HBin m (OLit (Ok (VDur d))) (OLit (Ok (VDur d2))) :: t2)) (length h).
Proof.
  intros h t1 t2 m d d2 Hm E. rewrite !history_step. rewrite !literal_binop_step by reflexivity.
  pose proof (div_mod_operand_kind_irrelevant m d d2 Hm E) as K.
  unfold binop. assert (C : is_cmp m = false) by (destruct Hm as [ -> | [ -> | [ -> | -> ] ] ]; reflexivity).
  assert (A : is_arith m = true) by (destruct Hm as [ -> | [ -> | [ -> | -> ] ] ]; reflexivity).
  rewrite C, A. cbn [arith_op durlike_method]. rewrite K. reflexivity.
Qed.

(* ------------------------------------------------------------------ 3. reading the accessors hands on the same object *)
Lemma touch_hands_on_the_object : forall d m o, is_pendulum (VDur d) || is_pendulum o = true ->
  run_history [HUn M_TOUCH (OLit (Ok (VDur d))); HBin m (ORef 0) (OLit (Ok o))] = [Ok (RDur d); binop m (VDur d) o].
Proof. intros. unfold run_history. cbn. reflexivity. Qed.

(* ------------------------------------------------------------------ 4. an object handed on: the remainder of % divides as the native remainder *)
(* d % n, then (that object) // k or / k: the Duration the first call returns carries exactly its native length in its private fields
   (C09's float premise, |remainder| < 2^33 s), so the second call gives what timedelta gives on the native remainder *)
Lemma chain_mod_then_div : float_split_exact_on_D9 ->
  forall d n k m, (m = 5 \/ m = 6) -> exact0 d -> n <> 0 -> Z.abs n < B33 ->
  exists r, run_history [HBin 7 (OLit (Ok (VDur d))) (OLit (Ok (VTd n))); HBin m (ORef 0) (OLit (Ok (VTd k)))]
            = [Ok (RDur r); td_binop m (d_N d mod n) k]
            /\ d_N r = d_N d mod n /\ exact0 r.
Proof.
  intros Hs d n k m Hm E Hn Hb.
  assert (Hr : Z.abs (d_N d mod n) < B33).
  { destruct (Z_lt_ge_dec 0 n).
    - pose proof (Z.mod_pos_bound (d_N d) n l). lia.
    - assert (n < 0) by lia. pose proof (Z.mod_neg_bound (d_N d) n H). lia. }
  destruct (remainder_constructible Hs _ Hr) as [r0 R0].
  pose proof (dur_of_us_native _ _ R0) as (N0 & Y0 & M0).
  assert (X0 : exact0 r0).
  { apply exact_ym_0; try assumption.
    unfold dur_of_us in R0. eapply (to_microseconds_constructed Hs); [exact R0|].
    left. split; [reflexivity | rewrite N0; exact Hr]. }
  exists r0. split; [|split; assumption].
  unfold run_history. cbn [run_from app eval_step fetch bind is_pendulum orb].
  assert (B7 : binop 7 (VDur d) (VTd n) = Ok (RDur r0)).
  { unfold binop. cbn [is_cmp is_arith]. replace ((10 <=? 7) && (7 <=? 15)) with false by reflexivity.
    replace ((7 =? 1) || (7 =? 2) || (4 <=? 7) && (7 <=? 8)) with true by reflexivity.
    cbn [arith_op durlike_method dur_method dur_mod not_impl_to_type_error].
    rewrite plain_td_us. destruct (n =? 0) eqn:Z0; [apply Z.eqb_eq in Z0; contradiction|].
    unfold py_Duration_mod_timedelta_microseconds. rewrite plain_td_us. unfold exact0 in E. rewrite E, R0. reflexivity. }
  rewrite B7. cbn [nth_error Z.to_nat value_of_outcome Z.ltb Z.compare].
  assert (B5 : binop m (VDur r0) (VTd k) = td_binop m (d_N d mod n) k).
  { pose proof (floordiv_truediv_by_timedelta_native m r0 k Hm X0) as K. rewrite N0 in K.
    unfold binop. assert (C : is_cmp m = false) by (destruct Hm as [ -> | -> ]; reflexivity).
    assert (A : is_arith m = true) by (destruct Hm as [ -> | -> ]; reflexivity).
    rewrite C, A. cbn [arith_op durlike_method]. rewrite K.
    destruct Hm as [ -> | -> ]; cbn [td_binop].
    - destruct (k =? 0); reflexivity.
    - destruct (py_int_truediv (d_N d mod n) k); reflexivity. }
  cbn [bind is_pendulum orb]. rewrite B5. reflexivity.
Qed.

(* ------------------------------------------------------------------ 5. why histories: a memo keyed by timedelta's == is not transparent *)
Definition sound_cache (c : list (Z * Z)) : Prop := forall k u, assoc k c = Some u -> u = k.

(* on operands whose conversion IS their native length (plain timedeltas, Durations without years / months: exact0) the memo is invisible *)
Lemma memo_transparent_from : forall os c, sound_cache c ->
  (forall o k, In o os -> td_key o = Some k -> divisor_us o = Some k) ->
  memo_divisors c os = map divisor_us os.
Proof.
  induction os as [|o t IH]; intros c Hc Hex; [reflexivity|].
  cbn [memo_divisors map].
  assert (Ht : forall o k, In o t -> td_key o = Some k -> divisor_us o = Some k) by (intros; apply Hex; [right|]; assumption).
  destruct (td_key o) as [k|] eqn:K.
  - rewrite (Hex o k (or_introl eq_refl) K).
    destruct (assoc k c) as [u'|] eqn:A.
    + rewrite (Hc _ _ A). rewrite (IH c Hc Ht). reflexivity.
    + rewrite IH; [reflexivity| |exact Ht].
      intros k2 u2. cbn [assoc]. destruct (k2 =? k) eqn:Q.
      * intro H. inversion H; subst. apply Z.eqb_eq in Q. congruence.
      * apply Hc.
  - rewrite (IH c Hc Ht). destruct (divisor_us o); reflexivity.
Qed.

Lemma memo_transparent_without_years : forall os,
  (forall o k, In o os -> td_key o = Some k -> divisor_us o = Some k) -> memo_divisors [] os = map divisor_us os.
Proof. intros. apply memo_transparent_from; [intros k u H0; discriminate | assumption]. Qed.

Lemma exact0_key_is_divisor : forall d, exact0 d -> td_key (VDur d) = Some (d_N d) /\ divisor_us (VDur d) = Some (d_N d).
Proof. intros d E. unfold exact0 in E. cbn [td_key divisor_us]. unfold py_timedelta_to_microseconds_duration. rewrite E. auto. Qed.

Lemma plain_key_is_divisor : forall n, td_key (VTd n) = Some n /\ divisor_us (VTd n) = Some n.
Proof. intro n. cbn [td_key divisor_us]. rewrite plain_td_us. auto. Qed.

(* ... but one Duration(years=1, days=1) [== timedelta(days=366), same hash] converted first poisons the entry of 366 days *)
Lemma memo_by_timedelta_eq_refuted : exists d,
  duration_new 1 0 0 0 0 0 0 1 0 = Ok d /\ d_N d = 366 * DAYUS
  /\ map divisor_us [VDur d; VTd (366 * DAYUS)] = [Some DAYUS; Some (366 * DAYUS)]
  /\ memo_divisors [] [VDur d; VTd (366 * DAYUS)] = [Some DAYUS; Some DAYUS]
  /\ memo_divisors [] [VTd (366 * DAYUS); VDur d] = [Some (366 * DAYUS); Some (366 * DAYUS)].
Proof.
  destruct (duration_new 1 0 0 0 0 0 0 1 0) as [d|e] eqn:E; [|vm_compute in E; discriminate].
  exists d. split; [reflexivity|].
  vm_compute in E. inversion E; subst. vm_compute. repeat split; reflexivity.
Qed.

(* ------------------------------------------------------------------ 6. a concrete process (the hypotheses above are satisfiable) *)
(* x = Duration(days=1000, seconds=5, microseconds=7);  x // Duration(years=1, days=1)  [its own semantics: 1 day inside -> 1000],
   then x // timedelta(days=366) = 2 and x % timedelta(days=366) = 268 days 5.000007 s as timedelta says, whatever came first,
   then that remainder object // 1 s = 23155205 *)
Lemma history_example : exists x a r,
  duration_new 1000 5 7 0 0 0 0 0 0 = Ok x /\ exact0 x /\ duration_new 1 0 0 0 0 0 0 1 0 = Ok a /\ d_N a = 366 * DAYUS
  /\ run_history [HBin 5 (OLit (Ok (VDur x))) (OLit (Ok (VDur a)));
                  HBin 5 (OLit (Ok (VDur x))) (OLit (Ok (VTd (366 * DAYUS))));
                  HBin 7 (OLit (Ok (VDur x))) (OLit (Ok (VTd (366 * DAYUS))));
                  HBin 5 (ORef 2) (OLit (Ok (VTd 1000000)));
                  HUn M_TOUCH (ORef 2)]
     = [Ok (RInt 1000); Ok (RInt 2); Ok (RDur r); Ok (RInt 23155205); Ok (RDur r)]
  /\ d_N r = d_N x mod (366 * DAYUS) /\ exact0 r /\ td_binop 5 (d_N x) (366 * DAYUS) = Ok (RInt 2).
Proof.
  destruct (duration_new 1000 5 7 0 0 0 0 0 0) as [x|e] eqn:EX; [|vm_compute in EX; discriminate].
  destruct (duration_new 1 0 0 0 0 0 0 1 0) as [a|e] eqn:EA; [|vm_compute in EA; discriminate].
  vm_compute in EX. vm_compute in EA. inversion EX; subst x. inversion EA; subst a. clear EX EA.
  eexists _, _, _. split; [reflexivity|]. split; [vm_compute; reflexivity|]. split; [reflexivity|]. split; [vm_compute; reflexivity|].
  split; [vm_compute; reflexivity|]. split; [vm_compute; reflexivity|]. split; vm_compute; reflexivity.
Qed.

(* ------------------------------------------------------------------ 7. CURRENT CODE: int scaling of a Duration WITH years / months (finding float-total-resolution) *)
(* `* int` scales the float _total, the YEAR-FREE part: Duration(microseconds=50112000924991, years=-2, months=5) has the native length
   0.924991 s (far below 2^31 s, and so is the product) but _total = 50112000.924991 s, and _total * -1000 = -5.0112e10 s is beyond the
   float's microsecond resolution: the result is 3 us off -1000 times the native length (years / months are scaled exactly) *)
Lemma mul_int_with_years_refuted : exists d r,
  duration_new 0 0 50112000924991 0 0 0 0 (-2) 5 = Ok d /\ d_N d = 924991 /\ exact_ym d
  /\ dur_mul d (VInt (-1000)) = Ok (RDur r) /\ d_years r = 2000 /\ d_months r = -5000
  /\ d_N r = -1000 * d_N d + 3 /\ Z.abs (-1000 * d_N d) < B31.
Proof.
  eexists _, _. split; [vm_compute; reflexivity|]. split; [vm_compute; reflexivity|]. split; [split; vm_compute; reflexivity|].
  split; [vm_compute; reflexivity|]. repeat split; vm_compute; reflexivity.
Qed.
