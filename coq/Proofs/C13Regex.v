(* Proofs/C13Regex.v — C13: the hand-written matcher of Model/DurParse.v (match_duration) IS the regular expression ISO8601_DURATION,
   for EVERY input string: the AST generated from /repo's pattern (Gen/DurRegexAst.v, unbounded repetitions bounded by the input length),
   executed by the backtracking span matcher (Proofs/RegexShape.v), yields exactly the match record of the hand matcher
   (`match_duration_re_eq`).  Shape invariance cannot be used here (digit runs of unbounded length: infinitely many shapes); the proof is
   a determinism argument about the backtracking matcher instead:
     * `run0/run1`   a greedy digit run followed by a continuation that rejects digits has exactly one way to succeed;
     * `NUM_exact`   the token \d+(?:[.,]\d+)?X does exactly what try_tok does, whatever the continuation;
     * `OPT_exact`   an optional token group whose continuation cannot restart on the same digits (`rej`) never needs to be retried;
     * `K_ymd_exact` skipping the (possibly empty) ymd group after a failure fails too (`rmatch_sp_success_indep`: success does not
                     depend on the captures), `K_hms_exact`, `re_match_sp_dur_exact` (closed form of the whole match);
     * `stage_inv`/`tok_of_try_tok` the spans are the hand matcher's tokens (text, fraction, start index). *)
From Coq Require Import ZArith List Bool Lia.
From PV Require Import Lib.PyBase Model.C07Regex Gen.DurRegexAst Model.DurParse Proofs.RegexShape Model.DurRegexMatch.
Import ListNotations.
Open Scope Z_scope.

(* ------------------------------------------------------------------ generic: success does not depend on the captures *)
Definition issome {A} (o : option A) : bool := match o with Some _ => true | None => false end.
Lemma issome_orelse {A} (x y : option A) : issome (match x with Some r => Some r | None => y end) = issome x || issome y.
Proof. destruct x; reflexivity. Qed.

Lemma rmatch_sp_success_indep r : forall i s c c' k k',
  (forall i s c c', issome (k i s c) = issome (k' i s c')) ->
  issome (rmatch_sp r i s c k) = issome (rmatch_sp r i s c' k').
Proof.
  induction r as [ | a | neg rs | a IHa b IHb | a IHa b IHb | a IHa mn mx | n a IHa | | ]; intros i s c c' k k' Hk.
  - apply Hk.
  - cbn [rmatch_sp]. destruct s as [|x t]; [reflexivity|]. destruct (x =? a); [apply Hk|reflexivity].
  - cbn [rmatch_sp]. destruct s as [|x t]; [reflexivity|]. destruct (xorb neg (in_ranges x rs)); [apply Hk|reflexivity].
  - cbn [rmatch_sp]. apply IHa. intros. apply IHb. exact Hk.
  - cbn [rmatch_sp]. rewrite !issome_orelse. rewrite (IHa i s c c' k k' Hk), (IHb i s c c' k k' Hk). reflexivity.
  - rewrite !rmatch_sp_rep. revert mn i s c c'. induction mx as [|mx IHmx]; intros mn i s c c'.
    + rewrite !repf_O. destruct mn; [apply Hk|reflexivity].
    + rewrite !repf_S. rewrite !issome_orelse. f_equal.
      * apply IHa. intros. apply IHmx.
      * destruct mn; [apply Hk|reflexivity].
  - cbn [rmatch_sp]. apply IHa. intros. apply Hk.
  - cbn [rmatch_sp]. destruct i; [apply Hk|reflexivity].
  - rewrite !rmatch_sp_end. destruct (is_end s); [apply Hk|reflexivity].
Qed.

(* ------------------------------------------------------------------ the pieces of ISO8601_DURATION *)
Definition Dg : re := RIn false [(48, 57)].
Definition Sp : re := RIn false [(46, 46); (44, 44)].
Definition FR (n : nat) : re := RSeq Sp (RRep Dg 1 n).
Definition NUM (X : Z) (n : nat) : re := RSeq (RRep Dg 1 n) (RSeq (RRep (FR n) 0 1) (RLit X)).
Definition OPT (a : re) : re := RRep a 0 1.

Lemma DUR_RE_shape n : DUR_RE n =
  RSeq RBeg (RSeq (RLit 80) (RSeq (OPT (RGrp 1 (RGrp 2 (NUM 87 n))))
    (RSeq (OPT (RGrp 3 (RSeq (OPT (RGrp 4 (NUM 89 n))) (RSeq (OPT (RGrp 5 (NUM 77 n))) (OPT (RGrp 6 (NUM 68 n)))))))
    (RSeq (OPT (RGrp 7 (RSeq (RGrp 8 (RLit 84)) (RSeq (OPT (RGrp 9 (NUM 72 n))) (RSeq (OPT (RGrp 10 (NUM 77 n))) (OPT (RGrp 11 (NUM 83 n))))))))
     REnd)))).
Proof. reflexivity. Qed.

Lemma Dg_step i x l c k : rmatch_sp Dg i (x :: l) c k = if is_digit x then k (S i) l c else None.
Proof. unfold Dg, is_digit. cbn [rmatch_sp in_ranges]. rewrite xorb_false_l, orb_false_r. reflexivity. Qed.
Lemma Dg_nil i c k : rmatch_sp Dg i [] c k = None. Proof. reflexivity. Qed.
Lemma Sp_step i x l c k : rmatch_sp Sp i (x :: l) c k = if is_sep x then k (S i) l c else None.
Proof.
  unfold Sp, is_sep. cbn [rmatch_sp in_ranges]. rewrite xorb_false_l, orb_false_r.
  replace ((46 <=? x) && (x <=? 46)) with (x =? 46) by lia. replace ((44 <=? x) && (x <=? 44)) with (x =? 44) by lia. reflexivity.
Qed.

Definition dhead (l : list Z) : bool := match l with x :: _ => is_digit x | [] => false end.
(* a continuation that fails on every input starting with a digit *)
Definition rejd (k : nat -> list Z -> scaps -> option scaps) : Prop := forall i l c, dhead l = true -> k i l c = None.

Lemma span_digits_spec l : let '(ds, r) := span_digits l in l = ds ++ r /\ forallb is_digit ds = true /\ dhead r = false.
Proof.
  induction l as [|x l IH]; [cbn; auto|]. cbn [span_digits]. destruct (is_digit x) eqn:D.
  - destruct (span_digits l) as [ds r]. destruct IH as (E & F & H). subst l. cbn [app forallb]. rewrite D. auto.
  - cbn. rewrite D. auto.
Qed.

(* greedy digit run followed by a continuation that rejects digits: deterministic *)
Lemma run0 k : rejd k -> forall ds mx i r c, forallb is_digit ds = true -> dhead r = false -> (length ds <= mx)%nat ->
  repf (rmatch_sp Dg) k mx 0 i (ds ++ r) c = k (i + length ds)%nat r c.
Proof.
  intros Hk. induction ds as [|d ds IH]; intros mx i r c Hd Hr Hl.
  - cbn [app length]. rewrite Nat.add_0_r. destruct mx; [reflexivity|]. rewrite repf_S.
    destruct r as [|x r]; [reflexivity|]. rewrite Dg_step. cbn [dhead] in Hr. rewrite Hr. reflexivity.
  - cbn [forallb] in Hd. apply andb_true_iff in Hd. destruct Hd as [Hd0 Hd]. destruct mx as [|mx]; [cbn in Hl; lia|].
    cbn [app]. rewrite repf_S, Dg_step, Hd0. cbn [pred]. rewrite (IH mx (S i) r c Hd Hr) by (cbn in Hl; lia).
    cbn [length]. replace (S i + length ds)%nat with (i + S (length ds))%nat by lia.
    destruct (k (i + S (length ds))%nat r c); [reflexivity|]. apply Hk. cbn. exact Hd0.
Qed.

Lemma run1 k : rejd k -> forall ds mx i r c, forallb is_digit ds = true -> dhead r = false -> (length ds <= mx)%nat ->
  rmatch_sp (RRep Dg 1 mx) i (ds ++ r) c k = match ds with [] => None | _ => k (i + length ds)%nat r c end.
Proof.
  intros Hk ds mx i r c Hd Hr Hl. rewrite rmatch_sp_rep. destruct ds as [|d ds].
  - cbn [app]. destruct mx; [reflexivity|]. rewrite repf_S. destruct r as [|x r]; [reflexivity|].
    rewrite Dg_step. cbn [dhead] in Hr. rewrite Hr. reflexivity.
  - cbn [forallb] in Hd. apply andb_true_iff in Hd. destruct Hd as [Hd0 Hd]. destruct mx as [|mx]; [cbn in Hl; lia|].
    cbn [app]. rewrite repf_S, Dg_step, Hd0. cbn [pred]. rewrite (run0 k Hk ds mx (S i) r c Hd Hr) by (cbn in Hl; lia).
    cbn [length]. replace (S i + length ds)%nat with (i + S (length ds))%nat by lia.
    destruct (k (i + S (length ds))%nat r c); reflexivity.
Qed.

Lemma rmatch_sp_seq a b i s c k : rmatch_sp (RSeq a b) i s c k = rmatch_sp a i s c (fun i' s' c' => rmatch_sp b i' s' c' k).
Proof. reflexivity. Qed.
Lemma rmatch_sp_grp g a i s c k : rmatch_sp (RGrp g a) i s c k = rmatch_sp a i s c (fun i' s' c' => k i' s' (upd_sp g (i, (i' - i)%nat) c')).
Proof. reflexivity. Qed.
Lemma rmatch_sp_opt a i s c k : rmatch_sp (OPT a) i s c k =
  match rmatch_sp a i s c (fun i' s' c' => k i' s' c') with Some res => Some res | None => k i s c end.
Proof. reflexivity. Qed.

Lemma digit_not_sep x : is_digit x = true -> is_sep x = false.
Proof. unfold is_digit, is_sep. lia. Qed.

Lemma RLit_step X i l c K : rmatch_sp (RLit X) i l c K = match l with x :: t => if x =? X then K (S i) t c else None | [] => None end.
Proof. reflexivity. Qed.

Definition k_lit X (K : nat -> list Z -> scaps -> option scaps) := fun i s c => rmatch_sp (RLit X) i s c K.
Lemma rejd_lit X K : is_digit X = false -> rejd (k_lit X K).
Proof.
  intros HX i l c H. unfold k_lit. rewrite RLit_step. destruct l as [|x t]; [reflexivity|]. cbn [dhead] in H.
  destruct (x =? X) eqn:E; [|reflexivity]. apply Z.eqb_eq in E. subst. congruence.
Qed.

(* the optional fraction followed by the designator *)
Definition k_frac X n K := fun i s c => rmatch_sp (RSeq (RRep (FR n) 0 1) (RLit X)) i s c K.
Lemma k_frac_unfold X n K i s c :
  k_frac X n K i s c =
  match rmatch_sp (FR n) i s c (fun i' s' c' => k_lit X K i' s' c') with Some res => Some res | None => k_lit X K i s c end.
Proof. reflexivity. Qed.
Lemma FR_unfold n i s c k : rmatch_sp (FR n) i s c k =
  match s with x :: t => if is_sep x then rmatch_sp (RRep Dg 1 n) (S i) t c k else None | [] => None end.
Proof. unfold FR. cbn [rmatch_sp]. destruct s as [|x t]; [reflexivity|]. rewrite Sp_step. reflexivity. Qed.

Lemma rejd_frac X n K : is_digit X = false -> rejd (k_frac X n K).
Proof.
  intros HX i l c H. rewrite k_frac_unfold, FR_unfold. destruct l as [|x t]; [discriminate H|]. cbn [dhead] in H.
  rewrite (digit_not_sep x H). apply rejd_lit; [exact HX|exact H].
Qed.

(* the token  \d+(?:[.,]\d+)?X : the regex does exactly what try_tok does (whatever the continuation) *)
Lemma NUM_exact X n total i l c K : is_digit X = false -> is_sep X = false -> (length l <= n)%nat ->
  rmatch_sp (NUM X n) i l c K =
  match try_tok X total l with
  | (Some tk, r) => K (i + (length l - length r))%nat r c
  | (None, _) => None
  end.
Proof.
  intros HX HS Hn. unfold NUM. rewrite rmatch_sp_seq. change (fun i' s' c' => rmatch_sp (RSeq (RRep (FR n) 0 1) (RLit X)) i' s' c' K) with (k_frac X n K).
  unfold try_tok, scan_num. pose proof (span_digits_spec l) as Sl. destruct (span_digits l) as [ds r]. destruct Sl as (El & Hds & Hr).
  subst l. rewrite app_length in Hn.
  rewrite (run1 _ (rejd_frac X n K HX) ds n i r c Hds Hr) by lia.
  destruct ds as [|d0 ds']; [reflexivity|]. cbn [is_nil]. set (ds := d0 :: ds') in *.
  rewrite k_frac_unfold, FR_unfold.
  destruct r as [|x r']; [reflexivity|]. cbn [dhead] in Hr.
  destruct (is_sep x) eqn:Sx.
  - pose proof (span_digits_spec r') as Sr. destruct (span_digits r') as [fs r'']. destruct Sr as (Er & Hfs & Hr'').
    subst r'. cbn [length] in Hn. rewrite app_length in Hn.
    rewrite (run1 _ (rejd_lit X K HX) fs n _ r'' c Hfs Hr'') by lia.
    assert (Fb : k_lit X K (i + length ds)%nat (x :: fs ++ r'') c = None).
    { unfold k_lit. rewrite RLit_step. destruct (x =? X) eqn:E; [|reflexivity]. apply Z.eqb_eq in E. subst. congruence. }
    destruct fs as [|f0 fs'].
    + cbn [is_nil app]. cbn [app] in Fb. rewrite Fb. destruct (x =? X) eqn:E; [|reflexivity]. apply Z.eqb_eq in E. subst. congruence.
    + cbn [is_nil]. set (fs := f0 :: fs') in *. unfold k_lit at 1. rewrite RLit_step.
      destruct r'' as [|z r''']; [rewrite Fb; reflexivity|].
      destruct (z =? X); [|rewrite Fb; reflexivity].
      match goal with |- match ?a with Some res => Some res | None => _ end = ?b => replace b with a; [destruct a; [reflexivity|exact Fb]|] end.
      f_equal. rewrite !app_length. cbn [length]. rewrite !app_length. cbn [length]. lia.
  - unfold k_lit. rewrite RLit_step. destruct (x =? X); [|reflexivity].
    f_equal. rewrite !app_length. cbn [length]. lia.
Qed.

(* ------------------------------------------------------------------ facts about the hand matcher's token scanner *)
Lemma try_tok_cases X t l :
  (exists tk r, try_tok X t l = (Some tk, r) /\ dhead l = true /\ (length r < length l)%nat /\
                forall X' t', X' <> X -> try_tok X' t' l = (None, l)) \/
  try_tok X t l = (None, l).
Proof.
  unfold try_tok. destruct (scan_num l) as [[[ds fr] [|x r]]|] eqn:E; [right; reflexivity| |right; reflexivity].
  destruct (x =? X) eqn:Ex; [|right; reflexivity]. left. apply Z.eqb_eq in Ex. subst x.
  eexists _, _. split; [reflexivity|].
  unfold scan_num in E. pose proof (span_digits_spec l) as Sl. destruct (span_digits l) as [ds0 r0]. destruct Sl as (El & Hds & Hr).
  destruct ds0 as [|d0 ds0']; [discriminate E|]. cbn [is_nil] in E. cbn [forallb] in Hds. apply andb_true_iff in Hds. destruct Hds as [Hd0 _].
  split; [subst l; exact Hd0|]. split.
  - destruct r0 as [|y r0']; [inversion E|]. destruct (is_sep y).
    + pose proof (span_digits_spec r0') as Sr. destruct (span_digits r0') as [fs r1]. destruct Sr as (Er & _ & _).
      destruct fs; cbn [is_nil] in E; inversion E; subst; rewrite ?app_length; cbn [length]; rewrite ?app_length; cbn [length]; lia.
    + inversion E; subst. rewrite app_length. cbn [length]. lia.
  - intros X' t' HX'. destruct (X =? X') eqn:E'; [apply Z.eqb_eq in E'; congruence|reflexivity].
Qed.

(* a continuation that fails on digit-headed input of length <= n unless a token with a designator of Xs starts there *)
Definition rej (n : nat) (K : nat -> list Z -> scaps -> option scaps) (Xs : list Z) : Prop :=
  forall i l c, (length l <= n)%nat -> dhead l = true -> (forall X, In X Xs -> try_tok X 0 l = (None, l)) -> K i l c = None.

Definition desigc (X : Z) : Prop := is_digit X = false /\ is_sep X = false.

Section OptTok.
  Variables (A : re) (wrap : nat -> nat -> scaps -> scaps) (X : Z) (n : nat).
  Hypothesis HA : forall i l c K, rmatch_sp A i l c K = rmatch_sp (NUM X n) i l c (fun i' s' c' => K i' s' (wrap i i' c')).
  Hypothesis HX : desigc X.

  (* the optional token, with a continuation that cannot restart on the same digits: exactly try_tok *)
  Lemma OPT_exact total i l c K Xs : (length l <= n)%nat -> rej n K Xs -> ~ In X Xs ->
    rmatch_sp (OPT A) i l c K =
    let res := try_tok X total l in
    let i' := (i + (length l - length (snd res)))%nat in
    K i' (snd res) (match fst res with Some _ => wrap i i' c | None => c end).
  Proof.
    intros Hn HK HXs. cbv zeta. destruct HX as [HX1 HX2].
    rewrite rmatch_sp_opt, HA, (NUM_exact X n total) by assumption.
    destruct (try_tok_cases X total l) as [(tk & r & E & Hd & Hlen & Hoth) | E]; rewrite E; cbn [fst snd].
    - match goal with |- match ?a with Some res => Some res | None => ?b end = _ => assert (Fb : b = None) end.
      { apply HK; [exact Hn|exact Hd|]. intros X' HIn. apply Hoth. intros ->. contradiction. }
      rewrite Fb. destruct (K _ r _); reflexivity.
    - rewrite Nat.sub_diag, Nat.add_0_r. reflexivity.
  Qed.

  Lemma rej_OPT K Xs : rej n K Xs -> rej n (fun i l c => rmatch_sp (OPT A) i l c K) (X :: Xs).
  Proof.
    intros HK i l c Hn Hd Hno. destruct HX as [HX1 HX2]. rewrite rmatch_sp_opt, HA, (NUM_exact X n 0) by assumption.
    rewrite (Hno X (or_introl eq_refl)). apply HK; [exact Hn|exact Hd|]. intros X' HIn. apply Hno. right. exact HIn.
  Qed.
End OptTok.

Lemma HA_grp g X n : forall i l c K, rmatch_sp (RGrp g (NUM X n)) i l c K =
  rmatch_sp (NUM X n) i l c (fun i' s' c' => K i' s' (upd_sp g (i, (i' - i)%nat) c')).
Proof. intros. apply rmatch_sp_grp. Qed.
Lemma HA_grp2 g1 g2 X n : forall i l c K, rmatch_sp (RGrp g1 (RGrp g2 (NUM X n))) i l c K =
  rmatch_sp (NUM X n) i l c (fun i' s' c' => K i' s' (upd_sp g1 (i, (i' - i)%nat) (upd_sp g2 (i, (i' - i)%nat) c'))).
Proof. intros. rewrite !rmatch_sp_grp. reflexivity. Qed.

Lemma rej_wrap n K Xs (f : nat -> scaps -> scaps) : rej n K Xs -> rej n (fun i' s' c' => K i' s' (f i' c')) Xs.
Proof. intros HK i l c Hn Hd Hno. apply HK; assumption. Qed.

(* the end of the pattern *)
Definition acc : nat -> list Z -> scaps -> option scaps := fun _ _ c => Some c.
Definition K_end := fun i s c => rmatch_sp REnd i s c acc.
Lemma K_end_unfold i s c : K_end i s c = if is_end s then Some c else None.
Proof. unfold K_end. rewrite rmatch_sp_end. reflexivity. Qed.
Lemma digit_not_nl x : is_digit x = true -> (x =? 10) = false.
Proof. unfold is_digit. lia. Qed.
Lemma rej_end n : rej n K_end [].
Proof.
  intros i l c _ Hd _. rewrite K_end_unfold. destruct l as [|x [|y t]]; try reflexivity; [discriminate Hd|].
  cbn [is_end]. cbn [dhead] in Hd. rewrite (digit_not_nl x Hd). reflexivity.
Qed.

(* ------------------------------------------------------------------ one optional token group as a state transition *)
Definition stage (g : nat) (X : Z) (total : Z) (st : nat * list Z * scaps) : nat * list Z * scaps :=
  let '(i, l, c) := st in
  let res := try_tok X total l in
  let i' := (i + (length l - length (snd res)))%nat in
  (i', snd res, match fst res with Some _ => upd_sp g (i, (i' - i)%nat) c | None => c end).

Lemma try_tok_snd_le X t l : (length (snd (try_tok X t l)) <= length l)%nat.
Proof. destruct (try_tok_cases X t l) as [(tk & r & E & _ & Hlen & _) | E]; rewrite E; cbn [snd]; lia. Qed.

Lemma stage_len g X t i l (c : scaps) : (length (snd (fst (stage g X t (i, l, c)))) <= length l)%nat.
Proof. cbn [stage fst snd]. apply try_tok_snd_le. Qed.

Lemma OPT_stage g X n total i l (c : scaps) K Xs : desigc X -> (length l <= n)%nat -> rej n K Xs -> ~ In X Xs ->
  rmatch_sp (OPT (RGrp g (NUM X n))) i l c K = let '(i', l', c') := stage g X total (i, l, c) in K i' l' c'.
Proof.
  intros HX Hn HK HXs.
  rewrite (OPT_exact (RGrp g (NUM X n)) (fun i i' c' => upd_sp g (i, (i' - i)%nat) c') X n (HA_grp g X n) HX total i l c K Xs Hn HK HXs).
  reflexivity.
Qed.

Ltac desig_tac := split; reflexivity.
Ltac notin_tac := cbn [In]; intuition discriminate.

(* ------------------------------------------------------------------ (?P<hms>T(hours)?(minutes)?(seconds)?)?$ *)
Definition G7 (n : nat) : re :=
  RGrp 7 (RSeq (RGrp 8 (RLit 84)) (RSeq (OPT (RGrp 9 (NUM 72 n))) (RSeq (OPT (RGrp 10 (NUM 77 n))) (OPT (RGrp 11 (NUM 83 n)))))).
Definition K_hms (n : nat) := fun i s c => rmatch_sp (RSeq (OPT (G7 n)) REnd) i s c acc.

Lemma K_end_T i l c : K_end i (84 :: l) c = None.
Proof. rewrite K_end_unfold. destruct l; reflexivity. Qed.

Lemma K_hms_exact n total i l c : (length l <= n)%nat ->
  K_hms n i l c =
  match l with
  | x :: l5 =>
      if x =? 84 then
        let '(i8, l8, c8) := stage 11 83 total (stage 10 77 total (stage 9 72 total (S i, l5, upd_sp 8 (i, (S i - i)%nat) c))) in
        K_end i8 l8 (upd_sp 7 (i, (i8 - i)%nat) c8)
      else K_end i l c
  | [] => K_end i l c
  end.
Proof.
  intros Hn. unfold K_hms. rewrite rmatch_sp_seq. change (fun i' s' c' => rmatch_sp REnd i' s' c' acc) with K_end.
  rewrite rmatch_sp_opt. unfold G7. rewrite rmatch_sp_grp, rmatch_sp_seq, rmatch_sp_grp, RLit_step.
  destruct l as [|x l5]; [reflexivity|]. destruct (x =? 84) eqn:Ex; [|reflexivity].
  apply Z.eqb_eq in Ex. subst x. rewrite K_end_T. cbn [length] in Hn.
  set (kw := fun i' s' c' => K_end i' s' (upd_sp 7 (i, (i' - i)%nat) c')).
  assert (Rw : rej n kw []) by (apply (rej_wrap n K_end [] (fun i' c' => upd_sp 7 (i, (i' - i)%nat) c')); apply rej_end).
  set (ks := fun i' s' c' => rmatch_sp (OPT (RGrp 11 (NUM 83 n))) i' s' c' kw).
  assert (Rs : rej n ks [83]) by (apply (rej_OPT _ _ 83 n (HA_grp 11 83 n)); [desig_tac|exact Rw]).
  set (km := fun i' s' c' => rmatch_sp (RSeq (OPT (RGrp 10 (NUM 77 n))) (OPT (RGrp 11 (NUM 83 n)))) i' s' c' kw).
  assert (Rm : rej n km [77; 83]).
  { unfold km. intros i0 l0 c0. rewrite rmatch_sp_seq. revert i0 l0 c0. apply (rej_OPT _ _ 77 n (HA_grp 10 77 n)); [desig_tac|exact Rs]. }
  rewrite rmatch_sp_seq. fold km.
  rewrite (OPT_stage 9 72 n total (S i) l5 _ km [77; 83]) by (try desig_tac; try notin_tac; try assumption; lia).
  pose proof (stage_len 9 72 total (S i) l5 (upd_sp 8 (i, (S i - i)%nat) c)) as L1.
  destruct (stage 9 72 total (S i, l5, upd_sp 8 (i, (S i - i)%nat) c)) as [[i6 l6] c6]. cbn [fst snd] in L1.
  unfold km. rewrite rmatch_sp_seq. fold ks.
  rewrite (OPT_stage 10 77 n total i6 l6 c6 ks [83]) by (try desig_tac; try notin_tac; try assumption; lia).
  pose proof (stage_len 10 77 total i6 l6 c6) as L2.
  destruct (stage 10 77 total (i6, l6, c6)) as [[i7 l7] c7]. cbn [fst snd] in L2.
  unfold ks.
  rewrite (OPT_stage 11 83 n total i7 l7 c7 kw []) by (try desig_tac; try notin_tac; try assumption; lia).
  destruct (stage 11 83 total (i7, l7, c7)) as [[i8 l8] c8]. unfold kw.
  destruct (K_end i8 l8 _); reflexivity.
Qed.

Lemma rej_hms n : rej n (K_hms n) [].
Proof.
  intros i l c Hn Hd _. rewrite (K_hms_exact n 0) by exact Hn. destruct l as [|x l5]; [discriminate Hd|].
  cbn [dhead] in Hd. destruct (x =? 84) eqn:Ex; [apply Z.eqb_eq in Ex; subst x; discriminate Hd|].
  apply (rej_end n i (x :: l5) c Hn Hd). intros ? [].
Qed.

Lemma K_hms_success_indep n i l c c' : issome (K_hms n i l c) = issome (K_hms n i l c').
Proof. unfold K_hms. apply rmatch_sp_success_indep. reflexivity. Qed.

Lemma stage_cases g X t i l (c : scaps) :
  dhead l = true \/ stage g X t (i, l, c) = (i, l, c).
Proof.
  cbn [stage]. destruct (try_tok_cases X t l) as [(tk & r & E & Hd & _) | E]; [left; exact Hd|right].
  rewrite E. cbn [fst snd]. rewrite Nat.sub_diag, Nat.add_0_r. reflexivity.
Qed.

(* ------------------------------------------------------------------ (?P<ymd>(years)?(months)?(days)?)? followed by hms and $ *)
Definition G3 (n : nat) : re :=
  RGrp 3 (RSeq (OPT (RGrp 4 (NUM 89 n))) (RSeq (OPT (RGrp 5 (NUM 77 n))) (OPT (RGrp 6 (NUM 68 n))))).
Definition K_ymd (n : nat) := fun i s c => rmatch_sp (RSeq (OPT (G3 n)) (RSeq (OPT (G7 n)) REnd)) i s c acc.

Lemma K_ymd_exact n total i l c : (length l <= n)%nat ->
  K_ymd n i l c =
  let '(i4, l4, c4) := stage 6 68 total (stage 5 77 total (stage 4 89 total (i, l, c))) in
  K_hms n i4 l4 (upd_sp 3 (i, (i4 - i)%nat) c4).
Proof.
  intros Hn. unfold K_ymd. rewrite rmatch_sp_seq. change (fun i' s' c' => rmatch_sp (RSeq (OPT (G7 n)) REnd) i' s' c' acc) with (K_hms n).
  rewrite rmatch_sp_opt. unfold G3. rewrite rmatch_sp_grp, rmatch_sp_seq.
  set (kw := fun i' s' c' => K_hms n i' s' (upd_sp 3 (i, (i' - i)%nat) c')).
  assert (Rw : rej n kw []) by (apply (rej_wrap n (K_hms n) [] (fun i' c' => upd_sp 3 (i, (i' - i)%nat) c')); apply rej_hms).
  set (kd := fun i' s' c' => rmatch_sp (OPT (RGrp 6 (NUM 68 n))) i' s' c' kw).
  assert (Rd : rej n kd [68]) by (apply (rej_OPT _ _ 68 n (HA_grp 6 68 n)); [desig_tac|exact Rw]).
  set (km := fun i' s' c' => rmatch_sp (RSeq (OPT (RGrp 5 (NUM 77 n))) (OPT (RGrp 6 (NUM 68 n)))) i' s' c' kw).
  assert (Rm : rej n km [77; 68]).
  { unfold km. intros i0 l0 c0. rewrite rmatch_sp_seq. revert i0 l0 c0. apply (rej_OPT _ _ 77 n (HA_grp 5 77 n)); [desig_tac|exact Rd]. }
  pose proof (stage_cases 4 89 total i l c) as C1.
  rewrite (OPT_stage 4 89 n total i l c km [77; 68]) by (try desig_tac; try notin_tac; try assumption; lia).
  pose proof (stage_len 4 89 total i l c) as L1.
  destruct (stage 4 89 total (i, l, c)) as [[i2 l2] c2]. cbn [fst snd] in L1.
  unfold km. rewrite rmatch_sp_seq. fold kd.
  pose proof (stage_cases 5 77 total i2 l2 c2) as C2.
  rewrite (OPT_stage 5 77 n total i2 l2 c2 kd [68]) by (try desig_tac; try notin_tac; try assumption; lia).
  pose proof (stage_len 5 77 total i2 l2 c2) as L2.
  destruct (stage 5 77 total (i2, l2, c2)) as [[i3 l3] c3]. cbn [fst snd] in L2.
  unfold kd.
  pose proof (stage_cases 6 68 total i3 l3 c3) as C3.
  rewrite (OPT_stage 6 68 n total i3 l3 c3 kw []) by (try desig_tac; try notin_tac; try assumption; lia).
  destruct (stage 6 68 total (i3, l3, c3)) as [[i4 l4] c4]. unfold kw.
  destruct (K_hms n i4 l4 (upd_sp 3 (i, (i4 - i)%nat) c4)) eqn:EK; [reflexivity|].
  (* the inner attempt failed: skipping the group fails too *)
  assert (Dl : dhead l = true \/ (i4 = i /\ l4 = l)).
  { destruct C1 as [C1|C1]; [left; exact C1|]. inversion C1; subst i2 l2 c2.
    destruct C2 as [C2|C2]; [left; exact C2|]. inversion C2; subst i3 l3 c3.
    destruct C3 as [C3|C3]; [left; exact C3|]. inversion C3; subst. right. split; reflexivity. }
  destruct Dl as [Dl|[-> ->]].
  - apply (rej_hms n i l c Hn Dl). intros ? [].
  - pose proof (K_hms_success_indep n i l c (upd_sp 3 (i, (i - i)%nat) c4)) as SI. rewrite EK in SI.
    destruct (K_hms n i l c); [discriminate SI|reflexivity].
Qed.

Lemma rej_ymd n : rej n (K_ymd n) [89; 77; 68].
Proof.
  intros i l c Hn Hd Hno. rewrite (K_ymd_exact n 0) by exact Hn.
  assert (S1 : stage 4 89 0 (i, l, c) = (i, l, c)).
  { cbn [stage]. rewrite (Hno 89) by (cbn; tauto). cbn [fst snd]. rewrite Nat.sub_diag, Nat.add_0_r. reflexivity. }
  assert (S2 : stage 5 77 0 (i, l, c) = (i, l, c)).
  { cbn [stage]. rewrite (Hno 77) by (cbn; tauto). cbn [fst snd]. rewrite Nat.sub_diag, Nat.add_0_r. reflexivity. }
  assert (S3 : stage 6 68 0 (i, l, c) = (i, l, c)).
  { cbn [stage]. rewrite (Hno 68) by (cbn; tauto). cbn [fst snd]. rewrite Nat.sub_diag, Nat.add_0_r. reflexivity. }
  rewrite S1, S2, S3. apply (rej_hms n i l _ Hn Hd). intros ? [].
Qed.

(* ------------------------------------------------------------------ the whole pattern *)
Theorem re_match_sp_dur_exact s :
  re_match_sp (DUR_RE (length s)) DUR_NGROUPS s =
  match s with
  | x :: l0 =>
      if x =? 80 then
        let n := length s in let total := Z.of_nat (length s) in
        let res := try_tok 87 total l0 in
        let i1 := (1 + (length l0 - length (snd res)))%nat in
        let c1 := match fst res with
                  | Some _ => upd_sp 1 (1%nat, (i1 - 1)%nat) (upd_sp 2 (1%nat, (i1 - 1)%nat) (repeat None 12))
                  | None => repeat None 12 end in
        let '(i4, l4, c4) := stage 6 68 total (stage 5 77 total (stage 4 89 total (i1, snd res, c1))) in
        K_hms n i4 l4 (upd_sp 3 (i1, (i4 - i1)%nat) c4)
      else None
  | [] => None
  end.
Proof.
  unfold re_match_sp. rewrite DUR_RE_shape. set (n := length s). change (S DUR_NGROUPS) with 12%nat.
  change (fun (_ : nat) (_ : list Z) (c : scaps) => Some c) with acc.
  rewrite rmatch_sp_seq.   replace (rmatch_sp RBeg 0 s (repeat None 12) _) with (rmatch_sp (RSeq (RLit 80) (RSeq (OPT (RGrp 1 (RGrp 2 (NUM 87 n)))) (RSeq (OPT (RGrp 3 (RSeq (OPT (RGrp 4 (NUM 89 n))) (RSeq (OPT (RGrp 5 (NUM 77 n))) (OPT (RGrp 6 (NUM 68 n))))))) (RSeq (OPT (RGrp 7 (RSeq (RGrp 8 (RLit 84)) (RSeq (OPT (RGrp 9 (NUM 72 n))) (RSeq (OPT (RGrp 10 (NUM 77 n))) (OPT (RGrp 11 (NUM 83 n)))))))) REnd)))) 0 s (repeat None 12) acc) by reflexivity.
  rewrite rmatch_sp_seq, RLit_step.
  destruct s as [|x l0]; [reflexivity|]. destruct (x =? 80); [|reflexivity].
  rewrite rmatch_sp_seq.
  change (fun i' s' c' => rmatch_sp (RSeq (OPT (RGrp 3 _)) (RSeq (OPT (RGrp 7 _)) REnd)) i' s' c' acc) with (K_ymd n).
  assert (Hl0 : (length l0 <= n)%nat) by (unfold n; cbn [length]; lia).
  rewrite (OPT_exact _ _ 87 n (HA_grp2 1 2 87 n) ltac:(desig_tac) (Z.of_nat n) 1 l0 _ (K_ymd n) [89; 77; 68] Hl0 (rej_ymd n))
    by notin_tac.
  cbv zeta. rewrite (K_ymd_exact n (Z.of_nat n)) by (pose proof (try_tok_snd_le 87 (Z.of_nat n) l0); lia).
  reflexivity.
Qed.

Lemma firstn_len_app' {A} (l x : list A) : firstn (length l) (l ++ x) = l.
Proof. induction l as [|a l IH]; [destruct x; reflexivity|]. cbn. f_equal. exact IH. Qed.
Lemma skipn_len_app' {A} (l x : list A) : skipn (length l) (l ++ x) = x.
Proof. induction l as [|a l IH]; [reflexivity|]. cbn. exact IH. Qed.
Lemma skipn_skipn' {A} (a b : nat) (l : list A) : skipn a (skipn b l) = skipn (b + a) l.
Proof. revert l. induction b as [|b IH]; intros l; [reflexivity|]. destruct l as [|x l]; [cbn; destruct a; reflexivity|]. cbn [skipn Nat.add]. apply IH. Qed.

(* ------------------------------------------------------------------ from spans back to the hand matcher's tokens *)
Lemma span_digits_app' ds : forall r, forallb is_digit ds = true -> dhead r = false -> span_digits (ds ++ r) = (ds, r).
Proof.
  induction ds as [|d ds IH]; intros r Hd Hr.
  - cbn [app]. destruct r as [|x r]; [reflexivity|]. cbn [span_digits]. cbn [dhead] in Hr. rewrite Hr. reflexivity.
  - cbn [forallb] in Hd. apply andb_true_iff in Hd. destruct Hd as [Hd0 Hd]. cbn [app span_digits]. rewrite Hd0, (IH r Hd Hr). reflexivity.
Qed.

Lemma try_tok_some X t l tk r : desigc X -> try_tok X t l = (Some tk, r) ->
  exists ds fp, l = ds ++ fp ++ X :: r /\ forallb is_digit ds = true /\ dhead fp = false /\
    t_int tk = ds /\ t_frac tk = (match fp with [] => None | _ :: fs => Some fs end) /\ t_start tk = t - Z.of_nat (length l).
Proof.
  intros [HX1 HX2]. unfold try_tok, scan_num. pose proof (span_digits_spec l) as Sl. destruct (span_digits l) as [ds r0].
  destruct Sl as (El & Hds & Hr0). destruct ds as [|d0 ds']; [discriminate|]. cbn [is_nil]. set (ds := d0 :: ds') in *.
  destruct r0 as [|y r0']; [discriminate|]. cbn [dhead] in Hr0.
  destruct (is_sep y) eqn:Sy.
  - pose proof (span_digits_spec r0') as Sr. destruct (span_digits r0') as [fs r1]. destruct Sr as (Er & Hfs & Hr1).
    destruct fs as [|f0 fs']; cbn [is_nil].
    + destruct (y =? X) eqn:E; [apply Z.eqb_eq in E; subst; congruence|discriminate].
    + destruct r1 as [|z r1']; [discriminate|]. destruct (z =? X) eqn:E; [|discriminate]. apply Z.eqb_eq in E. subst z.
      intros Eq. inversion Eq; subst tk r. exists ds, (y :: f0 :: fs'). cbn [t_int t_frac t_start dhead].
      repeat split; try assumption; try reflexivity. rewrite El, Er. reflexivity.
  - destruct (y =? X) eqn:E; [|discriminate]. apply Z.eqb_eq in E. subst y.
    intros Eq. inversion Eq; subst tk r. exists ds, []. cbn [t_int t_frac t_start dhead app]. repeat split; try assumption; reflexivity.
Qed.

Lemma tok_of_try_tok s i l X tk r : desigc X -> skipn i s = l -> try_tok X (Z.of_nat (length s)) l = (Some tk, r) ->
  tok_of s (Some (i, (i + (length l - length r) - i)%nat)) = Some tk /\ skipn (i + (length l - length r)) s = r.
Proof.
  intros HX Hs E. destruct (try_tok_some X _ l tk r HX E) as (ds & fp & El & Hds & Hfp & Ti & Tf & Ts).
  assert (Ll : length l = (length s - i)%nat) by (rewrite <- Hs; apply skipn_length).
  assert (Hlen : (length l - length r = length ds + length fp + 1)%nat).
  { rewrite El. rewrite !app_length. cbn [length]. lia. }
  split.
  - unfold tok_of. replace (i + (length l - length r) - i - 1)%nat with (length (ds ++ fp)) by (rewrite app_length; lia).
    rewrite Hs, El. rewrite app_assoc, firstn_len_app'. rewrite (span_digits_app' ds fp Hds Hfp).
    destruct tk as [ti tf ts]. cbn [t_int t_frac t_start] in *. subst ti tf ts. f_equal. f_equal.
    assert (length l <> 0)%nat by (rewrite El, !app_length; cbn [length]; lia). lia.
  - replace (i + (length l - length r))%nat with (i + length ((ds ++ fp) ++ [X]))%nat by (rewrite Hlen, !app_length; cbn [length]; lia).
    rewrite <- skipn_skipn', Hs, El.
    replace (ds ++ fp ++ X :: r) with (((ds ++ fp) ++ [X]) ++ r) by (rewrite <- !app_assoc; reflexivity).
    apply skipn_len_app'.
Qed.

Lemma length_upd_sp g v : forall c, length (upd_sp g v c) = length c.
Proof. induction g as [|g IH]; intros [|h t]; cbn [upd_sp length]; try reflexivity. f_equal. apply IH. Qed.
Lemma nth_upd_sp_same g v : forall c, (g < length c)%nat -> nth g (upd_sp g v c) None = Some v.
Proof. induction g as [|g IH]; intros [|h t] H; cbn [length] in H; try lia; cbn [upd_sp nth]; [reflexivity|]. apply IH. lia. Qed.
Lemma nth_upd_sp_other g g' v : forall c, g <> g' -> nth g' (upd_sp g v c) None = nth g' c None.
Proof.
  revert g'. induction g as [|g IH]; intros g' [|h t] H; cbn [upd_sp]; try reflexivity.
  - destruct g'; [congruence|reflexivity].
  - destruct g'; [reflexivity|]. cbn [nth]. apply IH. congruence.
Qed.

Lemma stage_inv s g X i l (c : scaps) : desigc X -> skipn i s = l -> (g < length c)%nat ->
  let res := try_tok X (Z.of_nat (length s)) l in
  let st := stage g X (Z.of_nat (length s)) (i, l, c) in
  snd (fst st) = snd res /\ skipn (fst (fst st)) s = snd (fst st) /\ length (snd st) = length c /\
  (forall g', g' <> g -> nth g' (snd st) None = nth g' c None) /\
  tok_of s (nth g (snd st) None) = match fst res with Some tk => Some tk | None => tok_of s (nth g c None) end.
Proof.
  intros HX Hs Hg. cbv zeta. cbn [stage fst snd].
  destruct (try_tok_cases X (Z.of_nat (length s)) l) as [(tk & r & E & _) | E]; rewrite E; cbn [fst snd].
  - destruct (tok_of_try_tok s i l X tk r HX Hs E) as [T1 T2].
    split; [reflexivity|]. split; [exact T2|]. split; [apply length_upd_sp|].
    split; [intros g' Hg'; apply nth_upd_sp_other; congruence|].
    rewrite nth_upd_sp_same by exact Hg. exact T1.
  - rewrite Nat.sub_diag, Nat.add_0_r. split; [reflexivity|]. split; [exact Hs|]. split; [reflexivity|]. split; [reflexivity|reflexivity].
Qed.

Lemma is_end_hand {A} (l8 : list Z) (v : A) :
  (if is_end l8 then Some v else None) =
  match l8 with [] => Some v | [e] => if e =? c_nl then Some v else None | _ => None end.
Proof. destruct l8 as [|e [|e2 t]]; reflexivity. Qed.

(* THE HAND-WRITTEN MATCHER IS THE REGULAR EXPRESSION: for every string *)
Theorem match_duration_re_eq s : match_duration_re s = match_duration s.
Proof.
  unfold match_duration_re. rewrite re_match_sp_dur_exact. unfold match_duration.
  destruct s as [|x l0]; [reflexivity|]. change c_P with 80. destruct (x =? 80); [|reflexivity].
  set (s := x :: l0). set (total := Z.of_nat (length s)). cbv zeta.
  assert (D87 : desigc 87) by desig_tac. assert (D89 : desigc 89) by desig_tac. assert (D77 : desigc 77) by desig_tac.
  assert (D68 : desigc 68) by desig_tac. assert (D72 : desigc 72) by desig_tac. assert (D83 : desigc 83) by desig_tac.
  (* weeks *)
  change c_W with 87. change c_Y with 89. change c_M with 77. change c_D with 68. change c_H with 72. change c_S with 83. change c_T with 84.
  assert (S0 : skipn 1 s = l0) by reflexivity.
  set (c0 := @repeat (option span) None 12).
  assert (W : exists c1 i1, (match fst (try_tok 87 total l0) with
                | Some _ => upd_sp 1 (1%nat, (1 + (length l0 - length (snd (try_tok 87 total l0))) - 1)%nat)
                              (upd_sp 2 (1%nat, (1 + (length l0 - length (snd (try_tok 87 total l0))) - 1)%nat) c0)
                | None => c0 end) = c1 /\ (1 + (length l0 - length (snd (try_tok 87 total l0))))%nat = i1 /\
              length c1 = 12%nat /\ skipn i1 s = snd (try_tok 87 total l0) /\
              tok_of s (nth 2 c1 None) = fst (try_tok 87 total l0) /\
              (forall g, g <> 1%nat -> g <> 2%nat -> nth g c1 None = None)).
  { eexists _, _. split; [reflexivity|]. split; [reflexivity|].
    destruct (try_tok_cases 87 total l0) as [(tk & r & E & _) | E]; rewrite E; cbn [fst snd].
    - destruct (tok_of_try_tok s 1 l0 87 tk r D87 S0 E) as [T1 T2].
      split; [rewrite !length_upd_sp; reflexivity|]. split; [exact T2|]. split.
      + rewrite nth_upd_sp_other by discriminate. rewrite nth_upd_sp_same by (cbn; lia). exact T1.
      + intros g G1 G2. rewrite !nth_upd_sp_other by congruence. unfold c0. do 12 (destruct g as [|g]; [reflexivity|]). destruct g; reflexivity.
    - rewrite Nat.sub_diag. split; [reflexivity|]. split; [exact S0|]. split; [reflexivity|].
      intros g _ _. unfold c0. do 12 (destruct g as [|g]; [reflexivity|]). destruct g; reflexivity. }
  destruct W as (c1 & i1 & Ec1 & Ei1 & Lc1 & Sk1 & Tw & Oth1). rewrite Ec1, Ei1. clear Ec1 Ei1.
  destruct (try_tok 87 total l0) as [w l1]. cbn [fst snd] in *.
  (* years, months, days *)
  pose proof (stage_inv s 4 89 i1 l1 c1 D89 Sk1 ltac:(lia)) as Iy. cbv zeta in Iy. fold total in Iy.
  revert Iy. destruct (stage 4 89 total (i1, l1, c1)) as [[i2 l2] c2]. intros Iy. cbn [fst snd] in Iy. destruct Iy as (Ey & Sk2 & Lc2 & Oth2 & Ty).
  destruct (try_tok 89 total l1) as [y l2']. cbn [fst snd] in *. subst l2'.
  pose proof (stage_inv s 5 77 i2 l2 c2 D77 Sk2 ltac:(lia)) as Im. cbv zeta in Im. fold total in Im.
  revert Im. destruct (stage 5 77 total (i2, l2, c2)) as [[i3 l3] c3]. intros Im. cbn [fst snd] in Im. destruct Im as (Em & Sk3 & Lc3 & Oth3 & Tm).
  destruct (try_tok 77 total l2) as [mo l3']. cbn [fst snd] in *. subst l3'.
  pose proof (stage_inv s 6 68 i3 l3 c3 D68 Sk3 ltac:(lia)) as Id. cbv zeta in Id. fold total in Id.
  revert Id. destruct (stage 6 68 total (i3, l3, c3)) as [[i4 l4] c4]. intros Id. cbn [fst snd] in Id. destruct Id as (Ed & Sk4 & Lc4 & Oth4 & Td).
  destruct (try_tok 68 total l3) as [dd l4']. cbn [fst snd] in *. subst l4'.
  assert (Ty' : tok_of s (nth 4 c4 None) = y).
  { rewrite Oth4, Oth3 by lia. rewrite Ty. destruct y; [reflexivity|]. rewrite Oth1 by lia. reflexivity. }
  assert (Tm' : tok_of s (nth 5 c4 None) = mo).
  { rewrite Oth4 by lia. rewrite Tm. destruct mo; [reflexivity|]. rewrite Oth2, Oth1 by lia. reflexivity. }
  assert (Td' : tok_of s (nth 6 c4 None) = dd).
  { rewrite Td. destruct dd; [reflexivity|]. rewrite Oth3, Oth2, Oth1 by lia. reflexivity. }
  assert (Tw' : tok_of s (nth 2 c4 None) = w) by (rewrite Oth4, Oth3, Oth2 by lia; exact Tw).
  assert (N4 : forall g, (7 <= g)%nat -> nth g c4 None = None) by (intros g Hg; rewrite Oth4, Oth3, Oth2, Oth1 by lia; reflexivity).
  (* hms *)
  assert (Ll4 : (length l4 <= length s)%nat) by (rewrite <- Sk4, skipn_length; lia).
  rewrite (K_hms_exact (length s) total) by exact Ll4.
  set (c4' := upd_sp 3 (i1, (i4 - i1)%nat) c4).
  assert (Lc4' : length c4' = 12%nat) by (unfold c4'; rewrite length_upd_sp; lia).
  assert (R4 : forall g, g <> 3%nat -> nth g c4' None = nth g c4 None) by (intros g Hg; unfold c4'; apply nth_upd_sp_other; congruence).
  destruct l4 as [|t l5].
  - rewrite K_end_unfold. cbn [is_end option_map]. unfold dmatch_of.
    change G_DUR_weeks with 2%nat. change G_DUR_years with 4%nat. change G_DUR_months with 5%nat. change G_DUR_days with 6%nat.
    change G_DUR_hms with 7%nat. change G_DUR_hours with 9%nat. change G_DUR_minutes with 10%nat. change G_DUR_seconds with 11%nat.
    rewrite !R4 by lia. rewrite Tw', Ty', Tm', Td', !N4 by lia. reflexivity.
  - destruct (t =? 84) eqn:Et.
    + apply Z.eqb_eq in Et. subst t.
      assert (Sk5 : skipn (S i4) s = l5).
      { replace (S i4) with (i4 + 1)%nat by lia. rewrite <- skipn_skipn', Sk4. reflexivity. }
      set (c5 := upd_sp 8 (i4, (S i4 - i4)%nat) c4').
      assert (Lc5 : length c5 = 12%nat) by (unfold c5; rewrite length_upd_sp; lia).
      assert (R5 : forall g, g <> 8%nat -> nth g c5 None = nth g c4' None) by (intros g Hg; unfold c5; apply nth_upd_sp_other; congruence).
      pose proof (stage_inv s 9 72 (S i4) l5 c5 D72 Sk5 ltac:(lia)) as Ih. cbv zeta in Ih. fold total in Ih.
      revert Ih. destruct (stage 9 72 total (S i4, l5, c5)) as [[i6 l6] c6]. intros Ih. cbn [fst snd] in Ih. destruct Ih as (Eh & Sk6 & Lc6 & Oth6 & Th).
      destruct (try_tok 72 total l5) as [h l6']. cbn [fst snd] in *. subst l6'.
      pose proof (stage_inv s 10 77 i6 l6 c6 D77 Sk6 ltac:(lia)) as Imi. cbv zeta in Imi. fold total in Imi.
      revert Imi. destruct (stage 10 77 total (i6, l6, c6)) as [[i7 l7] c7]. intros Imi. cbn [fst snd] in Imi. destruct Imi as (Emi & Sk7 & Lc7 & Oth7 & Tmi).
      destruct (try_tok 77 total l6) as [mi l7']. cbn [fst snd] in *. subst l7'.
      pose proof (stage_inv s 11 83 i7 l7 c7 D83 Sk7 ltac:(lia)) as Is. cbv zeta in Is. fold total in Is.
      revert Is. destruct (stage 11 83 total (i7, l7, c7)) as [[i8 l8] c8]. intros Is. cbn [fst snd] in Is. destruct Is as (Es & Sk8 & Lc8 & Oth8 & Ts).
      destruct (try_tok 83 total l7) as [se l8']. cbn [fst snd] in *. subst l8'.
      cbv beta iota zeta. rewrite K_end_unfold.
      assert (DM : dmatch_of s (upd_sp 7 (i4, (i8 - i4)%nat) c8) = mk_dmatch w y mo dd true h mi se).
      {
      set (c9 := upd_sp 7 (i4, (i8 - i4)%nat) c8).
      assert (R9 : forall g, g <> 7%nat -> nth g c9 None = nth g c8 None) by (intros g Hg; unfold c9; apply nth_upd_sp_other; congruence).
      unfold dmatch_of.
      change G_DUR_weeks with 2%nat. change G_DUR_years with 4%nat. change G_DUR_months with 5%nat. change G_DUR_days with 6%nat.
      change G_DUR_hms with 7%nat. change G_DUR_hours with 9%nat. change G_DUR_minutes with 10%nat. change G_DUR_seconds with 11%nat.
      assert (H7 : nth 7 c9 None = Some (i4, (i8 - i4)%nat)) by (unfold c9; apply nth_upd_sp_same; lia).
      rewrite H7. rewrite !R9 by lia.
      assert (Low : forall g, (g <= 6)%nat -> g <> 3%nat -> nth g c8 None = nth g c4 None).
      { intros g G1 G2. rewrite Oth8, Oth7, Oth6, R5, R4 by lia. reflexivity. }
      rewrite !Low by lia. rewrite Tw', Ty', Tm', Td'.
      assert (Hh : tok_of s (nth 9 c8 None) = h).
      { rewrite Oth8, Oth7 by lia. rewrite Th. destruct h; [reflexivity|]. rewrite R5, R4, N4 by lia. reflexivity. }
      assert (Hmi : tok_of s (nth 10 c8 None) = mi).
      { rewrite Oth8 by lia. rewrite Tmi. destruct mi; [reflexivity|]. rewrite Oth6, R5, R4, N4 by lia. reflexivity. }
      assert (Hse : tok_of s (nth 11 c8 None) = se).
      { rewrite Ts. destruct se; [reflexivity|]. rewrite Oth7, Oth6, R5, R4, N4 by lia. reflexivity. }
      rewrite Hh, Hmi, Hse. reflexivity. }
      destruct l8 as [|e [|e2 t8]]; cbn [is_end option_map]; rewrite ?DM; try reflexivity.
      change c_nl with 10. destruct (e =? 10); cbn [option_map]; rewrite ?DM; reflexivity.
    + cbv beta iota zeta. rewrite K_end_unfold.
      assert (DM : dmatch_of s c4' = mk_dmatch w y mo dd false None None None).
      { unfold dmatch_of.
      change G_DUR_weeks with 2%nat. change G_DUR_years with 4%nat. change G_DUR_months with 5%nat. change G_DUR_days with 6%nat.
      change G_DUR_hms with 7%nat. change G_DUR_hours with 9%nat. change G_DUR_minutes with 10%nat. change G_DUR_seconds with 11%nat.
      rewrite !R4 by lia. rewrite Tw', Ty', Tm', Td', !N4 by lia. reflexivity. }
      destruct l5 as [|e2 t8]; cbn [is_end option_map]; [|reflexivity].
      change c_nl with 10. destruct (t =? 10); cbn [option_map]; rewrite ?DM; reflexivity.
Qed.

(* hence the whole pure-Python pipeline (regex + _parse_iso8601_duration + Duration) is the modelled one, for every string *)
Theorem py_native_re_eq s : py_native_re s = py_native s.
Proof. unfold py_native_re, py_native. rewrite match_duration_re_eq. reflexivity. Qed.
Theorem py_dur_re_eq s : py_dur_re s = py_dur s.
Proof. unfold py_dur_re, py_dur. rewrite py_native_re_eq. reflexivity. Qed.
