(* Proofs/C07PyForms.v — the pure-Python parser on EVERY well-formed text of the forms of Model/IsoForms.v:
     <date in one of the six forms><T| ><time, extended or basic>[<.|,><1..9 digits>][Z | +-hh | +-hhmm | +-hh:mm]   and the time-only texts.
   Method (Proofs/RegexShape.v): the generated ISO8601_DT cannot tell digits apart, nor 'T' from ' ', nor '.' from ',' (`iso_match_blind2`);
   the texts have finitely many shapes (9 date/time layouts x 10 fraction lengths x 8 offset layouts = 720), the spans of the 26 groups are
   given in CLOSED FORM as a function of the lengths of the pieces (`date_spans`, `time_spans`) and checked against the span matcher on all
   720 representatives by ONE kernel computation (`chk_all_ok`); the group texts are then read off the concatenation symbolically
   (`iso_groups_of_text`), and the post-match code is evaluated on them (`date_half`, `py_timepart_groups`). *)
From Coq Require Import ZArith List Bool Lia ZifyBool.
From PV Require Import Lib.Reflect Lib.PyBase Spec.Cal Proofs.CalFacts Model.C07Regex Gen.IsoRegex Gen.IsoPost Model.IsoParse Model.IsoRender Model.IsoForms.
From PV Require Import Proofs.C15Facts Proofs.C07Lex Proofs.C07Cal Proofs.C07Week Proofs.C07Round Proofs.RegexShape Proofs.C07PyRound.
Import ListNotations.
Ltac Zify.zify_post_hook ::= Z.to_euclidean_division_equations.
Open Scope Z_scope.

(* ------------------------------------------------------------------ a coarser normal form: digits -> '0', ' ' -> 'T', ',' -> '.' *)
Definition norm2 (c : Z) : Z := if is_digit c then 48 else if c =? 32 then 84 else if c =? 44 then 46 else c.
Definition shape2 (s : list Z) : list Z := map norm2 s.

Lemma iso_seps_alike : simb ISO_RE 84 32 = true /\ simb ISO_RE 46 44 = true.
Proof. vm_compute. split; reflexivity. Qed.

Lemma iso_sim_norm2 c : sim ISO_RE (norm2 c) c.
Proof.
  unfold norm2. destruct (is_digit c) eqn:D.
  - pose proof (iso_sim_norm c) as H. unfold norm in H. rewrite D in H. exact H.
  - destruct (c =? 32) eqn:E1; [apply Z.eqb_eq in E1; subst c; exact (proj1 iso_seps_alike)|].
    destruct (c =? 44) eqn:E2; [apply Z.eqb_eq in E2; subst c; exact (proj2 iso_seps_alike)|].
    apply simb_refl.
Qed.

Theorem iso_match_blind2 s :
  re_match ISO_RE ISO_NGROUPS s = option_map (texts s) (re_match_sp ISO_RE ISO_NGROUPS (shape2 s)).
Proof.
  apply re_match_shape. induction s as [|c s IH]; [constructor|]. cbn [shape2 map]. constructor; [apply iso_sim_norm2|exact IH].
Qed.

(* ------------------------------------------------------------------ representatives and their spans, in closed form *)
(* date variant: 0..5 = the six forms, 6 = no date *)
Definition rep_date (dv : nat) : list Z :=
  match dv with
  | 0%nat => [48; 48; 48; 48; 45; 48; 48; 45; 48; 48]
  | 1%nat => [48; 48; 48; 48; 48; 48; 48; 48]
  | 2%nat => [48; 48; 48; 48; 45; 48; 48; 48]
  | 3%nat => [48; 48; 48; 48; 48; 48; 48]
  | 4%nat => [48; 48; 48; 48; 45; 87; 48; 48; 45; 48]
  | 5%nat => [48; 48; 48; 48; 87; 48; 48; 48]
  | _ => []
  end.
Definition rep_pre (pre : bool) : list Z := if pre then [84] else [].
Definition rep_time (ext : bool) : list Z := if ext then [48; 48; 58; 48; 48; 58; 48; 48] else [48; 48; 48; 48; 48; 48].
(* fraction: None, or the number of digits *)
Definition rep_frac (fr : option nat) : list Z := match fr with None => [] | Some k => 46 :: repeat 48 k end.
(* offset variant: 0 none, 1 Z, 2/3 +hh/-hh, 4/5 +hhmm/-hhmm, 6/7 +hh:mm/-hh:mm *)
Definition rep_off (ov : nat) : list Z :=
  match ov with
  | 0%nat => [] | 1%nat => [90]
  | 2%nat => [43; 48; 48] | 3%nat => [45; 48; 48]
  | 4%nat => [43; 48; 48; 48; 48] | 5%nat => [45; 48; 48; 48; 48]
  | 6%nat => [43; 48; 48; 58; 48; 48] | _ => [45; 48; 48; 58; 48; 48]
  end.
Definition rep (dv : nat) (pre ext : bool) (fr : option nat) (ov : nat) : list Z :=
  rep_date dv ++ rep_pre pre ++ rep_time ext ++ rep_frac fr ++ rep_off ov.

(* the spans of the date groups 0..15: read off one representative per date variant *)
Definition date_spans (dv : nat) : scaps :=
  match dv with
  | 6%nat => repeat None 16
  | _ => match re_match_sp ISO_RE ISO_NGROUPS (rep dv true (Nat.even dv) None 0) with Some l => firstn 16 l | None => [] end
  end.
(* the spans of the time groups 16..25, as a function of the lengths of the pieces *)
Definition time_spans0 (pre ext : bool) (fr : option nat) (lo : nat) : scaps :=
  let lp := if pre then 1%nat else 0%nat in
  let lt := if ext then 8%nat else 6%nat in
  let lf := match fr with None => 0%nat | Some k => S k end in
  [ Some (0%nat, (lp + lt + lf + lo)%nat);
    (if pre then Some (0%nat, 1%nat) else None);
    Some (lp, 2%nat);
    (if ext then Some ((lp + 2)%nat, 1%nat) else None);
    Some ((if ext then lp + 3 else lp + 2)%nat, 2%nat);
    (if ext then Some ((lp + 5)%nat, 1%nat) else None);
    Some ((if ext then lp + 6 else lp + 4)%nat, 2%nat);
    match fr with None => None | Some k => Some ((lp + lt)%nat, S k) end;
    match fr with None => None | Some k => Some (S (lp + lt), k) end;
    match lo with O => None | S _ => Some ((lp + lt + lf)%nat, lo) end ].
Definition shift_span (ld : nat) (sp : span) : span := ((ld + fst sp)%nat, snd sp).
Definition time_spans (ld : nat) (pre ext : bool) (fr : option nat) (lo : nat) : scaps :=
  map (option_map (shift_span ld)) (time_spans0 pre ext fr lo).

Definition span_eqb (a b : option span) : bool :=
  match a, b with
  | None, None => true
  | Some (x, y), Some (x', y') => Nat.eqb x x' && Nat.eqb y y'
  | _, _ => false
  end.
Fixpoint scaps_eqb (a b : scaps) : bool :=
  match a, b with
  | [], [] => true
  | x :: a', y :: b' => span_eqb x y && scaps_eqb a' b'
  | _, _ => false
  end.
Lemma span_eqb_eq a b : span_eqb a b = true -> a = b.
Proof.
  destruct a as [[x y]|], b as [[x' y']|]; cbn; intros H; try discriminate; try reflexivity.
  apply andb_true_iff in H. destruct H as [H1 H2]. apply Nat.eqb_eq in H1, H2. subst. reflexivity.
Qed.
Lemma scaps_eqb_eq : forall a b, scaps_eqb a b = true -> a = b.
Proof.
  induction a as [|x a IH]; intros [|y b] H; try discriminate H; [reflexivity|].
  cbn [scaps_eqb] in H. apply andb_true_iff in H. destruct H as [H1 H2]. f_equal; [apply span_eqb_eq; exact H1|apply IH; exact H2].
Qed.

Definition chk (dv : nat) (pre ext : bool) (fr : option nat) (ov : nat) : bool :=
  match re_match_sp ISO_RE ISO_NGROUPS (rep dv pre ext fr ov) with
  | Some l => scaps_eqb l (date_spans dv ++ time_spans (length (rep_date dv)) pre ext fr (length (rep_off ov)))
  | None => false
  end.

(* the combinations: date forms with 'T' and the time format of the same kind; time only: T + extended, T + basic, bare extended *)
Definition combos : list (nat * bool * bool) :=
  [(0, true, true); (1, true, false); (2, true, true); (3, true, false); (4, true, true); (5, true, false);
   (6, true, true); (6, true, false); (6, false, true)]%nat.
Definition fracs : list (option nat) := None :: map Some (seq 1 9).
Definition chk_all : bool :=
  forallb (fun c : nat * bool * bool => let '(dv, pre, ext) := c in
    forallb (fun fr => forallb (fun ov => chk dv pre ext fr ov) (seq 0 8)) fracs) combos.
Lemma chk_all_ok : chk_all = true.
Proof. vm_compute. reflexivity. Qed.

Lemma chk_sound dv pre ext fr ov : chk dv pre ext fr ov = true ->
  re_match_sp ISO_RE ISO_NGROUPS (rep dv pre ext fr ov) =
  Some (date_spans dv ++ time_spans (length (rep_date dv)) pre ext fr (length (rep_off ov))).
Proof.
  unfold chk. generalize (re_match_sp ISO_RE ISO_NGROUPS (rep dv pre ext fr ov)). intros [l|] A; [|discriminate A].
  f_equal. apply scaps_eqb_eq. exact A.
Qed.

Lemma In_combos_use dv pre ext fr ov : In (dv, pre, ext) combos -> In fr fracs -> (ov < 8)%nat ->
  re_match_sp ISO_RE ISO_NGROUPS (rep dv pre ext fr ov) =
  Some (date_spans dv ++ time_spans (length (rep_date dv)) pre ext fr (length (rep_off ov))).
Proof.
  intros Hc Hf Ho. assert (Ho' : In ov (seq 0 8)) by (apply in_seq; lia). clear Ho.
  apply chk_sound.
  pose proof chk_all_ok as A. unfold chk_all in A.
  pose proof (proj1 (forallb_forall _ _) A _ Hc) as A1. cbv beta iota in A1.
  pose proof (proj1 (forallb_forall _ _) A1 _ Hf) as A2. cbv beta in A2.
  exact (proj1 (forallb_forall _ _) A2 _ Ho').
Qed.

Lemma fracs_in k : (1 <= k <= 9)%nat -> In (Some k) fracs.
Proof. intros H. unfold fracs. right. apply in_map. apply in_seq. lia. Qed.

(* every text of one of the listed shapes matches, with the groups at the closed-form spans *)
Theorem iso_groups_by_shape s dv pre ext fr ov : In (dv, pre, ext) combos -> In fr fracs -> (ov < 8)%nat ->
  shape2 s = rep dv pre ext fr ov ->
  re_match ISO_RE ISO_NGROUPS s =
  Some (texts s (date_spans dv ++ time_spans (length (rep_date dv)) pre ext fr (length (rep_off ov)))).
Proof. intros Hc Hf Ho Hs. rewrite iso_match_blind2, Hs, In_combos_use by assumption. reflexivity. Qed.

(* ------------------------------------------------------------------ list facts for reading the groups off a concatenation *)
Lemma firstn_len_app {A} (l x : list A) : firstn (length l) (l ++ x) = l.
Proof. induction l as [|a l IH]; [destruct x; reflexivity|]. cbn. f_equal. exact IH. Qed.
Lemma skipn_len_app {A} (l x : list A) : skipn (length l) (l ++ x) = x.
Proof. induction l as [|a l IH]; [reflexivity|]. cbn. exact IH. Qed.
Lemma firstn_len {A} (l : list A) : firstn (length l) l = l.
Proof. apply firstn_all. Qed.

Lemma shape2_app a b : shape2 (a ++ b) = shape2 a ++ shape2 b. Proof. apply map_app. Qed.
Lemma shape2_cons c s : shape2 (c :: s) = norm2 c :: shape2 s. Proof. reflexivity. Qed.
Lemma norm2_dg a : 0 <= a <= 9 -> norm2 (dg a) = 48.
Proof. intros H. unfold norm2. rewrite is_digit_dg by exact H. reflexivity. Qed.
Lemma shape2_render2 n : 0 <= n < 100 -> shape2 (render2 n) = [48; 48].
Proof. intros Hn. unfold render2. cbn [shape2 map]. rewrite !norm2_dg by lia. reflexivity. Qed.
Lemma shape2_render3 n : 0 <= n < 1000 -> shape2 (render3 n) = [48; 48; 48].
Proof. intros Hn. unfold render3. cbn [shape2 map]. rewrite !norm2_dg by lia. reflexivity. Qed.
Lemma shape2_render1 n : 0 <= n <= 9 -> shape2 (render1 n) = [48].
Proof. intros Hn. unfold render1. cbn [shape2 map]. rewrite norm2_dg by lia. reflexivity. Qed.
Lemma shape2_digits ds : forallb is_digit ds = true -> shape2 ds = repeat 48 (length ds).
Proof.
  induction ds as [|c ds IH]; intros H; [reflexivity|]. cbn [forallb] in H. apply andb_true_iff in H. destruct H as [Hc Hd].
  cbn [shape2 map length repeat]. unfold norm2 at 1. rewrite Hc. f_equal. apply IH. exact Hd.
Qed.
Ltac shape2_norm := repeat (rewrite ?shape2_app, ?shape2_cons); rewrite ?shape2_render2, ?shape2_render3, ?shape2_render1 by lia.

(* the pieces *)
Lemma shape2_time ext H M S : 0 <= H < 100 -> 0 <= M < 100 -> 0 <= S < 100 -> shape2 (time_text ext H M S) = rep_time ext.
Proof. intros. unfold time_text. destruct ext; shape2_norm; reflexivity. Qed.

Definition frac_len (f : frac) : option nat := match f with None => None | Some (_, ds) => Some (length ds) end.
Lemma shape2_frac f : frac_ok f = true -> shape2 (frac_text f) = rep_frac (frac_len f) /\ In (frac_len f) fracs.
Proof.
  destruct f as [[fs ds]|]; cbn [frac_ok frac_text frac_len rep_frac]; intros H; [|split; [reflexivity|left; reflexivity]].
  apply andb_true_iff in H. destruct H as [H H4]. apply andb_true_iff in H. destruct H as [H H3].
  apply andb_true_iff in H. destruct H as [H1 H2].
  split; [|apply fracs_in; apply Nat.leb_le in H3, H4; lia].
  rewrite shape2_cons, shape2_digits by exact H2. f_equal.
  assert (E : fs = 46 \/ fs = 44) by lia. destruct E as [-> | ->]; reflexivity.
Qed.

Definition offs_variant (o : offs) : nat :=
  match o with
  | ONone => 0 | OZ => 1
  | OHM style neg _ _ => (if (style =? 2)%Z then 2 else if (style =? 1)%Z then 4 else 6) + (if (neg =? 0)%Z then 0 else 1)
  end%nat.
Lemma shape2_offs o : offs_ok o = true -> shape2 (offs_text o) = rep_off (offs_variant o) /\ (offs_variant o < 8)%nat.
Proof.
  destruct o as [| |style neg hh mm]; cbn [offs_ok offs_text offs_variant]; intros H; [split; [reflexivity|lia]..|].
  assert (Hs : style = 0 \/ style = 1 \/ style = 2) by lia. assert (Hn : neg = 0 \/ neg = 1) by lia.
  unfold hm_text.
  destruct Hs as [-> | [-> | ->]]; destruct Hn as [-> | ->]; cbn [Z.eqb Pos.eqb Nat.add]; (split; [|lia]);
    shape2_norm; reflexivity.
Qed.

(* ------------------------------------------------------------------ reading the time groups off the text *)
Lemma sub_shift (A R : list Z) sp : sub (A ++ R) (shift_span (length A) sp) = sub R sp.
Proof. unfold sub, shift_span. cbn [fst snd]. rewrite skipn_app, skipn_all2 by lia. replace (length A + fst sp - length A)%nat with (fst sp) by lia. reflexivity. Qed.
Lemma texts_shift (A R : list Z) sc : texts (A ++ R) (map (option_map (shift_span (length A))) sc) = texts R sc.
Proof.
  unfold texts. rewrite map_map. apply map_ext. intros [sp|]; [|reflexivity]. cbn [option_map]. f_equal. apply sub_shift.
Qed.

Definition pre_text (pre : bool) (sep : Z) : list Z := if pre then [sep] else [].
Definition time_groups (pre : bool) (sep : Z) (ext : bool) (H M S : Z) (f : frac) (O : list Z) : caps :=
  [ Some (pre_text pre sep ++ time_text ext H M S ++ frac_text f ++ O);
    (if pre then Some [sep] else None);
    Some (render2 H); (if ext then Some [58] else None); Some (render2 M); (if ext then Some [58] else None); Some (render2 S);
    match f with None => None | Some (fs, ds) => Some (fs :: ds) end;
    match f with None => None | Some (_, ds) => Some ds end;
    match O with [] => None | _ => Some O end ].

Lemma texts_time pre sep ext H M S f O :
  texts (pre_text pre sep ++ time_text ext H M S ++ frac_text f ++ O) (time_spans0 pre ext (frac_len f) (length O)) =
  time_groups pre sep ext H M S f O.
Proof.
  unfold time_groups, time_spans0, pre_text, time_text, render2.
  destruct pre, ext, f as [[fs ds]|], O as [|o1 O'];
    cbn [frac_text frac_len length app Nat.add texts map option_map sub fst snd firstn skipn];
    rewrite ?app_nil_r, ?Nat.add_0_r;
    rewrite ?skipn_len_app, ?firstn_len_app, ?firstn_len;
    repeat match goal with |- context [firstn (?a + ?b)%nat (?l ++ ?r)] =>
      rewrite (firstn_all2 (n := (a + b)%nat) (l ++ r)) by (rewrite app_length; cbn [length]; lia) end;
    try reflexivity.
Qed.

Lemma shape2_length s : length (shape2 s) = length s. Proof. apply map_length. Qed.

(* the groups of every text <date text><T| ><time>[fraction][offset] (and of the time-only texts), whatever the digits *)
Theorem iso_groups_of_text Dt dv pre sep ext H M S f o :
  In (dv, pre, ext) combos -> shape2 Dt = rep_date dv -> sep = 84 \/ sep = 32 ->
  0 <= H < 100 -> 0 <= M < 100 -> 0 <= S < 100 -> frac_ok f = true -> offs_ok o = true ->
  let s := Dt ++ pre_text pre sep ++ time_text ext H M S ++ frac_text f ++ offs_text o in
  re_match ISO_RE ISO_NGROUPS s = Some (texts s (date_spans dv) ++ time_groups pre sep ext H M S f (offs_text o)).
Proof.
  intros Hc HD Hsep HH HM HS Hf Ho s.
  destruct (shape2_frac f Hf) as [Sf If]. destruct (shape2_offs o Ho) as [So Io].
  assert (Sp : shape2 (pre_text pre sep) = rep_pre pre) by (destruct pre; [destruct Hsep as [-> | ->]|]; reflexivity).
  rewrite (iso_groups_by_shape s dv pre ext (frac_len f) (offs_variant o) Hc If Io).
  - f_equal. unfold texts at 1. rewrite map_app. fold (texts s (date_spans dv)). f_equal.
    fold (texts s (time_spans (length (rep_date dv)) pre ext (frac_len f) (length (rep_off (offs_variant o))))).
    rewrite <- HD, <- So, !shape2_length. unfold s, time_spans. rewrite texts_shift. apply texts_time.
  - unfold s, rep. rewrite !shape2_app, HD, Sp, Sf, So, shape2_time by assumption. reflexivity.
Qed.

(* ------------------------------------------------------------------ the post-match code on these groups *)
Lemma int_of_digits_bound ds : forallb is_digit ds = true -> 0 <= int_of ds < 10 ^ Z.of_nat (length ds).
Proof.
  rewrite int_of_fold. unfold dec_fold.
  assert (G : forall acc k, 0 <= acc < 10 ^ Z.of_nat k -> forallb is_digit ds = true ->
              0 <= fold_left (fun a ch => 10 * a + (ch - 48)) ds acc < 10 ^ Z.of_nat (k + length ds)).
  { induction ds as [|c ds IH]; intros acc k Ha Hd; [cbn [fold_left length]; rewrite Nat.add_0_r; exact Ha|].
    cbn [forallb] in Hd. apply andb_true_iff in Hd. destruct Hd as [Hc Hd]. cbn [fold_left length].
    replace (k + S (length ds))%nat with (S k + length ds)%nat by lia. apply IH; [|exact Hd].
    rewrite Nat2Z.inj_succ, Z.pow_succ_r by lia. unfold is_digit in Hc. lia. }
  intros Hd. apply (G 0 0%nat); [cbn; lia|exact Hd].
Qed.

Lemma digits_us_range ds : forallb is_digit ds = true -> 0 <= digits_us ds < 1000000.
Proof.
  intros Hd. unfold digits_us. pose proof (int_of_digits_bound (firstn 6 ds) (forallb_firstn _ 6 ds Hd)) as B.
  pose proof (firstn_le_length 6 ds) as L. assert (L6 : (length (firstn 6 ds) <= 6)%nat) by (rewrite firstn_length; lia).
  set (k := length (firstn 6 ds)) in *. set (v := int_of (firstn 6 ds)) in *.
  assert (E : 10 ^ Z.of_nat k * 10 ^ (6 - Z.of_nat k) = 1000000) by (rewrite <- Z.pow_add_r by lia; replace (Z.of_nat k + (6 - Z.of_nat k)) with 6 by lia; reflexivity).
  assert (P : 0 < 10 ^ (6 - Z.of_nat k)) by (apply Z.pow_pos_nonneg; lia).
  nia.
Qed.

Lemma frac_value_range f : frac_ok f = true -> 0 <= frac_value f < 1000000.
Proof.
  destruct f as [[fs ds]|]; cbn [frac_ok frac_value]; [|lia]. intros H.
  apply andb_true_iff in H. destruct H as [H _]. apply andb_true_iff in H. destruct H as [H _].
  apply andb_true_iff in H. destruct H as [_ H]. apply digits_us_range. exact H.
Qed.

Lemma py_tz_offs o : offs_ok o = true -> o <> ONone -> exists v, offs_value o = Some v /\ py_tz_offset (offs_text o) = Ok v.
Proof.
  destruct o as [| |style neg hh mm]; cbn [offs_ok offs_text offs_value]; intros H N; [congruence|exists 0; split; reflexivity|].
  exists (hm_value style neg hh mm). split; [reflexivity|].
  exact (proj1 (offset_value style neg hh mm ltac:(lia) ltac:(lia) ltac:(lia) ltac:(lia))).
Qed.

Definition timepart_result (is_date : bool) (y m d H M S : Z) (f : frac) (o : offs) : result pval :=
  if is_date then mk_datetime y m d H M S (frac_value f) (offs_value o) else mk_time H M S (frac_value f) (offs_value o).

Lemma py_timepart_groups g0 g1 g2 g3 g4 g5 g6 g7 g8 g9 g10 g11 g12 g13 g14 g15 pre sep ext H M S f o is_date y m d :
  0 <= H < 100 -> 0 <= M < 100 -> 0 <= S < 100 -> frac_ok f = true -> offs_ok o = true ->
  let c := [g0; g1; g2; g3; g4; g5; g6; g7; g8; g9; g10; g11; g12; g13; g14; g15] ++ time_groups pre sep ext H M S f (offs_text o) in
  has c G_ISO_time = true /\ has c G_ISO_timesep = pre /\
  py_timepart c is_date y m d = timepart_result is_date y m d H M S f o.
Proof.
  intros HH HM HS Hf Ho c. unfold c, time_groups, timepart_result. cbn [app].
  destruct (int_of_render2 H HH) as [IH _]. destruct (int_of_render2 M HM) as [IM _]. destruct (int_of_render2 S HS) as [IS _].
  assert (Hus : match f with None => True | Some (_, ds) => int_of (pad6r (firstn 6 ds)) = digits_us ds end).
  { destruct f as [[fs ds]|]; [|exact I]. cbn [frac_ok] in Hf. apply py_fraction_trunc.
    apply andb_true_iff in Hf. destruct Hf as [Hf _]. apply andb_true_iff in Hf. destruct Hf as [_ Hf]. apply Nat.leb_le in Hf. exact Hf. }
  assert (Hoff : match offs_text o with [] => o = ONone | _ => exists v, offs_value o = Some v /\ py_tz_offset (offs_text o) = Ok v end).
  { destruct o as [| |style neg hh mm]; [reflexivity| |]; apply py_tz_offs; try assumption; discriminate. }
  split; [reflexivity|]. split; [destruct pre; reflexivity|].
  unfold py_timepart.
  destruct pre, ext, f as [[fs ds]|]; destruct (offs_text o) as [|o1 O'] eqn:EO; iso_has;
    cbn [frac_value]; rewrite ?IH, ?IM, ?IS, ?Hus;
    try (destruct Hoff as (v & Ev & Pv); rewrite Pv, Ev); try (subst o; cbn [offs_value]);
    destruct is_date; reflexivity.
Qed.

Ltac compute_date_spans :=
  match goal with |- context [date_spans ?k] =>
    let t := constr:(date_spans k) in
    let v := eval vm_compute in t in replace t with v by (vm_compute; reflexivity) end.

Lemma date_half form y m d R tg : 0 <= form <= 5 -> valid_date y m d = true ->
  (4 <= form -> 1001 <= iso_year_of y m d <= 9998) ->
  shape2 (render_date form y m d) = rep_date (Z.to_nat form) /\
  length (texts (render_date form y m d ++ R) (date_spans (Z.to_nat form))) = 16%nat /\
  has (texts (render_date form y m d ++ R) (date_spans (Z.to_nat form)) ++ tg) G_ISO_date = true /\
  py_datepart (texts (render_date form y m d ++ R) (date_spans (Z.to_nat form)) ++ tg) = Ok (y, m, d, false).
Proof.
  intros Hf Vd Hiy. pose proof (valid_date_bounds _ _ _ Vd) as Bd.
  assert (Vb : valid_dateb y m d = true) by (unfold valid_date in Vd; apply andb_true_iff in Vd; tauto).
  destruct (yday_date y m d Vb) as [By Ey]. pose proof (diy_cases y) as Dy. set (n := yday y m d) in *.
  pose proof (isocalendar_inverse y m d Vb) as I. pose proof (ord2ymd_ymd2ord y m d Vb) as O.
  destruct (int_of_render4 y ltac:(lia)) as [Iy _]. destruct (int_of_render2 m ltac:(lia)) as [Im _].
  destruct (int_of_render2 d ltac:(lia)) as [Id _]. destruct (int_of_render3 n ltac:(lia)) as [In_ _].
  unfold render4, render3, render2 in Iy, Im, Id, In_. cbn [app] in Iy.
  assert (F : form = 0 \/ form = 1 \/ form = 2 \/ form = 3 \/ form = 4 \/ form = 5) by lia.
  unfold render_date. fold n. unfold iso_year_of in Hiy.
  destruct F as [-> | [-> | [-> | [-> | F]]]]; cbn [Z.eqb Pos.eqb];
    [ | | | | destruct (isocalendar y m d) as [[iy iw] iwd]; cbn [fst] in Hiy; destruct I as (_ & Bw & Bwd & E);
              pose proof (iso_weeks_52_53 iy) as W; specialize (Hiy ltac:(lia));
              pose proof (py_week_spec iy iw iwd Hiy Bw Bwd) as PW; rewrite E, O in PW;
              destruct (int_of_render4 iy ltac:(lia)) as [Iiy _]; destruct (int_of_render2 iw ltac:(lia)) as [Iiw _];
              assert (Iiwd : int_of (render1 iwd) = iwd) by (unfold render1, int_of, dg; cbn [fold_left]; lia);
              unfold render4, render2, render1 in Iiy, Iiw, Iiwd; cbn [app] in Iiy;
              destruct F as [-> | ->]; cbn [Z.eqb Pos.eqb] ];
    (split; [unfold render4; shape2_norm; reflexivity|]);
    change (Z.to_nat 0) with 0%nat; change (Z.to_nat 1) with 1%nat; change (Z.to_nat 2) with 2%nat;
    change (Z.to_nat 3) with 3%nat; change (Z.to_nat 4) with 4%nat; change (Z.to_nat 5) with 5%nat;
    compute_date_spans; unfold render4, render3, render2, render1;
    cbn [app option_map texts map sub fst snd firstn skipn];
    (split; [reflexivity|]); (split; [reflexivity|]); unfold py_datepart; iso_has; cbn [length Nat.eqb app].
  - rewrite Iy, Im, Id. reflexivity.
  - rewrite Iy, Im, Id. reflexivity.
  - rewrite Iy, In_, py_ordinal_spec by exact By. rewrite Ey. reflexivity.
  - rewrite Iy, In_, py_ordinal_spec by exact By. rewrite Ey. reflexivity.
  - rewrite Iiy, Iiw, Iiwd, PW. reflexivity.
  - rewrite Iiy, Iiw, Iiwd, PW. reflexivity.
Qed.

Lemma py_timepart_groups' dgs pre sep ext H M S f o is_date y m d : length dgs = 16%nat ->
  0 <= H < 100 -> 0 <= M < 100 -> 0 <= S < 100 -> frac_ok f = true -> offs_ok o = true ->
  let c := dgs ++ time_groups pre sep ext H M S f (offs_text o) in
  has c G_ISO_time = true /\ has c G_ISO_timesep = pre /\
  py_timepart c is_date y m d = timepart_result is_date y m d H M S f o.
Proof.
  intros L. do 16 (destruct dgs as [|? dgs]; [discriminate L|]). destruct dgs; [|discriminate L].
  apply py_timepart_groups.
Qed.

Lemma valid_time_frac H M S f : valid_time H M S 0 = true -> frac_ok f = true -> valid_time H M S (frac_value f) = true.
Proof. intros V Hf. pose proof (frac_value_range f Hf). unfold valid_time in *. lia. Qed.

(* ---- combined date and time, every date form, fraction of any length 1..9 after '.' or ',', every offset style *)
Theorem py_parse_iso_datetime form sep y m d H M S f o :
  0 <= form <= 5 -> sep = 84 \/ sep = 32 -> valid_date y m d = true -> valid_time H M S 0 = true ->
  frac_ok f = true -> offs_ok o = true -> (4 <= form -> 1001 <= iso_year_of y m d <= 9998) ->
  py_parse_iso (iso_datetime form sep y m d H M S f o) = Ok (mkp 1 y m d H M S (frac_value f) (offs_value o)).
Proof.
  intros Hform Hsep Vd Vt Hf Ho Hiy. pose proof (valid_time_bounds _ _ _ _ Vt) as Bt.
  unfold py_parse_iso, iso_datetime.
  set (R := [sep] ++ time_text (form_ext form) H M S ++ frac_text f ++ offs_text o).
  destruct (date_half form y m d R (time_groups true sep (form_ext form) H M S f (offs_text o)) Hform Vd Hiy) as (SD & LD & HD & PD).
  assert (Hc : In (Z.to_nat form, true, form_ext form) combos).
  { assert (F : form = 0 \/ form = 1 \/ form = 2 \/ form = 3 \/ form = 4 \/ form = 5) by lia.
    destruct F as [-> | [-> | [-> | [-> | [-> | ->]]]]]; cbn; tauto. }
  pose proof (iso_groups_of_text (render_date form y m d) (Z.to_nat form) true sep (form_ext form) H M S f o
                Hc SD Hsep ltac:(lia) ltac:(lia) ltac:(lia) Hf Ho) as G.
  cbv zeta in G. change (pre_text true sep) with [sep] in G. fold R in G. rewrite G. clear G.
  destruct (py_timepart_groups' _ true sep (form_ext form) H M S f o true y m d LD ltac:(lia) ltac:(lia) ltac:(lia) Hf Ho)
    as (HT & HS & PT).
  cbv zeta in HT, HS, PT. rewrite HD, PD, HT, HS, PT. cbn [negb andb].
  unfold timepart_result, mk_datetime. rewrite Vd, (valid_time_frac _ _ _ _ Vt Hf). reflexivity.
Qed.

(* ---- time only: T + extended, T + basic, bare extended (a bare basic hhmmss is the listed finding py-hhmmss-leading-zero) *)
Theorem py_parse_iso_time pre ext H M S f o :
  pre = true \/ ext = true -> valid_time H M S 0 = true -> frac_ok f = true -> offs_ok o = true ->
  py_parse_iso (iso_time pre ext H M S f o) = Ok (mkp 3 0 0 0 H M S (frac_value f) (offs_value o)).
Proof.
  intros Hpe Vt Hf Ho. pose proof (valid_time_bounds _ _ _ _ Vt) as Bt.
  unfold py_parse_iso, iso_time.
  assert (Hc : In (6%nat, pre, ext) combos) by (destruct pre, ext; cbn; intuition congruence).
  pose proof (iso_groups_of_text [] 6%nat pre 84 ext H M S f o Hc eq_refl ltac:(lia) ltac:(lia) ltac:(lia) ltac:(lia) Hf Ho) as G.
  cbv zeta in G. cbn [app] in G. change (pre_text pre 84) with (if pre then [84] else []) in G. rewrite G. clear G.
  change (date_spans 6) with (@repeat (option span) None 16).
  set (dgs := texts _ (repeat None 16)).
  assert (LD : length dgs = 16%nat) by reflexivity.
  destruct (py_timepart_groups' dgs pre 84 ext H M S f o false 0 1 1 LD ltac:(lia) ltac:(lia) ltac:(lia) Hf Ho) as (HT & HS & PT).
  cbv zeta in HT, HS, PT.
  assert (HD : has (dgs ++ time_groups pre 84 ext H M S f (offs_text o)) G_ISO_date = false) by reflexivity.
  assert (PD : py_datepart (dgs ++ time_groups pre 84 ext H M S f (offs_text o)) = Ok (0, 1, 1, false)) by (unfold py_datepart; rewrite HD; reflexivity).
  rewrite HD, PD, HT, PT. cbn [negb andb].
  unfold timepart_result, mk_time. rewrite (valid_time_frac _ _ _ _ Vt Hf). reflexivity.
Qed.
