(* Proofs/C03LocalTz.v — the local-timezone configuration (Model/LocalTzConfig.v) and fixed-unit addition in the zone it hands out. *)
From Coq Require Import ZArith List Bool Lia.
From PV Require Import Lib.PyBase Spec.Cal Spec.Zone Spec.NativeDT Proofs.ZoneFacts Proofs.C03Facts Model.TzConvert Model.LocalTzConfig.
Import ListNotations.
Open Scope Z_scope.

(* the local zone is the LAST configured one, whatever happened before and whatever the system says *)
Lemma ltz_get_after_set : forall s m sys, ltz_get sys (ltz_set (Some m) s) = (m, ltz_set (Some m) s).
Proof. intros [mk c] m sys. reflexivity. Qed.

(* after the mock is cleared: the cached system zone if the system was ever consulted, else the system zone of that moment *)
Lemma ltz_get_after_clear : forall s sys,
  fst (ltz_get sys (ltz_set None s)) = match l_cache s with Some c => c | None => sys end.
Proof. intros [mk [c|]] sys; reflexivity. Qed.

(* the system zone is read once: later answers do not follow the system any more *)
Lemma ltz_system_read_once : forall s sys sys', l_mock s = None ->
  fst (ltz_get sys' (snd (ltz_get sys s))) = fst (ltz_get sys s).
Proof. intros [mk [c|]] sys sys' H; cbn in H; subst mk; reflexivity. Qed.

(* setting / clearing the mock never touches the cache; a get fills it at most once *)
Lemma ltz_set_keeps_cache : forall m s, l_cache (ltz_set m s) = l_cache s.
Proof. reflexivity. Qed.

(* test_local_timezone(m): inside the block the zone is m; afterwards NO mock is set (an earlier mock is not restored) and the cache is as before *)
Lemma ltz_test_context : forall s m,
  let '(z, s') := ltz_get 0 (ltz_set (Some m) s) in
  z = m /\ l_mock (ltz_set None s') = None /\ l_cache (ltz_set None s') = l_cache s.
Proof. intros [mk c] m. cbn. auto. Qed.

(* a mock makes every earlier history irrelevant *)
Lemma ltz_run_mock_forgets_history : forall s1 s2 m sys, 
  fst (ltz_get sys (ltz_set (Some m) s1)) = fst (ltz_get sys (ltz_set (Some m) s2)).
Proof. intros [m1 c1] [m2 c2] m sys. reflexivity. Qed.

(* fixed-unit addition on a value whose zone came from the local-timezone configuration: zs maps the zone names of the configuration to tables *)
Lemma add_in_local_zone_exact : forall (zs : Z -> zone), (forall i, wf_zone (zs i) = true) ->
  forall s sys W f hours minutes seconds us W' f',
  let z := zs (fst (ltz_get sys s)) in
  let total := td_total_us 0 hours minutes seconds us in
  -999999999 <= total / us_per_day <= 999999999 ->
  add_fixed z W f hours minutes seconds us = Ok (W', f') ->
  (W', f') = render z (inst z W f + total) /\ inst z W' f' = inst z W f + total.
Proof. intros zs Hwf s sys W f h m sec us W' f' z total Hr Ha. exact (add_fixed_spec z (Hwf _) W f h m sec us W' f' Hr Ha). Qed.

Example ltz_run_example :
  ltz_run ltz_init [2; 7;  0; 3;  2; 8;  3; 4;  2; 9;  1; 0;  2; 9] = [7; 3; 4; 7; 7].
Proof. reflexivity. Qed.

(* the hypotheses of add_in_local_zone_exact are satisfiable: every name mapped to a fixed offset *)
Example add_in_local_zone_exact_hyp_sat : forall i : Z, wf_zone ((fun _ => fixed_zone 3600) i) = true.
Proof. intro i. reflexivity. Qed.
