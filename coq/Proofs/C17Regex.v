(* Proofs/C17Regex.v — C17: a capture-group dependency proved for the backtracking matcher of Model/C07Regex.v and ANY pattern:
   if the syntactic check `dep_ok T M r` succeeds (every occurrence of group T encloses, on each of its successful paths, an
   occurrence of group M outside any repetition/alternative that could skip it), then in every match of r "group T took part"
   implies "group M took part".  Instantiated (one kernel computation on the GENERATED AST) with COMMON's groups `time` and `minute`:
   _parse_common's int(m.group("minute")) never sees None. *)
From Coq Require Import ZArith List Bool Lia.
From PV Require Import Lib.PyBase Model.C07Regex Gen.IsoRegex Model.IsoParse.
Import ListNotations.
Open Scope Z_scope.

(* does every successful match of r set group M? (conservative) *)
Fixpoint sets (M : nat) (r : re) : bool :=
  match r with
  | RSeq a b => sets M a || sets M b
  | RAlt a b => sets M a && sets M b
  | RGrp n a => Nat.eqb n M || sets M a
  | _ => false
  end.

(* every occurrence of group T encloses a sure occurrence of group M *)
Fixpoint dep_ok (T M : nat) (r : re) : bool :=
  match r with
  | RSeq a b | RAlt a b => dep_ok T M a && dep_ok T M b
  | RRep a _ _ => dep_ok T M a
  | RGrp n a => dep_ok T M a && (negb (Nat.eqb n T) || sets M a)
  | _ => true
  end.

Definition isset (c : caps) (n : nat) : Prop := grp c n <> None.
Definition mono (c c' : caps) : Prop := forall n, isset c n -> isset c' n.
Definition dep (T M : nat) (c : caps) : Prop := isset c T -> isset c M.

Lemma grp_upd_same n v : forall c, (n < length c)%nat -> grp (upd n v c) n = Some v.
Proof. unfold grp. induction n as [|n IH]; intros [|h t] H; simpl in *; try lia; [reflexivity|]. apply IH. lia. Qed.

Lemma grp_upd_other n v m : m <> n -> forall c, grp (upd n v c) m = grp c m.
Proof.
  unfold grp. intros Hne. revert m Hne. induction n as [|n IH]; intros m Hne [|h t]; simpl; try reflexivity.
  - destruct m; [congruence|reflexivity].
  - destruct m; [reflexivity|]. apply IH. congruence.
Qed.

Lemma grp_upd_short n v c : (length c <= n)%nat -> upd n v c = c.
Proof. revert c. induction n as [|n IH]; intros [|h t] H; simpl in *; try reflexivity; try lia. f_equal. apply IH. lia. Qed.

Lemma mono_upd n v c : mono c (upd n v c).
Proof.
  intros m H. unfold isset in *. destruct (Nat.eq_dec m n) as [->|Hne].
  - destruct (Nat.lt_ge_cases n (length c)) as [L|L].
    + rewrite grp_upd_same by exact L. discriminate.
    + rewrite grp_upd_short by exact L. exact H.
  - rewrite grp_upd_other by exact Hne. exact H.
Qed.

Lemma mono_refl c : mono c c. Proof. intros n H; exact H. Qed.
Lemma mono_trans a b c : mono a b -> mono b c -> mono a c. Proof. intros H1 H2 n H. apply H2, H1, H. Qed.

Lemma isset_upd_inv n v c m : m <> n -> isset (upd n v c) m -> isset c m.
Proof. unfold isset. intros Hne. rewrite grp_upd_other by exact Hne. auto. Qed.

(* the post-condition every successful run of r hands to its continuation *)
Definition post (T M : nat) (r : re) (c c' : caps) : Prop :=
  length c' = length c /\ mono c c' /\ (sets M r = true -> isset c' M) /\ (dep_ok T M r = true -> dep T M c -> dep T M c').

Lemma upd_length n v : forall c, length (upd n v c) = length c.
Proof. induction n as [|n IH]; intros [|h t]; simpl; auto. Qed.

Lemma post_id T M r c : sets M r = false -> post T M r c c.
Proof. intros H. split; [reflexivity|]. split; [apply mono_refl|]. split; [rewrite H; discriminate|auto]. Qed.

Section Run.
  Variables T M : nat.

  Lemma rep_post a (IH : forall i s c k res, (M < length c)%nat -> rmatch a i s c k = Some res ->
                                             exists i' s' c', post T M a c c' /\ k i' s' c' = Some res) :
    forall mx mn i s c k res, (M < length c)%nat ->
      (fix rep (mx : nat) (mn : nat) (i : nat) (s : list Z) (c : caps) {struct mx} : option caps :=
         match mx with
         | O => match mn with O => k i s c | S _ => None end
         | S mx' =>
             match rmatch a i s c (fun i' s' c' => rep mx' (pred mn) i' s' c') with
             | Some res => Some res
             | None => match mn with O => k i s c | S _ => None end
             end
         end) mx mn i s c = Some res ->
      exists i' s' c', (length c' = length c /\ mono c c' /\ (dep_ok T M a = true -> dep T M c -> dep T M c')) /\ k i' s' c' = Some res.
  Proof.
    induction mx as [|mx IHm]; intros mn i s c k res L H.
    - destruct mn; [|discriminate]. exists i, s, c. split; [split; [reflexivity|split; [apply mono_refl|auto]]|exact H].
    - match type of H with match ?X with _ => _ end = _ => destruct X as [r1|] eqn:E end.
      + inversion H; subst r1. apply IH in E; [|exact L]. destruct E as (i1 & s1 & c1 & (Hl1 & Hm1 & _ & Hd1) & E1).
        apply IHm in E1; [|rewrite Hl1; exact L]. destruct E1 as (i2 & s2 & c2 & (Hl2 & Hm2 & Hd2) & E2).
        exists i2, s2, c2. split; [|exact E2]. split; [congruence|]. split; [eapply mono_trans; eauto|]. intros Ho Hd. apply Hd2; auto.
      + destruct mn; [|discriminate]. exists i, s, c. split; [split; [reflexivity|split; [apply mono_refl|auto]]|exact H].
  Qed.

  Lemma rmatch_post : forall r i s c k res, (M < length c)%nat -> rmatch r i s c k = Some res ->
    exists i' s' c', post T M r c c' /\ k i' s' c' = Some res.
  Proof.
    induction r as [|a|neg rs|a IHa b IHb|a IHa b IHb|a IHa mn mx|n a IHa| |]; intros i s c k res L H.
    - exists i, s, c. split; [apply post_id; reflexivity|exact H].
    - simpl in H. destruct s as [|x t]; [discriminate|]. destruct (x =? a); [|discriminate].
      exists (S i), t, c. split; [apply post_id; reflexivity|exact H].
    - simpl in H. destruct s as [|x t]; [discriminate|]. destruct (xorb neg (in_ranges x rs)); [|discriminate].
      exists (S i), t, c. split; [apply post_id; reflexivity|exact H].
    - cbn [rmatch] in H. apply IHa in H; [|exact L]. destruct H as (i1 & s1 & c1 & (Hl1 & Hm1 & Hs1 & Hd1) & H).
      apply IHb in H; [|rewrite Hl1; exact L]. destruct H as (i2 & s2 & c2 & (Hl2 & Hm2 & Hs2 & Hd2) & H).
      exists i2, s2, c2. split; [|exact H]. split; [congruence|]. split; [eapply mono_trans; eauto|]. split.
      + cbn [sets]. intros Hs. apply orb_true_iff in Hs. destruct Hs as [Hs|Hs]; [apply Hm2, Hs1, Hs|apply Hs2, Hs].
      + cbn [dep_ok]. intros Ho. apply andb_true_iff in Ho. destruct Ho as [Ho1 Ho2]. intros Hd. apply Hd2; auto.
    - cbn [rmatch] in H. destruct (rmatch a i s c k) as [r1|] eqn:E.
      + inversion H; subst r1. apply IHa in E; [|exact L]. destruct E as (i1 & s1 & c1 & (Hl1 & Hm1 & Hs1 & Hd1) & E).
        exists i1, s1, c1. split; [|exact E]. split; [exact Hl1|]. split; [exact Hm1|]. split.
        * cbn [sets]. intros Hs. apply andb_true_iff in Hs. apply Hs1, Hs.
        * cbn [dep_ok]. intros Ho. apply andb_true_iff in Ho. apply Hd1, Ho.
      + apply IHb in H; [|exact L]. destruct H as (i1 & s1 & c1 & (Hl1 & Hm1 & Hs1 & Hd1) & E2).
        exists i1, s1, c1. split; [|exact E2]. split; [exact Hl1|]. split; [exact Hm1|]. split.
        * cbn [sets]. intros Hs. apply andb_true_iff in Hs. apply Hs1, Hs.
        * cbn [dep_ok]. intros Ho. apply andb_true_iff in Ho. apply Hd1, Ho.
    - cbn [rmatch] in H. apply (rep_post a IHa) in H; [|exact L]. destruct H as (i1 & s1 & c1 & (Hl1 & Hm1 & Hd1) & E).
      exists i1, s1, c1. split; [|exact E]. split; [exact Hl1|]. split; [exact Hm1|]. split; [cbn [sets]; discriminate|exact Hd1].
    - cbn [rmatch] in H. apply IHa in H; [|exact L]. destruct H as (i1 & s1 & c1 & (Hl1 & Hm1 & Hs1 & Hd1) & E).
      exists i1, s1, (upd n (firstn (i1 - i) s) c1). split; [|exact E].
      pose proof (mono_upd n (firstn (i1 - i) s) c1) as Hu.
      split; [rewrite upd_length; exact Hl1|]. split; [eapply mono_trans; eauto|]. split.
      + cbn [sets]. intros Hs. apply orb_true_iff in Hs. destruct Hs as [Hs|Hs].
        * apply Nat.eqb_eq in Hs. subst n. unfold isset. rewrite grp_upd_same by (rewrite Hl1; exact L). discriminate.
        * apply Hu, Hs1, Hs.
      + cbn [dep_ok]. intros Ho. apply andb_true_iff in Ho. destruct Ho as [Ho1 Ho2]. intros Hd HT.
        destruct (Nat.eqb n T) eqn:En.
        * cbn [negb orb] in Ho2. apply Hu, Hs1, Ho2.
        * apply Hu, Hd1; auto. apply Nat.eqb_neq in En. eapply isset_upd_inv; [|exact HT]. congruence.
    - exists i, s, c. split; [apply post_id; reflexivity|]. simpl in H. destruct i; [exact H|discriminate].
    - exists i, s, c. split; [apply post_id; reflexivity|].
      simpl in H. destruct s as [|x t]; [exact H|]. destruct (rmatch REnd i (x :: t) c k) eqn:E; [|].
      + simpl in E. rewrite <- H. clear H. destruct x; try discriminate. repeat (destruct p; try discriminate). destruct t; [reflexivity|discriminate].
      + simpl in E. congruence.
  Qed.

  (* re.match: in the final capture record "T took part" implies "M took part" *)
  Theorem re_match_dep r ng s c : dep_ok T M r = true -> (M <= ng)%nat -> re_match r ng s = Some c -> isset c T -> isset c M.
  Proof.
    intros Ho Hn H. unfold re_match in H. apply rmatch_post in H; [|rewrite repeat_length; lia].
    destruct H as (i1 & s1 & c1 & (_ & _ & _ & Hd) & E). inversion E; subst c1. apply Hd; [exact Ho|].
    intros HT. exfalso. apply HT. unfold grp. clear. generalize (S ng). intros m. revert T. induction m as [|m IH]; intros [|t]; simpl; auto.
  Qed.
End Run.

(* COMMON: whenever the time group matched, the minute group did (the pattern is the one generated from /repo on this run) *)
Lemma common_time_has_minute s c : re_match COMMON_RE COMMON_NGROUPS s = Some c -> has c G_COMMON_time = true -> has c G_COMMON_minute = true.
Proof.
  intros H HT. pose proof (re_match_dep G_COMMON_time G_COMMON_minute COMMON_RE COMMON_NGROUPS s c) as D.
  unfold has in *. unfold isset in D.
  destruct (grp c G_COMMON_minute); [reflexivity|]. exfalso.
  apply D; [vm_compute; reflexivity | unfold G_COMMON_minute, COMMON_NGROUPS; lia | exact H | | reflexivity].
  destruct (grp c G_COMMON_time); discriminate.
Qed.
