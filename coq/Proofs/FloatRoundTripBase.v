(* Proofs/FloatRoundTripBase.v — bridge between Spec/TdFloat.v (SpecFloat, binary64) and Flocq's real-number semantics.
   No axioms of our own; the real-number axioms of Coq's Reals library come in through Flocq.
     part A  SpecFloat.binary_round_aux = Flocq's at mode_NE ; total_seconds / fmul / binary_normalize as correctly rounded reals
     part B  real-number readings of the integer helpers: sf_trunc_mag, sf_intpart, sf_frac, sf_round_away_mag, feq .. f_half
     part C  oddness of td_us_of_float_seconds (structural, no reals) *)
From Coq Require Import ZArith Reals Lia Lra Bool.
From Coq Require Import Floats.SpecFloat.
From Flocq Require Import Core.Core IEEE754.BinarySingleNaN.
From PV Require Import Lib.PyBase Spec.TdFloat Proofs.TdFloatFacts.
Open Scope Z_scope.

Notation fexp64 := (FLT_exp (-1074) 53).
Notation RN := (round radix2 fexp64 ZnearestE).
Notation valid64 := (SpecFloat.valid_binary 53 1024).
Notation bounded64 := (SpecFloat.bounded 53 1024).
Notation R_of_sf := (SF2R radix2).

Definition prec64 : Prec_gt_0 53 := eq_refl.
Definition emax64 : Prec_lt_emax 53 1024 := eq_refl.
#[global] Existing Instance prec64.
#[global] Existing Instance emax64.
#[global] Instance fexp64_valid : Valid_exp fexp64 := FLT_exp_valid (-1074) 53.

(* ------------------------------------------------------------------ part A *)
Lemma rne_equiv : forall s m l, round_nearest_even m l = choice_mode mode_NE s m l.
Proof.
  intros s m l. case l; [reflexivity | intro c].
  case c; [ | reflexivity ..]. now simpl; unfold Round.cond_incr; case Z.even.
Qed.

Lemma bra_equiv : forall sx mx ex lx,
  SpecFloat.binary_round_aux 53 1024 sx mx ex lx = BinarySingleNaN.binary_round_aux 53 1024 mode_NE sx mx ex lx.
Proof.
  intros. unfold SpecFloat.binary_round_aux, BinarySingleNaN.binary_round_aux.
  set (mrse' := shr_fexp _ _ _ _ _). case mrse'; intros mrs' e'; simpl.
  now rewrite (rne_equiv sx).
Qed.

Lemma br_equiv : forall s m e,
  SpecFloat.binary_round 53 1024 s m e = BinarySingleNaN.binary_round 53 1024 mode_NE s m e.
Proof.
  intros. unfold SpecFloat.binary_round, BinarySingleNaN.binary_round, shl_align_fexp.
  set (mez := shl_align _ _ _); case mez as [mz ez]. apply bra_equiv.
Qed.

Lemma bpow_1024_big : forall x : R, (Rabs x < bpow radix2 60)%R -> Rlt_bool (Rabs x) (bpow radix2 1024) = true.
Proof.
  intros x H. apply Rlt_bool_true. apply Rlt_trans with (1 := H). apply bpow_lt. lia.
Qed.

(* x / y on positive integer mantissas with exponent 0 *)
Lemma fdiv_ratio_correct : forall s p b,
  let q := (IZR (Zpos p) / IZR (Zpos b))%R in
  (Rabs (RN q) < bpow radix2 60)%R ->
  let z := fdiv (S754_finite s p 0) (S754_finite false b 0) in
  valid64 z = true /\ R_of_sf z = RN (if s then - q else q)%R /\ is_finite_SF z = true /\ sign_SF z = s.
Proof.
  intros s p b q Hq z.
  pose proof (Bdiv_correct_aux 53 1024 prec64 emax64 mode_NE s p 0 false b 0) as H.
  cbv zeta in H.
  assert (Ez : z = let '(mz, ez, lz) := SFdiv_core_binary 53 1024 (Z.pos p) 0 (Z.pos b) 0 in
                   BinarySingleNaN.binary_round_aux 53 1024 mode_NE (xorb s false) mz ez lz).
  { unfold z, fdiv, SFdiv. destruct (SFdiv_core_binary _ _ _ _ _ _) as [[mz ez] lz]. apply bra_equiv. }
  rewrite <- Ez in H. destruct H as [Hv H]. split; [exact Hv|].
  change (SpecFloat.fexp 53 1024) with fexp64 in H. simpl round_mode in H.
  assert (Ex : (F2R (Float radix2 (cond_Zopp s (Z.pos p)) 0) / F2R (Float radix2 (cond_Zopp false (Z.pos b)) 0)
                = if s then - q else q)%R).
  { unfold F2R, q. simpl Fnum. simpl Fexp. simpl bpow. destruct s; simpl cond_Zopp.
    - change (Z.neg p) with (- Z.pos p). rewrite opp_IZR. field. apply IZR_neq. lia.
    - field. apply IZR_neq. lia. }
  rewrite Ex in H.
  assert (Hfin : Rlt_bool (Rabs (RN (if s then - q else q)%R)) (bpow radix2 1024) = true).
  { apply bpow_1024_big. destruct s; [|exact Hq]. rewrite round_NE_opp, Rabs_Ropp. exact Hq. }
  rewrite Hfin in H. rewrite xorb_false_r in H. exact H.
Qed.

(* f_1e6 * y for a valid finite y *)
Lemma f_1e6_eq : f_1e6 = S754_finite false 8589934592000000 (-33).
Proof. reflexivity. Qed.

Lemma fmul_1e6_correct : forall s m e, bounded64 m e = true ->
  let y := F2R (Float radix2 (cond_Zopp s (Zpos m)) e) in
  (Rabs (RN (1000000 * y)) < bpow radix2 60)%R ->
  let z := fmul f_1e6 (S754_finite s m e) in
  valid64 z = true /\ R_of_sf z = RN (1000000 * y)%R /\ is_finite_SF z = true /\ sign_SF z = s.
Proof.
  intros s m e Hb y Hy z.
  assert (Hb6 : bounded64 8589934592000000 (-33) = true) by reflexivity.
  pose proof (Bmult_correct_aux 53 1024 prec64 emax64 mode_NE false 8589934592000000 (-33) Hb6 s m e Hb) as H.
  cbv zeta in H.
  assert (Ez : z = BinarySingleNaN.binary_round_aux 53 1024 mode_NE (xorb false s) (Z.pos (8589934592000000 * m)) (-33 + e) loc_Exact).
  { unfold z. rewrite f_1e6_eq. unfold fmul, SFmul. apply bra_equiv. }
  rewrite <- Ez in H. destruct H as [Hv H]. split; [exact Hv|].
  change (SpecFloat.fexp 53 1024) with fexp64 in H. simpl round_mode in H.
  assert (E6 : F2R (Float radix2 (cond_Zopp false 8589934592000000) (-33)) = 1000000%R).
  { unfold F2R. simpl. lra. }
  rewrite E6 in H. fold y in H.
  rewrite (bpow_1024_big _ Hy) in H. rewrite xorb_false_l in H. exact H.
Qed.

(* binary_normalize of a non-zero integer mantissa *)
Lemma normalize_correct : forall s r e,
  let v := F2R (Float radix2 (cond_Zopp s (Zpos r)) e) in
  (Rabs (RN v) < bpow radix2 60)%R ->
  let z := SpecFloat.binary_normalize 53 1024 (cond_neg s (Zpos r)) e s in
  valid64 z = true /\ R_of_sf z = RN v /\ is_finite_SF z = true /\ sign_SF z = s.
Proof.
  intros s r e v Hv z.
  assert (Ez : z = BinarySingleNaN.binary_round 53 1024 mode_NE s r e).
  { unfold z. destruct s; simpl; apply br_equiv. }
  pose proof (binary_round_correct 53 1024 prec64 emax64 mode_NE s r e) as H. cbv zeta in H.
  rewrite <- Ez in H. destruct H as [Hval H]. split; [exact Hval|].
  change (SpecFloat.fexp 53 1024) with fexp64 in H. simpl round_mode in H. fold v in H.
  rewrite (bpow_1024_big _ Hv) in H. exact H.
Qed.

(* ------------------------------------------------------------------ part B *)
Lemma bounded64_inv : forall m e, bounded64 m e = true -> Zpos m < 2 ^ 53 /\ -1074 <= e <= 971.
Proof.
  intros m e H. apply andb_prop in H. destruct H as [H1 H2].
  apply Zeq_bool_eq in H1. apply Zle_bool_imp_le in H2.
  unfold SpecFloat.fexp, SpecFloat.emin in H1.
  rewrite Digits.Zpos_digits2_pos in H1.
  pose proof (Digits.Zdigits_correct radix2 (Zpos m)) as [_ D]. rewrite Z.abs_eq in D by lia.
  assert (Hd : Digits.Zdigits radix2 (Z.pos m) <= 53) by lia.
  split; [|lia].
  apply Z.lt_le_trans with (1 := D). change (Zpower radix2 (Digits.Zdigits radix2 (Z.pos m))) with (2 ^ Digits.Zdigits radix2 (Z.pos m)).
  apply Z.pow_le_mono_r; lia.
Qed.

Lemma IZR_pow2 : forall k, 0 <= k -> IZR (2 ^ k) = bpow radix2 k.
Proof. intros k Hk. rewrite <- IZR_Zpower by exact Hk. reflexivity. Qed.

Lemma F2R_nonneg_exp : forall m e, 0 <= e -> F2R (Float radix2 m e) = IZR (m * 2 ^ e).
Proof. intros m e He. unfold F2R. simpl Fnum; simpl Fexp. rewrite mult_IZR, IZR_pow2 by exact He. reflexivity. Qed.

Lemma F2R_neg_exp : forall m e, e < 0 -> F2R (Float radix2 m e) = (IZR m / IZR (2 ^ (- e)))%R.
Proof.
  intros m e He. unfold F2R. simpl Fnum; simpl Fexp. rewrite IZR_pow2 by lia.
  rewrite <- (Z.opp_involutive e) at 1. rewrite bpow_opp. reflexivity.
Qed.

Lemma pow2_pos : forall k, 0 <= k -> 0 < 2 ^ k.
Proof. intros. apply Z.pow_pos_nonneg; lia. Qed.

Lemma sf_trunc_mag_floor : forall m e, sf_trunc_mag m e = Zfloor (F2R (Float radix2 (Zpos m) e)).
Proof.
  intros m e. unfold sf_trunc_mag. destruct (0 <=? e) eqn:E.
  - apply Z.leb_le in E. rewrite F2R_nonneg_exp by exact E. now rewrite Zfloor_IZR.
  - apply Z.leb_gt in E. rewrite F2R_neg_exp by exact E. rewrite Zfloor_div; [reflexivity|].
    pose proof (pow2_pos (- e)). lia.
Qed.

Lemma sf_round_away_mag_floor : forall m e,
  sf_round_away_mag m e = Zfloor (F2R (Float radix2 (Zpos m) e) + / 2).
Proof.
  intros m e. unfold sf_round_away_mag. destruct (0 <=? e) eqn:E.
  - apply Z.leb_le in E. rewrite F2R_nonneg_exp by exact E.
    symmetry. apply Zfloor_imp. rewrite plus_IZR. simpl IZR at 3. lra.
  - apply Z.leb_gt in E. rewrite F2R_neg_exp by exact E.
    set (d := 2 ^ (- e)). assert (Hd : 0 < d) by (apply pow2_pos; lia).
    assert (Hdr : (0 < IZR d)%R) by (apply IZR_lt; exact Hd).
    replace (IZR (Z.pos m) / IZR d + / 2)%R with (IZR (2 * Z.pos m + d) / IZR (2 * d))%R.
    2:{ rewrite plus_IZR, !mult_IZR. field. lra. }
    rewrite Zfloor_div by lia.
    pose proof (Z.div_mod (Zpos m) d ltac:(lia)) as DM.
    pose proof (Z.mod_pos_bound (Zpos m) d Hd) as MB.
    cbv zeta. fold d. set (q := Z.pos m / d) in *. set (r := Z.pos m mod d) in *. clearbody q r.
    destruct (2 * r <? d) eqn:A.
    + apply Z.ltb_lt in A. apply Z.div_unique with (2 * r + d); lia.
    + apply Z.ltb_ge in A. apply Z.div_unique with (2 * r - d); lia.
Qed.

Lemma sf_intpart_floor : forall s m e,
  sf_intpart (S754_finite s m e) = cond_neg s (Zfloor (F2R (Float radix2 (Zpos m) e))).
Proof. intros. unfold sf_intpart. now rewrite sf_trunc_mag_floor. Qed.

Lemma generic_small_mantissa : forall s r e, Zpos r < 2 ^ 53 -> -1074 <= e ->
  generic_format radix2 fexp64 (F2R (Float radix2 (cond_Zopp s (Zpos r)) e)).
Proof.
  intros s r e Hr He. apply generic_format_FLT.
  apply FLT_spec with (Float radix2 (cond_Zopp s (Zpos r)) e); [reflexivity | | exact He].
  simpl Fnum. rewrite abs_cond_Zopp. exact Hr.
Qed.

Lemma generic_IZR : forall n, Z.abs n < 2 ^ 53 -> generic_format radix2 fexp64 (IZR n).
Proof.
  intros n Hn. apply generic_format_FLT.
  apply FLT_spec with (Float radix2 n 0); [ | exact Hn | simpl; lia].
  unfold F2R. simpl. lra.
Qed.

(* modf: the fractional part, exactly *)
Lemma sf_frac_correct : forall s m e, bounded64 m e = true ->
  let v := F2R (Float radix2 (Zpos m) e) in
  let g := (v - IZR (Zfloor v))%R in
  let fr := sf_frac (S754_finite s m e) in
  valid64 fr = true /\ R_of_sf fr = (if s then - g else g)%R /\ is_finite_SF fr = true /\ sign_SF fr = s.
Proof.
  intros s m e Hb v g fr. destruct (bounded64_inv _ _ Hb) as [Hm He].
  assert (Zero : g = 0%R -> forall t : bool, (if t then - g else g)%R = 0%R) by (intros -> [|]; lra).
  unfold fr, sf_frac. destruct (0 <=? e) eqn:E.
  - apply Z.leb_le in E.
    assert (G : g = 0%R). { unfold g, v. rewrite F2R_nonneg_exp by exact E. rewrite Zfloor_IZR. lra. }
    rewrite (Zero G). repeat split.
  - apply Z.leb_gt in E. set (d := 2 ^ (- e)). assert (Hd : 0 < d) by (apply pow2_pos; lia).
    assert (Hdr : (0 < IZR d)%R) by (apply IZR_lt; exact Hd).
    pose proof (Z.div_mod (Zpos m) d ltac:(lia)) as DM.
    pose proof (Z.mod_pos_bound (Zpos m) d Hd) as MB.
    pose proof (Z.mod_le (Zpos m) d ltac:(lia) Hd) as ML.
    assert (G : g = (IZR (Zpos m mod d) / IZR d)%R).
    { unfold g, v. rewrite F2R_neg_exp by exact E. fold d. rewrite Zfloor_div by lia.
      rewrite DM at 1. rewrite plus_IZR, mult_IZR. field. lra. }
    destruct (Z.pos m mod d) as [|r|r] eqn:Er; [| |lia].
    + rewrite Zero by (rewrite G; unfold Rdiv; apply Rmult_0_l). repeat split.
    + assert (Ev : F2R (Float radix2 (cond_Zopp s (Z.pos r)) e) = (if s then - g else g)%R).
      { rewrite G. rewrite F2R_neg_exp by exact E. fold d. destruct s; simpl cond_Zopp; [|reflexivity].
        change (Z.neg r) with (- Z.pos r). rewrite opp_IZR. field. lra. }
      assert (Hg : generic_format radix2 fexp64 (F2R (Float radix2 (cond_Zopp s (Z.pos r)) e))).
      { apply generic_small_mantissa; lia. }
      pose proof (normalize_correct s r e) as K. cbv zeta in K.
      rewrite (round_generic radix2 fexp64 ZnearestE _ Hg) in K. rewrite Ev in K. apply K.
      (* |g| < 1 *)
      assert (0 <= g < 1)%R.
      { rewrite G. split.
        - apply Rmult_le_pos; [apply IZR_le; lia | left; apply Rinv_0_lt_compat; lra].
        - apply Rmult_lt_reg_r with (IZR d); [lra|]. unfold Rdiv. rewrite Rmult_assoc, Rinv_l by lra.
          rewrite Rmult_1_r, Rmult_1_l. apply IZR_lt. lia. }
      apply Rlt_trans with 1%R.
      * destruct s; [rewrite Rabs_Ropp|]; rewrite Rabs_pos_eq; lra.
      * apply (bpow_lt radix2 0 60). lia.
Qed.

(* comparison with 0.5 on valid positive floats *)
Lemma f_half_R : R_of_sf f_half = (/ 2)%R.
Proof. unfold f_half, SF2R, F2R. simpl. lra. Qed.

Lemma feq_half_correct : forall m e, bounded64 m e = true ->
  feq (S754_finite false m e) f_half = true -> F2R (Float radix2 (Zpos m) e) = (/ 2)%R.
Proof.
  intros m e Hb H.
  assert (Hh : bounded64 4503599627370496 (-53) = true) by reflexivity.
  pose proof (Bcompare_correct 53 1024 (B754_finite false m e Hb) (B754_finite false 4503599627370496 (-53) Hh) eq_refl eq_refl) as C.
  unfold Bcompare in C. simpl B2SF in C. unfold feq, SFeqb, f_half in H. rewrite C in H.
  destruct (Rcompare _ _) eqn:L in H; try discriminate.
  apply Rcompare_Eq_inv in L. simpl B2R in L. simpl cond_Zopp in L. rewrite L. unfold F2R. simpl. lra.
Qed.

(* ------------------------------------------------------------------ part C: timedelta(seconds=-x) = -timedelta(seconds=x) *)
Lemma sf_frac_opp : forall x, sf_frac (fopp x) = fopp (sf_frac x).
Proof.
  intros [s|s| |s m e]; try reflexivity. unfold fopp, SFopp at 1, sf_frac.
  destruct (0 <=? e); [reflexivity|].
  destruct (Z.pos m mod 2 ^ (- e)) as [|r|r]; [reflexivity| |].
  - destruct s; simpl cond_neg; simpl negb; unfold SpecFloat.binary_normalize, SpecFloat.binary_round;
      destruct (shl_align _ _ _) as [mz ez].
    + change false with (negb true) at 1. apply bra_opp.
    + change true with (negb false) at 1. apply bra_opp.
  - destruct s; simpl cond_neg; simpl negb; unfold SpecFloat.binary_normalize, SpecFloat.binary_round;
      destruct (shl_align _ _ _) as [mz ez].
    + change true with (negb false) at 1. apply bra_opp.
    + change false with (negb true) at 1. apply bra_opp.
Qed.

Lemma sf_intpart_opp : forall x, sf_intpart (fopp x) = - sf_intpart x.
Proof. intros [s|s| |s m e]; try reflexivity. unfold fopp, SFopp, sf_intpart. destruct s; simpl; lia. Qed.

Lemma fmul_1e6_opp : forall y, fmul f_1e6 (fopp y) = fopp (fmul f_1e6 y).
Proof.
  intros [[|]|[|]| |s m e]; rewrite f_1e6_eq; try reflexivity.
  unfold fopp, SFopp at 1, fmul, SFmul. rewrite !xorb_false_l. apply bra_opp.
Qed.

Definition res_opp (r : result Z) : result Z := match r with Ok n => Ok (- n) | Raise e => Raise e end.

Lemma td_us_of_float_seconds_opp : forall x, td_us_of_float_seconds (fopp x) = res_opp (td_us_of_float_seconds x).
Proof.
  intros x. destruct x as [s|s| |s m e]; try reflexivity.
  set (x := S754_finite s m e).
  assert (E : forall z, td_us_of_float_seconds z =
    match z with S754_nan => Raise E_ValueError | S754_infinity _ => Raise E_OverflowError | _ =>
    let sum := sf_intpart z * US_PER_SEC in
    let fr := sf_frac z in
    if sf_is_zero fr then Ok sum else
    let prod := fmul f_1e6 fr in
    let y := sum + sf_intpart prod in
    let left := sf_frac prod in
    match left with
    | S754_finite s m e =>
        let whole := cond_neg s (sf_round_away_mag m e) in
        if feq (fabs left) f_half then
          let odd := y mod 2 in
          let w := if s then (if odd =? 1 then -1 else 0) else (if odd =? 1 then 1 else 0) in
          Ok (y + w)
        else Ok (y + whole)
    | _ => Ok y
    end end) by (intro z; destruct z; reflexivity).
  rewrite (E x).
  assert (E' : td_us_of_float_seconds (fopp x) =
    let sum := sf_intpart (fopp x) * US_PER_SEC in
    let fr := sf_frac (fopp x) in
    if sf_is_zero fr then Ok sum else
    let prod := fmul f_1e6 fr in
    let y := sum + sf_intpart prod in
    let left := sf_frac prod in
    match left with
    | S754_finite s m e =>
        let whole := cond_neg s (sf_round_away_mag m e) in
        if feq (fabs left) f_half then
          let odd := y mod 2 in
          let w := if s then (if odd =? 1 then -1 else 0) else (if odd =? 1 then 1 else 0) in
          Ok (y + w)
        else Ok (y + whole)
    | _ => Ok y
    end) by reflexivity.
  rewrite E'. clear E E'. cbv zeta.
  assert (X : match x with S754_nan | S754_infinity _ => False | _ => True end) by exact I.
  clearbody x. rewrite sf_frac_opp, sf_intpart_opp.
  set (I0 := sf_intpart x). set (fr := sf_frac x).
  assert (Zfr : sf_is_zero (fopp fr) = sf_is_zero fr) by (destruct fr; reflexivity). rewrite Zfr.
  destruct x as [s0|s0| |s0 m0 e0]; try contradiction;
  (destruct (sf_is_zero fr); [unfold res_opp; f_equal; ring|];
   rewrite fmul_1e6_opp, sf_frac_opp, sf_intpart_opp;
   set (ip := sf_intpart (fmul f_1e6 fr));
   destruct (sf_frac (fmul f_1e6 fr)) as [s3|s3| |s3 m3 e3]; unfold fopp, SFopp, res_opp; try (f_equal; ring);
   change (fabs (S754_finite (negb s3) m3 e3)) with (fabs (S754_finite s3 m3 e3));
   destruct (feq (fabs (S754_finite s3 m3 e3)) f_half);
   [ replace ((- I0 * US_PER_SEC + - ip) mod 2) with ((I0 * US_PER_SEC + ip) mod 2) by lia;
     destruct s3; simpl negb; destruct ((I0 * US_PER_SEC + ip) mod 2 =? 1); f_equal; ring
   | f_equal; destruct s3; simpl negb; simpl cond_neg; ring ]).
Qed.

Lemma td_in_range_small : forall N, Z.abs N < 2 ^ 33 * 10 ^ 6 -> td_in_range N = true.
Proof.
  intros N H. unfold td_in_range, US_PER_DAY, TD_MAX_DAYS. change (2 ^ 33 * 10 ^ 6) with 8589934592000000 in H. lia.
Qed.
