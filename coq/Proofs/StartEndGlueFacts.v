(* Proofs/StartEndGlueFacts.v — C12: the hand model of DateTime.start_of / end_of (coq/Model/StartEnd.v: set_from, dt_start_of_day, the
   translated-with-dt_set bodies of Gen/StartEnd.v, dt_previous / dt_next / dt_walk, dt_start_of_week / dt_end_of_week, the dispatch
   dt_start_of / dt_end_of) EQUALS the machine translation Gen/StartEndGlue.v of src/pendulum/datetime.py, which CALLS the translated
   timezone glue Gen/TzGlue.v (set / at / add / create) instead of the model primitives dt_set / step_day.
   Bridge: a model value v (zone, kind, wall, fold) is the object obj_of v tzo when tz_matches v tzo (None for kind 0, else a timezone object
   with the value's table and class); a model result (W', f') is the object dt_of W' f' tzo (TzGlueFacts.res_of).
     glue_create_dt_set / glue_set_dt_set   DateTime.create / set on any fields (valid or not) = the primitive dt_set
     sglue_*_eq (16 units)                  every _start_of_<unit> / _end_of_<unit> body
     glue_step_day, walk_previous/next      add(days=±1) / subtract(days=1) = step_day; the translated loop = dt_walk (same fuel)
     sglue_start_of_week_eq / end           _start_of_week / _end_of_week for every week configuration
     sglue_start_of_eq / sglue_end_of_eq    the whole family through the getattr dispatch *)
From Coq Require Import ZArith List Bool Lia ZifyBool.
From PV Require Import Lib.PyBase Spec.Cal Spec.Zone Spec.NativeDT Proofs.CalFacts Proofs.C15Facts Gen.AddDuration Gen.Constants Model.TzConvert.
From PV Require Proofs.C19Mono.
From PV Require Import Model.TzGlueObj Gen.TzGlue Proofs.TzGlueFacts Model.StartEndBase Gen.StartEnd Model.StartEnd Model.StartEndGlueObj Gen.StartEndGlue.
Import ListNotations.
Ltac Zify.zify_post_hook ::= Z.to_euclidean_division_equations.
Open Scope Z_scope.

(* ------------------------------------------------------------------ the bridge between the model's DateTime value and the object *)
(* the tzinfo object of a model value: None for kind 0, else a timezone object with the value's zone table and class *)
Definition tz_matches (v : dtv) (tzo : option gtz) : Prop :=
  match tzo with
  | None => v_kind v = 0
  | Some t => v_kind v <> 0 /\ gz_zone t = v_zone v /\ gz_fixed t = (v_kind v =? 1)
  end.
Definition obj_of (v : dtv) (tzo : option gtz) : gdt := dt_of (v_W v) (v_fold v) tzo.

Lemma valid_fields_in_range y m d h mi s us : fields_ok y m d h mi s us -> wall_in_range (wall_of y m d h mi s us) = true.
Proof.
  intros (Hy & Hv & Hh & Hm & Hs & Hu). apply wall_in_range_iff. rewrite wall_of_split.
  pose proof (yday_bounds y m d Hv) as B. pose proof (ymd2ord_jan1 y) as J.
  assert (E : ymd2ord y m d = ymd2ord y 1 1 + (days_before_month y m + d) - 1) by (rewrite J; unfold ymd2ord; lia).
  pose proof (days_before_year_succ y) as S1. pose proof (days_before_year_mono (y + 1) 10000 ltac:(lia)) as M1.
  pose proof (days_before_year_mono 1 y ltac:(lia)) as M0.
  change (days_before_year 10000) with 3652059 in M1. change (days_before_year 1) with 0 in M0.
  unfold time_us, us_per_day. clear Hv. assert (1 <= ymd2ord y m d <= 3652059) by lia.
  set (n := ymd2ord y m d) in *. clearbody n. clear - H Hh Hm Hs Hu. lia.
Qed.

(* DateTime.create(fields, tz=self.tz, fold=self.fold) = the model primitive dt_set, valid or not *)
Lemma glue_create_dt_set v tzo y m d h mi s us : tz_matches v tzo ->
  glue_DateTime_create y m d h mi s us tzo (Z.b2z (v_fold v)) false = res_of tzo (dt_set v y m d h mi s us).
Proof.
  intros TM. unfold dt_set, time_okb.
  destruct ((1 <=? y) && (y <=? 9999) && valid_dateb y m d &&
            ((0 <=? h) && (h <=? 23) && (0 <=? mi) && (mi <=? 59) && (0 <=? s) && (s <=? 59) && (0 <=? us) && (us <=? 999999))) eqn:V.
  - assert (F : fields_ok y m d h mi s us).
    { apply andb_true_iff in V. destruct V as [V T]. apply andb_true_iff in V. destruct V as [V Vd]. unfold fields_ok. split; [lia|]. split; [exact Vd|lia]. }
    rewrite (glue_create_fields tzo y m d h mi s us (v_fold v) false F (valid_fields_in_range _ _ _ _ _ _ _ F)).
    destruct tzo as [t|]; cbn [tz_matches] in TM; cbn [g_build].
    + destruct TM as (K & Zn & Fx). replace (v_kind v =? 0) with false by lia. rewrite Zn, Fx. reflexivity.
    + rewrite TM. reflexivity.
  - unfold glue_DateTime_create, nat_new.
    replace ((1 <=? y) && (y <=? 9999) && valid_dateb y m d && (0 <=? h) && (h <=? 23) && (0 <=? mi) && (mi <=? 59) && (0 <=? s) && (s <=? 59)
             && (0 <=? us) && (us <=? 999999) && ((Z.b2z (v_fold v) =? 0) || (Z.b2z (v_fold v) =? 1))) with false; [reflexivity|].
    symmetry. destruct (v_fold v); cbn [Z.b2z Z.eqb orb]; rewrite ?andb_true_r; rewrite <- V; rewrite <- !andb_assoc; reflexivity.
Qed.

(* self.set(<fields given or taken from self>) *)
Lemma glue_set_dt_set v tzo oy om od oh omi os ous : tz_matches v tzo ->
  let W := v_W v in
  let pick (o : option Z) (cur : Z) := match o with Some x => x | None => cur end in
  glue_DateTime_set (obj_of v tzo) oy om od oh omi os ous None =
  res_of tzo (dt_set v (pick oy (f_year W)) (pick om (f_month W)) (pick od (f_day W)) (pick oh (f_hour W)) (pick omi (f_minute W))
                      (pick os (f_second W)) (pick ous (f_us W))).
Proof.
  intros TM W pick. unfold glue_DateTime_set. cbv beta iota zeta. cbn [obj_of dt_of g_tz g_fold].
  rewrite <- (glue_create_dt_set v tzo _ _ _ _ _ _ _ TM).
  destruct oy, om, od, oh, omi, os, ous;
    match goal with |- match ?x with _ => _ end = ?y => change x with y; destruct y; reflexivity end.
Qed.

Lemma res_id {A} (r : result A) : match r with Ok m => Ok m | Raise e => Raise e end = r.
Proof. destruct r; reflexivity. Qed.

Ltac close_set TM :=
  unfold glue_DateTime_at; cbv beta iota zeta;
  repeat match goal with |- context [glue_DateTime_set ?a ?b ?c ?d ?e ?f ?g ?h ?i] =>
    rewrite (glue_set_dt_set _ _ b c d e f g h TM) end;
  cbv beta iota zeta; cbn [Z.leb Z.compare Pos.compare Pos.compare_cont]; cbv beta iota zeta;
  rewrite !res_id; reflexivity.

Section Units.
  Variables (v : dtv) (tzo : option gtz).
  Hypothesis TM : tz_matches v tzo.

  Theorem sglue_start_of_second_eq : sglue_start_of_second (obj_of v tzo) = res_of tzo (set_from v 0 true).
  Proof. unfold sglue_start_of_second, set_from. close_set TM. Qed.
  Theorem sglue_end_of_second_eq : sglue_end_of_second (obj_of v tzo) = res_of tzo (set_from v 0 false).
  Proof. unfold sglue_end_of_second, set_from. close_set TM. Qed.
  Theorem sglue_start_of_minute_eq : sglue_start_of_minute (obj_of v tzo) = res_of tzo (set_from v 1 true).
  Proof. unfold sglue_start_of_minute, set_from. close_set TM. Qed.
  Theorem sglue_end_of_minute_eq : sglue_end_of_minute (obj_of v tzo) = res_of tzo (set_from v 1 false).
  Proof. unfold sglue_end_of_minute, set_from. close_set TM. Qed.
  Theorem sglue_start_of_hour_eq : sglue_start_of_hour (obj_of v tzo) = res_of tzo (set_from v 2 true).
  Proof. unfold sglue_start_of_hour, set_from. close_set TM. Qed.
  Theorem sglue_end_of_hour_eq : sglue_end_of_hour (obj_of v tzo) = res_of tzo (set_from v 2 false).
  Proof. unfold sglue_end_of_hour, set_from. close_set TM. Qed.
  Theorem sglue_start_of_day_eq : sglue_start_of_day (obj_of v tzo) = res_of tzo (dt_start_of_day v).
  Proof. unfold sglue_start_of_day, dt_start_of_day, set_from. close_set TM. Qed.
  Theorem sglue_end_of_day_eq : sglue_end_of_day (obj_of v tzo) = res_of tzo (dt_end_of_day v).
  Proof. unfold sglue_end_of_day, dt_end_of_day, set_from. close_set TM. Qed.
  Theorem sglue_start_of_month_eq : sglue_start_of_month (obj_of v tzo) = res_of tzo (py_dt_start_of_month v).
  Proof. unfold sglue_start_of_month, py_dt_start_of_month. close_set TM. Qed.
  Theorem sglue_end_of_month_eq : sglue_end_of_month (obj_of v tzo) = res_of tzo (py_dt_end_of_month v).
  Proof. unfold sglue_end_of_month, py_dt_end_of_month. close_set TM. Qed.
  Theorem sglue_start_of_year_eq : sglue_start_of_year (obj_of v tzo) = res_of tzo (py_dt_start_of_year v).
  Proof. unfold sglue_start_of_year, py_dt_start_of_year. close_set TM. Qed.
  Theorem sglue_end_of_year_eq : sglue_end_of_year (obj_of v tzo) = res_of tzo (py_dt_end_of_year v).
  Proof. unfold sglue_end_of_year, py_dt_end_of_year. close_set TM. Qed.
  Theorem sglue_start_of_decade_eq : sglue_start_of_decade (obj_of v tzo) = res_of tzo (py_dt_start_of_decade v).
  Proof. unfold sglue_start_of_decade, py_dt_start_of_decade. close_set TM. Qed.
  Theorem sglue_end_of_decade_eq : sglue_end_of_decade (obj_of v tzo) = res_of tzo (py_dt_end_of_decade v).
  Proof. unfold sglue_end_of_decade, py_dt_end_of_decade. close_set TM. Qed.
  Theorem sglue_start_of_century_eq : sglue_start_of_century (obj_of v tzo) = res_of tzo (py_dt_start_of_century v).
  Proof. unfold sglue_start_of_century, py_dt_start_of_century. close_set TM. Qed.
  Theorem sglue_end_of_century_eq : sglue_end_of_century (obj_of v tzo) = res_of tzo (py_dt_end_of_century v).
  Proof. unfold sglue_end_of_century, py_dt_end_of_century. close_set TM. Qed.
End Units.

(* ------------------------------------------------------------------ the week: add(days=k) / subtract(days=1), next / previous, the walk *)
Definition vres_of (v : dtv) (tzo : option gtz) (r : result dtv) : result gdt :=
  match r with Ok v' => Ok (obj_of v' tzo) | Raise e => Raise e end.

Lemma upd_matches v tzo r : tz_matches v tzo -> tz_matches (upd v r) tzo.
Proof. destruct tzo; exact (fun H => H). Qed.

Lemma dt_set_in_range v y m d h mi s us W' f' : dt_set v y m d h mi s us = Ok (W', f') -> wall_in_range W' = true.
Proof.
  unfold dt_set, time_okb.
  destruct ((1 <=? y) && (y <=? 9999) && valid_dateb y m d &&
            ((0 <=? h) && (h <=? 23) && (0 <=? mi) && (mi <=? 59) && (0 <=? s) && (s <=? 59) && (0 <=? us) && (us <=? 999999))) eqn:V; [|discriminate].
  assert (F : fields_ok y m d h mi s us).
  { apply andb_true_iff in V. destruct V as [V T]. apply andb_true_iff in V. destruct V as [V Vd]. unfold fields_ok. split; [lia|]. split; [exact Vd|lia]. }
  pose proof (valid_fields_in_range _ _ _ _ _ _ _ F) as R.
  destruct (v_kind v =? 0); [intros E; inversion E; subst; exact R|]. intros E. exact (create_in_range _ _ _ _ _ _ _ R E).
Qed.

Lemma step_day_in_range v k W' f' : wall_in_range (v_W v) = true -> step_day v k = Ok (W', f') -> wall_in_range W' = true.
Proof.
  intros R. unfold step_day. destruct (py_add_duration (mkndt (v_W v) true) 0 0 0 k 0 0 0 0) as [d|] eqn:E; [|discriminate].
  destruct (C19Mono.add_dur_noym (v_W v) true 0 k 0 0 0 0 d R (or_introl eq_refl) E) as (_ & _ & Rd).
  destruct (v_kind v =? 0); [intros E1; inversion E1; subst; exact Rd|]. intros E1. exact (create_in_range _ _ _ _ _ _ _ Rd E1).
Qed.

Lemma glue_step_day v tzo k : tz_matches v tzo -> wall_in_range (v_W v) = true -> k <> 0 ->
  glue_DateTime_add (obj_of v tzo) 0 0 0 k 0 0 0 0 = res_of tzo (step_day v k).
Proof.
  intros TM R Hk. unfold step_day, obj_of.
  assert (Hres : forall r, py_add_duration (mkndt (v_W v) true) 0 0 0 k 0 0 0 0 = Ok r -> wall_in_range (n_wall r) = true).
  { intros r E. exact (proj2 (proj2 (C19Mono.add_dur_noym (v_W v) true 0 k 0 0 0 0 r R (or_introl eq_refl) E))). }
  destruct tzo as [t|]; cbn [tz_matches] in TM.
  - destruct TM as (K & Zn & Fx). rewrite (glue_add_calendar t (v_W v) (v_fold v) 0 0 0 k 0 0 0 0 R) by (try exact Hres; unfold var_units; cbn; lia).
    unfold add_calendar. replace (v_kind v =? 0) with false by lia. rewrite Zn, Fx. reflexivity.
  - rewrite (glue_add_naive (v_W v) (v_fold v) 0 0 0 k 0 0 0 0 R Hres). unfold add_naive. rewrite TM. reflexivity.
Qed.

Lemma sglue_subtract_day v tzo : tz_matches v tzo -> wall_in_range (v_W v) = true ->
  sglue_subtract (obj_of v tzo) 0 0 0 1 0 0 0 0 = res_of tzo (step_day v (-1)).
Proof. intros TM R. unfold sglue_subtract. cbn [Z.opp]. rewrite (glue_step_day v tzo (-1) TM R) by lia. apply res_id. Qed.

Lemma res_of_upd v tzo (r : result (Z * bool)) : res_of tzo r = vres_of v tzo (match r with Ok x => Ok (upd v x) | Raise e => Raise e end).
Proof. destruct r as [[W f]|e]; reflexivity. Qed.

Lemma walk_previous v tzo wd : forall fuel v0, tz_matches v0 tzo -> v_zone v0 = v_zone v -> wall_in_range (v_W v0) = true ->
  sglue_previous_loop fuel wd (obj_of v0 tzo) = vres_of v tzo (dt_walk fuel (-1) wd v0).
Proof.
  induction fuel as [|fuel IH]; intros v0 TM Zv R; [reflexivity|].
  cbn [sglue_previous_loop dt_walk]. unfold sglue_previous_cond.
  change (g_day_of_week (obj_of v0 tzo)) with (wall_dow (v_W v0)).
  destruct (negb (wall_dow (v_W v0) =? wd)); [|reflexivity].
  unfold sglue_previous_step. rewrite (sglue_subtract_day v0 tzo TM R), res_id.
  destruct (step_day v0 (-1)) as [[W' f']|e] eqn:E; [|reflexivity]. cbn [res_of bind].
  change (dt_of W' f' tzo) with (obj_of (upd v0 (W', f')) tzo). apply IH; [apply upd_matches; exact TM|exact Zv|exact (step_day_in_range _ _ _ _ R E)].
Qed.

Lemma walk_next v tzo wd : forall fuel v0, tz_matches v0 tzo -> v_zone v0 = v_zone v -> wall_in_range (v_W v0) = true ->
  sglue_next_loop fuel wd (obj_of v0 tzo) = vres_of v tzo (dt_walk fuel 1 wd v0).
Proof.
  induction fuel as [|fuel IH]; intros v0 TM Zv R; [reflexivity|].
  cbn [sglue_next_loop dt_walk]. unfold sglue_next_cond.
  change (g_day_of_week (obj_of v0 tzo)) with (wall_dow (v_W v0)).
  destruct (negb (wall_dow (v_W v0) =? wd)); [|reflexivity].
  unfold sglue_next_step. rewrite (glue_step_day v0 tzo 1 TM R) by lia. rewrite res_id.
  destruct (step_day v0 1) as [[W' f']|e] eqn:E; [|reflexivity]. cbn [res_of bind].
  change (dt_of W' f' tzo) with (obj_of (upd v0 (W', f')) tzo). apply IH; [apply upd_matches; exact TM|exact Zv|exact (step_day_in_range _ _ _ _ R E)].
Qed.

Section Week.
  Variables (v : dtv) (tzo : option gtz).
  Hypothesis TM : tz_matches v tzo.
  Hypothesis R : wall_in_range (v_W v) = true.

  Theorem sglue_previous_eq wd : 0 <= wd <= 6 -> sglue_previous (obj_of v tzo) wd = vres_of v tzo (dt_previous v wd).
  Proof.
    intros Hwd. unfold sglue_previous, sglue_previous_init, dt_previous.
    replace ((wd <? 0) || (wd >? 6)) with false by lia. rewrite (sglue_start_of_day_eq v tzo TM).
    destruct (dt_start_of_day v) as [[W1 f1]|e] eqn:E1; [|reflexivity]. cbn [res_of bind]. cbv zeta.
    assert (R1 : wall_in_range W1 = true) by (unfold dt_start_of_day, set_from in E1; exact (dt_set_in_range _ _ _ _ _ _ _ _ _ _ E1)).
    change (dt_of W1 f1 tzo) with (obj_of (upd v (W1, f1)) tzo).
    rewrite (sglue_subtract_day (upd v (W1, f1)) tzo (upd_matches v tzo _ TM) R1).
    destruct (step_day (upd v (W1, f1)) (-1)) as [[W2 f2]|e] eqn:E2; [|reflexivity]. cbn [res_of bind].
    change (dt_of W2 f2 tzo) with (obj_of (upd (upd v (W1, f1)) (W2, f2)) tzo).
    apply (walk_previous v tzo wd); [apply upd_matches, upd_matches; exact TM|reflexivity|exact (step_day_in_range (upd v (W1, f1)) _ _ _ R1 E2)].
  Qed.

  Theorem sglue_next_eq wd : 0 <= wd <= 6 -> sglue_next (obj_of v tzo) wd = vres_of v tzo (dt_next v wd).
  Proof.
    intros Hwd. unfold sglue_next, sglue_next_init, dt_next.
    replace ((wd <? 0) || (wd >? 6)) with false by lia. rewrite (sglue_start_of_day_eq v tzo TM).
    destruct (dt_start_of_day v) as [[W1 f1]|e] eqn:E1; [|reflexivity]. cbn [res_of bind]. cbv zeta.
    assert (R1 : wall_in_range W1 = true) by (unfold dt_start_of_day, set_from in E1; exact (dt_set_in_range _ _ _ _ _ _ _ _ _ _ E1)).
    change (dt_of W1 f1 tzo) with (obj_of (upd v (W1, f1)) tzo).
    rewrite (glue_step_day (upd v (W1, f1)) tzo 1 (upd_matches v tzo _ TM) R1) by lia.
    destruct (step_day (upd v (W1, f1)) 1) as [[W2 f2]|e] eqn:E2; [|reflexivity]. cbn [res_of bind].
    change (dt_of W2 f2 tzo) with (obj_of (upd (upd v (W1, f1)) (W2, f2)) tzo).
    apply (walk_next v tzo wd); [apply upd_matches, upd_matches; exact TM|reflexivity|exact (step_day_in_range (upd v (W1, f1)) _ _ _ R1 E2)].
  Qed.

  Lemma walk_matches fuel k wd v0 v' : tz_matches v0 tzo -> dt_walk fuel k wd v0 = Ok v' -> tz_matches v' tzo.
  Proof.
    revert v0. induction fuel as [|fuel IH]; intros v0 T0 H; [discriminate H|]. cbn [dt_walk] in H.
    destruct (negb (wall_dow (v_W v0) =? wd)); [|inversion H; subst; exact T0].
    destruct (step_day v0 k) as [r|]; [|discriminate H]. cbn [bind] in H. apply (IH _ (upd_matches v0 tzo r T0) H).
  Qed.

  Theorem sglue_start_of_week_eq ws : 0 <= ws <= 6 -> sglue_start_of_week (obj_of v tzo) ws = res_of tzo (dt_start_of_week ws v).
  Proof.
    intros Hws. unfold sglue_start_of_week, dt_start_of_week. cbv zeta.
    change (g_day_of_week (obj_of v tzo)) with (wall_dow (v_W v)).
    destruct (negb (wall_dow (v_W v) =? ws)); [|rewrite (sglue_start_of_day_eq v tzo TM); apply res_id].
    rewrite (sglue_previous_eq ws Hws). destruct (dt_previous v ws) as [v'|e] eqn:E; [|reflexivity]. cbn [vres_of bind]. cbv zeta.
    assert (T' : tz_matches v' tzo).
    { unfold dt_previous in E. destruct (dt_start_of_day v) as [r1|]; [|discriminate E]. cbn [bind] in E.
      destruct (step_day (upd v r1) (-1)) as [r2|]; [|discriminate E]. cbn [bind] in E.
      eapply walk_matches; [|exact E]. apply upd_matches, upd_matches; exact TM. }
    rewrite (sglue_start_of_day_eq v' tzo T'). apply res_id.
  Qed.

  Theorem sglue_end_of_week_eq we : 0 <= we <= 6 -> sglue_end_of_week (obj_of v tzo) we = res_of tzo (dt_end_of_week we v).
  Proof.
    intros Hwe. unfold sglue_end_of_week, dt_end_of_week. cbv zeta.
    change (g_day_of_week (obj_of v tzo)) with (wall_dow (v_W v)).
    destruct (negb (wall_dow (v_W v) =? we)); [|rewrite (sglue_end_of_day_eq v tzo TM); apply res_id].
    rewrite (sglue_next_eq we Hwe). destruct (dt_next v we) as [v'|e] eqn:E; [|reflexivity]. cbn [vres_of bind]. cbv zeta.
    assert (T' : tz_matches v' tzo).
    { unfold dt_next in E. destruct (dt_start_of_day v) as [r1|]; [|discriminate E]. cbn [bind] in E.
      destruct (step_day (upd v r1) 1) as [r2|]; [|discriminate E]. cbn [bind] in E.
      eapply walk_matches; [|exact E]. apply upd_matches, upd_matches; exact TM. }
    rewrite (sglue_end_of_day_eq v' tzo T'). apply res_id.
  Qed.
End Week.

(* ------------------------------------------------------------------ start_of(unit) / end_of(unit): the getattr dispatch, by hand
   (`if unit not in _MODIFIERS_VALID_UNITS: raise ValueError; return getattr(self, f"_start_of_{unit}")()`: checked by the generator);
   units 0..8 = second minute hour day week month year decade century, any other number = an invalid unit *)
Definition sglue_start_of (ws u : Z) (d : gdt) : result gdt :=
  match u with
  | 0 => sglue_start_of_second d | 1 => sglue_start_of_minute d | 2 => sglue_start_of_hour d | 3 => sglue_start_of_day d
  | 4 => sglue_start_of_week d ws
  | 5 => sglue_start_of_month d | 6 => sglue_start_of_year d | 7 => sglue_start_of_decade d | 8 => sglue_start_of_century d
  | _ => Raise E_ValueError
  end.
Definition sglue_end_of (we u : Z) (d : gdt) : result gdt :=
  match u with
  | 0 => sglue_end_of_second d | 1 => sglue_end_of_minute d | 2 => sglue_end_of_hour d | 3 => sglue_end_of_day d
  | 4 => sglue_end_of_week d we
  | 5 => sglue_end_of_month d | 6 => sglue_end_of_year d | 7 => sglue_end_of_decade d | 8 => sglue_end_of_century d
  | _ => Raise E_ValueError
  end.

Theorem sglue_start_of_eq v tzo ws u : tz_matches v tzo -> wall_in_range (v_W v) = true -> 0 <= ws <= 6 ->
  sglue_start_of ws u (obj_of v tzo) = res_of tzo (dt_start_of ws u v).
Proof.
  intros TM R Hws. unfold sglue_start_of, dt_start_of.
  destruct u as [|p|p]; [apply sglue_start_of_second_eq; exact TM| |reflexivity].
  do 4 (try (destruct p as [p|p|]; try reflexivity));
    lazymatch goal with
    | |- sglue_start_of_minute _ = _ => apply sglue_start_of_minute_eq | |- sglue_start_of_hour _ = _ => apply sglue_start_of_hour_eq
    | |- sglue_start_of_day _ = _ => apply sglue_start_of_day_eq | |- sglue_start_of_week _ _ = _ => apply sglue_start_of_week_eq
    | |- sglue_start_of_month _ = _ => apply sglue_start_of_month_eq | |- sglue_start_of_year _ = _ => apply sglue_start_of_year_eq
    | |- sglue_start_of_decade _ = _ => apply sglue_start_of_decade_eq | |- sglue_start_of_century _ = _ => apply sglue_start_of_century_eq
    end; assumption.
Qed.
Theorem sglue_end_of_eq v tzo we u : tz_matches v tzo -> wall_in_range (v_W v) = true -> 0 <= we <= 6 ->
  sglue_end_of we u (obj_of v tzo) = res_of tzo (dt_end_of we u v).
Proof.
  intros TM R Hwe. unfold sglue_end_of, dt_end_of.
  destruct u as [|p|p]; [apply sglue_end_of_second_eq; exact TM| |reflexivity].
  do 4 (try (destruct p as [p|p|]; try reflexivity));
    lazymatch goal with
    | |- sglue_end_of_minute _ = _ => apply sglue_end_of_minute_eq | |- sglue_end_of_hour _ = _ => apply sglue_end_of_hour_eq
    | |- sglue_end_of_day _ = _ => apply sglue_end_of_day_eq | |- sglue_end_of_week _ _ = _ => apply sglue_end_of_week_eq
    | |- sglue_end_of_month _ = _ => apply sglue_end_of_month_eq | |- sglue_end_of_year _ = _ => apply sglue_end_of_year_eq
    | |- sglue_end_of_decade _ = _ => apply sglue_end_of_decade_eq | |- sglue_end_of_century _ = _ => apply sglue_end_of_century_eq
    end; assumption.
Qed.

Example glue_hyps_satisfiable :
  tz_matches (mkdtv (fixed_zone 0) 2 63461016000000000 true) (Some g_UTC) /\ wall_in_range 63461016000000000 = true /\
  tz_matches (mkdtv (fixed_zone 0) 0 63461016000000000 false) None.
Proof. cbn. repeat split; discriminate. Qed.
