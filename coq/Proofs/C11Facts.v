(* Proofs/C11Facts.v — C11: DateTime / Date / Time are drop-in replacements of the native classes (lemmas and proofs). *)
From Coq Require Import ZArith List Bool String Lia ZifyBool.
From PV Require Import Lib.PyBase Spec.Cal Spec.Zone Spec.NativeDT Spec.TdFloat Proofs.CalFacts Proofs.ZoneFacts
  Model.TzConvert Gen.Classes Model.DropIn.
Import ListNotations.
Ltac Zify.zify_post_hook ::= Z.to_euclidean_division_equations.
Open Scope Z_scope.

(* ------------------------------------------------------------------------------------------------ the generated table *)
(* every attribute of the native classes that a pendulum class hides has a model, a referenced property or an explicit out-of-scope note:
   a NEW override in /repo changes Gen/Classes.v and makes this computation return false *)
Lemma every_override_is_modelled : all_overrides_covered = true.
Proof. vm_compute. reflexivity. Qed.

(* the source text of the overrides that Model/DropIn.v transcribes is the text the transcription was made from *)
Definition expected_pins : list (string * string * Z) := [
  ("DateTime"%string, "date"%string, 2579156631297391);
  ("DateTime"%string, "time"%string, 799555493082218215);
  ("DateTime"%string, "timetz"%string, 531833493557984601);
  ("DateTime"%string, "astimezone"%string, 524461928055106474);
  ("DateTime"%string, "__str__"%string, 656740924710558607);
  ("DateTime"%string, "__sub__"%string, 143816649780709491);
  ("DateTime"%string, "__rsub__"%string, 80161386470916993);
  ("DateTime"%string, "__add__"%string, 375402396896168526);
  ("DateTime"%string, "__radd__"%string, 60767412731598726);
  ("DateTime"%string, "replace"%string, 938242348482846889);
  ("DateTime"%string, "_cmp"%string, 123433795042917976);
  ("DateTime"%string, "fromtimestamp"%string, 476273039366964030);
  ("DateTime"%string, "utcfromtimestamp"%string, 897940543959929727);
  ("DateTime"%string, "fromordinal"%string, 957409285995174620);
  ("DateTime"%string, "combine"%string, 761449512707560620);
  ("DateTime"%string, "strptime"%string, 747963115833056913);
  ("DateTime"%string, "diff"%string, 162842985062671903);
  ("DateTime"%string, "instance"%string, 94321182762484026);
  ("DateTime"%string, "create"%string, 706597953012527144);
  ("Date"%string, "__sub__"%string, 780192811516466786);
  ("Date"%string, "__add__"%string, 1071472619734458333);
  ("Date"%string, "replace"%string, 1366250886390003);
  ("Date"%string, "fromordinal"%string, 178049677547176702);
  ("Date"%string, "fromtimestamp"%string, 1099189308072242748);
  ("Date"%string, "today"%string, 995624041901214085);
  ("Date"%string, "diff"%string, 615090154459584932);
  ("Time"%string, "__sub__"%string, 429607812716150343);
  ("Time"%string, "__rsub__"%string, 237649091547306579);
  ("Time"%string, "__add__"%string, 911479651245016211);
  ("Time"%string, "replace"%string, 967735801662812942);
  ("Time"%string, "diff"%string, 742782167335028036);
  ("FormattableMixin"%string, "__str__"%string, 926797316400637718);
  ("FormattableMixin"%string, "__format__"%string, 450796075465230740);
  ("FormattableMixin"%string, "for_json"%string, 977467118256459795)
].
Lemma pins_ok : pinned_sources = expected_pins.
Proof. vm_compute. reflexivity. Qed.

Ltac lk := repeat match goal with
  | |- context [std_lookup ?c ?n] => let v := eval vm_compute in (std_lookup c n) in change (std_lookup c n) with v
  end.

(* the inherited accessors: by the generated table they are answered by the native C class; the dispatch model then IS the native
   function on the same fields.  This is CPython's inheritance (trusted), stated here so that it fails if the table changes. *)
Definition inherited (a : acc) : bool := match a with A_date | A_time | A_timetz => false | _ => true end.
Lemma std_accessor_agrees a x : inherited a = true -> dispatch_model a x = Some (native_acc a x).
Proof. destruct a; cbn [inherited]; intros H; try discriminate; unfold dispatch_model, acc_name; lk; reflexivity. Qed.

Lemma comparisons_and_hash_are_inherited :
  map (fun n => std_lookup "DateTime" n) ["__eq__"; "__ne__"; "__lt__"; "__le__"; "__gt__"; "__ge__"; "__hash__"; "timestamp"; "utcoffset"; "isoformat";
                                          "strftime"; "ctime"; "tzname"; "dst"]%string
  = map (fun o => Some (1, o)) ["datetime"; "datetime"; "datetime"; "datetime"; "datetime"; "datetime"; "datetime"; "datetime"; "datetime"; "datetime";
                                "date"; "datetime"; "datetime"; "datetime"]%string
  /\ map (fun n => std_lookup "Date" n) ["__eq__"; "__lt__"; "__hash__"; "isoformat"; "toordinal"; "weekday"; "isocalendar"; "timetuple"; "__rsub__"; "__radd__"]%string
     = map (fun o => Some (1, o)) ["date"; "date"; "date"; "date"; "date"; "date"; "date"; "date"; "date"; "date"]%string
  /\ map (fun n => std_lookup "Time" n) ["__eq__"; "__lt__"; "__hash__"; "isoformat"; "utcoffset"; "tzname"; "dst"; "strftime"]%string
     = map (fun o => Some (1, o)) ["time"; "time"; "time"; "time"; "time"; "time"; "time"; "time"]%string.
Proof. vm_compute. repeat split; reflexivity. Qed.

(* witnesses: Europe/Paris in 2013 *)
Definition paris : zone := mkzone 3600 [(63500288400, 7200); (63518432400, 3600)].     (* 2013: 03-31 01:00Z -> +2, 10-27 01:00Z -> +1 *)
Definition tz_paris (id : Z) : tzi := mktzi id false paris.
Definition tz_utc (id : Z) : tzi := mktzi id false (mkzone 0 []).
Definition W_2013_03_31 : Z := 63500284800 * 1000000.       (* 2013-03-31T00:00:00 wall *)
Definition W_2013_10_27 : Z := 63518428800 * 1000000.       (* 2013-10-27T00:00:00 wall *)
Definition HOUR : Z := 3600 * 1000000.

(* ------------------------------------------------------------------------------------------------ date() / time() *)
Lemma date_fields x :
  exists y m d, native_acc A_date x = Ok [0; y; m; d] /\ dispatch_model A_date x = Some (Ok [1; y; m; d])
                /\ ymd2ord y m d = native_toordinal x.
Proof.
  unfold dispatch_model, acc_name. lk. cbn [pendulum_acc native_acc pd_date native_date].
  unfold date_fields_of, native_toordinal. pose proof (ymd2ord_ord2ymd (v_wall x / us_per_day + 1)) as H.
  destruct (ord2ymd (v_wall x / us_per_day + 1)) as [[y m] d]. exists y, m, d. repeat split. exact H.
Qed.

Lemma tod_fields t : 0 <= t < 86400000000 ->
  0 <= t / 1000000 / 3600 < 24 /\ 0 <= (t / 1000000 / 60) mod 60 < 60 /\ 0 <= (t / 1000000) mod 60 < 60 /\ 0 <= t mod 1000000 < 1000000
  /\ ((t / 1000000 / 3600 * 60 + (t / 1000000 / 60) mod 60) * 60 + (t / 1000000) mod 60) * 1000000 + t mod 1000000 = t.
Proof. lia. Qed.

(* time(): the pendulum Time with the native time()'s hour/minute/second/microsecond AND fold (Time(..., fold=self.fold)) *)
Lemma time_fields x :
  exists h mi s us, native_acc A_time x = Ok [0; h; mi; s; us; Z.b2z (v_fold x)] /\ dispatch_model A_time x = Some (Ok [1; h; mi; s; us; Z.b2z (v_fold x)])
    /\ 0 <= h < 24 /\ 0 <= mi < 60 /\ 0 <= s < 60 /\ 0 <= us < 1000000
    /\ ((h * 60 + mi) * 60 + s) * 1000000 + us = v_wall x mod us_per_day.
Proof.
  unfold dispatch_model, acc_name. lk. cbn [pendulum_acc native_acc pd_time native_time].
  unfold time_fields_of. set (t := v_wall x mod us_per_day).
  assert (Ht : 0 <= t < 86400000000) by (unfold t, us_per_day; lia).
  exists (t / 1000000 / 3600), ((t / 1000000 / 60) mod 60), ((t / 1000000) mod 60), (t mod 1000000).
  split; [reflexivity|]. split; [reflexivity|]. apply tod_fields; exact Ht.
Qed.

(* the model of the override IS the native time() up to the type of the result: same fields, same fold *)
Lemma time_native x : pd_time x = (TyTime, snd (fst (native_time x)), snd (native_time x)) /\ fst (fst (native_time x)) = Ty_time.
Proof. split; reflexivity. Qed.

(* the former witness of time-drops-fold (2013-10-27 02:30, fold 1): both answers carry fold 1 now *)
Lemma time_keeps_fold_instance : let x := mkdtv (W_2013_10_27 + 2 * HOUR + HOUR / 2) true None in
  native_acc A_time x = Ok [0; 2; 30; 0; 0; 1] /\ dispatch_model A_time x = Some (Ok [1; 2; 30; 0; 0; 1]).
Proof. vm_compute. split; reflexivity. Qed.

(* timetz(): overridden (the generated table names DateTime): the pendulum Time with the native timetz()'s fields, fold and tzinfo object *)
Lemma timetz_fields x :
  exists h mi s us, native_acc A_timetz x = Ok [0; h; mi; s; us; Z.b2z (v_fold x); tz_code (v_tz x)]
    /\ dispatch_model A_timetz x = Some (Ok [1; h; mi; s; us; Z.b2z (v_fold x); tz_code (v_tz x)])
    /\ 0 <= h < 24 /\ 0 <= mi < 60 /\ 0 <= s < 60 /\ 0 <= us < 1000000
    /\ ((h * 60 + mi) * 60 + s) * 1000000 + us = v_wall x mod us_per_day.
Proof.
  unfold dispatch_model, acc_name. lk. cbn [pendulum_acc native_acc pd_timetz native_timetz].
  unfold time_fields_of. set (t := v_wall x mod us_per_day).
  assert (Ht : 0 <= t < 86400000000) by (unfold t, us_per_day; lia).
  exists (t / 1000000 / 3600), ((t / 1000000 / 60) mod 60), ((t / 1000000) mod 60), (t mod 1000000).
  split; [reflexivity|]. split; [reflexivity|]. apply tod_fields; exact Ht.
Qed.

(* ... and as records: the very tzinfo value (not only its identity), fold and fields of the native timetz(), of type Time *)
Lemma timetz_native x :
  std_lookup "DateTime" "timetz" = Some (0, "DateTime"%string) /\
  pd_timetz x = (TyTime, snd (fst (fst (native_timetz x))), snd (fst (native_timetz x)), snd (native_timetz x)) /\
  snd (native_timetz x) = v_tz x /\ snd (fst (native_timetz x)) = v_fold x /\
  (* time() is timetz() without the tzinfo *)
  pd_time x = fst (pd_timetz x).
Proof. split; [vm_compute; reflexivity|]. repeat split. Qed.

(* the former witness of timetz-returns-native-time (2013-03-31 03:30 Europe/Paris) and a fold-1 value: a pendulum Time with the receiver's tzinfo *)
Lemma timetz_instance :
  dispatch_model A_timetz (mkdtv (W_2013_03_31 + 3 * HOUR + HOUR / 2) false (Some (tz_paris 1))) = Some (Ok [1; 3; 30; 0; 0; 0; 1]) /\
  dispatch_model A_timetz (mkdtv (W_2013_10_27 + 2 * HOUR + HOUR / 2) true (Some (tz_paris 1))) = Some (Ok [1; 2; 30; 0; 0; 1; 1]) /\
  dispatch_model A_timetz (mkdtv (W_2013_10_27 + 2 * HOUR + HOUR / 2) true None) = Some (Ok [1; 2; 30; 0; 0; 1; NONE]).
Proof. vm_compute. repeat split; reflexivity. Qed.

(* ------------------------------------------------------------------------------------------------ astimezone, constructors *)
(* a coherent tzinfo: a FixedTimezone has no transitions *)
Definition tz_ok (t : tzi) : Prop := wf_zone (tz_zone t) = true /\ (tz_fixed t = true -> z_trans (tz_zone t) = []).

Lemma sec_render z U : sec (U + MEG * off_utc z (U / MEG)) = U / MEG + off_utc z (U / MEG).
Proof. unfold sec, MEG. lia. Qed.

(* create() is the identity on the rendering of an instant (the wall time exists; its fold is the database's) *)
Lemma create_rendered t U W f : tz_ok t -> render (tz_zone t) U = (W, f) -> pd_create (Some t) W f = Ok (mkdtv W f (Some t)).
Proof.
  intros [Hwf Hfx] Hr. unfold pd_create, create.
  destruct (tz_fixed t) eqn:Efx.
  - unfold convert_naive_fixed. unfold render, fold_utc in Hr. rewrite (Hfx eq_refl) in Hr. cbn [fold_utc_l] in Hr.
    assert (f = false) by congruence. subst. reflexivity.
  - unfold convert_naive. unfold render in Hr. assert (EW : W = U + MEG * off_utc (tz_zone t) (U / MEG)) by congruence.
    subst W. rewrite sec_render.
    pose proof (rendered_not_skipped (tz_zone t) (U / MEG) Hwf) as Hns. unfold wall_skipped in Hns.
    destruct (off_local _ _ true >? off_local _ _ false) eqn:E; [lia|]. rewrite andb_false_r. reflexivity.
Qed.

Lemma astz_ok z1 z2 W f W' f' : astz z1 z2 W f = Ok (W', f') ->
  (W', f') = render z2 (inst z1 W f) /\ wall_in_range (inst z1 W f) = true /\ wall_in_range W' = true.
Proof.
  unfold astz. destruct (wall_in_range (inst z1 W f)) eqn:E; cbn [negb]; [|discriminate].
  destruct (render z2 (inst z1 W f)) as [W2 f2]. destruct (wall_in_range W2) eqn:E2; [|discriminate].
  intros H. assert (W' = W2) by congruence. assert (f' = f2) by congruence. subst. auto.
Qed.

Lemma native_astimezone_inv x tz r : native_astimezone x tz = Ok r ->
  exists t, v_tz x = Some t /\ v_tz r = Some tz /\
    ((tz_id t =? tz_id tz) = true /\ v_wall r = v_wall x /\ v_fold r = v_fold x \/
     (tz_id t =? tz_id tz) = false /\ (v_wall r, v_fold r) = render (tz_zone tz) (instant x)).
Proof.
  unfold native_astimezone. destruct (v_tz x) as [t|] eqn:Et; [|discriminate].
  unfold in_tz. destruct (tz_id t =? tz_id tz) eqn:Eid.
  - intros H. injection H as <-. exists t. cbn [v_wall v_fold v_tz fst snd negb andb orb bind Bool.eqb]. split; [reflexivity|]. split; [reflexivity|]. left. split; [exact Eid|split; reflexivity].
  - destruct (astz _ _ _ _) as [[W f]|e] eqn:Ea; [|discriminate]. intros H. injection H as <-.
    exists t. cbn [v_wall v_fold v_tz fst snd negb andb orb bind Bool.eqb]. split; [reflexivity|]. split; [reflexivity|]. right. split; [exact Eid|].
    destruct (astz_ok _ _ _ _ _ _ Ea) as [E _]. unfold instant, native_utcoffset, v_off. rewrite Et. exact E.
Qed.

(* DateTime.astimezone: the same fields, fold and tzinfo zone as the native astimezone, as a DateTime; raises exactly when the native one does *)
Lemma astimezone_native x tz isp : tz_ok tz ->
  match native_astimezone x tz, pd_astimezone x tz isp with
  | Ok r, Ok (t, r', _) => r' = r /\ t = TyDateTime
  | Raise e, Raise e' => e = e'
  | _, _ => False
  end.
Proof.
  intros Hok. unfold pd_astimezone. destruct (native_astimezone x tz) as [r|e] eqn:En; [|reflexivity].
  destruct (native_astimezone_inv _ _ _ En) as [t [Et [Er Hc]]]. rewrite Et.
  destruct Hc as [[Eid [EW Ef]]|[Eid Hr]]; rewrite Eid; cbn [negb].
  - rewrite andb_false_r. split; reflexivity.
  - rewrite andb_true_r. destruct (v_fold r) eqn:Efr.
    + rewrite (create_rendered tz (instant x) (v_wall r) true Hok) by (rewrite <- Hr; reflexivity).
      split; [|reflexivity]. destruct r as [W f tzr]. cbn [v_wall v_fold v_tz fst snd negb andb orb bind Bool.eqb] in *. subst. reflexivity.
    + split; reflexivity.
Qed.

(* ... and it denotes the same instant as the receiver *)
Lemma astimezone_same_instant x tz isp t r k : tz_ok tz -> aware x = true ->
  (forall tx, v_tz x = Some tx -> tz_id tx = tz_id tz -> tx = tz) ->
  pd_astimezone x tz isp = Ok (t, r, k) -> instant r = instant x /\ v_tz r = Some tz.
Proof.
  intros Hok Haw Hco H. pose proof (astimezone_native x tz isp Hok) as A. rewrite H in A.
  destruct (native_astimezone x tz) as [r0|e] eqn:En; [|contradiction]. destruct A as [-> _].
  destruct (native_astimezone_inv _ _ _ En) as [tx [Et [Er Hc]]]. split; [|exact Er].
  destruct Hc as [[Eid [EW Ef]]|[Eid Hr]].
  - assert (tx = tz) by (apply Hco; [exact Et|lia]). subst tx.
    unfold instant, native_utcoffset, v_off. rewrite Er, Et, EW, Ef. reflexivity.
  - destruct Hok as [Hwf _]. pose proof (render_inst (tz_zone tz) (instant x) Hwf) as R. rewrite <- Hr in R.
    unfold instant at 1. unfold native_utcoffset, v_off. rewrite Er. exact R.
Qed.

(* fromtimestamp(t, tz): a DateTime in tz denoting exactly that instant *)
Lemma fromtimestamp_instant tz t r : tz_ok tz -> pd_fromtimestamp_us tz t = Ok r ->
  instant r = EPOCH_US + t /\ v_tz r = Some tz /\ (v_wall r, v_fold r) = render (tz_zone tz) (EPOCH_US + t).
Proof.
  intros Hok. unfold pd_fromtimestamp_us. destruct (wall_in_range (EPOCH_US + t)); cbn [negb]; [|discriminate].
  destruct (render (tz_zone tz) (EPOCH_US + t)) as [W f] eqn:Er. destruct (wall_in_range W); [|discriminate].
  rewrite (create_rendered tz _ _ _ Hok Er). intros H. injection H as <-. cbn [v_wall v_fold v_tz fst snd negb andb orb bind Bool.eqb].
  split; [|split; reflexivity]. destruct Hok as [Hwf _]. pose proof (render_inst (tz_zone tz) (EPOCH_US + t) Hwf) as R. rewrite Er in R.
  unfold instant, native_utcoffset, v_off. cbn [v_wall v_fold v_tz fst snd negb andb orb bind Bool.eqb]. exact R.
Qed.

(* replace(): create() — the native replace (same fields, fold, tzinfo) unless the target wall time is skipped *)
Lemma replace_native_on_valid x t W f : v_tz x = Some t -> tz_fixed t = false -> ~ wall_skipped (tz_zone t) (sec W) ->
  pd_replace x W f = Ok (mkdtv W f (Some t)).
Proof.
  intros Et Efx Hns. unfold pd_replace, pd_create, create, convert_naive. rewrite Et, Efx. unfold wall_skipped in Hns.
  destruct (off_local _ _ true >? off_local _ _ false) eqn:E; [lia|]. rewrite andb_false_r. reflexivity.
Qed.
Lemma replace_naive x W f : v_tz x = None -> pd_replace x W f = Ok (mkdtv W f None).
Proof. intros E. unfold pd_replace. rewrite E. reflexivity. Qed.


(* replace onto a skipped wall time differs from the native replace (which keeps the impossible fields): pendulum's documented normalisation (C02) *)
Lemma replace_skipped_differs :
  let x := mkdtv W_2013_03_31 false (Some (tz_paris 1)) in
  wall_skipped paris (sec (W_2013_03_31 + 2 * HOUR + HOUR / 2)) /\
  pd_replace x (W_2013_03_31 + 2 * HOUR + HOUR / 2) true = Ok (mkdtv (W_2013_03_31 + 3 * HOUR + HOUR / 2) false (Some (tz_paris 1))).
Proof. vm_compute. split; reflexivity. Qed.

(* ------------------------------------------------------------------------------------------------ equality and hash *)
(* a pendulum object and the native object with the same fields and the same tzinfo object are the same `dtv`: comparison and hash are
   inherited C slots (comparisons_and_hash_are_inherited) that read only these fields, hence: *)
Lemma eq_hash_native x : native_eq x x = true /\ hash_eq x x = true /\ native_sub x x = Ok 0 /\
  native_le x x = Ok true /\ native_ge x x = Ok true /\ native_lt x x = Ok false /\ native_gt x x = Ok false.
Proof.
  assert (S : same_tzobj x x = true) by (unfold same_tzobj; destruct (v_tz x); [apply Z.eqb_refl|reflexivity]).
  unfold native_eq, native_le, native_ge, native_lt, native_gt, native_ord, native_sub, cmp_key, hash_eq. rewrite S.
  rewrite !Z.eqb_refl, eqb_reflx. cbn [v_wall v_fold v_tz fst snd negb andb orb bind Bool.eqb]. repeat split; f_equal; lia.
Qed.

(* against the native object with an equal but distinct tzinfo object (zoneinfo.ZoneInfo(name)): always the same hash, and equal
   exactly when the value is not a PEP 495 "problem time" (CPython's inter-zone rule) *)
Lemma eq_hash_other_tzinfo W f t t' : tz_id t <> tz_id t' -> tz_zone t' = tz_zone t ->
  let x := mkdtv W f (Some t) in let x' := mkdtv W f (Some t') in
  hash_eq x x' = true /\ native_eq x x' = negb (problem_time x) /\ native_sub x x' = Ok 0 /\ native_lt x x' = Ok false /\ native_le x x' = Ok true.
Proof.
  intros Hid Hz. cbv zeta.
  assert (S : (tz_id t =? tz_id t') = false) by lia.
  unfold hash_eq, native_hash_key, native_eq, native_sub, native_lt, native_le, native_ord, cmp_key, same_tzobj, problem_time, instant, native_utcoffset, v_off.
  cbn [v_wall v_fold v_tz]. rewrite S, Hz. cbn [fst snd Bool.eqb orb negb]. rewrite !Z.eqb_refl, orb_diag. cbn [andb].
  repeat split; f_equal; lia.
Qed.

(* Python's contract: equal objects hash equal (tzinfo identity determines the tzinfo) *)
Definition coherent (x y : dtv) : Prop := forall a b, v_tz x = Some a -> v_tz y = Some b -> tz_id a = tz_id b -> a = b.
Lemma eq_implies_hash_eq x y : coherent x y -> native_eq x y = true -> hash_eq x y = true.
Proof.
  intros Hco. unfold native_eq, cmp_key, hash_eq, native_hash_key, same_tzobj, problem_time, instant, native_utcoffset, v_off.
  destruct (v_tz x) as [a|] eqn:Ea, (v_tz y) as [b|] eqn:Eb; cbn [v_wall v_fold v_tz fst snd negb andb orb bind Bool.eqb].
  - destruct (tz_id a =? tz_id b) eqn:Eid.
    + assert (a = b) by (apply Hco; auto; lia). subst b. intros H. apply andb_true_iff in H. destruct H as [H _].
      assert (v_wall x = v_wall y) by lia. rewrite H0, Z.eqb_refl. reflexivity.
    + cbn [v_wall v_fold v_tz fst snd negb andb orb bind Bool.eqb]. intros H. apply andb_true_iff in H. destruct H as [H1 H2].
      apply negb_true_iff, orb_false_iff in H2. destruct H2 as [P1 P2].
      apply negb_false_iff in P1. apply negb_false_iff in P2.
      destruct (v_fold x), (v_fold y); lia.
  - discriminate.
  - discriminate.
  - intros H. rewrite andb_true_r in H. exact H.
Qed.

(* ------------------------------------------------------------------------------------------------ ordering *)
(* between two aware values with distinct tzinfo objects (every wf or non-wf table): the order of the instants *)
Lemma order_is_instant_order x y : aware x = true -> aware y = true -> same_tzobj x y = false ->
  native_lt x y = Ok (instant x <? instant y) /\ native_le x y = Ok (instant x <=? instant y) /\
  native_gt x y = Ok (instant x >? instant y) /\ native_ge x y = Ok (instant x >=? instant y) /\
  (native_eq x y = true -> instant x = instant y).
Proof.
  unfold aware, native_lt, native_le, native_gt, native_ge, native_ord, native_eq, cmp_key. intros Hx Hy S. rewrite S.
  destruct (v_tz x), (v_tz y); try discriminate. repeat split. intros H. apply andb_true_iff in H. lia.
Qed.

(* same tzinfo object: CPython compares the wall clocks (intra-zone rule of PEP 495) *)
Lemma order_same_tzinfo_is_wall_order x y : same_tzobj x y = true ->
  native_lt x y = Ok (v_wall x <? v_wall y) /\ native_eq x y = (v_wall x =? v_wall y).
Proof.
  unfold native_lt, native_ord, native_eq, cmp_key. intros S. rewrite S. cbn [v_wall v_fold v_tz fst snd negb andb orb bind Bool.eqb]. rewrite andb_true_r. split; reflexivity.
Qed.

(* ... which is the order of the instants when both values have the same utcoffset *)
Lemma order_same_tzinfo_same_offset x y : same_tzobj x y = true -> native_utcoffset x = native_utcoffset y ->
  native_lt x y = Ok (instant x <? instant y) /\ native_le x y = Ok (instant x <=? instant y).
Proof.
  unfold native_lt, native_le, native_ord, cmp_key, instant. intros S E. rewrite S, E.
  destruct (native_utcoffset y); split; f_equal; lia.
Qed.

(* ... and NOT in general: 02:30 (second occurrence) < 02:40 (first occurrence) on 2013-10-27 in Europe/Paris although its instant is later *)
Lemma order_same_zone_refuted :
  let x := mkdtv (W_2013_10_27 + 2 * HOUR + HOUR / 2) true (Some (tz_paris 1)) in
  let y := mkdtv (W_2013_10_27 + 2 * HOUR + 2 * HOUR / 3) false (Some (tz_paris 1)) in
  wf2_zone paris = true /\ aware x = true /\ aware y = true /\ native_lt x y = Ok true /\ (instant x <? instant y) = false
  /\ fst (render paris (instant x)) = v_wall x /\ fst (render paris (instant y)) = v_wall y.
Proof. vm_compute. repeat split; reflexivity. Qed.

(* ------------------------------------------------------------------------------------------------ subtraction *)
Lemma interval_length_general st en : Bool.eqb (aware st) (aware en) = true ->
  (same_tzobj st en = true -> aware st = true -> wall_in_range (instant st) = true /\ wall_in_range (instant en) = true) ->
  interval_length st en =
    bind (if same_tzobj st en && aware st then Ok (instant en - instant st) else native_sub en st)
         (fun D => td_of_float_seconds (total_seconds D)).
Proof.
  intros Ha Hr. unfold interval_length. rewrite Ha. cbn [negb].
  destruct (same_tzobj st en && aware st) eqn:E; [|reflexivity].
  apply andb_true_iff in E. destruct (Hr (proj1 E) (proj2 E)) as [R1 R2]. rewrite R1, R2. reflexivity.
Qed.

Lemma same_tzobj_sym x y : same_tzobj x y = same_tzobj y x.
Proof. unfold same_tzobj. destruct (v_tz x), (v_tz y); try reflexivity. apply Z.eqb_sym. Qed.

(* x - y for two DateTimes: an Interval whose length is the native difference D pushed through float seconds, provided the operands
   do not share a tzinfo object with different utcoffsets (see sub_same_tzinfo_refuted) *)
Lemma sub_datetime_length x y D :
  o_is_pendulum x = true -> o_is_pendulum y = true ->
  native_sub (o_val x) (o_val y) = Ok D ->
  (same_tzobj (o_val x) (o_val y) = true -> aware (o_val x) = true ->
     native_utcoffset (o_val x) = native_utcoffset (o_val y) /\ wall_in_range (instant (o_val x)) = true /\ wall_in_range (instant (o_val y)) = true) ->
  pd_sub x y = bind (td_of_float_seconds (total_seconds D)) (fun N => Ok (TyInterval, N)).
Proof.
  intros Px Py Hn Hs. unfold pd_sub, as_pendulum. rewrite Px, Py. cbn [bind].
  set (a := o_val x) in *. set (b := o_val y) in *.
  assert (Haw : Bool.eqb (aware b) (aware a) = true).
  { unfold native_sub, same_tzobj, aware in *. destruct (v_tz a), (v_tz b); try reflexivity; discriminate. }
  rewrite interval_length_general; [|exact Haw|].
  - rewrite (same_tzobj_sym b a). destruct (same_tzobj a b && aware b) eqn:E.
    + apply andb_true_iff in E. destruct E as [E1 E2].
      assert (Aa : aware a = true) by (apply eqb_prop in Haw; congruence).
      destruct (Hs E1 Aa) as [Eo _]. unfold native_sub in Hn. rewrite E1 in Hn. injection Hn as <-.
      replace (instant a - instant b) with (v_wall a - v_wall b); [cbn [bind]; destruct (td_of_float_seconds _); reflexivity|].
      unfold instant. rewrite Eo. destruct (native_utcoffset b); lia.
    + rewrite Hn. cbn [bind]. destruct (td_of_float_seconds _); reflexivity.
  - rewrite (same_tzobj_sym b a). intros S Ab. assert (Aa : aware a = true) by (apply eqb_prop in Haw; congruence).
    destruct (Hs S Aa) as [_ [R1 R2]]. split; assumption.
Qed.

(* with an exact float round trip (true for |D| < 2^33 s on every case the harness has ever produced; not proved in general) the length IS the native difference *)
Lemma sub_datetime_exact x y D :
  o_is_pendulum x = true -> o_is_pendulum y = true -> native_sub (o_val x) (o_val y) = Ok D ->
  (same_tzobj (o_val x) (o_val y) = true -> aware (o_val x) = true ->
     native_utcoffset (o_val x) = native_utcoffset (o_val y) /\ wall_in_range (instant (o_val x)) = true /\ wall_in_range (instant (o_val y)) = true) ->
  td_of_float_seconds (total_seconds D) = Ok D ->
  pd_sub x y = Ok (TyInterval, D).
Proof. intros Px Py Hn Hs Hf. rewrite (sub_datetime_length x y D Px Py Hn Hs), Hf. reflexivity. Qed.

Definition pop (v : dtv) : operand := mkop v true 1.
Definition nop (v : dtv) (pid : Z) : operand := mkop v false pid.

Example sub_datetime_exact_instance :
  let x := pop (mkdtv (W_2013_03_31 + 5 * HOUR + 7) false (Some (tz_paris 1))) in
  let y := pop (mkdtv (W_2013_03_31 - HOUR) false (Some (tz_utc 2))) in
  native_sub (o_val x) (o_val y) = Ok (4 * HOUR + 7) /\ td_of_float_seconds (total_seconds (4 * HOUR + 7)) = Ok (4 * HOUR + 7)
  /\ pd_sub x y = Ok (TyInterval, 4 * HOUR + 7).
Proof. vm_compute. repeat split; reflexivity. Qed.

(* same tzinfo object, different utcoffsets: Interval.__new__ subtracts the offsets ("Fixing issues with datetime.__sub__()"), the native
   subtraction does not: 2013-03-31 03:00+02:00 - 01:00+01:00 in Europe/Paris is 2 h natively, 1 h for DateTime *)
Lemma sub_same_tzinfo_refuted :
  let x := pop (mkdtv (W_2013_03_31 + 3 * HOUR) false (Some (tz_paris 1))) in
  let y := pop (mkdtv (W_2013_03_31 + 1 * HOUR) false (Some (tz_paris 1))) in
  native_sub (o_val x) (o_val y) = Ok (2 * HOUR) /\ pd_sub x y = Ok (TyInterval, 1 * HOUR).
Proof. vm_compute. split; reflexivity. Qed.

(* a NATIVE operand on a skipped wall time is normalised by instance() (moved back by the gap for fold 0) before the subtraction:
   native 02:30(Europe/Paris, fold 0) - 00:00Z = 1 h 30, DateTime gives 30 min *)
Lemma sub_native_gap_refuted :
  let n := mkdtv (W_2013_03_31 + 2 * HOUR + HOUR / 2) false (Some (tz_paris 11)) in
  let u := mkdtv W_2013_03_31 false (Some (tz_utc 2)) in
  native_sub n u = Ok (HOUR + HOUR / 2) /\ pd_sub (nop n 1) (pop u) = Ok (TyInterval, HOUR / 2) /\ pd_sub (pop u) (nop n 1) = Ok (TyInterval, - (HOUR / 2)).
Proof. vm_compute. repeat split; reflexivity. Qed.

(* the length goes through float seconds: beyond 2^33 s (~272 years) microseconds are lost *)
Lemma sub_float_roundtrip_refuted :
  let x := pop (mkdtv 179622456367079810 false None) in
  let y := pop (mkdtv (179622456367079810 - 8737602730852376) false None) in
  native_sub (o_val x) (o_val y) = Ok 8737602730852376 /\ pd_sub x y = Ok (TyInterval, 8737602730852377).
Proof. vm_compute. split; reflexivity. Qed.

(* ------------------------------------------------------------------------------------------------ result types *)
Lemma returns_pendulum_types x y tz isp :
  is_pendulum_type (fst (pd_date (o_val x))) = true /\ is_pendulum_type (fst (fst (pd_time (o_val x)))) = true /\
  is_pendulum_type (fst (fst (fst (pd_timetz (o_val x))))) = true /\
  (forall t r k, pd_astimezone (o_val x) tz isp = Ok (t, r, k) -> is_pendulum_type t = true) /\
  (forall t N, pd_sub x y = Ok (t, N) -> is_pendulum_type t = true) /\
  (forall n1 n2 t N, pd_date_sub n1 n2 = Ok (t, N) -> is_pendulum_type t = true) /\
  (forall a b c d e f g h, is_pendulum_type (fst (pd_time_sub a b c d e f g h)) = true).
Proof.
  split; [reflexivity|]. split; [reflexivity|]. split; [reflexivity|]. split; [|split; [|split]].
  - intros t r k. unfold pd_astimezone. destruct (native_astimezone _ _); [|discriminate].
    destruct (_ && _); [destruct (pd_create _ _ _); [|discriminate]|]; intros H; injection H as <- _ _; reflexivity.
  - intros t N. unfold pd_sub. destruct (as_pendulum x); [|discriminate]. destruct (as_pendulum y); [|discriminate]. cbn [bind].
    destruct (interval_length _ _); [|discriminate]. cbn [bind]. intros H. injection H as <- _. reflexivity.
  - intros n1 n2 t N. unfold pd_date_sub. destruct (td_of_float_seconds _); [|discriminate]. cbn [bind]. intros H. injection H as <- _. reflexivity.
  - reflexivity.
Qed.

(* Time - Time (an extension: the native time has no subtraction) is the exact difference of the two times of day, microseconds included (Time.diff after f98403b) *)
Lemma time_sub_exact h1 m1 s1 us1 h2 m2 s2 us2 :
  pd_time_sub h1 m1 s1 us1 h2 m2 s2 us2 = (TyDuration, (((h1 * 60 + m1) * 60 + s1) * 1000000 + us1) - (((h2 * 60 + m2) * 60 + s2) * 1000000 + us2)).
Proof. unfold pd_time_sub. f_equal. ring. Qed.

(* the astimezone result carries the tz argument itself, except: stdlib ZoneInfo argument and a result in the second pass of an overlap *)
Lemma astimezone_keeps_tzinfo_object x tz r t k : pd_astimezone x tz false = Ok (t, r, k) -> k = negb (v_fold r && negb (match v_tz x with Some tx => tz_id tx =? tz_id tz | None => false end)) \/ v_fold r = false.
Proof.
  unfold pd_astimezone. destruct (native_astimezone x tz) as [r0|]; [|discriminate].
  destruct (v_fold r0 && _) eqn:E.
  - unfold pd_create. destruct (create _ _ _ _ _) as [[W' f']|]; [|discriminate]. intros H. injection H as _ <- <-. cbn [v_wall v_fold v_tz fst snd negb andb orb bind Bool.eqb].
    destruct f'; [left|right; reflexivity]. apply andb_true_iff in E. destruct E as [_ E]. rewrite E. reflexivity.
  - intros H. injection H as _ <- <-. left. rewrite E. reflexivity.
Qed.

(* ------------------------------------------------------------------------------------------------ strings *)
(* __str__ is overridden by DateTime and is the (inherited, native) isoformat with a blank separator; for_json is isoformat(); format(x, "") is str(x) *)
Lemma str_is_isoformat x :
  std_lookup "DateTime" "__str__" = Some (0, "DateTime"%string) /\ std_lookup "DateTime" "isoformat" = Some (1, "datetime"%string) /\
  std_lookup "DateTime" "__format__" = Some (0, "FormattableMixin"%string) /\
  pd_str x = native_isoformat 32 x /\ pd_for_json x = native_isoformat 84 x /\ pd_format_empty x = native_isoformat 32 x /\
  (forall sep, List.length (native_isoformat sep x) = List.length (native_isoformat 32 x)).
Proof.
  split; [vm_compute; reflexivity|]. split; [vm_compute; reflexivity|]. split; [vm_compute; reflexivity|].
  repeat split. intros sep. unfold native_isoformat. destruct (fields_of_wall (v_wall x)) as [[[[[[y m] d] hh] mi] ss] us].
  rewrite !app_length. reflexivity.
Qed.
Example str_example : pd_str (mkdtv (W_2013_03_31 + 3 * HOUR + 7) false (Some (tz_paris 1))) =
  [50; 48; 49; 51; 45; 48; 51; 45; 51; 49; 32; 48; 51; 58; 48; 48; 58; 48; 48; 46; 48; 48; 48; 48; 48; 55; 43; 48; 50; 58; 48; 48].
Proof. vm_compute. reflexivity. Qed.

(* ------------------------------------------------------------------------------------------------ FixedTimezone *)
Lemma fixed_timezone_native o W : fixed_utcoffset o = off_utc (fixed_zone o) W /\ fixed_dst o = 0 /\
  (forall W', fixed_fromutc o W = Ok W' -> W' = fst (render (fixed_zone o) W)).
Proof. split; [reflexivity|]. split; [reflexivity|]. intros W'. unfold fixed_fromutc. destruct (wall_in_range _); [|discriminate]. intros H. injection H as <-. reflexivity. Qed.
