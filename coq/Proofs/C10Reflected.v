(* Proofs/C10Reflected.v — C10 with a plain timedelta on the LEFT and every kind of Interval (signed, inverted, absolute given in either order)
   on the right: the reflected operators a Duration / Interval INHERITS from timedelta (- // / % divmod) are timedelta's own arithmetic on the
   native lengths, whatever the class of the right operand; the absolute flag of an Interval; -i and abs(i) of an Interval.
   Model: Model/DurationOps.v (arith_op, td_binop, interval_new_abs, interval_neg, interval_abs). *)
From Coq Require Import ZArith List Bool Lia ZifyBool.
From Coq Require Import Floats.SpecFloat.
From PV Require Import Lib.PyBase Spec.TdFloat Gen.Constants Model.Duration Gen.DurationOps Model.DurationOps
                       Proofs.TdFloatFacts Proofs.C09Facts Proofs.C10Facts Proofs.FloatRoundTripBase Proofs.FloatRoundTrip.
Import ListNotations.
Open Scope Z_scope.

(* the binary operators whose reflected form neither Duration nor Interval defines: - // / % divmod *)
Definition inherited_reflected (m : Z) : bool := (m =? 2) || ((5 <=? m) && (m <=? 8)).

Lemma inherited_reflected_cases : forall m, inherited_reflected m = true -> m = 2 \/ m = 5 \/ m = 6 \/ m = 7 \/ m = 8.
Proof. intros m H. unfold inherited_reflected in H. lia. Qed.

(* ------------------------------------------------------------------ 1. timedelta <op> P is native arithmetic on the native length of P *)
Lemma reflected_is_native : forall m n d, inherited_reflected m = true ->
  arith_op m (VTd n) (VDur d) = not_impl_to_type_error (td_binop m n (d_N d)) /\
  arith_op m (VTd n) (VIvl d) = not_impl_to_type_error (td_binop m n (d_N d)).
Proof.
  intros m n d H. destruct (inherited_reflected_cases m H) as [->|[->|[->|[->| ->]]]]; split; reflexivity.
Qed.

(* the class of the right operand (Duration or Interval) is irrelevant *)
Lemma reflected_class_irrelevant : forall m n d, inherited_reflected m = true ->
  arith_op m (VTd n) (VIvl d) = arith_op m (VTd n) (VDur d).
Proof. intros m n d H. destruct (reflected_is_native m n d H) as [A B]. rewrite A, B. reflexivity. Qed.

Lemma timedelta_minus_interval : forall n i, td_in_range (n - d_N i) = true -> arith_op 2 (VTd n) (VIvl i) = Ok (RTd (n - d_N i)).
Proof. intros n i H. cbn. unfold td_checked. rewrite H. reflexivity. Qed.

(* ------------------------------------------------------------------ 2. the absolute flag *)
Lemma ivl_eff_absolute : forall delta, ivl_eff delta true = Z.abs delta.
Proof. intro delta. unfold ivl_eff. cbn [andb]. destruct (delta <? 0) eqn:E; lia. Qed.

Lemma ivl_eff_signed : forall delta, ivl_eff delta false = delta.
Proof. reflexivity. Qed.

(* an absolute Interval is the same whichever end point is given first *)
Lemma absolute_order_irrelevant : forall delta, interval_new_abs delta true = interval_new_abs (- delta) true.
Proof. intro delta. unfold interval_new_abs. rewrite !ivl_eff_absolute, Z.abs_opp. reflexivity. Qed.

(* the native length of an Interval is end - start exactly (below 2^33 s): Duration.__new__(seconds=delta.total_seconds()) loses nothing *)
Lemma interval_new_native : forall n i, Z.abs n < 2 ^ 33 * 10 ^ 6 -> interval_new n = Ok i -> d_N i = n.
Proof.
  intros n i B H. unfold interval_new in H. apply dur_of_fsec_inv in H. destruct H as (H & _ & _).
  rewrite td_us_roundtrip_exact in H by exact B. inversion H. reflexivity.
Qed.

Lemma interval_new_abs_native : forall delta a i, Z.abs delta < 2 ^ 33 * 10 ^ 6 -> interval_new_abs delta a = Ok i ->
  d_N i = if a then Z.abs delta else delta.
Proof.
  intros delta a i B H. unfold interval_new_abs in H. destruct a.
  - rewrite ivl_eff_absolute in H. apply interval_new_native in H; [exact H | lia].
  - apply interval_new_native in H; [exact H | exact B].
Qed.

(* the seed class: timedelta - <absolute Interval> is n - |delta| in either order of the end points *)
Lemma timedelta_minus_absolute_interval : forall n delta i, Z.abs delta < 2 ^ 33 * 10 ^ 6 -> td_in_range (n - Z.abs delta) = true ->
  interval_new_abs delta true = Ok i -> arith_op 2 (VTd n) (VIvl i) = Ok (RTd (n - Z.abs delta)).
Proof.
  intros n delta i B R H. pose proof (interval_new_abs_native delta true i B H) as E. cbn in E.
  rewrite <- E in *. apply timedelta_minus_interval. exact R.
Qed.

(* ------------------------------------------------------------------ 3. -i and abs(i) *)
(* a signed / inverted Interval negates exactly *)
Lemma interval_neg_signed : forall delta i, Z.abs delta < 2 ^ 33 * 10 ^ 6 -> interval_neg delta false = Ok i -> d_N i = - delta.
Proof.
  intros delta i B H. unfold interval_neg in H. rewrite ivl_eff_signed in H.
  apply interval_new_abs_native in H; [exact H | lia].
Qed.

(* an absolute Interval is its own negation (the constructor swaps the end points back) *)
Lemma interval_neg_absolute_fixed : forall delta, interval_neg delta true = interval_new_abs delta true.
Proof.
  intro delta. unfold interval_neg, interval_new_abs. rewrite !ivl_eff_absolute. rewrite Z.abs_opp, Z.abs_involutive. reflexivity.
Qed.

(* ... so negation does NOT give the native negation there: finding neg-absolute-interval *)
Lemma interval_neg_absolute_refuted : exists delta i j,
  interval_new_abs delta true = Ok i /\ interval_neg delta true = Ok j /\ d_N j <> - d_N i.
Proof.
  destruct (interval_new_abs 259200000000 true) as [i|e] eqn:E.
  - exists 259200000000, i, i. split; [exact E|]. split; [rewrite interval_neg_absolute_fixed; exact E|].
    apply interval_new_abs_native in E; [|vm_compute; reflexivity]. rewrite E. cbn. lia.
  - exfalso. unfold interval_new_abs, interval_new, dur_of_fsec in E. vm_compute in E. discriminate.
Qed.

(* the region where negation is exact: not absolute, or of length zero *)
Lemma interval_neg_partial : forall delta a i j, Z.abs delta < 2 ^ 33 * 10 ^ 6 -> (a = false \/ delta = 0) ->
  interval_new_abs delta a = Ok i -> interval_neg delta a = Ok j -> d_N j = - d_N i.
Proof.
  intros delta a i j B [-> | ->] Hi Hj.
  - apply interval_neg_signed in Hj; [|exact B]. apply interval_new_abs_native in Hi; [|exact B]. lia.
  - destruct a.
    + rewrite interval_neg_absolute_fixed in Hj. rewrite Hi in Hj. inversion Hj; subst j.
      apply interval_new_abs_native in Hi; [|exact B]. cbn in Hi. lia.
    + apply interval_neg_signed in Hj; [|exact B]. apply interval_new_abs_native in Hi; [|exact B]. lia.
Qed.

(* abs(i) has the native length |end - start| and is absolute, whatever i was *)
Lemma interval_abs_native : forall delta a i, Z.abs delta < 2 ^ 33 * 10 ^ 6 -> interval_abs delta a = Ok i -> d_N i = Z.abs delta.
Proof.
  intros delta a i B H. unfold interval_abs in H. apply interval_new_abs_native in H.
  - rewrite H. destruct a; [rewrite ivl_eff_absolute | rewrite ivl_eff_signed]; lia.
  - destruct a; [rewrite ivl_eff_absolute | rewrite ivl_eff_signed]; lia.
Qed.

(* the hypotheses are satisfiable *)
Example reflected_example :
  exists i, interval_new_abs (-282600000250) true = Ok i /\
            arith_op 2 (VTd 864000000000) (VIvl i) = Ok (RTd (864000000000 - 282600000250)).
Proof.
  destruct (interval_new_abs (-282600000250) true) as [i|e] eqn:E.
  - exists i. split; [reflexivity|]. apply (timedelta_minus_absolute_interval 864000000000 (-282600000250) i); [vm_compute; reflexivity | vm_compute; reflexivity | exact E].
  - exfalso. vm_compute in E. discriminate.
Qed.
