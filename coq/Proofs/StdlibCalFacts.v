(* Proofs/StdlibCalFacts.v — Spec/Cal.v (the hand-written specification of the proleptic Gregorian calendar) is EQUAL to the
   machine translation of CPython's own pure-Python reference implementation `_pydatetime.py` (Gen/StdlibCal.v, regenerated from the
   staged interpreter's standard library on every run).  Every statement is universally quantified: no bound on the year or on the
   ordinal unless the stdlib function itself checks one (then the check is part of the statement).
   `assert` in the stdlib source is translated to Raise E_Exception, so `= Ok _` also says that no assertion of the stdlib fails. *)
From Coq Require Import ZArith List Bool Lia ZifyBool.
From PV Require Import Lib.Reflect Lib.PyBase Spec.Cal Proofs.CalFacts Gen.StdlibCal.
Import ListNotations.
Ltac Zify.zify_post_hook ::= Z.to_euclidean_division_equations.
Open Scope Z_scope.

Ltac split_ifs := repeat match goal with |- context [if ?c then _ else _] => destruct c eqn:? end.

(* ---------- constants and tables ---------- *)
Lemma sl_DI400Y_val : sl_DI400Y = 146097. Proof. vm_compute. reflexivity. Qed.
Lemma sl_DI100Y_val : sl_DI100Y = 36524. Proof. vm_compute. reflexivity. Qed.
Lemma sl_DI4Y_val : sl_DI4Y = 1461. Proof. vm_compute. reflexivity. Qed.

Definition tables_ok (m : Z) : bool :=
  (tidx sl_DAYS_BEFORE_MONTH m =? dbm_common m) && (tidx sl_DAYS_IN_MONTH m =? dim_l false m).
Lemma tables_all : forall_range tables_ok 1 12 = true. Proof. vm_compute. reflexivity. Qed.

Lemma sl_dbm_table m : 1 <= m <= 12 -> tidx sl_DAYS_BEFORE_MONTH m = dbm_common m.
Proof. intros H. pose proof (forall_range_spec _ _ _ tables_all m H) as E. unfold tables_ok in E. lia. Qed.
Lemma sl_dim_table m : 1 <= m <= 12 -> tidx sl_DAYS_IN_MONTH m = dim_l false m.
Proof. intros H. pose proof (forall_range_spec _ _ _ tables_all m H) as E. unfold tables_ok in E. lia. Qed.

(* ---------- _is_leap, _days_before_year ---------- *)
Lemma sl_is_leap_spec y : sl_is_leap y = is_leap y.
Proof. reflexivity. Qed.

Lemma sl_days_before_year_spec y : sl_days_before_year y = days_before_year y.
Proof. reflexivity. Qed.

(* ---------- _days_in_month, _days_before_month ---------- *)
Lemma sl_days_in_month_spec y m :
  sl_days_in_month y m = if (1 <=? m) && (m <=? 12) then Ok (dim y m) else Raise E_Exception.
Proof.
  unfold sl_days_in_month. destruct ((1 <=? m) && (m <=? 12)) eqn:Hm; [|reflexivity].
  rewrite sl_is_leap_spec. unfold dim.
  destruct (Z.eqb_spec m 2) as [->|Hne]; cbn [andb].
  - unfold dim_l. cbn [Z.eqb Pos.eqb]. destruct (is_leap y); reflexivity.
  - rewrite sl_dim_table by lia. unfold dim_l. replace (m =? 2) with false by lia. reflexivity.
Qed.

Lemma sl_days_in_month_ok y m : 1 <= m <= 12 -> sl_days_in_month y m = Ok (dim y m).
Proof. intros H. rewrite sl_days_in_month_spec. replace ((1 <=? m) && (m <=? 12)) with true by lia. reflexivity. Qed.

Lemma sl_days_before_month_spec y m :
  sl_days_before_month y m = if (1 <=? m) && (m <=? 12) then Ok (days_before_month y m) else Raise E_Exception.
Proof.
  unfold sl_days_before_month. destruct ((1 <=? m) && (m <=? 12)) eqn:Hm; [|reflexivity].
  rewrite sl_is_leap_spec, sl_dbm_table by lia. unfold days_before_month, dbm_l. f_equal.
  replace (m >? 2) with (2 <? m) by lia. destruct ((2 <? m) && is_leap y); reflexivity.
Qed.

Lemma sl_days_before_month_ok y m : 1 <= m <= 12 -> sl_days_before_month y m = Ok (days_before_month y m).
Proof. intros H. rewrite sl_days_before_month_spec. replace ((1 <=? m) && (m <=? 12)) with true by lia. reflexivity. Qed.

(* ---------- _ymd2ord: total characterisation ---------- *)
Lemma sl_ymd2ord_spec y m d :
  sl_ymd2ord y m d = if valid_dateb y m d then Ok (ymd2ord y m d) else Raise E_Exception.
Proof.
  unfold sl_ymd2ord, valid_dateb. destruct ((1 <=? m) && (m <=? 12)) eqn:Hm; [|reflexivity].
  rewrite sl_days_in_month_ok, sl_days_before_month_ok by lia. cbv zeta.
  rewrite sl_days_before_year_spec. cbn [andb]. unfold ymd2ord.
  destruct ((1 <=? d) && (d <=? dim y m)); reflexivity.
Qed.

Lemma sl_ymd2ord_ok y m d : valid_dateb y m d = true -> sl_ymd2ord y m d = Ok (ymd2ord y m d).
Proof. intros V. rewrite sl_ymd2ord_spec, V. reflexivity. Qed.

Lemma sl_ymd2ord_invalid y m d : valid_dateb y m d = false -> sl_ymd2ord y m d = Raise E_Exception.
Proof. intros V. rewrite sl_ymd2ord_spec, V. reflexivity. Qed.

Lemma valid_jan1 y : valid_dateb y 1 1 = true.
Proof. unfold valid_dateb, dim. destruct (is_leap y); reflexivity. Qed.

Lemma ymd2ord_jan1' y : ymd2ord y 1 1 = days_before_year y + 1.
Proof. unfold ymd2ord, days_before_month, dbm_l. cbn. destruct (is_leap y); cbn; lia. Qed.

(* ---------- _ord2ymd: every ordinal (also n <= 0: the algorithm and the specification are both total) ----------
   400-year periodicity of the translated function + finite reflection over one cycle of 146097 days. *)
Lemma sl_is_leap_shift y q : sl_is_leap (y + 400 * q) = sl_is_leap y.
Proof. rewrite !sl_is_leap_spec. apply is_leap_shift. Qed.
Lemma sl_days_in_month_shift y q m : sl_days_in_month (y + 400 * q) m = sl_days_in_month y m.
Proof. rewrite !sl_days_in_month_spec, dim_shift. reflexivity. Qed.

Lemma sl_ord2ymd_shift n q :
  sl_ord2ymd (n + 146097 * q) =
  match sl_ord2ymd n with Ok (y, m, d) => Ok (y + 400 * q, m, d) | Raise e => Raise e end.
Proof.
  unfold sl_ord2ymd. rewrite sl_DI400Y_val, sl_DI100Y_val, sl_DI4Y_val.
  replace (n + 146097 * q - 1) with ((n - 1) + q * 146097) by lia.
  cbv beta iota zeta.
  rewrite Z_div_plus, Z_mod_plus by lia.
  set (r := (n - 1) mod 146097). set (q0 := (n - 1) / 146097).
  match goal with |- context [sl_is_leap ((q0 + q) * 400 + 1 + ?t)] => set (T := t) end.
  replace ((q0 + q) * 400 + 1 + T) with (q0 * 400 + 1 + T + 400 * q) by lia.
  set (Y := q0 * 400 + 1 + T).
  rewrite sl_is_leap_shift.
  match goal with |- context [if ?c then _ else _] => destruct c end.
  { match goal with |- context [if ?c then _ else _] => destruct c end; [|reflexivity].
    cbv beta iota. replace (Y + 400 * q - 1) with (Y - 1 + 400 * q) by lia. reflexivity. }
  match goal with |- context [if ?c then _ else _] => destruct c end; [|reflexivity].
  match goal with |- context [if ?c then (_, _) else _] => destruct c end; cbv beta iota;
  rewrite sl_days_in_month_shift;
  (match goal with |- context [if ?c then _ else _] => destruct c end; [|reflexivity]);
  (match goal with |- context [match ?c with Ok _ => _ | Raise _ => _ end] => destruct c end; [|reflexivity]);
  (match goal with |- context [if ?c then _ else _] => destruct c end; reflexivity).
Qed.

Definition res3_eqb (a : result (Z * Z * Z)) (b : Z * Z * Z) : bool :=
  match a with
  | Ok (y, m, d) => let '(y', m', d') := b in (y =? y') && (m =? m') && (d =? d')
  | Raise _ => false
  end.
Lemma res3_eqb_true a b : res3_eqb a b = true -> a = Ok b.
Proof.
  destruct a as [[[y m] d]|e]; [|discriminate]. destruct b as [[y' m'] d']. cbn.
  intros H. apply andb_true_iff in H; destruct H as [H Hd]. apply andb_true_iff in H; destruct H as [Hy Hm].
  apply Z.eqb_eq in Hy, Hm, Hd. subst. reflexivity.
Qed.

(* one whole cycle: the translated stdlib function, asserts included, against the specification (evaluated once, at Qed) *)
Definition sl_cycle_ok (r : Z) : bool := res3_eqb (sl_ord2ymd (r + 1)) (ord2ymd_cycle r).
Lemma sl_cycle_all : forall_range sl_cycle_ok 0 146096 = true.
Proof. vm_cast_no_check (eq_refl true). Qed.

Theorem sl_ord2ymd_spec n : sl_ord2ymd n = Ok (ord2ymd n).
Proof.
  set (r := (n - 1) mod 146097). set (q := (n - 1) / 146097).
  assert (Hr : 0 <= r <= 146096) by (subst r; lia).
  assert (E : sl_ord2ymd n = sl_ord2ymd (r + 1 + 146097 * q)) by (f_equal; subst r q; lia).
  rewrite E, sl_ord2ymd_shift.
  pose proof (forall_range_spec _ _ _ sl_cycle_all r Hr) as H. unfold sl_cycle_ok in H.
  rewrite (res3_eqb_true _ _ H). unfold ord2ymd. fold r q.
  destruct (ord2ymd_cycle r) as [[y m] d]. do 3 f_equal. lia.
Qed.

(* the month estimate `(n + 50) >> 5` of _ord2ymd (n = day offset in the year, 0..365) stays inside 1..12, so the table lookups
   _DAYS_BEFORE_MONTH[month] / _DAYS_IN_MONTH[month - 1] cannot raise IndexError (which the tidx model would not show).
   NOTE: stated by hand about that expression, not extracted from the generated term. *)
Definition month_est_ok (k : Z) : bool := (1 <=? Z.shiftr (k + 50) 5) && (Z.shiftr (k + 50) 5 <=? 12).
Lemma month_est_all : forall_range month_est_ok 0 365 = true. Proof. vm_compute. reflexivity. Qed.
Lemma sl_ord2ymd_month_estimate_in_table k : 0 <= k <= 365 -> 1 <= Z.shiftr (k + 50) 5 <= 12.
Proof. intros H. pose proof (forall_range_spec _ _ _ month_est_all k H) as E. unfold month_est_ok in E. lia. Qed.

(* ---------- _isoweek1monday ---------- *)
Theorem sl_isoweek1monday_spec y : sl_isoweek1monday y = Ok (iso_week1_monday y).
Proof.
  unfold sl_isoweek1monday. rewrite (sl_ymd2ord_ok _ _ _ (valid_jan1 y)). cbv zeta. unfold iso_week1_monday. cbv zeta.
  replace ((ymd2ord y 1 1 + 6) mod 7 >? 3) with (3 <? (ymd2ord y 1 1 + 6) mod 7) by lia.
  destruct (3 <? (ymd2ord y 1 1 + 6) mod 7); reflexivity.
Qed.

(* ---------- date.toordinal / weekday / isoweekday / isocalendar (a date object = its slots) ---------- *)
Theorem sl_date_toordinal_spec y m d :
  sl_date_toordinal (mkdate y m d) = if valid_dateb y m d then Ok (ymd2ord y m d) else Raise E_Exception.
Proof. unfold sl_date_toordinal. cbn [d_year d_month d_day]. rewrite sl_ymd2ord_spec. destruct (valid_dateb y m d); reflexivity. Qed.

Theorem sl_date_weekday_spec y m d : valid_dateb y m d = true ->
  sl_date_weekday (mkdate y m d) = Ok (weekday0 (ymd2ord y m d)).
Proof. intros V. unfold sl_date_weekday. rewrite sl_date_toordinal_spec, V. reflexivity. Qed.

Theorem sl_date_isoweekday_spec y m d : valid_dateb y m d = true ->
  sl_date_isoweekday (mkdate y m d) = Ok (iso_weekday (ymd2ord y m d)).
Proof.
  intros V. unfold sl_date_isoweekday. rewrite sl_date_toordinal_spec, V. cbv zeta. unfold iso_weekday. f_equal.
  destruct (ymd2ord y m d mod 7 =? 0) eqn:E; lia.
Qed.

Theorem sl_date_isocalendar_spec y m d : valid_dateb y m d = true ->
  sl_date_isocalendar (mkdate y m d) = Ok (isocalendar y m d).
Proof.
  intros V. unfold sl_date_isocalendar. cbn [d_year d_month d_day].
  rewrite sl_isoweek1monday_spec, (sl_ymd2ord_ok _ _ _ V). cbv beta iota zeta.
  rewrite !sl_isoweek1monday_spec. cbv beta iota zeta. unfold isocalendar, sl_IsoCalendarDate. cbv zeta.
  set (today := ymd2ord y m d). set (w1 := iso_week1_monday y).
  destruct ((today - w1) / 7 <? 0); [reflexivity|].
  replace ((today - w1) / 7 >=? 52) with (52 <=? (today - w1) / 7) by lia.
  destruct (52 <=? (today - w1) / 7); cbn [andb]; [|reflexivity].
  replace (today >=? iso_week1_monday (y + 1)) with (iso_week1_monday (y + 1) <=? today) by lia.
  destruct (iso_week1_monday (y + 1) <=? today); reflexivity.
Qed.

(* ---------- _isoweek_to_gregorian (the arithmetic of date.fromisocalendar): total characterisation ---------- *)
Lemma iso_weeks_52_53' y : iso_weeks_in_year y = 52 \/ iso_weeks_in_year y = 53.
Proof.
  unfold iso_weeks_in_year, iso_week1_monday. rewrite !ymd2ord_jan1'.
  pose proof (days_before_year_succ y) as S. unfold days_in_year in S.
  cbv zeta. destruct (is_leap y); split_ifs; lia.
Qed.

(* the stdlib's test for a 53-week ISO year (starts on a Thursday, or on a Wednesday and is leap) *)
Lemma sl_long_year_test y :
  ((ymd2ord y 1 1 mod 7 =? 4) || ((ymd2ord y 1 1 mod 7 =? 3) && sl_is_leap y)) = (iso_weeks_in_year y =? 53).
Proof.
  rewrite sl_is_leap_spec. unfold iso_weeks_in_year, iso_week1_monday. rewrite !ymd2ord_jan1'.
  pose proof (days_before_year_succ y) as S. unfold days_in_year in S.
  cbv zeta. destruct (is_leap y); split_ifs; lia.
Qed.

Definition isoweek_args_ok (y w d : Z) : bool :=
  (1 <=? y) && (y <=? 9999) && (1 <=? w) && (w <=? iso_weeks_in_year y) && (1 <=? d) && (d <=? 7).

Theorem sl_isoweek_to_gregorian_spec y w d :
  sl_isoweek_to_gregorian y w d =
  if isoweek_args_ok y w d then Ok (ord2ymd (fromisocalendar_ord y w d)) else Raise E_ValueError.
Proof.
  unfold sl_isoweek_to_gregorian, isoweek_args_ok, sl_MINYEAR, sl_MAXYEAR.
  rewrite (sl_ymd2ord_ok _ _ _ (valid_jan1 y)), !sl_isoweek1monday_spec. cbv beta iota zeta.
  rewrite !sl_ord2ymd_spec, sl_long_year_test. unfold fromisocalendar_ord.
  replace (if iso_weeks_in_year y =? 53 then false else true) with (negb (iso_weeks_in_year y =? 53))
    by (destruct (iso_weeks_in_year y =? 53); reflexivity).
  pose proof (iso_weeks_52_53' y) as W. set (K := iso_weeks_in_year y) in *.
  replace (iso_week1_monday y + ((w - 1) * 7 + (d - 1))) with (iso_week1_monday y + (w - 1) * 7 + (d - 1)) by lia.
  set (R := Ok (ord2ymd (iso_week1_monday y + (w - 1) * 7 + (d - 1)))).
  destruct ((1 <=? y) && (y <=? 9999) && (1 <=? w) && (w <=? K) && (1 <=? d) && (d <=? 7)) eqn:C;
  split_ifs; try reflexivity; exfalso; lia.
Qed.

Theorem sl_isoweek_to_gregorian_ok y w d :
  1 <= y <= 9999 -> 1 <= w <= iso_weeks_in_year y -> 1 <= d <= 7 ->
  sl_isoweek_to_gregorian y w d = Ok (ord2ymd (fromisocalendar_ord y w d)).
Proof.
  intros Hy Hw Hd. rewrite sl_isoweek_to_gregorian_spec. unfold isoweek_args_ok.
  replace ((1 <=? y) && (y <=? 9999) && (1 <=? w) && (w <=? iso_weeks_in_year y) && (1 <=? d) && (d <=? 7)) with true by lia.
  reflexivity.
Qed.

(* ---------- _check_date_fields (what date.__new__ accepts) is the specification's notion of a valid date, years 1..9999 ---------- *)
Theorem sl_check_date_fields_spec y m d :
  sl_check_date_fields y m d =
  if (1 <=? y) && (y <=? 9999) && valid_dateb y m d then Ok (y, m, d) else Raise E_ValueError.
Proof.
  unfold sl_check_date_fields, sl_index, sl_MINYEAR, sl_MAXYEAR, valid_dateb. cbv zeta.
  rewrite sl_days_in_month_spec.
  destruct ((1 <=? y) && (y <=? 9999)); cbn [negb andb]; [|reflexivity].
  destruct ((1 <=? m) && (m <=? 12)); cbn [negb andb]; [|reflexivity].
  destruct (1 <=? d); cbn [negb andb]; [|reflexivity].
  destruct (d <=? dim y m); reflexivity.
Qed.

(* the hypotheses used above are satisfiable *)
Example sl_examples :
  valid_dateb 2024 2 29 = true /\ sl_ymd2ord 2024 2 29 = Ok 738945 /\ sl_ord2ymd 738945 = Ok (2024, 2, 29) /\
  sl_date_isocalendar (mkdate 2024 12 30) = Ok (2025, 1, 1) /\ sl_isoweek_to_gregorian 2020 53 7 = Ok (2021, 1, 3) /\
  sl_isoweek_to_gregorian 2021 53 1 = Raise E_ValueError /\ sl_ord2ymd 0 = Ok (0, 12, 31) /\
  sl_ymd2ord 2023 2 29 = Raise E_Exception.
Proof. vm_compute. repeat split; reflexivity. Qed.
