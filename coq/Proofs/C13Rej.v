(* Proofs/C13Rej.v — C13: fractional years/months are rejected by both parsers, whatever follows. *)
From Coq Require Import ZArith List Bool Lia Floats.SpecFloat.
From PV Require Import Lib.PyBase Gen.Constants Model.DurParse Model.DurSpec Proofs.C13Int Proofs.C13Py.
Import ListNotations.
Open Scope Z_scope.

Definition sepc (c : Z) : Prop := c = c_dot \/ c = c_comma.

Lemma sepc_is_sep c : sepc c -> is_sep c = true /\ is_digit c = false.
Proof. intros [->| ->]; split; reflexivity. Qed.

(* ---------------- compiled parser *)
Lemma rs_frac_loop_app fs : forall dec den r, forallb is_digit fs = true -> nodigit_head r ->
  exists dec' den', rs_frac_loop dec den (fs ++ r) = (dec', den', r).
Proof.
  induction fs as [|c fs IH]; intros dec den r Hd Hr.
  - exists dec, den. cbn [app]. destruct r as [|c r]; cbn [rs_frac_loop]; [reflexivity|]. cbn in Hr. rewrite Hr. reflexivity.
  - cbn [forallb] in Hd. apply andb_true_iff in Hd. destruct Hd as [Hc Hd]. cbn [app rs_frac_loop]. rewrite Hc.
    apply IH; assumption.
Qed.

Lemma rs_number_frac_frac ds sep fs c r : digits ds -> sepc sep -> digits fs -> is_digit c = false ->
  exists fr, rs_number_frac (ds ++ sep :: fs ++ c :: r) = Ok (u32 (dval ds), Some fr, c :: r).
Proof.
  intros Hd Hs [_ Hf] Hc. destruct (sepc_is_sep sep Hs) as [Hs1 Hs2]. unfold rs_number_frac.
  rewrite (rs_number_app ds (sep :: fs ++ c :: r) Hd Hs2). cbn [bind]. rewrite Hs1.
  destruct (rs_frac_loop_app fs f_zero f_one (c :: r) Hf Hc) as [dec [den E]]. rewrite E.
  eexists. reflexivity.
Qed.

Lemma rs_frac_ym ds sep fs c r : digits ds -> sepc sep -> digits fs -> c = c_Y \/ c = c_M ->
  rs_dur (c_P :: ds ++ sep :: fs ++ c :: r) = Raise E_ValueError.
Proof.
  intros Hd Hs Hf Hc. unfold rs_dur, rs_raw. replace (c_P =? c_P) with true by reflexivity.
  assert (Hcd : is_digit c = false) by (destruct Hc as [->| ->]; reflexivity).
  destruct (digits_head_not_T ds (sep :: fs ++ c :: r) Hd) as [c0 [l [E HT]]].
  cbn [rs_loop]. rewrite E. rewrite HT. rewrite <- E.
  destruct (rs_number_frac_frac ds sep fs c r Hd Hs Hf Hcd) as [fr Efr]. rewrite Efr.
  cbn [bind]. destruct Hc as [->| ->]; reflexivity.
Qed.

(* ---------------- pure Python *)
Lemma scan_num_frac ds sep fs c r : digits ds -> sepc sep -> digits fs -> is_digit c = false ->
  scan_num (ds ++ sep :: fs ++ c :: r) = Some (ds, Some fs, c :: r).
Proof.
  intros [Hne Hd] Hs [Hfne Hf] Hc. destruct (sepc_is_sep sep Hs) as [Hs1 Hs2]. unfold scan_num.
  rewrite (span_digits_app ds (sep :: fs ++ c :: r) Hd Hs2).
  destruct ds; [congruence|]. cbn [is_nil]. rewrite Hs1.
  rewrite (span_digits_app fs (c :: r) Hf Hc). destruct fs; [congruence|]. reflexivity.
Qed.

Lemma try_tok_frac x n ds sep fs c r : digits ds -> sepc sep -> digits fs -> is_digit c = false ->
  try_tok x n (ds ++ sep :: fs ++ c :: r) =
  if c =? x then (Some (mk_tok ds (Some fs) (n - Z.of_nat (length (ds ++ sep :: fs ++ c :: r)))), r)
  else (None, ds ++ sep :: fs ++ c :: r).
Proof. intros. unfold try_tok. rewrite scan_num_frac by assumption. reflexivity. Qed.

(* whatever the rest of the match is, the weeks/years/months groups are what the first three tries return *)
Lemma match_duration_groups l0 m : match_duration (c_P :: l0) = Some m ->
  let n := Z.of_nat (length (c_P :: l0)) in
  let '(w, l1) := try_tok c_W n l0 in
  let '(y, l2) := try_tok c_Y n l1 in
  let '(mo, _) := try_tok c_M n l2 in
  g_weeks m = w /\ g_years m = y /\ g_months m = mo.
Proof.
  unfold match_duration. replace (c_P =? c_P) with true by reflexivity. cbv zeta.
  destruct (try_tok c_W _ l0) as [w l1]. destruct (try_tok c_Y _ l1) as [y l2].
  destruct (try_tok c_M _ l2) as [mo l3]. destruct (try_tok c_D _ l3) as [dd l4].
  destruct (match l4 with [] => _ | ct :: l5 => _ end) as [[[[hms h] mi] se] l8].
  destruct l8 as [|e [|e2 l9]]; [| destruct (e =? c_nl) |]; intros E; inversion E; subst; cbn; auto.
Qed.

Lemma py_args_frac_years m t : g_weeks m = None -> g_years m = Some t -> t_frac t <> None -> py_args m = Raise E_ValueError.
Proof.
  intros Hw Hy Hf. unfold py_args. rewrite Hw, Hy. cbn [bind is_some orb].
  destruct (negb _); [reflexivity|]. destruct (t_frac t); [reflexivity|congruence].
Qed.

Lemma py_args_frac_months m t : g_weeks m = None -> g_years m = None -> g_months m = Some t -> t_frac t <> None ->
  py_args m = Raise E_ValueError.
Proof.
  intros Hw Hy Hmo Hf. unfold py_args. rewrite Hw, Hy, Hmo. cbn [bind is_some orb].
  destruct (negb _); [reflexivity|]. cbn [bind]. destruct (t_frac t); [reflexivity|congruence].
Qed.

Lemma py_frac_ym ds sep fs c r : digits ds -> sepc sep -> digits fs -> c = c_Y \/ c = c_M ->
  py_dur (c_P :: ds ++ sep :: fs ++ c :: r) = Raise E_ValueError.
Proof.
  intros Hd Hs Hf Hc. unfold py_dur, py_native.
  assert (Hcd : is_digit c = false) by (destruct Hc as [->| ->]; reflexivity).
  destruct (match_duration (c_P :: ds ++ sep :: fs ++ c :: r)) as [m|] eqn:E; [|reflexivity].
  apply match_duration_groups in E. cbv zeta in E.
  rewrite (try_tok_frac c_W _ ds sep fs c r Hd Hs Hf Hcd) in E.
  destruct Hc as [->| ->].
  - replace (c_Y =? c_W) with false in E by reflexivity.
    rewrite (try_tok_frac c_Y _ ds sep fs c_Y r Hd Hs Hf Hcd) in E. replace (c_Y =? c_Y) with true in E by reflexivity.
    destruct (try_tok c_M _ r) as [mo l3]. destruct E as [Ew [Ey _]].
    rewrite (py_args_frac_years m _ Ew Ey); [reflexivity|cbn; discriminate].
  - replace (c_M =? c_W) with false in E by reflexivity.
    rewrite (try_tok_frac c_Y _ ds sep fs c_M r Hd Hs Hf Hcd) in E. replace (c_M =? c_Y) with false in E by reflexivity.
    rewrite (try_tok_frac c_M _ ds sep fs c_M r Hd Hs Hf Hcd) in E. replace (c_M =? c_M) with true in E by reflexivity.
    destruct E as [Ew [Ey Emo]].
    rewrite (py_args_frac_months m _ Ew Ey Emo); [reflexivity|cbn; discriminate].
Qed.

(* ------------------------------------------------------------------ one fraction digit (finite check in the kernel) *)
(* text  P[T]<ip><sep><dg><unit>  ; the exact value is (ip + dg/10) * unit_secs seconds *)
Definition one_digit_text (time : bool) (ip : list Z) (sep dg unit : Z) : list Z :=
  c_P :: (if time then [c_T] else []) ++ ip ++ [sep; dg; unit].

Definition one_digit_ok (parse : list Z -> result durobs) (time : bool) (unit unit_secs : Z) (ip : list Z) : bool :=
  forallb (fun sep => forallb (fun dg =>
    match parse (one_digit_text time ip sep dg unit) with
    | Ok (y, mo, d, s, u) =>
        (y =? 0) && (mo =? 0) &&
        nearestb (obs_us (y, mo, d, s, u)) ((dval ip * unit_secs * 10 + unit_secs * (dg - 48)) * 1000000) 10
    | Raise _ => false
    end) [48; 49; 50; 51; 52; 53; 54; 55; 56; 57]) [c_dot; c_comma].

Definition ips : list (list Z) := [[48]; [49]; [55]; [49; 50]; [57; 57; 57]; [49; 50; 51; 52; 53]; [48; 48; 52; 50]].

Lemma one_digit_py : forallb (fun ip =>
    one_digit_ok py_dur false c_D 86400 ip && one_digit_ok py_dur true c_H 3600 ip &&
    one_digit_ok py_dur true c_M 60 ip && one_digit_ok py_dur true c_S 1 ip) ips = true.
Proof. vm_compute. reflexivity. Qed.

Lemma one_digit_rs : forallb (fun ip =>
    one_digit_ok rs_dur false c_D 86400 ip && one_digit_ok rs_dur true c_H 3600 ip &&
    one_digit_ok rs_dur true c_M 60 ip && one_digit_ok rs_dur true c_S 1 ip && one_digit_ok rs_dur false c_W 604800 ip) ips = true.
Proof. vm_compute. reflexivity. Qed.

(* and for weeks the pure-Python parser is wrong already with one digit, for each of these integer parts *)
Lemma one_digit_py_weeks_wrong : forallb (fun ip => negb (one_digit_ok py_dur false c_W 604800 ip)) ips = true.
Proof. vm_compute. reflexivity. Qed.
