(* Proofs/FloatRoutesFacts.v — the float routes of C03 (`dt +/- timedelta`) and C01 (`from_timestamp(<float>)`, `timestamp()`), Model/FloatRoutes.v.
   This file is pure integer / structural reasoning (no real numbers): every theorem here takes the exactness of the float computation
   as an EXPLICIT premise
       float_chain_exact      : forall N, |N| < 2^33*10^6 -> float_route_us (total_seconds N) = Ok N
       utcfromtimestamp_exact : forall N, |N| < 2^33*10^6 -> utcfromtimestamp_float_us (total_seconds N) = Ok N
   Both premises are PROVED with Flocq in Proofs/FloatRoutesFlocq.v (and instantiated there); here they are also evaluated by the kernel
   on boundary families, and the behaviour beyond 2^33 s is recorded by vm_compute witnesses. *)
From Coq Require Import ZArith List Bool Lia ZifyBool.
From Coq Require Import Floats.SpecFloat.
From PV Require Import Lib.PyBase Spec.Cal Spec.Zone Spec.NativeDT Spec.TdFloat Proofs.CalFacts Proofs.ZoneFacts Proofs.AddDurationFacts
                       Proofs.TdFloatFacts Proofs.C01Facts Proofs.C03Facts.
From PV Require Import Gen.Constants Gen.Helpers Gen.AddDuration Model.TzConvert Model.FloatRoutes.
Import ListNotations.
Ltac Zify.zify_post_hook ::= Z.to_euclidean_division_equations.
Open Scope Z_scope.

Definition B33us : Z := 2 ^ 33 * 10 ^ 6.

Definition float_chain_exact : Prop :=
  forall N, Z.abs N < B33us -> float_route_us (total_seconds N) = Ok N.
Definition utcfromtimestamp_exact : Prop :=
  forall N, Z.abs N < B33us -> utcfromtimestamp_float_us (total_seconds N) = Ok N.

(* ------------------------------------------------------------------ add_duration(dt, seconds=<float>): structure *)
Lemma td_of_mixed_in_range d h mi s T : td_of_mixed d h mi s = Ok T -> td_in_range T = true.
Proof.
  unfold td_of_mixed.
  destruct (accum (0, S754_zero false) (PInt 0) 1) as [st0|]; cbn [bind]; [|discriminate].
  destruct (accum st0 s 1000000) as [st1|]; cbn [bind]; [|discriminate].
  destruct (accum st1 mi 60000000) as [st2|]; cbn [bind]; [|discriminate].
  destruct (accum st2 h 3600000000) as [st3|]; cbn [bind]; [|discriminate].
  destruct (accum st3 d 86400000000) as [st4|]; cbn [bind]; [|discriminate].
  destruct (td_in_range (td_finish st4)) eqn:E; [|discriminate].
  intro H. inversion H. subst. exact E.
Qed.

(* years = months = 0: replace(year, month, day) with the re-clamped day is the identity on a representable datetime *)
Lemma replace_same U : wall_in_range U = true ->
  let d := mkndt U true in
  ndt_replace_ymd d (ndt_year d) (ndt_month d)
    (Z.min (tidx (tidx2 C_DAYS_PER_MONTHS (Z.b2z (py_is_leap (ndt_year d)))) (ndt_month d)) (ndt_day d)) = Ok d.
Proof.
  intros Hr d. destruct (fields_in_range U Hr) as [Hy [Hv Hw]]. cbv zeta in Hy, Hv, Hw. fold d in Hy, Hv, Hw.
  pose proof (proj1 (valid_dateb_true _ _ _) Hv) as [Hm Hd].
  rewrite days_per_months_dim by lia. rewrite Z.min_r by lia.
  unfold ndt_replace_ymd. rewrite Hv.
  replace ((1 <=? ndt_year d) && (ndt_year d <=? 9999)) with true by lia. cbn [andb].
  rewrite Hw. reflexivity.
Qed.

Lemma add_duration_float_ok U x T : wall_in_range U = true -> float_route_us x = Ok T ->
  add_duration_float (mkndt U true) x = if wall_in_range (U + T) then Ok (mkndt (U + T) true) else Raise E_OverflowError.
Proof.
  intros Hr HT. unfold float_route_us in HT. unfold add_duration_float.
  destruct (float_carry (PFlt x)) as [[[[dd h] mi] s]|]; cbn [bind] in *; [|discriminate].
  rewrite (replace_same U Hr). cbn [bind]. rewrite HT. cbn [bind].
  pose proof (td_of_mixed_in_range _ _ _ _ _ HT) as R.
  unfold td_in_range, US_PER_DAY, TD_MAX_DAYS in R.
  unfold ndt_add_td, td_total_us. cbn [n_isdt n_wall].
  replace ((((0 * 24 + 0) * 60 + 0) * 60 + 0) * 1000000 + T) with T by ring.
  unfold us_per_day.
  destruct ((T / 86400000000 <? -999999999) || (999999999 <? T / 86400000000)) eqn:E; [lia|]. reflexivity.
Qed.

Lemma add_duration_float_raise U x e : wall_in_range U = true -> float_route_us x = Raise e ->
  add_duration_float (mkndt U true) x = Raise e.
Proof.
  intros Hr HT. unfold float_route_us in HT. unfold add_duration_float.
  destruct (float_carry (PFlt x)) as [[[[dd h] mi] s]|]; cbn [bind] in *; [|congruence].
  rewrite (replace_same U Hr). cbn [bind]. rewrite HT. reflexivity.
Qed.

(* the integer route add(microseconds=N) on the same structure *)
Lemma small_td_limits N : Z.abs N < B33us -> -999999999 <= td_total_us 0 0 0 0 N / us_per_day <= 999999999.
Proof. unfold B33us, td_total_us, us_per_day. change (2 ^ 33 * 10 ^ 6) with 8589934592000000. lia. Qed.

Lemma td_total_us_only_us N : td_total_us 0 0 0 0 N = N.
Proof. unfold td_total_us. ring. Qed.

(* ------------------------------------------------------------------ C03 theorems, given the exactness of the float chain *)
Section C03Float.
Hypothesis Hchain : float_chain_exact.

Lemma chain_opp N : Z.abs N < B33us -> float_route_us (fopp (total_seconds N)) = Ok (- N).
Proof.
  intros HN. destruct (Z.eq_dec N 0) as [->|Nz]; [vm_compute; reflexivity|].
  rewrite <- total_seconds_opp by exact Nz. apply Hchain. lia.
Qed.

(* dt + timedelta(microseconds=N) IS add(microseconds=N): same result, same exceptions *)
Lemma add_timedelta_eq_add_fixed z W f N : Z.abs N < B33us -> add_timedelta z W f N = add_fixed z W f 0 0 0 N.
Proof.
  intros HN. unfold add_timedelta, add_seconds_float, add_fixed.
  destruct (wall_in_range (inst z W f)) eqn:Er; cbn [negb]; [|reflexivity].
  rewrite (add_duration_float_ok _ _ N Er (Hchain N HN)).
  rewrite (add_duration_fixed _ 0 0 0 N Er (small_td_limits N HN)). cbv zeta. rewrite td_total_us_only_us. reflexivity.
Qed.

Lemma sub_timedelta_eq_add_fixed z W f N : Z.abs N < B33us -> sub_timedelta z W f N = add_fixed z W f 0 0 0 (- N).
Proof.
  intros HN. unfold sub_timedelta, add_seconds_float, add_fixed.
  destruct (wall_in_range (inst z W f)) eqn:Er; cbn [negb]; [|reflexivity].
  rewrite (add_duration_float_ok _ _ (- N) Er (chain_opp N HN)).
  rewrite (add_duration_fixed _ 0 0 0 (- N) Er (small_td_limits (- N) ltac:(lia))). cbv zeta. rewrite td_total_us_only_us. reflexivity.
Qed.

Lemma add_timedelta_spec z : wf_zone z = true -> forall W f N W' f', Z.abs N < B33us ->
  add_timedelta z W f N = Ok (W', f') ->
  (W', f') = render z (inst z W f + N) /\ inst z W' f' = inst z W f + N.
Proof.
  intros Hwf W f N W' f' HN H. rewrite (add_timedelta_eq_add_fixed z W f N HN) in H.
  pose proof (add_fixed_spec z Hwf W f 0 0 0 N W' f' (small_td_limits N HN) H) as K. cbv zeta in K.
  rewrite td_total_us_only_us in K. exact K.
Qed.

Lemma sub_timedelta_spec z : wf_zone z = true -> forall W f N W' f', Z.abs N < B33us ->
  sub_timedelta z W f N = Ok (W', f') ->
  (W', f') = render z (inst z W f - N) /\ inst z W' f' = inst z W f - N.
Proof.
  intros Hwf W f N W' f' HN H. rewrite (sub_timedelta_eq_add_fixed z W f N HN) in H.
  pose proof (add_fixed_spec z Hwf W f 0 0 0 (- N) W' f' (small_td_limits (- N) ltac:(lia)) H) as K. cbv zeta in K.
  rewrite td_total_us_only_us in K. replace (inst z W f + - N) with (inst z W f - N) in K by ring. exact K.
Qed.

(* (dt + td) - td returns to the rendering of the original instant *)
Lemma sub_undoes_add_timedelta z : wf_zone z = true -> forall W f N W' f', Z.abs N < B33us ->
  wall_in_range (fst (render z (inst z W f))) = true ->
  add_timedelta z W f N = Ok (W', f') -> sub_timedelta z W' f' N = Ok (render z (inst z W f)).
Proof.
  intros Hwf W f N W' f' HN Hr H.
  rewrite (add_timedelta_eq_add_fixed z W f N HN) in H. rewrite (sub_timedelta_eq_add_fixed z W' f' N HN).
  pose proof (sub_undoes_add z Hwf W f 0 0 0 N W' f') as K. cbv zeta in K. rewrite td_total_us_only_us in K.
  change (- 0) with 0 in K. apply K; try assumption.
  - pose proof (small_td_limits N HN) as L. rewrite td_total_us_only_us in L. exact L.
  - pose proof (small_td_limits (- N) ltac:(lia)) as L. rewrite td_total_us_only_us in L. exact L.
Qed.

(* a naive DateTime is shifted on its own clock *)
Lemma add_timedelta_naive_spec W f N : wall_in_range W = true -> Z.abs N < B33us ->
  add_timedelta_naive W f N = if wall_in_range (W + N) then Ok (W + N, true) else Raise E_OverflowError.
Proof.
  intros Hr HN. unfold add_timedelta_naive, add_seconds_float_naive.
  rewrite (add_duration_float_ok _ _ N Hr (Hchain N HN)). destruct (wall_in_range (W + N)); reflexivity.
Qed.

Lemma sub_timedelta_naive_spec W f N : wall_in_range W = true -> Z.abs N < B33us ->
  sub_timedelta_naive W f N = if wall_in_range (W - N) then Ok (W - N, true) else Raise E_OverflowError.
Proof.
  intros Hr HN. unfold sub_timedelta_naive, add_seconds_float_naive.
  rewrite (add_duration_float_ok _ _ (- N) Hr (chain_opp N HN)). replace (W + - N) with (W - N) by ring.
  destruct (wall_in_range (W - N)); reflexivity.
Qed.
End C03Float.

(* the hypotheses are satisfiable: Europe/Paris-like window, 2013-03-31T00:59:59.999999 UTC + 1 us crosses the spring-forward transition *)
Example add_timedelta_example :
  let z := mkzone 3600 [(63500286000, 7200); (63518432400, 3600)] in
  wf_zone z = true /\ add_timedelta z (63500289599999999) false 1 = Ok (63500293200000000, false)
  /\ sub_timedelta z 63500293200000000 false 1 = Ok (63500289599999999, false).
Proof. vm_compute. repeat split. Qed.

(* ------------------------------------------------------------------ beyond 2^33 s: the route is NOT exact (known finding of C03) *)
Definition W_2000 : Z := 63082281600 * MEG.   (* 2000-01-01T00:00:00 *)
Lemma add_timedelta_beyond_refuted :
  let z := fixed_zone 0 in let N := 8589934592000001 in
  exists W' f', wf_zone z = true /\ Z.abs N >= B33us /\ add_timedelta z W_2000 false N = Ok (W', f') /\
    inst z W' f' = inst z W_2000 false + N + 1 /\ add_fixed z W_2000 false 0 0 0 N = Ok (W_2000 + N, false).
Proof. cbv zeta. eexists. eexists. vm_compute. repeat split; discriminate. Qed.

Lemma sub_timedelta_beyond_refuted :
  let z := fixed_zone 0 in let N := - 17179869184000001 in
  exists W' f', wf_zone z = true /\ sub_timedelta z W_2000 false N = Ok (W', f') /\ inst z W' f' = inst z W_2000 false - N - 1.
Proof. cbv zeta. eexists. eexists. vm_compute. repeat split. Qed.

(* ------------------------------------------------------------------ kernel evaluation of the float chain on boundary families *)
Definition route_exactb (N : Z) : bool := match float_route_us (total_seconds N) with Ok M => M =? N | Raise _ => false end.
Definition ts_exactb (N : Z) : bool := match utcfromtimestamp_float_us (total_seconds N) with Ok M => M =? N | Raise _ => false end.

Definition js : list Z := [0; 1; -1; 2; -2; 3; 499999; 500000; 500001; -500000; 999999; -999999].
Definition pow2_family : list Z :=
  flat_map (fun k => flat_map (fun j => let n := 2 ^ (Z.of_nat k) * 1000000 + j in [n; - n]) js) (seq 0 34).
Definition carry_family : list Z :=
  flat_map (fun s => flat_map (fun j => let n := s * 1000000 + j in [n; - n]) js)
    [58; 59; 60; 61; 119; 120; 3540; 3599; 3600; 3601; 3659; 3660; 7199; 7200; 82800; 86339; 86340; 86399; 86400; 86401; 86459; 86460;
     89999; 90000; 172799; 172800; 31535999; 31536000; 8589934591].
Definition boundary_family : list Z := filter (fun n => Z.abs n <? B33us) (pow2_family ++ carry_family).

Lemma boundary_family_size : (length boundary_family >= 1400)%nat.
Proof. vm_compute. lia. Qed.

Lemma float_chain_exact_on_boundary_family : forallb route_exactb boundary_family = true.
Proof. vm_compute. reflexivity. Qed.

Lemma utcfromtimestamp_exact_on_boundary_family : forallb ts_exactb boundary_family = true.
Proof. vm_compute. reflexivity. Qed.

(* the first failures: 2^33 s + 1 us *)
Lemma float_chain_not_exact_at_2_33 : route_exactb (B33us + 1) = false /\ ts_exactb (B33us + 1) = false.
Proof. vm_compute. split; reflexivity. Qed.

(* ------------------------------------------------------------------ C01 theorems, given the exactness of utcfromtimestamp on total_seconds *)
Section C01Float.
Hypothesis Hts : utcfromtimestamp_exact.

(* from_timestamp(total_seconds N) is from_timestamp at the instant EPOCH + N us: same result, same exceptions *)
Lemma from_timestamp_float_unfold z b N : Z.abs N < B33us ->
  from_timestamp_float z b (total_seconds N) =
  (let U := EPOCH_US + N in if negb (wall_in_range U) then Raise E_ValueError else in_tz b (fixed_zone 0) z U true).
Proof. intros HN. unfold from_timestamp_float. rewrite (Hts N HN). reflexivity. Qed.

(* ... in particular it agrees with the integer route on whole seconds *)
Lemma from_timestamp_float_whole z b n : Z.abs (n * MEG) < B33us ->
  from_timestamp_float z b (total_seconds (n * MEG)) = from_timestamp_int z b n.
Proof. intros HN. rewrite from_timestamp_float_unfold by exact HN. reflexivity. Qed.

Lemma timestamp_inverts_from_timestamp z N W f : wf_zone z = true -> Z.abs N < B33us ->
  from_timestamp_float z false (total_seconds N) = Ok (W, f) ->
  (W, f) = render z (EPOCH_US + N) /\ inst z W f = EPOCH_US + N /\ timestamp_float z W f = total_seconds N.
Proof.
  intros Hwf HN H. rewrite from_timestamp_float_unfold in H by exact HN. cbv zeta in H.
  destruct (wall_in_range (EPOCH_US + N)) eqn:E; cbn [negb] in H; [|discriminate].
  unfold in_tz in H. destruct (astz_ok _ _ _ _ _ _ H) as [E1 _].
  destruct (in_tz_spec _ _ _ _ _ _ Hwf H) as [Hi _].
  assert (I0 : inst (fixed_zone 0) (EPOCH_US + N) true = EPOCH_US + N).
  { unfold inst. rewrite fixed_zone_local. unfold MEG. lia. }
  rewrite I0 in *. split; [exact E1|]. split; [exact Hi|].
  unfold timestamp_float. rewrite Hi. f_equal. ring.
Qed.

(* tz given as the UTC object itself: no conversion *)
Lemma timestamp_inverts_from_timestamp_utc N W f : Z.abs N < B33us ->
  from_timestamp_float (fixed_zone 0) true (total_seconds N) = Ok (W, f) ->
  W = EPOCH_US + N /\ timestamp_float (fixed_zone 0) W f = total_seconds N.
Proof.
  intros HN H. rewrite from_timestamp_float_unfold in H by exact HN. cbv zeta in H.
  destruct (wall_in_range (EPOCH_US + N)) eqn:E; cbn [negb] in H; [|discriminate].
  unfold in_tz in H. assert (W = EPOCH_US + N) by congruence. subst W. split; [reflexivity|].
  unfold timestamp_float, inst. rewrite fixed_zone_local. f_equal. unfold MEG. lia.
Qed.
End C01Float.

(* satisfiable: 2013-03-31T01:00:00.000001 UTC in a Paris-like window *)
Example from_timestamp_float_example :
  let z := mkzone 3600 [(63500286000, 7200); (63518432400, 3600)] in
  wf_zone z = true /\ from_timestamp_float z false (total_seconds 1364691600000001) = Ok (63500295600000001, false)
  /\ timestamp_float z 63500295600000001 false = total_seconds 1364691600000001.
Proof. vm_compute. repeat split. Qed.

(* ------------------------------------------------------------------ beyond 2^33 s (year 2242 ..): what remains true *)
(* the double total_seconds N no longer determines N: from_timestamp returns the microsecond nearest to the double (here N + 1),
   and timestamp() of THAT DateTime is the same double again: timestamp() still inverts from_timestamp(), the instant is not N. *)
Lemma from_timestamp_float_beyond_refuted :
  let z := fixed_zone 0 in let N := 8589934592000001 in
  exists W f, Z.abs N >= B33us /\ from_timestamp_float z false (total_seconds N) = Ok (W, f) /\
    inst z W f = EPOCH_US + N + 1 /\ inst z W f <> EPOCH_US + N /\
    timestamp_float z W f = total_seconds N /\ total_seconds (N + 1) = total_seconds N.
Proof.
  cbv zeta. exists (EPOCH_US + 8589934592000001 + 1), false.
  split; [vm_compute; discriminate|]. split; [vm_compute; reflexivity|]. split; [vm_compute; reflexivity|].
  split; [vm_compute; discriminate|]. split; vm_compute; reflexivity.
Qed.

(* kernel evaluation up to the year-9999 limit: timestamp(from_timestamp(total_seconds N)) = total_seconds N, and the instant is within 64 us *)
Definition ts_invertb (N : Z) : bool :=
  match from_timestamp_float (fixed_zone 0) false (total_seconds N) with
  | Ok (W, f) => feq (timestamp_float (fixed_zone 0) W f) (total_seconds N) && (Z.abs (inst (fixed_zone 0) W f - EPOCH_US - N) <=? 64)
  | Raise _ => false
  end.
Definition beyond_family : list Z :=
  flat_map (fun k => flat_map (fun j => let n := 2 ^ (Z.of_nat k) * 1000000 + j in if n <? 253402300799000000 then [n] else []) js) (seq 33 5)
  ++ flat_map (fun k => flat_map (fun j => let n := - (2 ^ (Z.of_nat k) * 1000000 + j) in if -62135596800000000 <? n then [n] else []) js) (seq 33 3)
  ++ [253402300799999900; 253402300799999984; 253402300000000001; 100000000000000001; -62135596799999999; -62135596799999998; -62135000000000001].
(* the last 15 microseconds of year 9999: total_seconds rounds UP to 253402300800.0 = year 10000, from_timestamp raises *)
Lemma from_timestamp_float_last_microseconds_raise :
  from_timestamp_float (fixed_zone 0) false (total_seconds 253402300799999999) = Raise E_ValueError /\
  from_timestamp_float (fixed_zone 0) false (total_seconds 253402300799999985) = Raise E_ValueError /\
  total_seconds 253402300799999985 = total_seconds 253402300800000000.
Proof. vm_compute. repeat split. Qed.

Lemma timestamp_inverts_beyond_on_family : forallb ts_invertb beyond_family = true /\ (length beyond_family >= 100)%nat.
Proof. vm_compute. split; [reflexivity | lia]. Qed.
