(* Proofs/C08Match.v — C08: the regex MATCHING step of from_format, which Props/C08.v from_format_inverts_format_partial carried as
   a hypothesis, discharged for every DateTime by shape invariance of the matcher `mre` (Proofs/MreShape.v): the pattern that the model
   assembles for "YYYY-MM-DD HH:mm:ss.SSSSSS Z" / "... ZZ" cannot tell digits apart (`iso_re_digits_alike`, by computation), every
   rendering has the shape of one of 4 representatives (colon or not, sign), on which the anchored search and the re.sub pass are
   computed once; the groups of the actual rendering are the substrings at the same spans. *)
From Coq Require Import ZArith List Bool Lia ZifyBool.
From PV Require Import Lib.PyBase Spec.Cal Model.FormatterBase Gen.FormatterTables Gen.LocaleTables Model.Formatter Model.FormatterParse.
From PV Require Import Proofs.C08Decimal Proofs.C08Facts Proofs.MreShape.
Import ListNotations.
Ltac Zify.zify_post_hook ::= Z.to_euclidean_division_equations.
Open Scope Z_scope.

(* the pattern that from_format assembles for "YYYY-MM-DD HH:mm:ss.SSSSSS Z" / "... ZZ" (locale en), computed by the model *)
Definition iso_re (colon : bool) : re :=
  match parse_pattern loc_en (iso_fmt colon) with Ok (_, r) => r | Raise _ => Eps end.
Lemma iso_re_pattern colon : parse_pattern loc_en (iso_fmt colon) = Ok (iso_names colon, iso_re colon).
Proof. destruct colon; vm_compute; reflexivity. Qed.

(* every character test of the assembled pattern (and the newline test of `$`) answers alike on the ten digits *)
Lemma iso_re_digits_alike colon : forallb (fun d => simnl (iso_re colon) 48 d) [48; 49; 50; 51; 52; 53; 54; 55; 56; 57] = true.
Proof. destruct colon; vm_compute; reflexivity. Qed.

Lemma iso_sim_digit colon d : 48 <= d <= 57 -> simR (iso_re colon) 48 d.
Proof.
  intros H. pose proof (iso_re_digits_alike colon) as A. rewrite forallb_forall in A. apply A. cbn [In].
  assert (d = 48 \/ d = 49 \/ d = 50 \/ d = 51 \/ d = 52 \/ d = 53 \/ d = 54 \/ d = 55 \/ d = 56 \/ d = 57) by lia. intuition.
Qed.
Lemma iso_sim_refl colon c : simR (iso_re colon) c c.
Proof. apply simnl_refl. Qed.

(* the representative of the rendering: every digit 0 *)
Definition iso_rep (colon : bool) (sg : Z) : str :=
  [48; 48; 48; 48; 45; 48; 48; 45; 48; 48; 32; 48; 48; 58; 48; 48; 58; 48; 48; 46; 48; 48; 48; 48; 48; 48; 32; sg; 48; 48]
  ++ (if colon then [58] else []) ++ [48; 48].

Lemma iso_rep_search colon sg : sg = 43 \/ sg = 45 -> search_anchored (iso_re colon) (iso_rep colon sg) = true.
Proof. intros [-> | ->]; destruct colon; vm_compute; reflexivity. Qed.

(* a zero-padded field of known width is a list of that many digits *)
Lemma field_digits (w : nat) n : (1 <= w)%nat -> 0 <= n < 10 ^ Z.of_nat w ->
  all_digits (render_0wd (Z.of_nat w) n) /\ length (render_0wd (Z.of_nat w) n) = w.
Proof. intros Hw Hn. split; [apply render_0wd_digits; lia|apply render_0wd_length; assumption]. Qed.

Definition dt_widths (t : pdt) : Prop :=
  t_month t < 100 /\ t_day t < 100 /\ t_hour t < 100 /\ t_minute t < 100 /\ t_second t < 100 /\ t_micro t < 1000000.

Ltac explode_list v D L :=
  repeat (destruct v as [|? v]; [discriminate L|]; apply Forall_cons_iff in D; destruct D as [? D]);
  destruct v; [|discriminate L]; clear L D.
Ltac explode F :=
  match type of F with
  | all_digits ?l /\ length ?l = _ =>
    let v := fresh "v" in set (v := l) in *; clearbody v;
    let D := fresh "D" in let L := fresh "L" in destruct F as [D L]; unfold all_digits in D; explode_list v D L
  end.

Section IsoMatch.
  Variables (colon : bool) (t : pdt).
  Hypothesis Hrange : dt_in_range t.
  Hypothesis Hyear : 1000 <= t_year t <= 9999.
  Hypothesis Hw : dt_widths t.

  Lemma iso_render_matches :
    search_anchored (iso_re colon) (iso_render colon t) = true /\
    sub_matches (S (length (iso_render colon t))) (iso_re colon) (iso_render colon t) = Some [iso_caps colon t].
  Proof.
    destruct Hrange as (Hy & Hm & Hd & Hh & Hmi & Hs & Hus & Htz & Hom & Hob).
    destruct Hw as (Wm & Wd & Wh & Wmi & Ws & Wus).
    pose proof (field_digits 4 (t_year t) ltac:(lia) ltac:(cbn; lia)) as FY.
    pose proof (field_digits 2 (t_month t) ltac:(lia) ltac:(cbn; lia)) as FM.
    pose proof (field_digits 2 (t_day t) ltac:(lia) ltac:(cbn; lia)) as FD.
    pose proof (field_digits 2 (t_hour t) ltac:(lia) ltac:(cbn; lia)) as FH.
    pose proof (field_digits 2 (t_minute t) ltac:(lia) ltac:(cbn; lia)) as FMi.
    pose proof (field_digits 2 (t_second t) ltac:(lia) ltac:(cbn; lia)) as FS.
    pose proof (field_digits 6 (t_micro t) ltac:(lia) ltac:(cbn; lia)) as FU.
    pose proof (field_digits 2 (Z.abs (t_off t) / 3600) ltac:(lia) ltac:(cbn; lia)) as FOh.
    pose proof (field_digits 2 (Z.abs (t_off t) / 60 mod 60) ltac:(lia) ltac:(cbn; lia)) as FOm.
    change (Z.of_nat 4) with 4 in *. change (Z.of_nat 2) with 2 in *. change (Z.of_nat 6) with 6 in *.
    unfold iso_render, iso_caps. rewrite (format_offset_minutes t colon Htz Hom).
    set (sg := if 0 <=? t_off t then 43 else 45). assert (Hsg : sg = 43 \/ sg = 45) by (unfold sg; destruct (0 <=? t_off t); tauto).
    clearbody sg.
    explode FY. explode FM. explode FD. explode FH. explode FMi. explode FS. explode FU. explode FOh. explode FOm.
    assert (F : Forall2 (simR (iso_re colon)) (iso_rep colon sg)
                  ([z; z0; z1; z2] ++ [45] ++ [z3; z4] ++ [45] ++ [z5; z6] ++ [32] ++ [z7; z8] ++ [58] ++ [z9; z10] ++ [58] ++ [z11; z12] ++ [46]
                   ++ [z13; z14; z15; z16; z17; z18] ++ [32] ++ sg :: [z19; z20] ++ (if colon then [58] else []) ++ [z21; z22])).
    { unfold iso_rep. destruct colon; cbn [app];
        repeat (constructor; [match goal with
                              | |- simR _ ?a ?a => apply iso_sim_refl
                              | |- simR _ 48 _ => apply iso_sim_digit; assumption end|]); constructor. }
    split.
    - rewrite (search_anchored_shape _ _ _ F). apply iso_rep_search. exact Hsg.
    - rewrite (sub_matches_shape _ _ _ _ F).
      destruct Hsg as [-> | ->]; destruct colon; cbn [app length];
        match goal with |- option_map _ ?x = _ =>
          let v := eval vm_compute in x in replace x with v by (vm_compute; reflexivity) end;
        cbn [option_map map tx sub_at fst snd length Nat.sub firstn skipn]; reflexivity.
  Qed.
End IsoMatch.

(* from_format(dt.format(fmt), fmt) = dt's fields and offset, fmt = "YYYY-MM-DD HH:mm:ss.SSSSSS Z" / "... ZZ": no hypothesis left
   about the regex matching step *)
Theorem from_format_inverts_iso_full (rs : bool) (zones : list str) (now : pnow) (colon : bool) (t : pdt) :
  dt_in_range t -> 1000 <= t_year t <= 9999 -> dt_widths t ->
  bind (format [101;110] t (iso_fmt colon)) (fun s => parse rs zones [101;110] now s (iso_fmt colon)) =
  Ok (t_year t, t_month t, t_day t, t_hour t, t_minute t, t_second t, t_micro t, Some (TzFixed (t_off t))).
Proof.
  intros Hr Hy Hw. destruct (iso_render_matches colon t Hr Hy Hw) as [Hs Hm].
  exact (from_format_inverts_iso rs zones now colon t Hr Hy (iso_re colon) (iso_re_pattern colon) Hs Hm).
Qed.

Example from_format_full_hyps_satisfiable : dt_in_range iso_sample /\ 1000 <= t_year iso_sample <= 9999 /\ dt_widths iso_sample.
Proof. unfold dt_in_range, dt_widths. cbn. repeat split; lia. Qed.

