(* Proofs/LocalTime.v — the translated helpers.local_time (Gen/Helpers.v py_local_time) computes the broken-down
   proleptic Gregorian time of (unix_time + utc_offset), for EVERY integer timestamp and offset.
   Method: (1) the 400/100/4/1-year chunk loops work on whole days: adding a time of day r < 86400 to a day-aligned
   second count commutes with every loop; (2) adding 400-year multiples commutes with the year; (3) the remaining
   146 097 day-aligned inputs of one cycle are checked by vm_compute against Spec/Cal.v and lifted by (1), (2) and
   the periodicity of the calendar. *)
From Coq Require Import ZArith List Bool Lia ZifyBool.
From PV Require Import Lib.Reflect Lib.PyBase Spec.Cal Proofs.CalFacts Gen.Constants Gen.Helpers.
Ltac Zify.zify_post_hook ::= Z.to_euclidean_division_equations.
Open Scope Z_scope.

Definition DAY : Z := 86400.
Definition S400 : Z := 12622780800.

(* the part of py_local_time after the 400-year reduction, copied from the generated definition (a change of shape of the
   source breaks `py_local_time_split` below, which is then reported as a broken proof obligation) *)
Definition lt_tail (v_seconds v_year v_microseconds : Z) : option (Z * Z * Z * Z * Z * Z * Z) :=
  let v_leap_year := 1 in
  let v_sec_per_100years := (tidx C_SECS_PER_100_YEARS v_leap_year) in
  match py_local_time_loop1 4%nat v_seconds v_year v_leap_year v_sec_per_100years with
  | None => None
  | Some (v_seconds, v_year, v_leap_year, v_sec_per_100years) =>
  let v_sec_per_4years := (tidx C_SECS_PER_4_YEARS v_leap_year) in
  match py_local_time_loop2 25%nat v_seconds v_year v_leap_year v_sec_per_4years with
  | None => None
  | Some (v_seconds, v_year, v_leap_year, v_sec_per_4years) =>
  let v_sec_per_year := (tidx C_SECS_PER_YEAR v_leap_year) in
  match py_local_time_loop3 4%nat v_seconds v_year v_leap_year v_sec_per_year with
  | None => None
  | Some (v_seconds, v_year, v_leap_year, v_sec_per_year) =>
  let v_month := (C_TM_DECEMBER + 1) in
  let v_day := ((v_seconds / C_SECS_PER_DAY) + 1) in
  let v_seconds := (v_seconds mod C_SECS_PER_DAY) in
  match py_local_time_loop4 13%nat v_leap_year v_day v_month with
  | None => None
  | Some (v_day, v_month) =>
  let '(t_hour, t_seconds) := (v_seconds / C_SECS_PER_HOUR, v_seconds mod C_SECS_PER_HOUR) in let v_hour := t_hour in let v_seconds := t_seconds in
  let '(t_minute, t_second) := (v_seconds / C_SECS_PER_MIN, v_seconds mod C_SECS_PER_MIN) in let v_minute := t_minute in let v_second := t_second in
  Some (v_year, v_month, v_day, v_hour, v_minute, v_second, v_microseconds)
  end end end end.

Definition lt_prefix (v_unix_time v_utc_offset : Z) : Z * Z :=
  let v_year := C_EPOCH_YEAR in
  let v_seconds := v_unix_time in
  let '(v_seconds, v_year) := (if (v_seconds >=? 0) then (
  let v_seconds := (v_seconds - (10957 * C_SECS_PER_DAY)) in
  let v_year := (v_year + 30) in
  (v_seconds, v_year)) else (
  let v_seconds := (v_seconds + ((146097 - 10957) * C_SECS_PER_DAY)) in
  let v_year := (v_year - 370) in
  (v_seconds, v_year))) in
  let v_seconds := (v_seconds + v_utc_offset) in
  let v_year := (v_year + (400 * (v_seconds / C_SECS_PER_400_YEARS))) in
  let v_seconds := (v_seconds mod C_SECS_PER_400_YEARS) in
  let '(v_seconds, v_year) := (if (v_seconds <? 0) then (
  let v_seconds := (v_seconds + C_SECS_PER_400_YEARS) in
  let v_year := (v_year - 400) in
  (v_seconds, v_year)) else (
  (v_seconds, v_year))) in
  (v_seconds, v_year).

Lemma py_local_time_split t off us :
  py_local_time t off us = let '(s, y) := lt_prefix t off in lt_tail s y us.
Proof.
  unfold py_local_time, lt_prefix, lt_tail.
  destruct (t >=? 0); cbv zeta;
  match goal with |- context [if ?c then _ else _] => destruct c end; reflexivity.
Qed.

Lemma consts : C_SECS_PER_DAY = 86400 /\ C_SECS_PER_400_YEARS = 12622780800 /\ C_EPOCH_YEAR = 1970 /\
  C_SECS_PER_HOUR = 3600 /\ C_SECS_PER_MIN = 60 /\ C_TM_DECEMBER = 11 /\ C_TM_JANUARY = 0.
Proof. repeat split; reflexivity. Qed.

Lemma lt_prefix_spec t off :
  let X := t + off - 10957 * 86400 in
  lt_prefix t off = (X mod 12622780800, 2000 + 400 * (X / 12622780800)).
Proof.
  cbv zeta. unfold lt_prefix. destruct consts as (-> & -> & -> & _).
  destruct (t >=? 0) eqn:E; cbv zeta.
  - destruct ((t - 10957 * 86400 + off) mod 12622780800 <? 0) eqn:E2; [lia|]. f_equal; lia.
  - destruct ((t + (146097 - 10957) * 86400 + off) mod 12622780800 <? 0) eqn:E2; [lia|]. f_equal; lia.
Qed.

(* ---------- the chunk loops commute with adding a time of day and with shifting the year ---------- *)
Definition shift4 (r k : Z) (x : option (Z * Z * Z * Z)) : option (Z * Z * Z * Z) :=
  match x with Some (s, y, l, c) => Some (s + r, y + k, l, c) | None => None end.

Ltac loop_shift_tac IH :=
  intros fuel; induction fuel as [|fuel IH]; intros a y l b r k Hr; [reflexivity|];
  cbn [py_local_time_loop1 py_local_time_loop2 py_local_time_loop3];
  match goal with |- context [if ?c then _ else _] =>
    let E := fresh "E" in destruct c eqn:E end;
  match goal with |- context [if ?c then _ else _] =>
    let E2 := fresh "E" in destruct c eqn:E2 end; try lia;
  [ cbv zeta | cbn [shift4]; reflexivity ].

Lemma loop1_shift : forall fuel a y l b r k, 0 <= r < 86400 ->
  py_local_time_loop1 fuel (86400 * a + r) (y + k) l (86400 * b) = shift4 r k (py_local_time_loop1 fuel (86400 * a) y l (86400 * b)).
Proof.
  loop_shift_tac IH.
  replace (86400 * a + r - 86400 * b) with (86400 * (a - b) + r) by lia.
  replace (86400 * a - 86400 * b) with (86400 * (a - b)) by lia.
  replace (y + k + 100) with (y + 100 + k) by lia.
  change (tidx C_SECS_PER_100_YEARS 0) with (86400 * 36524). apply IH. exact Hr.
Qed.

Lemma loop2_shift : forall fuel a y l b r k, 0 <= r < 86400 ->
  py_local_time_loop2 fuel (86400 * a + r) (y + k) l (86400 * b) = shift4 r k (py_local_time_loop2 fuel (86400 * a) y l (86400 * b)).
Proof.
  loop_shift_tac IH.
  replace (86400 * a + r - 86400 * b) with (86400 * (a - b) + r) by lia.
  replace (86400 * a - 86400 * b) with (86400 * (a - b)) by lia.
  replace (y + k + 4) with (y + 4 + k) by lia.
  change (tidx C_SECS_PER_4_YEARS 1) with (86400 * 1461). apply IH. exact Hr.
Qed.

Lemma loop3_shift : forall fuel a y l b r k, 0 <= r < 86400 ->
  py_local_time_loop3 fuel (86400 * a + r) (y + k) l (86400 * b) = shift4 r k (py_local_time_loop3 fuel (86400 * a) y l (86400 * b)).
Proof.
  loop_shift_tac IH.
  replace (86400 * a + r - 86400 * b) with (86400 * (a - b) + r) by lia.
  replace (86400 * a - 86400 * b) with (86400 * (a - b)) by lia.
  replace (y + k + 1) with (y + 1 + k) by lia.
  change (tidx C_SECS_PER_YEAR 0) with (86400 * 365). apply IH. exact Hr.
Qed.

(* the seconds stay day-aligned through the loops *)
Lemma loop1_aligned : forall fuel a y l b s' y' l' c', py_local_time_loop1 fuel (86400 * a) y l (86400 * b) = Some (s', y', l', c') ->
  exists a' b', s' = 86400 * a' /\ c' = 86400 * b' /\ (l' = 0 \/ l' = l).
Proof.
  induction fuel as [|fuel IH]; intros a y l b s' y' l' c' H; [discriminate|].
  cbn [py_local_time_loop1] in H. destruct (86400 * a >=? 86400 * b) eqn:E.
  - cbv zeta in H. replace (86400 * a - 86400 * b) with (86400 * (a - b)) in H by lia.
    change (tidx C_SECS_PER_100_YEARS 0) with (86400 * 36524) in H.
    destruct (IH _ _ _ _ _ _ _ _ H) as (a' & b' & ? & ? & ?). exists a', b'. intuition.
  - injection H as <- <- <- <-. exists a, b. auto.
Qed.
Lemma loop2_aligned : forall fuel a y l b s' y' l' c', py_local_time_loop2 fuel (86400 * a) y l (86400 * b) = Some (s', y', l', c') ->
  exists a' b', s' = 86400 * a' /\ c' = 86400 * b' /\ (l' = 1 \/ l' = l).
Proof.
  induction fuel as [|fuel IH]; intros a y l b s' y' l' c' H; [discriminate|].
  cbn [py_local_time_loop2] in H. destruct (86400 * a >=? 86400 * b) eqn:E.
  - cbv zeta in H. replace (86400 * a - 86400 * b) with (86400 * (a - b)) in H by lia.
    change (tidx C_SECS_PER_4_YEARS 1) with (86400 * 1461) in H.
    destruct (IH _ _ _ _ _ _ _ _ H) as (a' & b' & ? & ? & ?). exists a', b'. intuition.
  - injection H as <- <- <- <-. exists a, b. auto.
Qed.
Lemma loop3_aligned : forall fuel a y l b s' y' l' c', py_local_time_loop3 fuel (86400 * a) y l (86400 * b) = Some (s', y', l', c') ->
  exists a' b', s' = 86400 * a' /\ c' = 86400 * b' /\ (l' = 0 \/ l' = l).
Proof.
  induction fuel as [|fuel IH]; intros a y l b s' y' l' c' H; [discriminate|].
  cbn [py_local_time_loop3] in H. destruct (86400 * a >=? 86400 * b) eqn:E.
  - cbv zeta in H. replace (86400 * a - 86400 * b) with (86400 * (a - b)) in H by lia.
    change (tidx C_SECS_PER_YEAR 0) with (86400 * 365) in H.
    destruct (IH _ _ _ _ _ _ _ _ H) as (a' & b' & ? & ? & ?). exists a', b'. intuition.
  - injection H as <- <- <- <-. exists a, b. auto.
Qed.

(* ---------- the tail commutes with (time of day, year shift) ---------- *)
Definition adjust (r k : Z) (x : option (Z * Z * Z * Z * Z * Z * Z)) : option (Z * Z * Z * Z * Z * Z * Z) :=
  match x with
  | Some (y, m, d, _, _, _, u) => Some (y + k, m, d, r / 3600, (r mod 3600) / 60, (r mod 3600) mod 60, u)
  | None => None
  end.

Lemma tbl100 l : l = 0 \/ l = 1 -> exists b, tidx C_SECS_PER_100_YEARS l = 86400 * b.
Proof. intros [-> | ->]; [exists 36524|exists 36525]; reflexivity. Qed.
Lemma tbl4 l : l = 0 \/ l = 1 -> exists b, tidx C_SECS_PER_4_YEARS l = 86400 * b.
Proof. intros [-> | ->]; [exists 1460|exists 1461]; reflexivity. Qed.
Lemma tbl1 l : l = 0 \/ l = 1 -> exists b, tidx C_SECS_PER_YEAR l = 86400 * b.
Proof. intros [-> | ->]; [exists 365|exists 366]; reflexivity. Qed.

Lemma lt_tail_shift D r y k us : 0 <= r < 86400 ->
  lt_tail (86400 * D + r) (y + k) us = adjust r k (lt_tail (86400 * D) y us).
Proof.
  intros Hr. unfold lt_tail. cbv zeta.
  destruct (tbl100 1 ltac:(auto)) as [b1 ->].
  rewrite loop1_shift by exact Hr.
  destruct (py_local_time_loop1 4 (86400 * D) y 1 (86400 * b1)) as [[[[s1 y1] l1] c1]|] eqn:E1; cbn [shift4 adjust]; [|reflexivity].
  destruct (loop1_aligned _ _ _ _ _ _ _ _ _ E1) as (a1 & _ & -> & _ & Hl1).
  assert (Hl1' : l1 = 0 \/ l1 = 1) by lia.
  destruct (tbl4 l1 Hl1') as [b2 ->].
  rewrite loop2_shift by exact Hr.
  destruct (py_local_time_loop2 25 (86400 * a1) y1 l1 (86400 * b2)) as [[[[s2 y2] l2] c2]|] eqn:E2; cbn [shift4 adjust]; [|reflexivity].
  destruct (loop2_aligned _ _ _ _ _ _ _ _ _ E2) as (a2 & _ & -> & _ & Hl2).
  assert (Hl2' : l2 = 0 \/ l2 = 1) by lia.
  destruct (tbl1 l2 Hl2') as [b3 ->].
  rewrite loop3_shift by exact Hr.
  destruct (py_local_time_loop3 4 (86400 * a2) y2 l2 (86400 * b3)) as [[[[s3 y3] l3] c3]|] eqn:E3; cbn [shift4 adjust]; [|reflexivity].
  destruct (loop3_aligned _ _ _ _ _ _ _ _ _ E3) as (a3 & _ & -> & _ & Hl3).
  destruct consts as (-> & _ & _ & -> & -> & -> & _).
  replace ((86400 * a3 + r) / 86400 + 1) with (86400 * a3 / 86400 + 1) by lia.
  destruct (py_local_time_loop4 13 l3 (86400 * a3 / 86400 + 1) (11 + 1)) as [[dd mm]|]; cbn [adjust]; [|reflexivity].
  replace ((86400 * a3 + r) mod 86400) with r by lia.
  reflexivity.
Qed.

(* the microsecond argument is only passed through *)
Lemma lt_tail_us s y u : lt_tail s y u =
  match lt_tail s y 0 with Some (a, b, c, d, e, f, _) => Some (a, b, c, d, e, f, u) | None => None end.
Proof.
  unfold lt_tail. cbv zeta.
  destruct (py_local_time_loop1 _ _ _ _ _) as [[[[s1 y1] l1] c1]|]; [|reflexivity].
  destruct (py_local_time_loop2 _ _ _ _ _) as [[[[s2 y2] l2] c2]|]; [|reflexivity].
  destruct (py_local_time_loop3 _ _ _ _ _) as [[[[s3 y3] l3] c3]|]; [|reflexivity].
  destruct (py_local_time_loop4 _ _ _ _) as [[dd mm]|]; reflexivity.
Qed.

(* ---------- one 400-year cycle, day-aligned, by reflection ---------- *)
Definition cycle_day_ok (D : Z) : bool :=
  match lt_tail (86400 * D) 2000 0 with
  | Some (y, m, d, hh, mm, ss, u) =>
      valid_dateb y m d && (ymd2ord y m d =? 730120 + D) && (hh =? 0) && (mm =? 0) && (ss =? 0) && (u =? 0)
  | None => false
  end.

Lemma cycle_days_all : forall_range cycle_day_ok 0 146096 = true.
Proof. vm_compute. reflexivity. Qed.

Lemma ord2ymd_shift n q : ord2ymd (n + 146097 * q) = let '(y, m, d) := ord2ymd n in (y + 400 * q, m, d).
Proof.
  unfold ord2ymd.
  replace ((n + 146097 * q - 1) mod 146097) with ((n - 1) mod 146097) by lia.
  replace ((n + 146097 * q - 1) / 146097) with ((n - 1) / 146097 + q) by lia.
  destruct (ord2ymd_cycle ((n - 1) mod 146097)) as [[y m] d]. f_equal. f_equal. lia.
Qed.

(* broken-down time of the second count S = unix_time + utc_offset, as the standard library defines it *)
Definition local_time_spec (S us : Z) : Z * Z * Z * Z * Z * Z * Z :=
  let '(y, m, d) := ord2ymd (S / 86400 + 719163) in
  let r := S mod 86400 in
  (y, m, d, r / 3600, (r mod 3600) / 60, (r mod 3600) mod 60, us).

Theorem py_local_time_spec t off us : py_local_time t off us = Some (local_time_spec (t + off) us).
Proof.
  rewrite py_local_time_split. pose proof (lt_prefix_spec t off) as P. cbv zeta in P. rewrite P. clear P.
  set (X := t + off - 10957 * 86400).
  set (s := X mod 12622780800). set (q := X / 12622780800).
  assert (Hs : 0 <= s < 12622780800) by (unfold s; lia).
  set (D := s / 86400). set (r := s mod 86400).
  assert (HD : 0 <= D <= 146096) by (unfold D; lia).
  assert (Hr : 0 <= r < 86400) by (unfold r; lia).
  replace s with (86400 * D + r) by (unfold D, r; lia).
  replace (2000 + 400 * q) with (2000 + 400 * q) by reflexivity.
  rewrite (lt_tail_shift D r 2000 (400 * q) us Hr).
  pose proof (forall_range_spec _ _ _ cycle_days_all D HD) as C. unfold cycle_day_ok in C.
  rewrite (lt_tail_us (86400 * D) 2000 us).
  destruct (lt_tail (86400 * D) 2000 0) as [[[[[[[y m] d] hh] mm] ss] u]|]; [|discriminate].
  cbn [adjust]. unfold local_time_spec.
  apply andb_true_iff in C; destruct C as [C _]. apply andb_true_iff in C; destruct C as [C _].
  apply andb_true_iff in C; destruct C as [C _]. apply andb_true_iff in C; destruct C as [C _].
  apply andb_true_iff in C; destruct C as [V O].
  assert (HO : ymd2ord y m d = 730120 + D) by lia.
  pose proof (ord2ymd_ymd2ord y m d V) as R. rewrite HO in R.
  replace ((t + off) / 86400 + 719163) with (730120 + D + 146097 * q) by (unfold D, s, q, X; lia).
  rewrite ord2ymd_shift, R.
  replace ((t + off) mod 86400) with r by (unfold r, s, X; lia).
  reflexivity.
Qed.

(* ---------- the Rust twin (Model/RustHelpers.v) equals the Python function ---------- *)
From PV Require Import Gen.RustConstants Model.RustHelpers.

Lemma rs_prefix_eq t off : rs_lt_prefix t off = lt_prefix t off.
Proof.
  rewrite (lt_prefix_spec t off). unfold rs_lt_prefix.
  change RS_SECS_PER_DAY with 86400. change RS_SECS_PER_400_YEARS with 12622780800. change RS_EPOCH_YEAR with 1970.
  destruct (t >=? 0) eqn:E; cbv zeta.
  - destruct (Z.rem (t - 10957 * 86400 + off) 12622780800 <? 0) eqn:E2; f_equal; lia.
  - destruct (Z.rem (t + (146097 - 10957) * 86400 + off) 12622780800 <? 0) eqn:E2; f_equal; lia.
Qed.

Lemma rs_loop1_eq : forall fuel s y l c, rs_lt_loop fuel RS_SECS_PER_100_YEARS 100 0 s y l c = py_local_time_loop1 fuel s y l c.
Proof. induction fuel as [|fuel IH]; intros; [reflexivity|]. cbn [rs_lt_loop py_local_time_loop1]. destruct (s >=? c); [|reflexivity]. cbv zeta. apply IH. Qed.
Lemma rs_loop2_eq : forall fuel s y l c, rs_lt_loop fuel RS_SECS_PER_4_YEARS 4 1 s y l c = py_local_time_loop2 fuel s y l c.
Proof. induction fuel as [|fuel IH]; intros; [reflexivity|]. cbn [rs_lt_loop py_local_time_loop2]. destruct (s >=? c); [|reflexivity]. cbv zeta. apply IH. Qed.
Lemma rs_loop3_eq : forall fuel s y l c, rs_lt_loop fuel RS_SECS_PER_YEAR 1 0 s y l c = py_local_time_loop3 fuel s y l c.
Proof. induction fuel as [|fuel IH]; intros; [reflexivity|]. cbn [rs_lt_loop py_local_time_loop3]. destruct (s >=? c); [|reflexivity]. cbv zeta. apply IH. Qed.
Lemma rs_month_eq : forall fuel l d m, rs_lt_month fuel l d m = py_local_time_loop4 fuel l d m.
Proof.
  induction fuel as [|fuel IH]; intros; [reflexivity|]. cbn [rs_lt_month py_local_time_loop4].
  change RS_TM_JANUARY with C_TM_JANUARY. destruct (negb (m =? C_TM_JANUARY + 1)); [|reflexivity]. cbv zeta.
  change (tidx (tidx2 RS_MONTHS_OFFSETS l) m) with (tidx (tidx2 C_MONTHS_OFFSETS l) m).
  destruct (d >? tidx (tidx2 C_MONTHS_OFFSETS l) m); [reflexivity|apply IH].
Qed.

(* seconds never become negative in the loops *)
Lemma loop1_nonneg : forall fuel s y l c s' y' l' c', 0 <= s -> py_local_time_loop1 fuel s y l c = Some (s', y', l', c') -> 0 <= s'.
Proof. induction fuel as [|fuel IH]; intros s y l c s' y' l' c' Hs H; [discriminate|]. cbn [py_local_time_loop1] in H.
  destruct (s >=? c) eqn:E; [|injection H as <- <- <- <-; exact Hs]. cbv zeta in H.
  destruct (Z_le_gt_dec 0 (s - c)); [eapply IH; eauto|].
  (* s >= c and s - c < 0 would need c > s: impossible *) lia. Qed.
Lemma loop2_nonneg : forall fuel s y l c s' y' l' c', 0 <= s -> py_local_time_loop2 fuel s y l c = Some (s', y', l', c') -> 0 <= s'.
Proof. induction fuel as [|fuel IH]; intros s y l c s' y' l' c' Hs H; [discriminate|]. cbn [py_local_time_loop2] in H.
  destruct (s >=? c) eqn:E; [|injection H as <- <- <- <-; exact Hs]. cbv zeta in H.
  destruct (Z_le_gt_dec 0 (s - c)); [eapply IH; eauto|]. lia. Qed.
Lemma loop3_nonneg : forall fuel s y l c s' y' l' c', 0 <= s -> py_local_time_loop3 fuel s y l c = Some (s', y', l', c') -> 0 <= s'.
Proof. induction fuel as [|fuel IH]; intros s y l c s' y' l' c' Hs H; [discriminate|]. cbn [py_local_time_loop3] in H.
  destruct (s >=? c) eqn:E; [|injection H as <- <- <- <-; exact Hs]. cbv zeta in H.
  destruct (Z_le_gt_dec 0 (s - c)); [eapply IH; eauto|]. lia. Qed.

Lemma rs_tail_eq s y us : 0 <= s -> rs_lt_tail s y us = lt_tail s y us.
Proof.
  intros Hs. unfold rs_lt_tail, lt_tail. cbv zeta.
  rewrite rs_loop1_eq. change (tidx RS_SECS_PER_100_YEARS 1) with (tidx C_SECS_PER_100_YEARS 1).
  destruct (py_local_time_loop1 4 s y 1 (tidx C_SECS_PER_100_YEARS 1)) as [[[[s1 y1] l1] c1]|] eqn:E1; [|reflexivity].
  pose proof (loop1_nonneg _ _ _ _ _ _ _ _ _ Hs E1) as H1.
  rewrite rs_loop2_eq. change (tidx RS_SECS_PER_4_YEARS l1) with (tidx C_SECS_PER_4_YEARS l1).
  destruct (py_local_time_loop2 25 s1 y1 l1 (tidx C_SECS_PER_4_YEARS l1)) as [[[[s2 y2] l2] c2]|] eqn:E2; [|reflexivity].
  pose proof (loop2_nonneg _ _ _ _ _ _ _ _ _ H1 E2) as H2.
  rewrite rs_loop3_eq. change (tidx RS_SECS_PER_YEAR l2) with (tidx C_SECS_PER_YEAR l2).
  destruct (py_local_time_loop3 4 s2 y2 l2 (tidx C_SECS_PER_YEAR l2)) as [[[[s3 y3] l3] c3]|] eqn:E3; [|reflexivity].
  pose proof (loop3_nonneg _ _ _ _ _ _ _ _ _ H2 E3) as H3.
  rewrite rs_month_eq.
  change RS_TM_DECEMBER with C_TM_DECEMBER. change RS_SECS_PER_DAY with C_SECS_PER_DAY.
  change RS_SECS_PER_HOUR with C_SECS_PER_HOUR. change RS_SECS_PER_MIN with C_SECS_PER_MIN.
  destruct consts as (-> & _ & _ & -> & -> & -> & _).
  rewrite Z.quot_div_nonneg by lia. rewrite (Z.rem_mod_nonneg s3 86400) by lia.
  destruct (py_local_time_loop4 13 l3 (s3 / 86400 + 1) (11 + 1)) as [[dd mm]|]; [|reflexivity].
  assert (0 <= s3 mod 86400 < 86400) by lia.
  rewrite (Z.quot_div_nonneg (s3 mod 86400) 3600) by lia. rewrite (Z.rem_mod_nonneg (s3 mod 86400) 3600) by lia.
  assert (0 <= (s3 mod 86400) mod 3600 < 3600) by lia.
  rewrite Z.quot_div_nonneg by lia. rewrite Z.rem_mod_nonneg by lia. reflexivity.
Qed.

Theorem rs_local_time_eq_py t off us : rs_local_time t off us = py_local_time t off us.
Proof.
  unfold rs_local_time. rewrite rs_prefix_eq, py_local_time_split.
  pose proof (lt_prefix_spec t off) as P. cbv zeta in P. rewrite P.
  apply rs_tail_eq. lia.
Qed.

Theorem rs_local_time_spec t off us : rs_local_time t off us = Some (local_time_spec (t + off) us).
Proof. rewrite rs_local_time_eq_py. apply py_local_time_spec. Qed.
