(* Proofs/C02History.v — a wall-clock construction after a history (Model/WallHistory.v).
   set()/on()/at()/replace() read the fold of the instance.  What the earlier steps leave on the instance therefore decides the later
   construction; these lemmas say when a history is transparent (the result is the direct construction with the fold that was asked for)
   and where the code loses the fold (FixedTimezone.convert, DateTime.naive()). *)
From Coq Require Import ZArith List Bool Lia ZifyBool.
From PV Require Import Lib.PyBase Spec.Cal Spec.Zone Proofs.ZoneFacts Model.TzConvert Model.WallHistory Proofs.C02Facts.
Import ListNotations.
Ltac Zify.zify_post_hook ::= Z.to_euclidean_division_equations.
Open Scope Z_scope.

(* a wall time that exists (once or twice) in a named zone is returned as asked for, fold included *)
Lemma convert_exists_keeps z W f : ~ wall_skipped z (sec W) -> convert_naive z W f false = Ok (W, f).
Proof.
  unfold wall_skipped, convert_naive. intros H.
  destruct (off_local z (sec W) true >? off_local z (sec W) false) eqn:E; [lia|].
  rewrite andb_false_r. reflexivity.
Qed.

(* built in a named zone z1 (UTC included) where the wall time exists, then read in another zone: the direct construction, requested fold *)
Lemma named_zone_transparent z1 z2 fx2 W f st : ~ wall_skipped z1 (sec W) ->
  hfinal st [OCreate z1 false W f false; OSetTz z2 fx2] = hfinal st [OCreate z2 fx2 W f false].
Proof.
  intros H. cbn [hfinal hstep build create]. rewrite (convert_exists_keeps z1 W f H). cbn [h_W h_f build].
  destruct (create z2 fx2 W f false) as [[W' f']|e]; reflexivity.
Qed.

(* UTC (any named zone without transitions): no hypothesis at all, whatever raise_on_unknown_times was *)
Lemma utc_transparent o z2 fx2 W f r st :
  hfinal st [OCreate (fixed_zone o) false W f r; OSetTz z2 fx2] = hfinal st [OCreate z2 fx2 W f false].
Proof.
  cbn [hfinal hstep build create]. rewrite create_fixed. cbn [h_W h_f build].
  destruct (create z2 fx2 W f false) as [[W' f']|e]; reflexivity.
Qed.

(* other fields in the same zone (set / on / at / replace) *)
Lemma set_wall_transparent z W W' f st : ~ wall_skipped z (sec W) ->
  hfinal st [OCreate z false W f false; OSetWall W'] = hfinal st [OCreate z false W' f false].
Proof.
  intros H. cbn [hfinal hstep build create]. rewrite (convert_exists_keeps z W f H). cbn [h_W h_f h_tz build create].
  destruct (convert_naive z W' f false) as [[W2 f2]|e]; reflexivity.
Qed.

(* two hops: the fold asked for at the very beginning is still the one that decides *)
Lemma two_hops_transparent z1 z2 W0 W f st : ~ wall_skipped z1 (sec W0) -> ~ wall_skipped z2 (sec W0) ->
  hfinal st [OCreate z1 false W0 f false; OSetTz z2 false; OSetWall W] = hfinal st [OCreate z2 false W f false].
Proof.
  intros H1 H2. cbn [hfinal hstep build create]. rewrite (convert_exists_keeps z1 W0 f H1). cbn [h_W h_f h_tz build create].
  rewrite (convert_exists_keeps z2 W0 f H2). cbn [h_W h_f h_tz build create].
  destruct (convert_naive z2 W f false) as [[W2 f2]|e]; reflexivity.
Qed.

(* replace(fold=f') is the explicit request *)
Lemma set_fold_decides z1 z2 fx2 W f f' st : ~ wall_skipped z1 (sec W) ->
  hfinal st [OCreate z1 false W f false; OSetFold f'; OSetTz z2 fx2] = hfinal st [OCreate z2 fx2 W f' false].
Proof.
  intros H. cbn [hfinal hstep build create]. rewrite (convert_exists_keeps z1 W f H). cbn [h_W h_f h_tz build create].
  rewrite (convert_exists_keeps z1 W f' H). cbn [h_W h_f h_tz build create].
  destruct (create z2 fx2 W f' false) as [[W' f'']|e]; reflexivity.
Qed.

(* replace(tzinfo=None) keeps the fold *)
Lemma replace_no_tz_transparent z2 fx2 st :
  hfinal st [OReplaceNoTz; OSetTz z2 fx2] = hfinal st [OSetTz z2 fx2].
Proof. reflexivity. Qed.

(* a value that had to be moved out of a gap is an ordinary time and carries fold 0 (native `+` drops the fold) *)
Lemma after_shift_fold0 z1 z2 fx2 W (f : bool) st : wf2_zone z1 = true -> wall_skipped z1 (sec W) ->
  let g := off_local z1 (sec W) true - off_local z1 (sec W) false in
  let W1 := if f then W + MEG * g else W - MEG * g in
  wall_in_range W1 = true ->
  hfinal st [OCreate z1 false W f false; OSetTz z2 fx2] = hfinal st [OCreate z2 fx2 W1 false false].
Proof.
  intros Hwf Hs g W1 Hr. destruct (create_skipped z1 W true Hwf Hs) as (_ & Hf & Hb & _).
  cbn [hfinal hstep build create]. unfold W1, g in *. destruct f.
  - rewrite (Hf Hr). cbn [h_W h_f build]. match goal with |- context [create z2 fx2 ?w false false] => destruct (create z2 fx2 w false false) as [[W' f']|e]; reflexivity end.
  - rewrite (Hb Hr). cbn [h_W h_f build]. match goal with |- context [create z2 fx2 ?w false false] => destruct (create z2 fx2 w false false) as [[W' f']|e]; reflexivity end.
Qed.

(* ---- FixedTimezone.convert forces fold 0: the later construction is the fold-0 reading, whatever was asked for *)
Lemma fixed_offset_is_fold0_reading z1 z2 fx2 W f r st :
  hfinal st [OCreate z1 true W f r; OSetTz z2 fx2] = hfinal st [OCreate z2 fx2 W false false].
Proof.
  cbn [hfinal hstep build create convert_naive_fixed h_W h_f].
  destruct (create z2 fx2 W false false) as [[W' f']|e]; reflexivity.
Qed.

Definition paris13 : zone := mkzone 3600 [(1364691600, 7200); (1382835600, 3600)].
Definition W_rep : Z := (1382835600 + 3600 + 1800) * MEG.    (* repeated in paris13 *)
Definition W_skip : Z := (1364691600 + 3600 + 1800) * MEG.   (* skipped in paris13 *)

(* the same fields, default fold 1: built in a fixed offset and then read in the zone they denote the EARLIER instant (an hour off),
   and a skipped wall time goes backward instead of forward *)
Lemma fixed_offset_refuted :
  exists z1 z2 W s1 s2, wf2_zone z2 = true /\ wall_repeated z2 (sec W) /\
    hfinal hinit [OCreate z1 true W true false; OSetTz z2 false] = Ok s1 /\
    hfinal hinit [OCreate z2 false W true false] = Ok s2 /\
    inst z2 (h_W s1) (h_f s1) + 3600 * MEG = inst z2 (h_W s2) (h_f s2).
Proof.
  exists (fixed_zone 3600), paris13, W_rep.
  eexists. eexists. split; [reflexivity|]. split; [unfold wall_repeated; vm_compute; reflexivity|].
  split; [vm_compute; reflexivity|]. split; [vm_compute; reflexivity|]. vm_compute. reflexivity.
Qed.

Lemma fixed_offset_skipped_refuted :
  exists z1 z2 W s1 s2, wf2_zone z2 = true /\ wall_skipped z2 (sec W) /\
    hfinal hinit [OCreate z1 true W true false; OSetTz z2 false] = Ok s1 /\
    hfinal hinit [OCreate z2 false W true false] = Ok s2 /\
    h_W s1 = W - 3600 * MEG /\ h_W s2 = W + 3600 * MEG.
Proof.
  exists (fixed_zone 3600), paris13, W_skip.
  eexists. eexists. split; [reflexivity|]. split; [unfold wall_skipped; vm_compute; reflexivity|].
  split; [vm_compute; reflexivity|]. split; [vm_compute; reflexivity|]. split; vm_compute; reflexivity.
Qed.

(* where the loss does not show: fold 0 was asked for (fixed_offset_is_fold0_reading with f = false is the direct construction), or the wall
   time exists once in the target zone (same fields, same instant; only the attribute fold differs) *)
Lemma fixed_offset_partial z1 z2 W f r st : wall_unique z2 (sec W) ->
  exists s1 s2, hfinal st [OCreate z1 true W f r; OSetTz z2 false] = Ok s1 /\ hfinal st [OCreate z2 false W f false] = Ok s2 /\
    h_W s1 = h_W s2 /\ h_tz s1 = h_tz s2 /\ inst z2 (h_W s1) (h_f s1) = inst z2 (h_W s2) (h_f s2).
Proof.
  intros Hu. assert (Hn : ~ wall_skipped z2 (sec W)) by (unfold wall_unique, wall_skipped in *; lia).
  rewrite fixed_offset_is_fold0_reading. cbn [hfinal hstep build create].
  rewrite (convert_exists_keeps z2 W false Hn), (convert_exists_keeps z2 W f Hn).
  eexists. eexists. repeat split. cbn [h_W h_f]. unfold inst, sec, wall_unique in *. destruct f; lia.
Qed.

(* ---- DateTime.naive() does not forward the fold *)
Lemma naive_method_is_fold0_reading z2 fx2 st :
  hfinal st [ODropTz; OSetTz z2 fx2] = hfinal (mkhst None (h_W st) false) [OSetTz z2 fx2].
Proof. reflexivity. Qed.

Lemma naive_method_refuted :
  exists z2 W s1 s2, wf2_zone z2 = true /\ wall_repeated z2 (sec W) /\
    hfinal hinit [OCreate (fixed_zone 0) false W true false; ODropTz; OSetTz z2 false] = Ok s1 /\
    hfinal hinit [OCreate (fixed_zone 0) false W true false; OReplaceNoTz; OSetTz z2 false] = Ok s2 /\
    hfinal hinit [OCreate z2 false W true false] = Ok s2 /\
    inst z2 (h_W s1) (h_f s1) + 3600 * MEG = inst z2 (h_W s2) (h_f s2).
Proof.
  exists paris13, W_rep. eexists. eexists. split; [reflexivity|]. split; [unfold wall_repeated; vm_compute; reflexivity|].
  split; [vm_compute; reflexivity|]. split; [vm_compute; reflexivity|]. split; vm_compute; reflexivity.
Qed.

Lemma naive_method_partial z1 z2 W f st : ~ wall_skipped z1 (sec W) -> wall_unique z2 (sec W) ->
  exists s1 s2, hfinal st [OCreate z1 false W f false; ODropTz; OSetTz z2 false] = Ok s1 /\ hfinal st [OCreate z2 false W f false] = Ok s2 /\
    h_W s1 = h_W s2 /\ h_tz s1 = h_tz s2 /\ inst z2 (h_W s1) (h_f s1) = inst z2 (h_W s2) (h_f s2).
Proof.
  intros H1 Hu. assert (Hn : ~ wall_skipped z2 (sec W)) by (unfold wall_unique, wall_skipped in *; lia).
  cbn [hfinal hstep build create]. rewrite (convert_exists_keeps z1 W f H1). cbn [h_W h_f h_tz build create].
  rewrite (convert_exists_keeps z2 W false Hn), (convert_exists_keeps z2 W f Hn).
  eexists. eexists. repeat split. cbn [h_W h_f]. unfold inst, sec, wall_unique in *. destruct f; lia.
Qed.

(* the hypotheses are satisfiable together: a wall time that exists in UTC and is repeated / skipped in the target zone *)
Example history_hypotheses_satisfiable :
  ~ wall_skipped (fixed_zone 0) (sec W_rep) /\ wall_repeated paris13 (sec W_rep) /\ wall_skipped paris13 (sec W_skip) /\
  wall_unique paris13 (sec (W_rep + 7200 * MEG)) /\ wf2_zone paris13 = true.
Proof. unfold wall_skipped, wall_repeated, wall_unique. vm_compute. repeat split; try reflexivity; discriminate. Qed.
