(* Proofs/ShippedZones.v — the tz database that pendulum actually reads (Gen/ZoneTables.v, regenerated on every run from the staged interpreter's zoneinfo) is WELL-FORMED,
   checked by the kernel: every distinct shipped table satisfies wf2_zone (transition times strictly increasing, |offset| < 24 h, gap/overlap regions of
   neighbouring transitions disjoint and separated).  Consequently the zone theorems of C01/C02 (PEP 495 round trip, conversion, construction rules) apply to the
   concrete zones without any hypothesis.  POSIX-rule transitions are expanded up to the year stated in Gen/ZoneTables.v (the window theorems of ZoneWindow.v say that
   lookups only depend on the neighbouring transitions, so later rule years behave like the expanded ones as long as the rule itself is well-formed). *)
From Coq Require Import ZArith List Bool Lia Arith.
From PV Require Import Lib.PyBase Spec.Cal Spec.Zone Gen.ZoneTables Model.TzConvert Proofs.ZoneFacts Proofs.C01Facts Proofs.C02Facts.
Import ListNotations.
Open Scope Z_scope.

Lemma shipped_wf2_all : forallb wf2_zone shipped_zones = true.
Proof. vm_compute. reflexivity. Qed.

Lemma shipped_wf2 : forall z, In z shipped_zones -> wf2_zone z = true.
Proof. intros z Hz. exact (proj1 (forallb_forall wf2_zone shipped_zones) shipped_wf2_all z Hz). Qed.

Lemma wf2_wf : forall z, wf2_zone z = true -> wf_zone z = true.
Proof. intros z H. unfold wf2_zone in H. apply andb_true_iff in H. exact (proj1 H). Qed.

Lemma shipped_wf : forall z, In z shipped_zones -> wf_zone z = true.
Proof. intros z Hz. apply wf2_wf, shipped_wf2, Hz. Qed.

(* the data is not trivial: hundreds of distinct tables, tens of thousands of transitions *)
Lemma shipped_data_size : (300 <= length shipped_zones)%nat /\ 30000 <= SHIPPED_TRANSITIONS_COUNT /\ 590 <= SHIPPED_NAMES_COUNT
  /\ SHIPPED_TRANSITIONS_COUNT = Z.of_nat (fold_right (fun z n => (length (z_trans z) + n)%nat) 0%nat shipped_zones).
Proof.
  split; [apply Nat.leb_le; vm_compute; reflexivity|].
  split; [apply Z.leb_le; vm_compute; reflexivity|].
  split; [apply Z.leb_le; vm_compute; reflexivity|].
  vm_compute. reflexivity.
Qed.

Fixpoint trans_eqb (l1 l2 : list (Z * Z)) : bool :=
  match l1, l2 with
  | [], [] => true
  | (t1, o1) :: r1, (t2, o2) :: r2 => (t1 =? t2) && (o1 =? o2) && trans_eqb r1 r2
  | _, _ => false
  end.
Definition zone_eqb (a b : zone) : bool := (z_init a =? z_init b) && trans_eqb (z_trans a) (z_trans b).

Lemma trans_eqb_eq : forall l1 l2, trans_eqb l1 l2 = true -> l1 = l2.
Proof.
  induction l1 as [|[t1 o1] r1 IH]; destruct l2 as [|[t2 o2] r2]; cbn [trans_eqb]; intro H; try discriminate; [reflexivity|].
  apply andb_true_iff in H. destruct H as [H Hr]. apply andb_true_iff in H. destruct H as [Ht Ho].
  apply Z.eqb_eq in Ht. apply Z.eqb_eq in Ho. subst. f_equal. apply IH, Hr.
Qed.

Lemma zone_eqb_eq : forall a b, zone_eqb a b = true -> a = b.
Proof.
  intros [ia ta] [ib tb] H. unfold zone_eqb in H. cbn [z_init z_trans] in H. apply andb_true_iff in H. destruct H as [Hi Ht].
  apply Z.eqb_eq in Hi. apply trans_eqb_eq in Ht. subst. reflexivity.
Qed.

Lemma memb_In : forall z l, existsb (zone_eqb z) l = true -> In z l.
Proof.
  intros z l H. apply existsb_exists in H. destruct H as (x & Hx & E). apply zone_eqb_eq in E. subst. exact Hx.
Qed.

Lemma named_zones_shipped :
  In zone_Europe_Paris shipped_zones /\ In zone_America_New_York shipped_zones /\ In zone_Australia_Lord_Howe shipped_zones /\
  In zone_Pacific_Apia shipped_zones /\ In zone_Pacific_Kiritimati shipped_zones /\ In zone_America_Sao_Paulo shipped_zones /\
  In zone_Asia_Kathmandu shipped_zones /\ In zone_UTC shipped_zones.
Proof. repeat split; apply memb_In; vm_compute; reflexivity. Qed.

(* ---- the zone theorems, for the shipped zones, without hypotheses *)
Lemma shipped_render_inst : forall z U, In z shipped_zones -> let '(W, f) := render z U in inst z W f = U.
Proof. intros z U Hz. apply render_inst. apply shipped_wf, Hz. Qed.

Lemma shipped_conversion : forall z1 z2 W f W' f', In z2 shipped_zones -> astz z1 z2 W f = Ok (W', f') ->
  inst z2 W' f' = inst z1 W f /\
  W' = inst z1 W f + MEG * off_utc z2 (inst z1 W f / MEG) /\ f' = fold_utc z2 (inst z1 W f / MEG).
Proof. intros z1 z2 W f W' f' Hz. apply in_tz_spec. apply shipped_wf, Hz. Qed.

Lemma shipped_chain : forall z1 z2 z3 W f W2 f2, In z2 shipped_zones -> astz z1 z2 W f = Ok (W2, f2) ->
  astz z2 z3 W2 f2 = astz z1 z3 W f.
Proof. intros z1 z2 z3 W f W2 f2 Hz. apply in_tz_chain. apply shipped_wf, Hz. Qed.

Lemma shipped_timestamp : forall z n W f, In z shipped_zones -> from_timestamp_int z false n = Ok (W, f) -> int_timestamp z W f = n.
Proof. intros z n W f Hz. apply from_timestamp_roundtrip. apply shipped_wf, Hz. Qed.

Lemma shipped_trichotomy : forall z w, In z shipped_zones ->
  (wall_unique z w /\ (forall u, renders_to z u w <-> u = w - off_local z w false)) \/
  (wall_repeated z w /\ (forall u, renders_to z u w <-> (u = w - off_local z w false \/ u = w - off_local z w true)) /\
     fold_utc z (w - off_local z w false) = false /\ fold_utc z (w - off_local z w true) = true) \/
  (wall_skipped z w /\ forall u, ~ renders_to z u w).
Proof. intros z w Hz. apply wall_trichotomy. apply shipped_wf, Hz. Qed.

Lemma shipped_construct_valid : forall z W f r W' f', In z shipped_zones -> convert_naive z W f r = Ok (W', f') ->
  let U := inst z W' f' in fst (render z U) = W' /\ off_utc z (U / MEG) = off_local z (sec W') f'.
Proof. intros z W f r W' f' Hz. apply create_valid. apply shipped_wf2, Hz. Qed.

Lemma shipped_construct_skipped : forall z W, In z shipped_zones -> wall_skipped z (sec W) ->
  let g := off_local z (sec W) true - off_local z (sec W) false in
  0 < g /\
  (wall_in_range (W + MEG * g) = true -> convert_naive z W true false = Ok (W + MEG * g, false)) /\
  (wall_in_range (W - MEG * g) = true -> convert_naive z W false false = Ok (W - MEG * g, false)).
Proof.
  intros z W Hz Hs. destruct (create_skipped z W true (shipped_wf2 z Hz) Hs) as (A & B & C & _). cbv zeta. auto.
Qed.
