(* Proofs/C08Doy.v — C08: the day-of-year tokens DDDD / DDD of from_format.
   Formatter._check_parsed resolves a parsed day of the year through pendulum.parse(f"{year}-{doy:>03d}") — the ISO 8601 ordinal date of the
   ACTIVE parser backend (Model/FormatterParse.doy_to_md_py / doy_to_md_rs).  Here:
     * the step inverts the day of the year format() renders (tm_yday = days_before_month + day) for EVERY valid date of every year, in both backends —
       day 1, the days around the end of February, the last day of every month, day 365 and day 366 of a leap year included;
     * the step rejects (ParserError, a ValueError) exactly the day numbers the year does not have (0, 366 of a common year, 367 ...);
     * _check_parsed on {year, day_of_year} gives the date back (fields absent from the format: time 0, no zone);
     * the compiled backend's step IS the code: doy_to_md_rs equals the TRANSLATION of rust/src/parsing.rs Parser::ordinal_to_ymd (Gen/RustParsingDatesGen.v, regenerated on every run),
       so an edit of that function (e.g. a half-open range that drops day 366) breaks this file. *)
From Coq Require Import ZArith List Bool Lia ZifyBool.
From PV Require Import Lib.PyBase Spec.Cal Proofs.CalFacts Proofs.C07Cal.
From PV Require Import Gen.RustConstants Model.FormatterBase Model.FormatterParse Proofs.C08Facts.
From PV Require Import Model.IsoParse Gen.RustParsingDatesGen Proofs.RustParsingDatesFacts.
Import ListNotations.
Open Scope Z_scope.

(* what format() renders for DDDD / DDD: the day of the year of a valid date *)
Definition yday_of (y m d : Z) : Z := days_before_month y m + d.

Lemma ymd2ord_as_yday y m d : ymd2ord y m d = ymd2ord y 1 1 + yday_of y m d - 1.
Proof. unfold ymd2ord, yday_of, days_before_month. rewrite dbm_1. lia. Qed.

Lemma md_of_yday_inverts_yday y m d : valid_dateb y m d = true -> md_of_yday y (yday_of y m d) = (m, d).
Proof.
  intros V. pose proof (yday_bounds _ _ _ V) as B. fold (yday_of y m d) in B.
  pose proof (ord2ymd_yday y _ B) as E. rewrite <- ymd2ord_as_yday in E. rewrite (ord2ymd_ymd2ord _ _ _ V) in E.
  destruct (md_of_yday y (yday_of y m d)) as [m' d']. cbn [fst snd] in E. congruence.
Qed.

Definition doy_step (rs : bool) : Z -> Z -> result (Z * Z) := if rs then doy_to_md_rs else doy_to_md_py.

Theorem doy_step_inverts_yday rs y m d : valid_dateb y m d = true -> doy_step rs y (yday_of y m d) = Ok (m, d).
Proof.
  intros V. pose proof (yday_bounds _ _ _ V) as B. fold (yday_of y m d) in B.
  assert (P : doy_to_md_py y (yday_of y m d) = Ok (m, d)).
  { unfold doy_to_md_py. replace ((1 <=? yday_of y m d) && (yday_of y m d <=? days_in_year y)) with true by lia.
    rewrite (md_of_yday_inverts_yday _ _ _ V). reflexivity. }
  destruct rs; cbn [doy_step]; [rewrite doy_to_md_backends_agree|]; exact P.
Qed.

Theorem doy_step_rejects_missing_day rs y doy : doy < 1 \/ days_in_year y < doy -> doy_step rs y doy = Raise E_ParserError.
Proof.
  intros H. assert (P : doy_to_md_py y doy = Raise E_ParserError).
  { unfold doy_to_md_py. replace ((1 <=? doy) && (doy <=? days_in_year y)) with false by lia. reflexivity. }
  destruct rs; cbn [doy_step]; [rewrite doy_to_md_backends_agree|]; exact P.
Qed.

(* the last day of a leap year in particular (day 366 = December 31), and day 366 of a common year is refused *)
Corollary doy_step_day_366 rs y : doy_step rs y 366 = if is_leap y then Ok (12, 31) else Raise E_ParserError.
Proof.
  destruct (is_leap y) eqn:L.
  - assert (V : valid_dateb y 12 31 = true) by (unfold valid_dateb, dim; rewrite L; reflexivity).
    pose proof (doy_step_inverts_yday rs y 12 31 V) as E. unfold yday_of, days_before_month in E. rewrite L in E. exact E.
  - apply doy_step_rejects_missing_day. unfold days_in_year. rewrite L. lia.
Qed.

(* _check_parsed on what 'YYYY DDDD' / 'YYYY-DDD' leaves in `parsed`: the year and the day of the year *)
Definition parsed_y_doy (y doy : Z) : parsed := set_doy (Some doy) (set_year (Some y) parsed0).

Theorem check_parsed_inverts_day_of_year rs now y m d : 1000 <= y <= 9999 -> valid_dateb y m d = true ->
  check_parsed rs (parsed_y_doy y (yday_of y m d)) now = Ok (y, m, d, 0, 0, 0, 0, None).
Proof.
  intros Hy V. pose proof (yday_bounds _ _ _ V) as B. fold (yday_of y m d) in B.
  pose proof (doy_step_inverts_yday rs y m d V) as S. unfold doy_step in S.
  unfold check_parsed, parsed_y_doy, parsed0, set_doy, set_year. cbn [p_ts p_year p_month p_day p_hour p_minute p_second p_micro p_tz p_quarter p_dow p_doy p_pm].
  unfold check_parsed_fields. cbn [p_ts p_year p_month p_day p_hour p_minute p_second p_micro p_tz p_quarter p_dow p_doy p_pm bind].
  replace ((1000 <=? y) && (y <=? 9999) && (0 <=? yday_of y m d)) with true by lia.
  rewrite S. cbn [bind]. reflexivity.
Qed.

(* the day of the year alone ('DDDD'): the year comes from `now` *)
Definition parsed_doy (doy : Z) : parsed := set_doy (Some doy) parsed0.

Theorem check_parsed_day_of_year_fills_year_from_now rs now m d : 1000 <= n_year now <= 9999 -> valid_dateb (n_year now) m d = true ->
  check_parsed rs (parsed_doy (yday_of (n_year now) m d)) now = Ok (n_year now, m, d, 0, 0, 0, 0, None).
Proof.
  intros Hy V. pose proof (yday_bounds _ _ _ V) as B. fold (yday_of (n_year now) m d) in B.
  pose proof (doy_step_inverts_yday rs (n_year now) m d V) as S. unfold doy_step in S.
  unfold check_parsed, parsed_doy, parsed0, set_doy. cbn [p_ts p_year p_month p_day p_hour p_minute p_second p_micro p_tz p_quarter p_dow p_doy p_pm].
  unfold check_parsed_fields. cbn [p_ts p_year p_month p_day p_hour p_minute p_second p_micro p_tz p_quarter p_dow p_doy p_pm bind].
  replace ((1000 <=? n_year now) && (n_year now <=? 9999) && (0 <=? yday_of (n_year now) m d)) with true by lia.
  rewrite S. cbn [bind]. reflexivity.
Qed.

Theorem check_parsed_rejects_missing_day rs now y doy : 1000 <= y <= 9999 -> 0 <= doy -> (doy < 1 \/ days_in_year y < doy) ->
  check_parsed rs (parsed_y_doy y doy) now = Raise E_ParserError.
Proof.
  intros Hy H0 H. pose proof (doy_step_rejects_missing_day rs y doy H) as S. unfold doy_step in S.
  unfold check_parsed, parsed_y_doy, parsed0, set_doy, set_year. cbn [p_ts p_year p_month p_day p_hour p_minute p_second p_micro p_tz p_quarter p_dow p_doy p_pm].
  unfold check_parsed_fields. cbn [p_ts p_year p_month p_day p_hour p_minute p_second p_micro p_tz p_quarter p_dow p_doy p_pm bind].
  replace ((1000 <=? y) && (y <=? 9999) && (0 <=? doy)) with true by lia.
  rewrite S. reflexivity.
Qed.

(* ------------------------------------------------------------------ the compiled step is the code *)
Definition md_of_rs (r : option (Z * Z * Z)) : result (Z * Z) :=
  match r with Some (_, m, d) => Ok (m, d) | None => Raise E_ParserError end.

Lemma doy_to_md_rs_is_model y doy : 0 <= y -> doy_to_md_rs y doy = md_of_rs (rs_ordinal_to_ymd y doy false).
Proof.
  intros Hy. destruct (Z_le_dec 1 doy) as [H1|H1]; [destruct (Z_le_dec doy (days_in_year y)) as [H2|H2]|].
  - rewrite doy_to_md_rs_spec by lia. rewrite rs_ordinal_spec by lia. rewrite ord2ymd_yday by lia.
    destruct (md_of_yday y doy) as [m d]. reflexivity.
  - rewrite rs_ordinal_reject by lia. unfold doy_to_md_rs. replace ((1 <=? doy) && (doy <=? days_in_year y)) with false by lia. reflexivity.
  - rewrite rs_ordinal_reject by lia. unfold doy_to_md_rs. replace ((1 <=? doy) && (doy <=? days_in_year y)) with false by lia. reflexivity.
Qed.

Theorem doy_to_md_rs_is_code y doy : 1 <= y <= 100000 -> -100000 <= doy <= 100000 ->
  doy_to_md_rs y doy = md_of_rs (gen_rsp_ordinal_to_ymd y doy false).
Proof. intros Hy Hd. rewrite gen_rsp_ordinal_to_ymd_eq by lia. apply doy_to_md_rs_is_model. lia. Qed.

(* the hypotheses are satisfiable, and the corner the half-open range `1..366` would lose *)
Example doy_code_day_366 : md_of_rs (gen_rsp_ordinal_to_ymd 2024 366 false) = Ok (12, 31) /\ md_of_rs (gen_rsp_ordinal_to_ymd 2023 366 false) = Raise E_ParserError
  /\ md_of_rs (gen_rsp_ordinal_to_ymd 2000 60 false) = Ok (2, 29) /\ md_of_rs (gen_rsp_ordinal_to_ymd 1900 60 false) = Ok (3, 1).
Proof. vm_compute. repeat split; reflexivity. Qed.
