(* Proofs/IntervalGlueNew.v (stage 1 of Proofs/IntervalGlueFacts.v) — the hand-written model Model/IntervalLen.v (C05; C06 C18 C19 build on it) EQUALS the machine translation of
   pendulum's Interval construction and `-` / diff entry points (Gen/IntervalGlue.v, translated from /repo on every run).
   Stage 1: the (large, continuation-duplicating) translation of Interval.__new__ is the small function spec_new over the same primitives
   (generic case analysis, nothing matched syntactically).  Stage 2: spec_new is interval_new_delta on the endpoints ep_of.
   obj_ok o: the class tag is 0..3, the value lies in years 1..9999, fold is 0/1, a date carries no tzinfo and sits at midnight, a timezone
   object has a non-zero identity tag and (FixedTimezone) the table fixed_zone of its offset. *)
From Coq Require Import ZArith List Bool Lia ZifyBool.
From PV Require Import Lib.PyBase Spec.Cal Spec.Zone Spec.NativeDT Spec.TdFloat Proofs.CalFacts Proofs.ZoneFacts Model.TzConvert Model.Duration.
From PV Require Import Model.TzGlueObj Gen.TzGlue Model.WallHistory Proofs.TzGlueFacts Model.IntervalObj Gen.IntervalGlue Model.IntervalLen.
Import ListNotations.
Open Scope Z_scope.

(* ---------- stage 1: the translated Interval.__new__ is this small function over the same primitives ---------- *)
Definition is_none (t : option gtz) : bool := match t with None => true | Some _ => false end.
Definition native_of (o : gobj) : result gobj :=
  if is_pdt o then o_dt_new (o_year o) (o_month o) (o_day o) (o_hour o) (o_minute o) (o_second o) (o_microsecond o) (o_tz o) (o_fold o)
  else if is_pdate o then o_date_new (o_year o) (o_month o) (o_day o) else Ok o.
Definition spec_tail (s e : gobj) : result Z :=
  bind (native_of s) (fun s' => bind (native_of e) (fun e' =>
  if is_dt s' && is_dt e' && opt_gtz_is (o_tz s') (o_tz e') then
    bind (if negb (is_none (o_tz s')) then bind (o_sub_opt_td s' (o_utcoffset s)) (fun x => Ok (o_replace_tz x None)) else Ok s') (fun s2 =>
    bind (if is_dt e && negb (is_none (o_tz e')) then bind (o_sub_opt_td e' (o_utcoffset e)) (fun x => Ok (o_replace_tz x None)) else Ok e') (fun e2 =>
    o_sub e2 s2))
  else o_sub e' s')).
Definition spec_new (a b : gobj) (abs : bool) : result Z :=
  if is_dt a && negb (is_dt b) || negb (is_dt a) && is_dt b then Raise E_ValueError
  else if is_dt a && is_dt b && (is_none (o_tz a) && negb (is_none (o_tz b)) || negb (is_none (o_tz a)) && is_none (o_tz b)) then Raise E_TypeError
  else if abs then bind (obj_gt a b) (fun g => if g then spec_tail b a else spec_tail a b)
  else spec_tail a b.

Ltac crush :=
  repeat (cbv beta iota zeta; cbn [bind];
          match goal with
          | |- ?x = ?x => reflexivity
          | |- context [if ?c then _ else _] => destruct c eqn:?
          | |- context [match ?x with Ok _ => _ | Raise _ => _ end] => destruct x eqn:?
          | |- context [match ?x with Some _ => _ | None => _ end] => destruct x eqn:?
          end); try reflexivity; try congruence.

Lemma glue_new_is_spec a b abs : glue_Interval_new_delta a b abs = spec_new a b abs.
Proof.
  unfold glue_Interval_new_delta, spec_new, spec_tail, native_of, is_none.
  crush.
Qed.

